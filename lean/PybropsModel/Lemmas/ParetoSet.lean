/-
Helper lemmas for C19: antisymmetry of the vector test, naturality of the two-list filter under a
test-preserving map (used for rescaling invariance), membership characterisation of the result.
-/
import PybropsModel.Lemmas.ParetoVec
set_option autoImplicit false
set_option linter.unusedSectionVars false

namespace C19
open Pareto

section
variable {α : Type} [LinearOrder α]

theorem weakDom_antisymm (a b : List α) (h : a.length = b.length)
    (h1 : weakDom a b = true) (h2 : weakDom b a = true) : a = b := by
  rw [weakDom_iff] at h1 h2
  apply List.ext_getElem h
  intro i ha hb
  exact le_antisymm (h1 i ha hb) (h2 i hb ha)

end

/-- the two-list filter commutes with any map that preserves the test on the points involved -/
theorem paretoGo_map {P Q : Type} (f : P → Q) (wd : P → P → Bool) (wd' : Q → Q → Bool) :
    ∀ (n : ℕ) (done rest : List P), rest.length = n →
      (∀ a ∈ done ++ rest, ∀ b ∈ done ++ rest, wd' (f a) (f b) = wd a b) →
      paretoGo wd' (done.map f) (rest.map f) = (paretoGo wd done rest).map f := by
  intro n
  induction n using Nat.strong_induction_on with
  | _ n ih =>
    intro done rest hlen hpres
    cases rest with
    | nil => simp [paretoGo]
    | cons p rest =>
      rw [List.map_cons, paretoGo, paretoGo]
      have hp : p ∈ done ++ p :: rest := by simp
      have e1 : (done.map f).filter (fun r => !wd' r (f p)) = (done.filter (fun r => !wd r p)).map f := by
        rw [List.filter_map]
        congr 1
        apply List.filter_congr
        intro a ha
        simp only [Function.comp]
        rw [hpres a (List.mem_append.mpr (Or.inl ha)) p hp]
      have e2 : (rest.map f).filter (fun r => !wd' r (f p)) = (rest.filter (fun r => !wd r p)).map f := by
        rw [List.filter_map]
        congr 1
        apply List.filter_congr
        intro a ha
        simp only [Function.comp]
        rw [hpres a (List.mem_append.mpr (Or.inr (List.mem_cons_of_mem _ ha))) p hp]
      rw [e1, e2]
      have := ih (rest.filter (fun r => !wd r p)).length
        (by rw [← hlen]; simp only [List.length_cons]; exact Nat.lt_succ_of_le (List.length_filter_le _ _))
        (done.filter (fun r => !wd r p) ++ [p]) (rest.filter (fun r => !wd r p)) rfl
        (by
          intro a ha b hb
          have sub : ∀ x, x ∈ (done.filter (fun r => !wd r p) ++ [p]) ++ rest.filter (fun r => !wd r p) →
              x ∈ done ++ p :: rest := by
            intro x hx
            simp only [List.mem_append, List.mem_filter, List.mem_singleton, List.mem_cons] at hx ⊢
            tauto
          exact hpres a (sub a ha) b (sub b hb))
      simp only [List.map_append, List.map_cons, List.map_nil] at this
      exact this

end C19
