/-
Helper lemmas for C13: the minimum of the quadratic form `cᵀ G c` over the hyperplane `Σ c = 1`
is `1 / (1ᵀ G⁻¹ 1)` for a symmetric positive semidefinite `G` with a right inverse `H`
(Cauchy–Schwarz through the single test vector `c − u/s`, `u = H·1`, `s = 1ᵀ H 1`).
Matrices are functions `ℕ → ℕ → α` read on `range n`.
-/
import Mathlib.Tactic
set_option autoImplicit false
set_option linter.unusedSectionVars false

namespace Coancestry
open Finset

section
variable {α : Type} [Field α] [LinearOrder α] [IsStrictOrderedRing α]
variable (n : Nat) (g h : Nat → Nat → α)

/-- bilinear form `vᵀ G w` on `range n` -/
def bil (g : Nat → Nat → α) (n : Nat) (v w : Nat → α) : α :=
  ∑ i ∈ range n, ∑ j ∈ range n, v i * g i j * w j

theorem bil_expand (c u : Nat → α) (t : α) :
    bil g n (fun i => c i - t * u i) (fun i => c i - t * u i)
      = bil g n c c - t * bil g n c u - t * bil g n u c + t ^ 2 * bil g n u u := by
  unfold bil
  simp only [Finset.mul_sum, ← Finset.sum_sub_distrib, ← Finset.sum_add_distrib]
  apply Finset.sum_congr rfl; intro i _
  apply Finset.sum_congr rfl; intro j _
  ring

variable {n g h}

/-- `G·(H·1) = 1` -/
theorem g_mul_rowsum (hinv : ∀ i < n, ∀ j < n, ∑ k ∈ range n, g i k * h k j = if i = j then 1 else 0)
    (i : Nat) (hi : i < n) :
    ∑ k ∈ range n, g i k * ∑ j ∈ range n, h k j = 1 := by
  simp_rw [Finset.mul_sum]
  rw [Finset.sum_comm]
  have : ∀ j ∈ range n, ∑ k ∈ range n, g i k * h k j = if i = j then 1 else 0 :=
    fun j hj => hinv i hi j (Finset.mem_range.mp hj)
  rw [Finset.sum_congr rfl this]
  simp [hi]

theorem bil_right_rowsum (hinv : ∀ i < n, ∀ j < n, ∑ k ∈ range n, g i k * h k j = if i = j then 1 else 0)
    (v : Nat → α) :
    bil g n v (fun k => ∑ j ∈ range n, h k j) = ∑ i ∈ range n, v i := by
  unfold bil
  apply Finset.sum_congr rfl; intro i hi
  have := g_mul_rowsum hinv i (Finset.mem_range.mp hi)
  calc ∑ j ∈ range n, v i * g i j * ∑ j' ∈ range n, h j j'
      = v i * ∑ j ∈ range n, g i j * ∑ j' ∈ range n, h j j' := by
        rw [Finset.mul_sum]; apply Finset.sum_congr rfl; intro j _; ring
    _ = v i := by rw [this, mul_one]

theorem bil_symm (hsym : ∀ i < n, ∀ j < n, g i j = g j i) (v w : Nat → α) : bil g n v w = bil g n w v := by
  unfold bil
  rw [Finset.sum_comm]
  apply Finset.sum_congr rfl; intro i hi
  apply Finset.sum_congr rfl; intro j hj
  rw [hsym j (Finset.mem_range.mp hj) i (Finset.mem_range.mp hi)]
  ring

/-- Main inequality: with `s = Σ_ij H_ij`, `0 < s` and `1/s ≤ cᵀGc` whenever `Σ c = 1`. -/
theorem min_quad_on_simplex (hsym : ∀ i < n, ∀ j < n, g i j = g j i)
    (hpsd : ∀ v : Nat → α, 0 ≤ bil g n v v)
    (hinv : ∀ i < n, ∀ j < n, ∑ k ∈ range n, g i k * h k j = if i = j then 1 else 0)
    (c : Nat → α) (hc : ∑ i ∈ range n, c i = 1) :
    0 < ∑ i ∈ range n, ∑ j ∈ range n, h i j ∧
      1 / (∑ i ∈ range n, ∑ j ∈ range n, h i j) ≤ bil g n c c := by
  set u : Nat → α := fun k => ∑ j ∈ range n, h k j with hu
  set s : α := ∑ i ∈ range n, ∑ j ∈ range n, h i j with hs
  have hcu : bil g n c u = 1 := by rw [bil_right_rowsum hinv c, hc]
  have huc : bil g n u c = 1 := by rw [bil_symm hsym, hcu]
  have huu : bil g n u u = s := bil_right_rowsum hinv u
  have key : ∀ t : α, 0 ≤ bil g n c c - t - t + t ^ 2 * s := by
    intro t
    have := hpsd (fun i => c i - t * u i)
    rw [bil_expand, hcu, huc, huu, mul_one] at this
    exact this
  have hs0 : 0 ≤ s := by rw [← huu]; exact hpsd u
  have hspos : 0 < s := by
    rcases hs0.lt_or_eq with h | h
    · exact h
    · exfalso
      have := key ((bil g n c c + 1) / 2)
      rw [← h] at this
      nlinarith
  refine ⟨hspos, ?_⟩
  have := key (1 / s)
  have hsne : s ≠ 0 := hspos.ne'
  have e : bil g n c c - 1 / s - 1 / s + (1 / s) ^ 2 * s = bil g n c c - 1 / s := by
    field_simp
    ring
  rw [e] at this
  linarith

/-- the bound is attained at `c* = H·1 / s` -/
theorem min_quad_attained
    (hinv : ∀ i < n, ∀ j < n, ∑ k ∈ range n, g i k * h k j = if i = j then 1 else 0)
    (hs : (∑ i ∈ range n, ∑ j ∈ range n, h i j) ≠ 0) :
    let s := ∑ i ∈ range n, ∑ j ∈ range n, h i j
    let c : Nat → α := fun k => (∑ j ∈ range n, h k j) / s
    ∑ i ∈ range n, c i = 1 ∧ bil g n c c = 1 / s := by
  intro s c
  have hsum : ∑ i ∈ range n, c i = 1 := by
    show ∑ i ∈ range n, (∑ j ∈ range n, h i j) / s = 1
    rw [← Finset.sum_div]
    exact div_self hs
  refine ⟨hsum, ?_⟩
  have hc : c = fun k => (1 / s) * ∑ j ∈ range n, h k j := by
    funext k; show (∑ j ∈ range n, h k j) / s = _; ring
  have h1 : bil g n c (fun k => ∑ j ∈ range n, h k j) = 1 := by
    rw [bil_right_rowsum hinv c, hsum]
  have h2 : bil g n c c = (1 / s) * bil g n c (fun k => ∑ j ∈ range n, h k j) := by
    conv_lhs => rw [hc]
    unfold bil
    rw [Finset.mul_sum]
    apply Finset.sum_congr rfl; intro i _
    rw [Finset.mul_sum]
    apply Finset.sum_congr rfl; intro j _
    rw [hc]
    ring
  rw [h2, h1, mul_one]

end

end Coancestry
