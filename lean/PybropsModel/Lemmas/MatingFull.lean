/-
Helper lemmas for C01 about the public call `Mating.mateFull`: it is the core model `Mating.mate`
on the configuration with numpy's index rule applied, the marker metadata is returned unchanged,
a negative index `s` and `s + ntaxa` are interchangeable, valid inputs are accepted.
-/
import Mathlib.Tactic
import PybropsModel.Lemmas.MatingTotal
set_option autoImplicit false
set_option linter.unusedSectionVars false

namespace Mating
open Meiosis
variable {α ρ μ : Type}

theorem progenyMeta_eq (P : Proto) (pg : VMeta μ) : progenyMeta P pg = pg := by
  cases pg
  rfl

theorem wrapIdx_nonneg (n : Nat) (s : Int) (h : 0 ≤ s) : wrapIdx n s = s.toNat := by
  simp [wrapIdx, h]

theorem wrapIdx_neg (n : Nat) (s : Int) (h1 : -(n : Int) ≤ s) (h2 : s < 0) : wrapIdx n s = (s + n).toNat := by
  have : ¬ (0 ≤ s) := by omega
  simp [wrapIdx, this, h1]

theorem wrapIdx_lt (n : Nat) (s : Int) (h1 : -(n : Int) ≤ s) (h2 : s < n) : wrapIdx n s < n := by
  by_cases h : 0 ≤ s
  · rw [wrapIdx_nonneg n s h]; omega
  · rw [wrapIdx_neg n s h1 (by omega)]; omega

/-- counting a parent from the end or from the front is the same -/
theorem wrapIdx_shift (n : Nat) (s : Int) (h1 : -(n : Int) ≤ s) :
    wrapIdx n (if s < 0 then s + n else s) = wrapIdx n s := by
  by_cases h : s < 0
  · simp only [h, if_true]
    rw [wrapIdx_neg n s h1 h, wrapIdx_nonneg n (s + n) (by omega)]
  · simp [h]

theorem wrapConfig_shift (n : Nat) (xc : List (List Int)) (hv : ∀ r ∈ xc, ∀ s ∈ r, -(n : Int) ≤ s) :
    wrapConfig n (xc.map (fun r => r.map (fun s => if s < 0 then s + n else s))) = wrapConfig n xc := by
  unfold wrapConfig
  rw [List.map_map]
  apply List.map_congr_left
  intro r hr
  simp only [Function.comp, List.map_map]
  apply List.map_congr_left
  intro s hs
  exact wrapIdx_shift n s (hv r hr s hs)

section
variable [Preorder ρ] [DecidableLT ρ] [Zero ρ]
variable {P : Proto} {pop : Pop α} {pg : VMeta μ} {xc : List (List Int)} {nmating nprogeny : Cnt} {nself : Nat}
    {xo : List ρ} {pc fc : Nat} {draws : List (DrawMat ρ)} {out : Out α} {m : VMeta μ}

theorem mateFull_inv (h : mateFull P pop pg xc nmating nprogeny nself xo pc fc draws = .ok (out, m)) :
    mate P pop (wrapConfig pop.length xc) nmating nprogeny nself xo pc fc draws = .ok out ∧ m = pg := by
  unfold mateFull at h
  split at h
  · simp at h
  · rename_i o ho
    simp only [Except.ok.injEq, Prod.mk.injEq] at h
    obtain ⟨rfl, rfl⟩ := h
    exact ⟨ho, progenyMeta_eq P pg⟩

theorem mateFull_of_mate (h : mate P pop (wrapConfig pop.length xc) nmating nprogeny nself xo pc fc draws = .ok out) :
    mateFull P pop pg xc nmating nprogeny nself xo pc fc draws = .ok (out, pg) := by
  simp [mateFull, h, progenyMeta_eq]

theorem wrapConfig_length (n : Nat) (xc : List (List Int)) : (wrapConfig n xc).length = xc.length := by
  simp [wrapConfig]

theorem mateFull_accepts (P : Proto) {nm np : List Nat} (hs : popShaped pop xo.length = true)
    (hw : ∀ r ∈ xc, r.length = P.nparent)
    (hidx : ∀ r ∈ xc, ∀ s ∈ r, -(pop.length : Int) ≤ s ∧ s < pop.length)
    (hnm : nmating.expand xc.length = .ok nm) (hnp : nprogeny.expand xc.length = .ok np)
    (hd : DrawsFit (drawRows P nm np nself) xo.length draws) :
    ∃ out, mateFull P pop pg xc nmating nprogeny nself xo pc fc draws = .ok (out, pg) := by
  have hw' : ∀ r ∈ wrapConfig pop.length xc, r.length = P.nparent := by
    intro r hr
    obtain ⟨r0, hr0, rfl⟩ := List.mem_map.mp hr
    simpa using hw r0 hr0
  have hidx' : ∀ r ∈ wrapConfig pop.length xc, ∀ s ∈ r, s < pop.length := by
    intro r hr s hs'
    obtain ⟨r0, hr0, rfl⟩ := List.mem_map.mp hr
    obtain ⟨s0, hs0, rfl⟩ := List.mem_map.mp hs'
    exact wrapIdx_lt _ _ (hidx r0 hr0 s0 hs0).1 (hidx r0 hr0 s0 hs0).2
  obtain ⟨out, hout⟩ := mate_accepts (pc := pc) (fc := fc) P hs hw' hidx'
    (by rw [wrapConfig_length]; exact hnm) (by rw [wrapConfig_length]; exact hnp) hd
  exact ⟨out, mateFull_of_mate hout⟩

end

end Mating
