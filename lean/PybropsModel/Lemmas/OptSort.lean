/-
Helper lemmas for C06 (sorting optimiser): the stable insertion sort of `Np` sorts and permutes,
`Np.argsort` is a sorting permutation of the positions, and the k-prefix of any ascending
arrangement has the smallest sum among all duplicate-free k-selections.
-/
import Mathlib.Tactic
import Mathlib.Data.List.Sort
import PybropsModel.Model.Optimize
set_option autoImplicit false

namespace Optimize

/-! ### insertion sort of `Np` -/
section sort
variable {γ : Type}

theorem insertSorted_perm (le : γ → γ → Bool) (a : γ) (l : List γ) :
    (Np.insertSorted le a l).Perm (a :: l) := by
  induction l with
  | nil => simp [Np.insertSorted]
  | cons b bs ih =>
    unfold Np.insertSorted
    split
    · exact (List.Perm.cons b ih).trans (List.Perm.swap a b bs)
    · exact List.Perm.refl _

theorem insertSorted_pairwise (le : γ → γ → Bool)
    (htot : ∀ a b, le a b = true ∨ le b a = true)
    (htr : ∀ a b c, le a b = true → le b c = true → le a c = true)
    (a : γ) (l : List γ) (hl : l.Pairwise (fun x y => le x y = true)) :
    (Np.insertSorted le a l).Pairwise (fun x y => le x y = true) := by
  induction l with
  | nil => simp [Np.insertSorted]
  | cons b bs ih =>
    rw [List.pairwise_cons] at hl
    unfold Np.insertSorted
    split
    · rename_i hba
      rw [List.pairwise_cons]
      refine ⟨?_, ih hl.2⟩
      intro x hx
      have hx' := (insertSorted_perm le a bs).mem_iff.mp hx
      rcases List.mem_cons.mp hx' with rfl | hx''
      · exact hba
      · exact hl.1 x hx''
    · rename_i hba
      have hab : le a b = true := by
        rcases htot a b with h | h
        · exact h
        · exact absurd h hba
      rw [List.pairwise_cons]
      refine ⟨?_, List.pairwise_cons.mpr hl⟩
      intro x hx
      rcases List.mem_cons.mp hx with rfl | hx'
      · exact hab
      · exact htr _ _ _ hab (hl.1 x hx')

theorem foldl_insertSorted_perm (le : γ → γ → Bool) (l acc : List γ) :
    (l.foldl (fun acc a => Np.insertSorted le a acc) acc).Perm (l ++ acc) := by
  induction l generalizing acc with
  | nil => simp
  | cons a l ih =>
    simp only [List.foldl_cons, List.cons_append]
    refine (ih _).trans ?_
    exact (List.Perm.append_left l (insertSorted_perm le a acc)).trans List.perm_middle

theorem foldl_insertSorted_pairwise (le : γ → γ → Bool)
    (htot : ∀ a b, le a b = true ∨ le b a = true)
    (htr : ∀ a b c, le a b = true → le b c = true → le a c = true)
    (l acc : List γ) (hacc : acc.Pairwise (fun x y => le x y = true)) :
    (l.foldl (fun acc a => Np.insertSorted le a acc) acc).Pairwise (fun x y => le x y = true) := by
  induction l generalizing acc with
  | nil => simpa
  | cons a l ih =>
    simp only [List.foldl_cons]
    exact ih _ (insertSorted_pairwise le htot htr a acc hacc)

theorem stableSort_perm (le : γ → γ → Bool) (l : List γ) : (Np.stableSort le l).Perm l := by
  unfold Np.stableSort
  simpa using foldl_insertSorted_perm le l []

theorem stableSort_pairwise (le : γ → γ → Bool)
    (htot : ∀ a b, le a b = true ∨ le b a = true)
    (htr : ∀ a b c, le a b = true → le b c = true → le a c = true) (l : List γ) :
    (Np.stableSort le l).Pairwise (fun x y => le x y = true) := by
  unfold Np.stableSort
  exact foldl_insertSorted_pairwise le htot htr l [] List.Pairwise.nil

end sort

/-! ### `Np.argsort` is a sorting permutation -/
section argsort
variable {α : Type} [LinearOrder α]

theorem leB_iff (a b : α) : leB a b = true ↔ a ≤ b := by
  unfold leB
  simp

theorem argsort_perm (keys : List α) : (Np.argsort leB keys).Perm (List.range keys.length) := by
  unfold Np.argsort
  have h := (stableSort_perm (fun p q : α × Nat => leB p.1 q.1) keys.zipIdx).map Prod.snd
  refine h.trans ?_
  rw [List.zipIdx_eq_zip_range', List.map_snd_zip (by simp), List.range_eq_range']

/-- every pair produced by the sort is (keys[i], i) -/
theorem argsort_pairs (keys : List α) :
    ∀ p ∈ Np.stableSort (fun p q : α × Nat => leB p.1 q.1) keys.zipIdx, keys[p.2]? = some p.1 := by
  intro p hp
  have hp' := (stableSort_perm _ keys.zipIdx).mem_iff.mp hp
  have := List.mem_zipIdx hp'
  simp only [Nat.zero_add] at this
  obtain ⟨_, hlt, heq⟩ := this
  simp only [Nat.sub_zero] at heq hlt
  rw [List.getElem?_eq_getElem hlt, heq]

theorem argsort_sorted (keys : List α) (d : α) :
    ((Np.argsort leB keys).map (fun i => keys.getD i d)).Pairwise (· ≤ ·) := by
  unfold Np.argsort
  set srt := Np.stableSort (fun p q : α × Nat => leB p.1 q.1) keys.zipIdx with hsrt
  have hpw : srt.Pairwise (fun x y => leB x.1 y.1 = true) :=
    stableSort_pairwise _ (fun a b => by
      simp only [leB_iff]; exact le_total _ _) (fun a b c hab hbc => by
      simp only [leB_iff] at *; exact le_trans hab hbc) _
  have hmap : (srt.map Prod.snd).map (fun i => keys.getD i d) = srt.map Prod.fst := by
    rw [List.map_map]
    apply List.map_congr_left
    intro p hp
    have := argsort_pairs keys p hp
    simp [List.getD_eq_getElem?_getD, this]
  rw [hmap, List.pairwise_map]
  exact hpw.imp (fun h => (leB_iff _ _).mp h)

end argsort

/-! ### the sorted prefix is optimal -/
section prefix_opt
variable {α : Type} [Field α] [LinearOrder α] [IsStrictOrderedRing α]

/-- shifting the window: an element not larger than all of `l` plus the (n)-prefix is at most the
    (n+1)-prefix -/
theorem shift_take (n : ℕ) : ∀ (l : List α) (a : α), (∀ x ∈ l, a ≤ x) → l.Pairwise (· ≤ ·) → n + 1 ≤ l.length →
    a + (l.take n).sum ≤ (l.take (n+1)).sum := by
  induction n with
  | zero =>
    intro l a ha _ hlen
    cases l with
    | nil => simp at hlen
    | cons x l => simpa using ha x (by simp)
  | succ n ihn =>
    intro l a ha hp hlen
    cases l with
    | nil => simp at hlen
    | cons x l =>
      rw [List.pairwise_cons] at hp
      simp only [List.take_succ_cons, List.sum_cons]
      have := ihn l x hp.1 hp.2 (by simpa using hlen)
      have hax := ha x (by simp)
      linarith

/-- in an ascending list the k-prefix has the smallest sum among all sublists of length k -/
theorem sum_take_le_sum_sublist :
    ∀ (l s : List α), l.Pairwise (· ≤ ·) → s.Sublist l → (l.take s.length).sum ≤ s.sum := by
  intro l
  induction l with
  | nil => intro s _ hs; simp [List.sublist_nil.mp hs]
  | cons a l ih =>
    intro s hl hs
    rw [List.pairwise_cons] at hl
    cases hs with
    | cons _ hs' =>
      cases s with
      | nil => simp
      | cons b s =>
        simp only [List.length_cons, List.take_succ_cons, List.sum_cons]
        have h1 := ih (b :: s) hl.2 hs'
        simp only [List.length_cons] at h1
        have hlen : s.length + 1 ≤ l.length := by simpa using hs'.length_le
        have := shift_take s.length l a hl.1 hl.2 hlen
        simp only [List.sum_cons] at h1
        linarith
    | cons_cons _ hs' =>
      rename_i s'
      simp only [List.length_cons, List.take_succ_cons, List.sum_cons]
      have := ih s' hl.2 hs'
      linarith

/-- for ANY arrangement `ix` of the positions `0..n-1` whose keys ascend (whatever the tie order),
    the first |P| positions have the smallest key sum among all duplicate-free position lists P -/
theorem prefix_sum_le_of_sorting_perm (n : ℕ) (key : ℕ → α) (ix : List ℕ)
    (hperm : ix.Perm (List.range n)) (hsorted : (ix.map key).Pairwise (· ≤ ·))
    (P : List ℕ) (hP : P.Nodup) (hPn : ∀ i ∈ P, i < n) :
    ((ix.take P.length).map key).sum ≤ (P.map key).sum := by
  classical
  set Q := ix.filter (fun i => decide (i ∈ P)) with hQ
  have hixnd : ix.Nodup := hperm.nodup_iff.mpr List.nodup_range
  have hQnd : Q.Nodup := hixnd.filter _
  have hQP : Q.Perm P := by
    rw [List.perm_ext_iff_of_nodup hQnd hP]
    intro i
    simp only [hQ, List.mem_filter, decide_eq_true_eq]
    constructor
    · exact fun h => h.2
    · intro hi
      exact ⟨hperm.mem_iff.mpr (List.mem_range.mpr (hPn i hi)), hi⟩
  have hsub : (Q.map key).Sublist (ix.map key) := (List.filter_sublist).map key
  have h := sum_take_le_sum_sublist (ix.map key) (Q.map key) hsorted hsub
  rw [List.length_map, hQP.length_eq, ← List.map_take] at h
  calc ((ix.take P.length).map key).sum ≤ (Q.map key).sum := h
    _ = (P.map key).sum := (hQP.map key).sum_eq

end prefix_opt

/-! ### positions versus members -/
section positions
variable {ε : Type}

theorem take_map_getD {β : Type} (f : ε → β) (d : β) (l : List ε) (idx : List ℕ) (h : ∀ i ∈ idx, i < l.length) :
    (Np.take idx l).map f = idx.map (fun i => (l.map f).getD i d) := by
  induction idx with
  | nil => simp [Np.take]
  | cons i idx ih =>
    have hi := h i (by simp)
    have ih' := ih (fun j hj => h j (List.mem_cons_of_mem _ hj))
    unfold Np.take at ih' ⊢
    simp only [List.filterMap_cons, List.getElem?_eq_getElem hi, List.map_cons, ih']
    simp [List.getD_eq_getElem?_getD, hi]

theorem take_length (l : List ε) (idx : List ℕ) (h : ∀ i ∈ idx, i < l.length) :
    (Np.take idx l).length = idx.length := by
  have := congrArg List.length (take_map_getD (fun _ => ()) () l idx h)
  simpa using this

theorem take_mem (l : List ε) (idx : List ℕ) : ∀ e ∈ Np.take idx l, e ∈ l := by
  intro e he
  unfold Np.take at he
  obtain ⟨i, _, hi⟩ := List.mem_filterMap.mp he
  exact List.mem_of_getElem? hi

theorem take_nodup (l : List ε) (hl : l.Nodup) (idx : List ℕ) (hidx : idx.Nodup) :
    (Np.take idx l).Nodup := by
  unfold Np.take
  induction idx with
  | nil => simp
  | cons i idx ih =>
    rw [List.nodup_cons] at hidx
    simp only [List.filterMap_cons]
    cases hgi : l[i]? with
    | none => simpa [hgi] using ih hidx.2
    | some a =>
      simp only []
      rw [List.nodup_cons]
      refine ⟨?_, ih hidx.2⟩
      intro ha
      obtain ⟨j, hj, hj'⟩ := List.mem_filterMap.mp ha
      have : i = j := by
        obtain ⟨hi1, hi2⟩ := List.getElem?_eq_some_iff.mp hgi
        obtain ⟨hj1, hj2⟩ := List.getElem?_eq_some_iff.mp hj'
        exact (List.Nodup.getElem_inj_iff hl).mp (hi2.trans hj2.symm)
      exact hidx.1 (this ▸ hj)

end positions

/-! ### the brute-force search space of the Spec oracle -/

theorem mem_combos_iff {ε : Type} (l : List ε) : ∀ (k : ℕ) (s : List ε), s ∈ combos k l ↔ s.Sublist l ∧ s.length = k := by
  induction l with
  | nil =>
    intro k s
    cases k with
    | zero => simp [combos]
    | succ k =>
      simp only [combos, List.not_mem_nil, List.sublist_nil, false_iff, not_and]
      rintro rfl; simp
  | cons x xs ih =>
    intro k s
    cases k with
    | zero =>
      simp only [combos, List.mem_singleton]
      constructor
      · rintro rfl; simp
      · rintro ⟨_, h⟩; exact List.length_eq_zero_iff.mp h
    | succ k =>
      simp only [combos, List.mem_append, List.mem_map, ih, List.sublist_cons_iff]
      constructor
      · rintro (⟨t, ⟨ht, hl⟩, rfl⟩ | ⟨hs, hl⟩)
        · exact ⟨Or.inr ⟨t, rfl, ht⟩, by simp [hl]⟩
        · exact ⟨Or.inl hs, hl⟩
      · rintro ⟨hs | ⟨r, rfl, hr⟩, hl⟩
        · exact Or.inr ⟨hs, hl⟩
        · exact Or.inl ⟨r, ⟨hr, by simpa using hl⟩, rfl⟩

theorem feasible_perm_mem_combos {ε : Type} [DecidableEq ε] (space : List ε) (hs : space.Nodup) (S : List ε)
    (hS : S.Nodup) (hsub : ∀ e ∈ S, e ∈ space) :
    ∃ s ∈ combos S.length space, s.Perm S := by
  refine ⟨space.filter (fun e => decide (e ∈ S)), ?_, ?_⟩
  · have hperm : (space.filter (fun e => decide (e ∈ S))).Perm S := by
      rw [List.perm_ext_iff_of_nodup (hs.filter _) hS]
      intro e
      simp only [List.mem_filter, decide_eq_true_eq]
      exact ⟨fun h => h.2, fun h => ⟨hsub e h, h⟩⟩
    exact (mem_combos_iff space _ _).mpr ⟨List.filter_sublist, hperm.length_eq⟩
  · rw [List.perm_ext_iff_of_nodup (hs.filter _) hS]
    intro e
    simp only [List.mem_filter, decide_eq_true_eq]
    exact ⟨fun h => h.2, fun h => ⟨hsub e h, h⟩⟩

end Optimize
