/-
Helper lemmas for C17, stochastic universal sampling with the offset exactly 0 (a value the generator can
return): number of pointers `j·d` in an interval, and the draw count of the first position, of an interior
position, and of the last position of positive weight.
-/
import PybropsModel.Lemmas.SamplingSusFinal
set_option autoImplicit false
set_option linter.unusedSectionVars false
namespace Sampling
section zero
variable {α : Type} [Field α] [LinearOrder α] [IsStrictOrderedRing α] [FloorRing α]

/-- pointers `j·d` (`j < k`, offset 0) in `(a, b]` -/
theorem pointers_in_interval_zero (d a b : α) (k : ℕ) (hd : 0 < d) (ha : 0 ≤ a) (hab : a ≤ b) :
    (((List.range k).filter (fun j : ℕ => a < (0 : α) + j * d ∧ (0 : α) + j * d ≤ b)).length : ℤ)
      = min (⌊b / d⌋) ((k : ℤ) - 1) - min (⌊a / d⌋) ((k : ℤ) - 1) := by
  have key : ∀ j : ℕ, (a < (0 : α) + j * d ∧ (0 : α) + j * d ≤ b) ↔ (⌊a / d⌋ < (j:ℤ) ∧ (j:ℤ) ≤ ⌊b / d⌋) := by
    intro j
    rw [Int.floor_lt, Int.le_floor, div_lt_iff₀ hd, le_div_iff₀ hd, zero_add]
    push_cast
    exact Iff.rfl
  have hx0 : 0 ≤ ⌊a / d⌋ := Int.floor_nonneg.mpr (div_nonneg ha hd.le)
  have hxy : ⌊a / d⌋ ≤ ⌊b / d⌋ := Int.floor_le_floor (by gcongr)
  obtain ⟨m, hm⟩ : ∃ m : ℕ, ⌊a / d⌋ = m := ⟨⌊a / d⌋.toNat, by omega⟩
  obtain ⟨n, hn⟩ : ∃ n : ℕ, ⌊b / d⌋ = n := ⟨⌊b / d⌋.toNat, by omega⟩
  have e : (List.range k).filter (fun j : ℕ => a < (0 : α) + j * d ∧ (0 : α) + j * d ≤ b)
         = (List.range k).filter (fun j : ℕ => m + 1 ≤ j ∧ j ≤ n) := by
    apply List.filter_congr
    intro j _
    simp only [key j, hm, hn, decide_eq_decide]
    omega
  rw [e, range_filter_Icc_length', hm, hn]
  omega

/-- pointers `j·d` (`j < k`, offset 0) at or below `b` (the first element also receives pointer 0) -/
theorem pointers_below_zero (d b : α) (k : ℕ) (hd : 0 < d) (hb : 0 ≤ b) :
    (((List.range k).filter (fun j : ℕ => (0 : α) + j * d ≤ b)).length : ℤ)
      = min (⌊b / d⌋ + 1) (k : ℤ) := by
  have hy0 : 0 ≤ ⌊b / d⌋ := Int.floor_nonneg.mpr (div_nonneg hb hd.le)
  obtain ⟨n, hn⟩ : ∃ n : ℕ, ⌊b / d⌋ = n := ⟨⌊b / d⌋.toNat, by omega⟩
  have e : (List.range k).filter (fun j : ℕ => (0 : α) + j * d ≤ b)
         = (List.range k).filter (fun j : ℕ => 0 ≤ j ∧ j ≤ n) := by
    apply List.filter_congr
    intro j _
    have : ((0 : α) + j * d ≤ b) ↔ ((j : ℤ) ≤ ⌊b / d⌋) := by
      rw [Int.le_floor, le_div_iff₀ hd, zero_add]; push_cast; exact Iff.rfl
    simp only [this, hn, decide_eq_decide]
    omega
  rw [e, range_filter_Icc_length', hn]
  omega

/-- offset exactly 0: the element sorted first receives pointer 0 as well -/
theorem susIdxPrerepair_zero_first (p : List α) (k : Nat) (sigma : List Nat) (sel : List Nat)
    (hp : ∀ x ∈ p, 0 ≤ x) (hT : 0 < Np.sum p) (h : susIdxPrerepair p k sigma 0 = .ok sel)
    (h0 : 0 < sigma.length) :
    (sel.count sigma[0] : ℤ) = min (⌊(k : α) * p.getD sigma[0] 0 / Np.sum p⌋ + 1) (k : ℤ) := by
  obtain ⟨h1, _, hk, _, _, _⟩ := (susIdxPrerepair_ok_iff p k sigma 0 sel).mp h
  have hs := sigmaFacts p sigma h1
  have hk' : 0 < k := Nat.pos_of_ne_zero hk
  have hkpos : (0 : α) < k := by exact_mod_cast hk'
  set d := Np.sum p / (k : α) with hd
  have hdpos : 0 < d := div_pos hT hkpos
  set w := sigma.map (fun i => p.getD i 0) with hw
  have hwnn : ∀ x ∈ w, 0 ≤ x := hs.nonneg hp
  have hrw : 0 < w.length := by simpa [hw] using h0
  rw [susIdxPrerepair_count p k sigma 0 sel hT h 0 h0]
  have hfil : (List.range k).filter (fun j : Nat => decide (pos 0 w ((0 : α) + (j : α) * d) = 0))
      = (List.range k).filter (fun j : Nat => (0 : α) + (j : α) * d ≤ pre 0 w 1) := by
    apply List.filter_congr
    intro j _
    rw [decide_eq_decide, pos_eq_iff 0 w hwnn _ 0 hrw]
    simp
  rw [hfil, pointers_below_zero d (pre 0 w 1) k hdpos (le_pre 0 w hwnn 1)]
  have hwr : w[0] = p.getD sigma[0] 0 := by simp [hw]
  have : pre 0 w 1 / d = (k : α) * p.getD sigma[0] 0 / Np.sum p := by
    rw [pre_succ 0 w 0 hrw, pre_zero, zero_add, hwr, hd]
    field_simp
  rw [this]

/-- offset exactly 0, any later position: pointers `j·d`, `j < k`, in `(pre r, pre (r+1)]` -/
theorem susIdxPrerepair_zero_later (p : List α) (k : Nat) (sigma : List Nat) (sel : List Nat)
    (hp : ∀ x ∈ p, 0 ≤ x) (hT : 0 < Np.sum p) (h : susIdxPrerepair p k sigma 0 = .ok sel)
    (r : Nat) (hr : r < sigma.length) (hr0 : r ≠ 0) :
    (sel.count sigma[r] : ℤ) =
      min ⌊pre 0 (sigma.map (fun i => p.getD i 0)) (r + 1) / (Np.sum p / (k : α))⌋ ((k : ℤ) - 1)
      - min ⌊pre 0 (sigma.map (fun i => p.getD i 0)) r / (Np.sum p / (k : α))⌋ ((k : ℤ) - 1) := by
  obtain ⟨h1, _, hk, _, _, _⟩ := (susIdxPrerepair_ok_iff p k sigma 0 sel).mp h
  have hs := sigmaFacts p sigma h1
  have hk' : 0 < k := Nat.pos_of_ne_zero hk
  have hkpos : (0 : α) < k := by exact_mod_cast hk'
  set d := Np.sum p / (k : α) with hd
  have hdpos : 0 < d := div_pos hT hkpos
  set w := sigma.map (fun i => p.getD i 0) with hw
  have hwnn : ∀ x ∈ w, 0 ≤ x := hs.nonneg hp
  have hrw : r < w.length := by simpa [hw] using hr
  rw [susIdxPrerepair_count p k sigma 0 sel hT h r hr]
  have hfil : (List.range k).filter (fun j : Nat => decide (pos 0 w ((0 : α) + (j : α) * d) = r))
      = (List.range k).filter (fun j : Nat =>
          pre 0 w r < (0 : α) + (j : α) * d ∧ (0 : α) + (j : α) * d ≤ pre 0 w (r + 1)) := by
    apply List.filter_congr
    intro j _
    rw [decide_eq_decide, pos_eq_iff 0 w hwnn _ r hrw]
    simp [hr0]
  rw [hfil, pointers_in_interval_zero d (pre 0 w r) (pre 0 w (r + 1)) k hdpos (le_pre 0 w hwnn r)
    (pre_le_pre_succ 0 w hwnn r)]

theorem floor_div_lt_of_lt (x tot : α) (k : Nat) (hk : 0 < k) (htot : 0 < tot) (hx : x < tot) :
    ⌊x / (tot / (k : α))⌋ ≤ (k : ℤ) - 1 := by
  have hkpos : (0 : α) < k := by exact_mod_cast hk
  have hd : 0 < tot / (k : α) := div_pos htot hkpos
  have : ⌊x / (tot / (k : α))⌋ < (k : ℤ) := by
    rw [Int.floor_lt, div_lt_iff₀ hd]
    push_cast
    have : (k : α) * (tot / k) = tot := by field_simp
    linarith
  omega

/-- offset 0, a position other than the first whose interval ends before the total: floor or ceiling -/
theorem susIdxPrerepair_zero_interior (p : List α) (k : Nat) (sigma : List Nat) (sel : List Nat)
    (hp : ∀ x ∈ p, 0 ≤ x) (hT : 0 < Np.sum p) (h : susIdxPrerepair p k sigma 0 = .ok sel)
    (r : Nat) (hr : r < sigma.length) (hr0 : r ≠ 0)
    (hlt : pre 0 (sigma.map (fun i => p.getD i 0)) (r + 1) < Np.sum p) :
    (sel.count sigma[r] : ℤ) = ⌊(k : α) * p.getD sigma[r] 0 / Np.sum p⌋ ∨
    (sel.count sigma[r] : ℤ) = ⌈(k : α) * p.getD sigma[r] 0 / Np.sum p⌉ := by
  obtain ⟨h1, _, hk, _, _, _⟩ := (susIdxPrerepair_ok_iff p k sigma 0 sel).mp h
  have hs := sigmaFacts p sigma h1
  have hk' : 0 < k := Nat.pos_of_ne_zero hk
  have hkpos : (0 : α) < k := by exact_mod_cast hk'
  rw [susIdxPrerepair_zero_later p k sigma sel hp hT h r hr hr0]
  set w := sigma.map (fun i => p.getD i 0) with hw
  have hwnn : ∀ x ∈ w, 0 ≤ x := hs.nonneg hp
  have hrw : r < w.length := by simpa [hw] using hr
  have hle := pre_le_pre_succ 0 w hwnn r
  rw [min_eq_left (floor_div_lt_of_lt _ _ k hk' hT hlt),
    min_eq_left (floor_div_lt_of_lt _ _ k hk' hT (lt_of_le_of_lt hle hlt))]
  have hwr : w[r] = p.getD sigma[r] 0 := by simp [hw]
  have hq : pre 0 w (r + 1) / (Np.sum p / (k : α))
      = pre 0 w r / (Np.sum p / (k : α)) + (k : α) * p.getD sigma[r] 0 / Np.sum p := by
    rw [pre_succ 0 w r hrw, hwr]
    field_simp
  rw [hq]
  exact floor_diff _ _

/-- offset 0, the last position of positive weight (not the first): one pointer short of the ceiling -/
theorem susIdxPrerepair_zero_last (p : List α) (k : Nat) (sigma : List Nat) (sel : List Nat)
    (hp : ∀ x ∈ p, 0 ≤ x) (hT : 0 < Np.sum p) (h : susIdxPrerepair p k sigma 0 = .ok sel)
    (r : Nat) (hr : r < sigma.length) (hr0 : r ≠ 0)
    (hlt : pre 0 (sigma.map (fun i => p.getD i 0)) r < Np.sum p)
    (heq : pre 0 (sigma.map (fun i => p.getD i 0)) (r + 1) = Np.sum p) :
    (sel.count sigma[r] : ℤ) = ⌈(k : α) * p.getD sigma[r] 0 / Np.sum p⌉ - 1 := by
  obtain ⟨h1, _, hk, _, _, _⟩ := (susIdxPrerepair_ok_iff p k sigma 0 sel).mp h
  have hs := sigmaFacts p sigma h1
  have hk' : 0 < k := Nat.pos_of_ne_zero hk
  have hkpos : (0 : α) < k := by exact_mod_cast hk'
  rw [susIdxPrerepair_zero_later p k sigma sel hp hT h r hr hr0]
  set w := sigma.map (fun i => p.getD i 0) with hw
  have hrw : r < w.length := by simpa [hw] using hr
  have hwr : w[r] = p.getD sigma[r] 0 := by simp [hw]
  have hfull : pre 0 w (r + 1) / (Np.sum p / (k : α)) = (k : α) := by
    rw [heq]; field_simp
  have hpart : pre 0 w r / (Np.sum p / (k : α)) = (k : α) + - ((k : α) * p.getD sigma[r] 0 / Np.sum p) := by
    have : pre 0 w r = Np.sum p - p.getD sigma[r] 0 := by
      rw [← heq, pre_succ 0 w r hrw, hwr]; ring
    rw [this]
    field_simp
    ring
  rw [min_eq_left (floor_div_lt_of_lt _ _ k hk' hT hlt), hfull, hpart, Int.floor_natCast,
    Int.floor_natCast_add, Int.floor_neg]
  have : min (k : ℤ) ((k : ℤ) - 1) = (k : ℤ) - 1 := by omega
  rw [this]
  ring

/-- offset 0, the first position when some other element has positive weight: one above the floor -/
theorem susIdxPrerepair_zero_first_lt (p : List α) (k : Nat) (sigma : List Nat) (sel : List Nat)
    (hp : ∀ x ∈ p, 0 ≤ x) (hT : 0 < Np.sum p) (h : susIdxPrerepair p k sigma 0 = .ok sel)
    (h0 : 0 < sigma.length) (hlt : p.getD sigma[0] 0 < Np.sum p) :
    (sel.count sigma[0] : ℤ) = ⌊(k : α) * p.getD sigma[0] 0 / Np.sum p⌋ + 1 := by
  obtain ⟨_, _, hk, _, _, _⟩ := (susIdxPrerepair_ok_iff p k sigma 0 sel).mp h
  have hk' : 0 < k := Nat.pos_of_ne_zero hk
  have hkpos : (0 : α) < k := by exact_mod_cast hk'
  rw [susIdxPrerepair_zero_first p k sigma sel hp hT h h0]
  apply min_eq_left
  have : ⌊(k : α) * p.getD sigma[0] 0 / Np.sum p⌋ < (k : ℤ) := by
    rw [Int.floor_lt, div_lt_iff₀ hT]
    push_cast
    exact mul_lt_mul_of_pos_left hlt hkpos
  omega

end zero
end Sampling
