/-
Helper lemmas for C18 (4): which labels are used.
For sorted boundaries, label `k + j` is used on a chromosome iff some marker lies in the half-open
equal-width bin `[hb[j], hb[j+1])` (closed for the last bin).  Hence the run count equals the number
of bins iff every such bin holds a marker — the exact condition of defect D10.
-/
import PybropsModel.Lemmas.HaploBin
import PybropsModel.Lemmas.HaploBounds
set_option autoImplicit false
set_option linter.unusedSectionVars false

namespace Haplo

section
variable {α : Type} [LinearOrder α]

/-- for a sorted list the elements `≤ x` form a prefix: the count is `j` iff exactly the first `j`
    elements are `≤ x` -/
theorem countP_sorted_eq_iff (I : List α) (x : α) (j : Nat) (hs : I.Pairwise (· ≤ ·)) :
    I.countP (fun b => decide (b ≤ x)) = j ↔
      j ≤ I.length ∧ (∀ i (h : i < I.length), i < j → I[i] ≤ x) ∧
        (∀ i (h : i < I.length), j ≤ i → x < I[i]) := by
  induction I generalizing j with
  | nil =>
    simp only [List.countP_nil, List.length_nil, Nat.le_zero_eq]
    constructor
    · intro h; subst h; exact ⟨rfl, fun i h => absurd h (Nat.not_lt_zero _), fun i h => absurd h (Nat.not_lt_zero _)⟩
    · intro h; exact h.1.symm
  | cons a I ih =>
    have hs' := (List.pairwise_cons.mp hs).2
    have ha := (List.pairwise_cons.mp hs).1
    rw [List.countP_cons]
    by_cases hax : a ≤ x
    · simp only [hax, decide_true, if_true]
      cases j with
      | zero =>
        constructor
        · intro h; omega
        · rintro ⟨_, _, h3⟩
          have := h3 0 (by simp) (Nat.le_refl 0)
          simp only [List.getElem_cons_zero] at this
          exact absurd hax (not_le.mpr this)
      | succ j =>
        rw [Nat.add_right_cancel_iff, ih j hs']
        constructor
        · rintro ⟨h1, h2, h3⟩
          refine ⟨by simp only [List.length_cons]; omega, ?_, ?_⟩
          · intro i hi hij
            cases i with
            | zero => simpa using hax
            | succ i => simpa using h2 i (by simpa using hi) (by omega)
          · intro i hi hij
            cases i with
            | zero => omega
            | succ i => simpa using h3 i (by simpa using hi) (by omega)
        · rintro ⟨h1, h2, h3⟩
          refine ⟨by simp only [List.length_cons] at h1; omega, ?_, ?_⟩
          · intro i hi hij
            have := h2 (i + 1) (by simp only [List.length_cons]; omega) (by omega)
            simpa using this
          · intro i hi hij
            have := h3 (i + 1) (by simp only [List.length_cons]; omega) (by omega)
            simpa using this
    · have hxa : x < a := not_le.mp hax
      have hz : I.countP (fun b => decide (b ≤ x)) = 0 :=
        countP_le_eq_zero_of_lt I x a hxa ha
      simp only [hax, decide_false, hz]
      constructor
      · intro h
        have : j = 0 := by simpa using h.symm
        subst this
        refine ⟨Nat.zero_le _, fun i _ h => absurd h (Nat.not_lt_zero _), ?_⟩
        intro i hi _
        cases i with
        | zero => simpa using hxa
        | succ i =>
          have hm : I[i]'(by simpa using hi) ∈ I := List.getElem_mem _
          simpa using lt_of_lt_of_le hxa (ha _ hm)
      · rintro ⟨_, h2, _⟩
        cases j with
        | zero => simp
        | succ j =>
          have := h2 0 (by simp) (Nat.succ_pos j)
          simp only [List.getElem_cons_zero] at this
          exact absurd this hax

theorem sorted_getElem_le (l : List α) (hs : l.Pairwise (· ≤ ·)) (i j : Nat) (hj : j < l.length)
    (hij : i ≤ j) : l[i]'(lt_of_le_of_lt hij hj) ≤ l[j] := by
  rcases Nat.lt_or_eq_of_le hij with h | h
  · exact (List.pairwise_iff_getElem.mp hs) i j (lt_trans h hj) hj h
  · subst h; exact le_refl _

theorem interior_getElem (hb : List α) (i : Nat) (h : i < (interior hb).length) :
    (interior hb)[i] = hb[i + 1]'(by rw [interior_length] at h; omega) := by
  simp [interior]

/-- every equal-width bin of the chromosome — half-open `[hb[j], hb[j+1])`, the last one closed — holds
    a marker -/
def BinsFilled (hb pos : List α) : Prop :=
  ∀ j (h : j + 1 < hb.length), ∃ x ∈ pos, hb[j]'(by omega) ≤ x ∧ (∀ h' : j + 2 < hb.length, x < hb[j + 1]'(by omega))

theorem interior_sorted (hb : List α) (hs : hb.Pairwise (· ≤ ·)) : (interior hb).Pairwise (· ≤ ·) := by
  unfold interior
  exact (hs.sublist (List.tail_sublist hb)).sublist (List.dropLast_sublist _)

/-- on a chromosome: the marker `x` carries label `k + j` iff it lies in bin `j` -/
theorem count_eq_iff_in_bin (hb pos : List α) (hok : BoundsOK hb pos) (x : α) (hx : x ∈ pos) (j : Nat)
    (hj : j + 1 < hb.length) :
    (interior hb).countP (fun b => decide (b ≤ x)) = j ↔
      (hb[j]'(by omega) ≤ x ∧ (∀ h' : j + 2 < hb.length, x < hb[j + 1]'(by omega))) := by
  have hs := hok.sorted
  rw [countP_sorted_eq_iff _ x j (interior_sorted hb hs)]
  have hlen := interior_length hb
  constructor
  · rintro ⟨h1, h2, h3⟩
    constructor
    · cases j with
      | zero =>
        have : hb.head? = some (hb[0]'(by omega)) := by
          cases hb with
          | nil => simp at hj
          | cons a t => simp
        exact hok.lo _ (by rw [this]; rfl) x hx
      | succ j =>
        have := h2 j (by omega) (Nat.lt_succ_self j)
        rw [interior_getElem] at this
        exact this
    · intro h'
      have := h3 j (by omega) (Nat.le_refl j)
      rw [interior_getElem] at this
      exact this
  · rintro ⟨h1, h2⟩
    refine ⟨by omega, ?_, ?_⟩
    · intro i hi hij
      rw [interior_getElem]
      exact le_trans (sorted_getElem_le hb hs (i + 1) j (by omega) (by omega)) h1
    · intro i hi hij
      rw [interior_getElem]
      have h' : j + 2 < hb.length := by omega
      exact lt_of_lt_of_le (h2 h') (sorted_getElem_le hb hs (j + 1) (i + 1) (by omega) (by omega))

/-- on a chromosome: all bins filled ⇔ all labels of the chromosome's range are used -/
theorem binsFilled_iff_labels (hb pos : List α) (k : Nat) (hok : BoundsOK hb pos) :
    BinsFilled hb pos ↔ ∀ j, j < hb.length - 1 → k + j ∈ labelsChrom hb k pos := by
  constructor
  · intro hf j hj
    obtain ⟨x, hx, hin⟩ := hf j (by omega)
    simp only [labelsChrom, List.mem_map]
    refine ⟨x, hx, ?_⟩
    rw [(count_eq_iff_in_bin hb pos hok x hx j (by omega)).mpr hin]
  · intro hl j hj
    have := hl j (by omega)
    simp only [labelsChrom, List.mem_map] at this
    obtain ⟨x, hx, he⟩ := this
    have he' : (interior hb).countP (fun b => decide (b ≤ x)) = j := by omega
    exact ⟨x, hx, (count_eq_iff_in_bin hb pos hok x hx j hj).mp he'⟩

/-- pigeonhole: a chromosome whose bins are all filled has at least as many markers as bins -/
theorem binsFilled_length_le (hb pos : List α) (hok : BoundsOK hb pos) (hf : BinsFilled hb pos) :
    hb.length - 1 ≤ pos.length := by
  have hl := (binsFilled_iff_labels hb pos 0 hok).mp hf
  have hsub : List.range (hb.length - 1) ⊆ labelsChrom hb 0 pos := by
    intro j hj
    have := hl j (List.mem_range.mp hj)
    simpa using this
  have := (List.subperm_of_subset List.nodup_range hsub).length_le
  simpa [labelsChrom] using this

/-- genome-wide: all bins of all chromosomes filled ⇔ every label in `[k, k + nbins)` is used -/
theorem allFilled_iff_labels (hbs chroms : List (List α)) (k : Nat)
    (h : List.Forall₂ BoundsOK hbs chroms) :
    List.Forall₂ BinsFilled hbs chroms ↔
      ∀ l, k ≤ l → l < k + nbins hbs → l ∈ labelsAll hbs chroms k := by
  induction h generalizing k with
  | nil =>
    simp only [List.Forall₂.nil, nbins, List.map_nil, List.sum_nil, Nat.add_zero, labelsAll, true_iff]
    intro l h1 h2; omega
  | @cons hb pos hbs cs hbc hrest ih =>
    have hn : nbins (hb :: hbs) = (hb.length - 1) + nbins hbs := by simp [nbins]
    rw [List.forall₂_cons, hn]
    simp only [labelsAll, List.mem_append]
    constructor
    · rintro ⟨hf, hfs⟩ l h1 h2
      by_cases hl : l < k + (hb.length - 1)
      · left
        have := (binsFilled_iff_labels hb pos k hbc).mp hf (l - k) (by omega)
        rwa [show k + (l - k) = l by omega] at this
      · right
        exact (ih (k + (hb.length - 1))).mp hfs l (by omega) (by omega)
    · intro hall
      constructor
      · rw [binsFilled_iff_labels hb pos k hbc]
        intro j hj
        rcases hall (k + j) (by omega) (by omega) with h | h
        · exact h
        · have := (labelsAll_range hbs cs (k + (hb.length - 1)) hrest (k + j) h).1
          omega
      · rw [ih (k + (hb.length - 1))]
        intro l h1 h2
        rcases hall l (by omega) (by omega) with h | h
        · have := (labelsChrom_lt hb k pos hbc.two l h).2
          omega
        · exact h

/-- **the exact condition of D10**: the number of blocks that `haplobin_bounds` finds in the label
    vector equals the number of requested bins iff every equal-width bin holds a marker -/
theorem nruns_eq_nbins_iff (hbs chroms : List (List α))
    (h : List.Forall₂ BoundsOK hbs chroms) (hp : ∀ c ∈ chroms, c.Pairwise (· ≤ ·)) :
    nruns (labelsAll hbs chroms 0) = nbins hbs ↔ List.Forall₂ BinsFilled hbs chroms := by
  have hs := labelsAll_sorted hbs chroms 0 h hp
  have hr : ∀ x ∈ labelsAll hbs chroms 0, x < nbins hbs := by
    intro x hx; have := (labelsAll_range hbs chroms 0 h x hx).2; omega
  rw [allFilled_iff_labels hbs chroms 0 h]
  constructor
  · intro he l _ hl
    by_contra hmiss
    have := nruns_lt_of_missing _ _ hs hr l (by omega) hmiss
    omega
  · intro hall
    exact nruns_eq_of_surj _ _ hs hr (fun j hj => hall j (Nat.zero_le _) (by omega))

theorem nruns_le_nbins (hbs chroms : List (List α))
    (h : List.Forall₂ BoundsOK hbs chroms) (hp : ∀ c ∈ chroms, c.Pairwise (· ≤ ·)) :
    nruns (labelsAll hbs chroms 0) ≤ nbins hbs := by
  have hs := labelsAll_sorted hbs chroms 0 h hp
  have hr : ∀ x ∈ labelsAll hbs chroms 0, x < nbins hbs := by
    intro x hx; have := (labelsAll_range hbs chroms 0 h x hx).2; omega
  exact nruns_le_of_lt _ _ hs hr

end

end Haplo
