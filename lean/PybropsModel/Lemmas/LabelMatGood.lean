/-
Lemmas/LabelMatGood.lean — histories on every class whose bundles govern one axis or the two leading axes
(square taxa × taxa matrices included): every operation except the single-axis insert / incorp / concat of a
square bundle (D14).
-/
import PybropsModel.Lemmas.LabelMatSquare2

set_option autoImplicit false
set_option linter.unusedVariables false

namespace LabelMat

variable {α lab : Type}

/-- every bundle governs no axis, one axis (< 3) or the two leading axes; non-mutating methods pass every label
    array on; integer insert positions are wrapped -/
structure Schema.Good (sch : Schema) : Prop where
  wf : sch.WF
  kinds : ∀ k, sch.axes k = [] ∨ (∃ a, sch.axes k = [a] ∧ a < 3) ∨ sch.axes k = [0, 1]
  keeps : sch.pureDropsOther = false
  wraps : sch.scalarInsertRaw = false

theorem Schema.Good.lt {sch : Schema} (hg : sch.Good) : ∀ kk b, b ∈ sch.axes kk → b < 3 := by
  intro kk b hb
  rcases hg.kinds kk with h0 | ⟨a, ha, ha3⟩ | h2
  · rw [h0] at hb; cases hb
  · rw [ha] at hb; simp at hb; omega
  · rw [h2] at hb; simp at hb; omega

theorem Schema.Good.at {sch : Schema} (hg : sch.Good) (k : Kind) (hk : sch.axes k ≠ [0, 1]) : sch.SimpleAt k where
  wf := hg.wf
  lt := hg.lt
  single := by
    rcases hg.kinds k with h0 | h1 | h2
    · exact Or.inl h0
    · exact Or.inr h1
    · exact absurd h2 hk
  keeps := hg.keeps
  wraps := hg.wraps

theorem Schema.Simple.good {sch : Schema} (hs : sch.Simple) : sch.Good where
  wf := hs.wf
  kinds := fun k => by
    rcases hs.single k with h0 | h1
    · exact Or.inl h0
    · exact Or.inr (Or.inl h1)
  keeps := hs.keeps
  wraps := hs.wraps

/-- the single-axis edits of a square bundle (insert / incorp / concat — defect D14) are excluded -/
def Op.SquareOK (sch : Schema) : Op α lab → Prop
  | .insert k _ _ => sch.axes k ≠ [0, 1]
  | .incorp k _ _ => sch.axes k ≠ [0, 1]
  | .concat k _ => sch.axes k ≠ [0, 1]
  | _ => True

theorem squareAdjoin_fresh {sch : Schema} {k : Kind} {fill : α} {s t : St α lab} {v : Operand α lab}
    (h : SquareAdjoin sch k fill s v t) : SquareAdjoin sch k fill s v (freshK k t) :=
  ⟨by simpa using h.mat, by rw [freshK_cols]; exact h.cols, fun kk hkk => by rw [freshK_cols]; exact h.other kk hkk⟩

/-- what a successful step on a *square* bundle is -/
inductive SqStepForm (sch : Schema) (fill : α) (op : Op α lab) (s s' : St α lab) : Prop where
  | unary (h : UnaryForm sch op.kind s s')
  | adjoin (v : Operand α lab) (hv : v ∈ op.operands) (h : SquareAdjoin sch op.kind fill s v s')
  | same (hm : s'.mat = s.mat) (hc : ∀ kk, (s'.bundle kk).cols = (s.bundle kk).cols)

theorem sqStep_form [BEq lab] (le : lab → lab → Bool) (sch : Schema) (hg : sch.Good) (fill : α) (fx : Bool)
    (op : Op α lab) (hax : sch.axes op.kind = [0, 1]) (hok : op.SquareOK sch) (s s' : St α lab)
    (h : step le sch fill fx op s = .ok s') : SqStepForm sch fill op s s' := by
  cases op with
  | select k is => exact .unary (selectK_form hg.keeps h)
  | delete k obj => exact .unary (deleteK_form hg.keeps h)
  | remove k obj => exact .unary (removeK_form h)
  | reorder k is =>
    simp only [step] at h
    split at h
    · exact .unary (reorderK_form h)
    · exact .unary (reorderKPre_form h)
  | sort k keys => exact .unary (sortK_form h)
  | group k => exact .unary (groupK_form h)
  | ungroup k =>
    simp only [step] at h
    rw [ungroupK_eq h]
    exact .same (freshK_mat k s) (fun kk => freshK_cols k kk s)
  | adjoin k v =>
    simp only [step, adjoinK, bind, Except.bind] at h
    split at h
    · cases h
    · rename_i t ht
      rw [newObj_eq sch hg.keeps] at h
      rw [checkCtor_ok h]
      exact .adjoin v (by simp [Op.operands]) (squareAdjoin_fresh (adjoinCore_square hax ht))
  | append k v =>
    simp only [step, appendK] at h
    exact .adjoin v (by simp [Op.operands]) (adjoinCore_square hax h)
  | insert k obj v => exact absurd hax hok
  | incorp k obj v => exact absurd hax hok
  | concat k vs => exact absurd hax hok

/-- **One step on any admissible class keeps labels attached** (up to the fill value of the cross blocks of a
    square adjoin / append). -/
theorem step_attached_good [BEq lab] (le : lab → lab → Bool) (sch : Schema) (hg : sch.Good) (fill : α) (fx : Bool)
    (op : Op α lab) (hok : op.SquareOK sch) (s s' : St α lab) (hcons : consistentOK sch s = true)
    (hopnd : OperandsOK sch op s) (hp : PosDims s.mat) (hpv : ∀ v ∈ op.operands, PosDims v.mat)
    (h : step le sch fill fx op s = .ok s') (c : LCell α lab) (hc : IsLCell sch s' c) :
    IsLCell sch s c ∨ (∃ v ∈ op.operands, IsLCell sch (operandState s op.kind v) c) ∨ c.val = fill := by
  by_cases hax : sch.axes op.kind = [0, 1]
  · have hC := (cons_iff _ _).mp hcons
    have hsq : axLen 0 s.mat = axLen 1 s.mat := hC.2.2 op.kind 0 1 (by rw [hax]; simp) (by rw [hax]; simp)
    cases sqStep_form le sch hg fill fx op hax hok s s' h with
    | unary hu => exact Or.inl (unaryForm_attached_square sch hg.wf op.kind hax s s' hcons hsq hu c hc)
    | adjoin v hv hb =>
      have hov := hopnd v hv
      rcases squareAdjoin_attached sch hg.wf op.kind hax fill s v s' hcons hov.1 hov.2 hb c hc with h1 | h1 | h1
      · exact Or.inl h1
      · exact Or.inr (Or.inl ⟨v, hv, h1⟩)
      · exact Or.inr (Or.inr h1)
    | same hm hcols => exact Or.inl ((isLCell_congr sch s' s hm hcols c).mp hc)
  · rcases step_attached' le sch fill fx op (hg.at op.kind hax) s s' hcons hopnd hp hpv h c hc with h1 | h1
    · exact Or.inl h1
    · exact Or.inr (Or.inl h1)

/-- **… and preserves shape consistency.** -/
theorem step_cons_good [BEq lab] (le : lab → lab → Bool) (sch : Schema) (hg : sch.Good) (fill : α) (fx : Bool)
    (op : Op α lab) (hok : op.SquareOK sch) (s s' : St α lab) (hcons : consistentOK sch s = true)
    (hopnd : OperandsOK sch op s) (hp : PosDims s.mat) (hpv : ∀ v ∈ op.operands, PosDims v.mat)
    (hp' : PosDims s'.mat) (h : step le sch fill fx op s = .ok s') : consistentOK sch s' = true := by
  by_cases hax : sch.axes op.kind = [0, 1]
  · have hC := (cons_iff _ _).mp hcons
    rw [cons_iff]
    cases sqStep_form le sch hg fill fx op hax hok s s' h with
    | unary hu => exact cons_of_unaryForm_square sch hg.wf op.kind hax hg.lt s s' hC hp hp' hu
    | adjoin v hv hb =>
      have hov := hopnd v hv
      exact (cons_squareAdjoin sch hg.wf op.kind hax hg.lt fill s v s' hC ((cons_iff _ _).mp hov.1) hp hb).1
    | same hm hcols => exact cons_congr sch s s' hm hcols hC
  · exact step_cons' le sch fill fx op (hg.at op.kind hax) s s' hcons hopnd hp hpv hp' h

/-- a history on an admissible class: operands fit the state they meet, no dimension is or becomes 0, and no
    single-axis insert / incorp / concat on a square bundle -/
def ValidHist4 [BEq lab] (le : lab → lab → Bool) (sch : Schema) (fill : α) (fx : Bool) :
    List (Op α lab) → St α lab → Prop
  | [], _ => True
  | op :: ops, s =>
    OperandsOK sch op s ∧ op.SquareOK sch ∧ PosDims s.mat ∧ (∀ v ∈ op.operands, PosDims v.mat) ∧
      ∀ s1, step le sch fill fx op s = .ok s1 → PosDims s1.mat ∧ ValidHist4 le sch fill fx ops s1

theorem run_attached4 [BEq lab] (le : lab → lab → Bool) (sch : Schema) (hg : sch.Good) (fill : α) (fx : Bool)
    (ops : List (Op α lab)) (s s' : St α lab) (hcons : consistentOK sch s = true)
    (hv : ValidHist4 le sch fill fx ops s) (h : run le sch fill fx ops s = .ok s') :
    consistentOK sch s' = true ∧
      ∀ c, IsLCell sch s' c →
        IsLCell sch s c ∨ Sources.SourcesTail le sch fill fx ops s c ∨ c.val = fill := by
  induction ops generalizing s with
  | nil =>
    simp only [run, pure, Except.pure] at h
    cases h
    exact ⟨hcons, fun c hc => Or.inl hc⟩
  | cons op ops ih =>
    simp only [run, bind, Except.bind] at h
    split at h
    · cases h
    · rename_i s1 hs1
      obtain ⟨hopnd, hok, hp, hpv, hrest⟩ := hv
      obtain ⟨hp1, hv1⟩ := hrest s1 hs1
      have hc1 := step_cons_good le sch hg fill fx op hok s s1 hcons hopnd hp hpv hp1 hs1
      obtain ⟨hfin, hatt⟩ := ih s1 hc1 hv1 h
      refine ⟨hfin, ?_⟩
      intro c hc
      rcases hatt c hc with h1 | h1 | h1
      · rcases step_attached_good le sch hg fill fx op hok s s1 hcons hopnd hp hpv hs1 c h1 with h2 | h2 | h2
        · exact Or.inl h2
        · exact Or.inr (Or.inl (Or.inl h2))
        · exact Or.inr (Or.inr h2)
      · exact Or.inr (Or.inl (Or.inr ⟨s1, hs1, h1⟩))
      · exact Or.inr (Or.inr h1)

end LabelMat
