/-
Lemmas/LabelMatSquare.lean — bundles that govern the two leading axes (square taxa × taxa matrices):
unary edits apply the same natural operation along both axes and to the label columns.
-/
import PybropsModel.Lemmas.LabelMatCons

set_option autoImplicit false
set_option linter.unusedVariables false

namespace LabelMat

variable {α lab : Type}

theorem axisLen1_axMap0 {f : ListOp} (hf : Natural f) (m : Mat3 α) (n : Nat) (h : AxisLen 1 m n) :
    AxisLen 1 (axMap 0 f m) n := by
  intro pl hpl
  exact h pl (hf.mem m pl hpl)

/-- **Unary edits of a square bundle keep labels attached.** -/
theorem applyK_lcell_square (sch : Schema) (hwf : sch.WF) (k : Kind) (hax : sch.axes k = [0, 1])
    {f : ListOp} (hf : Natural f) (s : St α lab) (n : Nat)
    (h0 : AxisLen 0 s.mat n) (h1 : AxisLen 1 s.mat n) (hc : ColsLen (s.bundle k) n) (c : LCell α lab)
    (h : IsLCell sch (applyK sch k f s) c) : IsLCell sch s c := by
  obtain ⟨i, j, l, h⟩ := h
  rw [lcellAt_eq_some] at h
  obtain ⟨v, hv, rfl⟩ := h
  have hmat : (applyK sch k f s).mat = axMap 1 f (axMap 0 f s.mat) := by
    simp [applyK, hax]
  have hbk : (applyK sch k f s).bundle k = (s.bundle k).mapCols f := by simp [applyK]
  have hbo : ∀ kk, kk ≠ k → (applyK sch k f s).bundle kk = s.bundle kk := by
    intro kk hkk
    simp [applyK, bundle_setBundle_ne _ _ _ _ hkk]
  rw [hmat, cell_axMap hf 1 _ n (axisLen1_axMap0 hf s.mat n h1)] at hv
  simp only [getCoord, setCoord] at hv
  cases hx : (prov f n)[j]? with
  | none => rw [hx] at hv; cases hv
  | some x =>
    rw [hx] at hv
    simp only [Option.bind_some] at hv
    rw [cell_axMap hf 0 _ n h0] at hv
    simp only [getCoord, setCoord] at hv
    cases hy : (prov f n)[i]? with
    | none => rw [hy] at hv; cases hv
    | some y =>
      rw [hy] at hv
      simp only [Option.bind_some] at hv
      have hk0 : sch.kindOf 0 = some k := kindOf_of_mem hwf (by rw [hax]; simp)
      have hk1 : sch.kindOf 1 = some k := kindOf_of_mem hwf (by rw [hax]; simp)
      have hself : ∀ b, (b = 0 ∨ b = 1) → ∀ pos src, (prov f n)[pos]? = some src →
          axInfo sch (applyK sch k f s) b pos = axInfo sch s b src := by
        intro b hb pos src hps
        apply axInfo_congr
        · intro kk hkk
          have : kk = k := by
            rcases hb with rfl | rfl
            · rw [hk0] at hkk; cases hkk; rfl
            · rw [hk1] at hkk; cases hkk; rfl
          subst this
          rw [hbk]
          exact labelsAt_mapCols hf _ n hc pos src hps
        · intro hn
          rcases hb with rfl | rfl
          · rw [hk0] at hn; cases hn
          · rw [hk1] at hn; cases hn
      have hother : ∀ z, axInfo sch (applyK sch k f s) 2 z = axInfo sch s 2 z := by
        intro z
        apply axInfo_congr
        · intro kk hkk
          have : kk ≠ k := by
            intro e; subst e
            have := kindOf_mem hkk
            rw [hax] at this
            simp at this
          rw [hbo kk this]
        · intro _; rfl
      refine ⟨y, x, l, ?_⟩
      rw [lcellAt_eq_some]
      refine ⟨v, hv, ?_⟩
      rw [hself 0 (Or.inl rfl) i y hy, hself 1 (Or.inr rfl) j x hx, hother l]

theorem unaryForm_attached_square (sch : Schema) (hwf : sch.WF) (k : Kind) (hax : sch.axes k = [0, 1])
    (s s' : St α lab) (hcons : consistentOK sch s = true) (hsq : axLen 0 s.mat = axLen 1 s.mat)
    (hu : UnaryForm sch k s s') (c : LCell α lab) (h : IsLCell sch s' c) : IsLCell sch s c := by
  obtain ⟨f, hf, hm, hc⟩ := hu
  rw [isLCell_congr sch s' _ hm hc] at h
  have hr := consistent_rect hcons
  have a0 := axisLen_of_rect 0 s.mat hr
  have a1 := axisLen_of_rect 1 s.mat hr
  rw [← hsq] at a1
  exact applyK_lcell_square sch hwf k hax hf s (axLen 0 s.mat) a0 a1
    (colsLen_of_consistent hcons k 0 (by rw [hax]; simp)) c h

end LabelMat
