/-
Helper lemmas for C18 (11): `linspace` in rounded arithmetic.
For every rounding function that is monotone and fixes 0 (`RoundOK`), numpy's formula
`y[j] = rnd(rnd(j * step) + start)`, `step = rnd(rnd(stop - start) / n)`, `y[n] = stop` yields boundaries
that are sorted and bracket the chromosome (`BoundsOK`), provided `start` is representable (`rnd start = start`)
and the last computed point does not overshoot `stop`.  The overshoot condition cannot be dropped
(`overshoot_needed`: rounding up to integers, 3 bins on [0,1]); it holds in exact arithmetic and is
re-checked by the harness on numpy's own boundaries in every case.
-/
import PybropsModel.Lemmas.HaploLinspace
set_option autoImplicit false
set_option linter.unusedSectionVars false

namespace Haplo

section
variable {α : Type} [Field α] [LinearOrder α] [IsStrictOrderedRing α]

/-- the rounding contract: monotone, and zero is representable -/
structure RoundOK (rnd : α → α) : Prop where
  mono : ∀ x y, x ≤ y → rnd x ≤ rnd y
  zero : rnd 0 = 0

/-- rounded step of `linspace` -/
def stepR (rnd : α → α) (a b : α) (n : Nat) : α := rnd (rnd (b - a) / (n : α))

/-- `j`-th computed point -/
def pointR (rnd : α → α) (a b : α) (n j : Nat) : α := rnd (rnd ((j : α) * stepR rnd a b n) + a)

theorem linspaceR_eq (rnd : α → α) (a b : α) (n : Nat) (hn : n ≠ 0) :
    linspaceR rnd a b n = (List.range n).map (pointR rnd a b n) ++ [b] := by
  unfold linspaceR
  rw [if_neg hn]
  rfl

theorem stepR_nonneg (rnd : α → α) (hr : RoundOK rnd) (a b : α) (n : Nat) (hab : a ≤ b) :
    0 ≤ stepR rnd a b n := by
  unfold stepR
  have h1 : 0 ≤ rnd (b - a) := by
    have := hr.mono 0 (b - a) (sub_nonneg.mpr hab)
    rwa [hr.zero] at this
  have h2 : 0 ≤ rnd (b - a) / (n : α) := div_nonneg h1 (Nat.cast_nonneg n)
  have := hr.mono 0 _ h2
  rwa [hr.zero] at this

theorem pointR_mono (rnd : α → α) (hr : RoundOK rnd) (a b : α) (n : Nat) (hab : a ≤ b) (i j : Nat) (hij : i ≤ j) :
    pointR rnd a b n i ≤ pointR rnd a b n j := by
  unfold pointR
  apply hr.mono
  have hs := stepR_nonneg rnd hr a b n hab
  have hc : (i : α) ≤ (j : α) := by exact_mod_cast hij
  have := hr.mono _ _ (mul_le_mul_of_nonneg_right hc hs)
  linarith

theorem pointR_zero (rnd : α → α) (hr : RoundOK rnd) (a b : α) (n : Nat) (ha : rnd a = a) :
    pointR rnd a b n 0 = a := by
  simp [pointR, hr.zero, ha]

/-- **rounded `linspace` meets `BoundsOK`** -/
theorem linspaceR_boundsOK (rnd : α → α) (hr : RoundOK rnd) (a b : α) (n : Nat) (hn : 1 ≤ n) (hab : a ≤ b)
    (ha : rnd a = a) (hlast : pointR rnd a b n (n - 1) ≤ b) (pos : List α)
    (h : ∀ x ∈ pos, a ≤ x ∧ x ≤ b) : BoundsOK (linspaceR rnd a b n) pos := by
  have hn0 : n ≠ 0 := by omega
  rw [linspaceR_eq rnd a b n hn0]
  refine ⟨by simp; omega, ?_, ?_, ?_⟩
  · rw [List.pairwise_append]
    refine ⟨?_, List.pairwise_singleton _ _, ?_⟩
    · rw [List.pairwise_map]
      refine List.pairwise_lt_range.imp ?_
      intro i j hij
      exact pointR_mono rnd hr a b n hab i j hij.le
    · intro x hx y hy
      simp only [List.mem_map, List.mem_range] at hx
      obtain ⟨i, hi, rfl⟩ := hx
      simp only [List.mem_singleton] at hy
      rw [hy]
      exact le_trans (pointR_mono rnd hr a b n hab i (n - 1) (by omega)) hlast
  · intro a' ha' x hx
    obtain ⟨m, rfl⟩ : ∃ m, n = m + 1 := ⟨n - 1, by omega⟩
    rw [List.range_succ_eq_map] at ha'
    simp only [List.map_cons, List.cons_append, List.head?_cons, Option.mem_def, Option.some.injEq] at ha'
    subst ha'
    rw [pointR_zero rnd hr a b (m + 1) ha]
    exact (h x hx).1
  · intro b' hb' x hx
    simp only [List.getLast?_append, List.getLast?_singleton, Option.mem_def] at hb'
    simp only [Option.some_or, Option.some.injEq] at hb'
    rw [← hb']
    exact (h x hx).2

theorem linspaceR_length (rnd : α → α) (a b : α) (n : Nat) (hn : 1 ≤ n) : (linspaceR rnd a b n).length = n + 1 := by
  rw [linspaceR_eq rnd a b n (by omega)]
  simp

/-- exact arithmetic is an instance of the contract, overshoot condition included -/
theorem roundOK_id : RoundOK (id : α → α) := ⟨fun _ _ h => h, rfl⟩

theorem pointR_id_last (a b : α) (n : Nat) (hn : 1 ≤ n) (hab : a ≤ b) : pointR id a b n (n - 1) ≤ b := by
  unfold pointR stepR
  simp only [id]
  have hnpos : (0 : α) < (n : α) := by exact_mod_cast hn
  have hs : (0 : α) ≤ (b - a) / (n : α) := div_nonneg (sub_nonneg.mpr hab) hnpos.le
  have hfull : (n : α) * ((b - a) / (n : α)) = b - a := mul_div_cancel₀ _ (ne_of_gt hnpos)
  have h1 : ((n - 1 : Nat) : α) ≤ (n : α) := by exact_mod_cast Nat.sub_le n 1
  have h2 := mul_le_mul_of_nonneg_right h1 hs
  rw [hfull] at h2
  linarith

theorem linspaceR_id (a b : α) (n : Nat) : linspaceR id a b n = linspace a b n := by
  unfold linspaceR linspace
  split
  · rfl
  · congr 1
    apply List.map_congr_left
    intro j _
    simp only [id]
    ring

/-- what the harness checks of numpy's boundaries for one chromosome, as a hypothesis on `rnd` -/
def ChromRoundOK (rnd : α → α) (n : Nat) (c : List α) : Prop :=
  1 ≤ n ∧ rnd (c.headD 0) = c.headD 0 ∧ pointR rnd (c.headD 0) (c.getLastD 0) n (n - 1) ≤ c.getLastD 0

theorem hboundsR_ok (rnd : α → α) (hr : RoundOK rnd) (nblk : List Nat) (chroms : List (List α))
    (hc : List.Forall₂ (ChromRoundOK rnd) nblk chroms) (hv : ∀ c ∈ chroms, c ≠ [] ∧ c.Pairwise (· ≤ ·)) :
    List.Forall₂ BoundsOK (hboundsR rnd nblk chroms) chroms ∧ nbins (hboundsR rnd nblk chroms) = nblk.sum := by
  induction hc with
  | nil => simp [hboundsR, nbins]
  | @cons n c ns cs h1 _ ih =>
    obtain ⟨hn, hfix, hlast⟩ := h1
    obtain ⟨i1, i2⟩ := ih (fun c' hc' => hv c' (List.mem_cons_of_mem _ hc'))
    obtain ⟨hne, hs⟩ := hv c List.mem_cons_self
    have hbo : BoundsOK (linspaceR rnd (c.headD 0) (c.getLastD 0) n) c := by
      cases c with
      | nil => exact absurd rfl hne
      | cons a t =>
        have hl := sorted_le_getLastD a t 0 hs
        have hh : ∀ x ∈ a :: t, a ≤ x := by
          intro x hx
          rcases List.mem_cons.mp hx with rfl | hx
          · exact le_refl _
          · exact (List.pairwise_cons.mp hs).1 x hx
        apply linspaceR_boundsOK rnd hr _ _ n hn _ hfix hlast
        · intro x hx; exact ⟨by simpa using hh x hx, hl x hx⟩
        · simpa using hl a List.mem_cons_self
    refine ⟨?_, ?_⟩
    · simp only [hboundsR, List.zipWith_cons_cons]
      exact List.Forall₂.cons hbo i1
    · simp only [hboundsR, List.zipWith_cons_cons, nbins, List.map_cons, List.sum_cons]
      rw [linspaceR_length rnd _ _ n hn]
      simp only [nbins, hboundsR] at i2
      rw [i2]; omega

end

/-- the overshoot condition is necessary: rounding up to the next integer is monotone and fixes 0, 0 and 1
    are representable, yet 3 bins on [0,1] give the "boundaries" 0, 1, 2, 1 -/
theorem overshoot_needed :
    let rnd : ℚ → ℚ := fun x => (⌈x⌉ : ℤ)
    RoundOK rnd ∧ rnd 0 = 0 ∧ rnd 1 = 1 ∧ linspaceR rnd 0 1 3 = [0, 1, 2, 1] := by
  intro rnd
  refine ⟨⟨?_, by simp [rnd]⟩, by simp [rnd], by simp [rnd], ?_⟩
  · intro x y hxy
    simp only [rnd]
    exact_mod_cast Int.ceil_mono hxy
  · simp only [linspaceR, rnd]
    norm_num [List.range_succ]

end Haplo
