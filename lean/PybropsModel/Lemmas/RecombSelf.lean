/-
Helper lemmas for C02 (round 3): selfing generations.
 * deterministic part: `selfLoop` (C01's model of `for i in range(nself): geno = mat_mate(geno, geno, asel, asel, …)`)
   is the iteration of a pure one-generation map `selfGen`, each generation reading its own two draw matrices;
 * law part: the indicator that a two-generation gamete carries different grandparental copies at two markers,
   written as a sum of products of events of the three meioses involved.
-/
import PybropsModel.Lemmas.RecombWiring
set_option autoImplicit false
set_option linter.unusedSectionVars false

namespace Recomb
open Meiosis Mating

section gens
variable {α ρ : Type} [LinearOrder ρ] [Zero ρ]

/-- one selfing generation as a function of its two draw matrices: plant k gives progeny k, whose copy 0 is
    the gamete of plant k under row k of the first matrix and copy 1 its gamete under row k of the second -/
def selfGen (xo : List ρ) (pop : Pop α) (rf rm : DrawMat ρ) : Pop α :=
  pop.zipIdx.map (fun ik =>
    (meiosisRow ik.1.1 ik.1.2 (rf.getD ik.2 []) xo, meiosisRow ik.1.1 ik.1.2 (rm.getD ik.2 []) xo))

/-- `n` generations, each consuming the next two draw matrices -/
def selfGens (xo : List ρ) : Nat → Pop α → List (DrawMat ρ) → Pop α
  | n + 1, pop, rf :: rm :: rest => selfGens xo n (selfGen xo pop rf rm) rest
  | _, pop, _ => pop

theorem selfGen_length (xo : List ρ) (pop : Pop α) (rf rm : DrawMat ρ) :
    (selfGen xo pop rf rm).length = pop.length := by
  simp [selfGen]

theorem arange_getD (n k : Nat) (hk : k < n) : (Np.arange 0 n).getD k 0 = k := by
  simp [Np.arange, List.getD_eq_getElem?_getD, hk]

theorem arange_length (n : Nat) : (Np.arange 0 n).length = n := by simp [Np.arange]

/-- one `mat_mate(geno, geno, arange, arange, …)` is `selfGen` -/
theorem mateE_self_eq_selfGen {pop : Pop α} {xo : List ρ} {rf rm : DrawMat ρ} {rest d' : List (DrawMat ρ)}
    {out : Pop α}
    (h : mateE pop pop (Np.arange 0 pop.length) (Np.arange 0 pop.length) xo (rf :: rm :: rest) = .ok (out, d')) :
    d' = rest ∧ out = selfGen xo pop rf rm := by
  obtain ⟨h1, h2, _, h4⟩ := mateE_row h
  refine ⟨h1, ?_⟩
  rw [arange_length] at h2
  apply List.ext_getElem?
  intro k
  by_cases hk : k < out.length
  · obtain ⟨fi, mi, hf, hm, ho⟩ := h4 k hk
    rw [arange_getD _ _ (by omega)] at hf hm
    rw [hf] at hm
    cases hm
    rw [ho]
    have hk' : k < pop.length := by omega
    rw [List.getElem?_eq_getElem hk'] at hf
    cases hf
    simp [selfGen, List.getElem?_map, List.getElem?_zipIdx, hk']
  · have h5 : out.length ≤ k := by omega
    rw [List.getElem?_eq_none h5, List.getElem?_eq_none (by rw [selfGen_length]; omega)]

/-- **Selfing is the iteration of single meioses.**  Whenever the selfing loop of a protocol succeeds on a
    population of `L` plants, it consumed exactly `2·n` draw matrices, and its result is the `n`-fold iterate
    of `selfGen`: in every generation both copies of plant k are gametes (`meiosisRow`) of plant k of the
    previous generation, each under its own row of its own draw matrix. -/
theorem selfLoop_eq_selfGens {xo : List ρ} (L : Nat) : ∀ (n : Nat) {pop : Pop α} {d d' : List (DrawMat ρ)}
    {out : Pop α}, pop.length = L →
    selfLoop xo (Np.arange 0 L) n pop d = .ok (out, d') →
    2 * n ≤ d.length ∧ d' = d.drop (2 * n) ∧ out = selfGens xo n pop d ∧ out.length = L
  | 0, pop, d, d', out, hL, h => by
    simp only [selfLoop, Except.ok.injEq, Prod.mk.injEq] at h
    obtain ⟨rfl, rfl⟩ := h
    cases d with
    | nil => simp [selfGens, hL]
    | cons a t => cases t <;> simp [selfGens, hL]
  | n + 1, pop, d, d', out, hL, h => by
    simp only [selfLoop] at h
    cases hm : mateE pop pop (Np.arange 0 L) (Np.arange 0 L) xo d with
    | error e => simp [hm] at h
    | ok r =>
      obtain ⟨p1, d1⟩ := r
      simp only [hm] at h
      match d, hm with
      | [], hm => simp [mateE] at hm
      | [_], hm => simp [mateE] at hm
      | rf :: rm :: rest, hm =>
        rw [← hL] at hm
        obtain ⟨rfl, rfl⟩ := mateE_self_eq_selfGen hm
        have hL' : (selfGen xo pop rf rm).length = L := by rw [selfGen_length, hL]
        obtain ⟨i1, i2, i3, i4⟩ := selfLoop_eq_selfGens L n hL' h
        refine ⟨by simp only [List.length_cons]; omega, ?_, ?_, i4⟩
        · rw [i2]
          have : 2 * (n + 1) = 2 + 2 * n := by ring
          rw [this, ← List.drop_drop]
          rfl
        · rw [i3]; rfl

end gens

section stage
variable {α ρ : Type} [LinearOrder ρ] [Zero ρ]

/-- **Every protocol has the same tail.**  After the crosses that build the hybrid population `hyb`, every one
    of the seven `mate()` runs the selfing loop on it and then — the doubled-haploid protocols only — one
    `mat_dh` on the selfed population. -/
theorem generate_selfing_stage (P : Proto) (pop : Pop α) (xc : List (List Nat)) (nm np : List Nat) (nself : Nat)
    (xo : List ρ) (d : List (DrawMat ρ)) (prog : Pop α) (rest : List (DrawMat ρ))
    (h : generate P pop xc nm np nself xo d = .ok (prog, rest)) :
    ∃ (hyb : Pop α) (d1 : List (DrawMat ρ)) (selfed : Pop α) (d2 : List (DrawMat ρ)),
      selfLoop xo (Np.arange 0 hyb.length) nself hyb d1 = .ok (selfed, d2) ∧
      (if P.isDH then
         dhE selfed (Np.repeatEach (Np.repeatEach nm np) (Np.arange 0 selfed.length)) xo d2 = .ok (prog, rest)
       else (prog, rest) = (selfed, d2)) := by
  cases P
  · -- self
    simp only [generate] at h
    split at h
    · cases h
    · exact ⟨_, _, _, _, h, by simp [Proto.isDH]⟩
  · -- twoWay
    simp only [generate] at h
    split at h
    · cases h
    · exact ⟨_, _, _, _, h, by simp [Proto.isDH]⟩
  · -- twoWayDH
    simp only [generate] at h
    split at h
    · cases h
    · split at h
      · cases h
      · rename_i hs
        exact ⟨_, _, _, _, hs, by simpa [Proto.isDH] using h⟩
  · -- threeWay
    simp only [generate] at h
    split at h
    · cases h
    · split at h
      · cases h
      · exact ⟨_, _, _, _, h, by simp [Proto.isDH]⟩
  · -- threeWayDH
    simp only [generate] at h
    split at h
    · cases h
    · split at h
      · cases h
      · split at h
        · cases h
        · rename_i hs
          exact ⟨_, _, _, _, hs, by simpa [Proto.isDH] using h⟩
  · -- fourWay
    simp only [generate] at h
    split at h
    · cases h
    · split at h
      · cases h
      · split at h
        · cases h
        · exact ⟨_, _, _, _, h, by simp [Proto.isDH]⟩
  · -- fourWayDH
    simp only [generate] at h
    split at h
    · cases h
    · split at h
      · cases h
      · split at h
        · cases h
        · split at h
          · cases h
          · rename_i hs
            exact ⟨_, _, _, _, hs, by simpa [Proto.isDH] using h⟩

end stage

section twogen
variable {α : Type}

theorem phases_length (m : List Bool) : (phases m).length = m.length := phasesFrom_length false m

theorem phases_getD (m : List Bool) (k : Nat) (hk : k < m.length) :
    (phases m).getD k false = (phases m)[k]'(by rw [phases_length]; exact hk) := by
  rw [List.getD_eq_getElem?_getD, List.getElem?_eq_getElem (by rw [phases_length]; exact hk), Option.getD_some]

/-- **Two generations, cell by cell.**  Grandparent with copies `g0`, `g1`; parent = (its gamete under mask
    `b0`, its gamete under mask `b1`); the parent's gamete under mask `a` carries at marker k the allele of
    grandparental copy `lab2 a b0 b1 k`. -/
theorem two_generation_cell_aux (g0 g1 : List α) (a b0 b1 : List Bool) (n : Nat)
    (e0 : g0.length = n) (e1 : g1.length = n) (ea : a.length = n) (eb0 : b0.length = n) (eb1 : b1.length = n)
    (k : Nat) (hk : k < n) :
    (mosaic (phases a) (mosaic (phases b0) g0 g1) (mosaic (phases b1) g0 g1))[k]? =
      some (if lab2 a b0 b1 k then g1[k] else g0[k]) := by
  have la : (phases a).length = n := by rw [phases_length, ea]
  have l0 : (phases b0).length = n := by rw [phases_length, eb0]
  have l1 : (phases b1).length = n := by rw [phases_length, eb1]
  have m0 : (mosaic (phases b0) g0 g1).length = n := by rw [mosaic_length _ _ _ (by omega) (by omega), l0]
  have m1 : (mosaic (phases b1) g0 g1).length = n := by rw [mosaic_length _ _ _ (by omega) (by omega), l1]
  have mo : (mosaic (phases a) (mosaic (phases b0) g0 g1) (mosaic (phases b1) g0 g1)).length = n := by
    rw [mosaic_length _ _ _ (by omega) (by omega), la]
  rw [List.getElem?_eq_getElem (by omega),
      mosaic_getElem _ _ _ k (by omega) (by omega) (by omega) (by omega),
      mosaic_getElem (phases b0) g0 g1 k (by omega) (by omega) (by omega) (by omega),
      mosaic_getElem (phases b1) g0 g1 k (by omega) (by omega) (by omega) (by omega)]
  unfold lab2
  rw [phases_getD a k (by omega), phases_getD b0 k (by omega), phases_getD b1 k (by omega)]
  cases (phases a)[k]'(by omega) <;> simp

end twogen

section labels
variable {α : Type} [Field α]

theorem ind_bne (u v : Bool) : (ind (u != v) : α) = ind u * (1 - ind v) + (1 - ind u) * ind v := by
  cases u <;> cases v <;> simp [ind]

/-- the event "different grandparental copies at i and j" of a two-generation gamete, split by which parental
    copy the last meiosis reads at i and at j -/
theorem ind_lab2_bne (a b0 b1 : List Bool) (i j : Nat) :
    (ind (lab2 a b0 b1 i != lab2 a b0 b1 j) : α) =
      ind ((phases a).getD i false == false && (phases a).getD j false == false) *
        ind ((phases b0).getD i false != (phases b0).getD j false) +
      ind ((phases a).getD i false == true && (phases a).getD j false == true) *
        ind ((phases b1).getD i false != (phases b1).getD j false) +
      ind ((phases a).getD i false == false && (phases a).getD j false == true) *
        ind ((phases b0).getD i false != (phases b1).getD j false) +
      ind ((phases a).getD i false == true && (phases a).getD j false == false) *
        ind ((phases b1).getD i false != (phases b0).getD j false) := by
  unfold lab2
  cases (phases a).getD i false <;> cases (phases a).getD j false <;>
    cases (phases b0).getD i false <;> cases (phases b0).getD j false <;>
    cases (phases b1).getD i false <;> cases (phases b1).getD j false <;> simp [ind]

end labels

end Recomb
