/-
Helper lemmas for C18 (17): the cross map `_calc_xmap` (`triudix` / `triuix` of pybrops.core.util.array) lists exactly
the strictly increasing (unique parents) resp. non-decreasing parent tuples over the taxa.
-/
import Mathlib.Tactic
import PybropsModel.Model.Haplo
set_option autoImplicit false

namespace Haplo

theorem mem_triudixFrom (n k st : Nat) (l : List Nat) :
    l ∈ triudixFrom n k st ↔ l.length = k ∧ l.Pairwise (· < ·) ∧ ∀ x ∈ l, st ≤ x ∧ x < n := by
  induction k generalizing st l with
  | zero =>
    simp only [triudixFrom, List.mem_singleton, List.length_eq_zero_iff]
    constructor
    · rintro rfl; simp
    · exact fun h => h.1
  | succ k ih =>
    simp only [triudixFrom, List.mem_flatMap, List.mem_range]
    constructor
    · rintro ⟨i, hi, hmem⟩
      by_cases hst : st ≤ i
      · rw [if_pos hst, List.mem_map] at hmem
        obtain ⟨t, ht, rfl⟩ := hmem
        obtain ⟨h1, h2, h3⟩ := (ih (i + 1) t).mp ht
        refine ⟨by simp [h1], ?_, ?_⟩
        · rw [List.pairwise_cons]
          exact ⟨fun x hx => by have := (h3 x hx).1; omega, h2⟩
        · intro x hx
          rcases List.mem_cons.mp hx with rfl | hx
          · exact ⟨hst, hi⟩
          · have := h3 x hx; exact ⟨by omega, this.2⟩
      · rw [if_neg hst] at hmem; simp at hmem
    · rintro ⟨h1, h2, h3⟩
      cases l with
      | nil => simp at h1
      | cons i t =>
        have hi := h3 i List.mem_cons_self
        refine ⟨i, hi.2, ?_⟩
        rw [if_pos hi.1, List.mem_map]
        refine ⟨t, (ih (i + 1) t).mpr ⟨by simpa using h1, (List.pairwise_cons.mp h2).2, ?_⟩, rfl⟩
        intro x hx
        have := (List.pairwise_cons.mp h2).1 x hx
        exact ⟨by omega, (h3 x (List.mem_cons_of_mem _ hx)).2⟩

theorem mem_triuixFrom (n k st : Nat) (l : List Nat) :
    l ∈ triuixFrom n k st ↔ l.length = k ∧ l.Pairwise (· ≤ ·) ∧ ∀ x ∈ l, st ≤ x ∧ x < n := by
  induction k generalizing st l with
  | zero =>
    simp only [triuixFrom, List.mem_singleton, List.length_eq_zero_iff]
    constructor
    · rintro rfl; simp
    · exact fun h => h.1
  | succ k ih =>
    simp only [triuixFrom, List.mem_flatMap, List.mem_range]
    constructor
    · rintro ⟨i, hi, hmem⟩
      by_cases hst : st ≤ i
      · rw [if_pos hst, List.mem_map] at hmem
        obtain ⟨t, ht, rfl⟩ := hmem
        obtain ⟨h1, h2, h3⟩ := (ih i t).mp ht
        refine ⟨by simp [h1], ?_, ?_⟩
        · rw [List.pairwise_cons]
          exact ⟨fun x hx => (h3 x hx).1, h2⟩
        · intro x hx
          rcases List.mem_cons.mp hx with rfl | hx
          · exact ⟨hst, hi⟩
          · have := h3 x hx; exact ⟨by omega, this.2⟩
      · rw [if_neg hst] at hmem; simp at hmem
    · rintro ⟨h1, h2, h3⟩
      cases l with
      | nil => simp at h1
      | cons i t =>
        have hi := h3 i List.mem_cons_self
        refine ⟨i, hi.2, ?_⟩
        rw [if_pos hi.1, List.mem_map]
        refine ⟨t, (ih i t).mpr ⟨by simpa using h1, (List.pairwise_cons.mp h2).2, ?_⟩, rfl⟩
        intro x hx
        exact ⟨(List.pairwise_cons.mp h2).1 x hx, (h3 x (List.mem_cons_of_mem _ hx)).2⟩

/-- **the cross map is complete and exact**: its rows are exactly the `nparent`-tuples of taxa indices that are
    strictly increasing (`unique_parents`) resp. non-decreasing -/
theorem mem_xmap (ntaxa nparent : Nat) (unique : Bool) (par : List Nat) :
    par ∈ xmap ntaxa nparent unique ↔
      par.length = nparent ∧ (∀ p ∈ par, p < ntaxa) ∧
        (if unique then par.Pairwise (· < ·) else par.Pairwise (· ≤ ·)) := by
  unfold xmap
  cases unique with
  | true =>
    simp only [if_true, mem_triudixFrom, Nat.zero_le, true_and]
    tauto
  | false =>
    simp only [Bool.false_eq_true, if_false, mem_triuixFrom, Nat.zero_le, true_and]
    tauto

end Haplo
