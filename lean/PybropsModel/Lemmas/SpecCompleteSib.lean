/-
C01: why the completeness of the Spec stops at the self / two-way protocols.  In the five other protocols several
progeny share one intermediate individual (all doubled haploids of one mating are gametes of ONE line:
`Lemmas/Siblings.lean`); the Spec — like the property statement — judges the progeny one by one.  Witness: two
"doubled haploids" of one two-way mating that each have the prescribed pedigree but cannot come from the same hybrid
(no crossover is possible between the two markers, and the hybrid carries only ONE gamete of the female).
-/
import Mathlib.Tactic
import PybropsModel.Lemmas.Siblings
import PybropsModel.Lemmas.MatingSpec
import PybropsModel.Model.Pedigree
set_option autoImplicit false

namespace Mating
open Meiosis

def sibPop : Pop Int := [([1, 2], [3, 4]), ([5, 6], [7, 8])]

/-- both copies of the female, each doubled: every row alone is a doubled haploid of SOME hybrid F x M -/
def sibOut : Out Int :=
  ⟨[⟨([1, 2], [1, 2]), name [100, 104] 0, 0⟩, ⟨([3, 4], [3, 4]), name [100, 104] 1, 0⟩], 2, 1, []⟩

theorem sibOut_spec :
    (specMate (ρ := Int) .twoWayDH sibPop [[0, 1]] (.scalar 1) (.scalar 2) 0 [1, 0] 0 0 sibOut).1 = true := by
  decide +kernel

/-- two markers, no crossover possible between them: a mosaic of two haplotypes is one of them -/
theorem mosaic_noxo2 (a0 a1 b0 b1 : Int) (o : List Int)
    (h : Mosaic [[a0, a1], [b0, b1]] ([1, 0] : List Int) o) : o = [a0, a1] ∨ o = [b0, b1] := by
  obtain ⟨cur, _, hm⟩ := h
  match o, hm with
  | [], hm => simp [MosaicFrom] at hm
  | [_], hm => simp [MosaicFrom] at hm
  | [o0, o1], hm =>
    simp only [MosaicFrom] at hm
    obtain ⟨nxt, hn, _, hh, nxt2, hn2, hor, hh2, _⟩ := hm
    simp at hn hn2 hor
    rcases hn with rfl | rfl
    · left
      subst hor
      simp at hh hh2
      simp [hh, hh2]
    · right
      subst hor
      simp at hh hh2
      simp [hh, hh2]
  | _ :: _ :: _ :: _, hm => simp [MosaicFrom] at hm

/-- a doubled haploid of a hybrid `H` of `sibPop[0] x sibPop[1]` whose copy is `[1,2]` forces `H.1 = [1,2]`, one
    whose copy is `[3,4]` forces `H.1 = [3,4]` -/
theorem sib_hybrid_female (H : Ind Int) (hH : lineage ([1, 0] : List Int) .twoWay 0 sibPop [0, 1] H) (g : List Int)
    (hg : g = [1, 2] ∨ g = [3, 4]) (hm : Mosaic [H.1, H.2] ([1, 0] : List Int) g) : H.1 = g := by
  obtain ⟨F, M, hF, hM, h1, h2⟩ := hH
  have eF : F = ([1, 2], [3, 4]) := by simpa [isInd, sibPop] using hF.symm
  have eM : M = ([5, 6], [7, 8]) := by simpa [isInd, sibPop] using hM.symm
  subst eF eM
  obtain ⟨a, b⟩ := H
  simp only at h1 h2 hm ⊢
  rcases mosaic_noxo2 _ _ _ _ _ h1 with rfl | rfl <;> rcases mosaic_noxo2 _ _ _ _ _ h2 with rfl | rfl <;>
    rcases mosaic_noxo2 _ _ _ _ _ hm with h | h <;> rcases hg with rfl | rfl <;> simp_all

/-- no non-negative draws make the model return `sibOut`: its two doubled haploids would need two different
    female gametes in the one hybrid of the one mating -/
theorem sibOut_unreachable (draws : List (DrawMat Int)) (out' : Out Int) (hnn : Nonneg draws)
    (h : mate .twoWayDH sibPop [[0, 1]] (.scalar 1) (.scalar 2) 0 [1, 0] 0 0 draws = .ok out') :
    out'.rows ≠ sibOut.rows := by
  intro he
  obtain ⟨nm, np, prog, hs, hnm, hnp, hgen, hlen, hrows, _, _⟩ := mate_inv h
  have enm : nm = [1] := by simpa [Cnt.expand] using hnm.symm
  have enp : np = [2] := by simpa [Cnt.expand] using hnp.symm
  subst enm enp
  obtain ⟨hyb, pt, hall⟩ := siblings_ok .twoWayDH rfl hs hnn hgen
  -- one line
  have e1 : Np.repeatEach [1] (([[0, 1]] : List (List Nat)).map (lineage ([1, 0] : List Int) Proto.twoWayDH.base 0 sibPop))
      = [lineage ([1, 0] : List Int) .twoWay 0 sibPop [0, 1]] := by simp [Np.repeatEach, Proto.base]
  rw [e1] at pt
  unfold PT at pt
  obtain ⟨H, hyb', hH, hnil, rfl⟩ := List.forall₂_cons_right_iff.mp pt
  have : hyb' = [] := by simpa using hnil
  subst this
  -- two doubled haploids of that line
  have e2 : Np.repeatEach (Np.repeatEach [1] [2]) (Np.arange 0 [H].length) = [0, 0] := by
    simp [Np.repeatEach, Np.arange, List.range_succ]
  rw [e2] at hall
  obtain ⟨c1, prog1, d1, hall1, rfl⟩ := List.forall₂_cons_left_iff.mp hall
  obtain ⟨c2, prog2, d2, hall2, rfl⟩ := List.forall₂_cons_left_iff.mp hall1
  have : prog2 = [] := by simpa using hall2
  subst this
  -- the rows of the result are an arrangement of the generation-order rows
  have hp : (out'.rows.map Row.ind).Perm [c1, c2] := by
    rw [hrows]
    have := (groupTaxa_perm (genRows Proto.twoWayDH [c1, c2] 0
      (families Proto.twoWayDH 0 ([[0, 1]] : List (List Nat)).length [1] [2]))).map Row.ind
    rwa [genRows_map_ind _ _ _ _ hlen] at this
  rw [he] at hp
  have m1 : (([1, 2], [1, 2]) : Ind Int) ∈ [c1, c2] := hp.subset (by simp [sibOut])
  have m2 : (([3, 4], [3, 4]) : Ind Int) ∈ [c1, c2] := hp.subset (by simp [sibOut])
  have key : ∀ c ∈ [c1, c2], Mosaic [H.1, H.2] ([1, 0] : List Int) c.1 := by
    intro c hc
    simp only [List.mem_cons, List.not_mem_nil, or_false] at hc
    rcases hc with rfl | rfl
    · obtain ⟨H', hH', hm, _⟩ := d1
      have : H' = H := by simpa using hH'.symm
      subst this; exact hm
    · obtain ⟨H', hH', hm, _⟩ := d2
      have : H' = H := by simpa using hH'.symm
      subst this; exact hm
  have f1 := sib_hybrid_female H hH [1, 2] (Or.inl rfl) (key _ m1)
  have f2 := sib_hybrid_female H hH [3, 4] (Or.inr rfl) (key _ m2)
  rw [f1] at f2
  exact absurd f2 (by decide)

end Mating
