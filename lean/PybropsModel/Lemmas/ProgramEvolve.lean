/-
Helper lemmas for C20: one replicate, the replicate loop, the initialisation phase, `evolve` —
for every schedule accepted by the dataflow analysis.
-/
import PybropsModel.Lemmas.ProgramLoop
set_option autoImplicit false
set_option linter.unusedSectionVars false
set_option linter.unusedVariables false

namespace Program
section
variable {σ V : Type} [DecidableEq V]
variable {I : σ → Heap (Cell V) → Prop} {S : List Ref} {V0 : List (Option (View V))} {ops : Ops σ V} {cfg : Cfg V}

/-! ### no-op statements -/

theorem isSkip_eq {s : Stmt} (h : s.isSkip = true) : s = .skip := by
  cases s <;> simp [Stmt.isSkip] at h ⊢

theorem execList_strip (f : Stmt → State σ V → State σ V) (hskip : ∀ st, f .skip st = st)
    (l : List Stmt) (st : State σ V) : execList f (strip l) st = execList f l st := by
  induction l generalizing st with
  | nil => rfl
  | cons s l ih =>
    unfold strip
    rw [List.filter_cons]
    cases hs : s.isSkip with
    | true =>
      have := isSkip_eq hs
      subst this
      simp only [Bool.not_true, Bool.false_eq_true, if_false]
      show execList f (strip l) st = execList f l (f .skip st)
      rw [hskip, ih]
    | false =>
      simp only [Bool.not_false, if_true]
      show execList f (strip l) (f s st) = execList f l (f s st)
      exact ih _

theorem execR_skip (sc : Schedule) (st : State σ V) : execR ops cfg sc .skip st = st :=
  execS_skip (ops := ops) (cfg := cfg) st

theorem execE_skip (sc : Schedule) (st : State σ V) : execE ops cfg sc .skip st = st :=
  execS_skip (ops := ops) (cfg := cfg) st

theorem execList_of_strip_nil (f : Stmt → State σ V → State σ V) (hskip : ∀ st, f .skip st = st)
    (l : List Stmt) (h : strip l = []) (st : State σ V) : execList f l st = st := by
  rw [← execList_strip f hskip, h]; rfl

theorem execList_append (f : Stmt → State σ V → State σ V) (l1 l2 : List Stmt) (st : State σ V) :
    execList f (l1 ++ l2) st = execList f l2 (execList f l1 st) := by
  simp [execList, List.foldl_append]

/-- `advance` of a schedule whose loop is all there is to it -/
theorem advance_eq (sc : Schedule) (he : wfEmpty sc = true) {st : State σ V} (n : Nat)
    (hn : st.ngen = some n) :
    advance ops cfg sc st = iter (execList (execR ops cfg sc) sc.advanceGen) n st := by
  simp only [wfEmpty, Bool.and_eq_true, beq_iff_eq] at he
  unfold advance
  rw [execList_of_strip_nil _ (fun st => execR_skip sc st) _ he.1.2]
  simp only [hn]
  rw [execList_of_strip_nil _ (fun st => execR_skip sc st) _ he.2]

/-! ### one replicate -/

/-- number of events of one replicate -/
def repLen (loginit : Bool) (ngen : Nat) : Nat := 1 + (if loginit then 1 else 0) + 8 * ngen

theorem splitAdvance_eq {l body : List Stmt} (h : splitAdvance l = some body) :
    strip l = body ++ [.callAdvance] := by
  unfold splitAdvance at h
  split at h
  · rename_i rest hrev
    simp only [Option.some.injEq] at h
    subst h
    have := congrArg List.reverse hrev
    simpa using this
  · cases h

theorem repEntry_conc (st : State σ V) :
    Conc cfg.depth V0 cfg.loginit [] 0 st.rep st.trace repEntry st := by
  refine ⟨rfl, ?_, by simp [TRel, repEntry], by simp [repEntry], ?_, ⟨[], by simp, by simp [repEntry]⟩⟩
  · intro r tok h; simp [repEntry] at h
  · intro tok i h; simp [repEntry] at h

theorem pristine_take {e : SEv} {c : Event (View V)} {ρ : List Ref} {base : Nat} {rep0 : Int}
    (m : EvMatch V0 ρ base rep0 e c) (hV : V0.length = 5) (hp : e.pristine.take 5 = slots) :
    c.argVals.take 5 = V0 := by
  apply List.ext_getElem?
  intro j
  by_cases hj : j < 5
  · have : e.pristine[j]? = some (some j) := by
      have := congrArg (fun l => l[j]?) hp
      simp only [List.getElem?_take, hj, if_true] at this
      rw [this]
      simp only [slots]
      interval_cases j <;> rfl
    rw [List.getElem?_take, if_pos hj, ← m.pristine j j this]
  · rw [List.getElem?_take, if_neg hj, List.getElem?_eq_none (by omega)]

theorem rep_spec (hR : Respects I S ops) (hS : S.length = 5) (sc : Schedule) (hg : wfGen sc = true)
    (he : wfEmpty sc = true) (hrp : wfRep sc = true) (n : Nat) {st : State σ V} (g : Good I cfg.depth S V0 st)
    (hn : st.ngen = some n) :
    ∃ (st' : State σ V) (es : List (Event (View V))),
      execList (execE ops cfg sc) sc.evolveRep st = st' ∧ Good I cfg.depth S V0 st' ∧
      st'.trace = st.trace ++ es ∧ st'.rep = st.rep + 1 ∧ st'.ngen = some n ∧
      es.length = repLen cfg.loginit n ∧
      (∀ e ∈ es, e.rep = st.rep + 1 ∧ (cfg.loginit = false → e.kind ≠ .log .initialize) ∧ e.kind ≠ .init) ∧
      (∃ cur : List Ref, five.map st'.regs = cur.map some ∧ cur.length = 5) ∧
      (∀ (R : Item (View V) → Item (View V) → Bool), ReflOnRefs R → ∀ (rest : List (Event (View V))),
        checkRep R V0 cfg.loginit n (es ++ rest) = some rest) ∧
      st'.t = n + 1 := by
  have hV : V0.length = 5 := by rw [← g.svals, vals_length, hS]
  unfold wfRep at hrp
  cases hsp : splitAdvance sc.evolveRep with
  | none => simp [hsp] at hrp
  | some body =>
  simp only [hsp] at hrp
  generalize hA : symList (symR sc) body repEntry = a1 at hrp
  simp only [Bool.and_eq_true, beq_iff_eq] at hrp
  obtain ⟨⟨⟨hok, ht⟩, hrep⟩, hm⟩ := hrp
  cases hout : resolve a1.regs five with
  | none => simp [hout] at hm
  | some out =>
  simp only [hout] at hm
  split at hm
  · rename_i x1 x2 out' e0 e1 hx1 hevs
    cases hx1
    simp only [Bool.and_eq_true, beq_iff_eq, Bool.not_eq_true'] at hm
    obtain ⟨⟨⟨⟨⟨⟨⟨⟨⟨⟨⟨K0, G0⟩, T0⟩, P0⟩, PR0⟩, O0⟩, L0⟩, K1⟩, G1⟩, T1⟩, P1⟩, A1⟩ := hm
    -- the body up to the call of `advance`
    have hstrip := splitAdvance_eq hsp
    have hE : execList (execE ops cfg sc) sc.evolveRep st =
        execE ops cfg sc .callAdvance (execList (execE ops cfg sc) body st) := by
      rw [← execList_strip _ (fun st => execE_skip sc st), hstrip, execList_append]
      rfl
    have hok' : (symList (symR sc) body repEntry).ok = true := by rw [hA]; exact hok
    obtain ⟨ρ', _, hc, g1, ng1⟩ := symBlockE_sound (cfg := cfg) hR hS sc body
      (repEntry_conc (V0 := V0) (cfg := cfg) st) g rfl hok'
    rw [hA] at hc
    generalize execList (execE ops cfg sc) body st = s1 at hE hc g1 ng1
    have hT1 : s1.t = 1 := by have := hc.t; rw [ht] at this; exact this
    have hP1 : s1.rep = st.rep + 1 := by have := hc.rep; rw [hrep] at this; simpa using this
    have hN1 : s1.ngen = some n := ng1.trans hn
    obtain ⟨cur, hres, hcur⟩ := resolve_rel hc.regs five out hout
    have hfive : five.map s1.regs = cur.map some := resolve_map _ _ _ hres
    obtain ⟨ces, htr, hall⟩ := hc.trace
    rw [hevs] at hall
    have hv0 : visible cfg.loginit e0 = true := by simp [visible, G0]
    have hv1 : visible cfg.loginit e1 = cfg.loginit := by simp [visible, G1]
    -- `advance`
    have hadv : execE ops cfg sc .callAdvance s1 = iter (execList (execR ops cfg sc) sc.advanceGen) n s1 := by
      show (if s1.bad then s1 else advance ops cfg sc s1) = _
      rw [g1.nbad]
      exact advance_eq sc he n hN1
    rw [hadv] at hE
    cases hli : cfg.loginit with
    | true =>
      have hv1' : visible cfg.loginit e1 = true := by rw [hv1, hli]
      have hfil : [e0, e1].filter (visible cfg.loginit) = [e0, e1] := by
        simp [hv0, hv1']
      rw [hfil] at hall
      cases hall with | cons m0 hall =>
      cases hall with | cons m1 hall =>
      cases hall
      rename_i c0 c1
      have hcur0 : cur = c0.rets := wire m0.rets hcur O0.symm
      have l5 : cur.length = 5 := by rw [hcur0, ← tokRefs_length m0.rets, L0]
      obtain ⟨s2, es, cur2, q2, g2, tr2, tt2, rp2, ng2, f2, l2, len2, all2, chk2⟩ :=
        gens_spec (cfg := cfg) hR hS sc hg n g1 cur hfive l5
      rw [q2] at hE
      have t0 : c0.t = 0 := by have := m0.t; rw [T0] at this; exact this
      have t1 : c1.t = 0 := by have := m1.t; rw [T1] at this; exact this
      have hd1 : evOk V0 (.op .evaluate) 0 c0 = true := by simp [evOk, m0.kind, K0, t0, m0.start]
      have hd2 : c0.argVals.take 5 = V0 := pristine_take m0 hV PR0
      have hd3 : c0.retItems.length = 5 := by rw [retItems_length _ m0.retVals, ← hcur0, l5]
      have log_ok : evOk V0 (.log .initialize) 0 c1 = true := by
        simp [evOk, m1.kind, K1, t1, m1.start]
      have a1' : c1.args.take 5 = c0.rets := wire m0.rets (tokRefs_take m1.args 5) A1
      refine ⟨s2, c0 :: c1 :: es, hE, g2, ?_, ?_, ?_, ?_, ?_, ⟨cur2, f2, l2⟩, ?_, by rw [tt2, hT1]; omega⟩
      · rw [tr2, htr]; simp
      · rw [rp2, hP1]
      · rw [ng2, hN1]
      · simp [repLen, len2]; omega
      · intro e hmem
        simp only [List.mem_cons] at hmem
        rcases hmem with rfl | rfl | hmem
        · exact ⟨by rw [m0.rep, P0]; simp, fun h => by simp at h, by rw [m0.kind, K0]; decide⟩
        · exact ⟨by rw [m1.rep, P1]; simp, fun h => by simp at h, by rw [m1.kind, K1]; decide⟩
        · have := all2 e hmem
          rw [hP1] at this
          exact ⟨this.1, fun _ => this.2.1, this.2.2⟩
      · intro R hRR rest
        have hh : handed R c0.retItems (c1.argItems.take 5) = true :=
          handed_of_fst R hRR _ _ (by rw [retItems_fst _ m0.retVals, argItems_take_fst _ m1.argVals, a1'])
        have := chk2 R hRR c0.retItems rest (by rw [retItems_fst _ m0.retVals, hcur0])
        rw [hT1] at this
        simp only [List.cons_append, checkRep, hd1, hd2, hd3, beq_self_eq_true, Bool.and_self, if_true, log_ok, hh,
          this]
    | false =>
      have hv1' : visible cfg.loginit e1 = false := by rw [hv1, hli]
      have hfil : [e0, e1].filter (visible cfg.loginit) = [e0] := by
        simp [hv0, hv1']
      rw [hfil] at hall
      cases hall with | cons m0 hall =>
      cases hall
      rename_i c0
      have hcur0 : cur = c0.rets := wire m0.rets hcur O0.symm
      have l5 : cur.length = 5 := by rw [hcur0, ← tokRefs_length m0.rets, L0]
      obtain ⟨s2, es, cur2, q2, g2, tr2, tt2, rp2, ng2, f2, l2, len2, all2, chk2⟩ :=
        gens_spec (cfg := cfg) hR hS sc hg n g1 cur hfive l5
      rw [q2] at hE
      have t0 : c0.t = 0 := by have := m0.t; rw [T0] at this; exact this
      have hd1 : evOk V0 (.op .evaluate) 0 c0 = true := by simp [evOk, m0.kind, K0, t0, m0.start]
      have hd2 : c0.argVals.take 5 = V0 := pristine_take m0 hV PR0
      have hd3 : c0.retItems.length = 5 := by rw [retItems_length _ m0.retVals, ← hcur0, l5]
      refine ⟨s2, c0 :: es, hE, g2, ?_, ?_, ?_, ?_, ?_, ⟨cur2, f2, l2⟩, ?_, by rw [tt2, hT1]; omega⟩
      · rw [tr2, htr]; simp
      · rw [rp2, hP1]
      · rw [ng2, hN1]
      · simp [repLen, len2]; omega
      · intro e hmem
        simp only [List.mem_cons] at hmem
        rcases hmem with rfl | hmem
        · exact ⟨by rw [m0.rep, P0]; simp, fun _ => by rw [m0.kind, K0]; decide, by rw [m0.kind, K0]; decide⟩
        · have := all2 e hmem
          rw [hP1] at this
          exact ⟨this.1, fun _ => this.2.1, this.2.2⟩
      · intro R hRR rest
        have := chk2 R hRR c0.retItems rest (by rw [retItems_fst _ m0.retVals, hcur0])
        rw [hT1] at this
        simp only [List.cons_append, checkRep, hd1, hd2, hd3, beq_self_eq_true, Bool.and_self, if_true, this]
        simp
  · simp at hm

/-! ### the replicate loop -/

theorem repsOf_zero (rep0 : Int) (li : Bool) (ng : Nat) : repsOf rep0 li ng 0 = [] := by simp [repsOf]

theorem repsOf_succ (rep0 : Int) (li : Bool) (ng n : Nat) :
    repsOf rep0 li ng (n + 1) = List.replicate (repLen li ng) (rep0 + 1) ++ repsOf (rep0 + 1) li ng n := by
  unfold repsOf repLen
  rw [List.range_succ_eq_map, List.flatMap_cons, List.flatMap_map]
  congr 1
  · simp
  · apply List.flatMap_congr
    intro r _
    congr 1
    simp only [Int.ofNat_eq_natCast, Nat.cast_succ]
    ring

theorem reps_spec (hR : Respects I S ops) (hS : S.length = 5) (sc : Schedule) (hg : wfGen sc = true)
    (he : wfEmpty sc = true) (hrp : wfRep sc = true) (ngen : Nat) (n : Nat) :
    ∀ {st : State σ V}, Good I cfg.depth S V0 st → st.ngen = some ngen →
    ∃ (st' : State σ V) (es : List (Event (View V))),
      iter (execList (execE ops cfg sc) sc.evolveRep) n st = st' ∧ Good I cfg.depth S V0 st' ∧
      st'.trace = st.trace ++ es ∧ st'.rep = st.rep + n ∧ st'.ngen = some ngen ∧
      es.map (fun e => e.rep) = repsOf st.rep cfg.loginit ngen n ∧
      (∀ e ∈ es, (cfg.loginit = false → e.kind ≠ .log .initialize) ∧ e.kind ≠ .init) ∧
      (0 < n → ∃ cur : List Ref, five.map st'.regs = cur.map some ∧ cur.length = 5) ∧
      (∀ (R : Item (View V) → Item (View V) → Bool), ReflOnRefs R → ∀ (rest : List (Event (View V))),
        checkReps R V0 cfg.loginit ngen n (es ++ rest) = some rest) ∧
      (0 < n → st'.t = ngen + 1) := by
  induction n with
  | zero =>
    intro st g hn
    exact ⟨st, [], rfl, g, by simp, by simp, hn, by simp [repsOf_zero], by simp, by simp,
      fun R _ rest => by simp [checkReps], by simp⟩
  | succ n ih =>
    intro st g hn
    obtain ⟨s1, es1, q1, g1, tr1, rp1, ng1, len1, all1, held1, chk1, clk1⟩ :=
      rep_spec (cfg := cfg) hR hS sc hg he hrp ngen g hn
    obtain ⟨s2, es2, q2, g2, tr2, rp2, ng2, reps2, all2, held2, chk2, clk2⟩ := ih g1 ng1
    refine ⟨s2, es1 ++ es2, ?_, g2, ?_, ?_, ng2, ?_, ?_, ?_, ?_, ?_⟩
    · show iter _ n (execList (execE ops cfg sc) sc.evolveRep st) = s2
      rw [q1, q2]
    · rw [tr2, tr1, List.append_assoc]
    · rw [rp2, rp1]; push_cast; ring
    · rw [List.map_append, reps2, rp1, repsOf_succ]
      congr 1
      rw [← len1]
      apply List.eq_replicate_iff.mpr
      refine ⟨by simp, ?_⟩
      intro b hb
      obtain ⟨e, he', rfl⟩ := List.mem_map.mp hb
      exact (all1 e he').1
    · intro e he'
      rcases List.mem_append.mp he' with h | h
      · exact (all1 e h).2
      · exact all2 e h
    · intro _
      rcases Nat.eq_zero_or_pos n with h0 | hpos
      · subst h0
        have : s2 = s1 := by rw [← q2]; rfl
        rw [this]; exact held1
      · exact held2 hpos
    · intro R hRR rest
      rw [List.append_assoc]
      simp only [checkReps, chk1 R hRR (es2 ++ rest)]
      exact chk2 R hRR rest
    · intro _
      rcases Nat.eq_zero_or_pos n with h0 | hpos
      · subst h0
        have : s2 = s1 := by rw [← q2]; rfl
        rw [this]; exact clk1
      · exact clk2 hpos

/-! ### initialisation phase -/

/-- the references of the stored start containers once `evolve` has made sure the programme is
    initialised: the given ones, or what the initialisation operator returns -/
def startRefs (ops : Ops σ V) (st : State σ V) : List Ref :=
  if st.start.all Option.isSome then st.start.filterMap id else (ops.init st.ost st.heap).2.2

/-- the heap in which the start containers live once `evolve` has made sure the programme is
    initialised, and its size -/
def startHeap (ops : Ops σ V) (st : State σ V) : Heap (Cell V) :=
  if st.start.all Option.isSome then st.heap else (ops.init st.ost st.heap).2.1

def startN0 (ops : Ops σ V) (st : State σ V) : Nat :=
  if st.start.all Option.isSome then st.n0 else (ops.init st.ost st.heap).2.1.length

/-- the operators' internal state once the programme is initialised -/
def startOst (ops : Ops σ V) (st : State σ V) : σ :=
  if st.start.all Option.isSome then st.ost else (ops.init st.ost st.heap).1

/-- assumptions on the state in which `evolve` is called: five start slots; once the programme is
    initialised (by the caller or by the initialisation operator, which does not shrink the heap)
    there are five start containers whose object graphs exist, lie in the part of the heap recorded
    as existing at initialisation and are not referenced from elsewhere; the heap is well formed;
    working variables left over from earlier calls refer to existing cells outside those graphs; the
    operators' internal state satisfies the invariant `I` (e.g. "keeps no reference into those graphs") -/
structure Ready (I : σ → Heap (Cell V) → Prop) (ops : Ops σ V) (st : State σ V) : Prop where
  nbad : st.bad = false
  startLen : st.start.length = 5
  refs5 : (startRefs ops st).length = 5
  grow : st.heap.length ≤ (startHeap ops st).length
  wf : WFH (startHeap ops st)
  n0le : startN0 ops st ≤ (startHeap ops st).length
  region : ∀ x, InReg (startHeap ops st) (startRefs ops st) x → x < startN0 ops st
  iso : Iso (startHeap ops st) (startRefs ops st)
  regsOK : ∀ r a, st.regs r = some a → a < st.heap.length ∧ ¬ InReg (startHeap ops st) (startRefs ops st) a
  inv : I (startOst ops st) (startHeap ops st)

theorem all_isSome_eq (l : List (Option Ref)) (h : l.all Option.isSome = true) :
    l = (l.filterMap id).map some := by
  induction l with
  | nil => rfl
  | cons a l ih =>
    simp only [List.all_cons, Bool.and_eq_true] at h
    cases a with
    | none => simp at h
    | some a =>
      simp only [List.filterMap_cons, id, List.map_cons]
      exact congrArg (some a :: ·) (ih h.2)

def initEvent (ops : Ops σ V) (cfg : Cfg V) (st : State σ V) : Event (View V) :=
  { kind := .init, t := st.t, tmax := cfg.tmax, rep := st.rep, args := [], argVals := [],
    rets := (ops.init st.ost st.heap).2.2,
    retVals := vals cfg.depth (ops.init st.ost st.heap).2.1 (ops.init st.ost st.heap).2.2,
    startVals := startVals cfg.depth st.heap st.start }

def afterInit (ops : Ops σ V) (cfg : Cfg V) (st : State σ V) : State σ V :=
  { st with ost := (ops.init st.ost st.heap).1, heap := (ops.init st.ost st.heap).2.1,
            n0 := (ops.init st.ost st.heap).2.1.length,
            start := (ops.init st.ost st.heap).2.2.map some,
            trace := st.trace ++ [initEvent ops cfg st] }

/-- `if not self.is_initialized(): self.initialize()` -/
theorem init_spec {st : State σ V} (hr : Ready I ops st) :
    ∃ (st' : State σ V) (es : List (Event (View V))) (V0 : List (Option (View V))),
      execS ops cfg .initIfNeeded st = st' ∧
      Good I cfg.depth (startRefs ops st) V0 st' ∧ st'.trace = st.trace ++ es ∧ st'.rep = st.rep ∧ st'.ngen = st.ngen ∧
      st'.regs = st.regs ∧ (startRefs ops st).length = 5 ∧ V0.length = 5 ∧ V0.all Option.isSome = true ∧
      ((st.start.all Option.isSome = true ∧ es = [] ∧ V0 = startVals cfg.depth st.heap st.start) ∨
       (st.start.all Option.isSome = false ∧ es = [initEvent ops cfg st] ∧
          (initEvent ops cfg st).retVals = V0)) ∧
      st'.t = st.t := by
  have hvalid : ∀ s ∈ startRefs ops st, s < (startHeap ops st).length :=
    fun s hs => lt_of_lt_of_le (hr.region s (InReg.of_mem hs)) hr.n0le
  cases hall : st.start.all Option.isSome with
  | true =>
    have hS : startRefs ops st = st.start.filterMap id := by simp [startRefs, hall]
    have hH : startHeap ops st = st.heap := by simp [startHeap, hall]
    have hN : startN0 ops st = st.n0 := by simp [startN0, hall]
    have hst := all_isSome_eq _ hall
    refine ⟨st, [], vals cfg.depth st.heap (startRefs ops st), ?_, ?_, by simp, rfl, rfl, rfl, hr.refs5, ?_, ?_, ?_, rfl⟩
    · simp [execS, hr.nbad, hall]
    · have hO : startOst ops st = st.ost := by simp [startOst, hall]
      refine ⟨hr.nbad, by rw [hS]; exact hst, by rw [← hH]; exact hr.wf, by rw [← hH, ← hN]; exact hr.n0le,
        ?_, by rw [← hH]; exact hr.iso, rfl, ?_, by rw [← hH, ← hO]; exact hr.inv⟩
      · intro x hx; rw [← hN]; exact hr.region x (by rw [hH]; exact hx)
      · intro r a h; have := hr.regsOK r a h; rw [hH] at this; exact this
    · rw [vals_length, hr.refs5]
    · exact vals_all_some _ _ _ (by rw [← hH]; exact hvalid)
    · left
      refine ⟨rfl, rfl, ?_⟩
      conv_rhs => rw [hst]
      rw [startVals_map_some, hS]
  | false =>
    have hS : startRefs ops st = (ops.init st.ost st.heap).2.2 := by simp [startRefs, hall]
    have hH : startHeap ops st = (ops.init st.ost st.heap).2.1 := by simp [startHeap, hall]
    have hN : startN0 ops st = (ops.init st.ost st.heap).2.1.length := by simp [startN0, hall]
    have i1 : (ops.init st.ost st.heap).2.2.length = 5 := by rw [← hS]; exact hr.refs5
    refine ⟨afterInit ops cfg st, [initEvent ops cfg st],
      vals cfg.depth (ops.init st.ost st.heap).2.1 (ops.init st.ost st.heap).2.2, ?_, ?_, rfl, rfl, rfl, rfl,
      hr.refs5, ?_, ?_, ?_, rfl⟩
    · simp only [execS, hr.nbad, hall, i1, afterInit, initEvent]; simp
    · have hwf : WFH (afterInit ops cfg st).heap := by
        show WFH (ops.init st.ost st.heap).2.1
        rw [← hH]; exact hr.wf
      have hiso : Iso (afterInit ops cfg st).heap (startRefs ops st) := by
        show Iso (ops.init st.ost st.heap).2.1 (startRefs ops st)
        rw [← hH]; exact hr.iso
      have hO : startOst ops st = (ops.init st.ost st.heap).1 := by simp [startOst, hall]
      have hinv : I (afterInit ops cfg st).ost (afterInit ops cfg st).heap := by
        show I (ops.init st.ost st.heap).1 (ops.init st.ost st.heap).2.1
        rw [← hH, ← hO]; exact hr.inv
      refine ⟨hr.nbad, by rw [hS]; rfl, hwf, le_refl _, ?_, hiso, by rw [hS]; rfl, ?_, hinv⟩
      · intro x hx
        have := hr.region x (by rw [hH]; exact hx)
        rw [hN] at this; exact this
      · intro r a h
        have := hr.regsOK r a h
        rw [hH] at this
        have hg := hr.grow
        rw [hH] at hg
        exact ⟨lt_of_lt_of_le this.1 hg, this.2⟩
    · rw [vals_length, i1]
    · exact vals_all_some _ _ _ (by rw [← hH, ← hS]; exact hvalid)
    · right
      exact ⟨rfl, rfl, rfl⟩

theorem Ready.with_ngen {st : State σ V} (hr : Ready I ops st) (x : Option Nat) :
    Ready I ops { st with ngen := x } :=
  ⟨hr.nbad, hr.startLen, hr.refs5, hr.grow, hr.wf, hr.n0le, hr.region, hr.iso, hr.regsOK, hr.inv⟩

theorem execS_ngenDefault {st : State σ V} (hb : st.bad = false) :
    execS ops cfg .ngenDefault st = { st with ngen := some (st.ngen.getD cfg.tmax) } := by
  simp [execS, hb]

theorem Good.with_ngen {st : State σ V} {d : Nat} (g : Good I d S V0 st) (x : Option Nat) :
    Good I d S V0 { st with ngen := x } :=
  ⟨g.nbad, g.start, g.wf, g.n0le, g.region, g.iso, g.svals, g.regs, g.inv⟩

/-- the statements of `evolve` before the replicate loop -/
theorem pre_spec (sc : Schedule) (hp : wfPre sc = true) {st : State σ V} (hr : Ready I ops st) :
    ∃ (st' : State σ V) (es : List (Event (View V))) (V0 : List (Option (View V))),
      execList (execE ops cfg sc) sc.evolvePre { st with ngen := cfg.ngen } = st' ∧
      Good I cfg.depth (startRefs ops st) V0 st' ∧ st'.trace = st.trace ++ es ∧ st'.rep = st.rep ∧
      st'.ngen = effNgen sc cfg ∧ st'.regs = st.regs ∧
      (startRefs ops st).length = 5 ∧ V0.length = 5 ∧ V0.all Option.isSome = true ∧
      ((st.start.all Option.isSome = true ∧ es = [] ∧ V0 = startVals cfg.depth st.heap st.start) ∨
       (st.start.all Option.isSome = false ∧ es = [initEvent ops cfg st] ∧
          (initEvent ops cfg st).retVals = V0)) ∧
      st'.t = st.t := by
  have hstrip : execList (execE ops cfg sc) sc.evolvePre { st with ngen := cfg.ngen } =
      execList (execE ops cfg sc) (strip sc.evolvePre) { st with ngen := cfg.ngen } :=
    (execList_strip _ (fun st => execE_skip sc st) _ _).symm
  rw [hstrip]
  simp only [wfPre, Bool.or_eq_true, beq_iff_eq] at hp
  rcases hp with (h | h) | h
  · -- [initIfNeeded]
    have hN : effNgen sc cfg = cfg.ngen := by simp [effNgen, HandlesNone, h, isNgenDefault]
    obtain ⟨s1, es, V0, q, g, tr, rp, ng, rg, r⟩ := init_spec (cfg := cfg) (hr.with_ngen cfg.ngen)
    rw [h, hN]
    exact ⟨s1, es, V0, q, g, tr, rp, ng, rg, r⟩
  · -- [ngenDefault, initIfNeeded]
    have hN : effNgen sc cfg = some (cfg.ngen.getD cfg.tmax) := by
      simp [effNgen, HandlesNone, h, isNgenDefault]
    have hr1 : Ready I ops { st with ngen := some (cfg.ngen.getD cfg.tmax) } := hr.with_ngen _
    obtain ⟨s1, es, V0, q, g, tr, rp, ng, rg, r⟩ := init_spec (cfg := cfg) hr1
    rw [h, hN]
    refine ⟨s1, es, V0, ?_, g, tr, rp, ng, rg, r⟩
    show execS ops cfg .initIfNeeded (execS ops cfg .ngenDefault { st with ngen := cfg.ngen }) = s1
    rw [execS_ngenDefault (by exact hr.nbad)]
    exact q
  · -- [initIfNeeded, ngenDefault]
    have hN : effNgen sc cfg = some (cfg.ngen.getD cfg.tmax) := by
      simp [effNgen, HandlesNone, h, isNgenDefault]
    obtain ⟨s1, es, V0, q, g, tr, rp, ng, rg, r⟩ := init_spec (cfg := cfg) (hr.with_ngen cfg.ngen)
    rw [h, hN]
    refine ⟨{ s1 with ngen := some (s1.ngen.getD cfg.tmax) }, es, V0, ?_, g.with_ngen _, tr, rp, ?_, rg, r⟩
    · show execS ops cfg .ngenDefault (execS ops cfg .initIfNeeded { st with ngen := cfg.ngen }) = _
      rw [q, execS_ngenDefault g.nbad]
    · show some (s1.ngen.getD cfg.tmax) = _
      rw [ng]

/-! ### `evolve` -/

theorem dropInitLogs_id (es : List (Event (View V))) (h : ∀ e ∈ es, e.kind ≠ .log .initialize) :
    dropInitLogs es = es := by
  unfold dropInitLogs
  apply List.filter_eq_self.mpr
  intro e he
  simp [h e he]

theorem specTrace_reps (R : Item (View V) → Item (View V) → Bool) (nrep ngen : Nat) (li : Bool)
    (V0 Vg : List (Option (View V))) (es : List (Event (View V))) (hl : V0.length = 5) (hs : V0.all Option.isSome = true)
    (hk : ∀ e ∈ es, (li = false → e.kind ≠ .log .initialize) ∧ e.kind ≠ .init)
    (hc : checkReps R V0 li ngen nrep es = some [])
    (hv : Vg = V0) : specTrace R nrep ngen li Vg es = true := by
  subst hv
  have hd : (if li then es else dropInitLogs es) = es := by
    cases li with
    | true => rfl
    | false => exact dropInitLogs_id es (fun e he => (hk e he).1 rfl)
  unfold specTrace
  cases es with
  | nil =>
    simp only at hd ⊢
    simp [hd, hl, hs, hc]
  | cons e rest =>
    have hne : (e.kind == EvKind.init) = false := by
      simpa using (hk e (by simp)).2
    simp only [hne]
    simp only [Bool.false_eq_true, if_false]
    simp [hd, hl, hs, hc]

theorem specTrace_init (R : Item (View V) → Item (View V) → Bool) (nrep ngen : Nat) (li : Bool)
    (V0 Vg : List (Option (View V))) (e0 : Event (View V)) (es : List (Event (View V))) (hl : V0.length = 5)
    (hs : V0.all Option.isSome = true) (h0 : e0.kind = .init) (hv : e0.retVals = V0)
    (hk : ∀ e ∈ es, (li = false → e.kind ≠ .log .initialize) ∧ e.kind ≠ .init)
    (hc : checkReps R V0 li ngen nrep es = some []) :
    specTrace R nrep ngen li Vg (e0 :: es) = true := by
  have hd : (if li then es else dropInitLogs es) = es := by
    cases li with
    | true => rfl
    | false => exact dropInitLogs_id es (fun e he => (hk e he).1 rfl)
  unfold specTrace
  simp only [h0, beq_self_eq_true, if_true, hv]
  simp [hd, hl, hs, hc]

/-- everything that is proved about one `evolve` call of a well-formed schedule; `n` is the
    generation count the call works with -/
theorem evolve_wf (sc : Schedule) (hwf : WellFormed sc = true) {st : State σ V} (hr : Ready I ops st)
    (hR : Respects I (startRefs ops st) ops) (n : Nat) (hn : effNgen sc cfg = some n) :
    ∃ (st' : State σ V) (es0 es1 : List (Event (View V))) (V0 : List (Option (View V))),
      evolve ops cfg sc st = st' ∧ Good I cfg.depth (startRefs ops st) V0 st' ∧
      st'.trace = st.trace ++ (es0 ++ es1) ∧ st'.rep = st.rep + cfg.nrep ∧
      (st.start.all Option.isSome = true → es0 = [] ∧ V0 = startVals cfg.depth st.heap st.start) ∧
      (st.start.all Option.isSome = false →
        es0 = [initEvent ops cfg st] ∧ (initEvent ops cfg st).retVals = V0) ∧
      es1.map (fun e => e.rep) = repsOf st.rep cfg.loginit n cfg.nrep ∧
      (∀ (R : Item (View V) → Item (View V) → Bool), ReflOnRefs R →
        checkReps R V0 cfg.loginit n cfg.nrep es1 = some []) ∧
      (∀ (R : Item (View V) → Item (View V) → Bool), ReflOnRefs R →
        specTrace R cfg.nrep n cfg.loginit (startVals cfg.depth st.heap st.start) (es0 ++ es1) = true) ∧
      (∀ e ∈ es1, (cfg.loginit = false → e.kind ≠ .log .initialize) ∧ e.kind ≠ .init) ∧
      (0 < cfg.nrep → ∃ cur : List Ref, five.map st'.regs = cur.map some ∧ cur.length = 5) ∧
      (cfg.nrep = 0 → st'.regs = st.regs) ∧
      (startRefs ops st).length = 5 ∧
      (0 < cfg.nrep → st'.t = n + 1) ∧ (cfg.nrep = 0 → st'.t = st.t) := by
  simp only [WellFormed, Bool.and_eq_true] at hwf
  obtain ⟨⟨⟨hpre, hempty⟩, hgen⟩, hrep⟩ := hwf
  obtain ⟨s1, es0, V0, q1, g1, tr1, rp1, ng1, rg1, hS, hl, hs, hcase, clk1⟩ := pre_spec (cfg := cfg) sc hpre hr
  obtain ⟨s2, es1, q2, g2, tr2, rp2, _, reps2, all2, held2, chk2, clk2⟩ :=
    reps_spec (cfg := cfg) hR hS sc hgen hempty hrep n cfg.nrep g1 (ng1.trans hn)
  have chk : ∀ (R : Item (View V) → Item (View V) → Bool), ReflOnRefs R →
      checkReps R V0 cfg.loginit n cfg.nrep es1 = some [] := by
    intro R hRR
    have := chk2 R hRR []
    rwa [List.append_nil] at this
  have hpost : strip sc.evolvePost = [] := by
    simp only [wfEmpty, Bool.and_eq_true, beq_iff_eq] at hempty
    exact hempty.1.1
  refine ⟨s2, es0, es1, V0, ?_, g2, ?_, ?_, ?_, ?_, ?_, chk, ?_, all2, held2, ?_, hS, clk2, ?_⟩
  · show execList (execE ops cfg sc) sc.evolvePost
        (iter (execList (execE ops cfg sc) sc.evolveRep) cfg.nrep
          (execList (execE ops cfg sc) sc.evolvePre { st with ngen := cfg.ngen })) = s2
    rw [q1, q2, execList_of_strip_nil _ (fun st => execE_skip sc st) _ hpost]
  · rw [tr2, tr1, List.append_assoc]
  · rw [rp2, rp1]
  · intro hall
    rcases hcase with ⟨_, h1, h2⟩ | ⟨h0, _, _⟩
    · exact ⟨h1, h2⟩
    · rw [hall] at h0; cases h0
  · intro hall
    rcases hcase with ⟨h0, _, _⟩ | ⟨_, h1, h2⟩
    · rw [hall] at h0; cases h0
    · exact ⟨h1, h2⟩
  · rw [reps2, rp1]
  · intro R hRR
    rcases hcase with ⟨_, h0, hv⟩ | ⟨_, he, hv⟩
    · rw [h0, List.nil_append]
      exact specTrace_reps R _ _ _ V0 _ es1 hl hs all2 (chk R hRR) hv.symm
    · rw [he]
      exact specTrace_init R _ _ _ V0 _ _ es1 hl hs rfl hv all2 (chk R hRR)
  · intro h0
    rw [h0] at q2
    have : s2 = s1 := q2.symm
    rw [this, rg1]
  · intro h0
    rw [h0] at q2
    have : s2 = s1 := q2.symm
    rw [this, clk1]

end
end Program
