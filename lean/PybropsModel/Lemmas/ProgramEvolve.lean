/-
Helper lemmas for C20 (4/4): the replicate loop, the initialisation phase, `evolve`, and the
reduction of a well-formed schedule to the canonical one.
-/
import PybropsModel.Lemmas.ProgramLoop
set_option autoImplicit false
set_option linter.unusedSectionVars false

namespace Program
section
variable {σ V : Type} [DecidableEq V]
variable {S : List Ref} {V0 : List (Option V)} {ops : Ops σ V} {cfg : Cfg V}

theorem repsOf_zero (rep0 : Int) (li : Bool) (ng : Nat) : repsOf rep0 li ng 0 = [] := by simp [repsOf]

theorem repsOf_succ (rep0 : Int) (li : Bool) (ng n : Nat) :
    repsOf rep0 li ng (n + 1) = List.replicate (repLen li ng) (rep0 + 1) ++ repsOf (rep0 + 1) li ng n := by
  unfold repsOf repLen
  rw [List.range_succ_eq_map, List.flatMap_cons, List.flatMap_map]
  congr 1
  · simp
  · apply List.flatMap_congr
    intro r _
    congr 1
    simp only [Int.ofNat_eq_natCast, Nat.cast_succ]
    ring

theorem reps_spec (hS : S.length = 5) (hR : Respects S ops) (n : Nat) :
    ∀ {st : State σ V}, Good S V0 st →
    ∃ (st' : State σ V) (es : List (Event V)),
      iter (execList (execE ops cfg canonical) canonical.evolveRep) n st = st' ∧ Good S V0 st' ∧
      st'.trace = st.trace ++ es ∧ st'.rep = st.rep + n ∧
      es.map (fun e => e.rep) = repsOf st.rep cfg.loginit cfg.ngen n ∧
      (∀ e ∈ es, (cfg.loginit = false → e.kind ≠ .log .initialize) ∧ e.kind ≠ .init) ∧
      ∀ (R : Item V → Item V → Bool), ReflOnRefs R → ∀ (rest : List (Event V)),
        checkReps R V0 cfg.loginit cfg.ngen n (es ++ rest) = some rest := by
  induction n with
  | zero =>
    intro st g
    exact ⟨st, [], rfl, g, by simp, by simp, by simp [repsOf_zero], by simp,
      fun R _ rest => by simp [checkReps]⟩
  | succ n ih =>
    intro st g
    obtain ⟨s1, es1, q1, g1, tr1, rp1, len1, all1, chk1⟩ := rep_spec (cfg := cfg) hS hR g
    obtain ⟨s2, es2, q2, g2, tr2, rp2, reps2, all2, chk2⟩ := ih g1
    refine ⟨s2, es1 ++ es2, ?_, g2, ?_, ?_, ?_, ?_, ?_⟩
    · show iter _ n (execList (execE ops cfg canonical) canonical.evolveRep st) = s2
      rw [q1, q2]
    · rw [tr2, tr1, List.append_assoc]
    · rw [rp2, rp1]; push_cast; ring
    · rw [List.map_append, reps2, rp1, repsOf_succ]
      congr 1
      rw [← len1]
      apply List.eq_replicate_iff.mpr
      refine ⟨by simp, ?_⟩
      intro b hb
      obtain ⟨e, he, rfl⟩ := List.mem_map.mp hb
      exact (all1 e he).1
    · intro e he
      rcases List.mem_append.mp he with h | h
      · exact (all1 e h).2
      · exact all2 e h
    · intro R hRR rest
      rw [List.append_assoc]
      simp only [checkReps, chk1 R hRR (es2 ++ rest)]
      exact chk2 R hRR rest

/-! ### initialisation phase -/

/-- the references of the stored start containers once `evolve` has made sure the programme is
    initialised: the given ones, or what the initialisation operator returns -/
def startRefs (ops : Ops σ V) (st : State σ V) : List Ref :=
  if st.start.all Option.isSome then st.start.filterMap id else (ops.init st.ost st.heap).2.2

/-- assumptions on the state in which `evolve` is called -/
structure Ready (ops : Ops σ V) (st : State σ V) : Prop where
  nbad : st.bad = false
  startLen : st.start.length = 5
  startValid : ∀ a, some a ∈ st.start → a < st.heap.length
  /-- if the programme is not initialised, the initialisation operator returns five valid
      containers and does not shrink the heap -/
  initOK : st.start.all Option.isSome = false →
    (ops.init st.ost st.heap).2.2.length = 5 ∧ st.heap.length ≤ (ops.init st.ost st.heap).2.1.length ∧
    ∀ a ∈ (ops.init st.ost st.heap).2.2, a < (ops.init st.ost st.heap).2.1.length
  /-- working variables left over from earlier calls are not start containers -/
  regsOK : ∀ r a, st.regs r = some a → a < st.heap.length ∧ a ∉ startRefs ops st

theorem all_isSome_eq (l : List (Option Ref)) (h : l.all Option.isSome = true) :
    l = (l.filterMap id).map some := by
  induction l with
  | nil => rfl
  | cons a l ih =>
    simp only [List.all_cons, Bool.and_eq_true] at h
    cases a with
    | none => simp at h
    | some a =>
      simp only [List.filterMap_cons, id, List.map_cons]
      exact congrArg (some a :: ·) (ih h.2)

def initEvent (ops : Ops σ V) (cfg : Cfg V) (st : State σ V) : Event V :=
  { kind := .init, t := st.t, tmax := cfg.tmax, rep := st.rep, args := [], argVals := [],
    rets := (ops.init st.ost st.heap).2.2,
    retVals := vals (ops.init st.ost st.heap).2.1 (ops.init st.ost st.heap).2.2,
    startVals := startVals st.heap st.start }

def afterInit (ops : Ops σ V) (cfg : Cfg V) (st : State σ V) : State σ V :=
  { st with ost := (ops.init st.ost st.heap).1, heap := (ops.init st.ost st.heap).2.1,
            start := (ops.init st.ost st.heap).2.2.map some,
            trace := st.trace ++ [initEvent ops cfg st] }

theorem pre_spec {st : State σ V} (hr : Ready ops st) :
    ∃ (st' : State σ V) (es : List (Event V)) (V0 : List (Option V)),
      execList (execE ops cfg canonical) canonical.evolvePre st = st' ∧
      Good (startRefs ops st) V0 st' ∧ st'.trace = st.trace ++ es ∧ st'.rep = st.rep ∧
      (startRefs ops st).length = 5 ∧ V0.length = 5 ∧ V0.all Option.isSome = true ∧
      ((es = [] ∧ V0 = startVals st.heap st.start) ∨
       (es = [initEvent ops cfg st] ∧ (initEvent ops cfg st).retVals = V0)) := by
  have hE : execList (execE ops cfg canonical) canonical.evolvePre st = execS ops cfg .initIfNeeded st := rfl
  cases hall : st.start.all Option.isSome with
  | true =>
    have hS : startRefs ops st = st.start.filterMap id := by simp [startRefs, hall]
    have hst := all_isSome_eq _ hall
    have hlen : (startRefs ops st).length = 5 := by
      rw [hS]
      have := congrArg List.length hst
      rw [List.length_map] at this
      rw [← this, hr.startLen]
    have hvalid : ∀ s ∈ startRefs ops st, s < st.heap.length := by
      intro s hs
      apply hr.startValid
      rw [hst, ← hS]
      exact List.mem_map.mpr ⟨s, hs, rfl⟩
    refine ⟨st, [], vals st.heap (startRefs ops st), ?_, ?_, by simp, rfl, hlen, ?_, ?_, ?_⟩
    · rw [hE]; simp [execS, hr.nbad, hall]
    · exact ⟨hr.nbad, by rw [hS]; exact hst, hvalid, rfl, hr.regsOK⟩
    · rw [vals_length, hlen]
    · exact vals_all_some _ _ hvalid
    · left
      refine ⟨rfl, ?_⟩
      conv_rhs => rw [hst]
      rw [startVals_map_some, hS]
  | false =>
    have hS : startRefs ops st = (ops.init st.ost st.heap).2.2 := by simp [startRefs, hall]
    obtain ⟨i1, i2, i3⟩ := hr.initOK hall
    refine ⟨afterInit ops cfg st, [initEvent ops cfg st],
      vals (ops.init st.ost st.heap).2.1 (ops.init st.ost st.heap).2.2, ?_, ?_, rfl, ?_, ?_, ?_, ?_, ?_⟩
    · rw [hE]; simp only [execS, hr.nbad, hall, i1, afterInit, initEvent]; simp
    · refine ⟨hr.nbad, by rw [hS]; rfl, ?_, by rw [hS]; rfl, ?_⟩
      · rw [hS]; exact i3
      · intro r a h
        have := hr.regsOK r a h
        exact ⟨lt_of_lt_of_le this.1 i2, this.2⟩
    · rfl
    · rw [hS, i1]
    · rw [vals_length, i1]
    · exact vals_all_some _ _ i3
    · right
      exact ⟨rfl, rfl⟩

/-! ### `evolve` -/

theorem dropInitLogs_id (es : List (Event V)) (h : ∀ e ∈ es, e.kind ≠ .log .initialize) :
    dropInitLogs es = es := by
  unfold dropInitLogs
  apply List.filter_eq_self.mpr
  intro e he
  simp [h e he]

theorem specTrace_reps (R : Item V → Item V → Bool) (nrep ngen : Nat) (li : Bool)
    (V0 Vg : List (Option V)) (es : List (Event V)) (hl : V0.length = 5) (hs : V0.all Option.isSome = true)
    (hk : ∀ e ∈ es, (li = false → e.kind ≠ .log .initialize) ∧ e.kind ≠ .init)
    (hc : checkReps R V0 li ngen nrep es = some [])
    (hv : Vg = V0) : specTrace R nrep ngen li Vg es = true := by
  subst hv
  have hd : (if li then es else dropInitLogs es) = es := by
    cases li with
    | true => rfl
    | false => exact dropInitLogs_id es (fun e he => (hk e he).1 rfl)
  unfold specTrace
  cases es with
  | nil =>
    simp only at hd ⊢
    simp [hd, hl, hs, hc]
  | cons e rest =>
    have hne : (e.kind == EvKind.init) = false := by
      simpa using (hk e (by simp)).2
    simp only [hne]
    simp only [Bool.false_eq_true, if_false]
    simp [hd, hl, hs, hc]

theorem specTrace_init (R : Item V → Item V → Bool) (nrep ngen : Nat) (li : Bool)
    (V0 Vg : List (Option V)) (e0 : Event V) (es : List (Event V)) (hl : V0.length = 5)
    (hs : V0.all Option.isSome = true) (h0 : e0.kind = .init) (hv : e0.retVals = V0)
    (hk : ∀ e ∈ es, (li = false → e.kind ≠ .log .initialize) ∧ e.kind ≠ .init)
    (hc : checkReps R V0 li ngen nrep es = some []) :
    specTrace R nrep ngen li Vg (e0 :: es) = true := by
  have hd : (if li then es else dropInitLogs es) = es := by
    cases li with
    | true => rfl
    | false => exact dropInitLogs_id es (fun e he => (hk e he).1 rfl)
  unfold specTrace
  simp only [h0, beq_self_eq_true, if_true, hv]
  simp [hd, hl, hs, hc]

/-- everything that is proved about one `evolve` call of the canonical schedule -/
theorem evolve_canonical {st : State σ V} (hr : Ready ops st) (hR : Respects (startRefs ops st) ops) :
    ∃ (st' : State σ V) (es0 es1 : List (Event V)) (V0 : List (Option V)),
      evolve ops cfg canonical st = st' ∧ Good (startRefs ops st) V0 st' ∧
      st'.trace = st.trace ++ (es0 ++ es1) ∧ st'.rep = st.rep + cfg.nrep ∧
      (st.start.all Option.isSome = true → es0 = [] ∧ V0 = startVals st.heap st.start) ∧
      (st.start.all Option.isSome = false →
        es0 = [initEvent ops cfg st] ∧ (initEvent ops cfg st).retVals = V0) ∧
      es1.map (fun e => e.rep) = repsOf st.rep cfg.loginit cfg.ngen cfg.nrep ∧
      (∀ (R : Item V → Item V → Bool), ReflOnRefs R →
        checkReps R V0 cfg.loginit cfg.ngen cfg.nrep es1 = some []) ∧
      (∀ (R : Item V → Item V → Bool), ReflOnRefs R →
        specTrace R cfg.nrep cfg.ngen cfg.loginit (startVals st.heap st.start) (es0 ++ es1) = true) ∧
      (∀ e ∈ es1, e.kind ≠ .init) := by
  obtain ⟨s1, es0, V0, q1, g1, tr1, rp1, hS, hl, hs, hcase⟩ := pre_spec (cfg := cfg) hr
  obtain ⟨s2, es1, q2, g2, tr2, rp2, reps2, all2, chk2⟩ := reps_spec (cfg := cfg) hS hR cfg.nrep g1
  have chk : ∀ (R : Item V → Item V → Bool), ReflOnRefs R →
      checkReps R V0 cfg.loginit cfg.ngen cfg.nrep es1 = some [] := by
    intro R hRR
    have := chk2 R hRR []
    rwa [List.append_nil] at this
  refine ⟨s2, es0, es1, V0, ?_, g2, ?_, ?_, ?_, ?_, ?_, chk, ?_, fun e he => (all2 e he).2⟩
  · show execList (execE ops cfg canonical) canonical.evolvePost
        (iter (execList (execE ops cfg canonical) canonical.evolveRep) cfg.nrep
          (execList (execE ops cfg canonical) canonical.evolvePre st)) = s2
    rw [q1, q2]; rfl
  · rw [tr2, tr1, List.append_assoc]
  · rw [rp2, rp1]
  · intro hall
    rcases hcase with h | ⟨he, _⟩
    · exact h
    · exfalso
      -- an initialisation event is only recorded when the programme was not initialised
      have : s1.trace = st.trace := by
        rw [← q1]
        show (execS ops cfg .initIfNeeded st).trace = st.trace
        simp [execS, hr.nbad, hall]
      rw [tr1, he] at this
      simpa using congrArg List.length this
  · intro hall
    rcases hcase with ⟨h, _⟩ | h
    · exfalso
      have : s1.trace = st.trace ++ [initEvent ops cfg st] := by
        rw [← q1]
        show (execS ops cfg .initIfNeeded st).trace = _
        simp [execS, hr.nbad, hall, (hr.initOK hall).1, initEvent]
      rw [tr1, h] at this
      simpa using congrArg List.length this
    · exact h
  · rw [reps2, rp1]
  · intro R hRR
    rcases hcase with ⟨h0, hv⟩ | ⟨he, hv⟩
    · rw [h0, List.nil_append]
      exact specTrace_reps R _ _ _ V0 _ es1 hl hs all2 (chk R hRR) hv.symm
    · rw [he]
      exact specTrace_init R _ _ _ V0 _ _ es1 hl hs rfl hv all2 (chk R hRR)

/-! ### schedules that differ from the canonical one by no-op statements -/

theorem isSkip_eq {s : Stmt} (h : s.isSkip = true) : s = .skip := by
  cases s <;> simp [Stmt.isSkip] at h ⊢

theorem execList_strip (f : Stmt → State σ V → State σ V) (hskip : ∀ st, f .skip st = st)
    (l : List Stmt) (st : State σ V) : execList f (strip l) st = execList f l st := by
  induction l generalizing st with
  | nil => rfl
  | cons s l ih =>
    unfold strip
    rw [List.filter_cons]
    cases hs : s.isSkip with
    | true =>
      have := isSkip_eq hs
      subst this
      simp only [Bool.not_true, Bool.false_eq_true, if_false]
      show execList f (strip l) st = execList f l (f .skip st)
      rw [hskip, ih]
    | false =>
      simp only [Bool.not_false, if_true]
      show execList f (strip l) (f s st) = execList f l (f s st)
      exact ih _

theorem execR_skip (sc : Schedule) (st : State σ V) : execR ops cfg sc .skip st = st :=
  execS_skip (ops := ops) (cfg := cfg) st

theorem execE_skip (sc : Schedule) (st : State σ V) : execE ops cfg sc .skip st = st :=
  execS_skip (ops := ops) (cfg := cfg) st

theorem execR_strip (sc : Schedule) : execR ops cfg sc.strip = execR ops cfg sc := by
  funext s st
  cases s <;> try rfl
  show (if st.bad then st else execList (execS ops cfg) (strip sc.reset) st) = _
  rw [execList_strip _ (fun st => execS_skip (ops := ops) (cfg := cfg) st)]
  rfl

theorem advance_strip (sc : Schedule) : advance ops cfg sc.strip = advance ops cfg sc := by
  funext st
  have hf : ∀ l, execList (execR ops cfg sc.strip) (strip l) = execList (execR ops cfg sc) l := by
    intro l; funext st
    rw [execR_strip, execList_strip _ (fun st => execR_skip sc st)]
  show execList (execR ops cfg sc.strip) (strip sc.advancePost)
      (iter (execList (execR ops cfg sc.strip) (strip sc.advanceGen)) cfg.ngen
        (execList (execR ops cfg sc.strip) (strip sc.advancePre) st)) = _
  rw [hf, hf, hf]
  rfl

theorem execE_strip (sc : Schedule) : execE ops cfg sc.strip = execE ops cfg sc := by
  funext s st
  by_cases h : s = .callAdvance
  · subst h
    show (if st.bad then st else advance ops cfg sc.strip st) = _
    rw [advance_strip]
    rfl
  · have : ∀ sc' : Schedule, execE ops cfg sc' s st = execR ops cfg sc' s st := by
      intro sc'
      cases s <;> first | rfl | exact absurd rfl h
    rw [this, this, execR_strip]

theorem evolve_strip (sc : Schedule) (st : State σ V) :
    evolve ops cfg sc.strip st = evolve ops cfg sc st := by
  have hf : ∀ l, execList (execE ops cfg sc.strip) (strip l) = execList (execE ops cfg sc) l := by
    intro l; funext st
    rw [execE_strip, execList_strip _ (fun st => execE_skip sc st)]
  show execList (execE ops cfg sc.strip) (strip sc.evolvePost)
      (iter (execList (execE ops cfg sc.strip) (strip sc.evolveRep)) cfg.nrep
        (execList (execE ops cfg sc.strip) (strip sc.evolvePre) st)) = _
  rw [hf, hf, hf]
  rfl

theorem evolve_of_wellFormed (sc : Schedule) (h : WellFormed sc = true) (st : State σ V) :
    evolve ops cfg sc st = evolve ops cfg canonical st := by
  have : sc.strip = canonical := by simpa [WellFormed] using h
  rw [← evolve_strip, this]

/-! ### the classical frame condition implies `Respects` for every set of existing cells -/

/-- operators and logbook may mutate what they are handed and allocate — nothing else -/
structure Frame (ops : Ops σ V) : Prop where
  op : ∀ (k : OpK) (s : σ) (h : Heap V) (as : List Ref) (t tm : Nat), (∀ a ∈ as, a < h.length) →
      h.length ≤ (ops.op k s h as t tm).2.1.length ∧
      (∀ x, x < h.length → x ∉ as → (ops.op k s h as t tm).2.1[x]? = h[x]?) ∧
      (∀ a ∈ (ops.op k s h as t tm).2.2, a ∈ as ∨ (h.length ≤ a ∧ a < (ops.op k s h as t tm).2.1.length)) ∧
      (ops.op k s h as t tm).2.2.length = arity k
  log : ∀ (k : LogK) (s : σ) (h : Heap V) (as : List Ref) (t tm : Nat) (rp : Int), (∀ a ∈ as, a < h.length) →
      h.length ≤ (ops.log k s h as t tm rp).2.length ∧
      (∀ x, x < h.length → x ∉ as → (ops.log k s h as t tm rp).2[x]? = h[x]?)

theorem Frame.respects (hF : Frame ops) (S : List Ref) : Respects S ops := by
  constructor
  · intro k s h as t tm hS has
    obtain ⟨h1, h2, h3, h4⟩ := hF.op k s h as t tm (fun a ha => (has a ha).1)
    refine ⟨h1, ?_, ?_, h4⟩
    · intro x hx
      exact h2 x (hS x hx) (fun hin => (has x hin).2 hx)
    · intro a ha
      rcases h3 a ha with hin | ⟨hge, hlt⟩
      · exact ⟨lt_of_lt_of_le (has a hin).1 h1, (has a hin).2⟩
      · exact ⟨hlt, fun hin => absurd (hS a hin) (not_lt.mpr hge)⟩
  · intro k s h as t tm rp hS has
    obtain ⟨h1, h2⟩ := hF.log k s h as t tm rp (fun a ha => (has a ha).1)
    exact ⟨h1, fun x hx => h2 x (hS x hx) (fun hin => (has x hin).2 hx)⟩

/-- the state after `evolve` is again a state in which `evolve` may be called -/
theorem Good.ready {st : State σ V} (hS : S.length = 5) (g : Good S V0 st) :
    Ready ops st ∧ startRefs ops st = S := by
  have hall : st.start.all Option.isSome = true := by
    rw [g.start]; simp
  have hrefs : startRefs ops st = S := by
    simp only [startRefs, g.start]
    simp [List.filterMap_map]
  refine ⟨⟨g.nbad, by rw [g.start, List.length_map, hS], ?_, ?_, ?_⟩, hrefs⟩
  · intro a ha
    rw [g.start] at ha
    obtain ⟨b, hb, e⟩ := List.mem_map.mp ha
    cases e
    exact g.svalid _ hb
  · intro h; rw [hall] at h; cases h
  · rw [hrefs]; exact g.regs

end
end Program
