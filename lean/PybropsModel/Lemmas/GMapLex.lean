/-
Helper lemmas for C11: stability of `Np.stableSort`, uniqueness of the stable sorted arrangement, and
the three-pass `numpy.lexsort` (one stable sort per key) = the single lexicographic stable sort.
-/
import PybropsModel.Lemmas.GMapSort
set_option autoImplicit false
set_option linter.unusedSectionVars false

namespace GMap

section generic
variable {γ : Type} (le : γ → γ → Bool)
  (htot : ∀ a b, le a b = true ∨ le b a = true)
  (htrans : ∀ a b c, le a b = true → le b c = true → le a c = true)

/-- `x` and `y` are tied under `le` -/
def tied (x y : γ) : Bool := le x y && le y x

include htot htrans in
/-- **stability, one insertion**: a predicate whose members are mutually tied sees the new element
    appended behind its earlier members -/
theorem filter_insertSorted (p : γ → Bool) (hp : ∀ a b, p a = true → p b = true → le a b = true)
    (a : γ) : ∀ (m : List γ), m.Pairwise (fun x y => le x y = true) →
      (Np.insertSorted le a m).filter p = m.filter p ++ (if p a then [a] else [])
  | [], _ => by simp [Np.insertSorted]; split <;> simp_all
  | b :: bs, hm => by
    obtain ⟨hb, hbs⟩ := List.pairwise_cons.mp hm
    unfold Np.insertSorted
    by_cases hba : le b a = true
    · rw [if_pos hba, List.filter_cons, List.filter_cons, filter_insertSorted p hp a bs hbs]
      split <;> simp
    · rw [if_neg hba]
      by_cases hpa : p a = true
      · -- no member of p can follow: it would be ≤ a, and b ≤ it
        have hnone : (b :: bs).filter p = [] := by
          apply List.filter_eq_nil_iff.mpr
          intro c hc hpc
          have hca : le c a = true := hp c a hpc hpa
          rcases List.mem_cons.mp hc with rfl | hc'
          · exact hba hca
          · exact hba (htrans _ _ _ (hb c hc') hca)
        rw [List.filter_cons, if_pos hpa, hnone]
        simp [hpa]
      · simp [List.filter_cons, hpa]

include htot htrans in
/-- **stability**: the stable sort keeps the input order among mutually tied elements -/
theorem filter_stableSort (p : γ → Bool) (hp : ∀ a b, p a = true → p b = true → le a b = true)
    (l : List γ) : (Np.stableSort le l).filter p = l.filter p := by
  have key : ∀ (l acc : List γ), acc.Pairwise (fun x y => le x y = true) →
      (l.foldl (fun acc a => Np.insertSorted le a acc) acc).filter p = acc.filter p ++ l.filter p := by
    intro l
    induction l with
    | nil => intro acc _; simp
    | cons a l ih =>
      intro acc hacc
      simp only [List.foldl_cons]
      rw [ih _ (insertSorted_pairwise le htot htrans a acc hacc), filter_insertSorted le htot htrans p hp a acc hacc,
        List.filter_cons]
      split <;> simp
  unfold Np.stableSort
  simpa using key l [] List.Pairwise.nil

include htot htrans in
/-- **uniqueness**: two sorted lists that agree on every tie class (as ordered lists) are equal -/
theorem eq_of_sorted_of_filter_tied : ∀ (m m' : List γ),
    m.Pairwise (fun x y => le x y = true) → m'.Pairwise (fun x y => le x y = true) →
    (∀ x, m.filter (tied le x) = m'.filter (tied le x)) → m = m'
  | [], [], _, _, _ => rfl
  | [], b :: m', _, _, h => by
    have := h b
    have hb : tied le b b = true := by
      rcases htot b b with h | h <;> simp [tied, h]
    simp [hb] at this
  | a :: m, [], _, _, h => by
    have := h a
    have ha : tied le a a = true := by
      rcases htot a a with h | h <;> simp [tied, h]
    simp [ha] at this
  | a :: m, b :: m', hm, hm', h => by
    have hrefl : ∀ x : γ, tied le x x = true := by
      intro x; rcases htot x x with h | h <;> simp [tied, h]
    obtain ⟨ha, hmt⟩ := List.pairwise_cons.mp hm
    obtain ⟨hb, hmt'⟩ := List.pairwise_cons.mp hm'
    -- the heads are tied: each is minimal in its list and occurs in the other
    have hab : a = b := by
      have h1 := h a
      rw [List.filter_cons, if_pos (hrefl a)] at h1
      have hamem : a ∈ (b :: m').filter (tied le a) := by rw [← h1]; simp
      have ha' : a ∈ b :: m' := (List.mem_filter.mp hamem).1
      have hba : le b a = true := by
        rcases List.mem_cons.mp ha' with rfl | h'
        · exact (Bool.and_eq_true _ _ ▸ hrefl a).1
        · exact hb a h'
      have h2 := h b
      rw [List.filter_cons (xs := m'), if_pos (hrefl b)] at h2
      have hbmem : b ∈ (a :: m).filter (tied le b) := by rw [h2]; simp
      have hb' : b ∈ a :: m := (List.mem_filter.mp hbmem).1
      have hab' : le a b = true := by
        rcases List.mem_cons.mp hb' with rfl | h'
        · exact (Bool.and_eq_true _ _ ▸ hrefl b).1
        · exact ha b h'
      -- so b is tied with a and is the head of the right-hand filter
      have htab : tied le a b = true := by simp [tied, hab', hba]
      rw [List.filter_cons (xs := m'), if_pos htab] at h1
      exact (List.cons.inj h1).1
    subst hab
    congr 1
    refine eq_of_sorted_of_filter_tied m m' hmt hmt' ?_
    intro x
    have := h x
    rw [List.filter_cons, List.filter_cons] at this
    split at this
    · exact (List.cons.inj this).2
    · exact this

include htot htrans in
/-- a list that is a sorted, tie-order-preserving rearrangement of `l` is the stable sort of `l` -/
theorem eq_stableSort_of_sorted_of_filter (l m : List γ) (hm : m.Pairwise (fun x y => le x y = true))
    (hf : ∀ x, m.filter (tied le x) = l.filter (tied le x)) : m = Np.stableSort le l := by
  refine eq_of_sorted_of_filter_tied le htot htrans m _ hm (stableSort_pairwise le htot htrans l) ?_
  intro x
  rw [hf x, filter_stableSort le htot htrans (tied le x) ?_ l]
  intro a b ha hb
  simp only [tied, Bool.and_eq_true] at ha hb
  exact htrans _ _ _ ha.2 hb.1

/-- lexicographic combination: `le1` first, ties broken by `le2` -/
def lexLe (le1 le2 : γ → γ → Bool) (a b : γ) : Bool := le1 a b && (!le1 b a || le2 a b)

variable (le2 : γ → γ → Bool)

include htot htrans in
/-- **one lexsort pass**: stably sorting by `le` a list that is already sorted by `le2` gives a list
    sorted by "`le`, ties by `le2`" -/
theorem stableSort_lex_pairwise (m : List γ) (hm : m.Pairwise (fun x y => le2 x y = true)) :
    (Np.stableSort le m).Pairwise (fun x y => lexLe le le2 x y = true) := by
  have hs := stableSort_pairwise le htot htrans m
  rw [List.pairwise_iff_getElem] at hs ⊢
  intro i j hi hj hij
  have h1 := hs i j hi hj hij
  simp only [lexLe, Bool.and_eq_true, Bool.or_eq_true, Bool.not_eq_true']
  refine ⟨h1, ?_⟩
  by_cases h2 : le (Np.stableSort le m)[j] (Np.stableSort le m)[i] = true
  · right
    -- both lie in the tie class of the i-th element, whose order is that of `m`
    set a := (Np.stableSort le m)[i] with ha
    set b := (Np.stableSort le m)[j] with hb
    have hcls : (Np.stableSort le m).filter (tied le a) = m.filter (tied le a) := by
      apply filter_stableSort le htot htrans
      intro x y hx hy
      simp only [tied, Bool.and_eq_true] at hx hy
      exact htrans _ _ _ hx.2 hy.1
    have hpw : ((Np.stableSort le m).filter (tied le a)).Pairwise (fun x y => le2 x y = true) := by
      rw [hcls]; exact hm.sublist List.filter_sublist
    rw [List.pairwise_filter] at hpw
    have := List.pairwise_iff_getElem.mp hpw i j hi hj hij
    have haa : tied le a a = true := by
      rcases htot a a with h | h <;> simp [tied, h]
    exact this haa (by show tied le a b = true; simp [tied, h1, h2])
  · left
    simpa using h2

end generic

/-! ### the three passes of `numpy.lexsort((genpos, phypos, chrgrp))` -/
section lex3
variable {α β : Type} [LinearOrder α]

theorem genLe_iff (a b : Row α β) : genLe a b = true ↔ a.gen ≤ b.gen := by simp [genLe]
theorem phyLe_iff (a b : Row α β) : phyLe a b = true ↔ a.phy ≤ b.phy := by simp [phyLe]
theorem chrLe_iff (a b : Row α β) : chrLe a b = true ↔ a.chr ≤ b.chr := by simp [chrLe]

theorem genLe_total (a b : Row α β) : genLe a b = true ∨ genLe b a = true := by
  rw [genLe_iff, genLe_iff]; exact le_total _ _
theorem genLe_trans (a b c : Row α β) (h1 : genLe a b = true) (h2 : genLe b c = true) :
    genLe a c = true := by rw [genLe_iff] at *; exact le_trans h1 h2
theorem phyLe_total (a b : Row α β) : phyLe a b = true ∨ phyLe b a = true := by
  rw [phyLe_iff, phyLe_iff]; exact le_total _ _
theorem phyLe_trans (a b c : Row α β) (h1 : phyLe a b = true) (h2 : phyLe b c = true) :
    phyLe a c = true := by rw [phyLe_iff] at *; exact le_trans h1 h2
theorem chrLe_total (a b : Row α β) : chrLe a b = true ∨ chrLe b a = true := by
  rw [chrLe_iff, chrLe_iff]; exact le_total _ _
theorem chrLe_trans (a b c : Row α β) (h1 : chrLe a b = true) (h2 : chrLe b c = true) :
    chrLe a c = true := by rw [chrLe_iff] at *; exact le_trans h1 h2

/-- chromosome, then physical, then genetic position = the constructor order -/
theorem lexLe3_eq_rowLe (a b : Row α β) :
    lexLe chrLe (lexLe phyLe genLe) a b = rowLe a b := by
  rw [Bool.eq_iff_iff, rowLe_iff]
  simp only [lexLe, Bool.and_eq_true, Bool.or_eq_true, Bool.not_eq_true', chrLe_iff, phyLe_iff, genLe_iff,
    ← Bool.not_eq_true, not_le]
  constructor
  · rintro ⟨hc, h | ⟨hp, h | hg⟩⟩
    · exact Or.inl h
    · rcases lt_or_eq_of_le hc with h' | h'
      · exact Or.inl h'
      · exact Or.inr ⟨h', Or.inl h⟩
    · rcases lt_or_eq_of_le hc with h' | h'
      · exact Or.inl h'
      · rcases lt_or_eq_of_le hp with h'' | h''
        · exact Or.inr ⟨h', Or.inl h''⟩
        · exact Or.inr ⟨h', Or.inr ⟨h'', hg⟩⟩
  · rintro (h | ⟨hc, h | ⟨hp, hg⟩⟩)
    · exact ⟨h.le, Or.inl h⟩
    · exact ⟨hc.le, Or.inr ⟨h.le, Or.inl h⟩⟩
    · exact ⟨hc.le, Or.inr ⟨hp.le, Or.inr hg⟩⟩

/-- rows tied under the constructor order agree in all three keys, hence are tied under each single key -/
theorem tied_rowLe_key {x a : Row α β} (h : tied rowLe x a = true) :
    x.chr = a.chr ∧ x.phy = a.phy ∧ x.gen = a.gen := by
  simp only [tied, Bool.and_eq_true] at h
  exact rowLe_antisymm_key x a h.1 h.2

/-- **the three-pass lexsort is the lexicographic stable sort** — on every input, duplicated keys and
    arbitrary riding columns included -/
theorem lexsort3_eq_construct (rows : List (Row α β)) : lexsort3 rows = construct rows := by
  unfold lexsort3 construct
  apply eq_stableSort_of_sorted_of_filter rowLe rowLe_total rowLe_trans
  · -- sortedness, pass by pass
    have h1 := stableSort_pairwise (genLe (α := α) (β := β)) genLe_total genLe_trans rows
    have h2 := stableSort_lex_pairwise phyLe phyLe_total phyLe_trans genLe _ h1
    have h3 := stableSort_lex_pairwise chrLe chrLe_total chrLe_trans (lexLe phyLe genLe) _ h2
    exact h3.imp (fun h => by rw [← lexLe3_eq_rowLe]; exact h)
  · -- each pass keeps the input order inside a class of fully tied rows
    intro x
    have hcls : ∀ (le : Row α β → Row α β → Bool),
        (∀ a b : Row α β, a.chr = b.chr → a.phy = b.phy → a.gen = b.gen → le a b = true) →
        ∀ a b, tied rowLe x a = true → tied rowLe x b = true → le a b = true := by
      intro le hle a b ha hb
      obtain ⟨a1, a2, a3⟩ := tied_rowLe_key ha
      obtain ⟨b1, b2, b3⟩ := tied_rowLe_key hb
      exact hle a b (a1.symm.trans b1) (a2.symm.trans b2) (a3.symm.trans b3)
    rw [filter_stableSort chrLe chrLe_total chrLe_trans _
        (hcls chrLe (fun a b h _ _ => (chrLe_iff a b).mpr h.le)),
      filter_stableSort phyLe phyLe_total phyLe_trans _
        (hcls phyLe (fun a b _ h _ => (phyLe_iff a b).mpr h.le)),
      filter_stableSort genLe genLe_total genLe_trans _
        (hcls genLe (fun a b _ _ h => (genLe_iff a b).mpr h.le))]

/-- rows with pairwise different (chromosome, physical position) are determined by that key -/
theorem eq_of_key_eq_of_noDupPhys {rows : List (Row α β)} (h : NoDupPhys rows) {a b : Row α β}
    (ha : a ∈ rows) (hb : b ∈ rows) (hc : a.chr = b.chr) (hp : a.phy = b.phy) : a = b := by
  have := List.inj_on_of_nodup_map h ha hb
  exact this (by simp [hc, hp])

/-- under the property's quantifier (no duplicated physical position) the stored map does not depend on
    the supplied row order — no hypothesis on the riding columns -/
theorem construct_eq_of_perm_of_noDupPhys {rows rows' : List (Row α β)} (hp : rows.Perm rows')
    (h : NoDupPhys rows) : construct rows = construct rows' :=
  construct_eq_of_perm hp (fun a b ha hb hc hph _ => by rw [eq_of_key_eq_of_noDupPhys h ha hb hc hph])

end lex3
end GMap
