/-
Helper lemmas for C02: algebra of the expectation `E` over independent crossover indicators
(linearity, marginalisation, independence of disjoint blocks), the law of the parity of a block,
and the push-forward of equally likely draws through the comparison `r < x`.
-/
import PybropsModel.Lemmas.RecombLoop
set_option autoImplicit false
set_option linter.unusedSectionVars false

namespace Recomb

section ring
variable {α : Type} [CommRing α]

theorem E_const (xs : List α) (c : α) : E xs (fun _ => c) = c := by
  induction xs with
  | nil => rfl
  | cons x xs ih => simp only [E, ih]; ring

theorem E_add (xs : List α) (F G : List Bool → α) :
    E xs (fun b => F b + G b) = E xs F + E xs G := by
  induction xs generalizing F G with
  | nil => rfl
  | cons x xs ih => simp only [E, ih]; ring

theorem E_const_mul (xs : List α) (c : α) (F : List Bool → α) :
    E xs (fun b => c * F b) = c * E xs F := by
  induction xs generalizing F with
  | nil => rfl
  | cons x xs ih => simp only [E, ih]; ring

theorem E_mul_const (xs : List α) (c : α) (F : List Bool → α) :
    E xs (fun b => F b * c) = E xs F * c := by
  induction xs generalizing F with
  | nil => rfl
  | cons x xs ih => simp only [E, ih]; ring

theorem E_sub (xs : List α) (F G : List Bool → α) :
    E xs (fun b => F b - G b) = E xs F - E xs G := by
  induction xs generalizing F G with
  | nil => rfl
  | cons x xs ih => simp only [E, ih]; ring

/-- `E xs` only looks at masks of the length of `xs` -/
theorem E_congr (xs : List α) (F G : List Bool → α)
    (h : ∀ b : List Bool, b.length = xs.length → F b = G b) : E xs F = E xs G := by
  induction xs generalizing F G with
  | nil => exact h [] rfl
  | cons x xs ih =>
    simp only [E]
    rw [ih (fun b => F (false :: b)) (fun b => G (false :: b)) (fun b hb => h _ (by simp [hb])),
        ih (fun b => F (true :: b)) (fun b => G (true :: b)) (fun b hb => h _ (by simp [hb]))]

/-- marginalising the first indicator -/
theorem E_tail (x : α) (xs : List α) (G : List Bool → α) :
    E (x :: xs) (fun b => G b.tail) = E xs G := by
  simp only [E, List.tail_cons]; ring

theorem E_drop (n : Nat) (xs : List α) (G : List Bool → α) :
    E xs (fun b => G (b.drop n)) = E (xs.drop n) G := by
  induction n generalizing xs G with
  | zero => simp
  | succ n ih =>
    cases xs with
    | nil => simp [E]
    | cons x xs =>
      have : (fun b : List Bool => G (b.drop (n + 1))) = fun b => (fun t => G (t.drop n)) b.tail := by
        funext b; cases b <;> simp
      rw [this]
      exact (E_tail x xs (fun t => G (t.drop n))).trans (by rw [ih]; simp)

theorem E_take (n : Nat) (xs : List α) (G : List Bool → α) :
    E xs (fun b => G (b.take n)) = E (xs.take n) G := by
  induction n generalizing xs G with
  | zero => simp [E, E_const]
  | succ n ih =>
    cases xs with
    | nil => simp [E]
    | cons x xs =>
      simp only [E, List.take_succ_cons]
      rw [ih xs (fun t => G (false :: t)), ih xs (fun t => G (true :: t))]

/-- functions of disjoint blocks of intervals are independent -/
theorem E_split_mul (n : Nat) (xs : List α) (G H : List Bool → α) :
    E xs (fun b => G (b.take n) * H (b.drop n)) = E (xs.take n) G * E (xs.drop n) H := by
  induction n generalizing xs G with
  | zero => simp [E, E_const_mul]
  | succ n ih =>
    cases xs with
    | nil => simp [E]
    | cons x xs =>
      simp only [E, List.take_succ_cons, List.drop_succ_cons]
      rw [ih xs (fun t => G (false :: t)), ih xs (fun t => G (true :: t))]
      ring

theorem ind_not (c : Bool) : (ind (!c) : α) = 1 - ind c := by
  cases c <;> simp [ind]

theorem ind_and (c d : Bool) : (ind (c && d) : α) = ind c * ind d := by
  cases c <;> cases d <;> simp [ind]

theorem ind_true : (ind true : α) = 1 := rfl
theorem ind_false : (ind false : α) = 0 := rfl

/-- **independence of the crossover indicators**: the probability of any pattern on any set of
    intervals is the product of the single-interval probabilities -/
theorem E_agree (xs : List α) (K p : List Bool) :
    E xs (fun b => ind (agree K p b)) = patProb K p xs := by
  induction xs generalizing K p with
  | nil => cases K <;> cases p <;> simp [E, agree, patProb, ind]
  | cons x xs ih =>
    cases K with
    | nil => simp only [agree, patProb, ind_true, E_const]
    | cons k K =>
      cases p with
      | nil => simp only [agree, patProb, ind_true, E_const]
      | cons q p =>
        simp only [E, agree, patProb, ind_and, E_const_mul, ih]
        cases k <;> cases q <;> simp [ind] <;> ring

theorem xorAll_append (l1 l2 : List Bool) : xorAll (l1 ++ l2) = xor (xorAll l1) (xorAll l2) := by
  induction l1 with
  | nil => simp [xorAll]
  | cons b l1 ih => simp [xorAll, ih]

theorem phase_eq (b : List Bool) (j : Nat) (hj : j < b.length) :
    (phases b).getD j false = xorAll (b.take (j + 1)) := by
  unfold phases
  have hl : j < (phasesFrom false b).length := by rw [phasesFrom_length]; exact hj
  rw [List.getD_eq_getElem?_getD, List.getElem?_eq_getElem hl, Option.getD_some, phasesFrom_getElem]
  simp

theorem phase_pair_eq (b : List Bool) (i j : Nat) (hij : i < j) :
    xorAll (b.take (j + 1)) = xor (xorAll (b.take (i + 1))) (xorAll ((b.drop (i + 1)).take (j - i))) := by
  have : j + 1 = (i + 1) + (j - i) := by omega
  rw [this, List.take_add, xorAll_append]

theorem E_getD (xs : List α) (k : Nat) (hk : k < xs.length) (u : Bool) :
    E xs (fun b => ind (b.getD k false == u)) = if u then xs[k] else 1 - xs[k] := by
  induction k generalizing xs with
  | zero =>
    cases xs with
    | nil => simp at hk
    | cons x xs =>
      simp only [E, List.getD_cons_zero, E_const, List.getElem_cons_zero]
      cases u <;> simp [ind]
  | succ k ih =>
    cases xs with
    | nil => simp at hk
    | cons x xs =>
      have : (fun b : List Bool => (ind (b.getD (k + 1) false == u) : α)) =
          fun b => (fun t : List Bool => (ind (t.getD k false == u) : α)) b.tail := by
        funext b; cases b <;> simp
      rw [this]
      exact (E_tail x xs (fun t : List Bool => (ind (t.getD k false == u) : α))).trans
        (by rw [ih xs (by simpa using hk)]; simp)

end ring

section field
variable {α : Type} [Field α] [CharZero α]

theorem dfac_half : dfac (1 / 2 : α) = 0 := by
  unfold dfac; ring

theorem prodD_eq_zero (l : List α) (h : (1 / 2 : α) ∈ l) : prodD l = 0 := by
  induction l with
  | nil => simp at h
  | cons x l ih =>
    rcases List.mem_cons.mp h with h | h
    · rw [prodD, ← h, dfac_half, zero_mul]
    · rw [prodD, ih h, mul_zero]

theorem oddProb_half (l : List α) (h : (1 / 2 : α) ∈ l) : oddProb l = 1 / 2 := by
  simp [oddProb, prodD_eq_zero l h]

theorem oddProb_singleton (x : α) : oddProb [x] = x := by
  simp only [oddProb, prodD, dfac]; ring

/-- law of the parity of the crossovers in a block of intervals -/
theorem E_xorAll (xs : List α) : E xs (fun b => ind (xorAll b)) = oddProb xs := by
  induction xs with
  | nil => simp [E, xorAll, ind, oddProb, prodD]
  | cons x xs ih =>
    simp only [E, xorAll, Bool.false_bne, Bool.true_bne, ind_not, E_sub, E_const, ih, oddProb, prodD, dfac]
    ring

theorem E_xorAll_eq (xs : List α) (a : Bool) :
    E xs (fun b => ind (xorAll b == a)) = if a then oddProb xs else 1 - oddProb xs := by
  cases a
  · have : (fun b : List Bool => (ind (xorAll b == false) : α)) = fun b => 1 - ind (xorAll b) := by
      funext b; cases xorAll b <;> simp [ind]
    rw [this, E_sub, E_const, E_xorAll]; simp
  · have : (fun b : List Bool => (ind (xorAll b == true) : α)) = fun b => ind (xorAll b) := by
      funext b; cases xorAll b <;> simp [ind]
    rw [this, E_xorAll]; simp

end field

/-! ### the draws: equally likely values compared with `<` -/
section draws
variable {α : Type} [Field α] [LinearOrder α] [IsStrictOrderedRing α]

theorem npSum_eq_sum (l : List α) : Np.sum l = l.sum := by
  unfold Np.sum
  rw [List.sum_eq_foldl]

theorem sum_map_decide (pts : List α) (x : α) (g : Bool → α) :
    (pts.map (fun r => g (decide (r < x)))).sum =
      ((pts.countP (fun r => decide (r < x)) : Nat) : α) * g true +
      (((pts.length : Nat) : α) - ((pts.countP (fun r => decide (r < x)) : Nat) : α)) * g false := by
  induction pts with
  | nil => simp
  | cons r pts ih =>
    simp only [List.map_cons, List.sum_cons, ih, List.countP_cons, List.length_cons]
    by_cases h : r < x
    · simp [h]; ring
    · simp [h]; ring

/-- share of the equally likely draw values that lie strictly below x -/
noncomputable def below (pts : List α) (x : α) : α :=
  ((pts.countP (fun r => decide (r < x)) : Nat) : α) / ((pts.length : Nat) : α)

/-- the law of the mask `rnd < xoprob` under independent, equally likely draws is the Bernoulli
    product with parameters "share of the draw values below x_k" -/
theorem Edraw_eq_E_below (pts : List α) (hN : pts ≠ []) (xs : List α) (F : List Bool → α) :
    Edraw pts xs F = E (xs.map (below pts)) F := by
  have hN' : ((pts.length : Nat) : α) ≠ 0 := by
    have : pts.length ≠ 0 := by simpa using hN
    exact_mod_cast this
  induction xs generalizing F with
  | nil => rfl
  | cons x xs ih =>
    simp only [Edraw, E, List.map_cons, npSum_eq_sum]
    have : (pts.map (fun r => Edraw pts xs (fun b => F (decide (r < x) :: b)))) =
        pts.map (fun r => (fun c : Bool => E (xs.map (below pts)) (fun b => F (c :: b))) (decide (r < x))) := by
      apply List.map_congr_left
      intro r _
      exact ih _
    rw [this, sum_map_decide pts x (fun c => E (xs.map (below pts)) (fun b => F (c :: b)))]
    unfold below
    field_simp
    ring

theorem countP_range_lt (N c : Nat) : (List.range N).countP (fun k => decide (k < c)) = min c N := by
  induction N with
  | zero => simp
  | succ N ih =>
    rw [List.range_succ, List.countP_append, ih]
    by_cases h : N < c
    · simp [h]; omega
    · simp [h]; omega

theorem gridPts_length (N : Nat) : (gridPts N : List α).length = N := by simp [gridPts]

theorem gridPts_ne_nil (N : Nat) (hN : 0 < N) : (gridPts N : List α) ≠ [] := by
  intro h
  have := congrArg List.length h
  rw [gridPts_length] at this
  simp at this; omega

variable [FloorRing α]

/-- probability that a draw from the grid `{0, 1/N, …, (N-1)/N}` is strictly below x:
    x rounded up to the grid (and clamped to [0, 1]) -/
noncomputable def gridProb (N : Nat) (x : α) : α := ((min ⌈x * (N : α)⌉₊ N : Nat) : α) / (N : α)

theorem gridPts_count (N : Nat) (hN : 0 < N) (x : α) :
    (gridPts N : List α).countP (fun r => decide (r < x)) = min ⌈x * (N : α)⌉₊ N := by
  unfold gridPts
  rw [List.countP_map]
  have hpos : (0 : α) < (N : α) := by exact_mod_cast hN
  have : ((fun r : α => decide (r < x)) ∘ fun k : Nat => (k : α) / (N : α)) =
      fun k : Nat => decide (k < ⌈x * (N : α)⌉₊) := by
    funext k
    simp only [Function.comp, div_lt_iff₀ hpos, Nat.lt_ceil]
  rw [this, countP_range_lt]

theorem below_gridPts (N : Nat) (hN : 0 < N) (x : α) : below (gridPts N) x = gridProb N x := by
  unfold below gridProb
  rw [gridPts_count N hN, gridPts_length]

theorem gridProb_close (N : Nat) (hN : 0 < N) (x : α) (h0 : 0 ≤ x) (h1 : x ≤ 1) :
    x ≤ gridProb N x ∧ gridProb N x < x + 1 / (N : α) := by
  have hpos : (0 : α) < (N : α) := by exact_mod_cast hN
  have hxN : x * (N : α) ≤ (N : α) := by nlinarith
  have hle : ⌈x * (N : α)⌉₊ ≤ N := Nat.ceil_le.mpr hxN
  unfold gridProb
  rw [min_eq_left hle]
  constructor
  · rw [le_div_iff₀ hpos]; exact Nat.le_ceil _
  · rw [div_lt_iff₀ hpos]
    have := Nat.ceil_lt_add_one (mul_nonneg h0 hpos.le)
    have e : (x + 1 / (N : α)) * (N : α) = x * N + 1 := by field_simp
    rw [e]; exact this

theorem gridProb_mem_unit (N : Nat) (hN : 0 < N) (x : α) : 0 ≤ gridProb N x ∧ gridProb N x ≤ 1 := by
  have hpos : (0 : α) < (N : α) := by exact_mod_cast hN
  unfold gridProb
  constructor
  · positivity
  · rw [div_le_one hpos]
    exact_mod_cast min_le_right _ _

theorem gridProb_on_grid (N c : Nat) (hN : 0 < N) (hc : c ≤ N) :
    gridProb N ((c : α) / (N : α)) = (c : α) / (N : α) := by
  have hpos : (N : α) ≠ 0 := by exact_mod_cast (Nat.pos_iff_ne_zero.mp hN)
  unfold gridProb
  rw [div_mul_cancel₀ _ hpos, Nat.ceil_natCast, min_eq_left hc]

end draws

end Recomb
