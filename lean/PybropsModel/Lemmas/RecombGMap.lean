/-
Helper lemmas for C02 (round 3): the distance model used here (`Recomb.gdist1g`: compare each label with
the previous one) is C11's model of StandardGeneticMap.gdist1g / ExtendedGeneticMap.gdist1g (`GMap.gdist1g`),
hence — on label arrays whose equal labels are contiguous — the literal `numpy.unique` loop of the source
(`GMap.gdist1gLit`, C11's transcription, proved equal to the closed form in Lemmas/GMapSeq).
-/
import PybropsModel.Lemmas.RecombMap
import PybropsModel.Lemmas.GMapSeq
set_option autoImplicit false
set_option linter.unusedSectionVars false

namespace Recomb

/-- `none` = `numpy.inf` -/
def toGDist {α : Type} : Option α → GMap.GDist α
  | none => .inf
  | some d => .fin d

section
variable {α : Type} [Sub α] [LT α] [DecidableLT α] [OfNat α 0]

theorem gdist1From_eq_gdistFrom : ∀ (cs : List Int) (ps : List α) (c0 : Int) (p0 : α),
    GMap.gdist1From (some (c0, some p0)) (cs.zip (ps.map some)) = (gdistFrom c0 p0 cs ps).map toGDist
  | [], _, _, _ => by simp [GMap.gdist1From, gdistFrom]
  | _ :: _, [], _, _ => by simp [GMap.gdist1From, gdistFrom]
  | c :: cs, p :: ps, c0, p0 => by
    simp only [List.map_cons, List.zip_cons_cons, GMap.gdist1From, gdistFrom, GMap.seqDist]
    rw [gdist1From_eq_gdistFrom cs ps c p]
    by_cases h : c = c0
    · subst h; simp [toGDist, GMap.subPos]
    · have h' : ¬ c0 = c := fun e => h e.symm
      simp [h, h', toGDist]

/-- the two models of `gdist1g` agree (whole array, positions all present) -/
theorem gdist1g_eq_GMap (chr : List Int) (pos : List α) :
    GMap.gdist1g chr (pos.map some) = (gdist1g chr pos).map toGDist := by
  unfold GMap.gdist1g
  show GMap.gdist1From none (chr.zip (pos.map some)) = _
  cases chr with
  | nil => simp [GMap.gdist1From, gdist1g]
  | cons c cs =>
    cases pos with
    | nil => simp [GMap.gdist1From, gdist1g]
    | cons p ps =>
      simp only [List.map_cons, List.zip_cons_cons, GMap.gdist1From, gdist1g, GMap.seqDist]
      rw [gdist1From_eq_gdistFrom]
      rfl

/-- the literal loop of the source (`uniq, start, counts = numpy.unique(...)`, `out = numpy.empty`, one
    slice assignment per distinct label) writes every cell, and writes the distances of `Recomb.gdist1g`,
    whenever equal chromosome labels are contiguous (sorted or not) -/
theorem gdist1gLit_eq_recomb (chr : List Int) (pos : List α) (hlen : chr.length ≤ pos.length)
    (hc : GMap.ContigLabels chr) :
    GMap.gdist1gLit chr (pos.map some) = ((gdist1g chr pos).map toGDist).map some := by
  rw [← gdist1g_eq_GMap]
  have hz : (GMap.slice none none (chr.zip (pos.map some))).map Prod.fst = chr := by
    show (chr.zip (pos.map some)).map Prod.fst = chr
    exact List.map_fst_zip (by simpa using hlen)
  exact GMap.gdist1gLit_eq_of_contig _ (GMap.contig_of_contigLabels _ (by rw [hz]; exact hc))

end

end Recomb
