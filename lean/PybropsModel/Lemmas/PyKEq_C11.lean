/-
C11 — the map functions as TRANSLATED FROM THE PYTHON SOURCE (Generated/PyK_C11.lean, rewritten by
harness/py2lean.py on every run) are the model's map functions, and the defining laws of the property hold
of the translated definitions themselves.

`…_eq_model` : over every field with an abstract exp/log/tanh/artanh.  A harmless rewrite of the source
(`2.0*d` ↔ `d+d`, reassociation, renamed local) keeps these proofs; `exp(-d)`, a dropped factor, a changed
constant do not.
-/
import Mathlib.Tactic
import PybropsModel.Generated.PyK_C11
import PybropsModel.Lemmas.PyKBase
import PybropsModel.Lemmas.MapFn
set_option autoImplicit false
set_option linter.unusedSimpArgs false
set_option linter.unusedTactic false
set_option linter.unreachableTactic false
set_option linter.unnecessarySeqFocus false

namespace PyK.C11
open GMap

section field
variable {α : Type} [Field α]

theorem haldane_mapfn_eq_model [HasExp α] (d : α) : haldane_mapfn d = GMap.haldane d := by
  simp only [haldane_mapfn, GMap.haldane, GMap.half] <;> ring_nf

theorem haldane_invmapfn_eq_model [HasLog α] (r : α) : haldane_invmapfn r = GMap.invHaldane r := by
  simp only [haldane_invmapfn, GMap.invHaldane, GMap.half] <;> ring_nf

theorem kosambi_mapfn_eq_model [HasTanh α] (d : α) : kosambi_mapfn d = GMap.kosambi d := by
  simp only [kosambi_mapfn, GMap.kosambi, GMap.half] <;> ring_nf

theorem kosambi_invmapfn_eq_model [HasArtanh α] (r : α) : kosambi_invmapfn r = GMap.invKosambi r := by
  simp only [kosambi_invmapfn, GMap.invKosambi, GMap.half] <;> ring_nf

end field

/-! ### pairwise genetic distance: one entry of `gdist2g` -/
section pair
variable {α : Type} [Field α] [LinearOrder α] [IsStrictOrderedRing α]

/-- `out = numpy.abs(gi - gj); out[mi != mj] = numpy.inf` on two markers with known (non-NaN) positions is the model's
    `pairDist`: the absolute difference within a chromosome, `+inf` across chromosomes -/
theorem gdist2g_cell_eq_model (gi gj : α) (mi mj : Int) :
    gdist2g_cell gi gj mi mj = pairDist (mi, some gi) (mj, some gj) := by
  unfold gdist2g_cell pairDist
  by_cases h : mi = mj
  · simp only [h, ne_eq, not_true_eq_false, if_false, if_true, subPos, absD, GMap.absv, GDist.fin.injEq]
    split_ifs <;> ring
  · have h' : ¬ (mj = mi) := fun e => h e.symm
    simp only [h, h', ne_eq, not_false_eq_true, if_true, if_false]

theorem gdist2g_cell_ext_eq_model (gi gj : α) (mi mj : Int) :
    gdist2g_cell_ext gi gj mi mj = pairDist (mi, some gi) (mj, some gj) := by
  unfold gdist2g_cell_ext pairDist
  by_cases h : mi = mj
  · simp only [h, ne_eq, not_true_eq_false, if_false, if_true, subPos, absD, GMap.absv, GDist.fin.injEq]
    split_ifs <;> ring
  · have h' : ¬ (mj = mi) := fun e => h e.symm
    simp only [h, h', ne_eq, not_false_eq_true, if_true, if_false]

/-- symmetry of the pairwise distance and `+inf` across chromosomes, about the translated source -/
theorem gdist2g_cell_symm (gi gj : α) (mi mj : Int) : gdist2g_cell gi gj mi mj = gdist2g_cell gj gi mj mi := by
  rw [gdist2g_cell_eq_model, gdist2g_cell_eq_model]
  unfold pairDist
  by_cases h : mi = mj
  · subst h
    simp only [if_true, subPos, absD, GMap.absv, GDist.fin.injEq]
    rcases lt_trichotomy gi gj with hl | he | hg
    · have h1 : gi - gj < 0 := by linarith
      have h2 : ¬ gj - gi < 0 := by linarith
      simp only [h1, h2, if_true, if_false]; ring
    · subst he; simp
    · have h1 : ¬ gi - gj < 0 := by linarith
      have h2 : gj - gi < 0 := by linarith
      simp only [h1, h2, if_true, if_false]; ring
  · have h' : ¬ mj = mi := fun e => h e.symm
    simp only [h, h', if_false]

theorem gdist2g_cell_across (gi gj : α) (mi mj : Int) (h : mi ≠ mj) : gdist2g_cell gi gj mi mj = GDist.inf := by
  rw [gdist2g_cell_eq_model]; unfold pairDist; simp only [h, if_false]

end pair

/-! ### as functions on ℝ -/
theorem haldane_mapfn_eq_fn : (haldane_mapfn : ℝ → ℝ) = MapKind.haldane.fn := by
  funext d; exact haldane_mapfn_eq_model d

theorem kosambi_mapfn_eq_fn : (kosambi_mapfn : ℝ → ℝ) = MapKind.kosambi.fn := by
  funext d; exact kosambi_mapfn_eq_model d

theorem haldane_invmapfn_eq_fn : (haldane_invmapfn : ℝ → ℝ) = GMap.invHaldane := by
  funext r; exact haldane_invmapfn_eq_model r

theorem kosambi_invmapfn_eq_fn : (kosambi_invmapfn : ℝ → ℝ) = GMap.invKosambi := by
  funext r; exact kosambi_invmapfn_eq_model r

/-! ### the laws of the property, about the translated source -/

/-- zero distance ↦ zero recombination -/
theorem haldane_mapfn_zero : haldane_mapfn (0 : ℝ) = 0 := by
  rw [haldane_mapfn_eq_model]; exact haldane_zero_real

theorem kosambi_mapfn_zero : kosambi_mapfn (0 : ℝ) = 0 := by
  rw [kosambi_mapfn_eq_model]; exact kosambi_zero_real

theorem haldane_mapfn_strictMono : StrictMono (haldane_mapfn : ℝ → ℝ) := by
  rw [haldane_mapfn_eq_fn]; exact MapKind.fn_strictMono _

theorem kosambi_mapfn_strictMono : StrictMono (kosambi_mapfn : ℝ → ℝ) := by
  rw [kosambi_mapfn_eq_fn]; exact MapKind.fn_strictMono _

/-- range `[0, ½)` on non-negative distances -/
theorem haldane_mapfn_range {d : ℝ} (hd : 0 ≤ d) : 0 ≤ haldane_mapfn d ∧ haldane_mapfn d < 1 / 2 := by
  rw [haldane_mapfn_eq_model]; exact ⟨haldane_nonneg_real hd, haldane_lt_half_real d⟩

theorem kosambi_mapfn_range {d : ℝ} (hd : 0 ≤ d) : 0 ≤ kosambi_mapfn d ∧ kosambi_mapfn d < 1 / 2 := by
  rw [kosambi_mapfn_eq_model]; exact ⟨kosambi_nonneg_real hd, kosambi_lt_half_real d⟩

/-- `invmapfn (mapfn d) = d` -/
theorem haldane_inverse_left (d : ℝ) : haldane_invmapfn (haldane_mapfn d) = d := by
  rw [haldane_mapfn_eq_model, haldane_invmapfn_eq_model]; exact invHaldane_haldane_real d

theorem kosambi_inverse_left (d : ℝ) : kosambi_invmapfn (kosambi_mapfn d) = d := by
  rw [kosambi_mapfn_eq_model, kosambi_invmapfn_eq_model]; exact invKosambi_kosambi_real d

/-- `mapfn (invmapfn r) = r` below one half -/
theorem haldane_inverse_right {r : ℝ} (hr : r < 1 / 2) : haldane_mapfn (haldane_invmapfn r) = r := by
  rw [haldane_invmapfn_eq_model, haldane_mapfn_eq_model]; exact haldane_invHaldane_real hr

theorem kosambi_inverse_right {r : ℝ} (h0 : -(1 / 2) < r) (h1 : r < 1 / 2) :
    kosambi_mapfn (kosambi_invmapfn r) = r := by
  rw [kosambi_invmapfn_eq_model, kosambi_mapfn_eq_model]; exact kosambi_invKosambi_real h0 h1

/-- Haldane: independent adjacent intervals compose to the map function of the summed distance -/
theorem haldane_mapfn_addition (a b : ℝ) :
    haldane_mapfn (a + b) = haldane_mapfn a + haldane_mapfn b - 2 * haldane_mapfn a * haldane_mapfn b := by
  simp only [haldane_mapfn_eq_model]; exact haldane_add_real a b

end PyK.C11
