/-
Helper lemmas for C14, part 2b: the hash join of `MeanPhenotypicBreedingValue.estimate` characterised for EVERY table
(several names, several groups, one name under several group labels): the joined row is the aggregate of the records
whose group key is the GREATEST key carrying that name.
-/
import Mathlib.Tactic
import PybropsModel.Lemmas.PhenoBV
set_option autoImplicit false
set_option linter.unusedSectionVars false

namespace Pheno

/-- the last element of a list sorted by a reflexive relation dominates every element -/
theorem getLast?_dominates {K : Type} (R : K → K → Prop) (hrefl : ∀ a, R a a) :
    ∀ (l : List K) (k : K), l.Pairwise R → l.getLast? = some k → k ∈ l ∧ ∀ x ∈ l, R x k := by
  intro l
  induction l with
  | nil => intro k _ h; simp at h
  | cons a l ih =>
    intro k hp hl
    rw [List.pairwise_cons] at hp
    cases l with
    | nil =>
      simp only [List.getLast?_singleton, Option.some.injEq] at hl
      subst hl
      exact ⟨by simp, fun x hx => by simp at hx; subst hx; exact hrefl _⟩
    | cons b l' =>
      have hl' : (b :: l').getLast? = some k := by simpa [List.getLast?_cons_cons] using hl
      obtain ⟨hk, hdom⟩ := ih k hp.2 hl'
      refine ⟨List.mem_cons_of_mem _ hk, ?_⟩
      intro x hx
      rcases List.mem_cons.mp hx with rfl | hx'
      · exact hp.1 k hk
      · exact hdom x hx'

section
variable {L G α ρ : Type} [DecidableEq L] [DecidableEq G]

/-- `k` is the greatest group key (w.r.t. the group-by order `le`) among the keys of the records named `name` -/
def IsLastKey (le : (L × Option G) → (L × Option G) → Bool) (useGrp : Bool) (recs : List (Rec L G α)) (name : L)
    (k : L × Option G) : Prop :=
  (∃ r ∈ recs, r.taxa = name ∧ keyOf useGrp r = some k) ∧
  ∀ r ∈ recs, r.taxa = name → ∀ k', keyOf useGrp r = some k' → le k' k = true

/-- the greatest key of a name is unique (antisymmetric order) -/
theorem IsLastKey.unique (le : (L × Option G) → (L × Option G) → Bool)
    (hanti : ∀ a b, le a b = true → le b a = true → a = b) (useGrp : Bool) (recs : List (Rec L G α)) (name : L)
    (k k' : L × Option G) (h : IsLastKey le useGrp recs name k) (h' : IsLastKey le useGrp recs name k') : k = k' := by
  obtain ⟨⟨r, hr, hn, hk⟩, hmax⟩ := h
  obtain ⟨⟨r', hr', hn', hk'⟩, hmax'⟩ := h'
  exact hanti _ _ (hmax' r hr hn k hk) (hmax r' hr' hn' k' hk')

/-- **The hash join, for every table.**  `dict(zip(agg_df_taxa, range(...)))[name]` keeps the LAST aggregated row carrying
    the name; the aggregated rows are sorted by key; hence: no record of that name ⇒ `KeyError` (row stays NaN); otherwise
    the joined row is the aggregate `f` of the records whose key is the greatest key of that name — and such a key exists. -/
theorem lookupLast_aggWith_full (f : List (List α) → ρ) (le : (L × Option G) → (L × Option G) → Bool)
    (htot : ∀ a b, le a b = true ∨ le b a = true)
    (htrans : ∀ a b c, le a b = true → le b c = true → le a c = true)
    (useGrp : Bool) (recs : List (Rec L G α)) (name : L) :
    ((∀ r ∈ recs, r.taxa ≠ name) → lookupLast (aggWith f le useGrp recs) name = none) ∧
    ((∃ r ∈ recs, r.taxa = name) → ∃ k, IsLastKey le useGrp recs name k ∧
      lookupLast (aggWith f le useGrp recs) name = some (f (groupRows useGrp recs k))) := by
  constructor
  · intro hno
    apply lookupLast_aggWith_none
    intro r hr hn
    exact absurd hn (hno r hr)
  · rintro ⟨r₀, hr₀, hn₀⟩
    unfold lookupLast
    rw [aggWith_filter_name]
    set ks := (aggKeys le useGrp recs).filter (fun k => k.1 = name) with hks
    have hsorted : ks.Pairwise (fun x y => le x y = true) :=
      (stableSort_pairwise le htot htrans _).filter _
    have hk₀ : (r₀.taxa, if useGrp then r₀.grp else none) ∈ ks := by
      rw [hks, List.mem_filter]
      refine ⟨(mem_aggKeys le useGrp recs _).mpr ⟨r₀, hr₀, rfl⟩, ?_⟩
      simpa using hn₀
    have hne : ks ≠ [] := List.ne_nil_of_mem hk₀
    obtain ⟨k, hk⟩ : ∃ k, ks.getLast? = some k := by
      cases h : ks.getLast? with
      | none => exact absurd (List.getLast?_eq_none_iff.mp h) hne
      | some k => exact ⟨k, rfl⟩
    have hrefl : ∀ a : L × Option G, le a a = true := fun a => (htot a a).elim id id
    obtain ⟨hkin, hdom⟩ := getLast?_dominates (fun x y => le x y = true) hrefl ks k hsorted hk
    refine ⟨k, ⟨?_, ?_⟩, ?_⟩
    · rw [hks, List.mem_filter] at hkin
      obtain ⟨r, hr, hrk⟩ := (mem_aggKeys le useGrp recs k).mp hkin.1
      refine ⟨r, hr, ?_, hrk⟩
      have h1 := keyOf_fst useGrp r k hrk
      have h2 : k.1 = name := by simpa using hkin.2
      exact h1.symm.trans h2
    · intro r hr hn k' hk'
      apply hdom
      rw [hks, List.mem_filter]
      refine ⟨(mem_aggKeys le useGrp recs k').mpr ⟨r, hr, hk'⟩, ?_⟩
      have := keyOf_fst useGrp r k' hk'
      simpa [this] using hn
    · rw [List.getLast?_map, hk]
      rfl

/-- when the records of a name share one key, the group of the last key is all the records of that name -/
theorem groupRows_of_lastKey (useGrp : Bool) (recs : List (Rec L G α)) (name : L) (k : L × Option G)
    (hk1 : k.1 = name) (hall : ∀ r ∈ recs, r.taxa = name → keyOf useGrp r = some k) :
    groupRows useGrp recs k = (recs.filter (fun r => r.taxa = name)).map (·.vals) := by
  unfold groupRows
  congr 1
  apply List.filter_congr
  intro r hr
  by_cases hn : r.taxa = name
  · simp [hn, hall r hr hn]
  · have : keyOf useGrp r ≠ some k := by
      intro h
      exact hn ((keyOf_fst useGrp r k h).symm.trans hk1)
    simp [hn, this]

end

end Pheno
