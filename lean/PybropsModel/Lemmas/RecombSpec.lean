/-
Helper lemmas for C02: the Spec oracle (`specRow`) against the model's phases; the law of the parity
of the crossovers on an arbitrary set of intervals.
-/
import PybropsModel.Lemmas.RecombLaw
set_option autoImplicit false
set_option linter.unusedSectionVars false

namespace Recomb

theorem toggles_phasesFrom (ph : Bool) (m : List Bool) : toggles ph (phasesFrom ph m) = m := by
  induction m generalizing ph with
  | nil => rfl
  | cons b bs ih =>
    simp only [phasesFrom, toggles, ih]
    cases ph <;> cases b <;> rfl

theorem phasesFrom_toggles (ph : Bool) (l : List Bool) : phasesFrom ph (toggles ph l) = l := by
  induction l generalizing ph with
  | nil => rfl
  | cons p ps ih =>
    simp only [toggles, phasesFrom]
    have : xor ph (xor ph p) = p := by cases ph <;> cases p <;> rfl
    rw [this, ih]

theorem toggles_length (ph : Bool) (l : List Bool) : (toggles ph l).length = l.length := by
  induction l generalizing ph with
  | nil => rfl
  | cons p ps ih => simp [toggles, ih]

section cell
variable {β : Type} [LinearOrder β] [Zero β]

theorem specCell_model (r x : β) : specCell (decide (r < x)) r x = true := by
  unfold specCell
  by_cases h1 : r < x
  · simp [h1]
  · by_cases h2 : x < r
    · simp [h1, h2]
    · simp [h1, h2]

theorem specCell_no_tie (t : Bool) (r x : β) (hne : r ≠ x) :
    specCell t r x = true ↔ t = decide (r < x) := by
  unfold specCell
  by_cases h1 : r < x
  · simp [h1]
  · have h2 : x < r := lt_of_le_of_ne (not_lt.mp h1) (Ne.symm hne)
    simp [h1, h2]

theorem all_specCell_model (r xo : List β) :
    (List.zip (xoMask r xo) (List.zip r xo)).all (fun t => specCell t.1 t.2.1 t.2.2) = true := by
  induction r generalizing xo with
  | nil => cases xo <;> simp [xoMask]
  | cons a r ih =>
    cases xo with
    | nil => simp [xoMask]
    | cons x xo =>
      simp only [xoMask, List.zip_cons_cons, List.all_cons, Bool.and_eq_true]
      exact ⟨specCell_model a x, ih xo⟩

theorem all_specCell_no_tie (m : List Bool) (r xo : List β) (hm : m.length = xo.length)
    (hr : r.length = xo.length) (hne : ∀ j (h1 : j < r.length) (h2 : j < xo.length), r[j] ≠ xo[j])
    (h : (List.zip m (List.zip r xo)).all (fun t => specCell t.1 t.2.1 t.2.2) = true) :
    m = xoMask r xo := by
  induction r generalizing xo m with
  | nil =>
    cases xo with
    | nil => cases m with
      | nil => rfl
      | cons _ _ => simp at hm
    | cons _ _ => simp at hr
  | cons a r ih =>
    cases xo with
    | nil => simp at hr
    | cons x xo =>
      cases m with
      | nil => simp at hm
      | cons t m =>
        simp only [List.zip_cons_cons, List.all_cons, Bool.and_eq_true] at h
        have h0 := hne 0 (by simp) (by simp)
        simp only [List.getElem_cons_zero] at h0
        have ht := (specCell_no_tie t a x h0).mp h.1
        have := ih m xo (by simpa using hm) (by simpa using hr)
          (fun j h1 h2 => by
            have := hne (j + 1) (by simpa using h1) (by simpa using h2)
            simpa using this) h.2
        simp only [xoMask, ht, this]

end cell

section parity
variable {α : Type} [Field α] [CharZero α]

/-- law of the parity of the crossovers on an arbitrary set `K` of intervals -/
theorem E_parityOn (xs : List α) (K : List Bool) :
    E xs (fun b => ind (parityOn K b)) = (1 - prodDOn K xs) / 2 := by
  induction xs generalizing K with
  | nil => cases K <;> simp [E, parityOn, prodDOn, ind]
  | cons x xs ih =>
    cases K with
    | nil => simp [E, parityOn, prodDOn, ind, E_const]
    | cons k K =>
      cases k
      · simp only [E, parityOn, Bool.false_and, Bool.false_bne, ih, prodDOn, Bool.false_eq_true, if_false]
        ring
      · simp only [E, parityOn, Bool.true_and, Bool.false_bne, Bool.true_bne, ind_not, E_sub, E_const, ih,
          prodDOn, if_true, dfac]
        ring

end parity

section bounds
variable {α : Type} [Field α] [LinearOrder α] [IsStrictOrderedRing α]

theorem prodD_mem_unit (l : List α) (h : ∀ x ∈ l, 0 ≤ x ∧ x ≤ 1 / 2) : 0 ≤ prodD l ∧ prodD l ≤ 1 := by
  induction l with
  | nil => simp [prodD]
  | cons x l ih =>
    have hx := h x (List.mem_cons_self ..)
    obtain ⟨h0, h1⟩ := ih (fun y hy => h y (List.mem_cons_of_mem _ hy))
    have hd0 : 0 ≤ dfac x := by unfold dfac; linarith [hx.2]
    have hd1 : dfac x ≤ 1 := by unfold dfac; linarith [hx.1]
    simp only [prodD]
    exact ⟨mul_nonneg hd0 h0, by nlinarith⟩

end bounds

end Recomb
