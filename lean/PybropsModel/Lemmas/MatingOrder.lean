/-
C01: the row order of `mate()` for ALL counter values.  `group_taxa()` sorts on (family, name-string);
names are distinct (`str(i).zfill(7)` is injective), so the keys are distinct and the result is the
unique strictly increasing arrangement of the generated (family, name) pairs.
-/
import Mathlib.Tactic
import PybropsModel.Lemmas.MatingSpec
set_option autoImplicit false
set_option linter.unusedSectionVars false

namespace Mating
open Meiosis
variable {α ρ : Type}

/-- with enough fuel `ndigits` really bounds the number: `n < 10 ^ ndigits fuel n` -/
theorem ndigits_spec : ∀ (fuel n : Nat), n ≤ fuel → n < 10 ^ ndigits fuel n := by
  intro fuel
  induction fuel with
  | zero => intro n h; have : n = 0 := by omega
            subst this; simp [ndigits]
  | succ f ih =>
    intro n h
    simp only [ndigits]
    split
    · rename_i h10; simpa using h10
    · rename_i h10
      have h1 : n / 10 ≤ f := by omega
      have h2 := ih (n / 10) h1
      rw [Nat.add_comm, pow_succ]
      omega

theorem fixedW_length : ∀ (w n : Nat), (fixedW w n).length = w := by
  intro w
  induction w with
  | zero => intro n; rfl
  | succ w ih => intro n; simp [fixedW, ih]

theorem fixedW_inj (w a b : Nat) (ha : a < 10 ^ w) (hb : b < 10 ^ w) (h : fixedW w a = fixedW w b) : a = b := by
  rcases Nat.lt_trichotomy a b with hlt | heq | hgt
  · have := fixedW_lt w a b (by rw [Nat.mod_eq_of_lt ha, Nat.mod_eq_of_lt hb]; exact hlt)
    rw [h] at this
    exact absurd this (lt_irrefl _)
  · exact heq
  · have := fixedW_lt w b a (by rw [Nat.mod_eq_of_lt ha, Nat.mod_eq_of_lt hb]; exact hgt)
    rw [h] at this
    exact absurd this (lt_irrefl _)

theorem lt_pow_zfillWidth (a : Nat) : a < 10 ^ (max 7 (ndigits a a)) :=
  lt_of_lt_of_le (ndigits_spec a a (le_refl a)) (Nat.pow_le_pow_right (by norm_num) (le_max_right _ _))

/-- `str(i).zfill(7)` is injective -/
theorem zfill7_inj {a b : Nat} (h : zfill7 a = zfill7 b) : a = b := by
  unfold zfill7 at h
  have hl := congrArg List.length h
  rw [fixedW_length, fixedW_length] at hl
  rw [← hl] at h
  exact fixedW_inj _ a b (lt_pow_zfillWidth a) (by rw [hl]; exact lt_pow_zfillWidth b) h

theorem name_inj (pre : List Nat) {a b : Nat} (h : name pre a = name pre b) : a = b :=
  zfill7_inj (List.append_cancel_left h)

/-- strict order on the sort keys (family, name-string) -/
def keyLt (a b : Nat × List Nat) : Prop := a.1 < b.1 ∨ (a.1 = b.1 ∧ a.2 < b.2)

def rowKey (r : Row α) : Nat × List Nat := (r.grp, r.name)

theorem keyLt_asymm {a b : Nat × List Nat} (h1 : keyLt a b) (h2 : keyLt b a) : False := by
  rcases h1 with h1 | ⟨e1, h1⟩ <;> rcases h2 with h2 | ⟨e2, h2⟩
  · omega
  · omega
  · omega
  · exact lt_asymm h1 h2

theorem names_nodup (pre : List Nat) (pc n : Nat) : ((Np.arange pc n).map (name pre)).Nodup := by
  rw [Np.arange_eq_map, List.map_map]
  refine (List.nodup_range (n := n)).map ?_
  intro i j h
  have := name_inj pre h
  simp only at this
  omega

theorem genRows_map_key (P : Proto) (prog : Pop α) (pc : Nat) (grp : List Nat) (h : grp.length = prog.length) :
    (genRows P prog pc grp).map rowKey = List.zip grp ((Np.arange pc prog.length).map (name P.pre)) := by
  apply List.ext_getElem
  · simp [genRows_length P prog pc grp h, h, Np.arange]
  · intro i h1 h2
    rw [List.getElem_map, genRows_getElem P prog pc grp h]
    simp [rowKey, Np.arange, Nat.add_comm]

section facts
variable [LT ρ] [DecidableLT ρ]
variable {P : Proto} {pop : Pop α} {xc : List (List Nat)} {nmating nprogeny : Cnt} {nself : Nat}
    {xo : List ρ} {pc fc : Nat} {draws : List (DrawMat ρ)} {out : Out α}

/-- **Row order, all counters.**  The (family, name) keys of the result are a permutation of the generated
    pairs, strictly increasing in (family, then name as a string), and that determines them uniquely. -/
theorem mate_order (h : mate P pop xc nmating nprogeny nself xo pc fc draws = .ok out) :
    ∃ nm np, nmating.expand xc.length = .ok nm ∧ nprogeny.expand xc.length = .ok np ∧
      let per := List.zipWith (· * ·) nm np
      let gen := List.zip (Np.repeatEach per (Np.arange fc xc.length)) ((Np.arange pc per.sum).map (name P.pre))
      (out.rows.map rowKey).Perm gen ∧ (out.rows.map rowKey).Pairwise keyLt ∧
      ∀ l : List (Nat × List Nat), l.Perm gen → l.Pairwise keyLt → l = out.rows.map rowKey := by
  obtain ⟨nm, np, prog, _, hnm, hnp, _, hlen, hrows, _, _⟩ := mate_inv h
  refine ⟨nm, np, hnm, hnp, ?_⟩
  have lnm := Cnt.expand_length hnm
  have lnp := Cnt.expand_length hnp
  rw [families_eq] at hlen hrows
  have hcnt : prog.length = (List.zipWith (· * ·) nm np).sum := by
    rw [← hlen, Np.length_repeatEach _ _ (by simp [lnm, lnp])]
  have hperm : (out.rows.map rowKey).Perm
      (List.zip (Np.repeatEach (List.zipWith (· * ·) nm np) (Np.arange fc xc.length))
        ((Np.arange pc (List.zipWith (· * ·) nm np).sum).map (name P.pre))) := by
    rw [hrows, ← hcnt, ← genRows_map_key P prog pc _ hlen]
    exact (groupTaxa_perm _).map rowKey
  have hnd : ((out.rows.map rowKey).map Prod.snd).Nodup := by
    have := (hperm.map Prod.snd).nodup_iff.mpr (by
      rw [List.map_snd_zip]
      · exact names_nodup P.pre pc _
      · rw [List.length_map, ← hcnt, hlen]; simp [Np.arange])
    exact this
  have hsorted : (out.rows.map rowKey).Pairwise keyLt := by
    rw [hrows] at hnd ⊢
    have hp := groupTaxa_pairwise (genRows P prog pc (Np.repeatEach (List.zipWith (· * ·) nm np) (Np.arange fc xc.length)))
    rw [List.pairwise_map]
    unfold List.Nodup at hnd
    rw [List.map_map, List.pairwise_map] at hnd
    refine (hp.and hnd).imp ?_
    intro a b hab
    obtain ⟨hle, hne⟩ := hab
    simp only [rowLe, Bool.or_eq_true, decide_eq_true_eq, Bool.and_eq_true, beq_iff_eq,
      Bool.not_eq_true', decide_eq_false_iff_not] at hle
    simp only [rowKey] at hne ⊢
    rcases hle with hlt | ⟨he, hn⟩
    · exact Or.inl hlt
    · refine Or.inr ⟨he, ?_⟩
      rcases lt_trichotomy a.name b.name with h1 | h1 | h1
      · exact h1
      · exact absurd h1 hne
      · exact absurd h1 hn
  refine ⟨hperm, hsorted, ?_⟩
  intro l hl hs
  exact List.Perm.eq_of_pairwise (le := keyLt) (fun a b _ _ h1 h2 => (keyLt_asymm h1 h2).elim) hs hsorted
    (hl.trans hperm.symm)

end facts

end Mating
