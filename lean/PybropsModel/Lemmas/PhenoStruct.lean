/-
Helper lemmas for C14, part 10: the additive structure of the records of one (environment, replicate) cell —
`record − true value = environment draw + replicate draw + error draw`, entry by entry — and what it implies when a
component's draws vanish (variance zero): the counterpart in the model of the harness' `noise structure` oracle.
-/
import PybropsModel.Lemmas.PhenoVar
import PybropsModel.Lemmas.PhenoSpecSound
set_option autoImplicit false
set_option linter.unusedSectionVars false

namespace Pheno

section
variable {L G α : Type} [Field α] [CharZero α]

/-- **Residuals of one cell.**  In cell `(e, r)` of the closed form the residuals `record − true value` of trait `j`, taxon by
    taxon in genotype order, are the error draws of that cell shifted by the environment draw plus the replicate draw. -/
theorem cellResid_closed_form (gv : List (List α)) (labs : List (L × Option G)) (t : Nat) (ds : List (EnvDraw α))
    (hlab : labs.length = gv.length) (hgv : ∀ g ∈ gv, g.length = t) (hsh : DrawsShaped gv.length t ds)
    (j : Nat) (hj : j < t) (e : Nat) (he : e < ds.length) (r : Nat) (hr : r < ds[e].reps.length) :
    cellResid (envBlocks gv labs 0 ds) gv j e r =
      (errCol ds[e].reps[r] j).map (fun x => (ds[e].env.getD j 0 + ds[e].reps[r].rep.getD j 0) + x) := by
  obtain ⟨henv, hreps⟩ := hsh _ (List.getElem_mem he)
  obtain ⟨hrep, herr, herr'⟩ := hreps _ (List.getElem_mem hr)
  unfold cellResid errCol
  rw [envBlocks_cell gv labs ds e he r hr, block_vals _ _ _ _ _ _ _ hlab]
  exact resid_of_block gv _ _ _ t j hj hgv henv hrep herr herr'

/-- a cell whose error draws of trait `j` all vanish (`var_err[j] = 0`): every taxon has the same residual, the
    environment draw plus the replicate draw -/
theorem cellResid_of_zero_error (gv : List (List α)) (labs : List (L × Option G)) (t : Nat) (ds : List (EnvDraw α))
    (hlab : labs.length = gv.length) (hgv : ∀ g ∈ gv, g.length = t) (hsh : DrawsShaped gv.length t ds)
    (j : Nat) (hj : j < t) (e : Nat) (he : e < ds.length) (r : Nat) (hr : r < ds[e].reps.length)
    (hz : ∀ x ∈ errCol ds[e].reps[r] j, x = 0) :
    cellResid (envBlocks gv labs 0 ds) gv j e r =
      List.replicate gv.length (ds[e].env.getD j 0 + ds[e].reps[r].rep.getD j 0) := by
  rw [cellResid_closed_form gv labs t ds hlab hgv hsh j hj e he r hr]
  obtain ⟨_, hreps⟩ := hsh _ (List.getElem_mem he)
  obtain ⟨_, herr, _⟩ := hreps _ (List.getElem_mem hr)
  apply List.ext_getElem
  · simp [errCol, herr]
  · intro i h1 h2
    simp only [List.getElem_map, List.getElem_replicate]
    have : (errCol ds[e].reps[r] j)[i]'(by simpa using h1) = 0 := hz _ (List.getElem_mem _)
    rw [this, add_zero]

end

/-! ### soundness of the noise-structure oracle on the model's own frame -/

/-- the residual cells (trait `j`) of the model's closed form, in the shape the oracle reads -/
def modelCells {L G : Type} (gv : List (List Rat)) (labs : List (L × Option G)) (ds : List (EnvDraw Rat)) (j : Nat) :
    List ResCell :=
  (List.range ds.length).flatMap (fun e =>
    (List.range ((ds[e]?.map (fun d => d.reps.length)).getD 0)).map (fun r =>
      { env := e + 1, rep := r + 1, res := cellResid (envBlocks gv labs 0 ds) gv j e r }))

theorem mem_modelCells {L G : Type} (gv : List (List Rat)) (labs : List (L × Option G)) (ds : List (EnvDraw Rat)) (j : Nat)
    (c : ResCell) (hc : c ∈ modelCells gv labs ds j) :
    ∃ e, ∃ (_ : e < ds.length), ∃ r, ∃ (_ : r < ds[e].reps.length),
      c.env = e + 1 ∧ c.rep = r + 1 ∧ c.res = cellResid (envBlocks gv labs 0 ds) gv j e r := by
  unfold modelCells at hc
  simp only [List.mem_flatMap, List.mem_range, List.mem_map] at hc
  obtain ⟨e, he, r, hr, rfl⟩ := hc
  rw [List.getElem?_eq_getElem he] at hr
  exact ⟨e, he, r, by simpa using hr, rfl, rfl, rfl⟩

theorem nearConst_replicate (tol : Rat) (htol : 0 ≤ tol) (n : Nat) (k : Rat) : nearConst tol (List.replicate n k) = true := by
  cases n with
  | zero => rfl
  | succ n =>
    simp only [List.replicate_succ, nearConst, List.all_eq_true]
    intro x hx
    rw [List.eq_of_mem_replicate hx]
    exact within_self tol k htol

/-- **spec_sound, noise structure (absent components)**: on the model's own frame, for every layout and every stream in which
    the draws of a zero-variance component vanish, the oracle accepts (any tolerance `≥ 0`; `genuine = false`: the
    distinctness half is a statement about the generator, see `gaussian_draws_pairwise_distinct`). -/
theorem specNoiseTrait_sound {L G : Type} (gv : List (List Rat)) (labs : List (L × Option G)) (t : Nat)
    (ds : List (EnvDraw Rat)) (hlab : labs.length = gv.length) (hgv : ∀ g ∈ gv, g.length = t)
    (hsh : DrawsShaped gv.length t ds) (j : Nat) (hj : j < t) (tol : Rat) (htol : 0 ≤ tol) (ve vr vx : Rat)
    (hx : vx = 0 → ∀ e (he : e < ds.length) r (hr : r < ds[e].reps.length), ∀ x ∈ errCol ds[e].reps[r] j, x = 0)
    (hr : vr = 0 → ∀ e (he : e < ds.length) r (hr : r < ds[e].reps.length), ds[e].reps[r].rep.getD j 0 = 0)
    (he : ve = 0 → ∀ e (he : e < ds.length), ds[e].env.getD j 0 = 0) :
    specNoiseTrait tol ve vr vx false (modelCells gv labs ds j) = true := by
  unfold specNoiseTrait
  by_cases hvx : vx = 0
  · rw [if_pos hvx]
    -- every cell: all taxa share `environment draw + replicate draw`
    have hcell : ∀ c ∈ modelCells gv labs ds j, ∃ e, ∃ (he' : e < ds.length), ∃ r, ∃ (hr' : r < ds[e].reps.length),
        c.env = e + 1 ∧ c.res = List.replicate gv.length (ds[e].env.getD j 0 + ds[e].reps[r].rep.getD j 0) := by
      intro c hc
      obtain ⟨e, he', r, hr', h1, _, h3⟩ := mem_modelCells gv labs ds j c hc
      exact ⟨e, he', r, hr', h1, by
        rw [h3]; exact cellResid_of_zero_error gv labs t ds hlab hgv hsh j hj e he' r hr' (hx hvx e he' r hr')⟩
    simp only [Bool.and_eq_true, List.all_eq_true]
    refine ⟨?_, ?_⟩
    · intro c hc
      obtain ⟨e, _, r, _, _, h2⟩ := hcell c hc
      rw [h2]
      exact nearConst_replicate tol htol _ _
    · by_cases hvr : vr = 0
      · rw [if_pos hvr]
        simp only [Bool.and_eq_true, List.all_eq_true, Bool.or_eq_true, bne_iff_ne, ne_eq]
        refine ⟨?_, ?_⟩
        · intro c hc c' hc'
          by_cases henv : c.env = c'.env
          · right
            obtain ⟨e, he1, r, hr1, h1, h2⟩ := hcell c hc
            obtain ⟨e', he2, r', hr2, h1', h2'⟩ := hcell c' hc'
            have : e = e' := by omega
            subst this
            unfold cellConst
            rw [h2, h2', hr hvr e he1 r hr1, hr hvr e he1 r' hr2]
            exact within_self tol _ htol
          · left; exact henv
        · by_cases hve : ve = 0
          · rw [if_pos hve]
            simp only [List.all_eq_true]
            intro c hc x hxm
            obtain ⟨e, he1, r, hr1, _, h2⟩ := hcell c hc
            rw [h2] at hxm
            rw [List.eq_of_mem_replicate hxm, hr hvr e he1 r hr1, he hve e he1, add_zero]
            exact within_self tol 0 htol
          · rw [if_neg hve]; rfl
      · rw [if_neg hvr]; rfl
  · rw [if_neg hvx]; rfl

end Pheno
