/-
Helper lemmas for C17, stochastic universal sampling under rounding.  The guarded pointer loop only sees the
outcomes of comparisons of entries before the guard position with pointers (`walkG_congr`, `walkG_map`), so a run
on computed values equals the exact run whenever those outcomes agree (`walkG_perturbed`); they agree when every
computed value is within `ε` of its exact value and no exact pointer is within `2ε` of an exact cumulative
boundary before the guard (`ptrCmp_of_close`, `run_rounded`).
-/
import PybropsModel.Lemmas.SamplingSusSafe
set_option autoImplicit false
set_option linter.unusedSectionVars false
namespace Sampling
section congr
variable {α : Type}

theorem advanceG_drop' (cond : α → Bool) (s : List (α × Nat)) (rem : Nat) :
    ∃ m, m ≤ rem ∧ advanceG cond s rem = (s.drop m, rem - m) := by
  induction s generalizing rem with
  | nil => exact ⟨0, Nat.zero_le _, by cases rem <;> simp [advanceG]⟩
  | cons c s ih =>
    cases rem with
    | zero => exact ⟨0, le_refl _, by unfold advanceG; rfl⟩
    | succ r =>
      by_cases hc : cond c.1 = true
      · obtain ⟨m, hm, he⟩ := ih r
        refine ⟨m + 1, by omega, ?_⟩
        unfold advanceG
        simp only [hc, if_true, he, List.drop_succ_cons]
        congr 1
        omega
      · refine ⟨0, Nat.zero_le _, ?_⟩
        unfold advanceG
        simp [hc]

/-- the guarded advance only consults the entries before the guard position -/
theorem advanceG_congr (cond1 cond2 : α → Bool) (s : List (α × Nat)) (rem : Nat)
    (h : ∀ c ∈ s.take rem, cond1 c.1 = cond2 c.1) : advanceG cond1 s rem = advanceG cond2 s rem := by
  induction s generalizing rem with
  | nil => cases rem <;> simp [advanceG]
  | cons c s ih =>
    cases rem with
    | zero => simp [advanceG]
    | succ r =>
      have hc : cond1 c.1 = cond2 c.1 := h c (by simp)
      unfold advanceG
      rw [hc, ih r (fun x hx => h x (by simp [List.take_succ_cons, hx]))]

/-- two comparisons that agree on the entries before the guard position give the same selections -/
theorem walkG_congr (cnd1 cnd2 : α → α → Bool) (s : List (α × Nat)) (rem : Nat) (ptrs : List α)
    (h : ∀ c ∈ s.take rem, ∀ t ∈ ptrs, cnd1 c.1 t = cnd2 c.1 t) :
    walkG cnd1 s rem ptrs = walkG cnd2 s rem ptrs := by
  induction ptrs generalizing s rem with
  | nil => simp [walkG]
  | cons t ts ih =>
    unfold walkG
    rw [advanceG_congr (fun c => cnd1 c t) (fun c => cnd2 c t) s rem
      (fun c hc => h c hc t List.mem_cons_self)]
    obtain ⟨m, hm, he⟩ := advanceG_drop' (fun c => cnd2 c t) s rem
    rw [he]
    cases hsd : s.drop m with
    | nil => rfl
    | cons c s' =>
      simp only []
      rw [ih (c :: s') (rem - m) (by
        intro x hx t' ht'
        apply h x _ t' (List.mem_cons_of_mem _ ht')
        rw [← hsd] at hx
        have hsplit : s.take rem = s.take m ++ (s.drop m).take (rem - m) := by
          conv_lhs => rw [show rem = m + (rem - m) by omega]
          exact List.take_add
        rw [hsplit]
        exact List.mem_append_right _ hx)]

end congr

section map
variable {α : Type}

theorem advanceG_map (f : Nat → α) (cond : α → Bool) (s : List (Nat × Nat)) (rem : Nat) :
    advanceG cond (s.map (fun c => (f c.1, c.2))) rem
      = (((advanceG (fun a => cond (f a)) s rem).1).map (fun c => (f c.1, c.2)),
         (advanceG (fun a => cond (f a)) s rem).2) := by
  induction s generalizing rem with
  | nil => cases rem <;> simp [advanceG]
  | cons c s ih =>
    cases rem with
    | zero => simp [advanceG]
    | succ r =>
      simp only [List.map_cons]
      unfold advanceG
      by_cases hc : cond (f c.1) = true
      · simp only [hc, if_true]; exact ih r
      · simp [hc]

/-- the loop only sees comparison outcomes: values can be replaced by their positions -/
theorem walkG_map (f g : Nat → α) (cnd : α → α → Bool) (s : List (Nat × Nat)) (rem : Nat) (ptrs : List Nat) :
    walkG cnd (s.map (fun c => (f c.1, c.2))) rem (ptrs.map g)
      = walkG (fun a b => cnd (f a) (g b)) s rem ptrs := by
  induction ptrs generalizing s rem with
  | nil => simp [walkG]
  | cons t ts ih =>
    simp only [List.map_cons]
    unfold walkG
    rw [advanceG_map f (fun c => cnd c (g t)) s rem]
    cases hadv : advanceG (fun a => cnd (f a) (g t)) s rem with
    | mk s1 rem1 =>
      cases s1 with
      | nil => simp
      | cons c s' =>
        simp only [List.map_cons]
        have := ih (c :: s') rem1
        simp only [List.map_cons] at this
        rw [this]

theorem zip_positions (cs : List α) (sigma : List Nat) (d : α) (hl : cs.length = sigma.length) :
    ((List.range sigma.length).zip sigma).map (fun c => (cs.getD c.1 d, c.2)) = cs.zip sigma := by
  apply List.ext_getElem
  · simp [hl]
  · intro i h1 h2
    simp only [List.length_map, List.length_zip, List.length_range, min_self] at h1
    simp [h1, hl]

theorem map_positions (ptrs : List α) (d : α) : (List.range ptrs.length).map (fun j => ptrs.getD j d) = ptrs := by
  apply List.ext_getElem
  · simp
  · intro i h1 h2
    simp only [List.length_map, List.length_range] at h1
    simp [h1]

/-- **perturbation lemma**: a run on other values (computed cumulative sums and pointers, other comparison)
    selects the same indices as the reference run whenever every comparison of an entry before the guard
    position with a pointer comes out the same -/
theorem walkG_perturbed (cnd cnd' : α → α → Bool) (sigma : List Nat) (cs cs' ptrs ptrs' : List α) (rem : Nat)
    (d : α) (hcs : cs.length = sigma.length) (hcs' : cs'.length = sigma.length)
    (hp : ptrs'.length = ptrs.length)
    (hagree : ∀ r < rem, r < sigma.length → ∀ j < ptrs.length,
      cnd' (cs'.getD r d) (ptrs'.getD j d) = cnd (cs.getD r d) (ptrs.getD j d)) :
    walkG cnd' (cs'.zip sigma) rem ptrs' = walkG cnd (cs.zip sigma) rem ptrs := by
  rw [← zip_positions cs sigma d hcs, ← zip_positions cs' sigma d hcs', ← map_positions ptrs d,
    ← map_positions ptrs' d,
    walkG_map (fun r => cs'.getD r d) (fun j => ptrs'.getD j d) cnd',
    walkG_map (fun r => cs.getD r d) (fun j => ptrs.getD j d) cnd, hp]
  apply walkG_congr
  intro c hc t ht
  obtain ⟨i, hi, rfl⟩ := List.mem_iff_getElem.mp hc
  simp only [List.length_take, List.length_zip, List.length_range, min_self, lt_min_iff] at hi
  have hc1 : (((List.range sigma.length).zip sigma).take rem)[i].1 = i := by
    simp [List.getElem_take]
  rw [hc1]
  exact hagree i hi.1 hi.2 t (List.mem_range.mp ht)

end map
section rounded
variable {α : Type} [Field α] [LinearOrder α] [IsStrictOrderedRing α]

/-- a comparison of two computed values comes out like the comparison of the exact values when each is within
    `ε` of its exact value and the exact values are more than `2ε` apart -/
theorem ptrCmp_of_close (lo : Bool) (c c' t t' ε : α) (hc : |c' - c| ≤ ε) (ht : |t' - t| ≤ ε)
    (hsep : 2 * ε < |t - c|) : ptrCmp lo c' t' = ptrCmp lo c t := by
  have hc1 := abs_le.mp hc
  have ht1 := abs_le.mp ht
  unfold ptrCmp
  rcases lt_abs.mp hsep with h | h
  · -- c well below t
    have h1 : c' < t' := by linarith
    have h2 : c < t := by linarith [abs_nonneg (c' - c)]
    cases lo <;> simp [h1, h2, h1.le, h2.le]
  · have h1 : t' < c' := by linarith
    have h2 : t < c := by linarith [abs_nonneg (c' - c)]
    cases lo <;> simp [not_lt.mpr h1.le, not_lt.mpr h2.le, not_le.mpr h1, not_le.mpr h2]

/-- **rounding contract**: a run on computed cumulative sums `cs'` and pointers `ptrs'` (any rounding, any
    summation order, any interval convention `lo'` that is right-open when the offset is 0) is a run of the
    exact loop, provided every computed value is within `ε` of its exact value and no exact pointer is within
    `2ε` of an exact cumulative boundary before the guard position -/
theorem run_rounded (p : List α) (k : Nat) (sigma : List Nat) (o : α) (lo' : Bool)
    (hp : ∀ x ∈ p, 0 ≤ x) (hT : 0 < Np.sum p)
    (h1 : isPerm sigma p.length = true) (h2 : nonIncreasing (sigma.map (fun i => p.getD i 0)) = true)
    (hk : k ≠ 0) (ho : 0 ≤ o) (hod : o < Np.sum p / (k : α))
    (ε : α) (cs' ptrs' : List α) (hcs' : cs'.length = sigma.length) (hptrs' : ptrs'.length = k)
    (hclose_c : ∀ r < (p.filter (fun x => decide (0 < x) || decide (x < 0))).length - 1, r < sigma.length →
      |cs'.getD r 0 - (Np.cumsum (sigma.map (fun i => p.getD i 0))).getD r 0| ≤ ε)
    (hclose_t : ∀ j < k, |ptrs'.getD j 0 - (o + (j : α) * (Np.sum p / (k : α)))| ≤ ε)
    (hsep : ∀ r < (p.filter (fun x => decide (0 < x) || decide (x < 0))).length - 1, r < sigma.length →
      ∀ j < k, 2 * ε < |(o + (j : α) * (Np.sum p / (k : α)))
                        - (Np.cumsum (sigma.map (fun i => p.getD i 0))).getD r 0|) :
    ∃ sel, walkG (ptrCmp lo') (cs'.zip sigma)
        ((p.filter (fun x => decide (0 < x) || decide (x < 0))).length - 1) ptrs' = some sel ∧
      SusRun p k sigma o lo' sel := by
  set w := sigma.map (fun i => p.getD i 0) with hw
  set last := (p.filter (fun x => decide (0 < x) || decide (x < 0))).length - 1 with hlast
  set ptrs := (List.range k).map (fun (j : Nat) => o + (j : α) * (Np.sum p / (k : α))) with hptrs
  obtain ⟨hl, _, _⟩ := guard_total p sigma hp hT h1 h2
  have hcsl : (Np.cumsum w).length = sigma.length := by simp [Np.cumsum, cumsumFrom_length, hw]
  have hzl : ((Np.cumsum w).zip sigma).length = sigma.length := by simp [hcsl]
  obtain ⟨sel, hsel, _, _⟩ := walkG_total (ptrCmp (α := α) lo') ((Np.cumsum w).zip sigma) last ptrs
    (by
      rw [hzl]
      have : w.length = sigma.length := by simp [hw]
      rw [← this]; exact hl)
  have hpl : ptrs.length = k := by simp [hptrs]
  have hget : ∀ j < k, ptrs.getD j 0 = o + (j : α) * (Np.sum p / (k : α)) := by
    intro j hj
    simp [hptrs, hj]
  have heq := walkG_perturbed (ptrCmp (α := α) lo') (ptrCmp lo') sigma (Np.cumsum w) cs' ptrs ptrs' last 0
    hcsl hcs' (by rw [hptrs', hpl]) (by
      intro r hr hrs j hj
      rw [hpl] at hj
      apply ptrCmp_of_close lo' _ _ _ _ ε (hclose_c r hr hrs)
      · rw [hget j hj]; exact hclose_t j hj
      · rw [hget j hj]; exact hsep r hr hrs j hj)
  exact ⟨sel, by rw [heq]; exact hsel, h1, h2, hk, ⟨ho, hod⟩, hsel⟩

end rounded
end Sampling
