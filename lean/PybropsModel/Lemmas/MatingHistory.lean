/-
C01, round 5: histories of `mate()` calls on one protocol object (`Mating.mateSeq`), and the dtype of the family
labels (`Mating.labelsInDtype`): int64 labels are the exact numbers `family_counter + i` while the counter stays below
`2^63`, whatever integer dtype the parents use for THEIR labels.
-/
import Mathlib.Tactic
import PybropsModel.Lemmas.MatingSpec
import PybropsModel.Lemmas.CountProduct
set_option autoImplicit false

namespace Mating
variable {α ρ : Type} [Preorder ρ] [DecidableLT ρ] [Zero ρ]

omit [Zero ρ] in
theorem mateSeq_cons_inv {P : Proto} {pc fc : Nat} {c : Call α ρ} {cs : List (Call α ρ)} {os : List (Out α)}
    (h : mateSeq P pc fc (c :: cs) = .ok os) :
    ∃ o os', os = o :: os' ∧ mate P c.pop c.xc c.nmating c.nprogeny c.nself c.xo pc fc c.draws = .ok o ∧
      mateSeq P o.pc o.fc cs = .ok os' := by
  unfold mateSeq at h
  split at h
  · cases h
  · rename_i o ho
    split at h
    · cases h
    · rename_i os' hos
      cases h
      exact ⟨o, os', rfl, ho, hos⟩

omit [Zero ρ] in
theorem mateSeq_length {P : Proto} : ∀ {cs : List (Call α ρ)} {pc fc : Nat} {os : List (Out α)},
    mateSeq P pc fc cs = .ok os → os.length = cs.length
  | [], _, _, os, h => by unfold mateSeq at h; cases h; rfl
  | c :: cs, pc, fc, os, h => by
    obtain ⟨o, os', rfl, _, hs⟩ := mateSeq_cons_inv h
    simp [mateSeq_length hs]

/-- call `k` of a history is a `mate()` call that starts from the constructor's counters advanced by everything the
    earlier calls produced -/
theorem mateSeq_call {P : Proto} : ∀ {cs : List (Call α ρ)} {pc fc : Nat} {os : List (Out α)},
    mateSeq P pc fc cs = .ok os → ∀ (k : Nat) (c : Call α ρ), cs[k]? = some c →
    ∃ o, os[k]? = some o ∧
      mate P c.pop c.xc c.nmating c.nprogeny c.nself c.xo
        (pc + ((os.take k).map (fun o => o.rows.length)).sum)
        (fc + ((cs.take k).map (fun c => c.xc.length)).sum) c.draws = .ok o
  | [], _, _, _, _, k, c, hk => by simp at hk
  | c0 :: cs, pc, fc, os, h, k, c, hk => by
    obtain ⟨o, os', rfl, ho, hs⟩ := mateSeq_cons_inv h
    cases k with
    | zero =>
      simp only [List.getElem?_cons_zero, Option.some.injEq] at hk
      subst hk
      exact ⟨o, by simp, by simpa using ho⟩
    | succ k =>
      simp only [List.getElem?_cons_succ] at hk
      obtain ⟨o', ho', hm⟩ := mateSeq_call hs k c hk
      obtain ⟨nm, np, _, _, hlen, _, hpc, hfc, _⟩ := mate_labels ho
      refine ⟨o', by simpa using ho', ?_⟩
      have e1 : pc + (((o :: os').take (k + 1)).map (fun o => o.rows.length)).sum
          = o.pc + ((os'.take k).map (fun o => o.rows.length)).sum := by
        simp only [List.take_succ_cons, List.map_cons, List.sum_cons]
        rw [hpc, hlen]; omega
      have e2 : fc + (((c0 :: cs).take (k + 1)).map (fun c => c.xc.length)).sum
          = o.fc + ((cs.take k).map (fun c => c.xc.length)).sum := by
        simp only [List.take_succ_cons, List.map_cons, List.sum_cons]
        rw [hfc]; omega
      rw [e1, e2]
      exact hm

theorem wrapInt_exact (bits : Nat) (signed : Bool) (v : Nat) (h : v < 2 ^ (bits - (if signed then 1 else 0))) :
    wrapInt bits signed v = (v : Int) := by
  have := wrapMul_exact bits signed v 1 (by simpa using h)
  simpa [wrapInt] using this

/-- labels built in a `bits`-wide dtype are the exact numbers while `fc + n` stays within the dtype -/
theorem labelsInDtype_exact (bits : Nat) (signed : Bool) (fc n : Nat)
    (h : fc + n ≤ 2 ^ (bits - (if signed then 1 else 0))) :
    labelsInDtype bits signed fc n = (Np.arange fc n).map (fun (v : Nat) => (v : Int)) := by
  unfold labelsInDtype
  apply List.map_congr_left
  intro v hv
  simp only [Np.arange, List.mem_map, List.mem_range] at hv
  obtain ⟨i, hi, rfl⟩ := hv
  exact wrapInt_exact bits signed _ (by omega)

end Mating
