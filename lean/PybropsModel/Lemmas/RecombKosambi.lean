/-
Helper lemmas for C02 (round 2): what the simulator gives for non-adjacent markers under ANY map function
(Haldane-composition of the adjacent values), and why that is not the Kosambi function of the summed
distance (no interference in `mat_meiosis`).
-/
import PybropsModel.Lemmas.RecombMap
import Mathlib.Analysis.SpecialFunctions.Trigonometric.DerivHyp
set_option autoImplicit false
set_option linter.unusedSectionVars false

namespace Recomb

section slice
variable {α : Type} [Sub α]

/-- inside one chromosome the first n entries after a marker are the successive position differences -/
theorem gdistFrom_take_same : ∀ (n : Nat) (c : Int) (p : α) (cs : List Int) (ps : List α),
    (∀ k < n, cs[k]? = some c) → n ≤ ps.length →
    (gdistFrom c p cs ps).take n = ((List.zipWith (fun a b => b - a) (p :: ps) ps).take n).map some := by
  intro n
  induction n with
  | zero => intro c p cs ps _ _; simp
  | succ n ih =>
    intro c p cs ps hk hn
    cases cs with
    | nil => have := hk 0 (by omega); simp at this
    | cons c' cs' =>
      have hc' : c' = c := by have := hk 0 (by omega); simpa using this
      subst hc'
      cases ps with
      | nil => simp at hn
      | cons p' ps' =>
        simp only [gdistFrom, if_true, List.take_succ_cons, List.zipWith_cons_cons, List.map_cons]
        rw [ih c' p' cs' ps' (fun k hkn => by have := hk (k + 1) (by omega); simpa using this)
          (by simpa using hn)]

end slice

section fld
variable {α : Type} [Field α] [CharZero α]

/-- **what the simulator computes between two markers of one chromosome, for any map function `h`**:
    the Haldane-composition `(1 - Π (1 - 2 h(d_k))) / 2` of the adjacent values -/
theorem pairProb_adjDists (h : α → α) (chr : List Int) (pos : List α) (i j : Nat) (hij : i < j)
    (hjc : j < chr.length) (hjp : j < pos.length)
    (hsame : ∀ k, i ≤ k → (hk : k ≤ j) → chr[k] = chr[i]) :
    pairProb (rprob1g h chr pos) i j = oddProb ((adjDists pos i j).map h) := by
  unfold pairProb rprob1g adjDists
  rw [← List.map_drop, ← List.map_take, gdist1g_drop chr pos i (by omega) (by omega),
      gdistFrom_take_same (j - i) chr[i] pos[i] (chr.drop (i + 1)) (pos.drop (i + 1)) ?_ ?_]
  · rw [List.map_map]
    have : pos.drop i = pos[i] :: pos.drop (i + 1) := by rw [List.drop_eq_getElem_cons (by omega)]
    rw [this]
    congr 1
  · intro k hk
    rw [List.getElem?_drop, List.getElem?_eq_getElem (by omega)]
    rw [hsame (i + 1 + k) (by omega) (by omega)]
  · simp; omega

end fld

/-- the Kosambi map function `r = tanh(2 d) / 2` (KosambiMapFunction.mapfn) -/
noncomputable def kosambiR (d : ℝ) : ℝ := Real.tanh (2 * d) / 2

theorem tanh_two_mul (x : ℝ) : Real.tanh (2 * x) = 2 * Real.tanh x / (1 + Real.tanh x ^ 2) := by
  rw [Real.tanh_eq_sinh_div_cosh, Real.tanh_eq_sinh_div_cosh, Real.sinh_two_mul, Real.cosh_two_mul]
  have hc := Real.cosh_pos x
  field_simp

theorem tanh_pos_of_pos (x : ℝ) (hx : 0 < x) : 0 < Real.tanh x := by
  rw [Real.tanh_eq_sinh_div_cosh]
  exact div_pos (Real.sinh_pos_iff.mpr hx) (Real.cosh_pos x)

/-- two equal adjacent intervals of length d > 0: the Haldane-composition of the two Kosambi values is
    strictly below the Kosambi value of the doubled distance (Kosambi's function encodes positive
    interference; independent crossovers produce more double crossovers) -/
theorem kosambi_compose_lt (d : ℝ) (hd : 0 < d) :
    oddProb [kosambiR d, kosambiR d] < kosambiR (2 * d) := by
  simp only [kosambiR, oddProb, prodD, dfac]
  rw [tanh_two_mul (2 * d)]
  set t := Real.tanh (2 * d) with ht
  have h0 : 0 < t := tanh_pos_of_pos _ (by linarith)
  have h1 : t < 1 := Real.tanh_lt_one _
  have hpos : 0 < 1 + t ^ 2 := by positivity
  rw [div_lt_div_iff_of_pos_right (by norm_num : (0:ℝ) < 2), lt_div_iff₀ hpos]
  have hsq : 0 < t ^ 2 * (1 - t) ^ 2 := by
    apply mul_pos (pow_pos h0 2) (pow_pos (by linarith) 2)
  have key : 2 * t - (1 - (1 - (t / 2 + t / 2)) * ((1 - (t / 2 + t / 2)) * 1)) * (1 + t ^ 2) =
      t ^ 2 * (1 - t) ^ 2 := by ring
  linarith

end Recomb
