/-
Helper lemmas for C10 `spec_sound`: what the model reports along a closed history (Model/SelLimitSpec.modelObs)
passes every clause of the Spec the driver evaluates on the implementation's trajectory (`specHistory`), for every
tolerance ≥ 0.
-/
import PybropsModel.Lemmas.SelLimitUnphased
import PybropsModel.Model.SelLimitSpec
set_option autoImplicit false
set_option linter.unusedVariables false
set_option linter.unusedSectionVars false

namespace SelLimitSpec
open Genotype SelLimit List

theorem failing_nil_iff (l : List (String × Bool)) : failing l = [] ↔ ∀ x ∈ l, x.2 = true := by
  unfold failing
  rw [List.map_eq_nil_iff, List.filter_eq_nil_iff]
  constructor
  · intro h x hx; have := h x hx; simpa using this
  · intro h x hx; simp [h x hx]

section tol
variable {α : Type} [Field α] [LinearOrder α] [IsStrictOrderedRing α]

theorem maxQ_ge_left (a b : α) : a ≤ maxQ a b := by
  unfold maxQ; split
  · rename_i h; exact h.le
  · exact le_refl a

theorem leTol_of_le {tol a b : α} (ht : 0 ≤ tol) (h : a ≤ b) : leTol tol a b = true := by
  unfold leTol
  rw [decide_eq_true_eq]
  have h1 : (1 : α) ≤ maxQ 1 (maxQ (absQ a) (absQ b)) := maxQ_ge_left _ _
  have : 0 ≤ tol * maxQ 1 (maxQ (absQ a) (absQ b)) := mul_nonneg ht (le_trans zero_le_one h1)
  linarith

theorem eqTol_of_eq {tol a b : α} (ht : 0 ≤ tol) (h : a = b) : eqTol tol a b = true := by
  unfold eqTol
  rw [Bool.and_eq_true]
  exact ⟨leTol_of_le ht h.le, leTol_of_le ht h.ge⟩

/-! ### the list oracles on tables `t ↦ f t`, `t < n` -/

theorem zip2_all {ι : Type} (l : List ι) (f g : ι → α) (P : α × α → Bool) (h : ∀ i ∈ l, P (f i, g i) = true) :
    (List.zip (l.map f) (l.map g)).all P = true := by
  induction l with
  | nil => rfl
  | cons a t ih =>
    simp only [List.map_cons, List.zip_cons_cons, List.all_cons, Bool.and_eq_true]
    exact ⟨h a (by simp), ih (fun i hi => h i (by simp [hi]))⟩

theorem zip3_all {ι : Type} (l : List ι) (f g k : ι → α) (P : α × α × α → Bool)
    (h : ∀ i ∈ l, P (f i, g i, k i) = true) :
    (List.zip (l.map f) (List.zip (l.map g) (l.map k))).all P = true := by
  induction l with
  | nil => rfl
  | cons a t ih =>
    simp only [List.map_cons, List.zip_cons_cons, List.all_cons, Bool.and_eq_true]
    exact ⟨h a (by simp), ih (fun i hi => h i (by simp [hi]))⟩

theorem zipWith_map_same {ι : Type} (l : List ι) (f g : ι → α) (op : α → α → α) :
    List.zipWith op (l.map f) (l.map g) = l.map (fun i => op (f i) (g i)) := by
  induction l with
  | nil => rfl
  | cons a t ih => simp [ih]

theorem vecLe_map (tol : α) (ht : 0 ≤ tol) (n : Nat) (A B : Nat → α) (h : ∀ t, t < n → A t ≤ B t) :
    vecLe tol ((List.range n).map A) ((List.range n).map B) = true := by
  unfold vecLe
  simp only [List.length_map, List.length_range, beq_self_eq_true, Bool.true_and]
  exact zip2_all _ A B _ (fun t ht' => leTol_of_le ht (h t (List.mem_range.mp ht')))

theorem bracketB_map {ρ : Type} (tol : α) (ht : 0 ≤ tol) (n : Nat) (L H : Nat → α) (rows : List ρ) (V : ρ → Nat → α)
    (h : ∀ r ∈ rows, ∀ t, t < n → L t ≤ V r t ∧ V r t ≤ H t) :
    bracketB tol ((List.range n).map L) ((List.range n).map H) (rows.map (fun r => (List.range n).map (V r))) = true := by
  unfold bracketB
  rw [List.all_eq_true]
  intro row hrow
  obtain ⟨r, hr, rfl⟩ := List.mem_map.mp hrow
  simp only [List.length_map, List.length_range, beq_self_eq_true, Bool.true_and]
  apply zip3_all
  intro t ht'
  obtain ⟨a, b⟩ := h r hr t (List.mem_range.mp ht')
  rw [Bool.and_eq_true]
  exact ⟨leTol_of_le ht a, leTol_of_le ht b⟩

end tol

/-! ### the model's report in table form -/
section obs
variable {α : Type} [Field α] [LinearOrder α] [IsStrictOrderedRing α]

/-- what the model reports for a dosage matrix (the unphased object / ndarray path: frequencies `afreq`) -/
def obsU (nv ntr : Nat) (U beta : List (List α)) (ploidy : Nat) (Z : UMat) : ObsGen α :=
  modelObs nv ntr U beta ploidy Z (afreq (α := α) ploidy nv Z)

/-- what the model reports for a phased population (frequencies from the phased `afreq`) -/
def obsP (nv ntr : Nat) (U beta : List (List α)) (P : Pop) : ObsGen α :=
  modelObs nv ntr U beta P.G.length (psum P.nt nv P.G) (pafreq (α := α) P.nt nv P.G)

/-- per-trait values -/
def uT (nv : Nat) (U : List (List α)) (ploidy : Nat) (Z : UMat) (t : Nat) : α :=
  uslF ploidy nv (eff U t) (afreqAt (α := α) ploidy Z)
def lT (nv : Nat) (U : List (List α)) (ploidy : Nat) (Z : UMat) (t : Nat) : α :=
  lslF ploidy nv (eff U t) (afreqAt (α := α) ploidy Z)
def gT (nv : Nat) (U : List (List α)) (r : List Int) (t : Nat) : α := gebvF nv (eff U t) (entry r)

theorem obsU_eq (nv ntr : Nat) (U beta : List (List α)) (ploidy : Nat) (Z : UMat) :
    obsU nv ntr U beta ploidy Z =
      { usl := (List.range ntr).map (uT nv U ploidy Z),
        lsl := (List.range ntr).map (lT nv U ploidy Z),
        uslUn := (List.range ntr).map (fun t => uT nv U ploidy Z t + location beta t),
        lslUn := (List.range ntr).map (fun t => lT nv U ploidy Z t + location beta t),
        gebvRaw := Z.map (fun r => (List.range ntr).map (gT nv U r)),
        gebvUn := Z.map (fun r => (List.range ntr).map (fun t => gT nv U r t + location beta t)) } := by
  unfold obsU modelObs addLoc
  obtain ⟨hu, hl⟩ := usl_list_eq (α := α) ploidy nv ntr U Z
  simp only [hu, hl, gebv, List.map_map, Function.comp_def, zipWith_map_same]
  rfl

theorem obsP_eq_obsU {nv : Nat} (ntr : Nat) (U beta : List (List α)) {P : Pop} (hv : ValidP P.nt nv P.G) :
    obsP nv ntr U beta P = obsU nv ntr U beta P.G.length (psum P.nt nv P.G) := by
  have hrect : ∀ ph ∈ P.G, ph.length = P.nt := fun ph hph => (hv.2.2 ph hph).1
  unfold obsP obsU modelObs
  obtain ⟨hu, hl⟩ := usl_list_eq (α := α) P.G.length nv ntr U (psum P.nt nv P.G)
  obtain ⟨hu', hl'⟩ := usl_list_eq_phased (α := α) P.nt nv ntr U P.G
  have e1 : usl P.G.length nv ntr U (pafreq (α := α) P.nt nv P.G)
      = usl P.G.length nv ntr U (afreq (α := α) P.G.length nv (psum P.nt nv P.G)) := by
    rw [hu, hu']
    apply List.map_congr_left
    intro t _
    exact uslF_congr _ nv _ _ _ (fun j hj => pafreqAt_eq_afreqAt_psum (α := α) hrect j hj)
  have e2 : lsl P.G.length nv ntr U (pafreq (α := α) P.nt nv P.G)
      = lsl P.G.length nv ntr U (afreq (α := α) P.G.length nv (psum P.nt nv P.G)) := by
    rw [hl, hl']
    apply List.map_congr_left
    intro t _
    exact lslF_congr _ nv _ _ _ (fun j hj => pafreqAt_eq_afreqAt_psum (α := α) hrect j hj)
  simp only [e1, e2]

end obs

/-! ### one population -/
section own
variable {α : Type} [Field α] [LinearOrder α] [IsStrictOrderedRing α]

/-- an unphased population as the Spec receives it -/
def popInU (ploidy : Nat) (Z : UMat) : PopIn := ⟨ploidy, Z.length, Z, none, none⟩
/-- a phased population as the Spec receives it (dosage rows = the projection) -/
def popInP (nv : Nat) (P : Pop) : PopIn := ⟨P.G.length, P.nt, psum P.nt nv P.G, some P.G, none⟩

theorem allFixedB_imp {ploidy nv : Nat} {Z : UMat} (hv : ValidU ploidy nv Z)
    (h : allFixedB nv (popInU ploidy Z) = true) :
    ∀ j, j < nv → afixedOf (afreqAt (α := α) ploidy Z j) = true := by
  intro j hj
  unfold allFixedB popInU at h
  simp only [List.all_eq_true, List.mem_range, Bool.or_eq_true, beq_iff_eq] at h
  rw [afixedOf_iff, afreqAt_eq_zero_iff (α := α) hv j, afreqAt_eq_one_iff (α := α) hv j]
  exact h j hj

theorem own_sound_U {ploidy nv : Nat} {Z : UMat} (hv : ValidU ploidy nv Z) (ntr : Nat) (U beta : List (List α))
    (tol : α) (ht : 0 ≤ tol) (i : Nat) :
    failing (ownChecks nv ntr tol i (popInU ploidy Z) (obsU nv ntr U beta ploidy Z)) = [] := by
  rw [failing_nil_iff, obsU_eq]
  have hbr : ∀ r ∈ Z, ∀ t, t < ntr → lT nv U ploidy Z t ≤ gT nv U r t ∧ gT nv U r t ≤ uT nv U ploidy Z t :=
    fun r hr t _ => bracketU (α := α) hv (eff U t) hr
  intro x hx
  simp only [ownChecks, List.mem_cons, List.not_mem_nil, or_false] at hx
  rcases hx with rfl | rfl | rfl | rfl
  · simp [shapeB, popInU]
  · exact bracketB_map tol ht ntr _ _ Z _ hbr
  · exact bracketB_map tol ht ntr _ _ Z _ (fun r hr t htt => by
      obtain ⟨a, b⟩ := hbr r hr t htt
      exact ⟨by linarith, by linarith⟩)
  · by_cases hfix : allFixedB nv (popInU ploidy Z) = true
    · have hf := allFixedB_imp (α := α) hv hfix
      have hcol : ∀ r ∈ Z, ∀ t, lT nv U ploidy Z t = gT nv U r t ∧ uT nv U ploidy Z t = gT nv U r t :=
        fun r hr t => collapseU (α := α) hv (eff U t) hf hr
      obtain ⟨r0, hr0⟩ : ∃ r0, r0 ∈ Z := List.exists_mem_of_length_pos hv.2.1
      have hul : ∀ t, uT nv U ploidy Z t = lT nv U ploidy Z t := fun t => by
        rw [(hcol r0 hr0 t).1, (hcol r0 hr0 t).2]
      simp only [hfix, Bool.not_true, Bool.false_or]
      unfold collapseB
      simp only [Bool.and_eq_true, List.all_eq_true, List.mem_map, forall_exists_index, and_imp,
        forall_apply_eq_imp_iff₂]
      refine ⟨⟨⟨?_, ?_⟩, ?_⟩, ?_⟩
      · rw [← List.all_eq_true]
        exact zip2_all _ _ _ _ (fun t _ => eqTol_of_eq ht (hul t))
      · rw [← List.all_eq_true]
        exact zip2_all _ _ _ _ (fun t _ => eqTol_of_eq ht (by rw [hul t]))
      · intro r hr
        rw [← List.all_eq_true]
        exact zip2_all _ _ _ _ (fun t _ => eqTol_of_eq ht (hcol r hr t).2.symm)
      · intro r hr
        rw [← List.all_eq_true]
        exact zip2_all _ _ _ _ (fun t _ => eqTol_of_eq ht (by rw [(hcol r hr t).2]))
    · simp [hfix]

end own

/-! ### an earlier and a later population -/
section pair
variable {α : Type} [Field α] [LinearOrder α] [IsStrictOrderedRing α]

theorem pair_sound_U {ploidy nv : Nat} {A B : UMat} (hA : ValidU ploidy nv A) (hB : ValidU ploidy nv B)
    (hstep : ClosedStepU ploidy nv A B) (ntr : Nat) (U beta : List (List α)) (tol : α) (ht : 0 ≤ tol) (i j : Nat) :
    failing (pairChecks tol i j (obsU nv ntr U beta ploidy A) (obsU nv ntr U beta ploidy B)) = [] := by
  rw [failing_nil_iff, obsU_eq, obsU_eq]
  have hs : ∀ t, uT nv U ploidy B t ≤ uT nv U ploidy A t ∧ lT nv U ploidy A t ≤ lT nv U ploidy B t :=
    fun t => step_limits_U (α := α) hA hB hstep (eff U t)
  have hbr : ∀ r ∈ B, ∀ t, t < ntr → lT nv U ploidy A t ≤ gT nv U r t ∧ gT nv U r t ≤ uT nv U ploidy A t := by
    intro r hr t _
    obtain ⟨b1, b2⟩ := bracketU (α := α) hB (eff U t) hr
    exact ⟨le_trans (hs t).2 b1, le_trans b2 (hs t).1⟩
  intro x hx
  simp only [pairChecks, List.mem_cons, List.not_mem_nil, or_false] at hx
  rcases hx with rfl | rfl | rfl
  · rw [Bool.and_eq_true]
    exact ⟨vecLe_map tol ht ntr _ _ (fun t _ => (hs t).1),
           vecLe_map tol ht ntr _ _ (fun t _ => by have := (hs t).1; linarith)⟩
  · rw [Bool.and_eq_true]
    exact ⟨vecLe_map tol ht ntr _ _ (fun t _ => (hs t).2),
           vecLe_map tol ht ntr _ _ (fun t _ => by have := (hs t).2; linarith)⟩
  · rw [Bool.and_eq_true]
    exact ⟨bracketB_map tol ht ntr _ _ B _ hbr,
           bracketB_map tol ht ntr _ _ B _ (fun r hr t htt => by
             obtain ⟨a, b⟩ := hbr r hr t htt
             exact ⟨by linarith, by linarith⟩)⟩

/-- a closed step between phased populations is a closed step between their dosage projections -/
theorem closedStep_psum {nv : Nat} {P Q : Pop} (hP : ValidP P.nt nv P.G) (hQ : ValidP Q.nt nv Q.G)
    (h : ClosedStep nv P Q) : ClosedStepU P.G.length nv (psum P.nt nv P.G) (psum Q.nt nv Q.G) := by
  have hUP := psum_valid hP
  have hUQ := psum_valid hQ
  have hrP : ∀ ph ∈ P.G, ph.length = P.nt := fun ph hph => (hP.2.2 ph hph).1
  have hrQ : ∀ ph ∈ Q.G, ph.length = Q.nt := fun ph hph => (hQ.2.2 ph hph).1
  have hlen : Q.G.length = P.G.length := h.1
  intro j hj
  obtain ⟨p1, p0⟩ := freq_tests_iff (α := ℚ) hP j
  obtain ⟨q1, q0⟩ := freq_tests_iff (α := ℚ) hQ j
  obtain ⟨up1, up0⟩ := freq_tests_iff_U (α := ℚ) hUP j
  obtain ⟨uq1, uq0⟩ := freq_tests_iff_U (α := ℚ) hUQ j
  have eP := pafreqAt_eq_afreqAt_psum (α := ℚ) hrP j hj
  have eQ := pafreqAt_eq_afreqAt_psum (α := ℚ) hrQ j hj
  rw [hlen] at uq0
  constructor
  · intro hq
    have h1 : 0 < pafreqAt (α := ℚ) Q.nt Q.G j := by rw [eQ]; exact uq1.mpr hq
    have h2 : 0 < pafreqAt (α := ℚ) P.nt P.G j := p1.mpr (h.2 j hj _ (q1.mp h1))
    rw [eP] at h2
    exact up1.mp h2
  · intro hq
    by_contra hno
    have h2 : 1 ≤ pafreqAt (α := ℚ) P.nt P.G j := by rw [eP]; exact up0.mpr hno
    have h0 : (0 : Int) ∉ popCopies P.G j := p0.mp h2
    have h1 : 1 ≤ pafreqAt (α := ℚ) Q.nt Q.G j := q0.mpr (fun hin => h0 (h.2 j hj _ hin))
    rw [eQ, hlen] at h1
    exact (uq0.mp h1) hq

end pair

/-! ### whole trajectories -/
section whole
variable {α : Type} [Field α] [LinearOrder α] [IsStrictOrderedRing α]

theorem specFrom_nil (nv ntr : Nat) (tol : α) : ∀ (l : List (PopIn × ObsGen α)) (i : Nat),
    (∀ x ∈ l, ∀ k, failing (ownChecks nv ntr tol k x.1 x.2) = []) →
    l.Pairwise (fun a b => ∀ k k', failing (pairChecks tol k k' a.2 b.2) = []) →
    l.IsChain (fun a b => ∀ k, failing (stepChecks nv k a.1 b.1) = []) →
    specFrom nv ntr tol i l = []
  | [], _, _, _, _ => rfl
  | (P, o) :: rest, i, hown, hpair, hstep => by
    unfold specFrom
    rw [List.pairwise_cons] at hpair
    have ih := specFrom_nil nv ntr tol rest (i + 1) (fun x hx => hown x (List.mem_cons_of_mem _ hx)) hpair.2
      (List.IsChain.tail hstep)
    rw [ih, hown (P, o) (by simp) i]
    have h2 : (rest.zipIdx (i + 1)).flatMap (fun bj => failing (pairChecks tol i bj.2 o bj.1.2)) = [] := by
      rw [List.flatMap_eq_nil_iff]
      intro bj hbj
      have hmem : bj.1 ∈ rest := by
        obtain ⟨_, _, he⟩ := List.mem_zipIdx hbj
        rw [he]; exact List.getElem_mem _
      exact hpair.1 bj.1 hmem i bj.2
    rw [h2]
    cases rest with
    | nil => rfl
    | cons Q rest' =>
      obtain ⟨Q1, Q2⟩ := Q
      have := (List.isChain_cons_cons.mp hstep).1 i
      simp only [this, List.append_nil, List.nil_append]

theorem historyU_isChain (ploidy nv : Nat) : ∀ (h : List UMat), IsHistoryU ploidy nv h →
    h.IsChain (ClosedStepU ploidy nv)
  | [], _ => List.IsChain.nil
  | [_], _ => List.IsChain.singleton _
  | P :: Q :: rest, hh => List.IsChain.cons_cons hh.1 (historyU_isChain ploidy nv (Q :: rest) hh.2)

theorem history_isChain (nv : Nat) : ∀ (h : List Pop), IsHistory nv h → h.IsChain (ClosedStep nv)
  | [], _ => List.IsChain.nil
  | [_], _ => List.IsChain.singleton _
  | P :: Q :: rest, hh => List.IsChain.cons_cons hh.1 (history_isChain nv (Q :: rest) hh.2)

theorem isChain_imp_of_mem {β : Type} {R S : β → β → Prop} : ∀ (l : List β),
    (∀ a b, a ∈ l → b ∈ l → R a b → S a b) → l.IsChain R → l.IsChain S
  | [], _, _ => List.IsChain.nil
  | [_], _, _ => List.IsChain.singleton _
  | a :: b :: rest, himp, h => by
    obtain ⟨hab, ht⟩ := List.isChain_cons_cons.mp h
    exact List.IsChain.cons_cons (himp a b (by simp) (by simp) hab)
      (isChain_imp_of_mem (b :: rest) (fun x y hx hy => himp x y (List.mem_cons_of_mem _ hx) (List.mem_cons_of_mem _ hy)) ht)

theorem zip_map_same {β γ δ : Type} (l : List β) (f : β → γ) (g : β → δ) :
    List.zip (l.map f) (l.map g) = l.map (fun x => (f x, g x)) := by
  induction l with
  | nil => rfl
  | cons a t ih => simp [ih]

/-- **spec_sound, unphased histories of any ploidy** -/
theorem specHistory_sound_U {ploidy nv : Nat} (ntr : Nat) (U beta : List (List α)) (tol : α) (ht : 0 ≤ tol)
    (h : List UMat) (hh : IsHistoryU ploidy nv h) (hv : ∀ Z ∈ h, ValidU ploidy nv Z) :
    specHistory nv ntr tol (h.map (popInU ploidy)) (h.map (obsU nv ntr U beta ploidy)) = [] := by
  unfold specHistory
  simp only [List.length_map, bne_self_eq_false, Bool.false_eq_true, if_false]
  rw [zip_map_same]
  apply specFrom_nil
  · intro x hx k
    obtain ⟨Z, hZ, rfl⟩ := List.mem_map.mp hx
    exact own_sound_U (hv Z hZ) ntr U beta tol ht k
  · rw [List.pairwise_map]
    exact (historyU_pairwise ploidy nv h hh).imp_of_mem
      (fun {a b} ha hb hab k k' => pair_sound_U (hv a ha) (hv b hb) hab ntr U beta tol ht k k')
  · rw [List.isChain_map]
    refine isChain_imp_of_mem h ?_ (historyU_isChain ploidy nv h hh)
    intro a b _ _ hab k
    rw [failing_nil_iff]
    intro x hx
    simp only [stepChecks, List.mem_cons, List.not_mem_nil, or_false] at hx
    subst hx
    simp only [stepClosedB, popInU, beq_self_eq_true, Bool.true_and]
    exact (closedStepUB_iff ploidy nv a b).mpr hab

/-- **spec_sound, phased histories** (selection, in-place culling, any mating: any closed steps) -/
theorem specHistory_sound_P {nv : Nat} (ntr : Nat) (U beta : List (List α)) (tol : α) (ht : 0 ≤ tol)
    (h : List Pop) (hh : IsHistory nv h) (hv : ∀ P ∈ h, ValidP P.nt nv P.G) :
    specHistory nv ntr tol (h.map (popInP nv)) (h.map (obsP nv ntr U beta)) = [] := by
  unfold specHistory
  simp only [List.length_map, bne_self_eq_false, Bool.false_eq_true, if_false]
  rw [zip_map_same]
  apply specFrom_nil
  · intro x hx k
    obtain ⟨P, hP, rfl⟩ := List.mem_map.mp hx
    simp only
    rw [obsP_eq_obsU ntr U beta (hv P hP)]
    exact own_sound_U (psum_valid (hv P hP)) ntr U beta tol ht k
  · rw [List.pairwise_map]
    refine (history_pairwise nv h hh).imp_of_mem ?_
    intro a b ha hb hab k k'
    simp only
    rw [obsP_eq_obsU ntr U beta (hv a ha), obsP_eq_obsU ntr U beta (hv b hb)]
    have hU := closedStep_psum (hv a ha) (hv b hb) hab
    have hB := psum_valid (hv b hb)
    rw [hab.1] at hB ⊢
    exact pair_sound_U (psum_valid (hv a ha)) hB hU ntr U beta tol ht k k'
  · rw [List.isChain_map]
    refine isChain_imp_of_mem h ?_ (history_isChain nv h hh)
    intro a b _ _ hab k
    rw [failing_nil_iff]
    intro x hx
    simp only [stepChecks, List.mem_cons, List.not_mem_nil, or_false] at hx
    subst hx
    simp only [stepClosedB, popInP]
    exact (closedStepB_iff nv a b).mpr hab

end whole

end SelLimitSpec
