/-
Helper lemmas for C17, the proposed repair of stochastic_universal_sampling: closed form of the repaired
model and the floor/ceiling guarantee for *every* offset in `[0, ptr_dist)`.
-/
import PybropsModel.Lemmas.SamplingPatchedWalk
set_option autoImplicit false
set_option linter.unusedSectionVars false
namespace Sampling
section patched
variable {α : Type} [Field α] [LinearOrder α] [IsStrictOrderedRing α]

theorem susIdxCore_ok_iff (p : List α) (k : Nat) (sigma : List Nat) (o : α) (sel : List Nat) :
    susIdxCore p k sigma o = .ok sel ↔
      (isPerm sigma p.length = true ∧ nonIncreasing (sigma.map (fun i => p.getD i 0)) = true ∧ k ≠ 0 ∧
      (0 ≤ o ∧ o < Np.sum p / (k : α)) ∧
      walkG (ptrCmp (decide (o + o < Np.sum p / (k : α))))
        ((Np.cumsum (sigma.map (fun i => p.getD i 0))).zip sigma)
        ((p.filter (fun x => decide (0 < x) || decide (x < 0))).length - 1)
        ((List.range k).map (fun (j : Nat) => o + (j : α) * (Np.sum p / (k : α)))) = some sel) := by
  unfold susIdxCore
  split_ifs with h1 h2 h3 h4
  · constructor
    · intro h; cases h
    · rintro ⟨_, _, h, _⟩; exact absurd h3 h
  · split
    · rename_i hw
      constructor
      · intro h; cases h
      · rintro ⟨_, _, _, _, hw'⟩
        rw [hw] at hw'
        cases hw'
    · rename_i s hw
      constructor
      · intro h
        have : s = sel := by injection h
        subst this
        exact ⟨h1, h2, h3, h4, hw⟩
      · rintro ⟨_, _, _, _, hw'⟩
        rw [hw] at hw'
        injection hw' with hw'
        rw [hw']
  · constructor
    · intro h; cases h
    · rintro ⟨_, _, _, h, _⟩; exact absurd h h4
  · constructor
    · intro h; cases h
    · rintro ⟨_, h, _⟩; exact absurd h h2
  · constructor
    · intro h; cases h
    · rintro ⟨h, _⟩; exact absurd h h1

theorem ptrCmp_mono (lo : Bool) (c t t' : α) (h : t ≤ t') (hc : ptrCmp lo c t = true) :
    ptrCmp lo c t' = true := by
  unfold ptrCmp at *
  cases lo
  · simp only [Bool.false_eq_true, if_false, decide_eq_true_eq] at *
    exact lt_of_lt_of_le hc h
  · simp only [if_true, decide_eq_true_eq] at *
    exact le_trans hc h

/-- the guard position of the repaired loop holds the total weight -/
theorem guard_total (p : List α) (sigma : List Nat) (hp : ∀ x ∈ p, 0 ≤ x) (hT : 0 < Np.sum p)
    (h1 : isPerm sigma p.length = true) (h2 : nonIncreasing (sigma.map (fun i => p.getD i 0)) = true) :
    let w := sigma.map (fun i => p.getD i 0)
    let last := (p.filter (fun x => decide (0 < x) || decide (x < 0))).length - 1
    last < w.length ∧ pre 0 w (last + 1) = Np.sum p ∧
      0 < (p.filter (fun x => decide (0 < x) || decide (x < 0))).length := by
  intro w last
  have hs := sigmaFacts p sigma h1
  have hwnn : ∀ x ∈ w, 0 ≤ x := hs.nonneg hp
  set nz := fun x : α => decide (0 < x) || decide (x < 0) with hnz
  have hc : (p.filter nz).length = (w.filter nz).length := (hs.wperm.filter nz).length_eq.symm
  have hzero := drop_nonzero_zero w hwnn h2
  have hsum : (w.drop (w.filter nz).length).sum = 0 := List.sum_eq_zero hzero
  have hsplit := List.sum_take_add_sum_drop w (w.filter nz).length
  rw [hsum, add_zero, hs.sum] at hsplit
  have hpos : 0 < (w.filter nz).length := by
    rcases Nat.eq_zero_or_pos (w.filter nz).length with h0 | h0
    · rw [h0] at hsplit
      simp at hsplit
      exact absurd hsplit.symm hT.ne'
    · exact h0
  have hle : (w.filter nz).length ≤ w.length := List.length_filter_le _ _
  have hlast : last + 1 = (w.filter nz).length := by
    show (p.filter nz).length - 1 + 1 = (w.filter nz).length
    omega
  refine ⟨by omega, ?_, by rw [hc]; exact hpos⟩
  unfold pre
  rw [hlast, zero_add, hsplit]

/-- one run of the pointer loop in exact arithmetic with interval convention `lo` (validated oracle inputs) -/
def SusRun (p : List α) (k : Nat) (sigma : List Nat) (o : α) (lo : Bool) (sel : List Nat) : Prop :=
  isPerm sigma p.length = true ∧ nonIncreasing (sigma.map (fun i => p.getD i 0)) = true ∧ k ≠ 0 ∧
  (0 ≤ o ∧ o < Np.sum p / (k : α)) ∧
  walkG (ptrCmp lo) ((Np.cumsum (sigma.map (fun i => p.getD i 0))).zip sigma)
    ((p.filter (fun x => decide (0 < x) || decide (x < 0))).length - 1)
    ((List.range k).map (fun (j : Nat) => o + (j : α) * (Np.sum p / (k : α)))) = some sel

theorem susIdxCore_run (p : List α) (k : Nat) (sigma : List Nat) (o : α) (sel : List Nat) :
    susIdxCore p k sigma o = .ok sel ↔ SusRun p k sigma o (decide (o + o < Np.sum p / (k : α))) sel :=
  susIdxCore_ok_iff p k sigma o sel

/-- closed form of a run, either convention: pointer `j` selects `sigma[posC cmp 0 w (o + j·d)]` -/
theorem run_closed (p : List α) (k : Nat) (sigma : List Nat) (o : α) (lo : Bool) (sel : List Nat)
    (hp : ∀ x ∈ p, 0 ≤ x) (hT : 0 < Np.sum p) (h : SusRun p k sigma o lo sel) :
    let cmp := ptrCmp (α := α) lo
    let w := sigma.map (fun i => p.getD i 0)
    sel = ((List.range k).map (fun j : Nat => posC cmp 0 w (o + (j : α) * (Np.sum p / (k : α))))).map
            (fun q => sigma[q]?.getD 0)
    ∧ ∀ j < k, posC cmp 0 w (o + (j : α) * (Np.sum p / (k : α))) < sigma.length := by
  intro cmp w
  obtain ⟨h1, h2, hk, ⟨ho, hod⟩, hw⟩ := h
  have hk' : 0 < k := Nat.pos_of_ne_zero hk
  have hd : 0 < Np.sum p / (k : α) := div_pos hT (by exact_mod_cast hk')
  obtain ⟨hlast, htot, _⟩ := guard_total p sigma hp hT h1 h2
  set last := (p.filter (fun x => decide (0 < x) || decide (x < 0))).length - 1 with hlastdef
  have hslen : ((Np.cumsum w).zip sigma).length = w.length := by
    simp [Np.cumsum, cumsumFrom_length, w]
  have hlast' : last < ((Np.cumsum w).zip sigma).length := by rw [hslen]; exact hlast
  have hsget : (((Np.cumsum w).zip sigma)[last]'hlast').1 = Np.sum p := by
    rw [List.getElem_zip]
    simp only [Np.cumsum]
    rw [cumsumFrom_getElem 0 w last (by rw [cumsumFrom_length]; exact hlast)]
    exact htot
  have hstopT : ∀ t, t < Np.sum p → cmp (Np.sum p) t = false := by
    intro t ht
    show ptrCmp _ _ _ = false
    unfold ptrCmp
    split_ifs
    · simp only [decide_eq_false_iff_not, not_le]; exact ht
    · simp only [decide_eq_false_iff_not, not_lt]; exact ht.le
  have hptr : ∀ j < k, o + (j : α) * (Np.sum p / (k : α)) < Np.sum p :=
    fun j hj => sus_ptr_lt (Np.sum p) o k hT hod j hj
  rw [walkG_eq cmp (fun c t t' => ptrCmp_mono _ c t t') _ last _
      (sus_ptrs_sorted o _ k hd.le) hlast' (by
        intro t ht
        obtain ⟨j, hj, rfl⟩ := List.mem_map.mp ht
        rw [hsget]
        exact hstopT _ (hptr j (List.mem_range.mp hj)))] at hw
  injection hw with hw
  have hsel : ∀ t, selOfC cmp ((Np.cumsum w).zip sigma) t = sigma[posC cmp 0 w t]? := by
    intro t
    exact selOfC_zip cmp 0 w sigma t (by simp [w])
  constructor
  · rw [← hw, List.map_map, List.map_map]
    apply List.map_congr_left
    intro j _
    simp [hsel]
  · intro j hj
    have := posC_le_of_stop cmp 0 w (o + (j : α) * (Np.sum p / (k : α))) last hlast
      (by rw [htot]; exact hstopT _ (hptr j hj))
    have hwl : w.length = sigma.length := by simp [w]
    omega

/-- closed form of the model: pointer `j` selects `sigma[posC cmp 0 w (o + j·d)]` -/
theorem susIdxCore_closed (p : List α) (k : Nat) (sigma : List Nat) (o : α) (sel : List Nat)
    (hp : ∀ x ∈ p, 0 ≤ x) (hT : 0 < Np.sum p) (h : susIdxCore p k sigma o = .ok sel) :
    let cmp := ptrCmp (α := α) (decide (o + o < Np.sum p / (k : α)))
    let w := sigma.map (fun i => p.getD i 0)
    sel = ((List.range k).map (fun j : Nat => posC cmp 0 w (o + (j : α) * (Np.sum p / (k : α))))).map
            (fun q => sigma[q]?.getD 0)
    ∧ ∀ j < k, posC cmp 0 w (o + (j : α) * (Np.sum p / (k : α))) < sigma.length :=
  run_closed p k sigma o _ sel hp hT ((susIdxCore_run p k sigma o sel).mp h)

end patched

section patchedFloor
variable {α : Type} [Field α] [LinearOrder α] [IsStrictOrderedRing α] [FloorRing α]

/-- **floor / ceiling guarantee of a run**: right-open intervals work for every offset in `[0, ptr_dist)`,
    right-closed ones for every strictly positive offset -/
theorem run_floor_ceil_pos (p : List α) (k : Nat) (sigma : List Nat) (o : α) (lo : Bool) (sel : List Nat)
    (hp : ∀ x ∈ p, 0 ≤ x) (hT : 0 < Np.sum p) (h : SusRun p k sigma o lo sel) (hlo0 : lo = false → 0 < o)
    (r : Nat) (hr : r < sigma.length) :
    (sel.count sigma[r] : ℤ) = ⌊(k : α) * p.getD sigma[r] 0 / Np.sum p⌋ ∨
    (sel.count sigma[r] : ℤ) = ⌈(k : α) * p.getD sigma[r] 0 / Np.sum p⌉ := by
  obtain ⟨hclosed, hlt⟩ := run_closed p k sigma o lo sel hp hT h
  obtain ⟨h1, _, hk, ⟨ho, hod⟩, _⟩ := h
  have hs := sigmaFacts p sigma h1
  have hk' : 0 < k := Nat.pos_of_ne_zero hk
  have hkpos : (0 : α) < k := by exact_mod_cast hk'
  set d := Np.sum p / (k : α) with hd
  have hdpos : 0 < d := div_pos hT hkpos
  set w := sigma.map (fun i => p.getD i 0) with hw
  have hwnn : ∀ x ∈ w, 0 ≤ x := hs.nonneg hp
  have hrw : r < w.length := by simpa [hw] using hr
  set cmp := ptrCmp (α := α) lo with hcmp
  -- count = number of pointers whose position is r
  have hcount : sel.count sigma[r]
      = ((List.range k).filter (fun j : Nat => decide (posC cmp 0 w (o + (j : α) * d) = r))).length := by
    rw [hclosed, closed_count sigma hs.nodup _ (by
      intro q hq
      obtain ⟨j, hj, rfl⟩ := List.mem_map.mp hq
      exact hlt j (List.mem_range.mp hj)) r hr,
      List.count_eq_countP, List.countP_map, List.countP_eq_length_filter]
    rfl
  rw [hcount]
  have hkd : (k : α) * d = Np.sum p := by rw [hd]; field_simp
  have hb : pre 0 w (r + 1) ≤ (k : α) * d := by
    rw [hkd, ← hs.sum]
    have := pre_le_total 0 w hwnn (r + 1)
    rw [zero_add] at this
    exact this
  have hwr : w[r] = p.getD sigma[r] 0 := by simp [hw]
  have hq : (pre 0 w (r + 1) - o) / d = (pre 0 w r - o) / d + (k : α) * p.getD sigma[r] 0 / Np.sum p := by
    rw [pre_succ 0 w r hrw, hwr, hd]
    field_simp
    ring
  by_cases hlo : lo = true
  · -- right-open intervals, ceilings
    have hcmp' : cmp = fun c t => decide (c ≤ t) := by
      funext c t
      simp [hcmp, ptrCmp, hlo]
    have hfil : (List.range k).filter (fun j : Nat => decide (posC cmp 0 w (o + (j : α) * d) = r))
        = (List.range k).filter (fun j : Nat => pre 0 w r ≤ o + (j : α) * d ∧ o + (j : α) * d < pre 0 w (r + 1)) := by
      apply List.filter_congr
      intro j _
      have h0 : (0 : α) ≤ o + (j : α) * d := by positivity
      rw [decide_eq_decide, hcmp', posC_le_eq_iff 0 w hwnn _ h0 r hrw]
    rw [hfil, pointers_in_interval_ro o d (pre 0 w r) (pre 0 w (r + 1)) k hdpos ho hod
      (le_pre 0 w hwnn r) (pre_le_pre_succ 0 w hwnn r) hb, hq]
    exact ceil_diff _ _
  · -- positive offset: right-closed intervals, floors
    have hlo' : lo = false := by simpa using hlo
    have hopos : 0 < o := hlo0 hlo'
    have hcmp' : cmp = fun c t => decide (c < t) := by
      funext c t
      simp [hcmp, ptrCmp, hlo']
    have hfil : (List.range k).filter (fun j : Nat => decide (posC cmp 0 w (o + (j : α) * d) = r))
        = (List.range k).filter (fun j : Nat => pre 0 w r < o + (j : α) * d ∧ o + (j : α) * d ≤ pre 0 w (r + 1)) := by
      apply List.filter_congr
      intro j _
      rw [decide_eq_decide, hcmp', posC_lt_eq_pos, pos_eq_iff 0 w hwnn _ r hrw]
      constructor
      · rintro ⟨h1 | h1, h2⟩
        · exact ⟨h1, h2⟩
        · subst h1
          refine ⟨?_, h2⟩
          rw [pre_zero]
          have : 0 ≤ (j : α) * d := by positivity
          linarith
      · rintro ⟨h1, h2⟩; exact ⟨Or.inl h1, h2⟩
    rw [hfil, pointers_in_interval o d (pre 0 w r) (pre 0 w (r + 1)) k hdpos hopos hod
      (le_pre 0 w hwnn r) (pre_le_pre_succ 0 w hwnn r) hb, hq]
    exact floor_diff _ _

/-- **the function meets the floor / ceiling guarantee for every offset in `[0, ptr_dist)`** -/
theorem susIdxCore_floor_ceil_pos (p : List α) (k : Nat) (sigma : List Nat) (o : α) (sel : List Nat)
    (hp : ∀ x ∈ p, 0 ≤ x) (hT : 0 < Np.sum p) (h : susIdxCore p k sigma o = .ok sel)
    (r : Nat) (hr : r < sigma.length) :
    (sel.count sigma[r] : ℤ) = ⌊(k : α) * p.getD sigma[r] 0 / Np.sum p⌋ ∨
    (sel.count sigma[r] : ℤ) = ⌈(k : α) * p.getD sigma[r] 0 / Np.sum p⌉ := by
  have hrun := (susIdxCore_run p k sigma o sel).mp h
  refine run_floor_ceil_pos p k sigma o _ sel hp hT hrun ?_ r hr
  intro hlo
  obtain ⟨_, _, hk, ⟨ho, _⟩, _⟩ := hrun
  have hd : 0 < Np.sum p / (k : α) := div_pos hT (by exact_mod_cast Nat.pos_of_ne_zero hk)
  simp only [decide_eq_false_iff_not, not_lt] at hlo
  by_contra hn
  have : o = 0 := le_antisymm (not_lt.mp hn) ho
  rw [this, add_zero] at hlo
  exact absurd hd (not_lt.mpr hlo)

end patchedFloor

section patchedDefined
variable {α : Type} [Field α] [LinearOrder α] [IsStrictOrderedRing α]

/-- the model returns exactly `k` indices and never fails on valid inputs -/
theorem susIdxCore_defined (p : List α) (k : Nat) (sigma : List Nat) (o : α)
    (hp : ∀ x ∈ p, 0 ≤ x) (hT : 0 < Np.sum p) (hk : 0 < k)
    (h1 : isPerm sigma p.length = true) (h2 : nonIncreasing (sigma.map (fun i => p.getD i 0)) = true)
    (ho : 0 ≤ o) (hod : o < Np.sum p / (k : α)) :
    ∃ sel, susIdxCore p k sigma o = .ok sel ∧ sel.length = k := by
  have hd : 0 < Np.sum p / (k : α) := div_pos hT (by exact_mod_cast hk)
  obtain ⟨hlast, htot, _⟩ := guard_total p sigma hp hT h1 h2
  set w := sigma.map (fun i => p.getD i 0) with hw
  set last := (p.filter (fun x => decide (0 < x) || decide (x < 0))).length - 1 with hlastdef
  set cmp := ptrCmp (α := α) (decide (o + o < Np.sum p / (k : α))) with hcmp
  have hslen : ((Np.cumsum w).zip sigma).length = w.length := by
    simp [Np.cumsum, cumsumFrom_length, hw]
  have hlast' : last < ((Np.cumsum w).zip sigma).length := by rw [hslen]; exact hlast
  have hsget : (((Np.cumsum w).zip sigma)[last]'hlast').1 = Np.sum p := by
    rw [List.getElem_zip]
    simp only [Np.cumsum]
    rw [cumsumFrom_getElem 0 w last (by rw [cumsumFrom_length]; exact hlast)]
    exact htot
  have hstopT : ∀ t, t < Np.sum p → cmp (Np.sum p) t = false := by
    intro t ht
    show ptrCmp _ _ _ = false
    unfold ptrCmp
    split_ifs
    · simp only [decide_eq_false_iff_not, not_le]; exact ht
    · simp only [decide_eq_false_iff_not, not_lt]; exact ht.le
  have hwalk := walkG_eq cmp (fun c t t' => ptrCmp_mono _ c t t') _ last
      ((List.range k).map (fun (j : Nat) => o + (j : α) * (Np.sum p / (k : α))))
      (sus_ptrs_sorted o _ k hd.le) hlast' (by
        intro t ht
        obtain ⟨j, hj, rfl⟩ := List.mem_map.mp ht
        rw [hsget]
        exact hstopT _ (sus_ptr_lt (Np.sum p) o k hT hod j (List.mem_range.mp hj)))
  refine ⟨_, (susIdxCore_ok_iff p k sigma o _).mpr ⟨h1, h2, by omega, ⟨ho, hod⟩, hwalk⟩, by simp⟩

end patchedDefined
end Sampling
