/-
Helper lemmas for C17, binary64 residual of stochastic universal sampling: the standard model of floating-point
arithmetic (`|fl x - x| ≤ u·|x|` for every operation) gives explicit bounds for what the code computes —
`numpy.cumsum` (sequential, one rounding per addition) and the pointers `offset + ptr_dist * arange(k)` (one
rounding for the product, one for the sum, `ptr_dist` itself within a relative error `η` of `Σp/k`).
-/
import PybropsModel.Lemmas.SamplingRounded
set_option autoImplicit false

namespace Sampling

/-- `numpy.arange(k)` entries as binary64 numbers: lets the model loop run on Lean's `Float` (Props/C17
    `sus_binary64_tie_counterexample`) -/
scoped instance instNatCastFloat : NatCast Float := ⟨Float.ofNat⟩

section fl
variable {α : Type} [Field α] [LinearOrder α] [IsStrictOrderedRing α]

/-- `numpy.cumsum` with every addition rounded by `fl` -/
def flCumsumFrom (fl : α → α) : α → List α → List α
  | _, [] => []
  | acc, a :: as => fl (acc + a) :: flCumsumFrom fl (fl (acc + a)) as

def flCumsum (fl : α → α) (l : List α) : List α := flCumsumFrom fl 0 l

theorem flCumsumFrom_length (fl : α → α) (l : List α) (acc : α) : (flCumsumFrom fl acc l).length = l.length := by
  induction l generalizing acc with
  | nil => rfl
  | cons a as ih => simp [flCumsumFrom, ih]

theorem one_le_one_add_pow (u : α) (hu : 0 ≤ u) (m : Nat) : 1 ≤ (1 + u) ^ m :=
  one_le_pow₀ (by linarith)

theorem one_add_pow_mono (u : α) (hu : 0 ≤ u) {m n : Nat} (h : m ≤ n) : (1 + u) ^ m ≤ (1 + u) ^ n :=
  pow_le_pow_right₀ (by linarith) h

/-- accumulated error of the sequential rounded cumulative sum of non-negative terms whose total stays below `B`:
    entry `r` is within `((1+u)^(m+r+1) - 1)·B` of the exact partial sum when the start value is within
    `((1+u)^m - 1)·B` -/
theorem flCumsumFrom_err (fl : α → α) (u B : α) (hu : 0 ≤ u) (hfl : ∀ x, |fl x - x| ≤ u * |x|) :
    ∀ (l : List α) (acc acc' : α) (m : Nat), 0 ≤ acc → (∀ x ∈ l, 0 ≤ x) → acc + l.sum ≤ B →
      |acc' - acc| ≤ ((1 + u) ^ m - 1) * B →
      ∀ r < l.length, |(flCumsumFrom fl acc' l).getD r 0 - (Np.cumsumFrom acc l).getD r 0|
        ≤ ((1 + u) ^ (m + r + 1) - 1) * B := by
  intro l
  induction l with
  | nil => intro _ _ _ _ _ _ _ r hr; simp at hr
  | cons a as ih =>
    intro acc acc' m hacc hnn hB hstart r hr
    have ha : 0 ≤ a := hnn a List.mem_cons_self
    have hnn' : ∀ x ∈ as, 0 ≤ x := fun x hx => hnn x (List.mem_cons_of_mem _ hx)
    have hsum : 0 ≤ as.sum := List.sum_nonneg hnn'
    rw [List.sum_cons] at hB
    have hB0 : 0 ≤ B := by linarith
    have hpow := one_le_one_add_pow u hu m
    -- the first entry
    have hfirst : |fl (acc' + a) - (acc + a)| ≤ ((1 + u) ^ (m + 1) - 1) * B := by
      have h1 := hfl (acc' + a)
      have h2 : |acc' + a| ≤ (1 + u) ^ m * B := by
        have : |acc' + a| ≤ |acc' - acc| + |acc + a| := by
          have := abs_add_le (acc' - acc) (acc + a)
          rwa [show acc' - acc + (acc + a) = acc' + a by ring] at this
        have h3 : |acc + a| = acc + a := abs_of_nonneg (by linarith)
        nlinarith
      have h4 : |fl (acc' + a) - (acc + a)| ≤ |fl (acc' + a) - (acc' + a)| + |acc' - acc| := by
        have := abs_add_le (fl (acc' + a) - (acc' + a)) (acc' - acc)
        rwa [show fl (acc' + a) - (acc' + a) + (acc' - acc) = fl (acc' + a) - (acc + a) by ring] at this
      have h5 : u * |acc' + a| ≤ u * ((1 + u) ^ m * B) := mul_le_mul_of_nonneg_left h2 hu
      calc |fl (acc' + a) - (acc + a)| ≤ u * ((1 + u) ^ m * B) + ((1 + u) ^ m - 1) * B := by linarith
        _ = ((1 + u) ^ (m + 1) - 1) * B := by ring
    cases r with
    | zero => simpa [flCumsumFrom, Np.cumsumFrom] using hfirst
    | succ r =>
      have hr' : r < as.length := by simpa using hr
      have := ih (acc + a) (fl (acc' + a)) (m + 1) (by linarith) hnn' (by linarith) hfirst r hr'
      simp only [flCumsumFrom, Np.cumsumFrom, List.getD_eq_getElem?_getD, List.getElem?_cons_succ] at this ⊢
      rwa [show m + (r + 1) + 1 = m + 1 + r + 1 by ring]

/-- `numpy.cumsum` of non-negative weights under the standard model: entry `r` is within `((1+u)^n - 1)·Σw` of
    the exact cumulative weight (`n` = number of weights) -/
theorem flCumsum_err (fl : α → α) (u : α) (hu : 0 ≤ u) (hfl : ∀ x, |fl x - x| ≤ u * |x|)
    (w : List α) (hw : ∀ x ∈ w, 0 ≤ x) (r : Nat) (hr : r < w.length) :
    |(flCumsum fl w).getD r 0 - (Np.cumsum w).getD r 0| ≤ ((1 + u) ^ w.length - 1) * w.sum := by
  have h := flCumsumFrom_err fl u w.sum hu hfl w 0 0 0 le_rfl hw (by simp) (by simp) r hr
  refine h.trans (mul_le_mul_of_nonneg_right ?_ (List.sum_nonneg hw))
  have := one_add_pow_mono u hu (show 0 + r + 1 ≤ w.length by omega)
  linarith

/-- one pointer `fl (o + fl (j * d'))` of `offset + ptr_dist * numpy.arange(k)`: with `0 ≤ o`, `o + j·d ≤ T`
    and the computed spacing `d'` within `η·d` of the exact spacing `d`, it is within `((1+u)²(1+η) - 1)·T` of the
    exact pointer `o + j·d` -/
theorem flPointer_err (fl : α → α) (u η : α) (hu : 0 ≤ u) (hfl : ∀ x, |fl x - x| ≤ u * |x|)
    (o d d' T : α) (j : Nat) (ho : 0 ≤ o) (hd : 0 ≤ d) (hη0' : 0 ≤ η) (hη : |d' - d| ≤ η * d)
    (hT : o + (j : α) * d ≤ T) :
    |fl (o + fl ((j : α) * d')) - (o + (j : α) * d)| ≤ ((1 + u) ^ 2 * (1 + η) - 1) * T := by
  have hj : (0 : α) ≤ (j : α) := Nat.cast_nonneg j
  have hjd : 0 ≤ (j : α) * d := mul_nonneg hj hd
  have hη0 : 0 ≤ η * d := (abs_nonneg _).trans hη
  -- the rounded product
  set X := (1 + u) * (1 + η) - 1 with hX
  have hd' : |d'| ≤ (1 + η) * d := by
    have := abs_add_le (d' - d) d
    rw [show d' - d + d = d' by ring, abs_of_nonneg hd] at this
    linarith
  have hm : |fl ((j : α) * d') - (j : α) * d| ≤ X * ((j : α) * d) := by
    have h1 := hfl ((j : α) * d')
    have h2 : |(j : α) * d'| ≤ (j : α) * ((1 + η) * d) := by
      rw [abs_mul, abs_of_nonneg hj]; exact mul_le_mul_of_nonneg_left hd' hj
    have h3 : |(j : α) * d' - (j : α) * d| ≤ (j : α) * (η * d) := by
      rw [← mul_sub, abs_mul, abs_of_nonneg hj]; exact mul_le_mul_of_nonneg_left hη hj
    have h4 := abs_add_le (fl ((j : α) * d') - (j : α) * d') ((j : α) * d' - (j : α) * d)
    rw [show fl ((j : α) * d') - (j : α) * d' + ((j : α) * d' - (j : α) * d) = fl ((j : α) * d') - (j : α) * d by ring] at h4
    have h5 : u * |(j : α) * d'| ≤ u * ((j : α) * ((1 + η) * d)) := mul_le_mul_of_nonneg_left h2 hu
    calc |fl ((j : α) * d') - (j : α) * d| ≤ u * ((j : α) * ((1 + η) * d)) + (j : α) * (η * d) := by linarith
      _ = X * ((j : α) * d) := by rw [hX]; ring
  have hX0 : 0 ≤ X * ((j : α) * d) := (abs_nonneg _).trans hm
  -- the rounded sum
  have h6 := hfl (o + fl ((j : α) * d'))
  have h7 : |o + fl ((j : α) * d')| ≤ o + (j : α) * d + X * ((j : α) * d) := by
    have := abs_add_le (o + (j : α) * d) (fl ((j : α) * d') - (j : α) * d)
    rw [show o + (j : α) * d + (fl ((j : α) * d') - (j : α) * d) = o + fl ((j : α) * d') by ring,
      abs_of_nonneg (by linarith : 0 ≤ o + (j : α) * d)] at this
    linarith
  have h8 := abs_add_le (fl (o + fl ((j : α) * d')) - (o + fl ((j : α) * d'))) (fl ((j : α) * d') - (j : α) * d)
  rw [show fl (o + fl ((j : α) * d')) - (o + fl ((j : α) * d')) + (fl ((j : α) * d') - (j : α) * d)
    = fl (o + fl ((j : α) * d')) - (o + (j : α) * d) by ring] at h8
  have h9 : u * |o + fl ((j : α) * d')| ≤ u * (o + (j : α) * d + X * ((j : α) * d)) :=
    mul_le_mul_of_nonneg_left h7 hu
  have hjT : (j : α) * d ≤ T := by linarith
  have hT0 : 0 ≤ T := by linarith
  have hXn : 0 ≤ X := by
    rw [hX]; nlinarith [mul_nonneg hu hη0']
  have hJ : X * ((j : α) * d) ≤ X * T := mul_le_mul_of_nonneg_left hjT hXn
  calc |fl (o + fl ((j : α) * d')) - (o + (j : α) * d)|
      ≤ u * (o + (j : α) * d + X * ((j : α) * d)) + X * ((j : α) * d) := by linarith
    _ ≤ u * (T + X * T) + X * T := by
        have : u * (o + (j : α) * d + X * ((j : α) * d)) ≤ u * (T + X * T) :=
          mul_le_mul_of_nonneg_left (by linarith) hu
        linarith
    _ = ((1 + u) ^ 2 * (1 + η) - 1) * T := by rw [hX]; ring

/-- the computed spacing `fl (T'/k)` from a computed total `T'` within `γ·T` of the exact total: within
    `((1+u)(1+γ) - 1)·(T/k)` of the exact spacing -/
theorem flSpacing_err (fl : α → α) (u γ : α) (hu : 0 ≤ u) (hfl : ∀ x, |fl x - x| ≤ u * |x|)
    (T T' : α) (k : Nat) (hk : k ≠ 0) (hT : 0 ≤ T) (hγ : |T' - T| ≤ γ * T) :
    |fl (T' / (k : α)) - T / (k : α)| ≤ ((1 + u) * (1 + γ) - 1) * (T / (k : α)) := by
  have hkpos : (0 : α) < (k : α) := Nat.cast_pos.mpr (Nat.pos_of_ne_zero hk)
  have h1 := hfl (T' / (k : α))
  have h2 : |T' / (k : α) - T / (k : α)| ≤ γ * (T / (k : α)) := by
    rw [← sub_div, abs_div, abs_of_pos hkpos, ← mul_div_assoc]
    exact div_le_div_of_nonneg_right hγ hkpos.le
  have h3 : |T' / (k : α)| ≤ (1 + γ) * (T / (k : α)) := by
    have := abs_add_le (T' / (k : α) - T / (k : α)) (T / (k : α))
    rw [show T' / (k : α) - T / (k : α) + T / (k : α) = T' / (k : α) by ring,
      abs_of_nonneg (div_nonneg hT hkpos.le)] at this
    linarith
  have h4 := abs_add_le (fl (T' / (k : α)) - T' / (k : α)) (T' / (k : α) - T / (k : α))
  rw [show fl (T' / (k : α)) - T' / (k : α) + (T' / (k : α) - T / (k : α)) = fl (T' / (k : α)) - T / (k : α) by ring] at h4
  have h5 : u * |T' / (k : α)| ≤ u * ((1 + γ) * (T / (k : α))) := mul_le_mul_of_nonneg_left h3 hu
  calc |fl (T' / (k : α)) - T / (k : α)| ≤ u * ((1 + γ) * (T / (k : α))) + γ * (T / (k : α)) := by linarith
    _ = ((1 + u) * (1 + γ) - 1) * (T / (k : α)) := by ring

end fl
end Sampling
