/-
Helper lemmas for C01, converse of `PedCheck.lean`: if the joint pedigree test accepts an individual
(and the term only names taxa of the parental matrix) then the individual satisfies the term, i.e. the
intermediate hybrids exist.  Together: `pedCheck` decides `lineage`.
 * `bits_mosaic`     one bit per marker, changing only where xo > 0  ⇒  `Mosaic [h0, h1]`
 * `states_sat`      an explaining run of hidden states  ⇒  `Ped.sat`   (the hybrids are read off the run)
 * `run_of_pedDP`    the reachability test succeeds  ⇒  there is an explaining run
-/
import Mathlib.Tactic
import PybropsModel.Lemmas.PedCheck
set_option autoImplicit false
set_option linter.unusedSectionVars false

namespace Mating
open Meiosis
variable {α ρ : Type}

section
variable [Preorder ρ] [DecidableLT ρ] [Zero ρ]

/-- switches of a bit-valued function of the marker are legal w.r.t. `xo` from marker `k` on -/
def Legal {β : Type} (xo : List ρ) (b : Nat → β) : Prop :=
  ∀ j, j + 1 < xo.length → b (j + 1) ≠ b j → ∃ x, xo[j + 1]? = some x ∧ 0 < x

theorem bits_mosaicFrom : ∀ (xo : List ρ) (h0 h1 g cur : List α) (b : Nat → Bool),
    h0.length = xo.length → h1.length = xo.length → g.length = xo.length →
    (∀ j, j < xo.length → g[j]? = (if b j then h1 else h0)[j]?) →
    Legal xo b →
    (cur = (if b 0 then h1 else h0) ∨ ∀ x, xo.head? = some x → 0 < x) →
    MosaicFrom cur [h0, h1] xo g := by
  intro xo
  induction xo with
  | nil =>
    intro h0 h1 g cur b _ _ lg _ _ _
    have : g = [] := by simpa using lg
    subst this
    simp [MosaicFrom]
  | cons x xs ih =>
    intro h0 h1 g cur b l0 l1 lg hcell hleg hcur
    cases h0 with
    | nil => simp at l0
    | cons a0 t0 =>
    cases h1 with
    | nil => simp at l1
    | cons a1 t1 =>
    cases g with
    | nil => simp at lg
    | cons a g' =>
      simp only [MosaicFrom, List.map_cons, List.map_nil, List.tail_cons]
      refine ⟨if b 0 then a1 :: t1 else a0 :: t0, ?_, ?_, ?_, ?_⟩
      · split <;> simp
      · rcases hcur with h | h
        · exact Or.inl h.symm
        · exact Or.inr (h x rfl)
      · have := hcell 0 (by simp)
        simp only [List.getElem?_cons_zero] at this
        cases hb : b 0 <;> simp [hb] at this ⊢ <;> exact this.symm
      · have htail : (if b 0 then a1 :: t1 else a0 :: t0).tail = (if b 0 then t1 else t0) := by
          split <;> rfl
        rw [htail]
        apply ih t0 t1 g' _ (fun j => b (j + 1)) (by simpa using l0) (by simpa using l1) (by simpa using lg)
        · intro j hj
          have := hcell (j + 1) (by simpa using hj)
          simp only [List.getElem?_cons_succ] at this
          rw [this]
          cases b (j + 1) <;> simp
        · intro j hj hne
          have := hleg (j + 1) (by simpa using hj) hne
          simpa using this
        · by_cases he : b 1 = b 0
          · left; simp only [Nat.zero_add, he]
          · right
            intro y hy
            cases xs with
            | nil => simp at hy
            | cons x' xs' =>
              have := hleg 0 (by simp) (by simpa using he)
              simp only [Nat.zero_add, List.getElem?_cons_succ, List.getElem?_cons_zero] at this
              obtain ⟨z, hz, hpos⟩ := this
              simp only [List.head?_cons] at hy
              cases hy
              cases hz
              exact hpos

theorem bits_mosaic {xo : List ρ} {h0 h1 g : List α} (b : Nat → Bool)
    (l0 : h0.length = xo.length) (l1 : h1.length = xo.length) (lg : g.length = xo.length)
    (hcell : ∀ j, j < xo.length → g[j]? = (if b j then h1 else h0)[j]?) (hleg : Legal xo b) :
    Mosaic [h0, h1] xo g :=
  ⟨if b 0 then h1 else h0, by split <;> simp, bits_mosaicFrom xo h0 h1 g _ b l0 l1 lg hcell hleg (Or.inl rfl)⟩

/-- every leaf of the term is a taxon of the matrix -/
def Ped.valid (pop : Pop α) : Ped → Prop
  | .leaf s => s < pop.length
  | .cross f m => f.valid pop ∧ m.valid pop
  | .self h => h.valid pop
  | .dh h => h.valid pop

theorem allele_total {xo : List ρ} {pop : Pop α} (hs : Shaped xo pop) : ∀ (t : Ped), t.valid pop →
    ∀ (j : Nat) (k : Bool) (σ : List Bool), j < xo.length → ∃ a, t.allele pop j k σ = some a := by
  intro t
  induction t with
  | leaf s =>
    intro hv j k σ hj
    have hv' : s < pop.length := hv
    have hmem : pop[s] ∈ pop := List.getElem_mem hv'
    simp only [Ped.allele, List.getElem?_eq_getElem hv', Option.bind_some]
    cases k
    · exact ⟨_, List.getElem?_eq_getElem (by simp; rw [(hs _ hmem).1]; exact hj)⟩
    · exact ⟨_, List.getElem?_eq_getElem (by simp; rw [(hs _ hmem).2]; exact hj)⟩
  | cross f m ihf ihm =>
    intro hv j k σ hj
    cases k
    · simpa [Ped.allele] using ihf hv.1 j _ _ hj
    · simpa [Ped.allele] using ihm hv.2 j _ _ hj
  | self h ih =>
    intro hv j k σ hj
    simpa [Ped.allele] using ih hv j _ _ hj
  | dh h ih =>
    intro hv j k σ hj
    simpa [Ped.allele] using ih hv j _ _ hj

theorem exists_list (n : Nat) (f : Nat → Option α) (h : ∀ j, j < n → ∃ a, f j = some a) :
    ∃ l : List α, l.length = n ∧ ∀ j, j < n → l[j]? = f j := by
  induction n with
  | zero => exact ⟨[], rfl, by simp⟩
  | succ n ih =>
    obtain ⟨l, hl, hc⟩ := ih (fun j hj => h j (by omega))
    obtain ⟨a, ha⟩ := h n (by omega)
    refine ⟨l ++ [a], by simp [hl], ?_⟩
    intro j hj
    by_cases hjn : j < n
    · rw [List.getElem?_append_left (by omega)]; exact hc j hjn
    · have : j = n := by omega
      subst this
      rw [List.getElem?_append_right (by omega), hl]; simpa using ha.symm

theorem eq_of_getElem? {l1 l2 : List α} {n : Nat} (h1 : l1.length = n) (h2 : l2.length = n)
    (h : ∀ j, j < n → l1[j]? = l2[j]?) : l1 = l2 := by
  apply List.ext_getElem?
  intro j
  by_cases hj : j < n
  · exact h j hj
  · rw [List.getElem?_eq_none (by omega), List.getElem?_eq_none (by omega)]

/-- an explaining, legal run of hidden states yields the hybrids: the individual satisfies the term -/
theorem states_sat {xo : List ρ} {pop : Pop α} (hs : Shaped xo pop) : ∀ (t : Ped), t.valid pop →
    ∀ (c : Ind α) (σ : Nat → List Bool), c.1.length = xo.length → c.2.length = xo.length →
      Reads pop t c σ xo.length → Legal xo σ → t.sat xo pop c := by
  intro t
  induction t with
  | leaf s =>
    intro hv c σ l1 l2 hr _
    have hv' : s < pop.length := hv
    have hmem : pop[s] ∈ pop := List.getElem_mem hv'
    show pop[s]? = some c
    rw [List.getElem?_eq_getElem hv']
    congr 1
    have e1 : c.1 = pop[s].1 := eq_of_getElem? l1 (hs _ hmem).1 (fun j hj => by
      have := (hr j hj).1
      simpa [Ped.allele, List.getElem?_eq_getElem hv'] using this)
    have e2 : c.2 = pop[s].2 := eq_of_getElem? l2 (hs _ hmem).2 (fun j hj => by
      have := (hr j hj).2
      simpa [Ped.allele, List.getElem?_eq_getElem hv'] using this)
    exact (Prod.ext e1 e2).symm
  | cross f m ihf ihm =>
    intro hv c σ l1 l2 hr hleg
    let σF : Nat → List Bool := fun j => ((σ j).drop 2).take f.bits
    let σM : Nat → List Bool := fun j => ((σ j).drop 2).drop f.bits
    let bf : Nat → Bool := fun j => (σ j).getD 0 false
    let bm : Nat → Bool := fun j => (σ j).getD 1 false
    have legOf : ∀ {β : Type} (g : List Bool → β), Legal xo (fun j => g (σ j)) := by
      intro β g j hj hne
      exact hleg j hj (fun he => hne (by simp only [he]))
    obtain ⟨F1, lF1, cF1⟩ := exists_list xo.length (fun j => f.allele pop j false (σF j))
      (fun j hj => allele_total hs f hv.1 j _ _ hj)
    obtain ⟨F2, lF2, cF2⟩ := exists_list xo.length (fun j => f.allele pop j true (σF j))
      (fun j hj => allele_total hs f hv.1 j _ _ hj)
    obtain ⟨M1, lM1, cM1⟩ := exists_list xo.length (fun j => m.allele pop j false (σM j))
      (fun j hj => allele_total hs m hv.2 j _ _ hj)
    obtain ⟨M2, lM2, cM2⟩ := exists_list xo.length (fun j => m.allele pop j true (σM j))
      (fun j hj => allele_total hs m hv.2 j _ _ hj)
    have sF : f.sat xo pop (F1, F2) := ihf hv.1 (F1, F2) σF lF1 lF2
      (fun j hj => ⟨cF1 j hj, cF2 j hj⟩) (legOf (fun s => (s.drop 2).take f.bits))
    have sM : m.sat xo pop (M1, M2) := ihm hv.2 (M1, M2) σM lM1 lM2
      (fun j hj => ⟨cM1 j hj, cM2 j hj⟩) (legOf (fun s => (s.drop 2).drop f.bits))
    refine ⟨(F1, F2), (M1, M2), sF, sM, ?_, ?_⟩
    · refine bits_mosaic bf lF1 lF2 l1 (fun j hj => ?_) (legOf (fun s => s.getD 0 false))
      have := (hr j hj).1
      simp only [Ped.allele, Bool.false_eq_true, if_false] at this
      rw [this]
      show f.allele pop j (bf j) (σF j) = _
      cases hb : bf j
      · simpa using (cF1 j hj).symm
      · simpa using (cF2 j hj).symm
    · refine bits_mosaic bm lM1 lM2 l2 (fun j hj => ?_) (legOf (fun s => s.getD 1 false))
      have := (hr j hj).2
      simp only [Ped.allele, if_true] at this
      rw [this]
      show m.allele pop j (bm j) (σM j) = _
      cases hb : bm j
      · simpa using (cM1 j hj).symm
      · simpa using (cM2 j hj).symm
  | self h ih =>
    intro hv c σ l1 l2 hr hleg
    let σH : Nat → List Bool := fun j => (σ j).drop 2
    let b1 : Nat → Bool := fun j => (σ j).getD 0 false
    let b2 : Nat → Bool := fun j => (σ j).getD 1 false
    have legOf : ∀ {β : Type} (g : List Bool → β), Legal xo (fun j => g (σ j)) := by
      intro β g j hj hne
      exact hleg j hj (fun he => hne (by simp only [he]))
    obtain ⟨H1, lH1, cH1⟩ := exists_list xo.length (fun j => h.allele pop j false (σH j))
      (fun j hj => allele_total hs h hv j _ _ hj)
    obtain ⟨H2, lH2, cH2⟩ := exists_list xo.length (fun j => h.allele pop j true (σH j))
      (fun j hj => allele_total hs h hv j _ _ hj)
    have sH : h.sat xo pop (H1, H2) := ih hv (H1, H2) σH lH1 lH2
      (fun j hj => ⟨cH1 j hj, cH2 j hj⟩) (legOf (fun s => s.drop 2))
    refine ⟨(H1, H2), sH, ?_, ?_⟩
    · refine bits_mosaic b1 lH1 lH2 l1 (fun j hj => ?_) (legOf (fun s => s.getD 0 false))
      have := (hr j hj).1
      simp only [Ped.allele, Bool.false_eq_true, if_false] at this
      rw [this]
      show h.allele pop j (b1 j) (σH j) = _
      cases hb : b1 j
      · simpa using (cH1 j hj).symm
      · simpa using (cH2 j hj).symm
    · refine bits_mosaic b2 lH1 lH2 l2 (fun j hj => ?_) (legOf (fun s => s.getD 1 false))
      have := (hr j hj).2
      simp only [Ped.allele, if_true] at this
      rw [this]
      show h.allele pop j (b2 j) (σH j) = _
      cases hb : b2 j
      · simpa using (cH1 j hj).symm
      · simpa using (cH2 j hj).symm
  | dh h ih =>
    intro hv c σ l1 l2 hr hleg
    let σH : Nat → List Bool := fun j => (σ j).drop 1
    let b1 : Nat → Bool := fun j => (σ j).getD 0 false
    have legOf : ∀ {β : Type} (g : List Bool → β), Legal xo (fun j => g (σ j)) := by
      intro β g j hj hne
      exact hleg j hj (fun he => hne (by simp only [he]))
    obtain ⟨H1, lH1, cH1⟩ := exists_list xo.length (fun j => h.allele pop j false (σH j))
      (fun j hj => allele_total hs h hv j _ _ hj)
    obtain ⟨H2, lH2, cH2⟩ := exists_list xo.length (fun j => h.allele pop j true (σH j))
      (fun j hj => allele_total hs h hv j _ _ hj)
    have sH : h.sat xo pop (H1, H2) := ih hv (H1, H2) σH lH1 lH2
      (fun j hj => ⟨cH1 j hj, cH2 j hj⟩) (legOf (fun s => s.drop 1))
    refine ⟨(H1, H2), sH, ?_, ?_⟩
    · refine bits_mosaic b1 lH1 lH2 l1 (fun j hj => ?_) (legOf (fun s => s.getD 0 false))
      have := (hr j hj).1
      simp only [Ped.allele] at this
      rw [this]
      show h.allele pop j (b1 j) (σH j) = _
      cases hb : b1 j
      · simpa using (cH1 j hj).symm
      · simpa using (cH2 j hj).symm
    · exact eq_of_getElem? l1 l2 (fun j hj => by
        rw [(hr j hj).1, (hr j hj).2]
        simp only [Ped.allele])

/-- if the reachability test succeeds there is an explaining, legal run of states -/
theorem run_of_pedDP {S : Type} [Inhabited S] (all : List S) (ok : S → Nat → Bool) :
    ∀ (xs : List ρ) (reach : List S) (j : Nat), (∀ s ∈ reach, s ∈ all) →
      pedDP all ok reach j xs = true →
      ∃ ss : List S, ss.length = xs.length ∧ (∀ i (h : i < ss.length), ss[i] ∈ all ∧ ok ss[i] (j + i) = true) ∧
        (∀ i (h : i + 1 < ss.length), ss[i + 1] ≠ ss[i]'(by omega) → ∃ x, xs[i + 1]? = some x ∧ 0 < x) ∧
        (∀ (h : 0 < ss.length), ss[0] ∈ reach ∨ ∃ x, xs[0]? = some x ∧ 0 < x) := by
  intro xs
  induction xs with
  | nil => intro reach j _ _; exact ⟨[], rfl, by simp, by simp, by simp⟩
  | cons x xs ih =>
    intro reach j hsub h
    simp only [pedDP] at h
    set cand := (if (decide (0 < x) && !reach.isEmpty) = true then all else reach) with hcand
    have hcsub : ∀ s ∈ cand.filter (fun σ => ok σ j), s ∈ all := by
      intro s hs'
      have := (List.mem_filter.mp hs').1
      rw [hcand] at this
      split at this
      · exact this
      · exact hsub s this
    obtain ⟨ss, hl, hok, hsw, hhead⟩ := ih _ (j + 1) hcsub h
    -- the state at marker j: the first state of the tail if it is a candidate surviving here, else any survivor
    have hne : cand.filter (fun σ => ok σ j) ≠ [] := by
      intro he
      rw [he] at h
      cases xs with
      | nil => simp [pedDP] at h
      | cons x' xs' =>
        -- an empty reach set stays empty
        have : ∀ (ys : List ρ) (k : Nat), pedDP all ok ([] : List S) k ys = false := by
          intro ys
          induction ys with
          | nil => intro k; simp [pedDP]
          | cons y ys ihy => intro k; simp [pedDP, ihy]
        rw [this] at h
        exact Bool.noConfusion h
    have pick : ∃ s0, s0 ∈ cand.filter (fun σ => ok σ j) ∧
        (∀ (h : 0 < ss.length), ss[0] = s0 ∨ ∃ x', xs[0]? = some x' ∧ 0 < x') := by
      by_cases hz : 0 < ss.length
      · rcases hhead hz with hin | hx
        · exact ⟨ss[0], hin, fun _ => Or.inl rfl⟩
        · obtain ⟨s0, hs0⟩ := List.exists_mem_of_ne_nil _ hne
          exact ⟨s0, hs0, fun _ => Or.inr hx⟩
      · obtain ⟨s0, hs0⟩ := List.exists_mem_of_ne_nil _ hne
        exact ⟨s0, hs0, fun h => absurd h hz⟩
    obtain ⟨s0, hs0, hlink⟩ := pick
    have hs0' := List.mem_filter.mp hs0
    refine ⟨s0 :: ss, by simp [hl], ?_, ?_, ?_⟩
    · intro i hi
      cases i with
      | zero => exact ⟨hcsub s0 hs0, by simpa using hs0'.2⟩
      | succ i =>
        have := hok i (by simpa using hi)
        simp only [List.getElem_cons_succ]
        rw [show j + (i + 1) = j + 1 + i by omega]
        exact this
    · intro i hi hne'
      cases i with
      | zero =>
        have hz : 0 < ss.length := by simpa using hi
        rcases hlink hz with he | hx
        · exact absurd (by simpa using he) hne'
        · simpa using hx
      | succ i =>
        have := hsw i (by simpa using hi) (by simpa using hne')
        simpa using this
    · intro _
      have hin : s0 ∈ cand := hs0'.1
      rw [hcand] at hin
      split at hin
      · rename_i hc
        right
        simp only [Bool.and_eq_true, decide_eq_true_eq] at hc
        exact ⟨x, rfl, hc.1⟩
      · left; simpa using hin

variable [BEq α] [LawfulBEq α]

/-- the joint pedigree test accepts only individuals that satisfy the term -/
theorem sat_of_pedCheck {xo : List ρ} {pop : Pop α} (hs : Shaped xo pop) (t : Ped) (hv : t.valid pop) (c : Ind α)
    (h : pedCheck t pop xo c = true) : t.sat xo pop c := by
  simp only [pedCheck, Bool.and_eq_true, beq_iff_eq] at h
  obtain ⟨⟨l1, l2⟩, hdp⟩ := h
  obtain ⟨ss, hl, hok, hsw, _⟩ := run_of_pedDP (allStates t.bits) (pedOK t pop c) xo _ 0 (fun s hs' => hs') hdp
  refine states_sat hs t hv c (fun j => ss.getD j []) l1 l2 ?_ ?_
  · intro j hj
    have hj' : j < ss.length := by omega
    have := (hok j hj').2
    simp only [pedOK, Nat.zero_add, Bool.and_eq_true, beq_iff_eq] at this
    simp only [List.getD_eq_getElem?_getD, List.getElem?_eq_getElem hj', Option.getD_some]
    exact this
  · intro j hj hne
    have hj' : j + 1 < ss.length := by omega
    apply hsw j hj'
    simp only [List.getD_eq_getElem?_getD, List.getElem?_eq_getElem hj',
      List.getElem?_eq_getElem (show j < ss.length by omega), Option.getD_some] at hne
    exact hne

theorem pedSelf_valid (pop : Pop α) : ∀ (n : Nat) (t : Ped), t.valid pop → (pedSelf n t).valid pop
  | 0, _, h => h
  | n + 1, t, h => pedSelf_valid pop n (.self t) h

theorem pedOf_valid (pop : Pop α) (P : Proto) (nself : Nat) (cr : List Nat)
    (h : ∀ k, k < P.nparent → cr.getD k 0 < pop.length) : (pedOf P nself cr).valid pop := by
  cases P <;> simp only [pedOf] <;>
    exact pedSelf_valid pop nself _ (by
      simp only [Ped.valid]
      refine ⟨?_, ?_⟩ <;>
        first
        | exact h _ (by decide)
        | (constructor <;> exact h _ (by decide)))

/-- the joint pedigree test decides the prescribed lineage -/
theorem pedCheck_iff_lineage {xo : List ρ} {pop : Pop α} (hs : Shaped xo pop) (P : Proto) (nself : Nat)
    (cr : List Nat) (hv : ∀ k, k < P.nparent → cr.getD k 0 < pop.length) (c : Ind α) :
    pedCheck (pedOf P nself cr) pop xo c = true ↔ lineage xo P nself pop cr c := by
  rw [lineage_eq_sat]
  exact ⟨sat_of_pedCheck hs _ (pedOf_valid pop P nself cr hv) c, pedCheck_of_sat hs _ c⟩

end

end Mating