/-
Lemmas/LabelHeap.lean — the heap semantics with shared label arrays refines the value semantics:
because allocation only appends, a successful read persists, so every stored object keeps denoting its value
whatever is stored later; hence a history over several live objects that share arrays computes, object by object,
exactly what the purely functional model computes.
-/
import PybropsModel.Model.LabelHeap
import Mathlib.Tactic

set_option autoImplicit false
set_option linter.unusedVariables false

namespace LabelHeap
open LabelMat

variable {α lab : Type}

/-! ### reads persist under allocation -/

theorem getElem?_append_some {β : Type} (h more : List β) (a : Nat) (x : β) (hx : h[a]? = some x) :
    (h ++ more)[a]? = some x := by
  have hlt : a < h.length := (List.getElem?_eq_some_iff.mp hx).1
  rw [List.getElem?_append_left hlt, hx]

theorem getData_ext (h more : Heap α lab) (a : Addr) (m : Mat3 α) (hx : getData h a = some m) :
    getData (h ++ more) a = some m := by
  unfold getData at hx ⊢
  cases hh : h[a]? with
  | none => rw [hh] at hx; cases hx
  | some x => rw [getElem?_append_some h more a x hh]; rw [hh] at hx; exact hx

theorem getLab_ext (h more : Heap α lab) (a : Addr) (l : List lab) (hx : getLab h a = some l) :
    getLab (h ++ more) a = some l := by
  unfold getLab at hx ⊢
  cases hh : h[a]? with
  | none => rw [hh] at hx; cases hx
  | some x => rw [getElem?_append_some h more a x hh]; rw [hh] at hx; exact hx

theorem getIdx_ext (h more : Heap α lab) (a : Addr) (l : List Nat) (hx : getIdx h a = some l) :
    getIdx (h ++ more) a = some l := by
  unfold getIdx at hx ⊢
  cases hh : h[a]? with
  | none => rw [hh] at hx; cases hx
  | some x => rw [getElem?_append_some h more a x hh]; rw [hh] at hx; exact hx

theorem viewCol_ext (h more : Heap α lab) (c : Option Addr) (r : Option (List lab)) (hx : viewCol h c = some r) :
    viewCol (h ++ more) c = some r := by
  cases c with
  | none => exact hx
  | some a =>
    simp only [viewCol] at hx ⊢
    cases hl : getLab h a with
    | none => rw [hl] at hx; cases hx
    | some l => rw [getLab_ext h more a l hl]; rw [hl] at hx; exact hx

theorem mapM_viewCol_ext (h more : Heap α lab) : ∀ (cs : List (Option Addr)) (rs : List (Option (List lab))),
    cs.mapM (viewCol h) = some rs → cs.mapM (viewCol (h ++ more)) = some rs
  | [], rs, hx => hx
  | c :: cs, rs, hx => by
    simp only [List.mapM_cons, bind, pure] at hx ⊢
    cases h1 : viewCol h c with
    | none => rw [h1] at hx; cases hx
    | some r =>
      rw [h1] at hx
      simp only [Option.bind_some] at hx
      cases h2 : cs.mapM (viewCol h) with
      | none => rw [h2] at hx; cases hx
      | some rs' =>
        rw [h2] at hx
        rw [viewCol_ext h more c r h1, mapM_viewCol_ext h more cs rs' h2]
        exact hx

theorem viewGrp_ext (h more : Heap α lab) (g : Option GrpRef) (r : Option (Grp lab)) (hx : viewGrp h g = some r) :
    viewGrp (h ++ more) g = some r := by
  cases g with
  | none => exact hx
  | some g =>
    simp only [viewGrp] at hx ⊢
    cases h1 : getLab h g.name with
    | none => rw [h1] at hx; cases hx
    | some n =>
      cases h2 : getIdx h g.stix with
      | none => rw [h1, h2] at hx; cases hx
      | some st =>
        cases h3 : getIdx h g.spix with
        | none => rw [h1, h2, h3] at hx; cases hx
        | some sp =>
          cases h4 : getIdx h g.len with
          | none => rw [h1, h2, h3, h4] at hx; cases hx
          | some ln =>
            rw [h1, h2, h3, h4] at hx
            rw [getLab_ext h more _ n h1, getIdx_ext h more _ st h2, getIdx_ext h more _ sp h3,
              getIdx_ext h more _ ln h4]
            exact hx

theorem viewBundle_ext (h more : Heap α lab) (b : BundleRef) (r : Bundle lab) (hx : viewBundle h b = some r) :
    viewBundle (h ++ more) b = some r := by
  unfold viewBundle at hx ⊢
  cases h1 : b.cols.mapM (viewCol h) with
  | none => rw [h1] at hx; cases hx
  | some cols =>
    cases h2 : viewGrp h b.grp with
    | none => rw [h1, h2] at hx; cases hx
    | some grp =>
      rw [h1, h2] at hx
      rw [mapM_viewCol_ext h more _ cols h1, viewGrp_ext h more _ grp h2]
      exact hx

/-- **a stored object keeps denoting its value whatever is allocated later** -/
theorem view_ext (h more : Heap α lab) (o : Obj) (s : St α lab) (hx : view h o = some s) :
    view (h ++ more) o = some s := by
  unfold view at hx ⊢
  cases h0 : getData h o.mat with
  | none => rw [h0] at hx; cases hx
  | some m =>
    cases h1 : viewBundle h o.taxa with
    | none => rw [h0, h1] at hx; cases hx
    | some t =>
      cases h2 : viewBundle h o.vrnt with
      | none => rw [h0, h1, h2] at hx; cases hx
      | some v =>
        cases h3 : viewBundle h o.trait with
        | none => rw [h0, h1, h2, h3] at hx; cases hx
        | some r =>
          rw [h0, h1, h2, h3] at hx
          rw [getData_ext h more _ m h0, viewBundle_ext h more _ t h1, viewBundle_ext h more _ v h2,
            viewBundle_ext h more _ r h3]
          exact hx

/-! ### what allocation stores -/

/-- `h'` extends `h` by appended arrays only -/
def Ext (h h' : Heap α lab) : Prop := ∃ more, h' = h ++ more

theorem Ext.refl (h : Heap α lab) : Ext h h := ⟨[], by simp⟩

theorem Ext.trans {h1 h2 h3 : Heap α lab} (a : Ext h1 h2) (b : Ext h2 h3) : Ext h1 h3 := by
  obtain ⟨m1, rfl⟩ := a
  obtain ⟨m2, rfl⟩ := b
  exact ⟨m1 ++ m2, by simp⟩

theorem Ext.view {h h' : Heap α lab} (e : Ext h h') (o : Obj) (s : St α lab) (hx : view h o = some s) :
    view h' o = some s := by
  obtain ⟨more, rfl⟩ := e
  exact view_ext h more o s hx

theorem Ext.viewBundle {h h' : Heap α lab} (e : Ext h h') (b : BundleRef) (r : Bundle lab)
    (hx : viewBundle h b = some r) : viewBundle h' b = some r := by
  obtain ⟨more, rfl⟩ := e
  exact viewBundle_ext h more b r hx

theorem Ext.getData {h h' : Heap α lab} (e : Ext h h') (a : Addr) (m : Mat3 α) (hx : getData h a = some m) :
    LabelHeap.getData h' a = some m := by
  obtain ⟨more, rfl⟩ := e
  exact getData_ext h more a m hx

theorem getLab_last (h : Heap α lab) (l : List lab) : getLab (h ++ [Arr.lab l]) h.length = some l := by
  simp [getLab]

theorem allocCols_spec : ∀ (h : Heap α lab) (cs : List (Option (List lab))),
    Ext h (allocCols h cs).1 ∧ (allocCols h cs).2.mapM (viewCol (allocCols h cs).1) = some cs
  | h, [] => ⟨Ext.refl h, rfl⟩
  | h, none :: cs => by
    obtain ⟨e, hv⟩ := allocCols_spec h cs
    refine ⟨e, ?_⟩
    simp only [allocCols, List.mapM_cons, bind, pure, viewCol, Option.bind_some]
    rw [hv]
    rfl
  | h, some l :: cs => by
    obtain ⟨e, hv⟩ := allocCols_spec (h ++ [Arr.lab l]) cs
    refine ⟨Ext.trans ⟨[Arr.lab l], rfl⟩ e, ?_⟩
    simp only [allocCols, List.mapM_cons, bind, pure]
    have h1 : viewCol (allocCols (h ++ [Arr.lab l]) cs).1 (some h.length) = some (some l) := by
      obtain ⟨more, hm⟩ := e
      rw [hm]
      simp only [viewCol]
      rw [getLab_ext _ more _ l (getLab_last h l)]
      rfl
    rw [h1]
    simp only [Option.bind_some]
    rw [hv]
    rfl

theorem allocGrp_spec (h : Heap α lab) (g : Option (Grp lab)) :
    Ext h (allocGrp h g).1 ∧ viewGrp (allocGrp h g).1 (allocGrp h g).2 = some g := by
  cases g with
  | none => exact ⟨Ext.refl h, rfl⟩
  | some g =>
    refine ⟨⟨_, rfl⟩, ?_⟩
    simp only [allocGrp, viewGrp, getLab, getIdx]
    simp [List.getElem?_append_right]

theorem allocBundle_spec (h : Heap α lab) (b : Bundle lab) :
    Ext h (allocBundle h b).1 ∧ viewBundle (allocBundle h b).1 (allocBundle h b).2 = some b := by
  obtain ⟨e1, v1⟩ := allocCols_spec h b.cols
  obtain ⟨e2, v2⟩ := allocGrp_spec (allocCols h b.cols).1 b.grp
  refine ⟨Ext.trans e1 e2, ?_⟩
  simp only [allocBundle, viewBundle]
  obtain ⟨more, hm⟩ := e2
  have v1' : (allocCols h b.cols).2.mapM (viewCol (allocGrp (allocCols h b.cols).1 b.grp).1) = some b.cols := by
    rw [hm]; exact mapM_viewCol_ext _ more _ _ v1
  rw [v1', v2]

theorem storeBundle_spec [DecidableEq lab] (h : Heap α lab) (share : Bool) (old : BundleRef) (b : Bundle lab) :
    Ext h (storeBundle h share old b).1 ∧
      viewBundle (storeBundle h share old b).1 (storeBundle h share old b).2 = some b := by
  unfold storeBundle
  split
  · rename_i hc
    simp only [Bool.and_eq_true, decide_eq_true_eq] at hc
    exact ⟨Ext.refl h, hc.2⟩
  · exact allocBundle_spec h b

/-- **storing a state yields an object that denotes it**, on a heap that only grew -/
theorem store_spec [DecidableEq lab] (h : Heap α lab) (edited : Kind) (old : Obj) (s : St α lab) :
    Ext h (store h edited old s).1 ∧ view (store h edited old s).1 (store h edited old s).2 = some s := by
  have e0 : Ext h (h ++ [Arr.data s.mat]) := ⟨_, rfl⟩
  obtain ⟨e1, v1⟩ := storeBundle_spec (h ++ [Arr.data s.mat]) (sharePlan edited .taxa) old.taxa s.taxa
  obtain ⟨e2, v2⟩ := storeBundle_spec (storeBundle (h ++ [Arr.data s.mat]) (sharePlan edited .taxa) old.taxa s.taxa).1
    (sharePlan edited .vrnt) old.vrnt s.vrnt
  obtain ⟨e3, v3⟩ := storeBundle_spec (storeBundle (storeBundle (h ++ [Arr.data s.mat]) (sharePlan edited .taxa)
    old.taxa s.taxa).1 (sharePlan edited .vrnt) old.vrnt s.vrnt).1 (sharePlan edited .trait) old.trait s.trait
  refine ⟨Ext.trans e0 (Ext.trans e1 (Ext.trans e2 e3)), ?_⟩
  have hd : getData (h ++ [Arr.data s.mat]) h.length = some s.mat := by simp [getData]
  simp only [store, view]
  rw [(Ext.trans e1 (Ext.trans e2 e3)).getData _ _ hd, (Ext.trans e2 e3).viewBundle _ _ v1, e3.viewBundle _ _ v2, v3]

/-! ### refinement: heap semantics = value semantics -/

/-- the live objects of a heap denote the values `vs`, position by position -/
def Denotes (h : Heap α lab) (objs : List Obj) (vs : List (St α lab)) : Prop :=
  List.Forall₂ (fun o s => view h o = some s) objs vs

theorem Denotes.ext {h h' : Heap α lab} (e : Ext h h') {objs : List Obj} {vs : List (St α lab)}
    (d : Denotes h objs vs) : Denotes h' objs vs :=
  List.Forall₂.imp (fun o s hx => e.view o s hx) d

theorem Denotes.get {h : Heap α lab} {objs : List Obj} {vs : List (St α lab)} (d : Denotes h objs vs)
    (i : Nat) (o : Obj) (ho : objs[i]? = some o) : ∃ s, vs[i]? = some s ∧ view h o = some s := by
  induction d generalizing i with
  | nil => simp at ho
  | cons hx _ ih =>
    cases i with
    | zero => simp only [List.getElem?_cons_zero, Option.some.injEq] at ho; subst ho; exact ⟨_, by simp, hx⟩
    | succ i => simpa using ih i (by simpa using ho)

theorem Denotes.set {h : Heap α lab} {objs : List Obj} {vs : List (St α lab)} (d : Denotes h objs vs)
    (i : Nat) (o : Obj) (s : St α lab) (hx : view h o = some s) : Denotes h (objs.set i o) (vs.set i s) := by
  induction d generalizing i with
  | nil => exact List.Forall₂.nil
  | cons hy _ ih =>
    cases i with
    | zero => exact List.Forall₂.cons hx (by assumption)
    | succ i => exact List.Forall₂.cons hy (ih i)

theorem Denotes.snoc {h : Heap α lab} {objs : List Obj} {vs : List (St α lab)} (d : Denotes h objs vs)
    (o : Obj) (s : St α lab) (hx : view h o = some s) : Denotes h (objs ++ [o]) (vs ++ [s]) := by
  induction d with
  | nil => exact List.Forall₂.cons hx List.Forall₂.nil
  | cons hy _ ih => exact List.Forall₂.cons hy ih

theorem viewBundle_ungroup (h : Heap α lab) (b : BundleRef) (r : Bundle lab) (hx : viewBundle h b = some r) :
    viewBundle h { b with grp := none } = some r.ungrouped := by
  unfold viewBundle at hx ⊢
  cases h1 : b.cols.mapM (viewCol h) with
  | none => rw [h1] at hx; cases hx
  | some cols =>
    cases h2 : viewGrp h b.grp with
    | none => rw [h1, h2] at hx; cases hx
    | some grp =>
      rw [h1, h2] at hx
      simp only [Option.some.injEq] at hx
      subst hx
      simp only [h1, viewGrp, Bundle.ungrouped]

/-- clearing the cached-table fields of an object = `freshK` on the value it denotes -/
theorem view_ungroup (h : Heap α lab) (o : Obj) (k : Kind) (s : St α lab) (hx : view h o = some s) :
    view h (o.setBundle k { (o.bundle k) with grp := none }) = some (freshK k s) := by
  unfold view at hx
  cases h0 : getData h o.mat with
  | none => rw [h0] at hx; cases hx
  | some m =>
    cases h1 : viewBundle h o.taxa with
    | none => rw [h0, h1] at hx; cases hx
    | some t =>
      cases h2 : viewBundle h o.vrnt with
      | none => rw [h0, h1, h2] at hx; cases hx
      | some v =>
        cases h3 : viewBundle h o.trait with
        | none => rw [h0, h1, h2, h3] at hx; cases hx
        | some r =>
          rw [h0, h1, h2, h3] at hx
          simp only [Option.some.injEq] at hx
          subst hx
          cases k
          · simp only [view, Obj.setBundle, Obj.bundle, h0, h2, h3, viewBundle_ungroup h o.taxa t h1, freshK,
              St.setBundle, St.bundle]
          · simp only [view, Obj.setBundle, Obj.bundle, h0, h1, h3, viewBundle_ungroup h o.vrnt v h2, freshK,
              St.setBundle, St.bundle]
          · simp only [view, Obj.setBundle, Obj.bundle, h0, h1, h2, viewBundle_ungroup h o.trait r h3, freshK,
              St.setBundle, St.bundle]

theorem ungroup_value [BEq lab] (le : lab → lab → Bool) (sch : Schema) (fill : α) (k : Kind) (s s' : St α lab)
    (h : step le sch fill true (.ungroup k) s = .ok s') : s' = freshK k s := by
  simp only [step, ungroupK] at h
  split at h
  · cases h
  · split at h
    · cases h
    · simp only [pure, Except.pure] at h; cases h; rfl

/-- **one operation on a heap with shared arrays = the same operation on values.**  If the live objects denote `vs`
    and `hstep` succeeds, then `vstep` succeeds on `vs` and the new live objects denote its result; the heap only
    grew. -/
theorem hstep_refines [BEq lab] [DecidableEq lab] [DecidableEq α] (le : lab → lab → Bool) (sch : Schema) (fill : α)
    (i : Nat) (op : Op α lab) (h h' : Heap α lab) (objs objs' : List Obj) (vs : List (St α lab))
    (d : Denotes h objs vs) (hs : hstep le sch fill i op (h, objs) = some (h', objs')) :
    Ext h h' ∧ ∃ vs', vstep le sch fill i op vs = some vs' ∧ Denotes h' objs' vs' := by
  unfold hstep at hs
  simp only at hs
  cases ho : objs[i]? with
  | none => rw [ho] at hs; cases hs
  | some o =>
    rw [ho] at hs
    simp only at hs
    obtain ⟨s, hvs, hview⟩ := d.get i o ho
    rw [hview] at hs
    simp only at hs
    cases hst : step le sch fill true op s with
    | error e => rw [hst] at hs; cases hs
    | ok s' =>
      rw [hst] at hs
      simp only at hs
      unfold vstep
      rw [hvs]
      simp only [hst]
      have general : ∀ (hs2 : (let r := store h op.kind o s'
            if Op.isPure op then some (r.1, objs ++ [r.2]) else some (r.1, objs.set i r.2)) = some (h', objs')),
          Ext h h' ∧ ∃ vs', (if Op.isPure op = true then some (vs ++ [s']) else some (vs.set i s')) = some vs' ∧
            Denotes h' objs' vs' := by
        intro hs2
        obtain ⟨e, hv⟩ := store_spec h op.kind o s'
        simp only at hs2
        by_cases hp : Op.isPure op = true
        · rw [if_pos hp] at hs2
          simp only [Option.some.injEq, Prod.mk.injEq] at hs2
          obtain ⟨rfl, rfl⟩ := hs2
          exact ⟨e, _, by rw [if_pos hp], (d.ext e).snoc _ _ hv⟩
        · rw [if_neg hp] at hs2
          simp only [Option.some.injEq, Prod.mk.injEq] at hs2
          obtain ⟨rfl, rfl⟩ := hs2
          exact ⟨e, _, by rw [if_neg hp], (d.ext e).set i _ _ hv⟩
      cases op with
      | ungroup k =>
        simp only [Option.some.injEq, Prod.mk.injEq] at hs
        obtain ⟨rfl, rfl⟩ := hs
        have hval := ungroup_value le sch fill k s s' hst
        subst hval
        refine ⟨Ext.refl h, _, by simp [Op.isPure], d.set i _ _ (view_ungroup h o k s hview)⟩
      | select k is => exact general hs
      | delete k obj => exact general hs
      | remove k obj => exact general hs
      | reorder k is => exact general hs
      | sort k keys => exact general hs
      | group k => exact general hs
      | adjoin k v => exact general hs
      | append k v => exact general hs
      | insert k obj v => exact general hs
      | incorp k obj v => exact general hs
      | concat k vs => exact general hs

/-- **histories over several live objects**: whatever arrays the objects share, the heap semantics computes, object
    by object, the values of the sharing-free reference semantics -/
theorem hrun_refines [BEq lab] [DecidableEq lab] [DecidableEq α] (le : lab → lab → Bool) (sch : Schema) (fill : α)
    (ops : List (Nat × Op α lab)) (h h' : Heap α lab) (objs objs' : List Obj) (vs : List (St α lab))
    (d : Denotes h objs vs) (hs : hrun le sch fill ops (h, objs) = some (h', objs')) :
    Ext h h' ∧ ∃ vs', vrun le sch fill ops vs = some vs' ∧ Denotes h' objs' vs' := by
  induction ops generalizing h objs vs with
  | nil =>
    simp only [hrun, Option.some.injEq, Prod.mk.injEq] at hs
    obtain ⟨rfl, rfl⟩ := hs
    exact ⟨Ext.refl h, vs, rfl, d⟩
  | cons p rest ih =>
    obtain ⟨i, op⟩ := p
    simp only [hrun] at hs
    cases h1 : hstep le sch fill i op (h, objs) with
    | none => rw [h1] at hs; cases hs
    | some hp1 =>
      obtain ⟨h1', objs1⟩ := hp1
      rw [h1] at hs
      obtain ⟨e1, vs1, hv1, d1⟩ := hstep_refines le sch fill i op h h1' objs objs1 vs d h1
      obtain ⟨e2, vs', hv', d'⟩ := ih h1' objs1 vs1 d1 hs
      exact ⟨Ext.trans e1 e2, vs', by simp only [vrun, hv1, hv'], d'⟩

/-- what the value semantics does to the *other* objects: nothing -/
theorem vstep_others [BEq lab] (le : lab → lab → Bool) (sch : Schema) (fill : α) (i : Nat) (op : Op α lab)
    (vs vs' : List (St α lab)) (hv : vstep le sch fill i op vs = some vs') (j : Nat) (hj : j < vs.length)
    (hne : Op.isPure op = true ∨ j ≠ i) : vs'[j]? = vs[j]? := by
  unfold vstep at hv
  cases hi : vs[i]? with
  | none => rw [hi] at hv; cases hv
  | some s =>
    rw [hi] at hv
    simp only at hv
    cases hst : step le sch fill true op s with
    | error e => rw [hst] at hv; cases hv
    | ok s' =>
      rw [hst] at hv
      simp only at hv
      by_cases hp : Op.isPure op = true
      · rw [if_pos hp] at hv
        cases hv
        rw [List.getElem?_append_left hj]
      · rw [if_neg hp] at hv
        cases hv
        rcases hne with h1 | h1
        · exact absurd h1 hp
        · rw [List.getElem?_set_ne (Ne.symm h1)]

end LabelHeap
