/-
Helper lemmas for C19: the weighted-sum transformation (`transfn.trans_dot`) — linearity, the link to the
projection on the weight vector, and monotonicity with respect to (weak / strict) Pareto dominance.
-/
import PybropsModel.Lemmas.ParetoFast
set_option autoImplicit false
set_option linter.unusedSectionVars false

namespace C19
open Pareto

section dot
variable {α : Type} [Field α] [LinearOrder α] [IsStrictOrderedRing α]

theorem vdot_smul_left (c : α) (l w : List α) : vdot (smul c l) w = c * vdot l w := by
  unfold smul vdot
  rw [List.zipWith_map_left]
  have : List.zipWith (fun a b => c * a * b) l w = (List.zipWith (· * ·) l w).map (fun z => c * z) := by
    rw [List.map_zipWith]; congr 1; funext a b; ring
  rw [this, List.sum_map_mul_left, List.map_id']

theorem vdot_add_left (p t w : List α) (h : p.length = t.length) :
    vdot (List.zipWith (· + ·) p t) w = vdot p w + vdot t w := by
  induction p generalizing t w with
  | nil =>
    have : t = [] := List.length_eq_zero_iff.mp h.symm
    subst this; simp [vdot]
  | cons x p ih =>
    cases t with
    | nil => simp at h
    | cons y t =>
      have hl : p.length = t.length := by simpa using h
      cases w with
      | nil => simp [vdot]
      | cons z w =>
        rw [List.zipWith_cons_cons, vdot_cons, vdot_cons, vdot_cons, ih t w hl]
        ring

/-- weak dominance (`a ≤ b` in every coordinate) and non-negative weights: weighted sums are ordered -/
theorem vdot_le_of_le (a b w : List α) (hlen : a.length = b.length) (hw : ∀ x ∈ w, 0 ≤ x)
    (h : ∀ i (h1 : i < a.length) (h2 : i < b.length), a[i] ≤ b[i]) : vdot a w ≤ vdot b w := by
  induction a generalizing b w with
  | nil =>
    have : b = [] := List.length_eq_zero_iff.mp hlen.symm
    subst this; exact le_refl _
  | cons x a ih =>
    cases b with
    | nil => simp at hlen
    | cons y b =>
      cases w with
      | nil => simp [vdot]
      | cons z w =>
        rw [vdot_cons, vdot_cons]
        have h0 : x ≤ y := h 0 (by simp) (by simp)
        have hz : 0 ≤ z := hw z (by simp)
        have ht := ih b w (by simpa using hlen) (fun v hv => hw v (List.mem_cons_of_mem _ hv))
          (fun i h1 h2 => by
            have := h (i + 1) (by simpa using h1) (by simpa using h2)
            simpa using this)
        have := mul_le_mul_of_nonneg_right h0 hz
        linarith

/-- … and strictly ordered when the weights are positive and one coordinate is strictly better -/
theorem vdot_lt_of_lt (a b w : List α) (hlen : a.length = b.length) (hlw : w.length = a.length)
    (hw : ∀ x ∈ w, 0 < x)
    (h : ∀ i (h1 : i < a.length) (h2 : i < b.length), a[i] ≤ b[i])
    (hs : ∃ i, ∃ (h1 : i < a.length) (h2 : i < b.length), a[i] < b[i]) : vdot a w < vdot b w := by
  induction a generalizing b w with
  | nil =>
    obtain ⟨i, h1, _, _⟩ := hs
    simp at h1
  | cons x a ih =>
    cases b with
    | nil => simp at hlen
    | cons y b =>
      cases w with
      | nil => simp at hlw
      | cons z w =>
        rw [vdot_cons, vdot_cons]
        have h0 : x ≤ y := h 0 (by simp) (by simp)
        have hz : 0 < z := hw z (by simp)
        have hw' : ∀ v ∈ w, 0 < v := fun v hv => hw v (List.mem_cons_of_mem _ hv)
        have hle' : ∀ i (h1 : i < a.length) (h2 : i < b.length), a[i] ≤ b[i] := fun i h1 h2 => by
          have := h (i + 1) (by simpa using h1) (by simpa using h2)
          simpa using this
        have hlen' : a.length = b.length := by simpa using hlen
        obtain ⟨i, h1, h2, hlt⟩ := hs
        cases i with
        | zero =>
          have hxy : x < y := by simpa using hlt
          have t1 := mul_lt_mul_of_pos_right hxy hz
          have t2 := vdot_le_of_le a b w hlen' (fun v hv => (hw' v hv).le) hle'
          linarith
        | succ i =>
          have t1 := mul_le_mul_of_nonneg_right h0 hz.le
          have t2 := ih b w hlen' (by simpa using hlw) hw' hle'
            ⟨i, by simpa using h1, by simpa using h2, by simpa using hlt⟩
          linarith

theorem vdot_replicate_one (r : List α) : vdot r (List.replicate r.length 1) = r.sum := by
  induction r with
  | nil => simp [vdot]
  | cons x r ih => simp [List.replicate_succ, vdot_cons, ih]

theorem transDot_eq (mat : List (List α)) (wt : List α) :
    transDot mat wt = mat.map (fun p => vdot p wt) := by
  unfold transDot
  apply List.map_congr_left
  intro r _
  exact np_dot_eq _ _

end dot
end C19
