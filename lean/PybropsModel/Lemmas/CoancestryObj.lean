/-
Helper lemmas for C13: the coancestry *object* as a labelled square matrix of C03's `LabelMat`.
`reorder_taxa(is)` of DenseSquareTaxaMatrix on the object built by `from_gmat` is `selectSq is` on the values,
`Np.take is` on both label columns, and no group metadata.
-/
import PybropsModel.Model.CoancestrySpec
import PybropsModel.Lemmas.CoancestrySelect
set_option autoImplicit false
set_option linter.unusedSectionVars false

namespace Coancestry
open LabelMat

section
variable {α : Type}

theorem normIdxs_ofNat (n : Nat) (is : List Nat) (h : ∀ i ∈ is, i < n) :
    normIdxs n (is.map Int.ofNat) = .ok is := by
  unfold normIdxs
  induction is with
  | nil => rfl
  | cons i is ih =>
    have hi : i < n := h i (by simp)
    have ih' := ih (fun j hj => h j (by simp [hj]))
    simp only [List.map_cons, List.mapM_cons]
    rw [ih']
    have : normIdx n (Int.ofNat i) = .ok i := by
      unfold normIdx
      simp [hi]
      rfl
    rw [this]
    rfl

theorem take_embed (is : List Nat) (G : List (List α)) : Np.take is (embed G) = embed (Np.take is G) := by
  unfold embed
  exact take_map is _ G

theorem map_take_embed (is : List Nat) (G : List (List α)) :
    (embed G).map (Np.take is) = embed (G.map (Np.take is)) := by
  unfold embed
  rw [List.map_map, List.map_map]
  apply List.map_congr_left
  intro r _
  simp only [Function.comp]
  exact take_map is _ r

theorem axLen0_embed (G : List (List α)) : axLen 0 (embed G) = G.length := by
  simp [axLen, embed]

/-- **`reorder_taxa` on the object.**  For in-range indices (any list: a permutation, with repeats, …) the
    call leaves the object `selectSq is G` with both label columns taken along, and drops the cached group
    metadata. -/
theorem reorderObj_toObj (is : List Nat) (G : List (List α)) (taxa grp : Option (List Int))
    (gmeta : Option (Grp Int)) (h : ∀ i ∈ is, i < G.length) :
    reorderObj (is.map Int.ofNat) (toObj G taxa grp gmeta)
      = .ok (toObj (selectSq is G) (taxa.map (Np.take is)) (grp.map (Np.take is)) none) := by
  unfold reorderObj reorderK reorderKPre
  have hlen : (toObj G taxa grp gmeta).len cmatSchema .taxa = G.length := by
    simp [St.len, cmatSchema, Schema.axes, toObj, axLen0_embed]
  have hne : (cmatSchema.axes Kind.taxa).isEmpty = false := by simp [cmatSchema, Schema.axes]
  simp only [hne, hlen, normIdxs_ofNat G.length is h, Bool.false_eq_true, if_false]
  show Except.ok (freshK Kind.taxa (applyK cmatSchema Kind.taxa (fun _ => Np.take is) (toObj G taxa grp gmeta))) = _
  congr 1
  simp only [applyK, freshK, cmatSchema, Schema.axes, List.foldl_cons, List.foldl_nil, axMap, toObj, St.setBundle,
    St.bundle, Bundle.mapCols, Bundle.ungrouped, List.map_cons, List.map_nil]
  rw [take_embed, map_take_embed]
  cases taxa <;> cases grp <;> rfl

end

section estimators
variable {α : Type}

/-- the object `from_gmat` builds: the estimator's matrix with the source's label columns and metadata -/
def fromGmatObj (taxa grp : Option (List Int)) (gmeta : Option (Grp Int)) (r : Except Err (List (List α))) :
    Except Err (Obj α) :=
  r.map (fun G => toObj G taxa grp gmeta)

/-- **Permutation of taxa commutes with every estimator that is natural in the taxa** — stated on the objects:
    `from_gmat(gmat).reorder_taxa(is)` is `from_gmat` of the genotype matrix whose taxa (rows and both label
    columns) were re-ordered by `is`; `reorder_taxa` clears the group metadata on either side.
    `E` is any estimator with `E (take is X) = (E X).map (selectSq is)` whose result has one row per taxon
    (`molecular_take`, `vanraden_take`, `yang_take`, `yangClosed_take`, `gw_take` provide the instances). -/
theorem reorder_taxa_commutes (E : List (List α) → Except Err (List (List α)))
    (hnat : ∀ is X, E (Np.take is X) = (E X).map (selectSq is))
    (hrows : ∀ X G, E X = .ok G → G.length = X.length)
    (is : List Nat) (X : List (List α)) (taxa grp : Option (List Int)) (gmeta : Option (Grp Int))
    (h : ∀ i ∈ is, i < X.length) (G : List (List α)) (hG : E X = .ok G) :
    ∃ G', E (Np.take is X) = .ok G' ∧
      fromGmatObj (taxa.map (Np.take is)) (grp.map (Np.take is)) none (E (Np.take is X))
        = .ok (toObj G' (taxa.map (Np.take is)) (grp.map (Np.take is)) none) ∧
      reorderObj (is.map Int.ofNat) (toObj G taxa grp gmeta)
        = .ok (toObj G' (taxa.map (Np.take is)) (grp.map (Np.take is)) none) := by
  have hl := hrows X G hG
  refine ⟨selectSq is G, by rw [hnat, hG]; rfl, by rw [hnat, hG]; rfl, ?_⟩
  exact reorderObj_toObj is G taxa grp gmeta (fun i hi => hl ▸ h i hi)

end estimators

end Coancestry

namespace Coancestry
section rows
variable {α : Type} [Add α] [Sub α] [Mul α] [Div α] [OfNat α 0] [OfNat α 1] [NatCast α]

theorem length_mulT (A B : List (List α)) : (mulT A B).length = A.length := by simp [mulT]

theorem molecular_rows (ploidy m : Nat) (X G : List (List α)) (h : molecular ploidy m X = .ok G) :
    G.length = X.length := by
  unfold molecular at h
  split at h
  · cases h
  · split at h
    · cases h; simp [mapMat, zipMat, mulT]
    · split at h
      · cases h; simp [mapMat, mulT]
      · cases h

variable [LT α] [DecidableLT α] [DecidableEq α]

theorem vanraden_rows (ploidy : Nat) (p : List α) (X G : List (List α)) (h : vanraden ploidy p X = .ok G) :
    G.length = X.length := by
  unfold vanraden at h
  simp only at h
  split at h
  · cases h
  · cases h; simp [mapMat, mulT, center]

theorem yang_rows [HasSqrt α] (ploidy m : Nat) (p : List α) (X G : List (List α)) (h : yang ploidy m p X = .ok G) :
    G.length = X.length := by
  unfold yang at h
  simp only at h
  split at h
  · cases h
  · split at h
    · cases h
    · cases h; simp [mapMat, mulT, center]

theorem yangClosed_rows (ploidy m : Nat) (p : List α) (X G : List (List α))
    (h : yangClosed ploidy m p X = .ok G) : G.length = X.length := by
  unfold yangClosed at h
  simp only at h
  split at h
  · cases h
  · split at h
    · cases h
    · cases h; simp [mapMat, mulT, center]

theorem gw_rows (ploidy : Nat) (w p : List α) (X : List (List α)) : (gw ploidy w p X).length = X.length := by
  simp [gw, mulT, centerGW]

end rows
end Coancestry
