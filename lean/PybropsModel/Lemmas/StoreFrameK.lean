/-
C16 — round trip of the long data-frame layout for variance matrices with ANY number k ≥ 1 of parental
axes (two-, three-, four-way classes), the matrix being an arbitrary function of index tuples.
-/
import PybropsModel.Model.StoreFrameK
import PybropsModel.Lemmas.StoreFrameLemmas2
import Mathlib.Tactic
set_option autoImplicit false

namespace StoreFrame
open Store (Err)

theorem mem_tuples (n : Nat) : ∀ (k : Nat) (ix : List Nat),
    ix ∈ tuples n k ↔ ix.length = k ∧ ∀ i ∈ ix, i < n := by
  intro k
  induction k with
  | zero =>
    intro ix
    simp only [tuples, List.mem_singleton]
    constructor
    · rintro rfl; simp
    · rintro ⟨h, _⟩; exact List.length_eq_zero_iff.mp h
  | succ k ih =>
    intro ix
    simp only [tuples, List.mem_flatMap, List.mem_range, List.mem_map]
    constructor
    · rintro ⟨i, hi, tl, htl, rfl⟩
      obtain ⟨h1, h2⟩ := (ih tl).mp htl
      refine ⟨by simp [h1], ?_⟩
      intro j hj
      rcases List.mem_cons.mp hj with e | e
      · rw [e]; exact hi
      · exact h2 j e
    · rintro ⟨hl, hall⟩
      cases ix with
      | nil => simp at hl
      | cons i tl =>
        refine ⟨i, hall i List.mem_cons_self, tl, (ih tl).mpr ⟨by simpa using hl, fun j hj => hall j (List.mem_cons_of_mem _ hj)⟩, rfl⟩

theorem replicate_mem_tuples (n k i : Nat) (hi : i < n) : List.replicate k i ∈ tuples n k := by
  rw [mem_tuples]
  refine ⟨by simp, ?_⟩
  intro j hj
  rw [(List.mem_replicate.mp hj).2]; exact hi

theorem getD_map_lt' {β γ : Type} (f : β → γ) (l : List β) (j : Nat) (d : γ) (hj : j < l.length) :
    (l.map f).getD j d = f l[j] := by
  simp [List.getD_eq_getElem?_getD, List.getElem?_eq_getElem hj]

section kway
variable {α : Type}

theorem mem_kmToPandas (v : KMat α) (wg : Bool) (r : KRow α) :
    r ∈ kmToPandas v wg ↔ ∃ ix ∈ tuples v.taxa.length v.k, ∃ c, c < v.trait.length ∧ r = kmRow v wg ix c := by
  unfold kmToPandas
  simp only [List.mem_flatMap, List.mem_map, List.mem_range]
  constructor
  · rintro ⟨ix, hix, c, hc, rfl⟩; exact ⟨ix, hix, c, hc, rfl⟩
  · rintro ⟨ix, hix, c, hc, rfl⟩; exact ⟨ix, hix, c, hc, rfl⟩

/-- labels determine the index tuple (distinct taxa) -/
theorem labels_inj (taxa : List String) (hs : taxa.Pairwise (· < ·)) :
    ∀ (ix jx : List Nat), (∀ i ∈ ix, i < taxa.length) → (∀ j ∈ jx, j < taxa.length) →
      ix.map (fun i => taxa.getD i "") = jx.map (fun i => taxa.getD i "") → ix = jx := by
  intro ix
  induction ix with
  | nil => intro jx _ _ h; cases jx with
    | nil => rfl
    | cons _ _ => simp at h
  | cons i tl ih =>
    intro jx h1 h2 h
    cases jx with
    | nil => simp at h
    | cons j tl' =>
      simp only [List.map_cons, List.cons.injEq] at h
      have hij := getD_inj_of_sorted taxa hs i j (h1 i List.mem_cons_self) (h2 j List.mem_cons_self) h.1
      rw [hij, ih tl' (fun x hx => h1 x (List.mem_cons_of_mem _ hx)) (fun x hx => h2 x (List.mem_cons_of_mem _ hx)) h.2]

/-- **k-way variance matrix, long layout.**  For any number k ≥ 1 of parental axes, any n, t ≥ 1, any
    matrix (a function of index tuples): with strictly increasing taxa and trait names the rows `to_pandas`
    writes are read back as the same labelled matrix — names, groups, traits, and every cell addressed
    by its labels, none left NaN. -/
theorem kmFromPandas_toPandas (v : KMat α) (wg : Bool)
    (hs : v.taxa.Pairwise (· < ·)) (ht : v.trait.Pairwise (· < ·))
    (hn : 0 < v.taxa.length) (htr : 0 < v.trait.length) (hk : 0 < v.k)
    (hg : ∀ g, v.taxa_grp = some g → g.length = v.taxa.length) (hwg : wg = v.taxa_grp.isSome) :
    ∃ r, kmFromPandas v.k (kmToPandas v wg) wg = .ok r ∧ r.taxa = v.taxa ∧ r.trait = v.trait ∧
      r.taxa_grp = v.taxa_grp ∧
      ∀ ix ∈ tuples v.taxa.length v.k, ∀ c, c < v.trait.length → r.cell ix c = some (v.cell ix c) := by
  set rows := kmToPandas v wg with hrows
  -- every row is the row of an index tuple
  have hrow : ∀ r ∈ rows, ∃ ix ∈ tuples v.taxa.length v.k, ∃ c, c < v.trait.length ∧ r = kmRow v wg ix c :=
    fun r hr => (mem_kmToPandas v wg r).mp hr
  have hmem : ∀ ix ∈ tuples v.taxa.length v.k, ∀ c, c < v.trait.length → kmRow v wg ix c ∈ rows :=
    fun ix hix c hc => (mem_kmToPandas v wg _).mpr ⟨ix, hix, c, hc, rfl⟩
  -- the group column never holds `None` when it is read
  have hnone : (wg && rows.any (fun r => r.grps.any (·.isNone))) = false := by
    cases hw : wg with
    | false => rfl
    | true =>
      simp only [Bool.true_and]
      rw [← Bool.not_eq_true, List.any_eq_true]
      rintro ⟨r, hr, hr2⟩
      obtain ⟨ix, _, c, _, rfl⟩ := hrow r hr
      rw [List.any_eq_true] at hr2
      obtain ⟨x, hx, hx2⟩ := hr2
      simp only [kmRow, List.mem_map] at hx
      obtain ⟨i, _, rfl⟩ := hx
      rw [hw] at hwg
      cases hgv : v.taxa_grp with
      | none => rw [hgv] at hwg; simp at hwg
      | some g => simp [kmGrpAt, hw, hgv] at hx2
  -- labels
  have htaxa : sortUniq ((List.range v.k).flatMap (fun a => rows.map (fun r => r.parents.getD a ""))) = v.taxa := by
    apply sortUniq_eq _ _ hs
    intro x
    simp only [List.mem_flatMap, List.mem_range, List.mem_map]
    constructor
    · rintro ⟨a, ha, r, hr, rfl⟩
      obtain ⟨ix, hix, c, _, rfl⟩ := hrow r hr
      obtain ⟨hl, hlt⟩ := (mem_tuples _ _ _).mp hix
      have hal : a < ix.length := by rw [hl]; exact ha
      simp only [kmRow]
      rw [getD_map_lt' _ ix a "" hal]
      exact getD_mem' v.taxa _ (hlt _ (List.getElem_mem hal))
    · intro hx
      obtain ⟨i, hi, rfl⟩ := List.getElem_of_mem hx
      refine ⟨0, hk, kmRow v wg (List.replicate v.k i) 0, hmem _ (replicate_mem_tuples _ _ i hi) 0 htr, ?_⟩
      simp only [kmRow]
      rw [getD_map_lt' _ _ 0 "" (by simpa using hk)]
      simp [List.getD_eq_getElem?_getD, List.getElem?_eq_getElem hi]
  have htrait : sortUniq (rows.map (·.trait)) = v.trait := by
    apply sortUniq_eq _ _ ht
    intro x
    simp only [List.mem_map]
    constructor
    · rintro ⟨r, hr, rfl⟩
      obtain ⟨ix, _, c, hc, rfl⟩ := hrow r hr
      exact getD_mem' v.trait c hc
    · intro hx
      obtain ⟨c, hc, rfl⟩ := List.getElem_of_mem hx
      refine ⟨kmRow v wg (List.replicate v.k 0) c, hmem _ (replicate_mem_tuples _ _ 0 hn) c hc, ?_⟩
      simp [kmRow, List.getD_eq_getElem?_getD, List.getElem?_eq_getElem hc]
  have hres : kmFromPandas v.k rows wg = .ok
      ⟨sortUniq ((List.range v.k).flatMap (fun a => rows.map (fun r => r.parents.getD a ""))),
       if wg then some ((sortUniq ((List.range v.k).flatMap (fun a => rows.map (fun r => r.parents.getD a "")))).map
         (fun t => kmGrpOf rows t v.k)) else none,
       sortUniq (rows.map (·.trait)),
       fun ix c => kmCell rows (ix.map (fun i =>
         (sortUniq ((List.range v.k).flatMap (fun a => rows.map (fun r => r.parents.getD a "")))).getD i ""))
         ((sortUniq (rows.map (·.trait))).getD c "")⟩ := by
    unfold kmFromPandas
    rw [hnone]
    rfl
  refine ⟨_, hres, htaxa, htrait, ?_, ?_⟩
  · -- groups
    simp only []
    cases hw : wg with
    | false =>
      rw [hw] at hwg
      cases hgv : v.taxa_grp with
      | none => simp
      | some g => rw [hgv] at hwg; simp at hwg
    | true =>
      rw [hw] at hwg
      cases hgv : v.taxa_grp with
      | none => rw [hgv] at hwg; simp at hwg
      | some g =>
        have hgl := hg g hgv
        simp only [if_true]
        rw [htaxa]
        congr 1
        apply List.ext_getElem
        · simp [hgl]
        · intro i h1 h2
          have hi : i < v.taxa.length := by simpa using h1
          simp only [List.getElem_map]
          -- whichever row decides, it carries the group of taxon i
          have key : ∀ a, a ≤ v.k → (∃ a', a' < a ∧ ∃ r ∈ rows, r.parents.getD a' "" = v.taxa[i]) →
              kmGrpOf rows v.taxa[i] a = g[i] := by
            intro a
            induction a with
            | zero => rintro _ ⟨a', ha', _⟩; omega
            | succ a ih =>
              intro hak hex
              unfold kmGrpOf
              cases hf : rows.find? (fun r => r.parents.getD a "" == v.taxa[i]) with
              | some r =>
                simp only []
                have hr := List.mem_of_find?_eq_some hf
                have hp := List.find?_some hf
                rw [beq_iff_eq] at hp
                obtain ⟨ix, hix, c, _, rfl⟩ := hrow r hr
                obtain ⟨hl, hlt⟩ := (mem_tuples _ _ _).mp hix
                have hal : a < ix.length := by rw [hl]; omega
                simp only [kmRow] at hp ⊢
                rw [getD_map_lt' _ ix a "" hal] at hp
                rw [getD_map_lt' _ ix a none hal]
                have hia : ix[a] = i := by
                  apply getD_inj_of_sorted v.taxa hs _ _ (hlt _ (List.getElem_mem hal)) hi
                  rw [hp]
                  simp [List.getD_eq_getElem?_getD, List.getElem?_eq_getElem hi]
                simp [kmGrpAt, hw, hgv, hia, List.getD_eq_getElem?_getD, List.getElem?_eq_getElem h2]
              | none =>
                simp only []
                apply ih (by omega)
                obtain ⟨a', ha', r, hr, hr2⟩ := hex
                have hno := List.find?_eq_none.mp hf
                refine ⟨a', ?_, r, hr, hr2⟩
                rcases Nat.lt_succ_iff_lt_or_eq.mp ha' with h | h
                · exact h
                · exfalso
                  subst h
                  exact hno r hr (by simpa using hr2)
          apply key v.k (le_refl _)
          refine ⟨0, hk, kmRow v wg (List.replicate v.k i) 0, hmem _ (replicate_mem_tuples _ _ i hi) 0 htr, ?_⟩
          simp only [kmRow]
          rw [getD_map_lt' _ _ 0 "" (by simpa using hk)]
          simp [List.getD_eq_getElem?_getD, List.getElem?_eq_getElem hi]
  · -- cells
    intro ix hix c hc
    simp only []
    rw [htaxa, htrait]
    unfold kmCell
    obtain ⟨hl, hlt⟩ := (mem_tuples _ _ _).mp hix
    apply find?_map_eq
    · refine ⟨kmRow v wg ix c, List.mem_reverse.mpr (hmem ix hix c hc), ?_⟩
      simp [kmRow]
    · intro r hr hp
      obtain ⟨jx, hjx, c', hc', rfl⟩ := hrow r (List.mem_reverse.mp hr)
      obtain ⟨_, hlt'⟩ := (mem_tuples _ _ _).mp hjx
      simp only [kmRow, Bool.and_eq_true, beq_iff_eq] at hp
      have e1 := labels_inj v.taxa hs jx ix hlt' hlt hp.1
      have e2 := getD_inj_of_sorted v.trait ht c' c hc' hc hp.2
      simp only [kmRow]
      rw [e1, e2]

end kway
end StoreFrame
