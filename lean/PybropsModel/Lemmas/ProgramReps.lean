/-
Helper lemmas for C20: the replicate-counter clause of the Spec (`repsOK`) and the part of a trace
the Spec speaks about (`specBody`).
-/
import PybropsModel.Lemmas.ProgramCalls
set_option autoImplicit false
set_option linter.unusedSectionVars false

namespace Program
section
variable {V : Type} [DecidableEq V]

/-- the counter values the model produces satisfy the replicate-counter clause, whatever the value
    of `lbook.rep` before the call -/
theorem repsOK_repsOf (r0 : Int) (li : Bool) (n nrep : Nat) : repsOK li n nrep (repsOf r0 li n nrep) = true := by
  cases nrep with
  | zero => simp [repsOf_zero, repsOK]
  | succ k =>
    have hlen : repLen li n = (if li then 1 else 0) + 8 * n + 1 := by unfold repLen; omega
    have h := repsOf_succ r0 li n k
    rw [hlen, List.replicate_succ, List.cons_append] at h
    rw [h]
    simp only [repsOK]
    have : r0 + 1 - 1 = r0 := by omega
    rw [this, ← List.cons_append, ← List.replicate_succ, ← hlen, ← repsOf_succ]
    simp

theorem specBody_plain (li : Bool) (es : List (Event V))
    (hk : ∀ e ∈ es, (li = false → e.kind ≠ .log .initialize) ∧ e.kind ≠ .init) : specBody li es = es := by
  have hd : (if li then es else dropInitLogs es) = es := by
    cases li with
    | true => rfl
    | false =>
      unfold dropInitLogs
      apply List.filter_eq_self.mpr
      intro e he
      simp [(hk e he).1 rfl]
  unfold specBody
  cases es with
  | nil => simpa using hd
  | cons e rest =>
    have hne : (e.kind == EvKind.init) = false := by simpa using (hk e (by simp)).2
    simp only [hne, Bool.false_eq_true, if_false]
    exact hd

theorem specBody_init (li : Bool) (e0 : Event V) (es : List (Event V)) (h0 : e0.kind = .init)
    (hk : ∀ e ∈ es, (li = false → e.kind ≠ .log .initialize) ∧ e.kind ≠ .init) : specBody li (e0 :: es) = es := by
  have hd : (if li then es else dropInitLogs es) = es := by
    cases li with
    | true => rfl
    | false =>
      unfold dropInitLogs
      apply List.filter_eq_self.mpr
      intro e he
      simp [(hk e he).1 rfl]
  unfold specBody
  simp only [h0, beq_self_eq_true, if_true]
  exact hd

end
end Program
