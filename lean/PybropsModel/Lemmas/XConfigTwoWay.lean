/-
Helper lemmas for C07 (9): what exchange-optimality means for two-way crosses — a self-pairing can
only survive if every other cross already contains that individual, hence none survives when no
individual fills more than `ncross` slots.
-/
import PybropsModel.Lemmas.XConfigSample
set_option autoImplicit false

namespace XConfig

theorem sum_map_modify (g : List Nat → Nat) (rows : Rows) (i : Nat) (hi : i < rows.length) (f : List Nat → List Nat) :
    ((rows.modify i f).map g).sum + g rows[i] = (rows.map g).sum + g (f rows[i]) := by
  induction rows generalizing i with
  | nil => simp at hi
  | cons x xs ih =>
    cases i with
    | zero => simp; omega
    | succ i =>
      have := ih i (by simpa using hi)
      simp only [List.modify_succ_cons, List.map_cons, List.sum_cons, List.getElem_cons_succ]
      omega

/-- score after exchanging one entry of cross `r` with one entry of a different cross `s` -/
theorem selfPairs_swap2_rows {nc np : Nat} {rows : Rows} (h : Rect nc np rows) (r s c1 c2 : Nat)
    (hr : r < nc) (hs : s < nc) (hne : r ≠ s) :
    selfPairs (swap2 rows (r, c1) (s, c2)) + dupCount (rows.getD r []) + dupCount (rows.getD s []) =
      selfPairs rows + dupCount ((rows.getD r []).set c1 (get2 rows (s, c2))) +
        dupCount ((rows.getD s []).set c2 (get2 rows (r, c1))) := by
  have hrl : r < rows.length := by rw [h.1]; exact hr
  have hsl : s < rows.length := by rw [h.1]; exact hs
  have e1 := sum_map_modify dupCount rows r hrl (fun R => R.set c1 (get2 rows (s, c2)))
  have hsl' : s < (rows.modify r (fun R => R.set c1 (get2 rows (s, c2)))).length := by
    rw [List.length_modify]; exact hsl
  have e2 := sum_map_modify dupCount (rows.modify r (fun R => R.set c1 (get2 rows (s, c2)))) s hsl'
    (fun S => S.set c2 (get2 rows (r, c1)))
  have hget : (rows.modify r (fun R => R.set c1 (get2 rows (s, c2))))[s] = rows[s] := by
    rw [List.getElem_modify]; simp [hne]
  rw [hget] at e2
  have gr : rows.getD r [] = rows[r] := by simp [List.getD_eq_getElem?_getD, List.getElem?_eq_getElem hrl]
  have gs : rows.getD s [] = rows[s] := by simp [List.getD_eq_getElem?_getD, List.getElem?_eq_getElem hsl]
  rw [gr, gs]
  unfold selfPairs swap2 set2
  simp only at e1 e2 ⊢
  omega

theorem dupCount_pair (x y : Nat) : dupCount [x, y] = if x = y then 1 else 0 := by
  simp only [dupCount, List.contains_iff_mem, List.mem_singleton]
  by_cases h : x = y <;> simp [h]

/-- in an exchange-optimal table of two-way crosses a self-pairing `[a, a]` survives only if every
    other cross already contains `a` -/
theorem self_pair_forced {nc : Nat} {rows : Rows} (h : Rect nc 2 rows) (ho : ExchangeOptimal nc 2 rows)
    (r s : Nat) (hr : r < nc) (hs : s < nc) (hne : r ≠ s) (a : Nat) (hself : rows.getD r [] = [a, a]) :
    a ∈ rows.getD s [] := by
  by_contra hna
  obtain ⟨b, c, hS⟩ := List.length_eq_two.mp (h.row_length s hs)
  rw [hS] at hna
  have hb : b ≠ a := fun e => hna (by simp [e])
  have hc : c ≠ a := fun e => hna (by simp [e])
  have key := selfPairs_swap2_rows h r s 0 0 hr hs hne
  have g1 : get2 rows (s, 0) = b := by unfold get2; rw [hS]; rfl
  have g2 : get2 rows (r, 0) = a := by unfold get2; rw [hself]; rfl
  rw [g1, g2, hself, hS] at key
  simp only [List.set_cons_zero, dupCount_pair] at key
  have := ho (r, 0) (s, 0) ⟨hr, by omega⟩ ⟨hs, by omega⟩
  have hc' : ¬ a = c := fun e => hc e.symm
  rw [if_pos trivial, if_neg hb, if_neg hc'] at key
  omega

theorem length_le_sum_of_pos (l : List Nat) (h : ∀ x ∈ l, 1 ≤ x) : l.length ≤ l.sum := by
  induction l with
  | nil => simp
  | cons x xs ih =>
    have := ih (fun y hy => h y (by simp [hy]))
    have := h x (by simp)
    simp only [List.length_cons, List.sum_cons]
    omega

theorem length_lt_sum_of_pos (l : List Nat) (h : ∀ x ∈ l, 1 ≤ x) (i : Nat) (hi : i < l.length) (h2 : 2 ≤ l[i]) :
    l.length + 1 ≤ l.sum := by
  induction l generalizing i with
  | nil => simp at hi
  | cons x xs ih =>
    simp only [List.length_cons, List.sum_cons]
    cases i with
    | zero =>
      have := length_le_sum_of_pos xs (fun y hy => h y (by simp [hy]))
      simp at h2
      omega
    | succ i =>
      have := ih (fun y hy => h y (by simp [hy])) i (by simpa using hi) (by simpa using h2)
      have := h x (by simp)
      omega

/-- **two-way crosses**: if no individual fills more than `ncross` of the `2·ncross` slots, an
    exchange-optimal table contains no self-pairing at all -/
theorem two_way_no_selfing {nc : Nat} {rows : Rows} (h : Rect nc 2 rows) (ho : ExchangeOptimal nc 2 rows)
    (hcnt : ∀ e, rows.flatten.count e ≤ nc) : selfPairs rows = 0 := by
  by_contra hpos
  -- some cross is a self-pairing
  have hex : ∃ r, ∃ (hr : r < rows.length), dupCount rows[r] ≠ 0 := by
    by_contra hn
    apply hpos
    unfold selfPairs
    apply List.sum_eq_zero
    intro x hx
    obtain ⟨R, hR, rfl⟩ := List.mem_map.mp hx
    obtain ⟨r, hr, rfl⟩ := List.mem_iff_getElem.mp hR
    by_contra hne
    exact hn ⟨r, hr, hne⟩
  obtain ⟨r, hrl, hd⟩ := hex
  have hr : r < nc := by rw [← h.1]; exact hrl
  obtain ⟨x, y, hR⟩ := List.length_eq_two.mp (h.2 _ (List.getElem_mem hrl))
  rw [hR, dupCount_pair] at hd
  have hxy : x = y := by
    by_contra hne
    simp [hne] at hd
  subst hxy
  have gr : rows.getD r [] = [x, x] := by
    simp [List.getD_eq_getElem?_getD, List.getElem?_eq_getElem hrl, hR]
  -- every cross contains x, cross r twice
  have hall : ∀ c ∈ rows.map (List.count x), 1 ≤ c := by
    intro c hc
    obtain ⟨S, hS, rfl⟩ := List.mem_map.mp hc
    obtain ⟨s, hsl, rfl⟩ := List.mem_iff_getElem.mp hS
    have hs : s < nc := by rw [← h.1]; exact hsl
    by_cases e : r = s
    · subst e
      rw [hR]; simp
    · have := self_pair_forced h ho r s hr hs e x gr
      rw [List.getD_eq_getElem?_getD, List.getElem?_eq_getElem hsl] at this
      exact List.one_le_count_iff.mpr this
  have hr' : r < (rows.map (List.count x)).length := by simpa using hrl
  have h2 : 2 ≤ (rows.map (List.count x))[r] := by
    simp only [List.getElem_map, hR]
    simp
  have := length_lt_sum_of_pos _ hall r hr' h2
  rw [List.length_map, h.1, ← List.count_flatten] at this
  have := hcnt x
  omega

end XConfig
