/-
Helper lemmas for C20 (1/3): registers, heap reads, the `handed` relation, and the effect of every
single statement of the schedule on a state that satisfies the invariant `Good`.
-/
import PybropsModel.Lemmas.ProgramHeap
set_option autoImplicit false
set_option linter.unusedSectionVars false

namespace Program

/-! ### registers -/

theorem resolve_some (regs : Reg → Option Ref) :
    ∀ (rs : List Reg) (as : List Ref), rs.map regs = as.map some → resolve regs rs = some as
  | [], [], _ => rfl
  | [], _ :: _, h => by simp at h
  | _ :: _, [], h => by simp at h
  | r :: rs, a :: as, h => by
    simp only [List.map_cons, List.cons.injEq] at h
    simp [resolve, h.1, resolve_some regs rs as h.2]

theorem setReg_same (regs : Reg → Option Ref) (r : Reg) (v : Option Ref) : setReg regs r v r = v := by
  simp [setReg]

theorem setReg_other (regs : Reg → Option Ref) (r x : Reg) (v : Option Ref) (h : x ≠ r) :
    setReg regs r v x = regs x := by
  simp [setReg, h]

theorem map_setReg_other (regs : Reg → Option Ref) (r : Reg) (v : Option Ref) (rl : List Reg)
    (h : r ∉ rl) : rl.map (setReg regs r v) = rl.map regs := by
  apply List.map_congr_left
  intro x hx
  exact setReg_other regs r x v (fun e => h (e ▸ hx))

theorem assign_other (r : Reg) :
    ∀ (rl : List Reg) (vs : List Ref) (regs : Reg → Option Ref), r ∉ rl → assign regs rl vs r = regs r
  | [], _, _, _ => by simp [assign]
  | _ :: _, [], _, _ => by simp [assign]
  | x :: rl, v :: vs, regs, h => by
    simp only [List.mem_cons, not_or] at h
    rw [assign, assign_other r rl vs _ h.2, setReg_other _ _ _ _ h.1]

theorem map_assign_same :
    ∀ (rl : List Reg) (vs : List Ref) (regs : Reg → Option Ref), rl.Nodup → rl.length = vs.length →
      rl.map (assign regs rl vs) = vs.map some
  | [], [], _, _, _ => rfl
  | [], _ :: _, _, _, h => by simp at h
  | _ :: _, [], _, _, h => by simp at h
  | x :: rl, v :: vs, regs, hnd, hl => by
    simp only [List.nodup_cons] at hnd
    simp only [List.length_cons, Nat.add_right_cancel_iff] at hl
    simp only [List.map_cons, assign]
    rw [assign_other x rl vs _ hnd.1, setReg_same, map_assign_same rl vs _ hnd.2 hl]

theorem map_assign_other (regs : Reg → Option Ref) (rl : List Reg) (vs : List Ref) (xs : List Reg)
    (h : ∀ x ∈ xs, x ∉ rl) : xs.map (assign regs rl vs) = xs.map regs := by
  apply List.map_congr_left
  intro x hx
  exact assign_other x rl vs regs (h x hx)

theorem assign_pred (P : Ref → Prop) :
    ∀ (rl : List Reg) (vs : List Ref) (regs : Reg → Option Ref),
      (∀ r a, regs r = some a → P a) → (∀ v ∈ vs, P v) → ∀ r a, assign regs rl vs r = some a → P a
  | [], _, _, hr, _ => by simpa [assign] using hr
  | _ :: _, [], _, hr, _ => by simpa [assign] using hr
  | x :: rl, v :: vs, regs, hr, hv => by
    rw [assign]
    apply assign_pred P rl vs
    · intro r a h
      by_cases e : r = x
      · subst e; rw [setReg_same] at h; cases h; exact hv _ (by simp)
      · rw [setReg_other _ _ _ _ e] at h; exact hr r a h
    · intro w hw; exact hv w (by simp [hw])

theorem setReg_pred (P : Ref → Prop) (regs : Reg → Option Ref) (x : Reg) (v : Ref)
    (hr : ∀ r a, regs r = some a → P a) (hv : P v) : ∀ r a, setReg regs x (some v) r = some a → P a := by
  intro r a h
  by_cases e : r = x
  · subst e; rw [setReg_same] at h; cases h; exact hv
  · rw [setReg_other _ _ _ _ e] at h; exact hr r a h

theorem five_nodup : five.Nodup := by decide
theorem five_length : five.length = 5 := rfl

theorem resolve_map (regs : Reg → Option Ref) :
    ∀ (rs : List Reg) (as : List Ref), resolve regs rs = some as → rs.map regs = as.map some
  | [], as, h => by simp [resolve] at h; subst h; rfl
  | r :: rs, as, h => by
    simp only [resolve] at h
    cases h1 : regs r with
    | none => simp [h1] at h
    | some a0 =>
      cases h2 : resolve regs rs with
      | none => simp [h1, h2] at h
      | some as0 =>
        simp only [h1, h2, Option.some.injEq] at h
        subst h
        simp [h1, resolve_map regs rs as0 h2]

theorem map_some_inj {α : Type} : ∀ (a b : List α), a.map some = b.map some → a = b
  | [], [], _ => rfl
  | [], _ :: _, h => by simp at h
  | _ :: _, [], h => by simp at h
  | x :: a, y :: b, h => by
    simp only [List.map_cons, List.cons.injEq, Option.some.injEq] at h
    rw [h.1, map_some_inj a b h.2]

/-! ### heap reads -/
section heap
variable {V : Type}

theorem vals_length (k : Nat) (h : Heap (Cell V)) (rs : List Ref) : (vals k h rs).length = rs.length := by
  simp [vals]

theorem vals_append (k : Nat) (h : Heap (Cell V)) (a b : List Ref) :
    vals k h (a ++ b) = vals k h a ++ vals k h b := by
  simp [vals]

theorem vals_congr (k : Nat) (h h' : Heap (Cell V)) (rs : List Ref)
    (hh : ∀ a ∈ rs, viewO k h' a = viewO k h a) : vals k h' rs = vals k h rs := by
  unfold vals
  exact List.map_congr_left hh

theorem startVals_map_some (k : Nat) (h : Heap (Cell V)) (S : List Ref) :
    startVals k h (S.map some) = vals k h S := by
  simp [startVals, vals, Function.comp_def]

theorem vals_all_some (k : Nat) (h : Heap (Cell V)) (rs : List Ref) (hv : ∀ a ∈ rs, a < h.length) :
    (vals k h rs).all Option.isSome = true := by
  simp only [vals, List.all_map, List.all_eq_true, Function.comp]
  intro a ha
  exact viewO_isSome (hv a ha)

end heap

/-! ### `handed` -/
section handed
variable {V : Type} [DecidableEq V]

/-- `R` relates items that carry the same reference (whatever their contents) -/
def ReflOnRefs (R : Item V → Item V → Bool) : Prop := ∀ (a : Ref) (v w : Option V), R (a, v) (a, w) = true

theorem sameRef_refl : ReflOnRefs (V := V) sameRef := by intro a v w; simp [sameRef]
theorem sameOrEqual_refl : ReflOnRefs (V := V) sameOrEqual := by intro a v w; simp [sameOrEqual]

theorem items_fst (rs : List Ref) (vs : List (Option V)) (h : rs.length = vs.length) :
    (items rs vs).map Prod.fst = rs := by
  unfold items; exact List.map_fst_zip (le_of_eq h)

theorem items_length (rs : List Ref) (vs : List (Option V)) (h : rs.length = vs.length) :
    (items rs vs).length = rs.length := by
  simp [items, h]

theorem items_take (rs : List Ref) (vs : List (Option V)) (n : Nat) :
    (items rs vs).take n = items (rs.take n) (vs.take n) := by
  unfold items
  induction n generalizing rs vs with
  | zero => simp
  | succ n ih =>
    cases rs with
    | nil => simp
    | cons a rs =>
      cases vs with
      | nil => simp
      | cons v vs => simp [ih]

theorem handed_of_fst (R : Item V → Item V → Bool) (hR : ReflOnRefs R) :
    ∀ (given recv : List (Item V)), given.map Prod.fst = recv.map Prod.fst → handed R given recv = true
  | [], [], _ => by simp [handed]
  | [], _ :: _, h => by simp at h
  | _ :: _, [], h => by simp at h
  | (a, v) :: g, (b, w) :: r, h => by
    simp only [List.map_cons, List.cons.injEq] at h
    have ih := handed_of_fst R hR g r h.2
    obtain ⟨rfl, _⟩ := h
    simp only [handed, List.length_cons, List.zip_cons_cons, List.all_cons, Bool.and_eq_true,
      beq_iff_eq, Nat.add_right_cancel_iff] at ih ⊢
    exact ⟨ih.1, hR _ _ _, ih.2⟩

end handed
end Program
