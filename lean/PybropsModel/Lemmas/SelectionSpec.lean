/-
Helper lemmas for C05: the Spec oracle (`Selection.Spec.definition`, written with zipped `Np.dot`,
explicit `K = CᵀC` and `Np.transpose`) accepts every output of the model of the code.
-/
import PybropsModel.Lemmas.SelectionFactory
import PybropsModel.Model.SelectionSpec
set_option autoImplicit false
set_option linter.unusedSectionVars false
set_option linter.unusedSimpArgs false

namespace Selection
open Finset Selection.Spec

section dot
variable {α : Type} [Field α] [LinearOrder α] [IsStrictOrderedRing α]

theorem vget_cons_zero (x : α) (a : List α) : vget (x :: a) 0 = x := rfl
theorem vget_cons_succ (x : α) (a : List α) (i : Nat) : vget (x :: a) (i + 1) = vget a i := rfl

/-- **zip-based `Np.dot` = range sum** (numpy `a.dot(b)` for `len a ≤ len b`) -/
theorem np_dot_eq (a b : List α) (h : a.length ≤ b.length) :
    Np.dot a b = ∑ i ∈ range a.length, vget a i * vget b i := by
  unfold Np.dot
  rw [np_sum_eq]
  induction a generalizing b with
  | nil => simp
  | cons x a ih =>
    cases b with
    | nil => simp at h
    | cons y b =>
      simp only [List.zipWith_cons_cons, List.sum_cons, List.length_cons]
      rw [Finset.sum_range_succ', ih b (by simpa using h)]
      simp only [vget_cons_zero, vget_cons_succ]
      ring

theorem vget_column (M : List (List α)) (j i : Nat) : vget (column M j) i = ent M i j := by
  unfold column vget ent
  simp only [List.getD_eq_getElem?_getD, List.getElem?_map]
  cases M[i]? <;> simp

theorem column_length (M : List (List α)) (j : Nat) : (column M j).length = M.length := by
  simp [column]

theorem dot_column (c : List α) (M : List (List α)) (j : Nat) (h : c.length ≤ M.length) :
    Np.dot c (column M j) = ∑ i ∈ range c.length, vget c i * ent M i j := by
  rw [np_dot_eq c _ (by rw [column_length]; exact h)]
  simp only [vget_column]

/-- row `i` of `Np.transpose C` is column `i` of a rectangular `C` -/
theorem transpose_rect (C : List (List α)) (n : Nat) (hrect : ∀ r ∈ C, r.length = n) (hne : C ≠ []) :
    Np.transpose C = (List.range n).map fun j => column C j := by
  cases C with
  | nil => exact absurd rfl hne
  | cons r0 C' =>
    unfold Np.transpose
    simp only
    rw [hrect r0 List.mem_cons_self]
    apply List.map_congr_left
    intro j hj
    have hj' := List.mem_range.mp hj
    unfold column
    rw [← List.filterMap_eq_map]
    apply List.filterMap_congr
    intro r hr
    have : j < r.length := by rw [hrect r hr]; exact hj'
    simp [List.getD_eq_getElem?_getD, List.getElem?_eq_getElem this]

theorem vget_map_range' (n : Nat) (g : Nat → α) (i : Nat) (hi : i < n) :
    vget ((List.range n).map g) i = g i := vget_map_range n g i hi

/-- the explicit quadratic form `cᵀ(CᵀC)c` of the Spec is the squared norm computed by the model -/
theorem quadForm_eq (C : List (List α)) (c : List α) (hrect : ∀ r ∈ C, r.length = c.length) :
    quadForm C c = normSq (matVec C c) := by
  by_cases hne : C = []
  · subst hne
    simp [quadForm, Np.transpose, normSq, matVec, Np.dot, Np.sum]
  · rw [normSq_matVec C c (fun i j => ∑ r ∈ range C.length, ent C r i * ent C r j) (fun _ _ _ _ => rfl)]
    unfold quadForm
    simp only
    rw [transpose_rect C c.length hrect hne]
    simp only [List.map_map]
    rw [np_dot_eq _ _ (by simp)]
    apply Finset.sum_congr rfl
    intro i hi
    have hi' := Finset.mem_range.mp hi
    rw [vget_map_range c.length _ i hi']
    simp only [Function.comp]
    rw [np_dot_eq _ _ (by simp)]
    simp only [List.length_map, List.length_range]
    rw [Finset.mul_sum]
    apply Finset.sum_congr rfl
    intro j hj
    have hj' := Finset.mem_range.mp hj
    rw [vget_map_range c.length _ j hj']
    simp only [Function.comp]
    rw [np_dot_eq _ _ (by simp [column_length])]
    simp only [column_length, vget_column]
    ring

end dot

section accept
variable {α : Type} [Field α] [LinearOrder α] [IsStrictOrderedRing α]

theorem absv_zero : absv (0 : α) = 0 := by simp [absv]

theorem close_self (rel abs_ a : α) (h : 0 ≤ abs_) : close rel abs_ a a = true := by
  unfold close
  simp only [sub_self, absv_zero, Bool.or_eq_true]
  left
  unfold Spec.le
  simp [not_lt.mpr h]

theorem holds_val (rel abs_ v : α) (h : 0 ≤ abs_) : (Entry.val v).holds rel abs_ v = true := by
  unfold Entry.holds Entry.val
  have : eqv (0 : α) 0 = true := (eqv_iff 0 0).mpr rfl
  simp only [this, if_true]
  exact close_self rel abs_ v h

/-- a square-root entry `a + 1·√q` accepts `l` when `l - a` is non-negative with square `q` -/
theorem holds_root (rel abs_ a q l : α) (h : 0 ≤ abs_) (hr : 0 ≤ l - a) (hq : (l - a) * (l - a) = q) :
    (Entry.mk a 1 q).holds rel abs_ l = true := by
  unfold Entry.holds
  have : eqv (1 : α) 0 = false := by
    rw [Bool.eq_false_iff]; intro e; exact one_ne_zero ((eqv_iff 1 0).mp e)
  simp only [this, div_one, Bool.false_eq_true, if_false, Bool.and_eq_true]
  constructor
  · unfold Spec.le
    simp only [Bool.not_eq_true', decide_eq_false_iff_not, not_lt]
    linarith
  · rw [hq]; exact close_self _ abs_ q h

theorem accepts_nil (rel abs_ : α) : accepts rel abs_ ([] : List (Entry α)) [] = true := by
  simp [accepts]

theorem accepts_cons (rel abs_ : α) (e : Entry α) (v : α) (d : List (Entry α)) (l : List α)
    (he : e.holds rel abs_ v = true) (h : accepts rel abs_ d l = true) :
    accepts rel abs_ (e :: d) (v :: l) = true := by
  unfold accepts at h ⊢
  simp only [Bool.and_eq_true, beq_iff_eq] at h ⊢
  refine ⟨by simp [h.1], ?_⟩
  simp only [List.zip_cons_cons, List.all_cons, Bool.and_eq_true]
  exact ⟨he, h.2⟩

theorem accepts_append (rel abs_ : α) (d1 d2 : List (Entry α)) (l1 l2 : List α)
    (h1 : accepts rel abs_ d1 l1 = true) (h2 : accepts rel abs_ d2 l2 = true) :
    accepts rel abs_ (d1 ++ d2) (l1 ++ l2) = true := by
  unfold accepts at h1 h2 ⊢
  simp only [Bool.and_eq_true, beq_iff_eq] at h1 h2 ⊢
  refine ⟨by simp [h1.1, h2.1], ?_⟩
  rw [List.zip_append h1.1.symm, List.all_append, Bool.and_eq_true]
  exact ⟨h1.2, h2.2⟩

theorem accepts_map {β : Type} (rel abs_ : α) (xs : List β) (f : β → Entry α) (g : β → α)
    (h : ∀ x ∈ xs, (f x).holds rel abs_ (g x) = true) :
    accepts rel abs_ (xs.map f) (xs.map g) = true := by
  induction xs with
  | nil => exact accepts_nil rel abs_
  | cons x xs ih =>
    simp only [List.map_cons]
    exact accepts_cons rel abs_ _ _ _ _ (h x List.mem_cons_self)
      (ih (fun y hy => h y (List.mem_cons_of_mem _ hy)))

theorem accepts_vals (rel abs_ : α) (h : 0 ≤ abs_) (vs : List α) :
    accepts rel abs_ (vs.map Entry.val) vs = true := by
  have := accepts_map rel abs_ vs Entry.val id (fun v _ => holds_val rel abs_ v h)
  simpa using this

end accept

/-! ### per criterion: the definition accepts the model's value -/
section sound
variable {α : Type} [Field α] [LinearOrder α] [IsStrictOrderedRing α] [HasSqrt α]

/-- shape conditions under which the Spec's zipped products see the same entries as the model's indexed
    sums: the matrices are rectangular with one column (row) per candidate -/
def Crit.WellFormed : Crit α → Prop
  | .ocs C D => (∀ r ∈ C, r.length = ncols C) ∧ D.length = ncols C
  | .mgr C => ∀ r ∈ C, r.length = ncols C
  | .meh C => ∀ r ∈ C, r.length = ncols C
  | .l1 V => ∀ Vt ∈ V, ∀ r ∈ Vt, r.length = ncols (V.headD [])
  | .l2 C => ∀ Ct ∈ C, ∀ r ∈ Ct, r.length = ncols (C.headD [])
  | .family D fix _ => D.length = fix.length
  | .pafd _ p _ _ => 0 < p
  | .pau _ p w tf => 0 < p ∧ ∀ m j, m < w.length → j < ncols w → 0 ≤ ent tf m j ∧ ent tf m j ≤ 1
  | .mogs _ p _ _ => 0 < p
  | _ => True

/-- a lawful square root on the non-negative scalars -/
def LawfulSqrt (α : Type) [Field α] [LinearOrder α] [HasSqrt α] : Prop :=
  ∀ q : α, 0 ≤ q → 0 ≤ HasSqrt.sqrt q ∧ HasSqrt.sqrt q * HasSqrt.sqrt q = q

theorem linDef_eq (D : List (List α)) (c : List α) (h : c.length ≤ D.length) :
    linDef D c = (linCore D c).map Entry.val := by
  unfold linDef linCore vecMat
  rw [List.map_map, List.map_map]
  apply List.map_congr_left
  intro j _
  simp only [Function.comp]
  rw [dot_column c D j h, rsum_eq]

theorem holds_norm (rel abs_ : α) (h : 0 ≤ abs_) (hs : LawfulSqrt α) (C : List (List α)) (c : List α)
    (hrect : ∀ r ∈ C, r.length = c.length) :
    (Entry.mk 0 1 (quadForm C c)).holds rel abs_ (norm2 (matVec C c)) = true := by
  obtain ⟨h1, h2⟩ := hs _ (normSq_nonneg (matVec C c))
  apply holds_root rel abs_ 0 _ _ h
  · rw [sub_zero]; exact h1
  · rw [sub_zero, quadForm_eq C c hrect]; exact h2

theorem holds_meh (rel abs_ : α) (h : 0 ≤ abs_) (hs : LawfulSqrt α) (C : List (List α)) (c : List α)
    (hrect : ∀ r ∈ C, r.length = c.length) :
    (Entry.mk (-1) 1 (quadForm C c)).holds rel abs_ (-(1 - norm2 (matVec C c))) = true := by
  obtain ⟨h1, h2⟩ := hs _ (normSq_nonneg (matVec C c))
  have e : -(1 - norm2 (matVec C c)) - -1 = norm2 (matVec C c) := by ring
  apply holds_root rel abs_ (-1) _ _ h
  · rw [e]; exact h1
  · rw [e, quadForm_eq C c hrect]; exact h2

theorem norm1_eq (Vt : List (List α)) (c : List α) (hrect : ∀ r ∈ Vt, r.length = c.length) :
    Np.sum (Vt.map fun row => absv (Np.dot row c)) = norm1 (matVec Vt c) := by
  unfold norm1 matVec
  rw [List.map_map]
  congr 1
  apply List.map_congr_left
  intro row hr
  simp only [Function.comp]
  rw [np_dot_eq row c (le_of_eq (hrect row hr)), hrect row hr, rsum_eq]

theorem zip_family_sum (fix : List Nat) (c : List α) (f : Nat) (h : fix.length = c.length) :
    Np.sum ((List.zip fix c).filterMap fun p => if p.1 == f then some p.2 else none) = bincountAt fix c f := by
  unfold bincountAt
  rw [np_sum_eq, rsum_eq]
  induction fix generalizing c with
  | nil => simp
  | cons g fix ih =>
    cases c with
    | nil => simp at h
    | cons v c =>
      rw [List.length_cons, Finset.sum_range_succ']
      simp only [List.zip_cons_cons, List.filterMap_cons]
      have hrest := ih c (by simpa using h)
      by_cases hg : (g == f) = true
      · simp only [hg, if_true, List.sum_cons]
        rw [hrest]
        simp [vget_cons_zero, vget_cons_succ, hg, add_comm]
      · have hg' : (g == f) = false := by simpa using hg
        simp only [hg', Bool.false_eq_true, if_false]
        rw [hrest]
        simp [vget_cons_zero, vget_cons_succ, hg']

theorem listMax_eq_maxL (l : List α) : listMax l = maxL l := by
  unfold listMax maxL
  cases l with
  | nil => rfl
  | cons a l =>
    simp only [List.headD_cons, List.foldl_cons, List.tail_cons]
    have : maxv a a = a := by simp [maxv]
    rw [this]
    rfl

/-- **Spec soundness, vector form**: the definition accepts `core crit c` for every well-formed criterion
    with vector classes and every contribution vector of the right length (exactly: any tolerance ≥ 0) -/
theorem spec_core_sound (rel abs_ : α) (h : 0 ≤ abs_) (hs : LawfulSqrt α) (cr : Crit α)
    (hv : cr.hasVec = true) (hwf : cr.WellFormed) (c : List α) (hc : c.length = cr.ncand)
    (supp : List Nat) (l : List α) (hl : core cr c = some l) :
    accepts rel abs_ (definition cr c supp) l = true := by
  cases cr with
  | lin g D =>
    simp only [core, Option.some.injEq] at hl
    subst hl
    simp only [definition]
    rw [linDef_eq D c (le_of_eq hc)]
    exact accepts_vals rel abs_ h _
  | ocs C D =>
    simp only [core, Option.some.injEq] at hl
    subst hl
    obtain ⟨hrect, hD⟩ := hwf
    simp only [Crit.ncand] at hc
    simp only [definition]
    apply accepts_cons
    · exact holds_norm rel abs_ h hs C c (fun r hr => (hrect r hr).trans hc.symm)
    · rw [linDef_eq D c (by rw [hc, hD])]
      exact accepts_vals rel abs_ h _
  | mgr C =>
    simp only [core, Option.some.injEq] at hl
    subst hl
    simp only [Crit.ncand] at hc
    simp only [definition]
    exact accepts_cons _ _ _ _ _ _ (holds_norm rel abs_ h hs C c (fun r hr => (hwf r hr).trans hc.symm))
      (accepts_nil _ _)
  | meh C =>
    simp only [core, Option.some.injEq] at hl
    subst hl
    simp only [Crit.ncand] at hc
    simp only [definition]
    exact accepts_cons _ _ _ _ _ _ (holds_meh rel abs_ h hs C c (fun r hr => (hwf r hr).trans hc.symm))
      (accepts_nil _ _)
  | l1 V =>
    simp only [core, Option.some.injEq] at hl
    subst hl
    simp only [Crit.ncand] at hc
    simp only [definition]
    apply accepts_map
    intro Vt hVt
    rw [norm1_eq Vt c (fun r hr => (hwf Vt hVt r hr).trans hc.symm)]
    exact holds_val rel abs_ _ h
  | l2 C =>
    simp only [core, Option.some.injEq] at hl
    subst hl
    simp only [Crit.ncand] at hc
    simp only [definition]
    apply accepts_map
    intro Ct hCt
    exact holds_norm rel abs_ h hs Ct c (fun r hr => (hwf Ct hCt r hr).trans hc.symm)
  | family D fix nfam =>
    simp only [core, Option.some.injEq] at hl
    subst hl
    simp only [Crit.ncand] at hc
    have hD : D.length = fix.length := hwf
    simp only [definition]
    apply accepts_append
    · rw [linDef_eq D c (by rw [hc, hD])]
      exact accepts_vals rel abs_ h _
    · apply accepts_map
      intro f _
      rw [zip_family_sum fix c f hc.symm]
      exact holds_val rel abs_ _ h
  | opv H => simp [Crit.hasVec] at hv
  | gb H nb => simp [Crit.hasVec] at hv
  | pafd g p w tf => simp [Crit.hasVec] at hv
  | pau g p w tf => simp [Crit.hasVec] at hv
  | mogs g p w tf => simp [Crit.hasVec] at hv

theorem freqDef_eq (geno : List (List α)) (ploidy : Nat) (S : List Nat) (hS : ∀ i ∈ S, i < geno.length)
    (hne : S ≠ []) (hp : 0 < ploidy) (m : Nat) :
    freqDef geno ploidy (unitShares geno.length S) m = pfreq geno ploidy S m := by
  unfold freqDef
  rw [pfreq_eq geno ploidy geno.length S hS hne hp m,
    dot_column _ geno m (le_of_eq (unitShares_length _ _)), unitShares_length]

theorem pafdDef_eq (geno : List (List α)) (ploidy : Nat) (w tf : List (List α)) (S : List Nat)
    (hS : ∀ i ∈ S, i < geno.length) (hne : S ≠ []) (hp : 0 < ploidy) :
    pafdDef geno ploidy w tf (unitShares geno.length S) = (pafdSubset geno ploidy w tf S).map Entry.val := by
  unfold pafdDef pafdSubset
  rw [List.map_map]
  apply List.map_congr_left
  intro j _
  simp only [Function.comp]
  congr 1
  unfold rsum
  congr 1
  apply List.map_congr_left
  intro m _
  rw [freqDef_eq geno ploidy S hS hne hp m]
  rfl

theorem pauDefShares_eq (geno : List (List α)) (ploidy : Nat) (w tf : List (List α)) (S : List Nat)
    (hS : ∀ i ∈ S, i < geno.length) (hne : S ≠ []) (hp : 0 < ploidy) :
    pauDefShares geno ploidy w tf (unitShares geno.length S) = (pauDef geno ploidy w tf S).map Entry.val := by
  unfold pauDefShares pauDef
  rw [List.map_map]
  apply List.map_congr_left
  intro j _
  simp only [Function.comp]
  congr 1
  unfold rsum
  congr 1
  apply List.map_congr_left
  intro m _
  rw [freqDef_eq geno ploidy S hS hne hp m]
  show (if (if Spec.le (ent tf m j) 0 = true then decide (pfreq geno ploidy S m < 1)
        else if Spec.le 1 (ent tf m j) = true then decide (0 < pfreq geno ploidy S m)
        else (decide (0 < pfreq geno ploidy S m) && decide (pfreq geno ploidy S m < 1))) = true then 0 else ent w m j)
      = ent w m j * b2s (unattainable (ent tf m j) (pfreq geno ploidy S m))
  unfold unattainable Spec.le b2s
  by_cases h0 : 0 < ent tf m j <;> by_cases h1 : ent tf m j < 1 <;>
    by_cases hp0 : 0 < pfreq geno ploidy S m <;> by_cases hp1 : pfreq geno ploidy S m < 1 <;>
    simp [h0, h1, hp0, hp1]

/-- **Spec soundness, subset form**, for the criteria that only have a subset class -/
theorem spec_subset_only_sound (eps rel abs_ : α) (h : 0 ≤ abs_) (cr : Crit α) (hwf : cr.WellFormed)
    (S : List Nat) (hS : ∀ i ∈ S, i < cr.ncand) (hne : S ≠ []) (l : List α)
    (hl : latent eps cr (.subset S) = some l) (hnv : cr.hasVec = false) (hgb : ∀ H nb, cr ≠ .gb H nb) :
    accepts rel abs_ (definition cr (unitShares cr.ncand S) S) l = true := by
  cases cr with
  | lin g D => simp [Crit.hasVec] at hnv
  | ocs C D => simp [Crit.hasVec] at hnv
  | mgr C => simp [Crit.hasVec] at hnv
  | meh C => simp [Crit.hasVec] at hnv
  | l1 V => simp [Crit.hasVec] at hnv
  | l2 C => simp [Crit.hasVec] at hnv
  | family D fix nfam => simp [Crit.hasVec] at hnv
  | gb H nb => exact absurd rfl (hgb H nb)
  | opv H =>
    simp only [latent, Option.some.injEq] at hl
    subst hl
    simp only [definition]
    have : (List.range (((H.headD []).headD []).headD []).length).map (fun j => Entry.val
        (-(((H.length : Nat) : α) * Np.sum ((List.range ((H.headD []).headD []).length).map fun b =>
          listMax (H.flatMap fun Hp => S.map fun i => ((Hp.getD i []).getD b []).getD j 0)))))
        = (opvSubset H S).map Entry.val := by
      unfold opvSubset
      rw [List.map_map]
      apply List.map_congr_left
      intro j _
      simp only [Function.comp, listMax_eq_maxL]
      unfold rsum
      congr 1
      ring
    rw [this]
    exact accepts_vals rel abs_ h _
  | pafd g p w tf =>
    simp only [latent, Option.some.injEq] at hl
    subst hl
    simp only [Crit.ncand] at hS ⊢
    simp only [definition]
    rw [pafdDef_eq g p w tf S hS hne hwf]
    exact accepts_vals rel abs_ h _
  | pau g p w tf =>
    simp only [latent, Option.some.injEq] at hl
    subst hl
    simp only [Crit.ncand] at hS ⊢
    obtain ⟨hp, hfreq⟩ := hwf
    simp only [definition]
    rw [pauDefShares_eq g p w tf S hS hne hp, pauSubset_eq_def g p w tf S hfreq]
    exact accepts_vals rel abs_ h _
  | mogs g p w tf =>
    simp only [latent, Option.some.injEq] at hl
    subst hl
    simp only [Crit.ncand] at hS ⊢
    simp only [definition]
    rw [pauDefShares_eq g p w tf S hS hne hwf, pafdDef_eq g p w tf S hS hne hwf, mogsPau_eq_def]
    exact accepts_append _ _ _ _ _ _ (accepts_vals rel abs_ h _) (accepts_vals rel abs_ h _)

end sound
end Selection
