/-
Helper lemmas for C12 (9): the literal loop transcriptions of `from_algmod` (`addLoop`, `scaleAll`, `mirrorLoop` over an
array modelled as its list of assignments) compute the closed forms `Setup.twoWay / threeWay / fourWay / dihybrid`.
-/
import PybropsModel.Lemmas.VarStruct
set_option autoImplicit false
set_option linter.unusedSectionVars false

namespace Variance

/-! ### arrays as assignment lists -/
section arrays
variable {β : Type} {ι : Type} [DecidableEq ι]

theorem getAt_nil [Zero β] (a : ι) : getAt ([] : List (ι × β)) a = 0 := rfl

theorem getAt_setAt [Zero β] (M : List (ι × β)) (ix a : ι) (v : β) :
    getAt (setAt M ix v) a = if ix = a then v else getAt M a := by
  simp [setAt, getAt]

theorem getAt_scaleAll [MulZeroClass β] (M : List (ι × β)) (c : β) (a : ι) :
    getAt (scaleAll M c) a = getAt M a * c := by
  induction M with
  | nil => simp [scaleAll, getAt]
  | cons p rest ih =>
    simp only [scaleAll, List.map_cons, getAt] at ih ⊢
    split_ifs
    · rfl
    · exact ih

variable [AddCommMonoid β]

/-- the inner loop over the index tuples: every listed cell receives its increment once -/
theorem cellsLoop_get (cells : List ι) (hn : cells.Nodup) (f : ι → β) :
    ∀ (M : List (ι × β)) (a : ι),
      getAt (cells.foldl (fun M ix => setAt M ix (getAt M ix + f ix)) M) a
        = if a ∈ cells then getAt M a + f a else getAt M a := by
  induction cells with
  | nil => intro M a; simp
  | cons c cs ih =>
    intro M a
    have hc : c ∉ cs := (List.nodup_cons.mp hn).1
    rw [List.foldl_cons, ih (List.nodup_cons.mp hn).2]
    by_cases hac : a = c
    · subst hac
      simp [hc, getAt_setAt]
    · have hca : ¬ c = a := fun h => hac h.symm
      simp [hac, getAt_setAt, hca]

/-- the accumulation loops: a listed cell ends with its initial value plus the sum of its block contributions -/
theorem addLoop_get {B : Type} (blocks : List B) (cells : List ι) (hn : cells.Nodup) (part : B → ι → β) :
    ∀ (M : List (ι × β)) (a : ι),
      getAt (addLoop blocks cells part M) a
        = if a ∈ cells then getAt M a + (blocks.map (fun b => part b a)).sum else getAt M a := by
  induction blocks with
  | nil => intro M a; simp [addLoop]
  | cons b bs ih =>
    intro M a
    have ih' := ih (cells.foldl (fun M ix => setAt M ix (getAt M ix + part b ix)) M) a
    unfold addLoop at ih' ⊢
    rw [List.foldl_cons, ih', cellsLoop_get cells hn (part b) M a]
    by_cases ha : a ∈ cells
    · simp [ha, add_assoc]
    · simp [ha]

end arrays

/-! ### the index lists -/

theorem mem_lowerPairs (n f m : Nat) : (f, m) ∈ lowerPairs n ↔ m < f ∧ f < n := by
  unfold lowerPairs
  simp only [List.mem_flatMap, List.mem_range', List.mem_map, List.mem_range, Prod.mk.injEq]
  constructor
  · rintro ⟨a, ⟨i, hi, rfl⟩, b, hb, rfl, rfl⟩
    omega
  · rintro ⟨h1, h2⟩
    exact ⟨f, ⟨f - 1, by omega, by omega⟩, m, h1, rfl, rfl⟩

theorem mem_lowerPairsDiag (n f m : Nat) : (f, m) ∈ lowerPairsDiag n ↔ m ≤ f ∧ f < n := by
  unfold lowerPairsDiag
  simp only [List.mem_flatMap, List.mem_range, List.mem_map, Prod.mk.injEq]
  constructor
  · rintro ⟨a, ha, b, hb, rfl, rfl⟩
    omega
  · rintro ⟨h1, h2⟩
    exact ⟨f, h2, m, by omega, rfl, rfl⟩

theorem nodup_pairs (l : List Nat) (hl : l.Nodup) (g : Nat → Nat) :
    (l.flatMap (fun f => (List.range (g f)).map (fun m => (f, m)))).Nodup := by
  induction l with
  | nil => simp
  | cons a as ih =>
    rw [List.flatMap_cons, List.nodup_append]
    refine ⟨?_, ih (List.nodup_cons.mp hl).2, ?_⟩
    · exact (List.nodup_range).map (fun x y h => by simpa using h)
    · intro x hx y hy hxy
      subst hxy
      simp only [List.mem_map, List.mem_range] at hx
      obtain ⟨m, _, rfl⟩ := hx
      simp only [List.mem_flatMap, List.mem_map, List.mem_range, Prod.mk.injEq] at hy
      obtain ⟨f, hf, _, _, rfl, _⟩ := hy
      exact (List.nodup_cons.mp hl).1 hf

theorem nodup_lowerPairs (n : Nat) : (lowerPairs n).Nodup :=
  nodup_pairs _ (List.nodup_range') (fun f => f)

theorem nodup_lowerPairsDiag (n : Nat) : (lowerPairsDiag n).Nodup :=
  nodup_pairs _ List.nodup_range (fun f => f + 1)

/-! ### the mirror loop -/
section mirror
variable {β : Type} [Zero β]

theorem mirrorFold_get (ps : List (Nat × Nat)) (hps : ∀ p ∈ ps, p.2 < p.1) :
    ∀ (M : List ((Nat × Nat) × β)) (a b : Nat),
      getAt (ps.foldl (fun M fm => setAt M (fm.2, fm.1) (getAt M (fm.1, fm.2))) M) (a, b)
        = if (b, a) ∈ ps then getAt M (b, a) else getAt M (a, b) := by
  induction ps with
  | nil => intro M a b; simp
  | cons p rest ih =>
    intro M a b
    have hp : p.2 < p.1 := hps p (List.mem_cons_self ..)
    have hrest : ∀ q ∈ rest, q.2 < q.1 := fun q hq => hps q (List.mem_cons_of_mem _ hq)
    rw [List.foldl_cons, ih hrest]
    obtain ⟨f, m⟩ := p
    simp only at hp
    by_cases h1 : (b, a) ∈ rest
    · have hab : a < b := hrest _ h1
      have hne : ¬ (m, f) = (b, a) := by
        intro h; simp only [Prod.mk.injEq] at h; omega
      simp [h1, getAt_setAt, hne]
    · by_cases h2 : (b, a) = (f, m)
      · simp only [Prod.mk.injEq] at h2
        obtain ⟨rfl, rfl⟩ := h2
        simp [h1, getAt_setAt]
      · have hne : ¬ (m, f) = (a, b) := by
          intro h; simp only [Prod.mk.injEq] at h; apply h2; simp only [Prod.mk.injEq]; omega
        have h3 : (b, a) ∉ (f, m) :: rest := by
          simp only [List.mem_cons, not_or]; exact ⟨h2, h1⟩
        simp [h1, h3, getAt_setAt, hne]

/-- **mirror loop**: afterwards every strictly-upper cell `(a, b)`, `a < b < n`, holds the value of its transpose; all other
    cells are unchanged -/
theorem mirrorLoop_get (n : Nat) (M : List ((Nat × Nat) × β)) (a b : Nat) :
    getAt (mirrorLoop n M) (a, b) = if a < b ∧ b < n then getAt M (b, a) else getAt M (a, b) := by
  unfold mirrorLoop
  rw [mirrorFold_get _ (fun p hp => ((mem_lowerPairs n p.1 p.2).mp hp).1)]
  simp only [mem_lowerPairs]

end mirror

/-! ### the chunk blocks -/
section blocks
variable {α : Type} [Field α] [CharZero α]

theorem sum_map_flatMap {A B : Type} (l : List A) (g : A → List B) (f : B → α) :
    ((l.flatMap g).map f).sum = (l.map (fun a => ((g a).map f).sum)).sum := by
  induction l with
  | nil => simp
  | cons a as ih => simp [List.flatMap_cons, ih]

/-- summing a block function over `blocksOf` is the triple loop `accum` -/
theorem blocksOf_sum (mem : Option Nat) (chrs : List (Nat × Nat)) (part : Nat → Nat → Nat → Nat → α) :
    ((blocksOf mem chrs).map (fun b => part b.1 b.2.1 b.2.2.1 b.2.2.2)).sum = accum mem chrs part := by
  unfold blocksOf accum
  rw [sum_map_flatMap]
  congr 1
  apply List.map_congr_left
  intro c _
  rw [sum_map_flatMap]
  congr 1
  apply List.map_congr_left
  intro rc _
  rw [List.map_map]
  rfl

/-! ### the four literal transcriptions -/
variable (S : Setup α)

theorem twoWayLoop_get (n s t f m : Nat) (hf : f < n) (hm : m < n) :
    getAt (S.twoWayLoop n s t) (f, m) = S.twoWay f m s t := by
  unfold Setup.twoWayLoop
  rw [mirrorLoop_get]
  have L : ∀ a b, getAt (addLoop (blocksOf S.mem S.chrs) (lowerPairs n)
      (fun b fm => S.part S.D1 (fun i => S.g0 fm.1 i - S.g0 fm.2 i) s t b.1 b.2.1 b.2.2.1 b.2.2.2) []) (a, b)
      = if b < a ∧ a < n then S.twoWayLower a b s t else 0 := by
    intro a b
    rw [addLoop_get _ _ (nodup_lowerPairs n)]
    simp only [mem_lowerPairs, getAt_nil, zero_add]
    split_ifs
    · exact blocksOf_sum S.mem S.chrs (S.part S.D1 (fun i => S.g0 a i - S.g0 b i) s t)
    · rfl
  rw [L, L]
  unfold Setup.twoWay
  by_cases h1 : m < f
  · simp [h1, hf, Nat.lt_asymm h1]
  · by_cases h2 : f < m
    · simp [h1, h2, hm]
    · have : f = m := by omega
      subst this
      simp

/-- cell of the scaled accumulation over `male ≤ female` -/
theorem diagLoop_get (n : Nat) (part : Nat × Nat → Nat → Nat → Nat → Nat → α) (a b : Nat) :
    getAt (scaleAll (addLoop (blocksOf S.mem S.chrs) (lowerPairsDiag n)
        (fun blk fm => part fm blk.1 blk.2.1 blk.2.2.1 blk.2.2.2) []) (1 / four)) (a, b)
      = if b ≤ a ∧ a < n then accum S.mem S.chrs (part (a, b)) * (1 / four) else 0 := by
  rw [getAt_scaleAll, addLoop_get _ _ (nodup_lowerPairsDiag n)]
  simp only [mem_lowerPairsDiag, getAt_nil, zero_add]
  split_ifs
  · rw [blocksOf_sum S.mem S.chrs (part (a, b))]
  · simp

theorem dihybridLoop_get (n s t f m : Nat) (hf : f < n) (hm : m < n) :
    getAt (S.dihybridLoop n s t) (f, m) = S.dihybrid f m s t := by
  unfold Setup.dihybridLoop
  rw [mirrorLoop_get]
  have L := diagLoop_get S n (fun fm => S.sixParts (S.g1 fm.1) (S.g0 fm.1) (S.g1 fm.2) (S.g0 fm.2) s t)
  simp only at L
  rw [L, L]
  unfold Setup.dihybrid Setup.dihybridLower
  by_cases h1 : m ≤ f
  · have : ¬ (f < m ∧ m < n) := by omega
    simp [h1, hf, this]
  · have h2 : f < m := by omega
    simp [h1, h2, hm, Nat.le_of_lt h2]

theorem threeWayLoop_get (n rc s t f m : Nat) (hf : f < n) (hm : m < n) :
    getAt (S.threeWayLoop n rc s t) (f, m) = S.threeWay rc f m s t := by
  unfold Setup.threeWayLoop
  rw [mirrorLoop_get]
  have L := diagLoop_get S n (fun fm rst rsp cst csp =>
    (two * (S.part S.D1 (fun i => S.g0 fm.1 i - S.g0 rc i) s t rst rsp cst csp
          + S.part S.D1 (fun i => S.g0 fm.2 i - S.g0 rc i) s t rst rsp cst csp))
      + S.part S.D2 (fun i => S.g0 fm.1 i - S.g0 fm.2 i) s t rst rsp cst csp)
  simp only at L
  rw [L, L]
  unfold Setup.threeWay Setup.threeWayLower
  by_cases h1 : m ≤ f
  · have : ¬ (f < m ∧ m < n) := by omega
    simp [h1, hf, this]
  · have h2 : f < m := by omega
    simp [h1, h2, hm, Nat.le_of_lt h2]

theorem fourWayLoop_get (n f2 m2 s t f m : Nat) (hf : f < n) (hm : m < n) :
    getAt (S.fourWayLoop n f2 m2 s t) (f, m) = S.fourWay f2 m2 f m s t := by
  unfold Setup.fourWayLoop
  rw [mirrorLoop_get]
  have L := diagLoop_get S n (fun fm => S.sixParts (S.g0 f2) (S.g0 m2) (S.g0 fm.1) (S.g0 fm.2) s t)
  simp only at L
  rw [L, L]
  unfold Setup.fourWay Setup.fourWayLower
  by_cases h1 : m ≤ f
  · have : ¬ (f < m ∧ m < n) := by omega
    simp [h1, hf, this]
  · have h2 : f < m := by omega
    simp [h1, h2, hm, Nat.le_of_lt h2]

end blocks
end Variance
