/-
Helper lemmas for C01 about the mosaic predicate `Mating.MosaicFrom` / `Mating.Mosaic`:
monotonicity in the source set, a haplotype is a mosaic of itself, a gamete of an individual whose
copies are mosaics of `A` and `B` is a mosaic of `A ++ B`, and the reachability test
`Mating.mosaicCheck` decides `Mosaic`.
-/
import Mathlib.Tactic
import PybropsModel.Lemmas.MeiosisLoop
import PybropsModel.Model.Mating
set_option autoImplicit false

namespace Mating
open Meiosis
variable {α ρ : Type}

section basic
variable [LT ρ] [OfNat ρ 0]

theorem MosaicFrom.length_eq : ∀ {xo : List ρ} {cur : List α} {srcs : List (List α)} {out : List α},
    MosaicFrom cur srcs xo out → out.length = xo.length := by
  intro xo
  induction xo with
  | nil => intro cur srcs out h; cases out with
    | nil => rfl
    | cons a t => simp [MosaicFrom] at h
  | cons x xs ih =>
    intro cur srcs out h
    cases out with
    | nil => simp [MosaicFrom] at h
    | cons a t =>
      simp only [MosaicFrom] at h
      obtain ⟨nxt, _, _, _, h⟩ := h
      simp [ih h]

theorem MosaicFrom.mono : ∀ {xo : List ρ} {cur : List α} {A A' : List (List α)} {out : List α},
    (∀ x ∈ A, x ∈ A') → MosaicFrom cur A xo out → MosaicFrom cur A' xo out := by
  intro xo
  induction xo with
  | nil => intro cur A A' out _ h; cases out with
    | nil => simp [MosaicFrom]
    | cons a t => simp [MosaicFrom] at h
  | cons x xs ih =>
    intro cur A A' out hsub h
    cases out with
    | nil => simp [MosaicFrom] at h
    | cons a t =>
      simp only [MosaicFrom] at h ⊢
      obtain ⟨nxt, hm, hc, hh, hr⟩ := h
      refine ⟨nxt, hsub _ hm, hc, hh, ih ?_ hr⟩
      intro y hy
      obtain ⟨z, hz, rfl⟩ := List.mem_map.mp hy
      exact List.mem_map.mpr ⟨z, hsub _ hz, rfl⟩

theorem Mosaic.mono {xo : List ρ} {A A' : List (List α)} {out : List α}
    (hsub : ∀ x ∈ A, x ∈ A') (h : Mosaic A xo out) : Mosaic A' xo out := by
  obtain ⟨cur, hc, hm⟩ := h
  exact ⟨cur, hsub _ hc, hm.mono hsub⟩

/-- a haplotype among the sources is a mosaic of them (no switch at all) -/
theorem MosaicFrom.self : ∀ (xo : List ρ) (h : List α) (srcs : List (List α)),
    h.length = xo.length → h ∈ srcs → MosaicFrom h srcs xo h := by
  intro xo
  induction xo with
  | nil => intro h srcs hl _; cases h with
    | nil => simp [MosaicFrom]
    | cons a t => simp at hl
  | cons x xs ih =>
    intro h srcs hl hm
    cases h with
    | nil => simp at hl
    | cons a t =>
      simp only [MosaicFrom]
      refine ⟨a :: t, hm, Or.inl rfl, rfl, ?_⟩
      exact ih t _ (by simpa using hl) (List.mem_map.mpr ⟨a :: t, hm, rfl⟩)

theorem Mosaic.self (xo : List ρ) (h : List α) (srcs : List (List α))
    (hl : h.length = xo.length) (hm : h ∈ srcs) : Mosaic srcs xo h :=
  ⟨h, hm, MosaicFrom.self xo h srcs hl hm⟩

theorem Mosaic.length_eq {xo : List ρ} {A : List (List α)} {out : List α} (h : Mosaic A xo out) :
    out.length = xo.length := by
  obtain ⟨_, _, hm⟩ := h
  exact hm.length_eq

end basic

section compose
variable [Preorder ρ] [DecidableLT ρ] [Zero ρ]

/-- the gamete (`perMarker`) of two haplotypes that are mosaics of `A` resp. `B` is a mosaic of
    `A ++ B`: a flip of the gamete's phase happens only where a draw `0 ≤ r < xo` was made -/
theorem MosaicFrom.perMarker (A B : List (List α)) : ∀ (xo r : List ρ) (h0 h1 c0 c1 : List α) (ph : Bool),
    (∀ x ∈ r, 0 ≤ x) → r.length = xo.length →
    MosaicFrom c0 A xo h0 → MosaicFrom c1 B xo h1 →
    MosaicFrom (if ph then c1 else c0) (A ++ B) xo (perMarker (xoMask r xo) ph h0 h1) := by
  intro xo
  induction xo generalizing A B with
  | nil =>
    intro r h0 h1 c0 c1 ph _ hl m0 m1
    have : r = [] := by simpa using hl
    subst this
    simp [xoMask, Meiosis.perMarker, MosaicFrom]
  | cons x xs ih =>
    intro r h0 h1 c0 c1 ph hr hl m0 m1
    cases r with
    | nil => simp at hl
    | cons r0 rs =>
    cases h0 with
    | nil => simp [MosaicFrom] at m0
    | cons a0 t0 =>
    cases h1 with
    | nil => simp [MosaicFrom] at m1
    | cons a1 t1 =>
      simp only [MosaicFrom] at m0 m1
      obtain ⟨n0, hn0, hc0, hh0, hm0⟩ := m0
      obtain ⟨n1, hn1, hc1, hh1, hm1⟩ := m1
      have hr0 : 0 ≤ r0 := hr r0 (by simp)
      have hrs : ∀ y ∈ rs, 0 ≤ y := fun y hy => hr y (by simp [hy])
      have hls : rs.length = xs.length := by simpa using hl
      have step := ih (A.map List.tail) (B.map List.tail) rs t0 t1 n0.tail n1.tail
        (xor ph (decide (r0 < x))) hrs hls hm0 hm1
      simp only [xoMask, List.zipWith_cons_cons, Meiosis.perMarker, MosaicFrom, List.map_append]
      refine ⟨if xor ph (decide (r0 < x)) then n1 else n0, ?_, ?_, ?_, ?_⟩
      · split
        · exact List.mem_append_right _ hn1
        · exact List.mem_append_left _ hn0
      · by_cases hlt : r0 < x
        · exact Or.inr (lt_of_le_of_lt hr0 hlt)
        · simp only [hlt, decide_false, Bool.xor_false]
          cases ph
          · simp only [Bool.false_eq_true, if_false]
            rcases hc0 with h | h
            · exact Or.inl h
            · exact Or.inr h
          · simp only [if_true]
            rcases hc1 with h | h
            · exact Or.inl h
            · exact Or.inr h
      · split
        · exact hh1
        · exact hh0
      · have e : (if xor ph (decide (r0 < x)) then n1 else n0).tail
            = if xor ph (decide (r0 < x)) then n1.tail else n0.tail := by split <;> rfl
        rw [e]
        exact step

/-- a gamete of an individual whose two copies are mosaics of `A` resp. `B` is a mosaic of `A ++ B` -/
theorem Mosaic.gamete (A B : List (List α)) (xo r : List ρ) (ind : Ind α)
    (hr : ∀ x ∈ r, 0 ≤ x) (hl : r.length = xo.length)
    (m0 : Mosaic A xo ind.1) (m1 : Mosaic B xo ind.2) :
    Mosaic (A ++ B) xo (Meiosis.gamete ind (xoMask r xo)) := by
  obtain ⟨c0, hc0, h0⟩ := m0
  obtain ⟨c1, hc1, h1⟩ := m1
  refine ⟨c0, List.mem_append_left _ hc0, ?_⟩
  have := MosaicFrom.perMarker A B xo r ind.1 ind.2 c0 c1 false hr hl h0 h1
  simpa [Meiosis.gamete] using this

end compose

section decide
variable [BEq α] [LawfulBEq α] [LT ρ] [DecidableLT ρ] [OfNat ρ 0]

theorem mosaicDP_iff : ∀ (xo : List ρ) (reach : List Bool) (srcs : List (List α)) (out : List α),
    reach.length = srcs.length →
    (mosaicDP reach srcs xo out = true ↔
      ∃ cur, (∃ s : Nat, reach[s]? = some true ∧ srcs[s]? = some cur) ∧ MosaicFrom cur srcs xo out) := by
  intro xo
  induction xo with
  | nil =>
    intro reach srcs out hl
    cases out with
    | cons a t => simp [mosaicDP, MosaicFrom]
    | nil =>
      simp only [mosaicDP, MosaicFrom, and_true, List.any_eq_true, id_eq]
      constructor
      · rintro ⟨b, hb, rfl⟩
        obtain ⟨s, hs, he⟩ := List.mem_iff_getElem.mp hb
        refine ⟨srcs[s]'(by omega), s, ?_, ?_⟩
        · rw [List.getElem?_eq_getElem hs, he]
        · rw [List.getElem?_eq_getElem]
      · rintro ⟨cur, s, hs, _⟩
        exact ⟨true, List.mem_of_getElem? hs, rfl⟩
  | cons x xs ih =>
    intro reach srcs out hl
    cases out with
    | nil => simp [mosaicDP, MosaicFrom]
    | cons a t =>
      simp only [mosaicDP, MosaicFrom]
      rw [ih _ _ _ (by simp [hl])]
      constructor
      · rintro ⟨cur', ⟨s, hs, hsrc⟩, hm⟩
        rw [List.getElem?_map] at hs hsrc
        obtain ⟨src, hsrc0, rfl⟩ := Option.map_eq_some_iff.mp hsrc
        obtain ⟨⟨src', r⟩, hz, hcond⟩ := Option.map_eq_some_iff.mp hs
        rw [List.getElem?_zip_eq_some] at hz
        obtain ⟨hz1, hz2⟩ := hz
        have : src' = src := by rw [hsrc0] at hz1; exact (Option.some.inj hz1).symm
        subst this
        simp only [Bool.and_eq_true, Bool.or_eq_true, beq_iff_eq, decide_eq_true_eq,
          List.any_eq_true, id_eq] at hcond
        obtain ⟨hhead, hor⟩ := hcond
        have hmem : src' ∈ srcs := List.mem_of_getElem? hsrc0
        rcases hor with hr | ⟨hx, b, hb, rfl⟩
        · subst hr
          exact ⟨src', ⟨s, hz2, hsrc0⟩, src', hmem, Or.inl rfl, hhead, hm⟩
        · obtain ⟨s0, hs0, he⟩ := List.mem_iff_getElem.mp hb
          refine ⟨srcs[s0]'(by omega), ⟨s0, ?_, ?_⟩, src', hmem, Or.inr hx, hhead, hm⟩
          · rw [List.getElem?_eq_getElem hs0, he]
          · rw [List.getElem?_eq_getElem]
      · rintro ⟨cur, ⟨s0, hs0, hsrc0⟩, nxt, hn, hc, hhead, hm⟩
        refine ⟨nxt.tail, ?_, hm⟩
        rcases hc with rfl | hx
        · refine ⟨s0, ?_, ?_⟩
          · rw [List.getElem?_map]
            have : (List.zip srcs reach)[s0]? = some (nxt, true) := by
              rw [List.getElem?_zip_eq_some]; exact ⟨hsrc0, hs0⟩
            rw [this]
            simp [hhead]
          · rw [List.getElem?_map, hsrc0]; rfl
        · obtain ⟨s, hs, he⟩ := List.mem_iff_getElem.mp hn
          have hs' : s < reach.length := by omega
          refine ⟨s, ?_, ?_⟩
          · rw [List.getElem?_map]
            have : (List.zip srcs reach)[s]? = some (nxt, reach[s]) := by
              rw [List.getElem?_zip_eq_some]
              exact ⟨by rw [List.getElem?_eq_getElem hs, he], by rw [List.getElem?_eq_getElem hs']⟩
            rw [this]
            have hany : reach.any id = true := by
              simp only [List.any_eq_true, id_eq]
              exact ⟨true, List.mem_of_getElem? hs0, rfl⟩
            simp [hhead, hx, hany]
          · rw [List.getElem?_map, List.getElem?_eq_getElem hs, he]; rfl

/-- the reachability test decides the mosaic predicate -/
theorem mosaicCheck_iff (srcs : List (List α)) (xo : List ρ) (out : List α) :
    mosaicCheck srcs xo out = true ↔ Mosaic srcs xo out := by
  unfold mosaicCheck Mosaic
  rw [mosaicDP_iff _ _ _ _ (by simp)]
  constructor
  · rintro ⟨cur, ⟨s, _, hs⟩, hm⟩
    exact ⟨cur, List.mem_of_getElem? hs, hm⟩
  · rintro ⟨cur, hc, hm⟩
    obtain ⟨s, hs, he⟩ := List.mem_iff_getElem.mp hc
    refine ⟨cur, ⟨s, ?_, ?_⟩, hm⟩
    · simp [hs]
    · rw [List.getElem?_eq_getElem hs, he]

end decide

end Mating
