/-
Helper lemmas for C14, part 8: phenotype tables with missing values (`Pheno.colMeansNan`, `Pheno.meanBVNanPrerepair`).
-/
import PybropsModel.Lemmas.PhenoBV
set_option autoImplicit false
set_option linter.unusedSectionVars false

namespace Pheno

section nan
variable {L G α : Type} [DecidableEq L] [DecidableEq G] [Field α]

theorem colMeansNan_perm (t : Nat) {r₁ r₂ : List (List (Option α))} (h : r₁.Perm r₂) :
    colMeansNan t r₁ = colMeansNan t r₂ := by
  unfold colMeansNan
  apply List.map_congr_left
  intro j _
  have hp : (r₁.filterMap (fun r => (r[j]?).join)).Perm (r₂.filterMap (fun r => (r[j]?).join)) := h.filterMap _
  simp only
  rw [mean_perm hp]
  have : (r₁.filterMap (fun r => (r[j]?).join)).isEmpty = (r₂.filterMap (fun r => (r[j]?).join)).isEmpty := by
    cases h1 : r₁.filterMap (fun r => (r[j]?).join) with
    | nil => rw [h1] at hp; rw [List.perm_nil.mp hp.symm]
    | cons a l =>
      cases h2 : r₂.filterMap (fun r => (r[j]?).join) with
      | nil => rw [h1, h2] at hp; exact absurd (List.perm_nil.mp hp) (by simp)
      | cons b l' => rfl
  rw [this]

/-- what the property asks of one row when values may be missing: per trait the mean over the taxon's records that have
    a value; missing where there is none (in particular everywhere for a taxon without records) -/
def meanOrMissingNan (t : Nat) (recs : List (Rec L G (Option α))) (name : L) : List (Option α) :=
  if recordsOf recs name = [] then List.replicate t none
  else colMeansNan t ((recordsOf recs name).map (·.vals))

theorem meanBVNan_eq (le : (L × Option G) → (L × Option G) → Bool) (useGrp : Bool) (t : Nat)
    (recs : List (Rec L G (Option α))) (hk : KeyByName useGrp recs) (gtTaxa : List L) :
    meanBVNanPrerepair le useGrp t recs gtTaxa = gtTaxa.map (meanOrMissingNan t recs) := by
  unfold meanBVNanPrerepair
  apply List.map_congr_left
  intro name _
  unfold meanOrMissingNan recordsOf
  by_cases he : recs.filter (fun r => r.taxa = name) = []
  · rw [if_pos he, lookupLast_aggWith_none]
    · rfl
    · intro r hr hn
      have : r ∈ recs.filter (fun r => r.taxa = name) := by simp [hr, hn]
      rw [he] at this
      simp at this
  · rw [if_neg he]
    obtain ⟨r₀, hr₀⟩ := List.exists_mem_of_ne_nil _ he
    simp only [List.mem_filter, decide_eq_true_eq] at hr₀
    obtain ⟨k₀, _, hk₀⟩ := hk r₀ hr₀.1
    rw [lookupLast_aggWith_some (colMeansNan t) le useGrp recs name k₀ r₀ hr₀.1 hr₀.2
      (fun r hr hn => hk₀ r hr (hn.trans hr₀.2.symm))]
    rfl

/-- a table without missing values, embedded -/
def liftRec (r : Rec L G α) : Rec L G (Option α) :=
  { taxa := r.taxa, grp := r.grp, env := r.env, rep := r.rep, vals := r.vals.map some }

theorem colMeansNan_lift (t : Nat) (rows : List (List α)) (hne : rows ≠ []) (hlen : ∀ r ∈ rows, r.length = t) :
    colMeansNan t (rows.map (fun r => r.map some)) = (colMeans t rows).map some := by
  unfold colMeansNan colMeans
  rw [List.map_map]
  apply List.map_congr_left
  intro j hj
  have hj' : j < t := by simpa using hj
  have hcol : (rows.map (fun r => r.map some)).filterMap (fun r => (r[j]?).join) = rows.filterMap (fun r => r[j]?) := by
    rw [List.filterMap_map]
    apply List.filterMap_congr
    intro r _
    simp only [Function.comp, List.getElem?_map]
    cases r[j]? <;> rfl
  simp only [hcol, Function.comp]
  have hne' : rows.filterMap (fun r => r[j]?) ≠ [] := by
    obtain ⟨r, hr⟩ := List.exists_mem_of_ne_nil _ hne
    intro h
    have hrj : j < r.length := by rw [hlen r hr]; exact hj'
    have : r[j] ∈ rows.filterMap (fun r => r[j]?) := List.mem_filterMap.mpr ⟨r, hr, by simp [hrj]⟩
    rw [h] at this
    simp at this
  have : (rows.filterMap (fun r => r[j]?)).isEmpty = false := by
    cases hc : rows.filterMap (fun r => r[j]?) with
    | nil => exact absurd hc hne'
    | cons a l => rfl
  rw [this]
  rfl

theorem keyOf_liftRec (useGrp : Bool) (r : Rec L G α) : keyOf useGrp (liftRec r) = keyOf useGrp r := rfl

theorem aggKeys_lift (le : (L × Option G) → (L × Option G) → Bool) (useGrp : Bool) (recs : List (Rec L G α)) :
    aggKeys le useGrp (recs.map liftRec) = aggKeys le useGrp recs := by
  unfold aggKeys
  rw [List.filterMap_map]
  rfl

theorem groupRows_lift (useGrp : Bool) (recs : List (Rec L G α)) (k : L × Option G) :
    groupRows useGrp (recs.map liftRec) k = (groupRows useGrp recs k).map (fun r => r.map some) := by
  unfold groupRows
  rw [List.filter_map, List.map_map, List.map_map]
  rfl

/-- **conservative extension**: on a table without missing values the NaN-aware estimate is the plain one -/
theorem meanBVNan_lift (le : (L × Option G) → (L × Option G) → Bool) (useGrp : Bool) (t : Nat)
    (recs : List (Rec L G α)) (hlen : ∀ r ∈ recs, r.vals.length = t) (gtTaxa : List L) :
    meanBVNanPrerepair le useGrp t (recs.map liftRec) gtTaxa =
      (meanBVPrerepair le useGrp t recs gtTaxa).map (fun o => match o with
        | none => List.replicate t none
        | some row => row.map some) := by
  unfold meanBVNanPrerepair meanBVPrerepair
  rw [List.map_map]
  apply List.map_congr_left
  intro name _
  simp only [Function.comp]
  have hagg : aggWith (colMeansNan t) le useGrp (recs.map liftRec) =
      (agg le useGrp t recs).map (fun kv => (kv.1, kv.2.map some)) := by
    unfold agg aggWith
    rw [aggKeys_lift, List.map_map]
    apply List.map_congr_left
    intro k hk
    simp only [Function.comp, Prod.mk.injEq, true_and]
    rw [groupRows_lift]
    apply colMeansNan_lift
    · obtain ⟨r, hr, hrk⟩ := (mem_aggKeys le useGrp recs k).mp hk
      unfold groupRows
      intro h
      have : r ∈ recs.filter (fun r => keyOf useGrp r = some k) := by simp [hr, hrk]
      have h2 : recs.filter (fun r => keyOf useGrp r = some k) = [] := by simpa using h
      rw [h2] at this
      simp at this
    · intro row hrow
      unfold groupRows at hrow
      obtain ⟨r, hr, rfl⟩ := List.mem_map.mp hrow
      exact hlen r (List.mem_filter.mp hr).1
  rw [hagg]
  unfold lookupLast
  rw [List.filter_map, List.getLast?_map]
  have hcomp : ((fun kv : (L × Option G) × List (Option α) => decide (kv.1.1 = name)) ∘
      fun kv : (L × Option G) × List α => (kv.1, kv.2.map some)) = fun kv => decide (kv.1.1 = name) := rfl
  rw [hcomp]
  cases ((agg le useGrp t recs).filter (fun kv => decide (kv.1.1 = name))).getLast? with
  | none => rfl
  | some kv => rfl

end nan

end Pheno
