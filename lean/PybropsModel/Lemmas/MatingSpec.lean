/-
Helper lemmas for C01: inversion of `Mating.mate`, the count / family / name / counter facts of its
output, the per-row provenance statement, and soundness of the decidable Spec `Mating.specMate`
(the oracle evaluated on implementation outputs) for every output of the model.
-/
import Mathlib.Tactic
import PybropsModel.Lemmas.MatingProtocols
import PybropsModel.Lemmas.MatingSort
set_option autoImplicit false
set_option linter.unusedSectionVars false

namespace Mating
open Meiosis
variable {α ρ : Type}

def mkRow (x : Ind α × List Nat × Nat) : Row α := ⟨x.1, x.2.1, x.2.2⟩

/-- rows in generation order -/
def genRows (P : Proto) (prog : Pop α) (pc : Nat) (grp : List Nat) : List (Row α) :=
  (List.zip prog (List.zip ((Np.arange pc prog.length).map (name P.pre)) grp)).map mkRow

theorem Cnt.expand_length {c : Cnt} {n : Nat} {l : List Nat} (h : c.expand n = .ok l) : l.length = n := by
  cases c with
  | scalar k => simp only [Cnt.expand, Except.ok.injEq] at h; subst h; simp
  | arr a =>
    simp only [Cnt.expand] at h
    split at h
    · simp only [Except.ok.injEq] at h; subst h; assumption
    · simp at h

/-- both ways of building the family labels give `repeat(arange(fc, fc+ncross), nmating*nprogeny)` -/
theorem families_eq (P : Proto) (fc n : Nat) (nm np : List Nat) :
    families P fc n nm np = Np.repeatEach (List.zipWith (· * ·) nm np) (Np.arange fc n) := by
  cases P <;> simp only [families, Np.repeatEach_nested]

section inv
variable [LT ρ] [DecidableLT ρ]

theorem mate_inv {P : Proto} {pop : Pop α} {xc : List (List Nat)} {nmating nprogeny : Cnt} {nself : Nat}
    {xo : List ρ} {pc fc : Nat} {draws : List (DrawMat ρ)} {out : Out α}
    (h : mate P pop xc nmating nprogeny nself xo pc fc draws = .ok out) :
    ∃ nm np prog, popShaped pop xo.length = true ∧
      nmating.expand xc.length = .ok nm ∧ nprogeny.expand xc.length = .ok np ∧
      generate P pop xc nm np nself xo draws = .ok (prog, []) ∧
      (families P fc xc.length nm np).length = prog.length ∧
      out.rows = groupTaxa (genRows P prog pc (families P fc xc.length nm np)) ∧
      out.pc = pc + prog.length ∧ out.fc = fc + xc.length := by
  unfold mate at h
  split at h
  · simp at h
  · rename_i hs
    split at h
    · simp at h
    · split at h
      · simp at h
      · rename_i nm hnm
        split at h
        · simp at h
        · rename_i np hnp
          split at h
          · simp at h
          · rename_i prog rest hgen
            split at h
            · simp at h
            · rename_i hrest
              dsimp only at h
              split at h
              · simp at h
              · rename_i hlen
                simp only [Except.ok.injEq] at h
                subst h
                have hr : rest = [] := by simpa using hrest
                subst hr
                refine ⟨nm, np, prog, by simpa using hs, hnm, hnp, hgen, by simpa using hlen, rfl, rfl, rfl⟩

end inv

/-! ### projections of the generation-order rows -/

theorem genRows_length (P : Proto) (prog : Pop α) (pc : Nat) (grp : List Nat) (h : grp.length = prog.length) :
    (genRows P prog pc grp).length = prog.length := by
  simp [genRows, h]

theorem genRows_getElem (P : Proto) (prog : Pop α) (pc : Nat) (grp : List Nat) (h : grp.length = prog.length)
    (i : Nat) (hi : i < (genRows P prog pc grp).length) :
    (genRows P prog pc grp)[i] =
      ⟨prog[i]'(by rw [genRows_length P prog pc grp h] at hi; exact hi), name P.pre (pc + i),
       grp[i]'(by rw [genRows_length P prog pc grp h] at hi; omega)⟩ := by
  simp only [genRows, List.getElem_map, List.getElem_zip, mkRow, Np.arange, List.getElem_range]
  rw [Nat.add_comm]

theorem genRows_map_grp (P : Proto) (prog : Pop α) (pc : Nat) (grp : List Nat) (h : grp.length = prog.length) :
    (genRows P prog pc grp).map Row.grp = grp := by
  apply List.ext_getElem
  · simp [genRows_length P prog pc grp h, h]
  · intro i h1 h2
    rw [List.getElem_map, genRows_getElem P prog pc grp h]

theorem genRows_map_name (P : Proto) (prog : Pop α) (pc : Nat) (grp : List Nat) (h : grp.length = prog.length) :
    (genRows P prog pc grp).map Row.name = (Np.arange pc prog.length).map (name P.pre) := by
  apply List.ext_getElem
  · simp [genRows_length P prog pc grp h]
  · intro i h1 h2
    rw [List.getElem_map, genRows_getElem P prog pc grp h]
    simp [Np.arange, Nat.add_comm]

theorem genRows_map_ind (P : Proto) (prog : Pop α) (pc : Nat) (grp : List Nat) (h : grp.length = prog.length) :
    (genRows P prog pc grp).map Row.ind = prog := by
  apply List.ext_getElem
  · simp [genRows_length P prog pc grp h]
  · intro i h1 h2
    rw [List.getElem_map, genRows_getElem P prog pc grp h]

/-- while no name outgrows the 7-digit field the generation order is already the (family, name) order -/
theorem genRows_sorted (P : Proto) (prog : Pop α) (pc : Nat) (grp : List Nat) (h : grp.length = prog.length)
    (hg : grp.Pairwise (· ≤ ·)) (hsmall : pc + prog.length ≤ 10 ^ 7) :
    (genRows P prog pc grp).Pairwise (fun x y => rowLe x y = true) := by
  rw [List.pairwise_iff_getElem]
  intro i j hi hj hij
  rw [genRows_getElem P prog pc grp h, genRows_getElem P prog pc grp h]
  have hl := genRows_length P prog pc grp h
  have hgij : grp[i]'(by omega) ≤ grp[j]'(by omega) := (List.pairwise_iff_getElem.mp hg) i j (by omega) (by omega) hij
  have hn : name P.pre (pc + i) < name P.pre (pc + j) := name_lt _ _ _ (by omega) (by omega)
  simp only [rowLe, Bool.or_eq_true, decide_eq_true_eq, Bool.and_eq_true, beq_iff_eq,
    Bool.not_eq_true', decide_eq_false_iff_not]
  rcases Nat.lt_or_ge (grp[i]'(by omega)) (grp[j]'(by omega)) with hlt | hge
  · exact Or.inl hlt
  · exact Or.inr ⟨by omega, lt_asymm hn⟩

/-! ### facts about every output of `mate` -/

section facts
variable [Preorder ρ] [DecidableLT ρ] [Zero ρ]
variable {P : Proto} {pop : Pop α} {xc : List (List Nat)} {nmating nprogeny : Cnt} {nself : Nat}
    {xo : List ρ} {pc fc : Nat} {draws : List (DrawMat ρ)} {out : Out α}

/-- the facts that need no assumption on the draws -/
theorem mate_labels (h : mate P pop xc nmating nprogeny nself xo pc fc draws = .ok out) :
    ∃ nm np, nmating.expand xc.length = .ok nm ∧ nprogeny.expand xc.length = .ok np ∧
      let per := List.zipWith (· * ·) nm np
      let genGrp := Np.repeatEach per (Np.arange fc xc.length)
      let expect := (Np.arange pc per.sum).map (name P.pre)
      out.rows.length = per.sum ∧
      out.rows.map Row.grp = genGrp ∧
      out.pc = pc + per.sum ∧ out.fc = fc + xc.length ∧
      (out.rows.map Row.name).Perm expect ∧
      (∀ r ∈ out.rows, (r.name, r.grp) ∈ List.zip expect genGrp) ∧
      (pc + per.sum ≤ 10 ^ 7 → out.rows.map Row.name = expect) := by
  obtain ⟨nm, np, prog, _, hnm, hnp, _, hlen, hrows, hpc, hfc⟩ := mate_inv h
  refine ⟨nm, np, hnm, hnp, ?_⟩
  have lnm := Cnt.expand_length hnm
  have lnp := Cnt.expand_length hnp
  rw [families_eq] at hlen hrows
  have hcnt : prog.length = (List.zipWith (· * ·) nm np).sum := by
    rw [← hlen, Np.length_repeatEach _ _ (by simp [lnm, lnp])]
  have hsorted : (Np.repeatEach (List.zipWith (· * ·) nm np) (Np.arange fc xc.length)).Pairwise (· ≤ ·) :=
    Np.pairwise_repeatEach (fun a => le_refl a) _ _ (Np.pairwise_le_arange fc xc.length)
  have hperm := groupTaxa_perm (genRows P prog pc (Np.repeatEach (List.zipWith (· * ·) nm np) (Np.arange fc xc.length)))
  have hmg := genRows_map_grp P prog pc _ hlen
  have hmn := genRows_map_name P prog pc _ hlen
  simp only
  refine ⟨?_, ?_, ?_, hfc, ?_, ?_, ?_⟩
  · rw [hrows, hperm.length_eq, genRows_length P prog pc _ hlen, hcnt]
  · rw [hrows, groupTaxa_grp _ (by rw [hmg]; exact hsorted), hmg]
  · rw [hpc, hcnt]
  · rw [hrows, ← hcnt, ← hmn]
    exact hperm.map Row.name
  · intro r hr
    rw [hrows] at hr
    have hr0 := hperm.mem_iff.mp hr
    obtain ⟨i, hi, rfl⟩ := List.mem_iff_getElem.mp hr0
    rw [genRows_getElem P prog pc _ hlen]
    have hl := genRows_length P prog pc _ hlen
    rw [List.mem_iff_getElem]
    refine ⟨i, by simp; omega, ?_⟩
    simp [Np.arange, Nat.add_comm]
  · intro hsmall
    rw [hrows, groupTaxa_sorted _ (genRows_sorted P prog pc _ hlen hsorted (by omega)),
      hmn, hcnt]

/-- the per-row provenance statement (needs the generator contract `0 ≤ draw`) -/
theorem mate_rows (h : mate P pop xc nmating nprogeny nself xo pc fc draws = .ok out) (hnn : Nonneg draws) :
    ∀ r ∈ out.rows, fc ≤ r.grp ∧ ∃ cross, xc[r.grp - fc]? = some cross ∧
      Mosaic (sources P nself pop cross).1 xo r.ind.1 ∧ Mosaic (sources P nself pop cross).2 xo r.ind.2 ∧
      (P.isDH = true → r.ind.1 = r.ind.2) := by
  obtain ⟨nm, np, prog, hs, hnm, hnp, hgen, hlen, hrows, _, _⟩ := mate_inv h
  obtain ⟨htag, hdh⟩ := generate_ok P hs hnn hgen
  rw [families_eq] at hlen hrows
  intro r hr
  rw [hrows] at hr
  have hr0 := (groupTaxa_perm _).mem_iff.mp hr
  obtain ⟨i, hi, rfl⟩ := List.mem_iff_getElem.mp hr0
  rw [genRows_getElem P prog pc _ hlen]
  have hl := genRows_length P prog pc _ hlen
  have hip : i < prog.length := by omega
  obtain ⟨htl, hall⟩ := List.forall₂_iff_get.mp htag
  have hit : i < (Np.repeatEach (List.zipWith (· * ·) nm np) (xc.map (sources P nself pop))).length := by omega
  have hm := hall i hip hit
  simp only [List.get_eq_getElem] at hm
  -- the tag and the family label of progeny i come from the same cross
  have hig : i < (Np.repeatEach (List.zipWith (· * ·) nm np) (Np.arange fc xc.length)).length := by omega
  have hz : ((Np.repeatEach (List.zipWith (· * ·) nm np) (xc.map (sources P nself pop)))[i],
             (Np.repeatEach (List.zipWith (· * ·) nm np) (Np.arange fc xc.length))[i]) ∈
      List.zip (xc.map (sources P nself pop)) (Np.arange fc xc.length) := by
    apply Np.mem_of_mem_repeatEach (c := List.zipWith (· * ·) nm np)
    rw [← Np.zip_repeatEach, List.mem_iff_getElem]
    exact ⟨i, by simp; omega, by simp⟩
  obtain ⟨k, hk, hke⟩ := List.mem_iff_getElem.mp hz
  simp only [List.getElem_zip, List.getElem_map, Np.getElem_arange, Prod.mk.injEq] at hke
  obtain ⟨hk1, hk2⟩ := hke
  have hkx : k < xc.length := by simp at hk; omega
  simp only
  rw [← hk1] at hm
  refine ⟨by omega, xc[k], ?_, hm.1, hm.2, fun hd => hdh hd _ (List.getElem_mem hip)⟩
  rw [← hk2]
  simp [hkx]

end facts

end Mating
