/-
Helper lemmas for C13 (round 4): taxa indices as the caller writes them.  `numpy.take` and fancy indexing read a
negative index relative to the end (once) and reject everything else out of range — `LabelMat.normIdx`.  The
genotype matrix normalises against its number of taxa, the square matrix against its number of rows; the
estimators keep that number, so both pick the same taxa.
-/
import PybropsModel.Lemmas.CoancestryObj
set_option autoImplicit false
set_option linter.unusedSectionVars false

namespace Coancestry
open LabelMat

theorem normIdx_lt (n : Nat) (i : Int) (k : Nat) (h : normIdx n i = .ok k) : k < n := by
  unfold normIdx at h
  by_cases h0 : 0 ≤ i
  · simp only [h0, if_true] at h
    by_cases h1 : i.toNat < n
    · simp only [h1, if_true] at h
      cases h
      exact h1
    · simp only [h1, if_false] at h
      cases h
  · simp only [h0, if_false] at h
    by_cases h1 : (-i).toNat ≤ n
    · simp only [h1, if_true] at h
      cases h
      have : 0 < (-i).toNat := by omega
      omega
    · simp only [h1, if_false] at h
      cases h

theorem normIdxs_lt (n : Nat) (is : List Int) (ix : List Nat) (h : normIdxs n is = .ok ix) :
    ∀ k ∈ ix, k < n := by
  unfold normIdxs at h
  induction is generalizing ix with
  | nil =>
    cases h
    intro k hk
    cases hk
  | cons i is ih =>
    simp only [List.mapM_cons] at h
    cases hi : normIdx n i with
    | error e => rw [hi] at h; cases h
    | ok a =>
      rw [hi] at h
      cases hr : List.mapM (normIdx n) is with
      | error e => rw [hr] at h; cases h
      | ok r =>
        rw [hr] at h
        cases h
        intro k hk
        rcases List.mem_cons.mp hk with rfl | hk
        · exact normIdx_lt n i _ hi
        · exact ih r hr k hk

/-- a non-negative in-range index is itself -/
theorem normIdx_ofNat (n i : Nat) (h : i < n) : normIdx n (Int.ofNat i) = .ok i := by
  unfold normIdx
  simp [h]
  rfl

/-- `-k` (for `1 ≤ k ≤ n`) is the `k`-th taxon from the end -/
theorem normIdx_neg (n k : Nat) (hk : 0 < k) (hkn : k ≤ n) : normIdx n (-(k : Int)) = .ok (n - k) := by
  unfold normIdx
  have h0 : ¬ (0 : Int) ≤ -(k : Int) := by omega
  have h1 : (- -(k : Int)).toNat = k := by simp
  simp only [h0, if_false, h1, hkn, if_true]
  rfl

/-- anything else is rejected (IndexError) -/
theorem normIdx_out_of_range (n : Nat) (i : Int) (h : (n : Int) ≤ i ∨ i < -(n : Int)) :
    normIdx n i = .error .index := by
  unfold normIdx
  rcases h with h | h
  · have h0 : 0 ≤ i := by omega
    have h1 : ¬ i.toNat < n := by omega
    simp only [h0, if_true, h1, if_false]
    rfl
  · have h0 : ¬ 0 ≤ i := by omega
    have h1 : ¬ (-i).toNat ≤ n := by omega
    simp only [h0, if_false, h1]
    rfl

/-- normalising twice changes nothing: the normalised list, read as integers, normalises to itself -/
theorem normIdxs_idem (n : Nat) (is : List Int) (ix : List Nat) (h : normIdxs n is = .ok ix) :
    normIdxs n (ix.map Int.ofNat) = .ok ix :=
  normIdxs_ofNat n ix (normIdxs_lt n is ix h)

section obj
variable {α : Type}

theorem len_toObj (G : List (List α)) (taxa grp : Option (List Int)) (gmeta : Option (Grp Int)) :
    (toObj G taxa grp gmeta).len cmatSchema .taxa = G.length := by
  simp [St.len, cmatSchema, Schema.axes, toObj, axLen0_embed]

/-- `reorder_taxa` with the indices as written is `reorder_taxa` with the normalised indices -/
theorem reorderObj_int (is : List Int) (ix : List Nat) (o : Obj α)
    (h : normIdxs (o.len cmatSchema .taxa) is = .ok ix) :
    reorderObj is o = reorderObj (ix.map Int.ofNat) o := by
  have h2 := normIdxs_idem _ is ix h
  unfold reorderObj reorderK reorderKPre
  rw [h, h2]

/-- **`reorder_taxa` with end-relative indices.**  For any index list numpy accepts (negative entries counted
    from the end), the object is left with `selectSq ix G`, `ix` the normalised indices. -/
theorem reorderObj_toObj_int (is : List Int) (ix : List Nat) (G : List (List α)) (taxa grp : Option (List Int))
    (gmeta : Option (Grp Int)) (h : normIdxs G.length is = .ok ix) :
    reorderObj is (toObj G taxa grp gmeta)
      = .ok (toObj (selectSq ix G) (taxa.map (Np.take ix)) (grp.map (Np.take ix)) none) := by
  rw [reorderObj_int is ix _ (by rw [len_toObj]; exact h)]
  exact reorderObj_toObj ix G taxa grp gmeta (normIdxs_lt _ is ix h)

end obj

end Coancestry
