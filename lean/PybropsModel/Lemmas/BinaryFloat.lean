/-
`BinaryFloat.roundBin t` (round-to-nearest-even with `t` stored significand bits, unbounded exponent) satisfies the
rounding contract of Lemmas/Rounding.lean with half-ulp `2^-(t+1)`, for every `t`; `roundBin 52` is
`Binary64.roundBinary64`; and binary64 represents the half-ulps of binary32 / binary16 and their complements, so the
cast of a binary64 frequency to a narrower float is covered by `Rounding.contract_comp`.
-/
import PybropsModel.Lemmas.Binary64
import PybropsModel.Model.BinaryFloat
set_option autoImplicit false

namespace BinaryFloat
open Binary64

/-- half an ulp of 1 -/
def epsT (t : Nat) : ℚ := (2 : ℚ) ^ (-((t : ℤ) + 1))

theorem roundPosT_eq (t : Nat) (x : ℚ) :
    roundPosT t x = (rne (x / (2 : ℚ) ^ (flog2 x - (t : ℤ))) : ℚ) * (2 : ℚ) ^ (flog2 x - (t : ℤ)) := by
  simp only [roundPosT, pow2_eq]

theorem two_ne : (2 : ℚ) ≠ 0 := by norm_num

theorem cast_two_pow (n : Nat) : (((2 : ℤ) ^ n : ℤ) : ℚ) = (2 : ℚ) ^ (n : ℤ) := by
  push_cast; rw [zpow_natCast]

/-- the scaled value lies in `[2^t, 2^(t+1))` -/
theorem scaled_boundsT (t : Nat) {x : ℚ} (hx : 0 < x) :
    (((2 : ℤ) ^ t : ℤ) : ℚ) ≤ x / (2 : ℚ) ^ (flog2 x - (t : ℤ))
    ∧ x / (2 : ℚ) ^ (flog2 x - (t : ℤ)) < (((2 : ℤ) ^ (t + 1) : ℤ) : ℚ) := by
  obtain ⟨s1, s2⟩ := flog2_spec hx
  have up : (0 : ℚ) < (2 : ℚ) ^ (flog2 x - (t : ℤ)) := by positivity
  constructor
  · rw [le_div_iff₀ up, cast_two_pow, ← zpow_add₀ two_ne]
    have : (t : ℤ) + (flog2 x - (t : ℤ)) = flog2 x := by ring
    rw [this]; exact s1
  · rw [div_lt_iff₀ up, cast_two_pow, ← zpow_add₀ two_ne]
    have : ((t + 1 : ℕ) : ℤ) + (flog2 x - (t : ℤ)) = flog2 x + 1 := by push_cast; ring
    rw [this]; exact s2

theorem roundPosT_bounds (t : Nat) {x : ℚ} (hx : 0 < x) :
    (2 : ℚ) ^ (flog2 x) ≤ roundPosT t x ∧ roundPosT t x ≤ (2 : ℚ) ^ (flog2 x + 1) := by
  obtain ⟨b1, b2⟩ := scaled_boundsT t hx
  obtain ⟨r1, r2⟩ := rne_bounds b1 b2.le
  have up : (0 : ℚ) < (2 : ℚ) ^ (flog2 x - (t : ℤ)) := by positivity
  rw [roundPosT_eq]
  constructor
  · have : (2 : ℚ) ^ (flog2 x) = (((2 : ℤ) ^ t : ℤ) : ℚ) * (2 : ℚ) ^ (flog2 x - (t : ℤ)) := by
      rw [cast_two_pow, ← zpow_add₀ two_ne]; congr 1; ring
    rw [this]
    exact mul_le_mul_of_nonneg_right (by exact_mod_cast r1) up.le
  · have : (2 : ℚ) ^ (flog2 x + 1) = (((2 : ℤ) ^ (t + 1) : ℤ) : ℚ) * (2 : ℚ) ^ (flog2 x - (t : ℤ)) := by
      rw [cast_two_pow, ← zpow_add₀ two_ne]; congr 1; push_cast; ring
    rw [this]
    exact mul_le_mul_of_nonneg_right (by exact_mod_cast r2) up.le

theorem roundPosT_pos (t : Nat) {x : ℚ} (hx : 0 < x) : 0 < roundPosT t x :=
  lt_of_lt_of_le (by positivity) (roundPosT_bounds t hx).1

theorem roundPosT_mono (t : Nat) {x y : ℚ} (hx : 0 < x) (hxy : x ≤ y) : roundPosT t x ≤ roundPosT t y := by
  have hy : 0 < y := lt_of_lt_of_le hx hxy
  rcases lt_or_eq_of_le (flog2_mono hx hxy) with hlt | heq
  · have one_le : (1 : ℚ) ≤ 2 := by norm_num
    calc roundPosT t x ≤ (2 : ℚ) ^ (flog2 x + 1) := (roundPosT_bounds t hx).2
      _ ≤ (2 : ℚ) ^ (flog2 y) := zpow_le_zpow_right₀ one_le (by omega)
      _ ≤ roundPosT t y := (roundPosT_bounds t hy).1
  · rw [roundPosT_eq, roundPosT_eq, heq]
    have up : (0 : ℚ) < (2 : ℚ) ^ (flog2 y - (t : ℤ)) := by positivity
    apply mul_le_mul_of_nonneg_right _ up.le
    have : x / (2 : ℚ) ^ (flog2 y - (t : ℤ)) ≤ y / (2 : ℚ) ^ (flog2 y - (t : ℤ)) :=
      div_le_div_of_nonneg_right hxy up.le
    exact_mod_cast rne_mono this

/-- a value `M·2^(e-t)` of the binade `e` is representable: rounding leaves it alone -/
theorem roundPosT_fix (t : Nat) {x : ℚ} (hx : 0 < x) (e : ℤ) (h1 : (2 : ℚ) ^ e ≤ x) (h2 : x < (2 : ℚ) ^ (e + 1))
    (M : ℤ) (hM : x = (M : ℚ) * (2 : ℚ) ^ (e - (t : ℤ))) : roundPosT t x = x := by
  have he := flog2_unique hx e h1 h2
  have up : (0 : ℚ) < (2 : ℚ) ^ (e - (t : ℤ)) := by positivity
  rw [roundPosT_eq, he]
  have : x / (2 : ℚ) ^ (e - (t : ℤ)) = (M : ℚ) := by rw [hM]; field_simp
  rw [this, rne_int, ← hM]

theorem roundBin_zero (t : Nat) : roundBin t 0 = 0 := by simp [roundBin]

theorem roundBin_of_pos (t : Nat) {x : ℚ} (hx : 0 < x) : roundBin t x = roundPosT t x := by
  simp [roundBin, hx.ne', hx]

theorem roundBin_of_neg (t : Nat) {x : ℚ} (hx : x < 0) : roundBin t x = -roundPosT t (-x) := by
  simp [roundBin, hx.ne, not_lt.mpr hx.le]

theorem roundBin_mono (t : Nat) : Monotone (roundBin t) := by
  intro x y hxy
  rcases lt_trichotomy x 0 with hx | hx | hx
  · rcases lt_trichotomy y 0 with hy | hy | hy
    · rw [roundBin_of_neg t hx, roundBin_of_neg t hy]
      have := roundPosT_mono t (neg_pos.mpr hy) (neg_le_neg hxy)
      linarith
    · rw [roundBin_of_neg t hx, hy, roundBin_zero]
      have := roundPosT_pos t (neg_pos.mpr hx); linarith
    · rw [roundBin_of_neg t hx, roundBin_of_pos t hy]
      have := roundPosT_pos t (neg_pos.mpr hx)
      have := roundPosT_pos t hy
      linarith
  · rw [hx, roundBin_zero]
    rcases lt_or_eq_of_le (hx ▸ hxy) with hy | hy
    · rw [roundBin_of_pos t hy]; exact (roundPosT_pos t hy).le
    · rw [← hy, roundBin_zero]
  · have hy : 0 < y := lt_of_lt_of_le hx hxy
    rw [roundBin_of_pos t hx, roundBin_of_pos t hy]
    exact roundPosT_mono t hx hxy

theorem roundBin_one (t : Nat) : roundBin t 1 = 1 := by
  rw [roundBin_of_pos t one_pos]
  refine roundPosT_fix t one_pos 0 (by norm_num) (by norm_num) ((2 : ℤ) ^ t) ?_
  rw [cast_two_pow, ← zpow_add₀ two_ne]
  have : (t : ℤ) + (0 - (t : ℤ)) = 0 := by ring
  rw [this, zpow_zero]

theorem epsT_pos (t : Nat) : 0 < epsT t := by unfold epsT; positivity

theorem roundBin_eps (t : Nat) : roundBin t (epsT t) = epsT t := by
  rw [roundBin_of_pos t (epsT_pos t)]
  refine roundPosT_fix t (epsT_pos t) (-((t : ℤ) + 1)) (le_refl _) ?_ ((2 : ℤ) ^ t) ?_
  · unfold epsT
    exact zpow_lt_zpow_right₀ (by norm_num) (by omega)
  · unfold epsT
    rw [cast_two_pow, ← zpow_add₀ two_ne]
    congr 1; ring

theorem epsT_le_half (t : Nat) : epsT t ≤ 1 / 2 := by
  unfold epsT
  have : (1 : ℚ) / 2 = (2 : ℚ) ^ (-1 : ℤ) := by norm_num
  rw [this]
  exact zpow_le_zpow_right₀ (by norm_num) (by omega)

theorem roundBin_pred_one (t : Nat) : roundBin t (1 - epsT t) = 1 - epsT t := by
  have hle := epsT_le_half t
  have hpos : (0 : ℚ) < 1 - epsT t := by linarith
  rw [roundBin_of_pos t hpos]
  refine roundPosT_fix t hpos (-1) ?_ ?_ ((2 : ℤ) ^ (t + 1) - 1) ?_
  · have : (2 : ℚ) ^ (-1 : ℤ) = 1 / 2 := by norm_num
    rw [this]; linarith
  · have : (2 : ℚ) ^ ((-1 : ℤ) + 1) = 1 := by norm_num
    rw [this]; linarith [epsT_pos t]
  · push_cast
    rw [sub_mul, one_mul, ← zpow_natCast, ← zpow_add₀ two_ne]
    have h1 : ((t + 1 : ℕ) : ℤ) + (-1 - (t : ℤ)) = 0 := by push_cast; ring
    have h2 : (-1 - (t : ℤ)) = -((t : ℤ) + 1) := by ring
    rw [h1, zpow_zero, h2]
    rfl

/-- **round-to-nearest-even with `t` stored significand bits meets the rounding contract** with half-ulp `2^-(t+1)` -/
theorem roundBin_contract (t : Nat) : Rounding.RoundingContract (roundBin t) (epsT t) :=
  ⟨roundBin_mono t, roundBin_zero t, roundBin_one t, epsT_pos t, roundBin_eps t, roundBin_pred_one t⟩

/-- the generic rounding at `t = 52` is the binary64 model the harness compares with bit for bit -/
theorem roundBin_52 (x : ℚ) : roundBin 52 x = roundBinary64 x := rfl

theorem epsT_52 : epsT 52 = Rounding.eps64 := by unfold epsT Rounding.eps64; norm_num
theorem epsT_23 : epsT 23 = Rounding.eps32 := by unfold epsT Rounding.eps32; norm_num
theorem epsT_10 : epsT 10 = Rounding.eps16 := by unfold epsT Rounding.eps16; norm_num

/-- binary64 represents the half-ulps of binary32 and binary16 and their complements to 1 (what `contract_comp` needs
    of the first rounding when a binary64 value is cast to the narrower format) -/
theorem binary64_fixes_narrow_grid :
    roundBinary64 Rounding.eps32 = Rounding.eps32 ∧ roundBinary64 (1 - Rounding.eps32) = 1 - Rounding.eps32
    ∧ roundBinary64 Rounding.eps16 = Rounding.eps16 ∧ roundBinary64 (1 - Rounding.eps16) = 1 - Rounding.eps16 := by
  refine ⟨?_, ?_, ?_, ?_⟩
  · have hpos : (0 : ℚ) < Rounding.eps32 := by unfold Rounding.eps32; positivity
    rw [round_of_pos hpos]
    exact roundPos_fix hpos (-24) (by unfold Rounding.eps32; norm_num) (by unfold Rounding.eps32; norm_num)
      (2 ^ 52) (by unfold Rounding.eps32; norm_num)
  · have hpos : (0 : ℚ) < 1 - Rounding.eps32 := by unfold Rounding.eps32; norm_num
    rw [round_of_pos hpos]
    exact roundPos_fix hpos (-1) (by unfold Rounding.eps32; norm_num) (by unfold Rounding.eps32; norm_num)
      (2 ^ 53 - 2 ^ 29) (by unfold Rounding.eps32; norm_num)
  · have hpos : (0 : ℚ) < Rounding.eps16 := by unfold Rounding.eps16; positivity
    rw [round_of_pos hpos]
    exact roundPos_fix hpos (-11) (by unfold Rounding.eps16; norm_num) (by unfold Rounding.eps16; norm_num)
      (2 ^ 52) (by unfold Rounding.eps16; norm_num)
  · have hpos : (0 : ℚ) < 1 - Rounding.eps16 := by unfold Rounding.eps16; norm_num
    rw [round_of_pos hpos]
    exact roundPos_fix hpos (-1) (by unfold Rounding.eps16; norm_num) (by unfold Rounding.eps16; norm_num)
      (2 ^ 53 - 2 ^ 42) (by unfold Rounding.eps16; norm_num)

end BinaryFloat
