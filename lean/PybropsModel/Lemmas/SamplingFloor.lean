/-
Arithmetic core of the floor/ceiling guarantee of stochastic universal sampling (C17):
`⌊x+q⌋ - ⌊x⌋ ∈ {⌊q⌋, ⌈q⌉}` and the number of equally spaced pointers in a half-open interval.
-/
import Mathlib.Tactic
import Mathlib.Algebra.Order.Floor.Ring
set_option autoImplicit false

namespace Sampling

section floor
variable {α : Type} [Field α] [LinearOrder α] [IsStrictOrderedRing α] [FloorRing α]

/-- `⌊x+q⌋ - ⌊x⌋` is the floor or the ceiling of `q` -/
theorem floor_diff (x q : α) :
    ⌊x + q⌋ - ⌊x⌋ = ⌊q⌋ ∨ ⌊x + q⌋ - ⌊x⌋ = ⌈q⌉ := by
  have h1 : ⌊x⌋ + ⌊q⌋ ≤ ⌊x + q⌋ := Int.le_floor_add x q
  have h2 : ⌊x + q⌋ ≤ ⌊x⌋ + ⌊q⌋ + 1 := by have := Int.le_floor_add_floor x q; omega
  by_cases hq : (⌊q⌋ : α) = q
  · left
    have : ⌊x + q⌋ = ⌊x⌋ + ⌊q⌋ := by
      rw [← hq, Int.floor_add_intCast]; simp
    omega
  · have hc : ⌈q⌉ = ⌊q⌋ + 1 := by
      have hlt : (⌊q⌋ : α) < q := lt_of_le_of_ne (Int.floor_le q) hq
      apply le_antisymm
      · exact Int.ceil_le_floor_add_one q
      · have : ⌊q⌋ < ⌈q⌉ := by
          rw [Int.lt_ceil]; exact hlt
        omega
    omega

theorem range_filter_Icc_length' (m n k : ℕ) :
    ((List.range k).filter (fun j : ℕ => m ≤ j ∧ j ≤ n)).length = min k (n + 1) - min k m := by
  induction k with
  | zero => simp
  | succ k ih =>
    rw [List.range_succ, List.filter_append, List.length_append, ih]
    by_cases h : m ≤ k ∧ k ≤ n
    · simp [h]; omega
    · simp [h]; omega

theorem range_filter_Icc_length (m n k : ℕ) (hnk : n < k) (hmn : m ≤ n + 1) :
    ((List.range k).filter (fun j : ℕ => m ≤ j ∧ j ≤ n)).length = n + 1 - m := by
  rw [range_filter_Icc_length' m n k]; omega

/-- number of pointers `o + j·d` (`0 ≤ j < k`) falling in `(a, b]`, when `0 ≤ a ≤ b ≤ k·d` and `0 < o < d` -/
theorem pointers_in_interval (o d a b : α) (k : ℕ) (hd : 0 < d) (ho : 0 < o) (hod : o < d)
    (ha : 0 ≤ a) (hab : a ≤ b) (hb : b ≤ k * d) :
    (((List.range k).filter (fun j : ℕ => a < o + j * d ∧ o + j * d ≤ b)).length : ℤ)
      = ⌊(b - o) / d⌋ - ⌊(a - o) / d⌋ := by
  set x := (a - o) / d with hx
  set y := (b - o) / d with hy
  have key : ∀ j : ℕ, (a < o + j * d ∧ o + j * d ≤ b) ↔ (⌊x⌋ < (j:ℤ) ∧ (j:ℤ) ≤ ⌊y⌋) := by
    intro j
    rw [Int.floor_lt, Int.le_floor, hx, hy, div_lt_iff₀ hd, le_div_iff₀ hd]
    push_cast
    constructor <;> rintro ⟨h1, h2⟩ <;> constructor <;> linarith
  have hxge : -1 ≤ ⌊x⌋ := by
    rw [Int.le_floor, hx, le_div_iff₀ hd]; push_cast; linarith
  have hylt : ⌊y⌋ < k := by
    rw [Int.floor_lt, hy, div_lt_iff₀ hd]; push_cast; linarith
  have hxy : ⌊x⌋ ≤ ⌊y⌋ := Int.floor_le_floor (by rw [hx, hy]; gcongr)
  have : (List.range k).filter (fun j : ℕ => a < o + j * d ∧ o + j * d ≤ b)
       = (List.range k).filter (fun j : ℕ => ⌊x⌋ < (j:ℤ) ∧ (j:ℤ) ≤ ⌊y⌋) := by
    apply List.filter_congr; intro j _; simp only [key, decide_eq_decide]
  rw [this]
  obtain ⟨m, hm⟩ : ∃ m : ℕ, ⌊x⌋ + 1 = m := ⟨(⌊x⌋ + 1).toNat, by omega⟩
  by_cases hyneg : ⌊y⌋ < 0
  · have hx1 : ⌊x⌋ = -1 := by omega
    have : (List.range k).filter (fun j : ℕ => ⌊x⌋ < (j:ℤ) ∧ (j:ℤ) ≤ ⌊y⌋) = [] := by
      rw [List.filter_eq_nil_iff]; intro j _; simp; omega
    rw [this]; simp; omega
  · obtain ⟨n, hn⟩ : ∃ n : ℕ, ⌊y⌋ = n := ⟨⌊y⌋.toNat, by omega⟩
    have hnk : n < k := by omega
    have e : (List.range k).filter (fun j : ℕ => ⌊x⌋ < (j:ℤ) ∧ (j:ℤ) ≤ ⌊y⌋)
           = (List.range k).filter (fun j : ℕ => m ≤ j ∧ j ≤ n) := by
      apply List.filter_congr; intro j _; simp only [decide_eq_decide]; omega
    rw [e, range_filter_Icc_length m n k hnk (by omega)]
    omega

end floor
end Sampling
