/-
Lemmas/LabelMatSpec.lean — the Bool oracle `partitionOK` (what the driver evaluates on the implementation's group
metadata) is EQUIVALENT to the Prop "the metadata describe a true contiguous partition of the label column".
-/
import PybropsModel.Lemmas.LabelMatGroup
import PybropsModel.Lemmas.LabelMatMask

set_option autoImplicit false
set_option linter.unusedVariables false

namespace LabelMat

variable {lab : Type}

/-- **a true contiguous partition**: as many names as blocks; block `i` starts where block `i - 1` stops (the first at
    0) and stops `len i` later; the names are pairwise different; the column is name 0 repeated `len 0` times, then
    name 1 repeated `len 1` times, … (so the blocks cover the whole column and every label in block `i` is `name i`) -/
def IsPartition (g : Grp lab) (col : List lab) : Prop :=
  g.name.length = g.len.length ∧ g.stix = startsFrom 0 g.len ∧ g.spix = List.zipWith (· + ·) g.stix g.len ∧
    g.name.Nodup ∧ col = expand (List.zip g.name g.len)

section
variable [DecidableEq lab]

theorem nodupB_iff' (l : List lab) : nodupB l = true ↔ l.Nodup := by
  induction l with
  | nil => simp [nodupB]
  | cons a l ih =>
    simp only [nodupB, Bool.and_eq_true, Bool.not_eq_true', List.nodup_cons, ih]
    constructor
    · rintro ⟨h1, h2⟩
      refine ⟨?_, h2⟩
      intro hm
      have : l.contains a = true := List.contains_iff_mem.mpr hm
      rw [h1] at this
      cases this
    · rintro ⟨h1, h2⟩
      refine ⟨?_, h2⟩
      cases hc : l.contains a with
      | false => rfl
      | true => exact absurd (List.contains_iff_mem.mp hc) h1

theorem all_beq_eq_replicate (l : List lab) (x : lab) (h : l.all (fun y => y == x) = true) :
    l = List.replicate l.length x := by
  induction l with
  | nil => rfl
  | cons a l ih =>
    simp only [List.all_cons, Bool.and_eq_true, beq_iff_eq] at h
    obtain ⟨rfl, h2⟩ := h
    simp only [List.length_cons, List.replicate_succ]
    rw [← ih h2]

/-- blocks that are constant and tile the rest of the column spell the column out -/
theorem blocks_spell (col : List lab) : ∀ (names : List lab) (lens : List Nat) (pos : Nat),
    names.length = lens.length →
    (List.zip names (List.zip (startsFrom pos lens) lens)).all
      (fun p => ((col.drop p.2.1).take p.2.2).all (fun x => x == p.1)) = true →
    pos + lens.sum = col.length → col.drop pos = expand (List.zip names lens)
  | [], [], pos, _, _, hsum => by
    simp only [List.sum_nil, Nat.add_zero] at hsum
    simp [expand, hsum]
  | [], _ :: _, _, hl, _, _ => by simp at hl
  | _ :: _, [], _, hl, _, _ => by simp at hl
  | n :: ns, l :: ls, pos, hl, hall, hsum => by
    simp only [startsFrom, List.zip_cons_cons, List.all_cons, Bool.and_eq_true] at hall
    obtain ⟨hblk, hrest⟩ := hall
    simp only [List.sum_cons] at hsum
    have hlen : ((col.drop pos).take l).length = l := by
      rw [List.length_take, List.length_drop]; omega
    have hrep := all_beq_eq_replicate _ n hblk
    rw [hlen] at hrep
    have ih := blocks_spell col ns ls (pos + l) (by simpa using hl) hrest (by omega)
    rw [List.zip_cons_cons, expand_cons]
    calc col.drop pos = (col.drop pos).take l ++ (col.drop pos).drop l := (List.take_append_drop l _).symm
      _ = List.replicate l n ++ col.drop (pos + l) := by rw [hrep, List.drop_drop]
      _ = List.replicate l n ++ expand (List.zip ns ls) := by rw [ih]

theorem zip_map_fst_of_length {β γ : Type} (a : List β) (b : List γ) (h : a.length = b.length) :
    (List.zip a b).map Prod.fst = a := by
  rw [List.map_fst_zip]; omega

theorem zip_map_snd_of_length {β γ : Type} (a : List β) (b : List γ) (h : a.length = b.length) :
    (List.zip a b).map Prod.snd = b := by
  rw [List.map_snd_zip]; omega

theorem expand_length (rs : List (lab × Nat)) : (expand rs).length = (rs.map Prod.snd).sum := by
  induction rs with
  | nil => rfl
  | cons p rs ih =>
    obtain ⟨v, n⟩ := p
    rw [expand_cons]
    simp [ih]

/-- **spec_iff for the partition oracle** -/
theorem partitionOK_iff (g : Grp lab) (col : List lab) : partitionOK g col = true ↔ IsPartition g col := by
  constructor
  · intro h
    unfold partitionOK at h
    simp only [Bool.and_eq_true, beq_iff_eq] at h
    obtain ⟨⟨⟨htile, hnl⟩, hnd⟩, hblk⟩ := h
    obtain ⟨hst, hsp, hsum⟩ := tilesFrom_inv 0 g.stix g.spix g.len col.length htile
    have hlen : g.name.length = g.len.length := by rw [hnl, hst, startsFrom_length]
    refine ⟨hlen, hst, hsp, (nodupB_iff' _).mp hnd, ?_⟩
    have hb : (List.zip g.name (List.zip (startsFrom 0 g.len) g.len)).all
        (fun p => ((col.drop p.2.1).take p.2.2).all (fun x => x == p.1)) = true := by
      rw [← hst]; exact hblk
    have := blocks_spell col g.name g.len 0 hlen hb (by omega)
    simpa using this
  · rintro ⟨hlen, hst, hsp, hnd, hcol⟩
    unfold partitionOK
    simp only [Bool.and_eq_true, beq_iff_eq]
    have hsum : col.length = g.len.sum := by
      rw [hcol, expand_length, zip_map_snd_of_length _ _ hlen]
    refine ⟨⟨⟨?_, ?_⟩, (nodupB_iff' _).mpr hnd⟩, ?_⟩
    · rw [hsp, hst, tilesFrom_starts, hsum]; simp
    · rw [hst, startsFrom_length, hlen]
    · have := blocks_ok (List.zip g.name g.len) ([] : List lab)
      rw [zip_map_fst_of_length _ _ hlen, zip_map_snd_of_length _ _ hlen] at this
      simp only [List.length_nil, List.nil_append] at this
      rw [hst, hcol]
      exact this

end

end LabelMat
