/-
Explicit groups (`h5file.require_group`, used by `TruePhenotyping.to_hdf5` after the repair of D30) and
histories over ALL classes: abstract semantics of `requireGroup`, refinement of `runHistX`, the region
of the final file at the location written last, and the persistence of a group that was made on purpose.
-/
import PybropsModel.Lemmas.StoreHist2

set_option autoImplicit false

namespace Store

/-! ### `require_group` against the abstract view -/

/-- abstract `require_group(g)`: the marker is set unless it is there already -/
def semGrp (g : Path) (s : Sem) : Sem :=
  fun q => if q = g ++ [markKey] then (match s q with | none => some markDS | some d => some d) else s q

theorem semGrp_other (g : Path) (s : Sem) (q : Path) (h : q ≠ g ++ [markKey]) : semGrp g s q = s q := by
  simp [semGrp, h]

theorem semGrp_marker (g : Path) (s : Sem) : semGrp g s (g ++ [markKey]) ≠ none := by
  simp only [semGrp, if_true]
  cases s (g ++ [markKey]) <;> simp

theorem semGrp_keeps (g : Path) (s : Sem) (q : Path) (h : s q ≠ none) : semGrp g s q ≠ none := by
  by_cases hq : q = g ++ [markKey]
  · subst hq; exact semGrp_marker g s
  · rw [semGrp_other g s q hq]; exact h

theorem requireGroup_sem {S : Path → Prop} (hS : PrefixFree S) {f : File} (hf : Good S f) (g : Path)
    (hp : S (g ++ [markKey])) :
    ∃ f', requireGroup f g = (f', none) ∧ Good S f' ∧ lookup f' = semGrp g (lookup f) := by
  have hne : g ++ [markKey] ≠ [] := append_singleton_ne_nil g markKey
  by_cases hm : mem f (g ++ [markKey]) = true
  · refine ⟨f, by simp [requireGroup, hm], hf, ?_⟩
    funext q
    by_cases hq : q = g ++ [markKey]
    · subst hq
      rcases (mem_eq_true_iff f _).mp hm with h | ⟨e, he, hpre⟩
      · exact absurd h hne
      · have heq : g ++ [markKey] = e.1 := hS _ _ hp (hf.keysIn e he) hpre
        have hk : lookup f (g ++ [markKey]) ≠ none := by
          rw [lookup_ne_none_iff, heq]; exact List.mem_map_of_mem (f := Prod.fst) he
        simp only [semGrp, if_true]
        cases h : lookup f (g ++ [markKey]) with
        | none => exact absurd h hk
        | some d => rfl
    · rw [semGrp_other _ _ _ hq]
  · have hm' : mem f (g ++ [markKey]) = false := by simpa using hm
    have hno := (mem_eq_false_iff f _).mp hm'
    have hany : f.any (fun e => e.1.isPrefixOf (g ++ [markKey])) = false := by
      rw [List.any_eq_false]
      intro e he
      rw [isPrefixOf_iff]
      intro hpre
      have heq : e.1 = g ++ [markKey] := hS _ _ (hf.keysIn e he) hp hpre
      exact hno.2 e he (heq ▸ List.prefix_refl _)
    have hnk : g ++ [markKey] ∉ keys f := by
      intro h
      obtain ⟨e, he, heq⟩ := List.mem_map.mp h
      exact hno.2 e he (heq ▸ List.prefix_refl _)
    have hpe : ((g ++ [markKey]) == []) = false := by simpa using hne
    refine ⟨(g ++ [markKey], markDS) :: f, by simp [requireGroup, hm', create, hpe, hany], ⟨?_, ?_⟩, ?_⟩
    · intro e he
      rcases List.mem_cons.mp he with h | h
      · subst h; exact hp
      · exact hf.keysIn e h
    · show ((g ++ [markKey]) :: keys f).Nodup
      exact List.nodup_cons.mpr ⟨hnk, hf.nodup⟩
    · funext q
      rw [lookup_cons]
      by_cases hq : q = g ++ [markKey]
      · subst hq
        have hl : lookup f (g ++ [markKey]) = none := by
          by_contra h; exact hnk ((lookup_ne_none_iff f _).mp h)
        simp [semGrp, hl]
      · rw [semGrp_other _ _ _ hq]; simp [hq]

/-! ### abstract semantics of mixed histories -/

def semStepX (x : WriteX) (s : Sem) : Sem :=
  semItems true x.g x.obj (if (x.grp && x.g != []) = true then semGrp x.g s else s)

def semHistX : List WriteX → Sem → Sem
  | [], s => s
  | x :: r, s => semHistX r (semStepX x s)

theorem semHistX_append (H1 H2 : List WriteX) (s : Sem) :
    semHistX (H1 ++ H2) s = semHistX H2 (semHistX H1 s) := by
  induction H1 generalizing s with
  | nil => rfl
  | cons w r ih => exact ih _

/-- the paths a mixed history touches: the leaves written, and the markers of the groups made on purpose -/
def TouchedX (H : List WriteX) : Path → Prop := fun p =>
  (∃ x ∈ H, p ∈ leafPaths x.g x.obj) ∨ (∃ x ∈ H, x.grp = true ∧ x.g ≠ [] ∧ p = x.g ++ [markKey])

def HistInX (S : Path → Prop) (H : List WriteX) : Prop :=
  ∀ x ∈ H, ObjIn S x.g x.obj ∧ (x.grp = true → x.g ≠ [] → S (x.g ++ [markKey]))

theorem histInX_touched (H : List WriteX) (hnb : ∀ x ∈ H, NoBad x.obj) : HistInX (TouchedX H) H := by
  intro x hx
  constructor
  · have h0 := histIn_touched (H.map (fun x => (⟨x.g, x.obj⟩ : Write)))
      (fun w hw => by obtain ⟨x', hx', rfl⟩ := List.mem_map.mp hw; exact hnb x' hx')
      ⟨x.g, x.obj⟩ (List.mem_map.mpr ⟨x, hx, rfl⟩)
    intro kv hkv
    have h1 := h0 kv hkv
    have conv : ∀ p, Touched (H.map (fun x => (⟨x.g, x.obj⟩ : Write))) p → TouchedX H p := by
      rintro p ⟨w, hw, hp⟩
      obtain ⟨x', hx', rfl⟩ := List.mem_map.mp hw
      exact Or.inl ⟨x', hx', hp⟩
    obtain ⟨k, it⟩ := kv
    cases it with
    | none => trivial
    | bad => exact absurd h1 (by simp [ItemIn])
    | data d => exact conv _ h1
    | dict kvs => exact fun e he hne => conv _ (h1 e he hne)
  · intro hm hg
    exact Or.inr ⟨x, hx, hm, hg, rfl⟩

theorem stepX_sem {S : Path → Prop} (hS : PrefixFree S) (x : WriteX) (f : File) (hf : Good S f)
    (hin : ObjIn S x.g x.obj) (hmk : x.grp = true → x.g ≠ [] → S (x.g ++ [markKey])) :
    ∃ f', stepX f x = (f', none) ∧ Good S f' ∧ lookup f' = semStepX x (lookup f) := by
  by_cases hc : (x.grp && x.g != []) = true
  · have h1 : x.grp = true := by
      rw [Bool.and_eq_true] at hc; exact hc.1
    have h2 : x.g ≠ [] := by
      rw [Bool.and_eq_true] at hc; simpa using hc.2
    obtain ⟨f1, a1, a2, a3⟩ := requireGroup_sem hS hf x.g (hmk h1 h2)
    obtain ⟨f', b1, b2, b3⟩ := writeItems_sem hS x.g x.obj f1 a2 hin
    refine ⟨f', ?_, b2, ?_⟩
    · simp only [stepX, hc, if_true, a1, b1]
    · rw [b3, a3]; simp only [semStepX, hc, if_true]
  · obtain ⟨f', b1, b2, b3⟩ := writeItems_sem hS x.g x.obj f hf hin
    refine ⟨f', ?_, b2, ?_⟩
    · have hc' : (x.grp && x.g != []) = false := by simpa using hc
      simp [stepX, hc', b1]
    · have hc' : (x.grp && x.g != []) = false := by simpa using hc
      rw [b3]; simp [semStepX, hc']

/-- **Refinement of a history over all classes.** -/
theorem runHistX_sem {S : Path → Prop} (hS : PrefixFree S) (H : List WriteX) :
    ∀ (f : File), Good S f → HistInX S H →
      ∃ f', runHistX f H = (f', none) ∧ Good S f' ∧ lookup f' = semHistX H (lookup f) := by
  induction H with
  | nil => intro f hf _; exact ⟨f, rfl, hf, rfl⟩
  | cons x r ih =>
    intro f hf hin
    obtain ⟨hx1, hx2⟩ := hin x List.mem_cons_self
    have hr : HistInX S r := fun e he => hin e (List.mem_cons_of_mem _ he)
    obtain ⟨f1, a1, a2, a3⟩ := stepX_sem hS x f hf hx1 hx2
    obtain ⟨f', h1, h2, h3⟩ := ih f1 a2 hr
    refine ⟨f', ?_, h2, ?_⟩
    · simp only [runHistX, a1]; exact h1
    · rw [h3, a3]; rfl

/-! ### what later writes leave alone -/

theorem semStepX_untouched (x : WriteX) (s : Sem) (q : Path)
    (h1 : ∀ kv ∈ x.obj, ¬ (x.g ++ [kv.1]) <+: q) (h2 : x.grp = true → q ≠ x.g ++ [markKey]) :
    semStepX x s q = s q := by
  unfold semStepX
  rw [semItems_untouched true x.g q x.obj _ h1]
  by_cases hc : (x.grp && x.g != []) = true
  · rw [if_pos hc]
    exact semGrp_other _ _ _ (h2 (by rw [Bool.and_eq_true] at hc; exact hc.1))
  · rw [if_neg hc]

theorem semStepX_keeps (x : WriteX) (s : Sem) (q : Path)
    (h1 : ∀ kv ∈ x.obj, ¬ (x.g ++ [kv.1]) <+: q) (h : s q ≠ none) : semStepX x s q ≠ none := by
  unfold semStepX
  rw [semItems_untouched true x.g q x.obj _ h1]
  by_cases hc : (x.grp && x.g != []) = true
  · rw [if_pos hc]; exact semGrp_keeps _ _ _ h
  · rw [if_neg hc]; exact h

theorem semHistX_untouched (q : Path) (H : List WriteX) :
    ∀ (s : Sem), (∀ x ∈ H, (∀ kv ∈ x.obj, ¬ (x.g ++ [kv.1]) <+: q) ∧ (x.grp = true → q ≠ x.g ++ [markKey])) →
      semHistX H s q = s q := by
  induction H with
  | nil => intro s _; rfl
  | cons x r ih =>
    intro s h
    show semHistX r (semStepX x s) q = s q
    rw [ih _ (fun e he => h e (List.mem_cons_of_mem _ he))]
    exact semStepX_untouched x s q (h x List.mem_cons_self).1 (h x List.mem_cons_self).2

theorem semHistX_keeps (q : Path) (H : List WriteX) :
    ∀ (s : Sem), (∀ x ∈ H, ∀ kv ∈ x.obj, ¬ (x.g ++ [kv.1]) <+: q) → s q ≠ none → semHistX H s q ≠ none := by
  induction H with
  | nil => intro s _ h; exact h
  | cons x r ih =>
    intro s h hs
    show semHistX r (semStepX x s) q ≠ none
    exact ih _ (fun e he => h e (List.mem_cons_of_mem _ he))
      (semStepX_keeps x s q (h x List.mem_cons_self) hs)

/-! ### the location written last in a history over all classes -/

/-- no later write reaches into the fields of `x` (field names path-incomparable, no later group marker below
    a field of `x`), and — when `x` made its group — no later field name lies on the path to that group -/
def UnreachedX (x : WriteX) (H2 : List WriteX) : Prop :=
  (∀ x' ∈ H2, ∀ kv' ∈ x'.obj, ∀ kv ∈ x.obj,
    ¬ (x'.g ++ [kv'.1]) <+: (x.g ++ [kv.1]) ∧ ¬ (x.g ++ [kv.1]) <+: (x'.g ++ [kv'.1])) ∧
  (∀ x' ∈ H2, x'.grp = true → ∀ kv ∈ x.obj, ¬ (x.g ++ [kv.1]) <+: (x'.g ++ [markKey])) ∧
  (x.grp = true → ∀ x' ∈ H2, ∀ kv' ∈ x'.obj, ¬ (x'.g ++ [kv'.1]) <+: (x.g ++ [markKey]))

theorem prefix_singleton_eq {g : Path} {a b : String} (h : (g ++ [a]) <+: (g ++ [b])) : a = b := by
  have := h.eq_of_length (by simp)
  simpa using this

/-- **Last write wins, all classes.**  The leaves and group markers of the history are prefix-free (so no
    call fails) and no later write reaches into `x`: the region at `x.g` holds exactly `x.obj`, and a group
    that `x` made on purpose is still there. -/
theorem region_after_writeX (H1 H2 : List WriteX) (x : WriteX)
    (hpf : PrefixFree (TouchedX (H1 ++ x :: H2))) (hnb : ∀ x' ∈ H1 ++ x :: H2, NoBad x'.obj)
    (hnd : KeysNodup x.obj) (hun : UnreachedX x H2) (hmk : ∀ kv ∈ x.obj, kv.1 ≠ markKey) :
    ∃ f, runHistX [] (H1 ++ x :: H2) = (f, none) ∧ (keys f).Nodup ∧ Region f x.g x.obj ∧
      (x.grp = true → mem f x.g = true) := by
  obtain ⟨f, h1, h2, h3⟩ := runHistX_sem hpf (H1 ++ x :: H2) [] (good_nil _) (histInX_touched _ hnb)
  have hxin : x ∈ H1 ++ x :: H2 := by simp
  have hsplit : semHistX (H1 ++ x :: H2) (lookup []) =
      semHistX H2 (semStepX x (semHistX H1 (lookup []))) := by
    rw [semHistX_append]; rfl
  refine ⟨f, h1, h2.nodup, ?_, ?_⟩
  · intro k it hm q hq
    rw [h3, hsplit]
    rw [semHistX_untouched q H2 _ (fun x' hx' => ⟨fun kv' hkv' hpre => by
        obtain ⟨n1, n2⟩ := hun.1 x' hx' kv' hkv' (k, it) hm
        rcases comparable_of_prefix hpre hq with h | h
        · exact n1 h
        · exact n2 h,
      fun hm' heq => hun.2.1 x' hx' hm' (k, it) hm (heq ▸ hq)⟩)]
    exact semItems_fixed_region x.g x.obj _ (hnb x hxin) hnd k it hm q hq
  · intro hxm
    by_cases hg : x.g = []
    · rw [hg]; rfl
    · have hc : (x.grp && x.g != []) = true := by simp [hxm, hg]
      have hmark : lookup f (x.g ++ [markKey]) ≠ none := by
        rw [h3, hsplit]
        apply semHistX_keeps _ H2 _ (fun x' hx' kv' hkv' => hun.2.2 hxm x' hx' kv' hkv')
        unfold semStepX
        rw [semItems_untouched true x.g _ x.obj _ (fun kv hkv hpre => hmk kv hkv (prefix_singleton_eq hpre)),
          if_pos hc]
        exact semGrp_marker _ _
      rw [mem_eq_true_iff]
      obtain ⟨e, he, heq⟩ := List.mem_map.mp ((lookup_ne_none_iff f _).mp hmark)
      exact Or.inr ⟨e, he, heq ▸ List.prefix_append _ _⟩

/-- a history in which no class makes its group is a plain history -/
theorem runHistX_plain (H : List Write) (f : File) :
    runHistX f (H.map (fun w => ⟨w.g, w.obj, false⟩)) = runHist f H := by
  induction H generalizing f with
  | nil => rfl
  | cons w r ih =>
    simp only [List.map_cons, runHistX, stepX, runHist, runHistG, Bool.false_and, Bool.false_eq_true, if_false]
    cases h : writeItems w.g true f w.obj with
    | mk f' e =>
      cases e with
      | none => simpa [runHist] using ih f'
      | some e => rfl

/-! ### `TruePhenotyping.to_hdf5` -/

theorem toHdf5TP_named (f : File) (s : String) (ow : Bool) (hs : s.isEmpty = false) :
    toHdf5TP f (some s) ow =
      if parsePath s == [] then (f, none) else requireGroup f (parsePath s) := by
  have hgp : groupPath (some s) = .ok (parsePath s) := by simp [groupPath, hs]; rfl
  unfold toHdf5TP
  rw [hgp]
  by_cases hg : (parsePath s == []) = true
  · simp only [hg, if_true]; rfl
  · have hg' : (parsePath s == []) = false := by simpa using hg
    simp only [hg', Bool.false_eq_true, if_false]
    cases h : requireGroup f (parsePath s) with
    | mk f' e => cases e <;> simp [writeItems]

theorem mem_after_requireGroup (f f' : File) (g : Path) (h : requireGroup f g = (f', none)) :
    mem f' g = true := by
  unfold requireGroup at h
  by_cases hm : mem f (g ++ [markKey]) = true
  · rw [if_pos hm] at h
    have : f' = f := by simpa using h.symm
    subst this
    rw [mem_eq_true_iff] at hm ⊢
    rcases hm with h0 | ⟨e, he, hpre⟩
    · exact absurd h0 (append_singleton_ne_nil g markKey)
    · exact Or.inr ⟨e, he, (List.prefix_append _ _).trans hpre⟩
  · rw [if_neg hm] at h
    unfold create at h
    split at h
    · simp at h
    · split at h
      · simp at h
      · have : f' = (g ++ [markKey], markDS) :: f := by simpa using (congrArg Prod.fst h).symm
        subst this
        rw [mem_eq_true_iff]
        exact Or.inr ⟨_, List.mem_cons_self, List.prefix_append _ _⟩

/-- `require_group` succeeds whenever neither the group path nor one of its ancestors is a dataset -/
theorem requireGroup_ok (f : File) (g : Path) (h : ∀ e ∈ f, ¬ e.1 <+: (g ++ [markKey])) :
    ∃ f', requireGroup f g = (f', none) := by
  unfold requireGroup
  by_cases hm : mem f (g ++ [markKey]) = true
  · exact ⟨f, by rw [if_pos hm]⟩
  · have hm' : mem f (g ++ [markKey]) = false := by simpa using hm
    have hany : f.any (fun e => e.1.isPrefixOf (g ++ [markKey])) = false := by
      rw [List.any_eq_false]; intro e he; rw [isPrefixOf_iff]; exact h e he
    have hpe : ((g ++ [markKey]) == []) = false := by simp
    exact ⟨(g ++ [markKey], markDS) :: f, by rw [if_neg hm]; simp [create, hpe, hm', hany]⟩

/-! ### every class but the parameter-free protocol stores a mandatory array -/

theorem forall₂_exists_left {α β : Type} {R : α → β → Prop} {l1 : List α} {l2 : List β}
    (h : List.Forall₂ R l1 l2) {a : α} (ha : a ∈ l1) : ∃ b ∈ l2, R a b := by
  induction h with
  | nil => simp at ha
  | cons hab _ ih =>
    rcases List.mem_cons.mp ha with h1 | h1
    · subst h1; exact ⟨_, List.mem_cons_self, hab⟩
    · obtain ⟨b, hb, hr⟩ := ih h1; exact ⟨b, List.mem_cons_of_mem _ hb, hr⟩

theorem data_of_required (dec : Bool) (sch : Schema) (o : Obj) (hc : conformsG dec sch o = true)
    (hreq : ∃ fd ∈ sch.fields, fd.required = true) : ∃ k d, (k, Item.data d) ∈ o := by
  obtain ⟨fd, hfd, hr⟩ := hreq
  obtain ⟨kv, _, _, hkv, hst⟩ := forall₂_exists_left (forall₂_of_conforms dec sch o hc) hfd
  obtain ⟨k, it⟩ := kv
  cases it with
  | none => simp [stable, hr] at hst
  | bad => simp [stable] at hst
  | dict kvs => simp [stable, hr] at hst
  | data d => exact ⟨k, d, hkv⟩

theorem keys_of_conforms (dec : Bool) (sch : Schema) (o : Obj) (hc : conformsG dec sch o = true) :
    o.map Prod.fst = sch.fields.map (·.key) := by
  unfold conformsG at hc
  rw [Bool.and_eq_true, beq_iff_eq] at hc
  exact hc.1

end Store
