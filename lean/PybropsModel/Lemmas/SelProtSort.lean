/-
Helper lemmas for C07 (6): the stable insertion sort of Np.lean is a sorted permutation, the
sorting optimiser returns a top-k set, top-k sets are unique when the criterion values are distinct.
-/
import Mathlib.Tactic
import Mathlib.Data.List.Sort
import PybropsModel.Model.XConfig
set_option autoImplicit false
set_option linter.unusedSectionVars false

namespace SelProt

section sort
variable {β : Type} (le : β → β → Bool)

theorem insertSorted_perm (a : β) (l : List β) : (Np.insertSorted le a l).Perm (a :: l) := by
  induction l with
  | nil => simp [Np.insertSorted]
  | cons b bs ih =>
    simp only [Np.insertSorted]
    split
    · exact (List.Perm.cons b ih).trans (List.Perm.swap a b bs)
    · exact List.Perm.refl _

theorem insertSorted_pairwise (htot : ∀ a b, le a b = true ∨ le b a = true)
    (htr : ∀ a b c, le a b = true → le b c = true → le a c = true) (a : β) (l : List β)
    (h : l.Pairwise (fun x y => le x y = true)) :
    (Np.insertSorted le a l).Pairwise (fun x y => le x y = true) := by
  induction l with
  | nil => simp [Np.insertSorted]
  | cons b bs ih =>
    simp only [Np.insertSorted]
    rw [List.pairwise_cons] at h
    split
    · rename_i hba
      rw [List.pairwise_cons]
      refine ⟨?_, ih h.2⟩
      intro x hx
      rcases (List.mem_cons.mp ((insertSorted_perm le a bs).mem_iff.mp hx)) with rfl | hx
      · exact hba
      · exact h.1 x hx
    · rename_i hba
      have hab : le a b = true := by
        rcases htot a b with h' | h'
        · exact h'
        · exact absurd h' hba
      rw [List.pairwise_cons]
      refine ⟨?_, List.pairwise_cons.mpr h⟩
      intro x hx
      rcases List.mem_cons.mp hx with rfl | hx
      · exact hab
      · exact htr _ _ _ hab (h.1 x hx)

theorem foldl_insert_perm (l acc : List β) :
    (l.foldl (fun acc a => Np.insertSorted le a acc) acc).Perm (l ++ acc) := by
  induction l generalizing acc with
  | nil => simp
  | cons a t ih =>
    simp only [List.foldl_cons]
    refine (ih _).trans ?_
    refine (List.Perm.append_left t (insertSorted_perm le a acc)).trans ?_
    simp

theorem foldl_insert_pairwise (htot : ∀ a b, le a b = true ∨ le b a = true)
    (htr : ∀ a b c, le a b = true → le b c = true → le a c = true) (l acc : List β)
    (h : acc.Pairwise (fun x y => le x y = true)) :
    (l.foldl (fun acc a => Np.insertSorted le a acc) acc).Pairwise (fun x y => le x y = true) := by
  induction l generalizing acc with
  | nil => simpa using h
  | cons a t ih => exact ih _ (insertSorted_pairwise le htot htr a acc h)

theorem stableSort_perm (l : List β) : (Np.stableSort le l).Perm l := by
  have := foldl_insert_perm le l []
  simp only [List.append_nil] at this
  exact this

theorem stableSort_pairwise (htot : ∀ a b, le a b = true ∨ le b a = true)
    (htr : ∀ a b c, le a b = true → le b c = true → le a c = true) (l : List β) :
    (Np.stableSort le l).Pairwise (fun x y => le x y = true) :=
  foldl_insert_pairwise le htot htr l [] List.Pairwise.nil

end sort

section topk
variable {α : Type} [LinearOrder α]

/-- comparison used by `argsort`: by value only -/
def leKey (p q : α × Nat) : Bool := decide (p.1 ≤ q.1)

theorem leKey_total (a b : α × Nat) : leKey a b = true ∨ leKey b a = true := by
  simp only [leKey, decide_eq_true_eq]; exact le_total _ _

theorem leKey_trans (a b c : α × Nat) (h1 : leKey a b = true) (h2 : leKey b c = true) : leKey a c = true := by
  simp only [leKey, decide_eq_true_eq] at *; exact le_trans h1 h2

/-- the sorted (value, index) pairs behind `argsort` -/
def sortedPairs (obj : List α) : List (α × Nat) := Np.stableSort leKey obj.zipIdx

theorem sortingSubset_eq (obj : List α) (k : Nat) :
    sortingSubset obj k = ((sortedPairs obj).take k).map Prod.snd := by
  simp only [sortingSubset, Np.argsort, sortedPairs, List.map_take]
  rfl

theorem sortedPairs_perm (obj : List α) : (sortedPairs obj).Perm obj.zipIdx := stableSort_perm _ _

theorem sortedPairs_pairwise (obj : List α) : (sortedPairs obj).Pairwise (fun x y => x.1 ≤ y.1) := by
  have := stableSort_pairwise (leKey (α := α)) leKey_total leKey_trans obj.zipIdx
  simpa [sortedPairs, leKey] using this

theorem map_snd_zipIdx (obj : List α) : obj.zipIdx.map Prod.snd = List.range obj.length := by
  rw [List.zipIdx_eq_zip_range', List.map_snd_zip (by simp), List.range_eq_range']

theorem map_fst_zipIdx (obj : List α) : obj.zipIdx.map Prod.fst = obj := by
  rw [List.zipIdx_eq_zip_range', List.map_fst_zip (by simp)]

theorem argsort_perm (obj : List α) : ((sortedPairs obj).map Prod.snd).Perm (List.range obj.length) := by
  rw [← map_snd_zipIdx]; exact (sortedPairs_perm obj).map _

theorem mem_sortedPairs (obj : List α) (p : α × Nat) : p ∈ sortedPairs obj ↔ obj[p.2]? = some p.1 := by
  rw [(sortedPairs_perm obj).mem_iff, List.mem_zipIdx_iff_getElem?]

/-- "exactly the best k candidates": k distinct valid indices, and no unchosen candidate has a
    strictly smaller objective than a chosen one -/
structure TopK (obj : List α) (k : Nat) (S : List Nat) : Prop where
  len : S.length = min k obj.length
  nodup : S.Nodup
  valid : ∀ i ∈ S, i < obj.length
  best : ∀ i ∈ S, ∀ j, j ∉ S → ∀ a b, obj[i]? = some a → obj[j]? = some b → a ≤ b

theorem sortingSubset_topK (obj : List α) (k : Nat) : TopK obj k (sortingSubset obj k) := by
  rw [sortingSubset_eq]
  have hperm := argsort_perm obj
  have hnd : ((sortedPairs obj).map Prod.snd).Nodup := hperm.nodup_iff.mpr List.nodup_range
  refine ⟨?_, ?_, ?_, ?_⟩
  · rw [List.length_map, List.length_take, (sortedPairs_perm obj).length_eq, List.length_zipIdx]
  · rw [List.map_take]; exact hnd.sublist (List.take_sublist _ _)
  · intro i hi
    rw [List.map_take] at hi
    exact List.mem_range.mp (hperm.mem_iff.mp (List.mem_of_mem_take hi))
  · intro i hi j hj a b ha hb
    obtain ⟨pi, hpi, rfl⟩ := List.mem_map.mp hi
    have hpj : (b, j) ∈ sortedPairs obj := (mem_sortedPairs obj (b, j)).mpr hb
    have hsplit := List.take_append_drop k (sortedPairs obj)
    have hjd : (b, j) ∈ (sortedPairs obj).drop k := by
      rw [← hsplit] at hpj
      rcases List.mem_append.mp hpj with h | h
      · exact absurd (List.mem_map.mpr ⟨(b, j), h, rfl⟩) hj
      · exact h
    have hpw := sortedPairs_pairwise obj
    rw [← hsplit, List.pairwise_append] at hpw
    have hle := hpw.2.2 pi hpi (b, j) hjd
    have hpi' := (mem_sortedPairs obj pi).mp (List.mem_of_mem_take hpi)
    rw [hpi'] at ha
    cases ha
    exact hle

theorem specTopK_iff (obj : List α) (k : Nat) (S : List Nat) : specTopK obj k S = true ↔ TopK obj k S := by
  simp only [specTopK, Bool.and_eq_true, beq_iff_eq, List.all_eq_true, decide_eq_true_eq, List.mem_range,
    Bool.or_eq_true, List.contains_iff_mem]
  constructor
  · rintro ⟨⟨⟨h1, h2⟩, h3⟩, h4⟩
    refine ⟨h1, List.nodup_iff_count_eq_one.mpr h3, h2, ?_⟩
    intro i hi j hj a b ha hb
    have hjl : j < obj.length := by
      by_contra hn
      rw [List.getElem?_eq_none (Nat.le_of_not_lt hn)] at hb
      cases hb
    rcases h4 i hi j hjl with h | h
    · exact absurd h hj
    · rw [ha, hb] at h; simpa using h
  · intro h
    refine ⟨⟨⟨h.len, h.valid⟩, List.nodup_iff_count_eq_one.mp h.nodup⟩, ?_⟩
    intro i hi j hj
    by_cases hm : j ∈ S
    · exact Or.inl hm
    · right
      have hil := h.valid i hi
      rw [List.getElem?_eq_getElem hil, List.getElem?_eq_getElem hj]
      simpa using h.best i hi j hm _ _ (List.getElem?_eq_getElem hil) (List.getElem?_eq_getElem hj)

/-- with pairwise-distinct criterion values there is only one top-k set -/
theorem topK_unique (obj : List α) (k : Nat) (A B : List Nat)
    (hinj : ∀ (i j : Nat) (a : α), obj[i]? = some a → obj[j]? = some a → i = j)
    (hA : TopK obj k A) (hB : TopK obj k B) : ∀ i, i ∈ A ↔ i ∈ B := by
  have key : ∀ (A B : List Nat), TopK obj k A → TopK obj k B → ∀ i, i ∈ A → i ∈ B := by
    intro A B hA hB a ha
    by_contra hnb
    have hex : ∃ b ∈ B, b ∉ A := by
      by_contra hne
      have hsub : B ⊆ A := by
        intro b hb
        by_contra hn
        exact hne ⟨b, hb, hn⟩
      have hp : B.Perm A := (List.subperm_of_subset hB.nodup hsub).perm_of_length_le (by rw [hA.len, hB.len])
      exact hnb (hp.mem_iff.mpr ha)
    obtain ⟨b, hb, hba⟩ := hex
    have hal := hA.valid a ha
    have hbl := hB.valid b hb
    have h1 := hA.best a ha b hba _ _ (List.getElem?_eq_getElem hal) (List.getElem?_eq_getElem hbl)
    have h2 := hB.best b hb a hnb _ _ (List.getElem?_eq_getElem hbl) (List.getElem?_eq_getElem hal)
    have heq : obj[a] = obj[b] := le_antisymm h1 h2
    have := hinj a b obj[a] (List.getElem?_eq_getElem hal) (by rw [heq]; exact List.getElem?_eq_getElem hbl)
    subst this
    exact hba ha
  intro i
  exact ⟨key A B hA hB i, key B A hB hA i⟩

end topk
end SelProt
