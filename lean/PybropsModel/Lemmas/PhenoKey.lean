/-
Helper lemmas for C14, part 3: the group-by order on keys `(taxon name, group)` used by the driver
(`Pheno.keyLe`) is a total order.
-/
import Mathlib.Tactic
import Mathlib.Data.String.Basic
import PybropsModel.Model.Pheno
set_option autoImplicit false

namespace Pheno

def optLe : Option Int → Option Int → Prop
  | none, _ => True
  | some _, none => False
  | some x, some y => x ≤ y

theorem keyLe_iff (a b : String × Option Int) :
    keyLe a b = true ↔ a.1 < b.1 ∨ (a.1 = b.1 ∧ optLe a.2 b.2) := by
  unfold keyLe
  rcases lt_trichotomy a.1 b.1 with h | h | h
  · simp [h]
  · rcases a with ⟨a1, a2⟩; rcases b with ⟨b1, b2⟩
    simp only at h
    subst h
    cases a2 <;> cases b2 <;> simp [optLe]
  · have h1 : ¬ a.1 < b.1 := lt_asymm h
    have h2 : a.1 ≠ b.1 := ne_of_gt h
    simp [h, h1, h2]

theorem optLe_total (x y : Option Int) : optLe x y ∨ optLe y x := by
  cases x <;> cases y <;> simp [optLe]
  exact le_total _ _

theorem optLe_trans (x y z : Option Int) (h1 : optLe x y) (h2 : optLe y z) : optLe x z := by
  cases x <;> cases y <;> cases z <;> simp_all [optLe]
  exact le_trans h1 h2

theorem optLe_antisymm (x y : Option Int) (h1 : optLe x y) (h2 : optLe y x) : x = y := by
  cases x <;> cases y <;> simp_all [optLe]
  exact le_antisymm h1 h2

theorem keyLe_total (a b : String × Option Int) : keyLe a b = true ∨ keyLe b a = true := by
  rw [keyLe_iff, keyLe_iff]
  rcases lt_trichotomy a.1 b.1 with h | h | h
  · exact Or.inl (Or.inl h)
  · rcases optLe_total a.2 b.2 with h' | h'
    · exact Or.inl (Or.inr ⟨h, h'⟩)
    · exact Or.inr (Or.inr ⟨h.symm, h'⟩)
  · exact Or.inr (Or.inl h)

theorem keyLe_trans (a b c : String × Option Int) (h1 : keyLe a b = true) (h2 : keyLe b c = true) :
    keyLe a c = true := by
  rw [keyLe_iff] at *
  rcases h1 with h1 | ⟨e1, o1⟩ <;> rcases h2 with h2 | ⟨e2, o2⟩
  · exact Or.inl (lt_trans h1 h2)
  · exact Or.inl (e2 ▸ h1)
  · exact Or.inl (e1 ▸ h2)
  · exact Or.inr ⟨e1.trans e2, optLe_trans _ _ _ o1 o2⟩

theorem keyLe_antisymm (a b : String × Option Int) (h1 : keyLe a b = true) (h2 : keyLe b a = true) : a = b := by
  rw [keyLe_iff] at *
  rcases h1 with h1 | ⟨e1, o1⟩ <;> rcases h2 with h2 | ⟨e2, o2⟩
  · exact absurd h2 (lt_asymm h1)
  · exact absurd h1 (e2 ▸ lt_irrefl _)
  · exact absurd h2 (e1 ▸ lt_irrefl _)
  · exact Prod.ext e1 (optLe_antisymm _ _ o1 o2)
end Pheno
