/-
Helper lemmas for C04 (round 4): what `gauss_seidel` returns however its loop ends — by the tolerance
test OR by the sweep limit.  The result is always exactly one sweep away from the previous iterate,
so every residual is an explicit combination of the LAST step; this characterises the iterate returned
at `maxiter` (finding D22) instead of merely excluding it.
-/
import PybropsModel.Lemmas.GaussSeidelConv
set_option autoImplicit false
set_option linter.unusedSectionVars false
set_option linter.unusedSimpArgs false
set_option linter.unusedVariables false

namespace GSLast
open Finset BigOperators GMod RRBlup GSFn GSList

variable {α : Type} [Field α] [LinearOrder α] [IsStrictOrderedRing α]

/-- no sweep performed: the vector is returned unchanged -/
theorem gsLoop_of_sweeps_zero (A : List (List α)) (b : List α) (atol : α) (fuel : ℕ) (cont : Bool) (x : List α)
    (h0 : gsSweeps A b atol fuel cont x = 0) : gsLoop A b atol fuel cont x = x := by
  cases fuel with
  | zero => rfl
  | succ f =>
    cases cont with
    | false => unfold gsLoop; simp
    | true => unfold gsSweeps at h0; simp at h0

/-- the loop performs no sweep exactly when it is not allowed one or the first test fails -/
theorem gsSweeps_eq_zero_iff (A : List (List α)) (b : List α) (atol : α) (fuel : ℕ) (cont : Bool) (x : List α) :
    gsSweeps A b atol fuel cont x = 0 ↔ fuel = 0 ∨ cont = false := by
  cases fuel with
  | zero => simp [gsSweeps]
  | succ f =>
    cases cont with
    | false => simp [gsSweeps]
    | true => unfold gsSweeps; simp

/-- **however the loop ends**, if it performed a sweep the result is `gsSweep xp` for the previous
    iterate `xp`, and `xp` is itself no worse than the start (energy) -/
theorem gsLoop_last_sweep {n : ℕ} {A : List (List α)} {b : List α} (h : Square n A b) (hs : SymPosDiag n A)
    (atol : α) (fuel : ℕ) (cont : Bool) (x : List α) (hx : x.length = n)
    (h1 : 1 ≤ gsSweeps A b atol fuel cont x) :
    ∃ xp : List α, xp.length = n ∧ gsLoop A b atol fuel cont x = gsSweep A b xp ∧
      energyL n A b xp ≤ energyL n A b x := by
  induction fuel generalizing cont x with
  | zero => simp [gsSweeps] at h1
  | succ fuel ih =>
    cases cont with
    | false => simp [gsSweeps] at h1
    | true =>
      obtain ⟨hl, _⟩ := gsSweep_fn h x hx
      have hl' : gsLoop A b atol (fuel+1) true x
          = gsLoop A b atol fuel (moved atol (gsSweep A b x) x) (gsSweep A b x) := by
        conv_lhs => unfold gsLoop
        simp
      rw [hl']
      by_cases h0 : gsSweeps A b atol fuel (moved atol (gsSweep A b x) x) (gsSweep A b x) = 0
      · exact ⟨x, hx, gsLoop_of_sweeps_zero A b atol fuel _ _ h0, le_refl _⟩
      · obtain ⟨xp, hxp, he, hen⟩ := ih (moved atol (gsSweep A b x) x) (gsSweep A b x) hl (by omega)
        exact ⟨xp, hxp, he, hen.trans (gsSweep_energy_le h hs x hx)⟩

/-- if the loop used ALL the sweeps it was allowed and would have continued, the last step was larger
    than the tolerance in some coordinate is not implied (the test is simply not evaluated again); what
    does hold: the number of sweeps never exceeds the allowance -/
theorem gsSweeps_le_fuel (A : List (List α)) (b : List α) (atol : α) (fuel : ℕ) (cont : Bool) (x : List α) :
    gsSweeps A b atol fuel cont x ≤ fuel := by
  induction fuel generalizing cont x with
  | zero => simp [gsSweeps]
  | succ f ih =>
    cases cont with
    | false => simp [gsSweeps]
    | true =>
      have hs : gsSweeps A b atol (f+1) true x
          = gsSweeps A b atol f (moved atol (gsSweep A b x) x) (gsSweep A b x) + 1 := by
        conv_lhs => unfold gsSweeps
        simp
      have := ih (moved atol (gsSweep A b x) x) (gsSweep A b x)
      omega

/-- residuals after a sweep from `xp`, bounded by ANY bound `D` on the step `‖sweep xp − xp‖∞` -/
theorem sweep_resid_le_step {n : ℕ} {A : List (List α)} {b : List α} (h : Square n A b) (xp : List α)
    (hxp : xp.length = n) (D : α) (hD : ∀ j, j < n → |vecFn (gsSweep A b xp) j - vecFn xp j| ≤ D)
    (i : ℕ) (hi : i < n) (hd : matFn A i i ≠ 0) :
    |resid n (matFn A) (vecFn b) (vecFn (gsSweep A b xp)) i| ≤ D * GSConv.upSum n (matFn A) i := by
  obtain ⟨_, hf⟩ := gsSweep_fn h xp hxp
  rw [hf] at hD ⊢
  exact sweep_resid_bound n (matFn A) (vecFn b) (vecFn xp) D hD i hi hd

end GSLast
