/-
Helper lemmas for C02 (round 4): the Spec oracle on stored crossover probabilities (`specStarts`: exactly 1/2
at every chromosome start) — what it decides, and that the model's `rprob1g` always passes.
-/
import PybropsModel.Lemmas.RecombMap
set_option autoImplicit false
set_option linter.unusedSectionVars false

namespace Recomb

section
variable {α : Type} [Field α] [DecidableEq α]

theorem specStartsFrom_iff : ∀ (cs : List Int) (c0 : Int) (xs : List (Option α)),
    specStartsFrom c0 cs xs = true ↔
      xs.length = cs.length ∧
      ∀ (k : Nat) (c : Int), cs[k]? = some c → (c0 :: cs)[k]? ≠ some c → xs[k]? = some (some (1 / 2))
  | [], c0, [] => by simp [specStartsFrom]
  | [], c0, x :: xs => by simp [specStartsFrom]
  | c :: cs, c0, [] => by simp [specStartsFrom]
  | c :: cs, c0, x :: xs => by
    simp only [specStartsFrom, Bool.and_eq_true, Bool.or_eq_true, decide_eq_true_eq, beq_iff_eq,
      specStartsFrom_iff cs c xs, List.length_cons, Nat.add_right_cancel_iff]
    constructor
    · rintro ⟨h0, hl, hr⟩
      refine ⟨hl, fun k d hk hne => ?_⟩
      cases k with
      | zero =>
        simp only [List.getElem?_cons_zero, Option.some.injEq] at hk hne ⊢
        subst hk
        rcases h0 with h | h
        · exact absurd (congrArg some h.symm) hne
        · exact h
      | succ k =>
        simp only [List.getElem?_cons_succ] at hk hne ⊢
        exact hr k d hk hne
    · rintro ⟨hl, hall⟩
      refine ⟨?_, hl, fun k d hk hne => ?_⟩
      · by_cases h : c = c0
        · exact Or.inl h
        · right
          have := hall 0 c (by simp) (by simpa using fun e => h e.symm)
          simpa using this
      · have := hall (k + 1) d (by simpa using hk) (by simpa using hne)
        simpa using this

/-- **What `specStarts` decides**: one stored value per marker, and the value is exactly 1/2 at marker 0 and at
    every marker whose chromosome label differs from the label before it. -/
theorem specStarts_iff (chr : List Int) (xo : List (Option α)) :
    specStarts chr xo = true ↔
      xo.length = chr.length ∧
      ∀ (k : Nat) (c : Int), chr[k]? = some c → (k = 0 ∨ chr[k - 1]? ≠ some c) → xo[k]? = some (some (1 / 2)) := by
  cases chr with
  | nil =>
    cases xo with
    | nil => simp [specStarts]
    | cons x xs => simp [specStarts]
  | cons c cs =>
    cases xo with
    | nil => simp [specStarts]
    | cons x xs =>
      simp only [specStarts, Bool.and_eq_true, beq_iff_eq, specStartsFrom_iff, List.length_cons,
        Nat.add_right_cancel_iff]
      constructor
      · rintro ⟨h0, hl, hr⟩
        refine ⟨hl, fun k d hk hst => ?_⟩
        cases k with
        | zero => simpa using h0
        | succ k =>
          simp only [List.getElem?_cons_succ, Nat.add_sub_cancel] at hk hst ⊢
          rcases hst with h | h
          · omega
          · exact hr k d hk h
      · rintro ⟨hl, hall⟩
        refine ⟨?_, hl, fun k d hk hne => ?_⟩
        · have := hall 0 c (by simp) (Or.inl rfl)
          simpa using this
        · have := hall (k + 1) d (by simpa using hk) (Or.inr (by simpa using hne))
          simpa using this

theorem specStartsFrom_gdistFrom (h : α → α) : ∀ (cs : List Int) (ps : List α) (c0 : Int) (p0 : α),
    cs.length = ps.length →
    specStartsFrom c0 cs (((gdistFrom c0 p0 cs ps).map (mapOpt h)).map some) = true
  | [], [], _, _, _ => by simp [gdistFrom, specStartsFrom]
  | [], _ :: _, _, _, hl => by simp at hl
  | _ :: _, [], _, _, hl => by simp at hl
  | c :: cs, p :: ps, c0, p0, hl => by
    simp only [gdistFrom, List.map_cons, specStartsFrom, Bool.and_eq_true, Bool.or_eq_true,
      decide_eq_true_eq, beq_iff_eq]
    refine ⟨?_, specStartsFrom_gdistFrom h cs ps c p (by simpa using hl)⟩
    by_cases hc : c = c0
    · exact Or.inl hc
    · right; simp [hc, mapOpt]

/-- **The oracle accepts the model**: whatever the map function, layout and positions, the probabilities
    `rprob1g` assigns pass `specStarts`. -/
theorem specStarts_rprob1g (h : α → α) (chr : List Int) (pos : List α) (hl : chr.length = pos.length) :
    specStarts chr ((rprob1g h chr pos).map some) = true := by
  cases chr with
  | nil =>
    cases pos with
    | nil => simp [rprob1g, gdist1g, specStarts]
    | cons _ _ => simp at hl
  | cons c cs =>
    cases pos with
    | nil => simp at hl
    | cons p ps =>
      simp only [rprob1g, gdist1g, List.map_cons, specStarts, Bool.and_eq_true, beq_iff_eq]
      exact ⟨by simp [mapOpt], specStartsFrom_gdistFrom h cs ps c p (by simpa using hl)⟩

end

end Recomb
