/-
Helper lemmas for C05 (round 3): the Spec oracle's "nbest largest values" (descending sort, `take`) and the
genotype-builder code's (`sort` ascending, slice `[k-nbest:k]`) coincide for `nbest ≤ k`; Spec soundness of the
genotype-builder class; the kinship-factor contract oracle `factorOk`.
-/
import PybropsModel.Lemmas.SelectionRelabel
set_option autoImplicit false
set_option linter.unusedSectionVars false
set_option linter.unusedVariables false
namespace Selection
open Selection.Spec
section
variable {α : Type} [Field α] [LinearOrder α] [IsStrictOrderedRing α] [HasSqrt α]

theorem sortDesc_perm_self (l : List α) : (sortDesc l).Perm l := by
  unfold sortDesc; exact GMap.stableSort_perm _ l

theorem sortDesc_sorted (l : List α) : (sortDesc l).Pairwise (fun a b => b ≤ a) := by
  have h := GMap.stableSort_pairwise (fun a c : α => !(decide (a < c)))
    (by intro a b; simp only [Bool.not_eq_true', decide_eq_false_iff_not, not_lt]; exact le_total b a)
    (by intro a b c hab hbc
        simp only [Bool.not_eq_true', decide_eq_false_iff_not, not_lt] at hab hbc ⊢
        exact hbc.trans hab) l
  unfold sortDesc
  refine h.imp ?_
  intro a b hab
  simpa using hab

theorem sortDesc_eq_reverse (l : List α) : sortDesc l = (sortAsc l).reverse := by
  apply List.Perm.eq_of_pairwise (le := fun a b => b ≤ a)
  · intro a b _ _ h1 h2; exact le_antisymm h2 h1
  · exact sortDesc_sorted l
  · rw [List.pairwise_reverse]; exact sortAsc_sorted l
  · exact (sortDesc_perm_self l).trans ((List.reverse_perm _).trans (sortAsc_perm_self l)).symm

theorem sum_take_sortDesc (l : List α) (nb : Nat) (h : nb ≤ l.length) :
    Np.sum ((sortDesc l).take nb) = Np.sum ((sortAsc l).drop (l.length - nb)) := by
  have hlen : (sortAsc l).length = l.length := (sortAsc_perm_self l).length_eq
  rw [sortDesc_eq_reverse, np_sum_eq, np_sum_eq, List.take_reverse, List.sum_reverse, hlen]
end
end Selection

namespace Selection
open Selection.Spec
section
variable {α : Type} [Field α] [LinearOrder α] [IsStrictOrderedRing α] [HasSqrt α]

theorem pySliceStart_le (k nb : Nat) (h : nb ≤ k) : pySliceStart k nb = k - nb := by
  unfold pySliceStart; rw [if_pos h]

/-- **Spec soundness, genotype builder** for `1 ≤ nbestfndr ≤ len(x)` (the class's documented use: the best
    founders are taken out of the selected ones) -/
theorem spec_gb_sound (eps rel abs_ : α) (h : 0 ≤ abs_) (H : List (List (List (List α)))) (nb : Nat)
    (S : List Nat) (hk : nb ≤ S.length) (l : List α)
    (hl : latent eps (.gb H nb) (.subset S) = some l) :
    accepts rel abs_ (definition (.gb H nb) (unitShares (Crit.gb H nb).ncand S) S) l = true := by
  simp only [latent, Option.some.injEq] at hl
  subst hl
  simp only [definition]
  have : (List.range (((H.headD []).headD []).headD []).length).map (fun j => Entry.val
      (-((((H.length : Nat) : α) * Np.sum ((List.range ((H.headD []).headD []).length).map fun b =>
          Np.sum ((sortDesc (S.map fun i =>
            listMax (H.map fun Hp => ((Hp.getD i []).getD b []).getD j 0))).take nb))) / ((nb : Nat) : α))))
      = (gbSubset H nb S).map Entry.val := by
    unfold gbSubset
    rw [List.map_map]
    apply List.map_congr_left
    intro j _
    simp only [Function.comp, listMax_eq_maxL]
    unfold rsum
    congr 1
    have hb : ∀ b, Np.sum ((sortDesc (S.map fun i => maxL (H.map fun Hp => ((Hp.getD i []).getD b []).getD j 0))).take nb)
        = Np.sum ((sortAsc (S.map fun i => maxL (H.map fun Hp => ((Hp.getD i []).getD b []).getD j 0))).drop
            (pySliceStart S.length nb)) := by
      intro b
      rw [sum_take_sortDesc _ nb (by rw [List.length_map]; exact hk), List.length_map, pySliceStart_le _ _ hk]
    simp only [hb]
    ring
  rw [this]
  exact accepts_vals rel abs_ h _
end
end Selection

/-! ### the kinship-factor contract oracle -/
namespace Selection
open Selection.Spec Finset
section
variable {α : Type} [Field α] [LinearOrder α] [IsStrictOrderedRing α] [HasSqrt α]

theorem gram_eq (C : List (List α)) (n : Nat) (hrect : ∀ r ∈ C, r.length = n) (hne : C ≠ []) :
    gram C = (List.range n).map fun i => (List.range n).map fun j =>
      ∑ r ∈ range C.length, ent C r i * ent C r j := by
  unfold gram
  simp only
  rw [transpose_rect C n hrect hne, List.map_map]
  apply List.map_congr_left
  intro i _
  simp only [Function.comp, List.map_map]
  apply List.map_congr_left
  intro j _
  simp only [Function.comp]
  rw [np_dot_eq _ _ (by simp [column_length])]
  simp only [column_length, vget_column]

theorem close_exact_iff (a b : α) : close 0 0 a b = true ↔ a = b := by
  unfold close le
  simp only [zero_mul, Bool.or_self, Bool.not_eq_true', decide_eq_false_iff_not, not_lt]
  rw [absv_eq_abs]
  constructor
  · intro h
    have : |a - b| = 0 := le_antisymm h (abs_nonneg _)
    exact sub_eq_zero.mp (abs_eq_zero.mp this)
  · rintro rfl; simp

theorem zip_all_eq {β : Type} (p : β → β → Bool) (hp : ∀ a b, p a b = true → a = b) :
    ∀ (l1 l2 : List β), l1.length = l2.length → (List.zip l1 l2).all (fun q => p q.1 q.2) = true → l1 = l2
  | [], [], _, _ => rfl
  | [], _ :: _, h, _ => by simp at h
  | _ :: _, [], h, _ => by simp at h
  | a :: l1, b :: l2, h, hall => by
    simp only [List.zip_cons_cons, List.all_cons, Bool.and_eq_true] at hall
    rw [hp a b hall.1, zip_all_eq p hp l1 l2 (by simpa using h) hall.2]

/-- with zero tolerance the contract oracle accepts exactly the Gram matrix -/
theorem factorOk_exact (C K : List (List α)) (h : factorOk 0 0 C K = true) : K = gram C := by
  unfold factorOk at h
  simp only [Bool.and_eq_true, beq_iff_eq] at h
  obtain ⟨hlen, hall⟩ := h
  symm
  apply zip_all_eq (fun g k => g.length == k.length && (List.zip g k).all fun q => close 0 0 q.1 q.2)
    _ _ _ hlen hall
  intro g k hgk
  simp only [Bool.and_eq_true, beq_iff_eq] at hgk
  exact zip_all_eq (fun a b => close 0 0 a b) (fun a b hab => (close_exact_iff a b).mp hab) g k hgk.1 hgk.2

theorem zip_all_self {β : Type} (p : β → β → Bool) (l : List β) (hp : ∀ a ∈ l, p a a = true) :
    (List.zip l l).all (fun q => p q.1 q.2) = true := by
  induction l with
  | nil => rfl
  | cons a l ih =>
    simp only [List.zip_cons_cons, List.all_cons, Bool.and_eq_true]
    exact ⟨hp a List.mem_cons_self, ih (fun b hb => hp b (List.mem_cons_of_mem _ hb))⟩

/-- the oracle accepts the exact Gram matrix for every tolerance ≥ 0 -/
theorem factorOk_self (rel abs_ : α) (h : 0 ≤ abs_) (C : List (List α)) : factorOk rel abs_ C (gram C) = true := by
  unfold factorOk
  simp only [beq_self_eq_true, Bool.true_and]
  apply zip_all_self (fun g k => g.length == k.length && (List.zip g k).all fun q => close rel abs_ q.1 q.2)
  intro g _
  simp only [beq_self_eq_true, Bool.true_and]
  exact zip_all_self (fun a b => close rel abs_ a b) g (fun a _ => close_self rel abs_ a h)

/-- **the contract gives the norm**: if the oracle accepts `(C, K)` exactly then `‖C c‖² = cᵀ K c` -/
theorem factor_contract_norm (C K : List (List α)) (c : List α) (hrect : ∀ r ∈ C, r.length = c.length)
    (hne : C ≠ []) (h : factorOk 0 0 C K = true) :
    normSq (matVec C c) = ∑ i ∈ range c.length, ∑ j ∈ range c.length, vget c i * ent K i j * vget c j := by
  rw [factorOk_exact C K h, gram_eq C c.length hrect hne]
  apply normSq_matVec C c
  intro i j hi hj
  unfold ent
  simp [List.getD_eq_getElem?_getD, hi, hj]
end
end Selection

/-! ### with zero tolerance the Spec pins the latent vector down -/
namespace Selection
open Selection.Spec Finset
section
variable {α : Type} [Field α] [LinearOrder α] [IsStrictOrderedRing α] [HasSqrt α]

theorem eqv_true_iff (a b : α) : eqv a b = true ↔ a = b := by
  unfold eqv
  simp only [Bool.and_eq_true, Bool.not_eq_true', decide_eq_false_iff_not, not_lt]
  exact ⟨fun h => le_antisymm h.2 h.1, fun h => by subst h; exact ⟨le_refl _, le_refl _⟩⟩

/-- with zero tolerance an entry pins the reported value down -/
theorem holds_exact_unique (e : Entry α) (l l' : α) (h : e.holds 0 0 l = true) (h' : e.holds 0 0 l' = true) :
    l = l' := by
  unfold Entry.holds at h h'
  by_cases hb : eqv e.b 0 = true
  · rw [if_pos hb] at h h'
    rw [(close_exact_iff l e.a).mp h, (close_exact_iff l' e.a).mp h']
  · rw [if_neg hb] at h h'
    have hb0 : e.b ≠ 0 := fun hz => hb ((eqv_true_iff e.b 0).mpr hz)
    simp only [Bool.and_eq_true] at h h'
    obtain ⟨hr, hq⟩ := h
    obtain ⟨hr', hq'⟩ := h'
    have e1 := (close_exact_iff _ _).mp (by simpa using hq)
    have e2 := (close_exact_iff _ _).mp (by simpa using hq')
    have n1 : 0 ≤ (l - e.a) / e.b := by
      unfold le at hr; simpa using hr
    have n2 : 0 ≤ (l' - e.a) / e.b := by
      unfold le at hr'; simpa using hr'
    have hsq : ((l - e.a) / e.b) * ((l - e.a) / e.b) = ((l' - e.a) / e.b) * ((l' - e.a) / e.b) := by rw [e1, e2]
    have heq : (l - e.a) / e.b = (l' - e.a) / e.b := by
      rcases (mul_self_eq_mul_self_iff.mp hsq) with h1 | h1
      · exact h1
      · have z1 : (l - e.a) / e.b = 0 := by linarith
        have z2 : (l' - e.a) / e.b = 0 := by linarith
        rw [z1, z2]
    have := (div_left_inj' hb0).mp heq
    linarith

theorem accepts_exact_unique (d : List (Entry α)) (l l' : List α) (h : accepts 0 0 d l = true)
    (h' : accepts 0 0 d l' = true) : l = l' := by
  unfold accepts at h h'
  simp only [Bool.and_eq_true, beq_iff_eq] at h h'
  obtain ⟨hl, ha⟩ := h
  obtain ⟨hl', ha'⟩ := h'
  induction d generalizing l l' with
  | nil =>
    have : l = [] := List.length_eq_zero_iff.mp (by simpa using hl)
    have : l' = [] := List.length_eq_zero_iff.mp (by simpa using hl')
    simp_all
  | cons e d ih =>
    cases l with
    | nil => simp at hl
    | cons x l =>
      cases l' with
      | nil => simp at hl'
      | cons x' l' =>
        simp only [List.zip_cons_cons, List.all_cons, Bool.and_eq_true] at ha ha'
        rw [holds_exact_unique e x x' ha.1 ha'.1,
          ih l l' (by simpa using hl) ha.2 (by simpa using hl') ha'.2]
end
end Selection
