/-
C18 — the scalar bookkeeping of the haplotype-block machinery as TRANSLATED FROM THE PYTHON SOURCE
(Generated/PyK_C18.lean, rewritten by harness/py2lean.py on every run) equals the corresponding pieces of the model
`Haplo`: the ideal number of blocks per chromosome, the quantity minimised by the greedy apportionment, the closed-interval
bin membership test of `haplobin` (`paint` / `labelGo`), the factor `ploidy` of the OHV, the chunk step of `_calc_ohvmat`,
and the OHV latent functions.
-/
import Mathlib.Tactic
import PybropsModel.Generated.PyK_C18
import PybropsModel.Lemmas.PyKBase
import PybropsModel.Model.Haplo
set_option autoImplicit false
set_option linter.unusedSectionVars false
set_option linter.unusedSimpArgs false
set_option linter.unusedTactic false
set_option linter.unreachableTactic false
set_option linter.unnecessarySeqFocus false

namespace PyK.C18
open Haplo

variable {α : Type} [Field α] [LinearOrder α] [IsStrictOrderedRing α]

theorem ideal_blocks_eq_model (nhaploblk : Nat) (g total : α) :
    ideal_blocks (nhaploblk : α) g total = ((nhaploblk : α) / total) * g := by
  simp only [ideal_blocks] <;> pyk_arith

/-- `Haplo.ideal` is the translated expression mapped over the chromosome lengths -/
theorem ideal_eq_translated (nhaploblk : Nat) (gl : List α) :
    ideal nhaploblk gl = gl.map (fun g => ideal_blocks (nhaploblk : α) g (Np.sum gl)) := by
  unfold ideal; simp only [ideal_blocks_eq_model]

/-- the quantity whose arg-min receives the next block in `Haplo.greedy` -/
theorem apportion_diff_eq_model (a : Nat) (b : α) : apportion_diff (a : α) b = (a : α) - b := by
  simp only [apportion_diff] <;> pyk_arith

/-- `full = nhaploblk_chrom >= chrgrp_len` (fix 53ce2603): a chromosome that already has as many blocks as markers -/
theorem apportion_full_eq_model (cur len : Nat) : apportion_full cur len = decide (len ≤ cur) := by
  simp only [apportion_full, ge_iff_le]

theorem greedy_diffs_eq_translated (nb : List Nat) (idl : List α) :
    List.zipWith (fun (a : Nat) b => (a : α) - b) nb idl
      = List.zipWith (fun (a : Nat) b => apportion_diff (a : α) b) nb idl := by
  simp only [apportion_diff_eq_model]

/-- **bin membership**: `(chrmap >= hbound[j]) & (chrmap <= hbound[j+1])` is the closed-interval test of `Haplo.paint` -/
theorem bin_member_eq_model (x lo hi : α) : bin_member x lo hi = decide (lo ≤ x ∧ x ≤ hi) := by
  simp only [bin_member, ge_iff_le, decide_eq_true_eq, Bool.decide_and, Bool.and_comm] <;>
    first | rfl | (rw [Bool.and_comm])

theorem paint_eq_translated (lo hi : α) (k : Nat) (pos : List α) (lab : List (Option Nat)) :
    paint lo hi k pos lab = List.zipWith (fun x old => if bin_member x lo hi = true then some k else old) pos lab := by
  unfold paint
  simp only [bin_member_eq_model, decide_eq_true_eq]

/-- both ends of a bin belong to it (so a marker on an inner boundary is painted twice, the later bin winning) -/
theorem bin_member_endpoints (lo hi : α) (h : lo ≤ hi) : bin_member lo lo hi = true ∧ bin_member hi lo hi = true := by
  simp [bin_member_eq_model, h]

theorem ohv_cell_eq_model (V : List (List (List α))) (best : α) : ohv_cell (V.length : α) best = (V.length : α) * best := by
  simp only [ohv_cell] <;> pyk_arith

/-- `Haplo.ohv` is the translated product applied to the sum of the block maxima -/
theorem ohv_eq_translated (V : List (List (List α))) (nblk : Nat) (parents : List Nat) :
    ohv V nblk parents
      = ohv_cell (V.length : α) (Np.sum ((List.range nblk).map (fun b => (bestBlock V parents b).getD 0))) := by
  unfold ohv; rw [ohv_cell_eq_model]

/-- the chunk step of `_calc_ohvmat`: `nconfig if mem is None else mem` -/
theorem ohv_step_eq_model (nconfig : Nat) (mem : Option Nat) :
    ohv_step nconfig (mem.getD 0) mem.isNone = mem.getD nconfig := by
  cases mem <;> simp [ohv_step]

theorem ohv_latent_w_eq_model (x col : List α) : ohv_latent_w x col = ohvLatentW col x := by
  simp only [ohv_latent_w, ohvLatentW, Nat.cast_one, List.map_map, Function.comp_def] <;> pyk_arith

theorem ohv_latent_w_int_eq_model (x col : List α) : ohv_latent_w_int x col = ohvLatentW col x := by
  simp only [ohv_latent_w_int, ohvLatentW, Nat.cast_one, List.map_map, Function.comp_def] <;> pyk_arith

theorem ohv_latent_w_bin_eq_model (x col : List α) : ohv_latent_w_bin x col = ohvLatentW col x := by
  simp only [ohv_latent_w_bin, ohvLatentW, Nat.cast_one, List.map_map, Function.comp_def] <;> pyk_arith

theorem ohv_latent_eq_model (ohvcol : List α) (x : List Nat) :
    ohv_latent (x.length : α) (Np.sum (x.filterMap (fun i => ohvcol[i]?))) = ohvLatent ohvcol x := by
  simp only [ohv_latent, ohvLatent, Nat.cast_one] <;> pyk_arith

end PyK.C18
