/-
Helper lemmas for C18 (15): the real / integer / binary encodings of the OHV problem
(`ohvLatentW`: `contrib = (1/x.sum()) * x; out = -contrib.dot(ohvmat)`).
* closed form: minus the `x`-weighted mean of the cross configurations' optimal haploid values;
* invariance under rescaling of `x`; the weighted mean lies between the smallest and the largest OHV;
* soundness of the Spec clause `ohv_latent_w_def` on the model's output.
-/
import PybropsModel.Lemmas.HaploSpecSound2
set_option autoImplicit false
set_option linter.unusedSectionVars false

namespace Haplo

section
variable {α : Type} [Field α] [LinearOrder α] [IsStrictOrderedRing α]

theorem zipWith_scale_sum (c : α) (x col : List α) :
    (List.zipWith (· * ·) (x.map (fun xi => c * xi)) col).sum = c * (List.zipWith (· * ·) x col).sum := by
  induction x generalizing col with
  | nil => simp
  | cons a t ih =>
    cases col with
    | nil => simp
    | cons b cs =>
      simp only [List.map_cons, List.zipWith_cons_cons, List.sum_cons, ih cs]
      ring

/-- closed form of the real / integer / binary latent function -/
theorem ohvLatentW_eq (col x : List α) :
    ohvLatentW col x = -((List.zipWith (· * ·) x col).sum / x.sum) := by
  unfold ohvLatentW
  rw [npdot_eq, npsum_eq, zipWith_scale_sum]
  simp only [Nat.cast_one]
  ring

/-- `latentfn(x) == latentfn(k x)` for every `k ≠ 0` (as the docstring promises) -/
theorem ohvLatentW_scale (col x : List α) (k : α) (hk : k ≠ 0) :
    ohvLatentW col (x.map (fun xi => k * xi)) = ohvLatentW col x := by
  rw [ohvLatentW_eq, ohvLatentW_eq, zipWith_scale_sum]
  have : (x.map (fun xi => k * xi)).sum = k * x.sum := by
    induction x with
    | nil => simp
    | cons a t ih => simp only [List.map_cons, List.sum_cons, ih]; ring
  rw [this, mul_div_mul_left _ _ hk]

theorem zipWith_weighted_bounds (x col : List α) (hlen : x.length = col.length) (hx : ∀ xi ∈ x, 0 ≤ xi)
    (lo hi : α) (hb : ∀ v ∈ col, lo ≤ v ∧ v ≤ hi) :
    x.sum * lo ≤ (List.zipWith (· * ·) x col).sum ∧ (List.zipWith (· * ·) x col).sum ≤ x.sum * hi := by
  induction x generalizing col with
  | nil => simp
  | cons a t ih =>
    cases col with
    | nil => simp at hlen
    | cons b cs =>
      have ha : 0 ≤ a := hx a List.mem_cons_self
      obtain ⟨h1, h2⟩ := hb b List.mem_cons_self
      obtain ⟨i1, i2⟩ := ih cs (by simpa using hlen) (fun xi h => hx xi (List.mem_cons_of_mem _ h))
        (fun v h => hb v (List.mem_cons_of_mem _ h))
      simp only [List.zipWith_cons_cons, List.sum_cons]
      constructor
      · nlinarith [mul_le_mul_of_nonneg_left h1 ha]
      · nlinarith [mul_le_mul_of_nonneg_left h2 ha]

/-- with non-negative weights of positive total the (negated) latent value is a weighted mean of the optimal
    haploid values: it lies between the smallest and the largest of them -/
theorem ohvLatentW_bounds (col x : List α) (hlen : x.length = col.length) (hx : ∀ xi ∈ x, 0 ≤ xi)
    (hpos : 0 < x.sum) (lo hi : α) (hb : ∀ v ∈ col, lo ≤ v ∧ v ≤ hi) :
    lo ≤ -ohvLatentW col x ∧ -ohvLatentW col x ≤ hi := by
  rw [ohvLatentW_eq, neg_neg]
  obtain ⟨h1, h2⟩ := zipWith_weighted_bounds x col hlen hx lo hi hb
  constructor
  · rw [le_div_iff₀ hpos]; linarith
  · rw [div_le_iff₀ hpos]; linarith

/-- a 0/1 decision vector weighs exactly the selected crosses: the binary encoding is the subset encoding -/
theorem ohvLatentW_binary (col : List α) (sel : List Bool) (hlen : sel.length = col.length) :
    ohvLatentW col (sel.map (fun b => if b then (1 : α) else 0)) =
      -(((List.zip sel col).filter (·.1)).map (·.2)).sum / ((sel.filter id).length : α) := by
  rw [ohvLatentW_eq]
  have h1 : ∀ (s : List Bool) (c : List α), s.length = c.length →
      (List.zipWith (· * ·) (s.map (fun b => if b then (1 : α) else 0)) c).sum =
        (((List.zip s c).filter (·.1)).map (·.2)).sum := by
    intro s
    induction s with
    | nil => intro c _; simp
    | cons b t ih =>
      intro c hc
      cases c with
      | nil => simp at hc
      | cons v cs =>
        have := ih cs (by simpa using hc)
        cases b <;> simp [this]
  have h2 : ∀ s : List Bool, (s.map (fun b => if b then (1 : α) else 0)).sum = ((s.filter id).length : α) := by
    intro s
    induction s with
    | nil => simp
    | cons b t ih => cases b <;> simp [ih]; ring
  rw [h1 sel col hlen, h2 sel, neg_div]

/-- the model's latent vector of the real / integer / binary problems: one entry per trait -/
def ohvLatentWModel (ohvmat : List (List α)) (ntrait : Nat) (x : List α) : List α :=
  (List.range ntrait).map (fun t => ohvLatentW (ohvmat.map (fun row => row.getD t 0)) x)

theorem ohvLatentWDef_sound (sc : List α) (ohvmat : List (List α)) (ntrait : Nat) (x : List α) :
    Spec.ohvLatentWDef sc ohvmat x (ohvLatentWModel ohvmat ntrait x) = true := by
  simp only [Spec.ohvLatentWDef, ohvLatentWModel, List.length_map, List.length_range, List.all_eq_true,
    List.mem_range]
  intro t ht
  apply approxS_of_eq
  rw [getD_map_lt (List.range ntrait) _ t (by simpa using ht) 0 0]
  have ht' : (List.range ntrait).getD t 0 = t := by
    simp [List.getD_eq_getElem?_getD, List.getElem?_eq_getElem (by simpa using ht : t < (List.range ntrait).length)]
  rw [ht', ohvLatentW_eq, npsum_eq, npsum_eq]
  congr 2
  -- zipWith over the mapped column = zipWith over the rows
  generalize ohvmat = M
  induction x generalizing M with
  | nil => simp
  | cons a xs ih =>
    cases M with
    | nil => simp
    | cons r rs => simp only [List.map_cons, List.zipWith_cons_cons, List.sum_cons, ih rs]

end

end Haplo
