/-
Helper lemmas for C12 (14): the cross map (`triuix` / `triudix`), the rows of `_calc_uc`, and the literal loops of the
genic `from_algmod` (every cell of the `numpy.empty` array is written, with the closed form).
-/
import PybropsModel.Lemmas.VarLoops
set_option autoImplicit false
set_option linter.unusedSectionVars false

namespace Variance

/-! ### `triuix` / `triudix` -/

/-- order between consecutive (hence all) entries of a configuration -/
def stepRel (strict : Bool) (a b : Nat) : Prop := if strict then a < b else a ≤ b

theorem stepRel_next (strict : Bool) (i x : Nat) :
    (if strict then i + 1 else i) ≤ x ↔ stepRel strict i x := by
  cases strict <;> simp [stepRel]

theorem mem_triuAux (strict : Bool) (n : Nat) : ∀ (k st : Nat) (l : List Nat),
    l ∈ triuAux strict n k st ↔
      l.length = k ∧ (∀ x ∈ l, st ≤ x ∧ x < n) ∧ l.Pairwise (stepRel strict) := by
  intro k
  induction k with
  | zero =>
    intro st l
    simp only [triuAux, List.mem_singleton, List.length_eq_zero_iff]
    constructor
    · rintro rfl; simp
    · exact fun h => h.1
  | succ k ih =>
    intro st l
    simp only [triuAux, List.mem_flatMap, List.mem_map, List.mem_range'_1]
    constructor
    · rintro ⟨i, ⟨hi1, hi2⟩, l', hl', rfl⟩
      obtain ⟨hlen, hall, hpw⟩ := (ih _ l').mp hl'
      refine ⟨by simp [hlen], ?_, ?_⟩
      · intro x hx
        rcases List.mem_cons.mp hx with rfl | hx
        · exact ⟨hi1, by omega⟩
        · have := hall x hx
          refine ⟨?_, this.2⟩
          have h2 : i ≤ x := by
            have := this.1
            cases strict <;> simp at this <;> omega
          omega
      · rw [List.pairwise_cons]
        exact ⟨fun x hx => (stepRel_next strict i x).mp (hall x hx).1, hpw⟩
    · rintro ⟨hlen, hall, hpw⟩
      match l, hlen with
      | i :: l', hlen =>
        rw [List.pairwise_cons] at hpw
        have hi := hall i (List.mem_cons_self ..)
        refine ⟨i, ⟨hi.1, by omega⟩, l', ?_, rfl⟩
        rw [ih]
        refine ⟨by simpa using hlen, ?_, hpw.2⟩
        intro x hx
        exact ⟨(stepRel_next strict i x).mpr (hpw.1 x hx), (hall x (List.mem_cons_of_mem _ hx)).2⟩

theorem nodup_triuAux (strict : Bool) (n : Nat) : ∀ (k st : Nat), (triuAux strict n k st).Nodup := by
  intro k
  induction k with
  | zero => intro st; simp [triuAux]
  | succ k ih =>
    intro st
    simp only [triuAux]
    rw [List.nodup_flatMap]
    refine ⟨?_, ?_⟩
    · intro i _
      exact (ih _).map (fun a b h => by simpa using h)
    · apply List.Pairwise.imp_of_mem (R := fun a b => a ≠ b)
      · intro a b _ _ hab x hxa hxb
        simp only [List.mem_map] at hxa hxb
        obtain ⟨la, _, rfl⟩ := hxa
        obtain ⟨lb, _, h⟩ := hxb
        simp only [List.cons.injEq] at h
        exact hab h.1.symm
      · exact List.nodup_range'

/-! ### rows of the usefulness-criterion matrix -/
section ucmat
variable {α : Type} [Add α] [Mul α] [Zero α] [LT α] [DecidableLT α]

theorem ucMat_length (sqrt : α → α) (inten : α) (epgc : List α) (bv : Nat → Nat → α) (pvar : List Nat → Nat → α)
    (ntrait : Nat) (xmap : List (List Nat)) : (ucMat sqrt inten epgc bv pvar ntrait xmap).length = xmap.length := by
  simp [ucMat]

theorem ucMat_get (sqrt : α → α) (inten : α) (epgc : List α) (bv : Nat → Nat → α) (pvar : List Nat → Nat → α)
    (ntrait : Nat) (xmap : List (List Nat)) (i t : Nat) (hi : i < xmap.length) (ht : t < ntrait) :
    ((ucMat sqrt inten epgc bv pvar ntrait xmap)[i]?.bind (fun row => row[t]?))
      = some (ucVal sqrt (pmean epgc ((xmap[i]'hi).map (fun k => bv k t))) inten (pvar (xmap[i]'hi) t)) := by
  simp [ucMat, hi, ht]

end ucmat

/-- the enumerated covariance is symmetric in its two arguments -/
theorem covOf_comm {α : Type} [Field α] (Es : ((Nat → α) → α) → α) (U V : (Nat → α) → α) :
    covOf Es U V = covOf Es V U := by
  unfold covOf
  congr 1
  · congr 1; funext g; ring
  · ring

/-! ### the genic loops -/
section genic
variable {β : Type} {ι : Type} [DecidableEq ι]

theorem findAt_setAt (M : List (ι × β)) (ix a : ι) (v : β) :
    findAt (setAt M ix v) a = if ix = a then some v else findAt M a := by
  simp [setAt, findAt]

theorem fillFold_find (cell : Nat → Nat → β) (ps : List (Nat × Nat)) (hn : ps.Nodup) (hps : ∀ p ∈ ps, p.2 ≤ p.1) :
    ∀ (M : List ((Nat × Nat) × β)) (a b : Nat),
      findAt (ps.foldl (fun M fm => setAt (setAt M (fm.1, fm.2) (cell fm.1 fm.2)) (fm.2, fm.1) (cell fm.1 fm.2)) M) (a, b)
        = if (a, b) ∈ ps then some (cell a b) else if (b, a) ∈ ps then some (cell b a) else findAt M (a, b) := by
  induction ps with
  | nil => intro M a b; simp
  | cons p rest ih =>
    intro M a b
    have hrest : ∀ q ∈ rest, q.2 ≤ q.1 := fun q hq => hps q (List.mem_cons_of_mem _ hq)
    have hp : p.2 ≤ p.1 := hps p (List.mem_cons_self ..)
    have hpn : p ∉ rest := (List.nodup_cons.mp hn).1
    rw [List.foldl_cons, ih (List.nodup_cons.mp hn).2 hrest]
    obtain ⟨f, m⟩ := p
    simp only at hp
    by_cases h1 : (a, b) ∈ rest
    · simp [h1]
    · by_cases h2 : (b, a) ∈ rest
      · have hba : a ≤ b := hrest _ h2
        by_cases h3 : (a, b) = (f, m)
        · simp only [Prod.mk.injEq] at h3
          obtain ⟨rfl, rfl⟩ := h3
          have : a = b := by omega
          subst this
          exact absurd h2 h1
        · have h3' : ¬ (f, m) = (a, b) := fun h => h3 h.symm
          simp [h1, h2, List.mem_cons, h3]
      · by_cases h3 : (a, b) = (f, m)
        · simp only [Prod.mk.injEq] at h3
          obtain ⟨rfl, rfl⟩ := h3
          by_cases hab : b = a
          · subst hab; simp [h1, findAt_setAt]
          · have : ¬ (b, a) = (a, b) := by simp only [Prod.mk.injEq]; omega
            simp [h1, h2, findAt_setAt, this]
        · by_cases h4 : (b, a) = (f, m)
          · simp only [Prod.mk.injEq] at h4
            obtain ⟨rfl, rfl⟩ := h4
            simp [h1, h2, h3, findAt_setAt]
          · have e1 : ¬ (m, f) = (a, b) := by
              intro h; apply h4; simp only [Prod.mk.injEq] at h ⊢; omega
            have e2 : ¬ (f, m) = (a, b) := fun h => h3 h.symm
            simp [h1, h2, h3, h4, findAt_setAt, e1, e2]

/-- **genic loops**: over `numpy.empty`, after `for female: for male ≤ female: M[f,m] = v; M[m,f] = v` every cell `(a, b)` with
    `a, b < n` has been written, with the value computed for the ordered pair `(max a b, min a b)`; no other cell is touched -/
theorem fillSymLoop_find (n : Nat) (cell : Nat → Nat → β) (a b : Nat) :
    findAt (fillSymLoop n cell) (a, b)
      = if a < n ∧ b < n then some (cell (max a b) (min a b)) else none := by
  unfold fillSymLoop
  rw [fillFold_find cell _ (nodup_lowerPairsDiag n) (fun p hp => ((mem_lowerPairsDiag n p.1 p.2).mp hp).1)]
  simp only [mem_lowerPairsDiag, findAt]
  by_cases h1 : b ≤ a
  · by_cases h2 : a < n
    · have : b < n := by omega
      simp [h1, h2, this]
    · have h3 : ¬ (a ≤ b ∧ b < n) := by omega
      simp [h2, h3]
  · have h1' : a ≤ b := by omega
    by_cases h2 : b < n
    · have : a < n := by omega
      simp [h1, h1', h2, this]
    · simp [h1, h2]

end genic

end Variance
