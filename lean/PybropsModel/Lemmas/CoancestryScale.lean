/-
Helper lemmas for C13: Gauss–Jordan elimination on `c·A` runs in lock step with the elimination on `A`
(same pivots; processed rows agree on the left block and differ by `c⁻¹` on the right block, unprocessed rows
differ by `c` on the left block and agree on the right one).  Hence `inverse (c·A)` succeeds exactly when
`inverse A` does, and the result is `c⁻¹ · inverse A` — the factor 2 of `inverse("kinship")`.
-/
import PybropsModel.Lemmas.CoancestryGJ
import PybropsModel.Lemmas.CoancestryJitter
import PybropsModel.Lemmas.CoancestryInt
import Mathlib.Tactic
set_option autoImplicit false
set_option linter.unusedSectionVars false

namespace Coancestry
open Finset

section scale
variable {α : Type} [Field α] [DecidableEq α]

/-- `n` rows of length `2n` -/
def Wide (n : Nat) (M : List (List α)) : Prop := M.length = n ∧ ∀ r ∈ M, r.length = n + n

theorem Wide.row {n : Nat} {M : List (List α)} (h : Wide n M) {i : Nat} (hi : i < n) :
    (M.getD i []).length = n + n := by
  have hi' : i < M.length := h.1 ▸ hi
  rw [getD_eq_getElem' M i hi']
  exact h.2 _ (List.getElem_mem hi')

theorem wide_swapRows {n : Nat} {M : List (List α)} (h : Wide n M) (k pi : Nat) (hk : k < n) (hp : pi < n) :
    Wide n (swapRows M k pi) :=
  ⟨by rw [length_swapRows, h.1], fun r hr => h.2 r (mem_swapRows M k pi (h.1 ▸ hk) (h.1 ▸ hp) r hr)⟩

theorem entry_swapRows (M : List (List α)) (k pi i j : Nat) (hi : i < M.length) :
    entry (swapRows M k pi) i j = entry M (if i = k then pi else if i = pi then k else i) j := by
  unfold entry
  rw [getD_swapRows M k pi i hi]
  split
  · rfl
  · split <;> rfl

theorem wide_elimCol {n : Nat} {M : List (List α)} (h : Wide n M) (k : Nat) (hk : k < n) :
    Wide n (elimCol M k) := by
  refine ⟨by rw [length_elimCol, h.1], ?_⟩
  intro r hr
  obtain ⟨i, hi, rfl⟩ := List.mem_iff_getElem.mp hr
  rw [length_elimCol] at hi
  have hg := getD_elimCol M k i hi
  rw [getD_eq_getElem' _ i (by rw [length_elimCol]; exact hi)] at hg
  rw [hg]
  have hrk := h.row hk
  have hri := h.row (h.1 ▸ hi : i < n)
  split
  · rw [List.length_map, hrk]
  · rw [List.length_zipWith, List.length_map, hrk, hri, Nat.min_self]

theorem entry_elimCol_wide {n : Nat} (M : List (List α)) (h : Wide n M) (k i j : Nat) (hk : k < n) (hi : i < n)
    (hj : j < n + n) :
    entry (elimCol M k) i j =
      if i = k then entry M k j / entry M k k
      else entry M i j - entry M i k * (entry M k j / entry M k k) := by
  have hrk := h.row hk
  have hri := h.row hi
  unfold entry
  rw [getD_elimCol M k i (h.1 ▸ hi)]
  split
  · rw [getD_map' _ _ j 0 0 (by rw [hrk]; exact hj)]
  · rw [getD_zipWith _ _ _ j 0 0 0 (by rw [hri]; exact hj) (by rw [List.length_map, hrk]; exact hj),
      getD_map' _ _ j 0 0 (by rw [hrk]; exact hj)]

/-- the two eliminations after `k` columns -/
def ScaleRel (c : α) (n k : Nat) (S T : List (List α)) : Prop :=
  Wide n S ∧ Wide n T ∧ ∀ i < n, ∀ j < n,
    entry T i j = (if i < k then 1 else c) * entry S i j ∧
    entry T i (n + j) = (if i < k then c⁻¹ else 1) * entry S i (n + j)

theorem scaleRel_step (c : α) (hc : c ≠ 0) (n k : Nat) (hk : k < n) (S T S' : List (List α))
    (h : ScaleRel c n k S T) (hs : gjStep n S k = some S') :
    ∃ T', gjStep n T k = some T' ∧ ScaleRel c n (k + 1) S' T' := by
  obtain ⟨hS, hT, hE⟩ := h
  unfold gjStep at hs ⊢
  -- the pivot search sees the same zero pattern
  have hfind : (List.range n).find? (fun i => k ≤ i && decide (entry T i k ≠ 0))
      = (List.range n).find? (fun i => k ≤ i && decide (entry S i k ≠ 0)) := by
    apply List.find?_congr
    intro i hi
    have hin : i < n := by simpa using hi
    by_cases hki : k ≤ i
    · have := (hE i hin k hk).1
      rw [if_neg (by omega)] at this
      simp only [hki, decide_true, Bool.true_and, this]
      congr 1
      simp [hc]
    · simp [hki]
  rw [hfind]
  cases hp : (List.range n).find? (fun i => k ≤ i && decide (entry S i k ≠ 0)) with
  | none => rw [hp] at hs; simp at hs
  | some pi =>
    rw [hp] at hs
    simp only [Option.some.injEq] at hs
    refine ⟨_, rfl, ?_⟩
    rw [← hs]
    have hpi := List.find?_some hp
    have hpimem := List.mem_of_find?_eq_some hp
    have hpin : pi < n := by simpa using hpimem
    simp only [Bool.and_eq_true, decide_eq_true_eq] at hpi
    obtain ⟨hkpi, hpne⟩ := hpi
    have hS1 := wide_swapRows hS k pi hk hpin
    have hT1 := wide_swapRows hT k pi hk hpin
    -- relation after the row exchange
    have hE1 : ∀ i < n, ∀ j < n,
        entry (swapRows T k pi) i j = (if i < k then 1 else c) * entry (swapRows S k pi) i j ∧
        entry (swapRows T k pi) i (n + j) = (if i < k then c⁻¹ else 1) * entry (swapRows S k pi) i (n + j) := by
      intro i hi j hj
      rw [entry_swapRows T k pi i j (hT.1 ▸ hi), entry_swapRows S k pi i j (hS.1 ▸ hi),
        entry_swapRows T k pi i (n + j) (hT.1 ▸ hi), entry_swapRows S k pi i (n + j) (hS.1 ▸ hi)]
      by_cases h1 : i = k
      · subst h1
        simp only [if_true]
        have := hE pi hpin j hj
        rw [if_neg (by omega : ¬ pi < i), if_neg (by omega : ¬ pi < i)] at this
        rw [if_neg (lt_irrefl i), if_neg (lt_irrefl i)]
        exact this
      · by_cases h2 : i = pi
        · subst h2
          simp only [h1, if_false, if_true]
          have := hE k hk j hj
          rw [if_neg (lt_irrefl k), if_neg (lt_irrefl k)] at this
          rw [if_neg (by omega : ¬ i < k), if_neg (by omega : ¬ i < k)]
          exact this
        · simp only [h1, h2, if_false]
          exact hE i hi j hj
    have hpiv : entry (swapRows S k pi) k k = entry S pi k := by
      rw [entry_swapRows S k pi k k (hS.1 ▸ hk)]; simp
    have hpivne : entry (swapRows S k pi) k k ≠ 0 := by rw [hpiv]; exact hpne
    refine ⟨wide_elimCol hS1 k hk, wide_elimCol hT1 k hk, ?_⟩
    intro i hi j hj
    have tkk := (hE1 k hk k hk).1
    rw [if_neg (lt_irrefl k)] at tkk
    have tkj := hE1 k hk j hj
    rw [if_neg (lt_irrefl k), if_neg (lt_irrefl k)] at tkj
    have tik := (hE1 i hi k hk).1
    have tij := hE1 i hi j hj
    rw [entry_elimCol_wide _ hT1 k i j hk hi (by omega), entry_elimCol_wide _ hS1 k i j hk hi (by omega),
      entry_elimCol_wide _ hT1 k i (n + j) hk hi (by omega), entry_elimCol_wide _ hS1 k i (n + j) hk hi (by omega)]
    by_cases hik : i = k
    · subst hik
      simp only [if_true, if_pos (Nat.lt_succ_self i)]
      rw [tkk, tkj.1, tkj.2]
      constructor <;> field_simp
    · simp only [hik, if_false]
      rw [tkk, tkj.1, tkj.2, tik, tij.1, tij.2]
      by_cases hlt : i < k
      · simp only [hlt, if_true, if_pos (Nat.lt_succ_of_lt hlt)]
        constructor <;> field_simp
      · have : ¬ i < k + 1 := by omega
        simp only [hlt, this, if_false]
        constructor <;> field_simp

theorem scaleRel_fold (c : α) (hc : c ≠ 0) (n k : Nat) (hk : k ≤ n) (S0 T0 S : List (List α))
    (h0 : ScaleRel c n 0 S0 T0) (hf : (List.range k).foldlM (gjStep n) S0 = some S) :
    ∃ T, (List.range k).foldlM (gjStep n) T0 = some T ∧ ScaleRel c n k S T := by
  induction k generalizing S with
  | zero => simp at hf; exact ⟨T0, by simp, hf ▸ h0⟩
  | succ k ih =>
    rw [List.range_succ, List.foldlM_append] at hf ⊢
    cases hmid : (List.range k).foldlM (gjStep n) S0 with
    | none => rw [hmid] at hf; simp at hf
    | some Sk =>
      rw [hmid] at hf
      simp only [Option.bind_eq_bind, Option.bind_some, List.foldlM_cons, List.foldlM_nil] at hf
      obtain ⟨Tk, hTk, hrel⟩ := ih (by omega) Sk hmid
      cases hstep : gjStep n Sk k with
      | none => rw [hstep] at hf; simp at hf
      | some S' =>
        rw [hstep] at hf
        simp at hf
        obtain ⟨T', hT', hrel'⟩ := scaleRel_step c hc n k (by omega) Sk Tk S' hrel hstep
        refine ⟨T', ?_, hf ▸ hrel'⟩
        rw [hTk]
        simp [hT']

/-! ### the start `[A | I]` against `[c·A | I]` -/

theorem entry_augment_left (A : List (List α)) (n i j : Nat) (hA : Rect n n A) (hi : i < n) (hj : j < n) :
    entry (augment A) i j = entry A i j := by
  have hi' : i < A.length := hA.1 ▸ hi
  have hrow : A[i].length = n := hA.2 _ (List.getElem_mem hi')
  unfold entry augment
  rw [getD_zipIdx_map _ A i hi', getD_eq_getElem' A i hi']
  simp [List.getD_eq_getElem?_getD, List.getElem?_append_left (hrow ▸ hj : j < A[i].length)]

theorem entry_augment_right (A : List (List α)) (n i j : Nat) (hA : Rect n n A) (hi : i < n) (hj : j < n) :
    entry (augment A) i (n + j) = if j = i then 1 else 0 := by
  have hi' : i < A.length := hA.1 ▸ hi
  have hrow : A[i].length = n := hA.2 _ (List.getElem_mem hi')
  unfold entry augment
  rw [getD_zipIdx_map _ A i hi', hA.1, ← getD_identRow n i j hj]
  simp [List.getD_eq_getElem?_getD, List.getElem?_append_right, hrow]

theorem wide_augment (A : List (List α)) (n : Nat) (hA : Rect n n A) : Wide n (augment A) := by
  refine ⟨by simp [augment, hA.1], ?_⟩
  intro r hr
  simp only [augment, List.mem_map] at hr
  obtain ⟨⟨r', i⟩, hri, rfl⟩ := hr
  obtain ⟨hi, hr'⟩ := List.mem_zipIdx' hri
  have hlen : r'.length = n := by rw [hr']; exact hA.2 _ (List.getElem_mem _)
  simp [identRow, hlen, hA.1]

theorem scaleRel_augment (c : α) (A : List (List α)) (n : Nat) (hA : Rect n n A) :
    ScaleRel c n 0 (augment A) (augment (mapMat (fun x => c * x) A)) := by
  have hcA : Rect n n (mapMat (fun x => c * x) A) := hA.mapMat _
  refine ⟨wide_augment A n hA, wide_augment _ n hcA, ?_⟩
  intro i hi j hj
  rw [entry_augment_left _ n i j hcA hi hj, entry_augment_left A n i j hA hi hj,
    entry_augment_right _ n i j hcA hi hj, entry_augment_right A n i j hA hi hj,
    entry_mapMat _ A n n i j hA hi hj]
  simp

/-- **Elimination on `c·A`.**  If `inverse A = some H` then `inverse (c·A)` succeeds too, with `c⁻¹·H`. -/
theorem inverse_scale (c : α) (hc : c ≠ 0) (A H : List (List α)) (n : Nat) (hA : Rect n n A)
    (h : inverse A = some H) :
    inverse (mapMat (fun x => c * x) A) = some (mapMat (fun x => c⁻¹ * x) H) := by
  have hcA : Rect n n (mapMat (fun x => c * x) A) := hA.mapMat _
  unfold inverse at h ⊢
  rw [hA.1] at h
  rw [hcA.1]
  cases hS : (List.range n).foldlM (gjStep n) (augment A) with
  | none => rw [hS] at h; simp at h
  | some S =>
    rw [hS] at h
    simp only [Option.map_some, Option.some.injEq] at h
    obtain ⟨T, hT, hS', hT', hE⟩ := scaleRel_fold c hc n n le_rfl _ _ S (scaleRel_augment c A n hA) hS
    rw [hT]
    simp only [Option.map_some, Option.some.injEq]
    rw [← h]
    have rectDrop : ∀ M : List (List α), Wide n M → Rect n n (M.map (fun r => r.drop n)) := by
      intro M hM
      refine ⟨by simp [hM.1], ?_⟩
      intro r hr
      obtain ⟨r', hr', rfl⟩ := List.mem_map.mp hr
      simp [hM.2 r' hr']
    have entryDrop : ∀ M : List (List α), Wide n M → ∀ i < n, ∀ j,
        entry (M.map (fun r => r.drop n)) i j = entry M i (n + j) := by
      intro M hM i hi j
      unfold entry
      rw [getD_map' _ M i [] [] (hM.1 ▸ hi)]
      simp [List.getD_eq_getElem?_getD, List.getElem?_drop]
    apply rect_ext _ _ n n (rectDrop T hT') ((rectDrop S hS').mapMat _)
    intro i hi j hj
    rw [entryDrop T hT' i hi j, entry_mapMat _ _ n n i j (rectDrop S hS') hi hj, entryDrop S hS' i hi j]
    have := (hE i hi j hj).2
    rw [if_pos hi] at this
    exact this

/-- … and conversely: the two eliminations succeed or fail together -/
theorem inverse_scale_eq (c : α) (hc : c ≠ 0) (A : List (List α)) (n : Nat) (hA : Rect n n A) :
    inverse (mapMat (fun x => c * x) A) = (inverse A).map (mapMat (fun x => c⁻¹ * x)) := by
  cases h : inverse A with
  | some H => rw [inverse_scale c hc A H n hA h]; rfl
  | none =>
    cases h2 : inverse (mapMat (fun x => c * x) A) with
    | none => rfl
    | some K =>
      exfalso
      have hcA : Rect n n (mapMat (fun x => c * x) A) := hA.mapMat _
      have := inverse_scale c⁻¹ (inv_ne_zero hc) _ K n hcA h2
      have hback : mapMat (fun x => c⁻¹ * x) (mapMat (fun x => c * x) A) = A := by
        rw [mapMat_mapMat]
        conv_rhs => rw [show A = mapMat (fun x => x) A by simp [mapMat]]
        apply mapMat_congr
        intro r _ x _
        field_simp
      rw [hback, h] at this
      cases this

theorem sumAll_mapMat_mul (c : α) (H : List (List α)) : sumAll (mapMat (fun x => c * x) H) = c * sumAll H := by
  unfold sumAll mapMat
  simp only [npsum_eq_sum, List.map_map]
  have : ∀ r : List α, ((fun r => Np.sum r) ∘ fun r => List.map (fun x => c * x) r) r = c * Np.sum r := by
    intro r
    simp only [Function.comp, npsum_eq_sum]
    exact List.sum_map_mul_left r (fun x => x) c |>.trans (by simp)
  rw [List.map_congr_left (fun r _ => this r)]
  exact List.sum_map_mul_left H (fun r => Np.sum r) c

end scale

end Coancestry
