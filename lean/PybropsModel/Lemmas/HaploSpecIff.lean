/-
Helper lemmas for C18 (16): `spec_iff` — the Bool clauses of the Spec oracle say exactly what the property
statement says (as Props), so a clause that returns `false` on an implementation output exhibits a violated
conjunct of the statement and a clause that returns `true` certifies it.
-/
import PybropsModel.Lemmas.HaploSpecSound2
set_option autoImplicit false
set_option linter.unusedSectionVars false

namespace Haplo

/-- `apportion` ⇔ one count per chromosome, each ≥ 1, summing to the request -/
theorem apportion_iff (n nchr : Nat) (nb : List Nat) :
    Spec.apportion n nchr nb = true ↔ nb.length = nchr ∧ (∀ x ∈ nb, 1 ≤ x) ∧ nb.sum = n := by
  simp only [Spec.apportion, Bool.and_eq_true, beq_iff_eq, List.all_eq_true, decide_eq_true_eq, and_assoc]

/-- `within_chrom` ⇔ every chromosome start is a block start -/
theorem withinChrom_iff (stix hstix : List Nat) :
    Spec.withinChrom stix hstix = true ↔ ∀ s ∈ stix, s ∈ hstix := by
  simp only [Spec.withinChrom, List.all_eq_true, List.contains_eq_mem, decide_eq_true_eq]

/-- `partition` ⇔ `hstix = 0 :: B`, `hspix = B ++ [p]` (every stop is the next start, first start 0, last stop
    `p`), every segment non-empty, `hlen = hspix - hstix` -/
theorem partition_iff (p : Nat) (hstix hspix hlen : List Nat) :
    Spec.partition p hstix hspix hlen = true ↔
      ∃ B : List Nat, hstix = 0 :: B ∧ hspix = B ++ [p] ∧
        (∀ b ∈ List.zip hstix hspix, b.1 < b.2) ∧ hlen = List.zipWith (fun e s => e - s) hspix hstix := by
  simp only [Spec.partition, Bool.and_eq_true, beq_iff_eq, List.all_eq_true, decide_eq_true_eq]
  constructor
  · rintro ⟨⟨⟨⟨⟨h1, h2⟩, h3⟩, _⟩, h5⟩, h6⟩
    cases hstix with
    | nil => simp at h1
    | cons a T =>
      simp only [List.head?_cons, Option.some.injEq] at h1
      subst h1
      refine ⟨T, rfl, ?_, h5, h6⟩
      simp only [List.tail_cons] at h3
      have hne : hspix ≠ [] := by
        intro h0; subst h0; simp at h2
      have := List.dropLast_append_getLast hne
      rw [← this, h3]
      congr 1
      have h2' := List.getLast?_eq_some_getLast hne
      rw [h2] at h2'
      simpa using (Option.some.inj h2').symm
  · rintro ⟨B, rfl, rfl, h5, h6⟩
    refine ⟨⟨⟨⟨⟨by simp, by simp⟩, by simp⟩, by simp⟩, h5⟩, h6⟩

/-- `labels` ⇔ one label per marker and the block starts after the first are exactly the label changes -/
theorem labels_iff {β : Type} [DecidableEq β] (p : Nat) (hbin : List β) (hstix : List Nat) :
    Spec.labels p hbin hstix = true ↔
      hbin.length = p ∧ hstix.tail = (List.range p).filter (fun i => decide (0 < i) && decide (hbin[i]? ≠ hbin[i - 1]?)) := by
  simp only [Spec.labels, Bool.and_eq_true, beq_iff_eq]

section
variable {α : Type} [Field α] [LinearOrder α] [IsStrictOrderedRing α]

theorem absS_eq_abs (a : α) : Spec.absS a = |a| := by
  unfold Spec.absS
  split
  · rename_i h; exact (abs_of_neg h).symm
  · rename_i h; exact (abs_of_nonneg (not_lt.mp h)).symm

theorem maxS_eq_max (a b : α) : Spec.maxS a b = max a b := by
  unfold Spec.maxS
  split
  · rename_i h; exact (max_eq_right h.le).symm
  · rename_i h; exact (max_eq_left (not_lt.mp h)).symm

/-- the tolerant comparison, as a Prop: `|a - b| ≤ 1e-9 · max(s, |a|, |b|)` -/
theorem approxS_iff (s a b : α) :
    Spec.approxS s a b = true ↔ |a - b| ≤ (1 / 1000000000 : α) * max s (max |a| |b|) := by
  simp only [Spec.approxS, decide_eq_true_eq, absS_eq_abs, maxS_eq_max, Nat.cast_one, Nat.cast_ofNat]

/-- `a` and `b` agree to 1e-9 relative to the magnitude `s` of the data they were computed from -/
def Close (s a b : α) : Prop := |a - b| ≤ (1 / 1000000000 : α) * max s (max |a| |b|)

theorem approxS_iff_close (s a b : α) : Spec.approxS s a b = true ↔ Close s a b := approxS_iff s a b

/-- `conserve` ⇔ the matrix has the shape `(m, n, nhaploblk, ·)` of the genome matrix and, for every chromosome
    copy and every trait, its `nhaploblk` block values sum to the copy's additive value `g·u` -/
theorem conserve_iff (geno : List (List (List α))) (ucols : List (List α)) (hmat : List (List (List (List α))))
    (n : Nat) :
    Spec.conserve geno ucols hmat n = true ↔
      hmat.length = geno.length ∧ ∀ m, m < geno.length →
        (hmat.getD m []).length = (geno.getD m []).length ∧ ∀ i, i < (geno.getD m []).length →
          ((hmat.getD m []).getD i []).length = n ∧ ∀ t, t < ucols.length →
            Close (Spec.absSum (ucols.getD t []))
              ((((hmat.getD m []).getD i []).map (fun row => row.getD t 0)).sum)
              (Np.dot ((geno.getD m []).getD i []) (ucols.getD t [])) := by
  simp only [Spec.conserve, Bool.and_eq_true, beq_iff_eq, List.all_eq_true, List.mem_range, approxS_iff_close,
    npsum_eq]

/-- `ohv_def` ⇔ one row per cross configuration and every entry is `ploidy · Σ_blocks max_(phase, parent)` of the
    block values recomputed from the inputs on the reported blocks -/
theorem ohvDef_iff (geno : List (List (List α))) (ucols : List (List α)) (bnds : List (Nat × Nat))
    (xm : List (List Nat)) (ohvmat : List (List α)) :
    Spec.ohvDef geno ucols bnds xm ohvmat = true ↔
      ohvmat.length = xm.length ∧ ∀ t, t < ucols.length → ∀ s, s < xm.length →
        Close (Spec.scaleOf geno (ucols.getD t [])) ((ohvmat.getD s []).getD t 0)
          (ohv (blockTable geno (ucols.getD t []) bnds) bnds.length (xm.getD s [])) := by
  simp only [Spec.ohvDef, Bool.and_eq_true, beq_iff_eq, List.all_eq_true, List.mem_range, approxS_iff_close]

/-- `opv_def` ⇔ one entry per trait, each minus the optimal value of the selected set -/
theorem opvDef_iff (geno : List (List (List α))) (ucols : List (List α)) (bnds : List (Nat × Nat))
    (x : List Nat) (opv : List α) :
    Spec.opvDef geno ucols bnds x opv = true ↔
      opv.length = ucols.length ∧ ∀ t, t < ucols.length →
        Close (Spec.scaleOf geno (ucols.getD t [])) (-(opv.getD t 0))
          (ohv (blockTable geno (ucols.getD t []) bnds) bnds.length x) := by
  simp only [Spec.opvDef, Bool.and_eq_true, beq_iff_eq, List.all_eq_true, List.mem_range, approxS_iff_close]

/-- `ohv_latent_def` ⇔ every entry is minus the arithmetic mean of the selected crosses' optimal haploid values -/
theorem ohvLatentDef_iff (sc : List α) (ohvmat : List (List α)) (x : List Nat) (lat : List α) :
    Spec.ohvLatentDef sc ohvmat x lat = true ↔ ∀ t, t < lat.length →
      Close (sc.getD t 0) (lat.getD t 0)
        (-((x.map (fun i => (ohvmat.getD i []).getD t 0)).sum / (x.length : α))) := by
  simp only [Spec.ohvLatentDef, List.all_eq_true, List.mem_range, approxS_iff_close, npsum_eq]

/-- `ohv_latent_w_def` ⇔ every entry is minus the `x`-weighted mean of all crosses' optimal haploid values -/
theorem ohvLatentWDef_iff (sc : List α) (ohvmat : List (List α)) (x lat : List α) :
    Spec.ohvLatentWDef sc ohvmat x lat = true ↔ ∀ t, t < lat.length →
      Close (sc.getD t 0) (lat.getD t 0)
        (-((List.zipWith (fun xi row => xi * row.getD t 0) x ohvmat).sum / x.sum)) := by
  simp only [Spec.ohvLatentWDef, List.all_eq_true, List.mem_range, approxS_iff_close, npsum_eq]

/-- `gb_def` ⇔ one entry per trait: `-(ploidy / nbest)` times the sum over blocks of the `nbest` largest best-phase
    values among the selected individuals -/
theorem gbDef_iff (geno : List (List (List α))) (ucols : List (List α)) (bnds : List (Nat × Nat))
    (x : List Nat) (nbest : Nat) (lat : List α) :
    Spec.gbDef geno ucols bnds x nbest lat = true ↔
      lat.length = ucols.length ∧ ∀ t, t < ucols.length →
        Close (Spec.scaleOf geno (ucols.getD t [])) (lat.getD t 0)
          (-((geno.length : α) / (nbest : α)) * ((List.range bnds.length).map (fun b =>
            ((sortDesc (x.map (fun p => (bestBlock (blockTable geno (ucols.getD t []) bnds) [p] b).getD 0))).take
              nbest).sum)).sum) := by
  simp only [Spec.gbDef, Bool.and_eq_true, beq_iff_eq, List.all_eq_true, List.mem_range, approxS_iff_close, npsum_eq,
    sortDesc]

end

end Haplo
