/-
Helper lemmas for C18 (16): `spec_iff` — the Bool clauses of the Spec oracle say exactly what the property
statement says (as Props), so a clause that returns `false` on an implementation output exhibits a violated
conjunct of the statement and a clause that returns `true` certifies it.
-/
import PybropsModel.Lemmas.HaploSpecSound2
set_option autoImplicit false
set_option linter.unusedSectionVars false

namespace Haplo

/-- `apportion` ⇔ one count per chromosome, each ≥ 1, summing to the request -/
theorem apportion_iff (n nchr : Nat) (nb : List Nat) :
    Spec.apportion n nchr nb = true ↔ nb.length = nchr ∧ (∀ x ∈ nb, 1 ≤ x) ∧ nb.sum = n := by
  simp only [Spec.apportion, Bool.and_eq_true, beq_iff_eq, List.all_eq_true, decide_eq_true_eq, and_assoc]

/-- `within_chrom` ⇔ every chromosome start is a block start -/
theorem withinChrom_iff (stix hstix : List Nat) :
    Spec.withinChrom stix hstix = true ↔ ∀ s ∈ stix, s ∈ hstix := by
  simp only [Spec.withinChrom, List.all_eq_true, List.contains_eq_mem, decide_eq_true_eq]

/-- `partition` ⇔ `hstix = 0 :: B`, `hspix = B ++ [p]` (every stop is the next start, first start 0, last stop
    `p`), every segment non-empty, `hlen = hspix - hstix` -/
theorem partition_iff (p : Nat) (hstix hspix hlen : List Nat) :
    Spec.partition p hstix hspix hlen = true ↔
      ∃ B : List Nat, hstix = 0 :: B ∧ hspix = B ++ [p] ∧
        (∀ b ∈ List.zip hstix hspix, b.1 < b.2) ∧ hlen = List.zipWith (fun e s => e - s) hspix hstix := by
  simp only [Spec.partition, Bool.and_eq_true, beq_iff_eq, List.all_eq_true, decide_eq_true_eq]
  constructor
  · rintro ⟨⟨⟨⟨⟨h1, h2⟩, h3⟩, _⟩, h5⟩, h6⟩
    cases hstix with
    | nil => simp at h1
    | cons a T =>
      simp only [List.head?_cons, Option.some.injEq] at h1
      subst h1
      refine ⟨T, rfl, ?_, h5, h6⟩
      simp only [List.tail_cons] at h3
      have hne : hspix ≠ [] := by
        intro h0; subst h0; simp at h2
      have := List.dropLast_append_getLast hne
      rw [← this, h3]
      congr 1
      have h2' := List.getLast?_eq_some_getLast hne
      rw [h2] at h2'
      simpa using (Option.some.inj h2').symm
  · rintro ⟨B, rfl, rfl, h5, h6⟩
    refine ⟨⟨⟨⟨⟨by simp, by simp⟩, by simp⟩, by simp⟩, h5⟩, h6⟩

/-- `labels` ⇔ one label per marker and the block starts after the first are exactly the label changes -/
theorem labels_iff {β : Type} [DecidableEq β] (p : Nat) (hbin : List β) (hstix : List Nat) :
    Spec.labels p hbin hstix = true ↔
      hbin.length = p ∧ hstix.tail = (List.range p).filter (fun i => decide (0 < i) && decide (hbin[i]? ≠ hbin[i - 1]?)) := by
  simp only [Spec.labels, Bool.and_eq_true, beq_iff_eq]

section
variable {α : Type} [Field α] [LinearOrder α] [IsStrictOrderedRing α]

theorem absS_eq_abs (a : α) : Spec.absS a = |a| := by
  unfold Spec.absS
  split
  · rename_i h; exact (abs_of_neg h).symm
  · rename_i h; exact (abs_of_nonneg (not_lt.mp h)).symm

theorem maxS_eq_max (a b : α) : Spec.maxS a b = max a b := by
  unfold Spec.maxS
  split
  · rename_i h; exact (max_eq_right h.le).symm
  · rename_i h; exact (max_eq_left (not_lt.mp h)).symm

/-- the tolerant comparison, as a Prop: `|a - b| ≤ 1e-9 · max(s, |a|, |b|)` -/
theorem approxS_iff (s a b : α) :
    Spec.approxS s a b = true ↔ |a - b| ≤ (1 / 1000000000 : α) * max s (max |a| |b|) := by
  simp only [Spec.approxS, decide_eq_true_eq, absS_eq_abs, maxS_eq_max, Nat.cast_one, Nat.cast_ofNat]

end

end Haplo
