/-
Helper lemmas for C13: `setDiag`, the outcome of `jitterLoop` / `applyJitter`, and the quadratic form of
a matrix whose diagonal was increased.
-/
import PybropsModel.Lemmas.CoancestryAxis
set_option autoImplicit false
set_option linter.unusedSectionVars false

namespace Coancestry
open Finset

section setdiag
variable {α : Type} [Field α]

theorem rect_setDiag (G : List (List α)) (d : List α) (n : Nat) (hG : Rect n n G) :
    Rect n n (setDiag G d) := by
  refine ⟨by simp [setDiag, hG.1], ?_⟩
  intro r hr
  simp only [setDiag, List.mem_map] at hr
  obtain ⟨⟨r', i⟩, hri, rfl⟩ := hr
  obtain ⟨hi, hr'⟩ := List.mem_zipIdx' hri
  have hlen : r'.length = n := by rw [hr']; exact hG.2 _ (List.getElem_mem _)
  simp [hlen]

theorem entry_setDiag (G : List (List α)) (d : List α) (n i j : Nat) (hG : Rect n n G)
    (hi : i < n) (hj : j < n) :
    entry (setDiag G d) i j = if j = i then d.getD i 0 else entry G i j := by
  have hiG : i < G.length := hG.1 ▸ hi
  have hrow : G[i].length = n := hG.2 _ (List.getElem_mem hiG)
  unfold entry setDiag
  rw [getD_zipIdx_map _ G i hiG, getD_zipIdx_map _ G[i] j (hrow ▸ hj), getD_eq_getElem' G i hiG,
    getD_eq_getElem' G[i] j (hrow ▸ hj)]

theorem getD_diag (G : List (List α)) (n i : Nat) (hG : Rect n n G) (hi : i < n) :
    (diag G).getD i 0 = entry G i i := by
  have hiG : i < G.length := hG.1 ▸ hi
  unfold diag entry
  rw [getD_zipIdx_map _ G i hiG, getD_eq_getElem' G i hiG]

theorem length_diag (G : List (List α)) : (diag G).length = G.length := by simp [diag]

/-- two rectangular nested lists with the same entries are equal -/
theorem rect_ext (G H : List (List α)) (n m : Nat) (hG : Rect n m G) (hH : Rect n m H)
    (h : ∀ i < n, ∀ j < m, entry G i j = entry H i j) : G = H := by
  apply List.ext_getElem (by rw [hG.1, hH.1])
  intro i h1 h2
  have hi : i < n := hG.1 ▸ h1
  apply List.ext_getElem (by rw [hG.2 _ (List.getElem_mem h1), hH.2 _ (List.getElem_mem h2)])
  intro j h3 h4
  have hj : j < m := (hG.2 _ (List.getElem_mem h1)) ▸ h3
  have := h i hi j hj
  unfold entry at this
  rw [getD_eq_getElem' G i h1, getD_eq_getElem' H i h2, getD_eq_getElem' _ j h3,
    getD_eq_getElem' _ j h4] at this
  exact this

/-- writing the matrix's own diagonal back changes nothing -/
theorem setDiag_diag (G : List (List α)) (n : Nat) (hG : Rect n n G) : setDiag G (diag G) = G := by
  apply rect_ext _ _ n n (rect_setDiag G _ n hG) hG
  intro i hi j hj
  rw [entry_setDiag G _ n i j hG hi hj]
  split
  · rename_i h; subst h; exact getD_diag G n j hG hi
  · rfl

/-- entries after a jitter `u` of the diagonal -/
theorem entry_jittered (G : List (List α)) (u : List α) (n i j : Nat) (hG : Rect n n G) (hu : u.length = n)
    (hi : i < n) (hj : j < n) :
    entry (setDiag G (List.zipWith (· + ·) (diag G) u)) i j
      = entry G i j + if j = i then u.getD i 0 else 0 := by
  rw [entry_setDiag G _ n i j hG hi hj]
  split
  · rename_i h; subst h
    rw [getD_zipWith _ (diag G) u j 0 0 0 (by rw [length_diag, hG.1]; exact hi) (hu ▸ hi),
      getD_diag G n j hG hi]
  · rw [add_zero]

theorem quad_jittered (G : List (List α)) (u : List α) (n : Nat) (hG : Rect n n G) (hu : u.length = n)
    (v : Nat → α) :
    quad n (setDiag G (List.zipWith (· + ·) (diag G) u)) v
      = quad n G v + ∑ i ∈ range n, u.getD i 0 * v i ^ 2 := by
  unfold quad
  rw [← Finset.sum_add_distrib]
  apply Finset.sum_congr rfl
  intro i hi
  have hi' := Finset.mem_range.mp hi
  have : ∀ j ∈ range n, v i * entry (setDiag G (List.zipWith (· + ·) (diag G) u)) i j * v j
      = v i * entry G i j * v j + (if j = i then u.getD i 0 * v i ^ 2 else 0) := by
    intro j hj
    rw [entry_jittered G u n i j hG hu hi' (Finset.mem_range.mp hj)]
    split
    · rename_i h; subst h; ring
    · ring
  rw [Finset.sum_congr rfl this, Finset.sum_add_distrib, Finset.sum_ite_eq' (range n) i]
  simp [hi']

end setdiag

section loop
variable {α : Type} [Field α]

/-- outcome of the attempts: either every candidate failed the test and the input comes back with
    `false`, or the first candidate that passes is returned with `true` -/
theorem jitterLoop_cases (isPsd : List (List α) → Bool) (G : List (List α)) (old : List α)
    (draws : List (List α)) :
    (jitterLoop isPsd G old draws = (G, false) ∧
        ∀ u ∈ draws, isPsd (setDiag G (List.zipWith (· + ·) old u)) = false) ∨
      ∃ u ∈ draws, jitterLoop isPsd G old draws = (setDiag G (List.zipWith (· + ·) old u), true) ∧
        isPsd (setDiag G (List.zipWith (· + ·) old u)) = true := by
  induction draws with
  | nil => left; exact ⟨rfl, fun u hu => absurd hu (List.not_mem_nil)⟩
  | cons u us ih =>
    unfold jitterLoop
    by_cases h : isPsd (setDiag G (List.zipWith (· + ·) old u)) = true
    · right
      exact ⟨u, by simp, by simp [h], h⟩
    · have hf : isPsd (setDiag G (List.zipWith (· + ·) old u)) = false := by simpa using h
      simp only [hf, Bool.false_eq_true, if_false]
      rcases ih with ⟨h1, h2⟩ | ⟨w, hw, h1, h2⟩
      · left
        refine ⟨h1, ?_⟩
        intro x hx
        rcases List.mem_cons.mp hx with rfl | hx
        · exact hf
        · exact h2 x hx
      · right
        exact ⟨w, List.mem_cons_of_mem _ hw, h1, h2⟩

end loop

end Coancestry
