/-
Helper lemmas for C17, outcross_shuffle: the exchange loop (`firstImproving`), the outer loop (`climb`)
with a generic invariant, termination within `score + 1` passes, coverage of all pairs by a validated
pair order, unpacking of the model's validation.
-/
import PybropsModel.Lemmas.SamplingSwap
set_option autoImplicit false
set_option linter.unusedSectionVars false
namespace Sampling
section outcross
variable {β : Type} [DecidableEq β]

theorem firstImproving_some (sc : List β → Nat) (x : List β) (g : Nat) (o : List (Nat × Nat)) (y : List β) (s : Nat)
    (h : firstImproving sc x g o = some (y, s)) :
    ∃ ij ∈ o, y = swap x ij.1 ij.2 ∧ s = sc y ∧ s < g := by
  induction o with
  | nil => simp [firstImproving] at h
  | cons ij rest ih =>
    unfold firstImproving at h
    simp only [] at h
    split_ifs at h with hlt
    · injection h with h
      injection h with h1 h2
      subst h1; subst h2
      exact ⟨ij, List.mem_cons_self, rfl, rfl, hlt⟩
    · obtain ⟨q, hq, hrest⟩ := ih h
      exact ⟨q, List.mem_cons_of_mem _ hq, hrest⟩

theorem firstImproving_none (sc : List β → Nat) (x : List β) (g : Nat) (o : List (Nat × Nat))
    (h : firstImproving sc x g o = none) : ∀ ij ∈ o, g ≤ sc (swap x ij.1 ij.2) := by
  induction o with
  | nil => simp
  | cons ij rest ih =>
    unfold firstImproving at h
    simp only [] at h
    split_ifs at h with hlt
    intro q hq
    rcases List.mem_cons.mp hq with rfl | hq
    · exact not_lt.mp hlt
    · exact ih h q hq

/-- any reflexive, transitive relation that every accepted exchange respects holds between the table the
    climb starts from and the table it returns; the returned table is a fixed point of one full pass -/
theorem climb_ok (sc : List β → Nat) (P : List β → List β → Prop) (hrefl : ∀ x, P x x)
    (htrans : ∀ x y z, P x y → P y z → P x z)
    (hstep : ∀ x i j, sc (swap x i j) < sc x → P x (swap x i j))
    (orders : List (List (Nat × Nat))) (x y : List β) (h : climb sc orders x (sc x) = .ok y) :
    P x y ∧ sc y ≤ sc x ∧ ∃ o ∈ orders, ∀ ij ∈ o, sc y ≤ sc (swap y ij.1 ij.2) := by
  induction orders generalizing x with
  | nil => simp [climb] at h
  | cons o os ih =>
    unfold climb at h
    cases hf : firstImproving sc x (sc x) o with
    | none =>
      rw [hf] at h
      injection h with h
      subst h
      exact ⟨hrefl x, le_refl _, o, List.mem_cons_self, firstImproving_none sc x (sc x) o hf⟩
    | some yg =>
      rw [hf] at h
      obtain ⟨y1, s⟩ := yg
      obtain ⟨ij, _, hy1, hs, hlt⟩ := firstImproving_some sc x (sc x) o y1 s hf
      simp only [] at h
      rw [hs] at h
      obtain ⟨hP, hle, o', ho', hopt⟩ := ih y1 h
      have hlt' : sc y1 < sc x := hs ▸ hlt
      refine ⟨htrans x y1 y (hy1 ▸ hstep x ij.1 ij.2 (hy1 ▸ hlt')) hP, le_trans hle hlt'.le,
        o', List.mem_cons_of_mem _ ho', hopt⟩

/-- the climb ends within `score + 1` passes: it never runs out of pair orders when that many are supplied -/
theorem climb_terminates (sc : List β → Nat) (orders : List (List (Nat × Nat))) (x : List β)
    (h : sc x < orders.length) : ∃ y, climb sc orders x (sc x) = .ok y := by
  induction orders generalizing x with
  | nil => simp at h
  | cons o os ih =>
    unfold climb
    cases hf : firstImproving sc x (sc x) o with
    | none => exact ⟨x, rfl⟩
    | some yg =>
      obtain ⟨y1, s⟩ := yg
      obtain ⟨ij, _, hy1, hs, hlt⟩ := firstImproving_some sc x (sc x) o y1 s hf
      simp only []
      rw [hs]
      apply ih
      simp only [List.length_cons] at h
      omega

theorem mem_allPairs (n i j : Nat) : (i, j) ∈ allPairs n ↔ i < j ∧ j < n := by
  unfold allPairs
  simp only [List.mem_flatMap, List.mem_range, List.mem_map, List.mem_filter, decide_eq_true_eq, Prod.mk.injEq]
  constructor
  · rintro ⟨a, _, b, ⟨hb, hab⟩, rfl, rfl⟩; exact ⟨hab, hb⟩
  · rintro ⟨h1, h2⟩; exact ⟨i, by omega, j, ⟨h2, h1⟩, rfl, rfl⟩

theorem isPairOrder_mem (n : Nat) (o : List (Nat × Nat)) (h : isPairOrder n o = true) (i j : Nat)
    (hij : i < j) (hj : j < n) : (i, j) ∈ o := by
  unfold isPairOrder at h
  simp only [Bool.and_eq_true, List.all_eq_true, List.contains_iff_mem] at h
  exact h.2 (i, j) ((mem_allPairs n i j).mpr ⟨hij, hj⟩)

theorem swap_comm (x : List β) (i j : Nat) : swap x i j = swap x j i := by
  by_cases h : i < x.length ∧ j < x.length
  · obtain ⟨hi, hj⟩ := h
    rw [swap_of_lt x i j hi hj, swap_of_lt x j i hj hi]
    by_cases hij : i = j
    · subst hij; rfl
    · exact List.set_comm _ _ hij
  · rw [swap_of_not_lt x i j h, swap_of_not_lt x j i (fun hh => h ⟨hh.2, hh.1⟩)]

theorem swap_self (x : List β) (i : Nat) : swap x i i = x := by
  by_cases h : i < x.length
  · rw [swap_of_lt x i i h h]; simp
  · rw [swap_of_not_lt x i i (fun hh => h hh.1)]

theorem outcross_ok_iff (nrow ncol : Nat) (x : List β) (orders : List (List (Nat × Nat))) (y : List β) :
    outcross nrow ncol x orders = .ok y ↔
      (x.length = nrow * ncol ∧ (∀ o ∈ orders, isPairOrder x.length o = true) ∧
       climb (score nrow ncol) orders x (score nrow ncol x) = .ok y) := by
  unfold outcross
  split_ifs with h1 h2
  · rw [List.all_eq_true] at h2
    exact ⟨fun h => ⟨h1, h2, h⟩, fun h => h.2.2⟩
  · rw [List.all_eq_true] at h2
    constructor
    · intro h; cases h
    · rintro ⟨_, h, _⟩; exact absurd h h2
  · constructor
    · intro h; cases h
    · rintro ⟨h, _⟩; exact absurd h h1

end outcross
end Sampling
