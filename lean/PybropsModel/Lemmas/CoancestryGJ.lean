/-
Helper lemmas for C13: soundness of the reference Gauss–Jordan inversion `Coancestry.inverse`.
Invariant of the elimination on `[L | R]` (started at `[A | I]`): every row satisfies `L_i = R_i · A`
(row operations are linear), and after `k` steps the first `k` columns of `L` are those of the identity.
At the end `I = R·A`; a left inverse of a square matrix over a field is a right inverse.
-/
import Mathlib.LinearAlgebra.Matrix.SemiringInverse
import PybropsModel.Lemmas.CoancestrySumm
set_option autoImplicit false
set_option linter.unusedSectionVars false

namespace Coancestry
open Finset

section access
variable {α : Type}

theorem getD_zipIdx_map {β : Type} (g : α × Nat → β) (M : List α) (i : Nat) (hi : i < M.length) (d : β) :
    (M.zipIdx.map g).getD i d = g (M[i], i) := by
  simp [List.getD_eq_getElem?_getD, List.getElem?_eq_getElem hi]

theorem getD_eq_getElem' (M : List α) (i : Nat) (hi : i < M.length) (d : α) : M.getD i d = M[i] := by
  simp [List.getD_eq_getElem?_getD, List.getElem?_eq_getElem hi]

end access

section gj
variable {α : Type} [Field α] [DecidableEq α]

/-- the linear row invariant `L_i = R_i · A` of a row `(L_i | R_i)` of length `2n` -/
def RowInv (A : List (List α)) (n : Nat) (r : List α) : Prop :=
  r.length = n + n ∧ ∀ j < n, r.getD j 0 = ∑ k ∈ range n, r.getD (n + k) 0 * entry A k j

theorem RowInv.scale {A : List (List α)} {n : Nat} {r : List α} (h : RowInv A n r) (c : α) :
    RowInv A n (r.map (fun x => x / c)) := by
  refine ⟨by simp [h.1], ?_⟩
  intro j hj
  rw [getD_map' _ r j 0 0 (by rw [h.1]; omega), h.2 j hj, Finset.sum_div]
  apply Finset.sum_congr rfl
  intro k hk
  rw [getD_map' _ r (n + k) 0 0 (by rw [h.1]; have := Finset.mem_range.mp hk; omega)]
  ring

theorem RowInv.sub_mul {A : List (List α)} {n : Nat} {r p : List α} (hr : RowInv A n r) (hp : RowInv A n p)
    (f : α) : RowInv A n (List.zipWith (fun x y => x - f * y) r p) := by
  refine ⟨by simp [hr.1, hp.1], ?_⟩
  intro j hj
  rw [getD_zipWith _ r p j 0 0 0 (by rw [hr.1]; omega) (by rw [hp.1]; omega), hr.2 j hj, hp.2 j hj,
    Finset.mul_sum, ← Finset.sum_sub_distrib]
  apply Finset.sum_congr rfl
  intro k hk
  have hk' := Finset.mem_range.mp hk
  rw [getD_zipWith _ r p (n + k) 0 0 0 (by rw [hr.1]; omega) (by rw [hp.1]; omega)]
  ring

/-! ### row exchange -/

theorem length_swapRows (M : List (List α)) (k pi : Nat) : (swapRows M k pi).length = M.length := by
  simp [swapRows]

theorem getD_swapRows (M : List (List α)) (k pi i : Nat) (hi : i < M.length) :
    (swapRows M k pi).getD i [] = if i = k then M.getD pi [] else if i = pi then M.getD k [] else M.getD i [] := by
  unfold swapRows
  rw [getD_zipIdx_map _ M i hi, getD_eq_getElem' M i hi]

theorem mem_swapRows (M : List (List α)) (k pi : Nat) (hk : k < M.length) (hp : pi < M.length)
    (r : List α) (hr : r ∈ swapRows M k pi) : r ∈ M := by
  obtain ⟨i, hi, rfl⟩ := List.mem_iff_getElem.mp hr
  rw [length_swapRows] at hi
  have := getD_swapRows M k pi i hi
  rw [getD_eq_getElem' _ i (by rw [length_swapRows]; exact hi)] at this
  rw [this]
  split
  · rw [getD_eq_getElem' M pi hp]; exact List.getElem_mem hp
  · split
    · rw [getD_eq_getElem' M k hk]; exact List.getElem_mem hk
    · rw [getD_eq_getElem' M i hi]; exact List.getElem_mem hi

/-! ### elimination of one column -/

theorem length_elimCol (M : List (List α)) (k : Nat) : (elimCol M k).length = M.length := by
  simp [elimCol]

theorem getD_elimCol (M : List (List α)) (k i : Nat) (hi : i < M.length) :
    (elimCol M k).getD i [] =
      if i = k then (M.getD k []).map (fun x => x / (M.getD k []).getD k 0)
      else List.zipWith (fun x y => x - (M.getD i []).getD k 0 * y) (M.getD i [])
        ((M.getD k []).map (fun x => x / (M.getD k []).getD k 0)) := by
  unfold elimCol
  rw [getD_zipIdx_map _ M i hi, getD_eq_getElem' M i hi]

theorem rowInv_elimCol (A M : List (List α)) (n k : Nat) (hk : k < M.length)
    (hM : ∀ r ∈ M, RowInv A n r) : ∀ r ∈ elimCol M k, RowInv A n r := by
  intro r hr
  obtain ⟨i, hi, rfl⟩ := List.mem_iff_getElem.mp hr
  rw [length_elimCol] at hi
  have h := getD_elimCol M k i hi
  rw [getD_eq_getElem' _ i (by rw [length_elimCol]; exact hi)] at h
  rw [h]
  have hrk : RowInv A n (M.getD k []) := by
    rw [getD_eq_getElem' M k hk]; exact hM _ (List.getElem_mem hk)
  have hri : RowInv A n (M.getD i []) := by
    rw [getD_eq_getElem' M i hi]; exact hM _ (List.getElem_mem hi)
  split
  · exact hrk.scale _
  · exact hri.sub_mul (hrk.scale _) _

/-- entries after eliminating column `k` (all columns `j < 2n`) -/
theorem entry_elimCol (A M : List (List α)) (n k i j : Nat) (hk : k < M.length) (hi : i < M.length)
    (hM : ∀ r ∈ M, RowInv A n r) (hj : j < n + n) :
    entry (elimCol M k) i j =
      if i = k then entry M k j / entry M k k
      else entry M i j - entry M i k * (entry M k j / entry M k k) := by
  have hrk : (M.getD k []).length = n + n := by
    rw [getD_eq_getElem' M k hk]; exact (hM _ (List.getElem_mem hk)).1
  have hri : (M.getD i []).length = n + n := by
    rw [getD_eq_getElem' M i hi]; exact (hM _ (List.getElem_mem hi)).1
  unfold entry
  rw [getD_elimCol M k i hi]
  split
  · rw [getD_map' _ _ j 0 0 (by rw [hrk]; exact hj)]
  · rw [getD_zipWith _ _ _ j 0 0 0 (by rw [hri]; exact hj) (by rw [List.length_map, hrk]; exact hj),
      getD_map' _ _ j 0 0 (by rw [hrk]; exact hj)]

/-! ### the invariant of the whole elimination -/

/-- state after `k` columns: `n` rows, each with the linear invariant, first `k` columns are the identity's -/
def GJInv (A : List (List α)) (n k : Nat) (M : List (List α)) : Prop :=
  M.length = n ∧ (∀ r ∈ M, RowInv A n r) ∧ ∀ i < n, ∀ j < k, entry M i j = if i = j then 1 else 0

theorem gjInv_step (A M M' : List (List α)) (n k : Nat) (hk : k < n) (h : GJInv A n k M)
    (hs : gjStep n M k = some M') : GJInv A n (k + 1) M' := by
  obtain ⟨hlen, hrows, hcols⟩ := h
  unfold gjStep at hs
  split at hs
  · cases hs
  · rename_i pi hfind
    cases hs
    have hpred := List.find?_some hfind
    have hmem := List.mem_of_find?_eq_some hfind
    simp only [Bool.and_eq_true, decide_eq_true_eq] at hpred
    obtain ⟨hkp, hpv⟩ := hpred
    have hpn : pi < n := List.mem_range.mp hmem
    have hkM : k < M.length := hlen ▸ hk
    have hpM : pi < M.length := hlen ▸ hpn
    -- the swapped matrix
    set S := swapRows M k pi with hS
    have hSlen : S.length = n := by rw [hS, length_swapRows, hlen]
    have hSrows : ∀ r ∈ S, RowInv A n r := fun r hr => hrows r (mem_swapRows M k pi hkM hpM r hr)
    have hSentry : ∀ i < n, ∀ j, entry S i j =
        if i = k then entry M pi j else if i = pi then entry M k j else entry M i j := by
      intro i hi j
      unfold entry
      rw [hS, getD_swapRows M k pi i (hlen ▸ hi)]
      split
      · rfl
      · split <;> rfl
    have hScols : ∀ i < n, ∀ j < k, entry S i j = if i = j then 1 else 0 := by
      intro i hi j hj
      rw [hSentry i hi j]
      split
      · rename_i hik
        rw [hcols pi hpn j hj, if_neg (by omega), if_neg (by omega)]
      · split
        · rename_i hik hip
          rw [hcols k hk j hj, if_neg (by omega), if_neg (by omega)]
        · exact hcols i hi j hj
    have hSkk : entry S k k ≠ 0 := by
      rw [hSentry k hk k, if_pos rfl]; exact hpv
    refine ⟨by rw [length_elimCol, hSlen], rowInv_elimCol A S n k (hSlen ▸ hk) hSrows, ?_⟩
    intro i hi j hj
    rw [entry_elimCol A S n k i j (hSlen ▸ hk) (hSlen ▸ hi) hSrows (by omega)]
    by_cases hjk : j = k
    · subst hjk
      by_cases hik : i = j
      · subst hik
        rw [if_pos rfl, if_pos rfl, div_self hSkk]
      · rw [if_neg hik, if_neg hik, div_self hSkk, mul_one, sub_self]
    · have hjlt : j < k := by omega
      have hkj : entry S k j = 0 := by rw [hScols k hk j hjlt, if_neg (by omega)]
      by_cases hik : i = k
      · subst hik
        rw [if_pos rfl, hkj, zero_div, if_neg (by omega)]
      · rw [if_neg hik, hkj, zero_div, mul_zero, sub_zero]
        exact hScols i hi j hjlt

theorem gjInv_fold (A : List (List α)) (n : Nat) (k : Nat) (hk : k ≤ n) (M0 M : List (List α))
    (h0 : GJInv A n 0 M0) (hf : (List.range k).foldlM (gjStep n) M0 = some M) : GJInv A n k M := by
  induction k generalizing M with
  | zero => simp at hf; rw [← hf]; exact h0
  | succ k ih =>
    rw [List.range_succ, List.foldlM_append] at hf
    cases hmid : (List.range k).foldlM (gjStep n) M0 with
    | none => rw [hmid] at hf; simp at hf
    | some Mk =>
      rw [hmid] at hf
      simp only [Option.bind_eq_bind, Option.bind_some, List.foldlM_cons, List.foldlM_nil] at hf
      have := ih (by omega) Mk hmid
      cases hstep : gjStep n Mk k with
      | none => rw [hstep] at hf; simp at hf
      | some M' =>
        rw [hstep] at hf
        simp at hf
        rw [← hf]
        exact gjInv_step A Mk M' n k (by omega) this hstep

/-! ### the start `[A | I]` -/

theorem getD_identRow (n i k : Nat) (hk : k < n) :
    (identRow (α := α) n i).getD k 0 = if k = i then 1 else 0 := by
  unfold identRow
  rw [getD_map' _ (List.range n) k 0 0 (by simpa using hk)]
  simp [List.getD_eq_getElem?_getD, hk]

theorem gjInv_augment (A : List (List α)) (n : Nat) (hA : Rect n n A) : GJInv A n 0 (augment A) := by
  refine ⟨by simp [augment, hA.1], ?_, fun i _ j hj => absurd hj (Nat.not_lt_zero j)⟩
  intro r hr
  obtain ⟨i, hi, rfl⟩ := List.mem_iff_getElem.mp hr
  have hi' : i < A.length := by simpa [augment] using hi
  have hin : i < n := hA.1 ▸ hi'
  have hrow : A[i].length = n := hA.2 _ (List.getElem_mem hi')
  have hget : (augment A)[i] = A[i] ++ identRow A.length i := by
    simp [augment]
  rw [hget, hA.1]
  refine ⟨by simp [identRow, hrow], ?_⟩
  intro j hj
  have h1 : (A[i] ++ identRow n i).getD j 0 = entry A i j := by
    unfold entry
    rw [getD_eq_getElem' A i hi']
    simp [List.getD_eq_getElem?_getD, List.getElem?_append_left (hrow ▸ hj : j < A[i].length)]
  rw [h1]
  have h2 : ∀ k ∈ range n, (A[i] ++ identRow n i).getD (n + k) 0 * entry A k j
      = if k = i then entry A i j else 0 := by
    intro k hk
    have hk' := Finset.mem_range.mp hk
    have : (A[i] ++ identRow (α := α) n i).getD (n + k) 0 = if k = i then 1 else 0 := by
      rw [← getD_identRow n i k hk']
      simp [List.getD_eq_getElem?_getD, List.getElem?_append_right, hrow]
    rw [this]
    split
    · rename_i h; subst h; rw [one_mul]
    · rw [zero_mul]
  rw [Finset.sum_congr rfl h2, Finset.sum_ite_eq' (range n) i (fun _ => entry A i j)]
  simp [hin]

/-! ### conclusion -/

/-- the right block of the final state is a *left* inverse -/
theorem inverse_left (A B : List (List α)) (n : Nat) (hA : Rect n n A) (h : inverse A = some B) :
    Rect n n B ∧ ∀ i < n, ∀ j < n, ∑ k ∈ range n, entry B i k * entry A k j = if i = j then 1 else 0 := by
  unfold inverse at h
  rw [hA.1] at h
  cases hM : (List.range n).foldlM (gjStep n) (augment A) with
  | none => rw [hM] at h; simp at h
  | some M =>
    rw [hM] at h
    simp only [Option.map_some, Option.some.injEq] at h
    obtain ⟨hlen, hrows, hcols⟩ := gjInv_fold A n n le_rfl (augment A) M (gjInv_augment A n hA) hM
    have hB : Rect n n B := by
      rw [← h]
      refine ⟨by simp [hlen], ?_⟩
      intro r hr
      obtain ⟨r', hr', rfl⟩ := List.mem_map.mp hr
      simp [(hrows r' hr').1]
    have hentry : ∀ i < n, ∀ k < n, entry B i k = entry M i (n + k) := by
      intro i hi k hk
      rw [← h]
      unfold entry
      rw [getD_map' _ M i [] [] (hlen ▸ hi)]
      simp [List.getD_eq_getElem?_getD, List.getElem?_drop]
    refine ⟨hB, ?_⟩
    intro i hi j hj
    have hrow : RowInv A n (M.getD i []) := by
      rw [getD_eq_getElem' M i (hlen ▸ hi)]; exact hrows _ (List.getElem_mem _)
    have := hrow.2 j hj
    rw [← hcols i hi j hj]
    unfold entry at this ⊢
    rw [this]
    apply Finset.sum_congr rfl
    intro k hk
    have := hentry i hi k (Finset.mem_range.mp hk)
    unfold entry at this
    rw [this]

/-- a left inverse of a square matrix over a field is a right inverse (sum form on `range n`) -/
theorem right_of_left_inverse (n : Nat) (a b : Nat → Nat → α)
    (h : ∀ i < n, ∀ j < n, ∑ k ∈ range n, b i k * a k j = if i = j then 1 else 0) :
    ∀ i < n, ∀ j < n, ∑ k ∈ range n, a i k * b k j = if i = j then 1 else 0 := by
  let Am : Matrix (Fin n) (Fin n) α := fun i j => a i j
  let Bm : Matrix (Fin n) (Fin n) α := fun i j => b i j
  have hBA : Bm * Am = 1 := by
    ext i j
    rw [Matrix.mul_apply, Matrix.one_apply]
    have := h i i.2 j j.2
    rw [← Fin.sum_univ_eq_sum_range (fun k => b i k * a k j) n] at this
    simp only [Am, Bm, this, Fin.ext_iff]
  have hAB : Am * Bm = 1 := (_root_.mul_eq_one_comm).mp hBA
  intro i hi j hj
  have := congrFun (congrFun hAB ⟨i, hi⟩) ⟨j, hj⟩
  rw [Matrix.mul_apply, Matrix.one_apply] at this
  rw [← Fin.sum_univ_eq_sum_range (fun k => a i k * b k j) n]
  simpa [Am, Bm, Fin.ext_iff] using this

/-- **Soundness of the reference inversion.** -/
theorem inverse_isRightInverse (A B : List (List α)) (n : Nat) (hA : Rect n n A) (h : inverse A = some B) :
    Rect n n B ∧ IsRightInverse n A B := by
  obtain ⟨hB, hl⟩ := inverse_left A B n hA h
  exact ⟨hB, right_of_left_inverse n (fun i j => entry A i j) (fun i j => entry B i j) hl⟩

end gj

end Coancestry
