/-
Helper lemmas for C04: genic variance, Bulmer ratio, coefficient of determination.
-/
import PybropsModel.Lemmas.GenomicLin
import PybropsModel.Lemmas.Alleles
set_option autoImplicit false
set_option linter.unusedSectionVars false
set_option linter.unusedSimpArgs false
set_option linter.unusedVariables false

namespace GStats
open GMod

variable {α : Type} [Field α] [LinearOrder α] [IsStrictOrderedRing α]

theorem list_sum_eq_zero_iff (l : List α) (h : ∀ x ∈ l, 0 ≤ x) : l.sum = 0 ↔ ∀ x ∈ l, x = 0 := by
  induction l with
  | nil => simp
  | cons a as ih =>
    have ha : 0 ≤ a := h a (by simp)
    have hs : 0 ≤ as.sum := List.sum_nonneg (fun x hx => h x (by simp [hx]))
    have ih' := ih (fun x hx => h x (by simp [hx]))
    simp only [List.sum_cons, List.mem_cons, forall_eq_or_imp]
    constructor
    · intro hsum
      have h1 : a = 0 := by linarith
      have h2 : as.sum = 0 := by linarith
      exact ⟨h1, ih'.mp h2⟩
    · rintro ⟨h1, h2⟩
      rw [h1, ih'.mpr h2]; simp

/-- one marker's contribution to the genic variance -/
def genicTerm (u f : α) : α := (u * u) * f * (1 - f)

theorem genicTerm_nonneg (u f : α) (h0 : 0 ≤ f) (h1 : f ≤ 1) : 0 ≤ genicTerm u f := by
  unfold genicTerm
  have : 0 ≤ 1 - f := by linarith
  exact mul_nonneg (mul_nonneg (mul_self_nonneg u) h0) this

theorem genicTerm_eq_zero_iff (u f : α) : genicTerm u f = 0 ↔ u = 0 ∨ f = 0 ∨ f = 1 := by
  unfold genicTerm
  constructor
  · intro h
    rcases mul_eq_zero.mp h with h | h
    · rcases mul_eq_zero.mp h with h | h
      · left; exact mul_self_eq_zero.mp h
      · right; left; exact h
    · right; right; linarith
  · rintro (h | h | h) <;> simp [h]

theorem varGenic_entry (ua : List (List α)) (freq : List α) (ploidy t k : ℕ) (hk : k < t) :
    (varGenic ua freq ploidy t).getD k 0
      = ((ploidy : α) * (ploidy : α)) * (List.zipWith genicTerm (col ua k) freq).sum := by
  unfold varGenic
  simp only [List.getD_eq_getElem?_getD, List.getElem?_map, List.getElem?_range hk, Option.map_some,
    Option.getD_some]
  rfl

theorem mem_zipWith_genic (us fs : List α) (x : α) (hx : x ∈ List.zipWith genicTerm us fs) :
    ∃ j, j < us.length ∧ j < fs.length ∧ x = genicTerm (us.getD j 0) (fs.getD j 0) := by
  obtain ⟨j, hj, rfl⟩ := List.mem_iff_getElem.mp hx
  simp only [List.length_zipWith, lt_min_iff] at hj
  refine ⟨j, hj.1, hj.2, ?_⟩
  simp [List.getD_eq_getElem?_getD, List.getElem?_eq_getElem hj.1, List.getElem?_eq_getElem hj.2]

/-- genic variance is non-negative when the frequencies are in [0,1] -/
theorem varGenic_nonneg (ua : List (List α)) (freq : List α) (ploidy t k : ℕ) (hk : k < t)
    (hf : ∀ f ∈ freq, 0 ≤ f ∧ f ≤ 1) : 0 ≤ (varGenic ua freq ploidy t).getD k 0 := by
  rw [varGenic_entry ua freq ploidy t k hk]
  apply mul_nonneg (mul_self_nonneg _)
  apply List.sum_nonneg
  intro x hx
  obtain ⟨j, _, hj2, rfl⟩ := mem_zipWith_genic _ _ x hx
  have hm : freq.getD j 0 ∈ freq := by
    rw [List.getD_eq_getElem?_getD, List.getElem?_eq_getElem hj2]; exact List.getElem_mem hj2
  exact genicTerm_nonneg _ _ (hf _ hm).1 (hf _ hm).2

/-- genic variance of trait k vanishes exactly when every marker with a non-zero effect on trait k
    has frequency 0 or 1 -/
theorem varGenic_eq_zero_iff (ua : List (List α)) (freq : List α) (ploidy t k : ℕ) (hk : k < t)
    (hp : 0 < ploidy) (hlen : ua.length = freq.length) (hf : ∀ f ∈ freq, 0 ≤ f ∧ f ≤ 1) :
    (varGenic ua freq ploidy t).getD k 0 = 0 ↔
      ∀ j, j < ua.length → ((ua.getD j []).getD k 0 = 0 ∨ freq.getD j 0 = 0 ∨ freq.getD j 0 = 1) := by
  rw [varGenic_entry ua freq ploidy t k hk]
  have hpl : ((ploidy : α) * (ploidy : α)) ≠ 0 := by
    have : (ploidy : α) ≠ 0 := by exact_mod_cast hp.ne'
    exact mul_ne_zero this this
  rw [mul_eq_zero, or_iff_right hpl]
  have hnn : ∀ x ∈ List.zipWith genicTerm (col ua k) freq, 0 ≤ x := by
    intro x hx
    obtain ⟨j, _, hj2, rfl⟩ := mem_zipWith_genic _ _ x hx
    have hm : freq.getD j 0 ∈ freq := by
      rw [List.getD_eq_getElem?_getD, List.getElem?_eq_getElem hj2]; exact List.getElem_mem hj2
    exact genicTerm_nonneg _ _ (hf _ hm).1 (hf _ hm).2
  rw [list_sum_eq_zero_iff _ hnn]
  have hcol : ∀ j, j < ua.length → (col ua k).getD j 0 = (ua.getD j []).getD k 0 := by
    intro j hj
    simp [col, List.getD_eq_getElem?_getD, List.getElem?_map, List.getElem?_eq_getElem hj]
  constructor
  · intro h j hj
    have hjf : j < freq.length := by omega
    have hjc : j < (col ua k).length := by simp [col]; exact hj
    have hm : genicTerm ((col ua k).getD j 0) (freq.getD j 0) ∈ List.zipWith genicTerm (col ua k) freq := by
      rw [List.mem_iff_getElem]
      refine ⟨j, by simp [hjc, hjf], ?_⟩
      simp [List.getD_eq_getElem?_getD, List.getElem?_eq_getElem hjc, List.getElem?_eq_getElem hjf]
    have := (genicTerm_eq_zero_iff _ _).mp (h _ hm)
    rwa [hcol j hj] at this
  · intro h x hx
    obtain ⟨j, hj1, _, rfl⟩ := mem_zipWith_genic _ _ x hx
    have hj : j < ua.length := by simpa [col] using hj1
    rw [genicTerm_eq_zero_iff, hcol j hj]
    exact h j hj

theorem bulmer_entry (ua Z : List (List α)) (freq : List α) (ploidy t k : ℕ) (hk : k < t) :
    (bulmer ua Z freq ploidy t).getD k none
      = if (varGenic ua freq ploidy t).getD k 0 = 0 then none
        else some ((varA ua Z t).getD k 0 / (varGenic ua freq ploidy t).getD k 0) := by
  unfold bulmer
  have h1 : k < (varA ua Z t).length := by simp [varA, varCols]; exact hk
  have h2 : k < (varGenic ua freq ploidy t).length := by simp [varGenic]; exact hk
  simp [List.getD_eq_getElem?_getD, List.getElem?_zipWith, List.getElem?_eq_getElem h1,
    List.getElem?_eq_getElem h2]

/-! ### allele frequencies from counts -/

theorem afreq_entry (ploidy : ℕ) (A : List (List Int)) (p j : ℕ) (hj : j < p) :
    (afreq ploidy A p : List α).getD j 0
      = (((acount p A).getD j 0 : Int) : α) / ((ploidy * A.length : ℕ) : α) := by
  unfold afreq
  have : j < (acount p A).length := by rw [Alleles.acount_length]; exact hj
  simp [List.getD_eq_getElem?_getD, List.getElem?_map, List.getElem?_eq_getElem this]

theorem afreq_length (ploidy : ℕ) (A : List (List Int)) (p : ℕ) : (afreq ploidy A p : List α).length = p := by
  simp [afreq, Alleles.acount_length]

/-- frequencies lie in [0,1]; they are 0 / 1 exactly at the two fixed states -/
theorem afreq_facts {ploidy n p : ℕ} {A : List (List Int)} (h : Alleles.DosageOK ploidy n p A)
    (hp : 0 < ploidy) (hn : 0 < n) (j : ℕ) (hj : j < p) :
    0 ≤ (afreq ploidy A p : List α).getD j 0 ∧ (afreq ploidy A p : List α).getD j 0 ≤ 1 ∧
    ((afreq ploidy A p : List α).getD j 0 = 0 ↔ (acount p A).getD j 0 = 0) ∧
    ((afreq ploidy A p : List α).getD j 0 = 1 ↔ (acount p A).getD j 0 = ((ploidy * n : ℕ) : Int)) := by
  rw [afreq_entry ploidy A p j hj, h.rows]
  obtain ⟨h0, h1⟩ := Alleles.acount_bounds h j hj
  have hm : (0 : α) < ((ploidy * n : ℕ) : α) := by exact_mod_cast Nat.mul_pos hp hn
  set c := (acount p A).getD j 0 with hc
  have hc0 : (0 : α) ≤ (c : α) := by exact_mod_cast h0
  have hc1 : (c : α) ≤ ((ploidy * n : ℕ) : α) := by exact_mod_cast h1
  refine ⟨div_nonneg hc0 hm.le, (div_le_one hm).mpr hc1, ?_, ?_⟩
  · rw [div_eq_zero_iff]
    constructor
    · rintro (h | h)
      · exact_mod_cast h
      · exact absurd h hm.ne'
    · intro h; left; exact_mod_cast h
  · rw [div_eq_one_iff_eq hm.ne']
    constructor
    · intro h; exact_mod_cast h
    · intro h; exact_mod_cast h

/-! ### coefficient of determination -/

theorem sumsq_zero_iff (a b : List α) (hlen : a.length = b.length) :
    (List.zipWith (fun x y => (x - y) * (x - y)) a b).sum = 0 ↔ a = b := by
  rw [list_sum_eq_zero_iff _ (by
    intro x hx
    obtain ⟨j, _, rfl⟩ := List.mem_iff_getElem.mp hx
    simp only [List.getElem_zipWith]
    exact mul_self_nonneg _)]
  constructor
  · intro h
    apply List.ext_getElem hlen
    intro j h1 h2
    have hm : (a[j] - b[j]) * (a[j] - b[j]) ∈ List.zipWith (fun x y => (x - y) * (x - y)) a b := by
      rw [List.mem_iff_getElem]
      exact ⟨j, by simp [h1, h2], by simp⟩
    have := mul_self_eq_zero.mp (h _ hm)
    linarith
  · rintro rfl x hx
    obtain ⟨j, _, rfl⟩ := List.mem_iff_getElem.mp hx
    simp

end GStats
