/-
Helper lemmas for C19 (distance part): the statement-by-statement transcriptions of the three source
copies (`Pareto.scaleColsLit`, `residCore`, `residOuter`, `transDistCorePrerepair/Prob/Fn`) compute what the
common model `Pareto.transDistSq true` computes.
-/
import PybropsModel.Lemmas.ParetoSpec
set_option autoImplicit false
set_option linter.unusedSectionVars false

namespace C19
open Pareto

section copies
variable {α : Type} [Field α] [LinearOrder α] [IsStrictOrderedRing α]

theorem zipWith_map_self_right {β γ δ : Type} (f : β → γ → δ) (g : β → γ) (l : List β) :
    List.zipWith f l (l.map g) = l.map (fun x => f x (g x)) := by
  rw [List.zipWith_map_right, List.zipWith_self]

theorem zipWith_map_map_self {β γ δ ε : Type} (f : γ → δ → ε) (g : β → γ) (h : β → δ) (l : List β) :
    List.zipWith f (l.map g) (l.map h) = l.map (fun x => f (g x) (h x)) := by
  rw [List.zipWith_map_left, List.zipWith_map_right, List.zipWith_self]

/-- the mask juggling of the zero-range guard, column by column -/
theorem scaleColsLit_cols (mat : List (List α)) :
    scaleColsLit mat = Np.transpose ((Np.transpose mat).map scaleColG) := by
  unfold scaleColsLit
  simp only [zipWith_map_self_right, zipWith_map_map_self, List.map_map]
  congr 1
  apply List.map_congr_left
  intro c _
  simp only [Function.comp, scaleColG, List.map_map]
  have hmx : colMax (List.map (fun x => x - colMin c) c) = colMax c - colMin c := colMax_shiftCol c
  rw [hmx]
  apply List.map_congr_left
  intro x _
  simp only [Function.comp, beq_iff_eq]
  by_cases h0 : colMax c - colMin c = 0
  · simp [h0]
  · simp [h0]

theorem scaleColsLit_eq (mat : List (List α)) : scaleCols true mat = some (scaleColsLit mat) := by
  rw [scaleCols_guarded, scaleColsLit_cols]

theorem residCore_eq (l p : List α) : residCore l p = distSq l p := by
  unfold residCore distSq
  simp only [List.zipWith_map_right]

theorem residOuter_eq (l p : List α) : residOuter l p = distSq l p := by
  unfold residOuter distSq
  simp only [List.zipWith_map_right]
  rw [mul_comm (Np.dot p l)]

theorem transDistProbPrerepair_eq (mat : List (List α)) (obj_wt vec_wt : List α) :
    transDistProbPrerepair mat obj_wt vec_wt = transDistSq true mat vec_wt obj_wt := by
  unfold transDistProbPrerepair transDistSq
  by_cases h0 : (Np.dot obj_wt obj_wt == 0) = true
  · rw [if_pos h0, if_pos h0]
  · rw [if_neg h0, if_neg h0, scaleColsLit_eq]
    simp only
    congr 1
    apply List.map_congr_left
    intro r _
    exact residOuter_eq _ _

theorem transDistFnPrerepair_eq (mat : List (List α)) (objfn_wt wt : List α) :
    transDistFnPrerepair mat objfn_wt wt = transDistSq true mat wt objfn_wt := by
  unfold transDistFnPrerepair transDistSq
  by_cases h0 : (Np.dot objfn_wt objfn_wt == 0) = true
  · rw [if_pos h0, if_pos h0]
  · rw [if_neg h0, if_neg h0, scaleColsLit_eq]
    simp only
    congr 1
    apply List.map_congr_left
    intro r _
    exact residOuter_eq _ _

/-- a non-negative preference vector with a positive entry passes the three `assert`s of the core copy -/
theorem transDistCorePrerepair_eq (mat : List (List α)) (minmax pw : List α)
    (hnn : ∀ x ∈ pw, 0 ≤ x) (hpos : ∃ x ∈ pw, 0 < x) :
    transDistCorePrerepair mat minmax pw = transDistSq true mat minmax pw := by
  unfold transDistCorePrerepair transDistSq
  have h1 : pw.any (fun x => decide (x < 0)) = false := by
    rw [List.any_eq_false]
    intro x hx
    simpa using hnn x hx
  have h2 : pw.any (fun x => decide (0 < x)) = true := by
    rw [List.any_eq_true]
    obtain ⟨x, hx, hp⟩ := hpos
    exact ⟨x, hx, by simpa using hp⟩
  have hne : Np.dot pw pw ≠ 0 := by
    rw [np_dot_eq, vdot_self]
    intro h0
    obtain ⟨x, hx, hp⟩ := hpos
    exact (ne_of_gt hp) ((normSq_eq_zero_iff pw).mp h0 x hx)
  have h3 : (0 : α) < Np.dot pw pw := by
    refine lt_of_le_of_ne ?_ (Ne.symm hne)
    rw [np_dot_eq, vdot_self]
    exact normSq_nonneg _
  have h4 : (Np.dot pw pw == 0) = false := by simpa using hne
  simp only [h1, h2, h3, h4, Bool.false_eq_true, if_false, Bool.not_true, decide_true, scaleColsLit_eq]
  congr 1
  apply List.map_congr_left
  intro r _
  exact residCore_eq _ _

/-- the `assert`s reject a preference vector with a negative entry -/
theorem transDistCorePrerepair_rejects_negative (mat : List (List α)) (minmax pw : List α) (h : ∃ x ∈ pw, x < 0) :
    transDistCorePrerepair mat minmax pw = none := by
  unfold transDistCorePrerepair
  have h1 : pw.any (fun x => decide (x < 0)) = true := by
    rw [List.any_eq_true]
    obtain ⟨x, hx, hp⟩ := h
    exact ⟨x, hx, by simpa using hp⟩
  rw [if_pos h1]

end copies
end C19
