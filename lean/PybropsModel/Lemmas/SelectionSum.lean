/-
Helper lemmas for C05 (selection objectives): the numpy-style sums of the model as `Finset` sums, the
key identity `Σ_{i∈S} f i = Σ_{i<n} count(i,S)·f i`, and the contribution vectors of the four
decision encodings.
-/
import Mathlib.Tactic
import Mathlib.Algebra.BigOperators.Ring.Finset
import PybropsModel.Model.Selection
set_option autoImplicit false
set_option linter.unusedSectionVars false
set_option linter.unusedSimpArgs false

namespace Selection
open Finset

section sums
variable {α : Type} [Field α] [LinearOrder α] [IsStrictOrderedRing α]

theorem np_sum_eq (l : List α) : Np.sum l = l.sum := by
  unfold Np.sum
  exact (List.sum_eq_foldl).symm

theorem list_sum_range (n : Nat) (f : Nat → α) : ((List.range n).map f).sum = ∑ i ∈ range n, f i := by
  induction n with
  | zero => simp
  | succ n ih => rw [List.sum_range_succ, Finset.sum_range_succ, ih]

theorem rsum_eq (n : Nat) (f : Nat → α) : rsum n f = ∑ i ∈ range n, f i := by
  unfold rsum
  rw [np_sum_eq, list_sum_range]

theorem ssum_eq (S : List Nat) (f : Nat → α) : ssum S f = (S.map f).sum := by
  unfold ssum
  rw [np_sum_eq]

theorem rsum_congr (n : Nat) (f g : Nat → α) (h : ∀ i, i < n → f i = g i) : rsum n f = rsum n g := by
  rw [rsum_eq, rsum_eq]
  exact Finset.sum_congr rfl (fun i hi => h i (Finset.mem_range.mp hi))

/-- **the key identity**: a sum over the listed members equals the count-weighted sum over all
    candidates -/
theorem sum_map_eq_count (n : Nat) (S : List Nat) (hS : ∀ i ∈ S, i < n) (f : Nat → α) :
    (S.map f).sum = ∑ i ∈ range n, ((S.count i : Nat) : α) * f i := by
  rw [Finset.sum_list_map_count]
  have hsub : S.toFinset ⊆ range n := by
    intro i hi
    exact Finset.mem_range.mpr (hS i (List.mem_toFinset.mp hi))
  rw [← Finset.sum_subset hsub]
  · exact Finset.sum_congr rfl (fun i _ => by rw [nsmul_eq_mul])
  · intro i _ hni
    have : S.count i = 0 := List.count_eq_zero.mpr (fun h => hni (List.mem_toFinset.mpr h))
    simp [this]

theorem ssum_eq_count (n : Nat) (S : List Nat) (hS : ∀ i ∈ S, i < n) (f : Nat → α) :
    ssum S f = ∑ i ∈ range n, ((S.count i : Nat) : α) * f i := by
  rw [ssum_eq, sum_map_eq_count n S hS]

/-- the counts add up to the number of listed members -/
theorem sum_count_eq_length (n : Nat) (S : List Nat) (hS : ∀ i ∈ S, i < n) :
    ∑ i ∈ range n, ((S.count i : Nat) : α) = (S.length : α) := by
  have := sum_map_eq_count (α := α) n S hS (fun _ => 1)
  simp at this
  exact this.symm

theorem ssum_perm (S S' : List Nat) (h : S.Perm S') (f : Nat → α) : ssum S f = ssum S' f := by
  rw [ssum_eq, ssum_eq]
  exact (h.map f).sum_eq

end sums

section vget
variable {α : Type} [Field α] [LinearOrder α] [IsStrictOrderedRing α]

theorem vget_map_range (n : Nat) (g : Nat → α) (i : Nat) (hi : i < n) :
    vget ((List.range n).map g) i = g i := by
  unfold vget
  simp [List.getD_eq_getElem?_getD, hi]

theorem absv_eq_abs (a : α) : absv a = |a| := by
  unfold absv
  split_ifs with h
  · exact (abs_of_neg h).symm
  · exact (abs_of_nonneg (not_lt.mp h)).symm

end vget

section encodings
variable {α : Type} [Field α] [LinearOrder α] [IsStrictOrderedRing α]

/-- the normalised contribution vector of the multiset `S`: share of candidate `i` = count/|S| -/
def unitShares (n : Nat) (S : List Nat) : List α :=
  (List.range n).map fun i => (1 / (S.length : α)) * ((S.count i : Nat) : α)

theorem unitShares_length (n : Nat) (S : List Nat) : (unitShares (α := α) n S).length = n := by
  simp [unitShares]

theorem vget_unitShares (n : Nat) (S : List Nat) (i : Nat) (hi : i < n) :
    vget (unitShares (α := α) n S) i = (1 / (S.length : α)) * ((S.count i : Nat) : α) :=
  vget_map_range n _ i hi

theorem length_pos_cast (S : List Nat) (hne : S ≠ []) : (0 : α) < (S.length : α) := by
  have : 0 < S.length := List.length_pos_iff.mpr hne
  exact_mod_cast this

theorem one_le_length_cast (S : List Nat) (hne : S ≠ []) : (1 : α) ≤ (S.length : α) := by
  have : 1 ≤ S.length := List.length_pos_iff.mpr hne
  exact_mod_cast this

/-- `Σ_{i<n} share_i · f i = (1/k) · Σ_{i∈S} f i` -/
theorem rsum_unitShares_mul (n : Nat) (S : List Nat) (hS : ∀ i ∈ S, i < n) (f : Nat → α) :
    rsum n (fun i => vget (unitShares n S) i * f i) = indcontrib S * ssum S f := by
  rw [rsum_eq, ssum_eq_count n S hS, Finset.mul_sum]
  apply Finset.sum_congr rfl
  intro i hi
  rw [vget_unitShares n S i (Finset.mem_range.mp hi)]
  unfold indcontrib
  ring

theorem rsum_mul_unitShares (n : Nat) (S : List Nat) (hS : ∀ i ∈ S, i < n) (f : Nat → α) :
    rsum n (fun i => f i * vget (unitShares n S) i) = indcontrib S * ssum S f := by
  rw [← rsum_unitShares_mul n S hS f]
  exact rsum_congr n _ _ (fun i _ => mul_comm _ _)

theorem sum_counts (n : Nat) (S : List Nat) (hS : ∀ i ∈ S, i < n) :
    Np.sum (counts (α := α) n S) = (S.length : α) := by
  unfold counts
  rw [np_sum_eq, list_sum_range, sum_count_eq_length n S hS]

theorem indicator_eq_counts (n : Nat) (S : List Nat) (hnd : S.Nodup) :
    indicator (α := α) n S = counts n S := by
  unfold indicator counts
  apply List.map_congr_left
  intro i _
  rw [hnd.count]
  by_cases h : i ∈ S <;> simp [h]

theorem sum_shares (n : Nat) (S : List Nat) (hS : ∀ i ∈ S, i < n) (hne : S ≠ []) (a : α) :
    Np.sum (shares n S a) = a := by
  unfold shares
  rw [np_sum_eq, list_sum_range, ← Finset.mul_sum, ← Finset.sum_div, sum_count_eq_length n S hS]
  have := (length_pos_cast (α := α) S hne).ne'
  field_simp

/-- the guard `abs(xsum) >= 1e-10` is not hit when the total is at least `eps` -/
theorem xsumGuard_of_le (eps : α) (x : List α) (h : eps ≤ |Np.sum x|) : xsumGuard eps x = Np.sum x := by
  unfold xsumGuard
  simp only [absv_eq_abs]
  rw [if_neg (not_lt.mpr h)]

theorem contrib_counts (g : Bool) (eps : α) (heps : eps ≤ 1) (n : Nat) (S : List Nat)
    (hS : ∀ i ∈ S, i < n) (hne : S ≠ []) : contrib g eps (counts n S) = unitShares n S := by
  have hk := one_le_length_cast (α := α) S hne
  have hs := sum_counts (α := α) n S hS
  have hg : xsumGuard eps (counts n S) = (S.length : α) := by
    rw [xsumGuard_of_le, hs]
    rw [hs, abs_of_pos (length_pos_cast S hne)]
    exact heps.trans hk
  unfold contrib
  have : (if g = true then xsumGuard eps (counts n S) else Np.sum (counts n S)) = (S.length : α) := by
    cases g <;> simp [hg, hs]
  simp only [this]
  unfold counts unitShares
  rw [List.map_map]
  rfl

theorem contrib_shares (g : Bool) (eps : α) (n : Nat) (S : List Nat) (hS : ∀ i ∈ S, i < n) (hne : S ≠ [])
    (a : α) (ha : 0 < a) (hga : g = true → eps ≤ a) : contrib g eps (shares n S a) = unitShares n S := by
  have hs := sum_shares (α := α) n S hS hne a
  have hsum : (if g = true then xsumGuard eps (shares n S a) else Np.sum (shares n S a)) = a := by
    cases g with
    | false => simp [hs]
    | true =>
      simp only [if_true]
      rw [xsumGuard_of_le, hs]
      rw [hs, abs_of_pos ha]
      exact hga rfl
  unfold contrib
  simp only [hsum]
  unfold shares unitShares
  rw [List.map_map]
  apply List.map_congr_left
  intro i _
  simp only [Function.comp]
  have := ha.ne'
  field_simp

/-- positive rescaling leaves the normalised contribution vector unchanged, outside the guard -/
theorem contrib_scale (g : Bool) (eps : α) (x : List α) (a : α) (ha : 0 < a)
    (h0 : Np.sum x ≠ 0) (hg : g = true → eps ≤ |Np.sum x| ∧ eps ≤ |a * Np.sum x|) :
    contrib g eps (x.map (fun v => a * v)) = contrib g eps x := by
  have hsum : Np.sum (x.map (fun v => a * v)) = a * Np.sum x := by
    rw [np_sum_eq, np_sum_eq, List.sum_map_mul_left]
    simp
  have h1 : (if g = true then xsumGuard eps (x.map (fun v => a * v)) else Np.sum (x.map (fun v => a * v)))
      = a * Np.sum x := by
    cases g with
    | false => simp [hsum]
    | true =>
      simp only [if_true]
      rw [xsumGuard_of_le, hsum]
      rw [hsum]; exact (hg rfl).2
  have h2 : (if g = true then xsumGuard eps x else Np.sum x) = Np.sum x := by
    cases g with
    | false => simp
    | true =>
      simp only [if_true]
      exact xsumGuard_of_le eps x (hg rfl).1
  unfold contrib
  simp only [h1, h2]
  rw [List.map_map]
  apply List.map_congr_left
  intro v _
  simp only [Function.comp]
  have := ha.ne'
  field_simp

end encodings
end Selection
