/-
Reading side: if the region of the file below a location holds exactly an object that conformsG to
the class's schema, `from_hdf5` reads that object back.
-/
import Mathlib.Data.String.Basic
import PybropsModel.Lemmas.StoreRegion

set_option autoImplicit false

namespace Store

/-- below every field name of `o` the file holds exactly that field -/
def Region (f : File) (g : Path) (o : Obj) : Prop :=
  ∀ k it, (k, it) ∈ o → ∀ q, (g ++ [k]) <+: q → lookup f q = itemAt g k it q

/-! ### values of `semLeaves` -/

theorem semLeaves_no_key (p : Path) (k' : String) (r : List (String × Option DS)) :
    ∀ (s : Sem), (∀ kv ∈ r, kv.1 ≠ k') → semLeaves p r s (p ++ [k']) = s (p ++ [k']) := by
  induction r with
  | nil => intro s _; rfl
  | cons kv r ih =>
    intro s h
    obtain ⟨k, v⟩ := kv
    have hk : k ≠ k' := h (k, v) List.mem_cons_self
    have hr : ∀ kv ∈ r, kv.1 ≠ k' := fun e he => h e (List.mem_cons_of_mem _ he)
    cases v with
    | none => exact ih s hr
    | some d =>
      show semLeaves p r (upd s (p ++ [k]) d) (p ++ [k']) = s (p ++ [k'])
      rw [ih _ hr]
      apply upd_other
      intro hpre
      have : (p ++ [k]) = (p ++ [k']) := hpre.eq_of_length (by simp)
      exact hk (by simpa using this)

theorem semLeaves_value (p : Path) (kvs : List (String × Option DS))
    (hnd : kvs.Pairwise (fun a b => a.1 ≠ b.1)) (k' : String) (d : DS) (hm : (k', some d) ∈ kvs) :
    ∀ (s : Sem), semLeaves p kvs s (p ++ [k']) = some d := by
  induction kvs with
  | nil => simp at hm
  | cons kv r ih =>
    intro s
    obtain ⟨k, v⟩ := kv
    rw [List.pairwise_cons] at hnd
    rcases List.mem_cons.mp hm with h | h
    · have hk : k' = k := congrArg Prod.fst h
      have hv : some d = v := congrArg Prod.snd h
      subst hk; subst hv
      show semLeaves p r (upd s (p ++ [k']) d) (p ++ [k']) = some d
      rw [semLeaves_no_key p k' r _ (fun e he => (hnd.1 e he).symm)]
      simp [upd]
    · cases v with
      | none => exact ih hnd.2 h s
      | some d0 => exact ih hnd.2 h _

/-! ### `mapM` in `Except` -/

theorem mapM_ok {α β : Type} (φ : α → Except Err β) (ψ : α → β) (l : List α)
    (h : ∀ a ∈ l, φ a = .ok (ψ a)) : l.mapM φ = .ok (l.map ψ) := by
  induction l with
  | nil => rfl
  | cons a l ih =>
    rw [List.mapM_cons, h a List.mem_cons_self, ih (fun b hb => h b (List.mem_cons_of_mem _ hb))]
    rfl

/-! ### sorted dictionaries -/

def StrictKeys (kvs : List (String × Option DS)) : Prop := kvs.Pairwise (fun a b => a.1 < b.1)

theorem dictOK_iff (dec : Bool) (kvs : List (String × Option DS)) :
    dictOK dec kvs = true ↔
      (∀ kv ∈ kvs, ∃ d, kv.2 = some d ∧ decodeScalar dec (rawOf d) = d) ∧ StrictKeys kvs := by
  unfold dictOK StrictKeys
  rw [Bool.and_eq_true, decide_eq_true_iff, List.all_eq_true]
  constructor
  · rintro ⟨h1, h2⟩
    refine ⟨fun kv hkv => ?_, h2⟩
    have := h1 kv hkv
    cases hv : kv.2 with
    | none => rw [hv] at this; simp at this
    | some d => rw [hv] at this; exact ⟨d, rfl, by simpa using this⟩
  · rintro ⟨h1, h2⟩
    refine ⟨fun kv hkv => ?_, h2⟩
    obtain ⟨d, hd, he⟩ := h1 kv hkv
    rw [hd]; simpa using he

theorem strictKeys_ne {kvs : List (String × Option DS)} (h : StrictKeys kvs) :
    kvs.Pairwise (fun a b => a.1 ≠ b.1) :=
  h.imp (fun hab => ne_of_lt hab)

theorem keyLe_trans (a b c : String × Option DS) (h1 : keyLe a b = true) (h2 : keyLe b c = true) :
    keyLe a c = true := by
  unfold keyLe at *
  simp only [decide_eq_true_eq] at *
  exact String.le_trans h1 h2

theorem keyLe_total (a b : String × Option DS) : (keyLe a b || keyLe b a) = true := by
  unfold keyLe
  simp only [Bool.or_eq_true, decide_eq_true_eq]
  exact String.le_total a.1 b.1

theorem insKey_perm (a : String × Option DS) (l : List (String × Option DS)) :
    (insKey a l).Perm (a :: l) := by
  induction l with
  | nil => exact List.Perm.refl _
  | cons b l ih =>
    unfold insKey
    by_cases h : keyLe a b = true
    · rw [if_pos h]
    · rw [if_neg h]
      exact ((List.Perm.cons b ih).trans (List.Perm.swap a b l))

theorem sortKeys_perm (l : List (String × Option DS)) : (sortKeys l).Perm l := by
  induction l with
  | nil => exact List.Perm.refl _
  | cons b l ih => exact (insKey_perm b (sortKeys l)).trans (List.Perm.cons b ih)

theorem insKey_pairwise (a : String × Option DS) (l : List (String × Option DS))
    (hl : l.Pairwise (fun x y => keyLe x y = true)) :
    (insKey a l).Pairwise (fun x y => keyLe x y = true) := by
  induction l with
  | nil => simp [insKey]
  | cons b l ih =>
    rw [List.pairwise_cons] at hl
    unfold insKey
    by_cases h : keyLe a b = true
    · rw [if_pos h, List.pairwise_cons]
      refine ⟨?_, List.pairwise_cons.mpr hl⟩
      intro x hx
      rcases List.mem_cons.mp hx with hx | hx
      · rw [hx]; exact h
      · exact keyLe_trans a b x h (hl.1 x hx)
    · rw [if_neg h, List.pairwise_cons]
      refine ⟨?_, ih hl.2⟩
      intro x hx
      have hx' := (insKey_perm a l).mem_iff.mp hx
      rcases List.mem_cons.mp hx' with hx' | hx'
      · rw [hx']
        have := keyLe_total a b
        rw [Bool.or_eq_true] at this
        rcases this with t | t
        · exact absurd t h
        · exact t
      · exact hl.1 x hx'

theorem sortKeys_pairwise (l : List (String × Option DS)) :
    (sortKeys l).Pairwise (fun x y => keyLe x y = true) := by
  induction l with
  | nil => exact List.Pairwise.nil
  | cons b l ih => exact insKey_pairwise b _ ih

/-- sorting a permutation of a strictly sorted dictionary gives that dictionary back -/
theorem mergeSort_eq_of_perm (L kvs : List (String × Option DS)) (hp : L.Perm kvs)
    (hs : StrictKeys kvs) : sortKeys L = kvs := by
  have h1 : (sortKeys L).Pairwise (fun a b => keyLe a b = true) := sortKeys_pairwise L
  have h2 : kvs.Pairwise (fun a b => keyLe a b = true) :=
    hs.imp (fun {a b} hab => by
      unfold keyLe; simp only [decide_eq_true_eq]; exact le_of_lt hab)
  have hp' : (sortKeys L).Perm kvs := (sortKeys_perm L).trans hp
  refine List.Perm.eq_of_pairwise ?_ h1 h2 hp'
  intro a b ha hb hab hba
  have hak : a ∈ kvs := hp'.mem_iff.mp ha
  have hkey : a.1 = b.1 := by
    unfold keyLe at hab hba
    simp only [decide_eq_true_eq] at hab hba
    exact String.le_antisymm hab hba
  by_contra hne
  -- two different members of a strictly sorted list have different names
  obtain ⟨i, hi, e1⟩ := List.mem_iff_getElem.mp hak
  obtain ⟨j, hj, e2⟩ := List.mem_iff_getElem.mp hb
  have hij : i ≠ j := by
    intro h; subst h; exact hne (e1.symm.trans e2)
  rcases Nat.lt_or_gt_of_ne hij with h | h
  · have := List.pairwise_iff_getElem.mp hs i j hi hj h
    rw [e1, e2, hkey] at this
    exact lt_irrefl _ this
  · have := List.pairwise_iff_getElem.mp hs j i hj hi h
    rw [e1, e2, hkey] at this
    exact lt_irrefl _ this

/-! ### the individual reads -/

theorem mem_field_iff {f : File} {g : Path} {k : String} :
    mem f (g ++ [k]) = true ↔ ∃ q, (g ++ [k]) <+: q ∧ lookup f q ≠ none := by
  rw [mem_eq_true_iff]
  constructor
  · rintro (h | ⟨e, he, hpre⟩)
    · exact absurd h (append_singleton_ne_nil g k)
    · exact ⟨e.1, hpre, (lookup_ne_none_iff f e.1).mpr (List.mem_map_of_mem (f := Prod.fst) he)⟩
  · rintro ⟨q, hpre, hq⟩
    obtain ⟨e, he, rfl⟩ := List.mem_map.mp ((lookup_ne_none_iff f q).mp hq)
    exact Or.inr ⟨e, he, hpre⟩

theorem mem_of_region_none {f : File} {g : Path} {o : Obj} (hr : Region f g o) {k : String}
    (hm : (k, Item.none) ∈ o) : mem f (g ++ [k]) = false := by
  rw [← Bool.not_eq_true, mem_field_iff]
  rintro ⟨q, hpre, hq⟩
  exact hq (hr k .none hm q hpre)

theorem mem_of_region_emptyDict {f : File} {g : Path} {o : Obj} (hr : Region f g o) {k : String}
    (hm : (k, Item.dict []) ∈ o) : mem f (g ++ [k]) = false := by
  rw [← Bool.not_eq_true, mem_field_iff]
  rintro ⟨q, hpre, hq⟩
  exact hq (hr k (.dict []) hm q hpre)

theorem lookup_of_region_data {f : File} {g : Path} {o : Obj} (hr : Region f g o) {k : String} {d : DS}
    (hm : (k, Item.data d) ∈ o) : lookup f (g ++ [k]) = some d := by
  rw [hr k (.data d) hm _ (List.prefix_refl _)]
  simp [itemAt]

theorem mem_of_region_data {f : File} {g : Path} {o : Obj} (hr : Region f g o) {k : String} {d : DS}
    (hm : (k, Item.data d) ∈ o) : mem f (g ++ [k]) = true := by
  rw [mem_field_iff]
  exact ⟨g ++ [k], List.prefix_refl _, by rw [lookup_of_region_data hr hm]; simp⟩

theorem mem_of_region_dict {f : File} {g : Path} {o : Obj} (hr : Region f g o) {k : String}
    {kvs : List (String × Option DS)} (hm : (k, Item.dict kvs) ∈ o) (hs : StrictKeys kvs)
    {k' : String} {d : DS} (hk : (k', some d) ∈ kvs) : mem f (g ++ [k]) = true := by
  rw [mem_field_iff]
  refine ⟨g ++ [k] ++ [k'], List.prefix_append _ _, ?_⟩
  rw [hr k (.dict kvs) hm _ (List.prefix_append _ _)]
  show semLeaves (g ++ [k]) kvs (fun _ => none) (g ++ [k] ++ [k']) ≠ none
  rw [semLeaves_value (g ++ [k]) kvs (strictKeys_ne hs) k' d hk]
  simp

/-- `h5py_File_read_dict` on a region that holds a well-formed dictionary returns it -/
theorem readDict_of_region (dec : Bool) {f : File} (hnd : (keys f).Nodup) {g : Path} {o : Obj}
    (hr : Region f g o) {k : String} {kvs : List (String × Option DS)}
    (hm : (k, Item.dict kvs) ∈ o) (hok : dictOK dec kvs = true) :
    readDictG dec f (g ++ [k]) = .ok kvs := by
  obtain ⟨hval, hs⟩ := (dictOK_iff dec kvs).mp hok
  set p := g ++ [k] with hp
  -- every child entry of `p` is one of the dictionary's leaves
  have hchild : ∀ e ∈ childrenOf f p, ∃ k', e.1 = p ++ [k'] ∧ (k', some e.2) ∈ kvs := by
    intro e he
    have he' : e ∈ f ∧ p <+: e.1 := by
      unfold childrenOf at he
      simp only [List.mem_filter, Bool.and_eq_true, isPrefixOf_iff] at he
      exact ⟨he.1, he.2.1⟩
    have hl : lookup f e.1 = some e.2 := lookup_of_mem_nodup f hnd e he'.1
    have hreg := hr k (.dict kvs) hm e.1 he'.2
    rw [hl] at hreg
    have hne : semLeaves p kvs (fun _ => none) e.1 ≠ none := by
      show itemAt g k (.dict kvs) e.1 ≠ none
      rw [← hreg]; simp
    rcases semLeaves_supp p kvs e.1 _ hne with h0 | h0
    · exact absurd rfl h0
    · obtain ⟨k', d, hmem, hq⟩ := (mem_leafPathsL p kvs e.1).mp h0
      refine ⟨k', hq, ?_⟩
      have hv := semLeaves_value p kvs (strictKeys_ne hs) k' d hmem (fun _ => none)
      have : some e.2 = some d := by
        rw [hreg]
        show semLeaves p kvs (fun _ => none) e.1 = some d
        rw [hq]; exact hv
      rw [Option.some.inj this]
      exact hmem
  -- so the member reads succeed and give members of the dictionary
  let ψ : Path × DS → String × Option DS := fun e => ((e.1.drop p.length).headD "", some e.2)
  have hentry : ∀ e ∈ childrenOf f p, dictEntry dec p e = .ok (ψ e) := by
    intro e he
    obtain ⟨k', h1, h2⟩ := hchild e he
    obtain ⟨d, hd, hst⟩ := hval (k', some e.2) h2
    have hd' : d = e.2 := (Option.some.inj hd).symm
    subst hd'
    unfold dictEntry
    simp only [ψ]
    rw [h1]
    simp [hst]
    rfl
  have hmap : (childrenOf f p).mapM (dictEntry dec p) = .ok ((childrenOf f p).map ψ) :=
    mapM_ok _ ψ _ hentry
  have hψ : ∀ e ∈ childrenOf f p, ∀ k', e.1 = p ++ [k'] → ψ e = (k', some e.2) := by
    intro e _ k' h1
    simp only [ψ]
    rw [h1]; simp
  -- the list of members is a permutation of the dictionary
  have hperm : ((childrenOf f p).map ψ).Perm kvs := by
    have hfn : f.Nodup := List.Nodup.of_map Prod.fst hnd
    have hcn : (childrenOf f p).Nodup := List.Nodup.filter _ hfn
    have hLn : ((childrenOf f p).map ψ).Nodup := by
      apply List.Nodup.map_on _ hcn
      intro x hx y hy hxy
      obtain ⟨kx, h1, _⟩ := hchild x hx
      obtain ⟨ky, h2, _⟩ := hchild y hy
      rw [hψ x hx kx h1, hψ y hy ky h2] at hxy
      have hk : kx = ky := congrArg Prod.fst hxy
      have hv : x.2 = y.2 := Option.some.inj (congrArg Prod.snd hxy)
      exact Prod.ext (by rw [h1, h2, hk]) hv
    have hKn : kvs.Nodup := (strictKeys_ne hs).imp (fun {a b} hab heq => hab (by rw [heq]))
    rw [List.perm_ext_iff_of_nodup hLn hKn]
    intro a
    constructor
    · intro ha
      obtain ⟨e, he, rfl⟩ := List.mem_map.mp ha
      obtain ⟨k', h1, h2⟩ := hchild e he
      rw [hψ e he k' h1]; exact h2
    · intro ha
      obtain ⟨d, hd, _⟩ := hval a ha
      have ha' : (a.1, some d) ∈ kvs := by rw [← hd]; exact ha
      have hv := semLeaves_value p kvs (strictKeys_ne hs) a.1 d ha' (fun _ => none)
      have hl : lookup f (p ++ [a.1]) = some d := by
        rw [hr k (.dict kvs) hm _ (List.prefix_append _ _)]; exact hv
      have hin : (p ++ [a.1], d) ∈ childrenOf f p := by
        unfold childrenOf
        simp only [List.mem_filter, Bool.and_eq_true, isPrefixOf_iff]
        exact ⟨lookup_some_mem f _ d hl, List.prefix_append _ _, by simp⟩
      refine List.mem_map.mpr ⟨_, hin, ?_⟩
      rw [hψ _ hin a.1 rfl]
      exact Prod.ext rfl hd.symm
  unfold readDictG
  rw [hmap]
  show Except.ok (sortKeys ((childrenOf f p).map ψ)) = Except.ok kvs
  rw [mergeSort_eq_of_perm _ kvs hperm hs]

/-! ### the whole object -/

theorem stable_data {dec : Bool} {fd : Field} {d : DS} (h : stable dec fd (.data d) = true) :
    fd.reader ≠ .dict ∧ applyReader fd.reader d = .ok d := by
  unfold stable at h
  rw [Bool.and_eq_true] at h
  refine ⟨by simpa using h.1, ?_⟩
  have h2 := h.2
  cases hr : applyReader fd.reader d with
  | error e => rw [hr] at h2; simp at h2
  | ok d' => rw [hr] at h2; simp at h2; rw [h2]

theorem readOne_data (dec : Bool) {f : File} {p : Path} {r : Reader} {d : DS}
    (hl : lookup f p = some d) (hr : r ≠ .dict) (ha : applyReader r d = .ok d) :
    readOne dec f p r = .ok (.data d) := by
  cases r with
  | dict => exact absurd rfl hr
  | raw => simp only [readOne, hl, ha]; rfl
  | int8 => simp only [readOne, hl, ha]; rfl
  | int64 => simp only [readOne, hl, ha]; rfl
  | utf8arr => simp only [readOne, hl, ha]; rfl
  | scalarInt => simp only [readOne, hl, ha]; rfl
  | utf8 => simp only [readOne, hl, ha]; rfl

/-- reading one field of a conforming object out of a region that holds the object -/
theorem readField_of_region (dec : Bool) {f : File} (hnd : (keys f).Nodup) {g : Path} {o : Obj}
    (hr : Region f g o) (fd : Field) (it : Item) (hm : (fd.key, it) ∈ o)
    (hst : stable dec fd it = true) :
    readField dec f g fd = .ok (norm it) := by
  unfold readField
  cases it with
  | bad => simp [stable] at hst
  | none =>
    have hreq : fd.required = false := by simpa [stable] using hst
    rw [hreq, mem_of_region_none hr hm]
    rfl
  | data d =>
    obtain ⟨h1, h2⟩ := stable_data hst
    rw [mem_of_region_data hr hm, Bool.or_true, if_pos rfl]
    exact readOne_data dec (lookup_of_region_data hr hm) h1 h2
  | dict kvs =>
    have h := hst
    unfold stable at h
    simp only [Bool.and_eq_true, beq_iff_eq, Bool.not_eq_true'] at h
    obtain ⟨⟨hrd, hreq⟩, hok⟩ := h
    rw [hreq, Bool.false_or]
    cases kvs with
    | nil =>
      rw [mem_of_region_emptyDict hr hm]
      rfl
    | cons kv r =>
      obtain ⟨hval, hs⟩ := (dictOK_iff dec (kv :: r)).mp hok
      obtain ⟨d, hd, _⟩ := hval kv List.mem_cons_self
      have hk : (kv.1, some d) ∈ kv :: r := by rw [← hd]; exact List.mem_cons_self
      rw [mem_of_region_dict hr hm hs hk, if_pos rfl, hrd]
      show (do let kvs ← readDictG dec f (g ++ [fd.key]); pure (Item.dict kvs)) = _
      rw [readDict_of_region dec hnd hr hm hok]
      rfl

theorem readFields_of_region (dec : Bool) {f : File} (hnd : (keys f).Nodup) {g : Path} {o : Obj}
    (hr : Region f g o) :
    ∀ (fields : List Field) (its : List (String × Item)),
      List.Forall₂ (fun fd kv => fd.key = kv.1 ∧ kv ∈ o ∧ stable dec fd kv.2 = true) fields its →
      readFields dec f g fields = .ok (normObj its) := by
  intro fields its h
  induction h with
  | nil => rfl
  | @cons fd kv fields its hhd _ ih =>
    obtain ⟨hk, hmem, hst⟩ := hhd
    have hm : (fd.key, kv.2) ∈ o := by rw [hk]; exact hmem
    show (do let it ← readField dec f g fd; let tl ← readFields dec f g fields; pure ((fd.key, it) :: tl)) = _
    rw [readField_of_region dec hnd hr fd kv.2 hm hst, ih]
    show Except.ok ((fd.key, norm kv.2) :: normObj its) = Except.ok (normObj (kv :: its))
    rw [hk]; rfl

theorem required_ok (dec : Bool) {f : File} {g : Path} {o : Obj} (hr : Region f g o) :
    ∀ (fields : List Field) (its : List (String × Item)),
      List.Forall₂ (fun fd kv => fd.key = kv.1 ∧ kv ∈ o ∧ stable dec fd kv.2 = true) fields its →
      checkRequired f g fields = .ok () := by
  intro fields its h
  induction h with
  | nil => rfl
  | @cons fd kv fields its hhd _ ih =>
    obtain ⟨hk, hmem, hst⟩ := hhd
    have hm : (fd.key, kv.2) ∈ o := by rw [hk]; exact hmem
    have hc : (!fd.required || mem f (g ++ [fd.key])) = true := by
      cases hreq : fd.required with
      | false => rfl
      | true =>
        cases hit : kv.2 with
        | bad => rw [hit] at hst; simp [stable] at hst
        | none => rw [hit] at hst; simp [stable, hreq] at hst
        | dict kvs => rw [hit] at hst; simp [stable, hreq] at hst
        | data d => rw [hit] at hm; simp [mem_of_region_data hr hm]
    show (do chk (!fd.required || mem f (g ++ [fd.key])) Err.missing; checkRequired f g fields) = _
    rw [hc]
    exact ih

theorem forall₂_of_conforms (dec : Bool) (sch : Schema) (o : Obj) (h : conformsG dec sch o = true) :
    List.Forall₂ (fun fd kv => fd.key = kv.1 ∧ kv ∈ o ∧ stable dec fd kv.2 = true) sch.fields o := by
  unfold conformsG at h
  rw [Bool.and_eq_true, beq_iff_eq, List.all_eq_true] at h
  obtain ⟨hk, hst⟩ := h
  have hlen : sch.fields.length = o.length := by
    have := congrArg List.length hk
    simpa using this.symm
  rw [List.forall₂_iff_get]
  refine ⟨hlen, fun i h1 h2 => ⟨?_, List.getElem_mem h2, ?_⟩⟩
  · have := congrArg (fun l => l[i]?) hk
    simp only [List.getElem?_map, List.getElem?_eq_getElem h2, List.getElem?_eq_getElem h1,
      Option.map_some] at this
    exact (Option.some.inj this).symm
  · apply hst
    rw [List.mem_iff_getElem]
    have hlt : i < (List.zipWith (stable dec) sch.fields (o.map Prod.snd)).length := by
      simp [List.length_zipWith, h1, h2]
    refine ⟨i, hlt, ?_⟩
    rw [List.getElem_zipWith, List.getElem_map]
    rfl

/-- **Reading back.**  If the file region at `g` holds exactly a conforming object `o`, the reading
    half of `from_hdf5` returns `o` (an empty dictionary being read as "absent"). -/
theorem readRaw_of_region (dec : Bool) (sch : Schema) {f : File} (hnd : (keys f).Nodup) {g : Path}
    {o : Obj} (hr : Region f g o) (hc : conformsG dec sch o = true) :
    readRaw dec sch f g = .ok (normObj o) := by
  have h2 := forall₂_of_conforms dec sch o hc
  unfold readRaw
  rw [required_ok dec hr sch.fields o h2]
  exact readFields_of_region dec hnd hr sch.fields o h2

end Store
