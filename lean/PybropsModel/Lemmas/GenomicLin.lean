/-
Helper lemmas for C04, linear part: entries of `matMul` / `gebvMat`, naturality in the taxa axis
(`Np.take`), marker partitions (`hcat` / `++`), phase sums, and the shift invariance of the
population variance.
-/
import Mathlib.Tactic
import Mathlib.Algebra.BigOperators.Ring.Finset
import PybropsModel.Model.GenomicModel
set_option autoImplicit false
set_option linter.unusedSectionVars false
set_option linter.unusedSimpArgs false
set_option linter.unusedVariables false

namespace GLin
open GMod

/-! ### `Np.take` is natural -/

theorem take_map {β γ : Type} (f : β → γ) (is : List ℕ) (l : List β) :
    Np.take is (l.map f) = (Np.take is l).map f := by
  unfold Np.take
  induction is with
  | nil => rfl
  | cons i is ih =>
    simp only [List.filterMap_cons, List.getElem?_map]
    simp only [List.getElem?_map] at ih
    cases h : l[i]? with
    | none => simpa using ih
    | some a => simp [ih]

theorem take_length_of_lt {β : Type} (is : List ℕ) (l : List β) (h : ∀ i ∈ is, i < l.length) :
    (Np.take is l).length = is.length := by
  unfold Np.take
  induction is with
  | nil => rfl
  | cons i is ih =>
    have hi : i < l.length := h i (by simp)
    simp only [List.filterMap_cons, List.getElem?_eq_getElem hi, List.length_cons]
    rw [ih (fun j hj => h j (by simp [hj]))]

theorem take_getElem? {β : Type} (is : List ℕ) (l : List β) (h : ∀ i ∈ is, i < l.length) (k : ℕ) (hk : k < is.length) :
    (Np.take is l)[k]? = l[is[k]]? := by
  unfold Np.take
  induction is generalizing k with
  | nil => simp at hk
  | cons i is ih =>
    have hi : i < l.length := h i (by simp)
    simp only [List.filterMap_cons, List.getElem?_eq_getElem hi]
    cases k with
    | zero => simp [List.getElem?_eq_getElem hi]
    | succ k =>
      simp only [List.getElem?_cons_succ, List.getElem_cons_succ]
      exact ih (fun j hj => h j (by simp [hj])) k (by simpa using hk)

section field
variable {α : Type} [Field α]

/-! ### dot products and matrix products -/

theorem dot_cons (a : α) (as : List α) (b : α) (bs : List α) :
    dot (a :: as) (b :: bs) = a * b + dot as bs := by simp [dot]

theorem dot_append (a1 a2 b1 b2 : List α) (h : a1.length = b1.length) :
    dot (a1 ++ a2) (b1 ++ b2) = dot a1 b1 + dot a2 b2 := by
  unfold dot
  rw [List.zipWith_append h, List.sum_append]

theorem col_append (U1 U2 : List (List α)) (k : ℕ) : col (U1 ++ U2) k = col U1 k ++ col U2 k := by
  simp [col]

theorem col_length (U : List (List α)) (k : ℕ) : (col U k).length = U.length := by simp [col]

/-- entry (i,k) of `Z @ U` is the dot product of row i of Z with column k of U -/
theorem matMul_entry (Z U : List (List α)) (t i k : ℕ) (hi : i < Z.length) (hk : k < t) :
    ((matMul Z U t).getD i []).getD k 0 = dot (Z.getD i []) (col U k) := by
  unfold matMul
  simp [List.getD_eq_getElem?_getD, List.getElem?_map, List.getElem?_eq_getElem hi, List.getElem?_range hk]

theorem matMul_length (Z U : List (List α)) (t : ℕ) : (matMul Z U t).length = Z.length := by simp [matMul]

theorem matMul_row_length (Z U : List (List α)) (t : ℕ) : ∀ r ∈ matMul Z U t, r.length = t := by
  intro r hr
  simp only [matMul, List.mem_map] at hr
  obtain ⟨z, _, rfl⟩ := hr
  simp

/-- selecting / permuting taxa commutes with the matrix product -/
theorem matMul_take (is : List ℕ) (Z U : List (List α)) (t : ℕ) :
    matMul (Np.take is Z) U t = Np.take is (matMul Z U t) := by
  unfold matMul
  rw [take_map]

theorem gebvMat_take (is : List ℕ) (beta u Z : List (List α)) (t : ℕ) :
    gebvMat beta u (Np.take is Z) t = Np.take is (gebvMat beta u Z t) := by
  unfold gebvMat
  rw [matMul_take, take_map]

theorem castM_take (is : List ℕ) (A : List (List Int)) :
    (castM (Np.take is A) : List (List α)) = Np.take is (castM A) := by
  unfold castM
  rw [take_map]

theorem predictNumpy_take (is : List ℕ) (beta u X Z : List (List α)) (t : ℕ)
    (hX : ∀ i ∈ is, i < X.length) (hZ : ∀ i ∈ is, i < Z.length) :
    predictNumpy beta u (Np.take is X) (Np.take is Z) t = Np.take is (predictNumpy beta u X Z t) := by
  unfold predictNumpy madd
  rw [matMul_take, matMul_take]
  -- take commutes with zipWith when both operands are long enough
  apply List.ext_getElem?
  intro k
  have hl1 : ∀ i ∈ is, i < (matMul X beta t).length := by simpa [matMul_length] using hX
  have hl2 : ∀ i ∈ is, i < (matMul Z u t).length := by simpa [matMul_length] using hZ
  have hl3 : ∀ i ∈ is, i < (List.zipWith vadd (matMul X beta t) (matMul Z u t)).length := by
    intro i hi; simp [matMul_length]; exact ⟨hX i hi, hZ i hi⟩
  by_cases hk : k < is.length
  · rw [take_getElem? is _ hl3 k hk, List.getElem?_zipWith, List.getElem?_zipWith,
        take_getElem? is _ hl1 k hk, take_getElem? is _ hl2 k hk]
  · have h1 : (Np.take is (matMul X beta t)).length = is.length := take_length_of_lt _ _ hl1
    have h2 : (Np.take is (matMul Z u t)).length = is.length := take_length_of_lt _ _ hl2
    have h3 := take_length_of_lt is _ hl3
    rw [List.getElem?_eq_none (by simp [h1, h2]; omega), List.getElem?_eq_none (by rw [h3]; omega)]

/-! ### heterozygosity design -/

def hetRowGM (ploidy : Int) (r : List Int) : List Int := r.map (fun a => if a ≠ 0 ∧ a ≠ ploidy then 1 else 0)

theorem hcat_map {β : Type} (A : List (List β)) (g : List β → List β) :
    hcat A (A.map g) = A.map (fun r => r ++ g r) := by
  unfold hcat
  induction A with
  | nil => rfl
  | cons a as ih => simp [ih]

theorem hcat_hetGM (ploidy : Int) (A : List (List Int)) :
    hcat A (hetGM ploidy A) = A.map (fun r => r ++ hetRowGM ploidy r) := by
  unfold hetGM
  exact hcat_map A (hetRowGM ploidy)

theorem gegvGM_take (is : List ℕ) (beta ua ud : List (List α)) (t : ℕ) (ploidy : Int) (A : List (List Int)) :
    gegvGM beta ua ud t ploidy (Np.take is A) = Np.take is (gegvGM beta ua ud t ploidy A) := by
  unfold gegvGM
  rw [hcat_hetGM, hcat_hetGM, ← take_map, castM_take, gebvMat_take]

/-! ### marker partitions -/

theorem vadd_length (a b : List α) (h : a.length = b.length) : (vadd a b).length = a.length := by
  simp [vadd, h]

/-- `[Z₁ | Z₂] @ [U₁ ; U₂] = Z₁ @ U₁ + Z₂ @ U₂` when the rows of `Z₁` are as long as `U₁` -/
theorem matMul_hcat (Z1 Z2 U1 U2 : List (List α)) (t : ℕ) (hlen : Z1.length = Z2.length)
    (hrow : ∀ r ∈ Z1, r.length = U1.length) :
    matMul (hcat Z1 Z2) (U1 ++ U2) t = madd (matMul Z1 U1 t) (matMul Z2 U2 t) := by
  unfold matMul hcat madd
  induction Z1 generalizing Z2 with
  | nil => simp
  | cons z1 zs ih =>
    cases Z2 with
    | nil => simp at hlen
    | cons z2 zs2 =>
      simp only [List.zipWith_cons_cons, List.map_cons]
      congr 1
      · unfold vadd
        apply List.ext_getElem?
        intro k
        by_cases hk : k < t
        · simp only [List.getElem?_map, List.getElem?_range hk, Option.map_some, List.getElem?_zipWith]
          rw [col_append, dot_append _ _ _ _ (by rw [col_length]; exact hrow z1 (by simp))]
        · simp [List.getElem?_eq_none, Nat.le_of_not_lt hk]
      · exact ih zs2 (by simpa using hlen) (fun r hr => hrow r (by simp [hr]))

theorem vadd_assoc_right (a b c : List α) : vadd (vadd a b) c = vadd a (vadd b c) := by
  unfold vadd
  apply List.ext_getElem?
  intro k
  simp only [List.getElem?_zipWith]
  cases a[k]? <;> cases b[k]? <;> cases c[k]? <;> simp [add_assoc]

theorem vadd_comm (a b : List α) : vadd a b = vadd b a := by
  unfold vadd
  apply List.ext_getElem?
  intro k
  simp only [List.getElem?_zipWith]
  cases a[k]? <;> cases b[k]? <;> simp [add_comm]

/-- the intercept is added once: GEBV of the whole = GEBV of block 1 (with intercept) + `Z₂ @ U₂` -/
theorem gebvMat_hcat (beta Z1 Z2 U1 U2 : List (List α)) (t : ℕ) (hlen : Z1.length = Z2.length)
    (hrow : ∀ r ∈ Z1, r.length = U1.length) :
    gebvMat beta (U1 ++ U2) (hcat Z1 Z2) t = madd (gebvMat beta U1 Z1 t) (matMul Z2 U2 t) := by
  unfold gebvMat
  rw [matMul_hcat Z1 Z2 U1 U2 t hlen hrow]
  unfold madd
  apply List.ext_getElem?
  intro i
  simp only [List.getElem?_map, List.getElem?_zipWith]
  cases (matMul Z1 U1 t)[i]? <;> cases (matMul Z2 U2 t)[i]? <;> simp
  rename_i a b
  rw [vadd_assoc_right, vadd_comm b, ← vadd_assoc_right]

/-! ### any number of marker blocks -/

/-- `[Z₁ | Z₂ | … ]` for matrices of `n` rows -/
def hcatAll (n : ℕ) : List (List (List α)) → List (List α)
  | [] => List.replicate n []
  | Z :: Zs => hcat Z (hcatAll n Zs)

/-- `Z₁ @ U₁ + Z₂ @ U₂ + …` (an `n × t` matrix) -/
def blockSum (n t : ℕ) : List (List (List α) × List (List α)) → List (List α)
  | [] => List.replicate n (List.replicate t 0)
  | b :: bs => madd (matMul b.1 b.2 t) (blockSum n t bs)

theorem hcatAll_length (n : ℕ) (Zs : List (List (List α))) (h : ∀ Z ∈ Zs, Z.length = n) :
    (hcatAll n Zs).length = n := by
  induction Zs with
  | nil => simp [hcatAll]
  | cons Z Zs ih =>
    simp only [hcatAll, hcat, List.length_zipWith]
    rw [h Z (by simp), ih (fun Z' hZ' => h Z' (by simp [hZ'])), min_self]

theorem dot_nil (b : List α) : dot ([] : List α) b = 0 := by simp [dot]

theorem matMul_empty (n t : ℕ) :
    matMul (List.replicate n ([] : List α)) ([] : List (List α)) t = List.replicate n (List.replicate t 0) := by
  unfold matMul
  rw [List.map_replicate]
  congr 1
  apply List.ext_getElem
  · simp
  · intro k h1 h2
    simp [dot_nil]

/-- **marker partition into any number of blocks**: with `Z = [Z₁ | … | Z_m]` and
    `u = [u₁ ; … ; u_m]`, `Z @ u = Σ_c Z_c @ u_c` -/
theorem matMul_blocks (n t : ℕ) (blocks : List (List (List α) × List (List α)))
    (h : ∀ b ∈ blocks, b.1.length = n ∧ ∀ r ∈ b.1, r.length = b.2.length) :
    matMul (hcatAll n (blocks.map Prod.fst)) (blocks.map Prod.snd).flatten t = blockSum n t blocks := by
  induction blocks with
  | nil => simp [hcatAll, blockSum, matMul_empty]
  | cons b bs ih =>
    have hb := h b (by simp)
    simp only [List.map_cons, hcatAll, List.flatten_cons, blockSum]
    rw [matMul_hcat b.1 _ b.2 _ t
          (by rw [hb.1, hcatAll_length n _ (by
                intro Z hZ
                obtain ⟨b', hb', rfl⟩ := List.mem_map.mp hZ
                exact (h b' (by simp [hb'])).1)])
          hb.2,
        ih (fun b' hb' => h b' (by simp [hb']))]

/-! ### casting commutes with the block structure -/

theorem castM_hcat (A D : List (List Int)) : (castM (hcat A D) : List (List α)) = hcat (castM A) (castM D) := by
  unfold castM hcat
  induction A generalizing D with
  | nil => simp
  | cons a as ih =>
    cases D with
    | nil => simp
    | cons d ds => simp [ih]

end field

/-! ### phase sums -/

theorem iadd_entry (A B : List (List Int)) (n p i j : ℕ)
    (hA : A.length = n ∧ ∀ r ∈ A, r.length = p) (hB : B.length = n ∧ ∀ r ∈ B, r.length = p)
    (hi : i < n) (hj : j < p) :
    ((iadd A B).getD i []).getD j 0 = (A.getD i []).getD j 0 + (B.getD i []).getD j 0 := by
  have hiA : i < A.length := by omega
  have hiB : i < B.length := by omega
  have hjA : j < (A[i]).length := by rw [hA.2 _ (List.getElem_mem hiA)]; exact hj
  have hjB : j < (B[i]).length := by rw [hB.2 _ (List.getElem_mem hiB)]; exact hj
  unfold iadd
  simp [List.getD_eq_getElem?_getD, List.getElem?_zipWith, List.getElem?_eq_getElem hiA,
    List.getElem?_eq_getElem hiB, List.getElem?_eq_getElem hjA, List.getElem?_eq_getElem hjB]

theorem iadd_shape (A B : List (List Int)) (n p : ℕ)
    (hA : A.length = n ∧ ∀ r ∈ A, r.length = p) (hB : B.length = n ∧ ∀ r ∈ B, r.length = p) :
    (iadd A B).length = n ∧ ∀ r ∈ iadd A B, r.length = p := by
  unfold iadd
  refine ⟨by simp [hA.1, hB.1], ?_⟩
  intro r hr
  obtain ⟨k, hk, rfl⟩ := List.mem_iff_getElem.mp hr
  simp only [List.length_zipWith, hA.1, hB.1, min_self] at hk
  simp only [List.getElem_zipWith, List.length_zipWith]
  rw [hA.2 _ (List.getElem_mem _), hB.2 _ (List.getElem_mem _)]
  simp

theorem foldl_iadd_entry (gs : List (List (List Int))) (acc : List (List Int)) (n p i j : ℕ)
    (hacc : acc.length = n ∧ ∀ r ∈ acc, r.length = p)
    (hgs : ∀ g ∈ gs, g.length = n ∧ ∀ r ∈ g, r.length = p) (hi : i < n) (hj : j < p) :
    ((gs.foldl iadd acc).getD i []).getD j 0
      = (acc.getD i []).getD j 0 + (gs.map (fun g => (g.getD i []).getD j 0)).sum := by
  induction gs generalizing acc with
  | nil => simp
  | cons g gs ih =>
    have hg := hgs g (by simp)
    simp only [List.foldl_cons, List.map_cons, List.sum_cons]
    rw [ih (iadd acc g) (iadd_shape acc g n p hacc hg) (fun g' hg' => hgs g' (by simp [hg'])),
        iadd_entry acc g n p i j hacc hg hi hj]
    ring

/-- **dosage = number of phases carrying the counted allele** -/
theorem phaseSum_entry (g : List (List (List Int))) (n p i j : ℕ)
    (hg : ∀ ph ∈ g, ph.length = n ∧ ∀ r ∈ ph, r.length = p) (hi : i < n) (hj : j < p) :
    ((phaseSum g).getD i []).getD j 0 = (g.map (fun ph => (ph.getD i []).getD j 0)).sum := by
  cases g with
  | nil => simp [phaseSum]
  | cons g0 gs =>
    unfold phaseSum
    rw [foldl_iadd_entry gs g0 n p i j (hg g0 (by simp)) (fun g' hg' => hg g' (by simp [hg'])) hi hj]
    simp

/-! ### population variance -/

section var
variable {α : Type} [Field α] [LinearOrder α] [IsStrictOrderedRing α]

theorem sum_map_add_const (l : List α) (c : α) : (l.map (· + c)).sum = l.sum + (l.length : α) * c := by
  induction l with
  | nil => simp
  | cons a as ih => simp [ih]; ring

theorem mean_shift (l : List α) (c : α) (hl : l ≠ []) : mean (l.map (· + c)) = mean l + c := by
  unfold mean
  have hn : (l.length : α) ≠ 0 := by
    have : l.length ≠ 0 := by simpa [List.length_eq_zero_iff] using hl
    exact_mod_cast this
  rw [sum_map_add_const, List.length_map]
  field_simp

/-- the population variance does not see a common shift (the intercept) -/
theorem var_shift (l : List α) (c : α) : var (l.map (· + c)) = var l := by
  by_cases hl : l = []
  · subst hl; rfl
  · unfold var
    dsimp only
    rw [mean_shift l c hl, List.map_map]
    congr 1
    apply List.map_congr_left
    intro x _
    simp only [Function.comp]
    ring

theorem var_nonneg (l : List α) : 0 ≤ var l := by
  unfold var
  dsimp only
  unfold mean
  apply div_nonneg
  · apply List.sum_nonneg
    intro x hx
    obtain ⟨y, _, rfl⟩ := List.mem_map.mp hx
    exact mul_self_nonneg _
  · exact Nat.cast_nonneg _

theorem col_map_vadd (M : List (List α)) (loc : List α) (t k : ℕ) (hk : k < t)
    (hM : ∀ r ∈ M, r.length = t) (hloc : loc.length = t) :
    col (M.map (fun r => vadd r loc)) k = (col M k).map (· + loc.getD k 0) := by
  unfold col
  rw [List.map_map, List.map_map]
  apply List.map_congr_left
  intro r hr
  have h1 : k < r.length := by rw [hM r hr]; exact hk
  have h2 : k < loc.length := by rw [hloc]; exact hk
  simp [vadd, List.getD_eq_getElem?_getD, List.getElem?_zipWith, List.getElem?_eq_getElem h1,
    List.getElem?_eq_getElem h2]

theorem location_length (beta : List (List α)) (t : ℕ) : (location beta t).length = t := by
  simp [location]

/-- variance of the reported GEBVs (with intercept) = `var_A` as the code computes it (without) -/
theorem varCols_gebvMat (beta ua Z : List (List α)) (t : ℕ) :
    varCols (gebvMat beta ua Z t) t = varA ua Z t := by
  unfold varCols varA varCols gebvMat
  apply List.map_congr_left
  intro k hk
  have hk' : k < t := List.mem_range.mp hk
  rw [col_map_vadd (matMul Z ua t) (location beta t) t k hk' (GLin.matMul_row_length Z ua t)
        (location_length beta t), var_shift]

end var

end GLin
