/-
Helper lemmas for C20: heap transformations with a footprint (`Step roots h h'`: only objects
reachable from `roots` change, new references point to such objects or to new cells) compose — the
building block for showing that concrete operator families satisfy `Footprint`.
-/
import PybropsModel.Lemmas.ProgramCalls
set_option autoImplicit false
set_option linter.unusedSectionVars false
set_option linter.unusedVariables false

namespace Program
section
variable {V : Type}

/-- `x` is reachable from one of the roots in `h`, or is beyond `h` (a cell allocated later) -/
def InFoot (roots : List Ref) (h : Heap (Cell V)) (x : Ref) : Prop :=
  (∃ a ∈ roots, Reach h a x) ∨ h.length ≤ x

/-- a heap transformation whose footprint is what is reachable from `roots` -/
structure Step (roots : List Ref) (h h' : Heap (Cell V)) : Prop where
  le : h.length ≤ h'.length
  wf : WFH h'
  same : ∀ x, x < h.length → (∀ a ∈ roots, ¬ Reach h a x) → h'[x]? = h[x]?
  refs : ∀ (x : Nat) (c : Cell V), h'[x]? = some c → h[x]? = some c ∨ ∀ r ∈ c.refs, InFoot roots h r

theorem Step.refl (roots : List Ref) {h : Heap (Cell V)} (wf : WFH h) : Step roots h h :=
  ⟨le_refl _, wf, fun _ _ _ => rfl, fun _ _ hc => Or.inl hc⟩

theorem InFoot.of_root {roots : List Ref} {h : Heap (Cell V)} {a : Ref} (ha : a ∈ roots) : InFoot roots h a :=
  Or.inl ⟨a, ha, .refl a⟩

/-- the footprint is closed under following references of the NEW heap -/
theorem Step.closed {roots : List Ref} {h h' : Heap (Cell V)} (st : Step roots h h') {y x : Ref}
    (hy : InFoot roots h y) (hr : Reach h' y x) : InFoot roots h x := by
  induction hr with
  | refl => exact hy
  | @step a c r b hc hr _ ih =>
    apply ih
    rcases st.refs a c hc with hold | hnew
    · rcases hy with ⟨a', ha', hreach⟩ | hge
      · exact Or.inl ⟨a', ha', hreach.snoc hold hr⟩
      · have : a < h.length := (List.getElem?_eq_some_iff.mp hold).1
        exact absurd this (not_lt.mpr hge)
    · exact hnew r hr

theorem InFoot.mono {roots : List Ref} {h h' : Heap (Cell V)} (st : Step roots h h') {x : Ref}
    (hx : InFoot roots h' x) : InFoot roots h x := by
  rcases hx with ⟨a, ha, hr⟩ | hge
  · exact st.closed (InFoot.of_root ha) hr
  · exact Or.inr (le_trans st.le hge)

/-- steps with the same roots compose -/
theorem Step.trans {roots : List Ref} {h h1 h2 : Heap (Cell V)} (s1 : Step roots h h1) (s2 : Step roots h1 h2) :
    Step roots h h2 := by
  refine ⟨le_trans s1.le s2.le, s2.wf, ?_, ?_⟩
  · intro x hx hnr
    have h1x : h1[x]? = h[x]? := s1.same x hx hnr
    have hnr1 : ∀ a ∈ roots, ¬ Reach h1 a x := by
      intro a ha hr
      rcases s1.closed (InFoot.of_root ha) hr with ⟨a', ha', hr'⟩ | hge
      · exact hnr a' ha' hr'
      · exact absurd hx (not_lt.mpr hge)
    rw [s2.same x (lt_of_lt_of_le hx s1.le) hnr1, h1x]
  · intro x c hc
    rcases s2.refs x c hc with hold | hnew
    · exact s1.refs x c hold
    · exact Or.inr (fun r hr => InFoot.mono s1 (hnew r hr))

/-- bigger root sets allow more -/
theorem Step.weaken {roots roots' : List Ref} {h h' : Heap (Cell V)} (st : Step roots h h')
    (hsub : ∀ a ∈ roots, a ∈ roots') : Step roots' h h' := by
  refine ⟨st.le, st.wf, fun x hx hnr => st.same x hx (fun a ha => hnr a (hsub a ha)), ?_⟩
  intro x c hc
  rcases st.refs x c hc with hold | hnew
  · exact Or.inl hold
  · right
    intro r hr
    rcases hnew r hr with ⟨a, ha, hreach⟩ | hge
    · exact Or.inl ⟨a, hsub a ha, hreach⟩
    · exact Or.inr hge

/-- overwriting the data of one cell in the footprint -/
theorem Step.setData {roots : List Ref} {h : Heap (Cell V)} (wf : WFH h) {t : Ref} {c : Cell V} (hc : h[t]? = some c)
    (ht : ∃ a ∈ roots, Reach h a t) (d : V) : Step roots h (h.set t { c with data := d }) := by
  have hlt : t < h.length := (List.getElem?_eq_some_iff.mp hc).1
  refine ⟨by simp, ?_, ?_, ?_⟩
  · intro a c' hc' r hr
    rw [List.length_set]
    by_cases e : a = t
    · subst e
      rw [List.getElem?_set_self hlt] at hc'
      cases hc'
      exact wf a c hc r hr
    · rw [List.getElem?_set_ne (Ne.symm e)] at hc'
      exact wf a c' hc' r hr
  · intro x _ hnr
    obtain ⟨a, ha, hr⟩ := ht
    have : x ≠ t := fun e => hnr a ha (e ▸ hr)
    rw [List.getElem?_set_ne (Ne.symm this)]
  · intro x c' hc'
    by_cases e : x = t
    · subst e
      rw [List.getElem?_set_self hlt] at hc'
      cases hc'
      right
      intro r hr
      obtain ⟨a, ha, hreach⟩ := ht
      exact Or.inl ⟨a, ha, hreach.snoc hc hr⟩
    · rw [List.getElem?_set_ne (Ne.symm e)] at hc'
      exact Or.inl hc'

/-- appending cells that refer only to the footprint or to new cells -/
theorem Step.alloc {roots : List Ref} {h : Heap (Cell V)} (wf : WFH h) (ext : Heap (Cell V))
    (hext : ∀ c ∈ ext, ∀ r ∈ c.refs, r < h.length + ext.length ∧ InFoot roots h r) : Step roots h (h ++ ext) := by
  refine ⟨by simp, wf.append ext (fun c hc r hr => (hext c hc r hr).1), ?_, ?_⟩
  · intro x hx _
    exact List.getElem?_append_left hx
  · intro x c hc
    by_cases hx : x < h.length
    · rw [List.getElem?_append_left hx] at hc; exact Or.inl hc
    · rw [List.getElem?_append_right (not_lt.mp hx)] at hc
      exact Or.inr (fun r hr => (hext c (List.mem_of_getElem? hc) r hr).2)

/-- allocating a cell and making a footprint cell refer to it (and to nothing else) -/
theorem Step.attach {roots : List Ref} {h : Heap (Cell V)} (wf : WFH h) {t : Ref} {c : Cell V} (hc : h[t]? = some c)
    (ht : ∃ a ∈ roots, Reach h a t) (n : Cell V) (hn : n.refs = []) :
    Step roots h ((h ++ [n]).set t { c with refs := [h.length] }) := by
  have hlt : t < h.length := (List.getElem?_eq_some_iff.mp hc).1
  have hlt' : t < (h ++ [n]).length := by
    rw [List.length_append, List.length_singleton]; exact Nat.lt_succ_of_lt hlt
  refine ⟨by simp, ?_, ?_, ?_⟩
  · intro a c' hc' r hr
    rw [List.length_set, List.length_append, List.length_singleton]
    by_cases e : a = t
    · subst e
      rw [List.getElem?_set_self hlt'] at hc'
      cases hc'
      simp only [List.mem_singleton] at hr
      subst hr
      exact Nat.lt_succ_self _
    · rw [List.getElem?_set_ne (Ne.symm e)] at hc'
      by_cases ha : a < h.length
      · rw [List.getElem?_append_left ha] at hc'
        exact Nat.lt_succ_of_lt (wf a c' hc' r hr)
      · rw [List.getElem?_append_right (not_lt.mp ha)] at hc'
        have : c' = n := by
          have := List.mem_of_getElem? hc'
          simpa using this
        subst this
        rw [hn] at hr; simp at hr
  · intro x hx hnr
    obtain ⟨a, ha, hr⟩ := ht
    have : x ≠ t := fun e => hnr a ha (e ▸ hr)
    rw [List.getElem?_set_ne (Ne.symm this), List.getElem?_append_left hx]
  · intro x c' hc'
    by_cases e : x = t
    · subst e
      rw [List.getElem?_set_self hlt'] at hc'
      cases hc'
      right
      intro r hr
      simp only [List.mem_singleton] at hr
      subst hr
      exact Or.inr (le_refl _)
    · rw [List.getElem?_set_ne (Ne.symm e)] at hc'
      by_cases hx : x < h.length
      · rw [List.getElem?_append_left hx] at hc'; exact Or.inl hc'
      · rw [List.getElem?_append_right (not_lt.mp hx)] at hc'
        have : c' = n := by
          have := List.mem_of_getElem? hc'
          simpa using this
        subst this
        right; intro r hr; rw [hn] at hr; simp at hr

/-- reachability from the roots survives a step, for objects that already existed -/
theorem Step.valid_root {roots : List Ref} {h h' : Heap (Cell V)} (st : Step roots h h') {a : Ref}
    (ha : a < h.length) : a < h'.length := lt_of_lt_of_le ha st.le

end
end Program
