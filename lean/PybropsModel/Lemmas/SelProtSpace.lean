/-
Helper lemmas for C07 (round 3): meaning (`_iff`) and soundness of the Bool Spec oracles
`specCover`, `specSpace`, `specArgmax`, `specMateSubset`, `specMateContribution`.
-/
import Mathlib.Tactic
import PybropsModel.Lemmas.XConfigSample
import PybropsModel.Lemmas.XConfigMate
import PybropsModel.Lemmas.XConfigReal
set_option autoImplicit false
set_option linter.unusedSectionVars false

namespace SelProt
open XConfig

/-! ### specCover -/

theorem specCover_iff (cands xmap : List (List Nat)) (space : List Nat) :
    specCover cands xmap space = true ↔
      ∀ t ∈ cands, ∃ d ∈ space, ∃ r, xmap[d]? = some r ∧ r.Perm t := by
  simp only [specCover, List.all_eq_true, List.any_eq_true]
  constructor
  · intro h t ht
    obtain ⟨d, hd, hp⟩ := h t ht
    cases hr : xmap[d]? with
    | none => rw [hr] at hp; cases hp
    | some r =>
      rw [hr] at hp
      exact ⟨d, hd, r, hr, List.isPerm_iff.mp hp⟩
  · intro h t ht
    obtain ⟨d, hd, r, hr, hp⟩ := h t ht
    refine ⟨d, hd, ?_⟩
    rw [hr]
    exact List.isPerm_iff.mpr hp

/-- a decision space that lists every position of the map covers the whole map -/
theorem specCover_self (xmap : List (List Nat)) : specCover xmap xmap (List.range xmap.length) = true := by
  rw [specCover_iff]
  intro t ht
  obtain ⟨d, hd, rfl⟩ := List.mem_iff_getElem.mp ht
  exact ⟨d, List.mem_range.mpr hd, xmap[d], List.getElem?_eq_getElem hd, List.Perm.refl _⟩

/-- a decision space that is a proper prefix of a duplicate-free map does NOT cover it -/
theorem specCover_prefix_false (xmap : List (List Nat)) (m : Nat) (hm : m < xmap.length)
    (hnd : ∀ i j (hi : i < xmap.length) (hj : j < xmap.length), xmap[i].Perm xmap[j] → i = j) :
    specCover xmap xmap (List.range m) = false := by
  rw [Bool.eq_false_iff]
  intro h
  rw [specCover_iff] at h
  obtain ⟨d, hd, r, hr, hp⟩ := h xmap[m] (List.getElem_mem hm)
  have hdm : d < m := List.mem_range.mp hd
  have hdl : d < xmap.length := lt_trans hdm hm
  rw [List.getElem?_eq_getElem hdl] at hr
  cases hr
  have := hnd d m hdl hm hp
  omega

/-! ### specSpace -/

theorem subsetSpace_spec (nopt ndecn : Nat) : specSpace true nopt (subsetSpace nopt ndecn) = true := by
  simp only [specSpace, subsetSpace, List.length_replicate, beq_self_eq_true, Bool.true_and, if_true,
    Bool.and_eq_true, List.all_eq_true]
  refine ⟨?_, ⟨?_, ?_⟩⟩
  · intro b hb
    obtain ⟨i, hi, rfl⟩ := List.mem_iff_getElem.mp hb
    simp
  · intro i hi
    simp [List.count_eq_one_of_mem List.nodup_range hi]
  · intro i hi
    simpa using hi

theorem vectorSpace_spec (nopt ub : Nat) (h : 0 < ub) : specSpace false nopt (vectorSpace nopt ub) = true := by
  simp only [specSpace, vectorSpace, List.length_replicate, beq_self_eq_true, Bool.true_and,
    Bool.and_eq_true, List.all_eq_true]
  refine ⟨?_, ?_⟩
  · intro b hb
    obtain ⟨i, hi, rfl⟩ := List.mem_iff_getElem.mp hb
    simp
  · simp only [Bool.false_eq_true, if_false, List.all_eq_true]
    intro u hu
    rw [List.mem_replicate] at hu
    simpa [hu.2] using h

/-- what a `true` of the decision-space Spec says for the subset encodings: every candidate is listed
    exactly once and nothing else is -/
theorem specSpace_subset_members (nopt : Nat) (s : Space) (h : specSpace true nopt s = true) :
    (∀ i, i < nopt → s.space.count i = 1) ∧ (∀ i ∈ s.space, i < nopt) ∧
      s.lower.length = s.ndecn ∧ s.upper.length = s.ndecn := by
  simp only [specSpace, if_true, Bool.and_eq_true, List.all_eq_true, beq_iff_eq, decide_eq_true_eq,
    List.mem_range] at h
  obtain ⟨⟨⟨h1, h2⟩, _⟩, h4, h5⟩ := h
  exact ⟨h4, h5, h1, h2⟩

/-! ### specArgmax -/

section mo
variable {α : Type} [LinearOrder α] [Mul α]

theorem specArgmax_iff (wt : α) (tvals : List α) (ix : Nat) :
    specArgmax wt tvals ix = true ↔ ∃ t, tvals[ix]? = some t ∧ ∀ u ∈ tvals, wt * u ≤ wt * t := by
  unfold specArgmax
  cases h : tvals[ix]? with
  | none => simp
  | some t =>
    simp only [List.all_eq_true, Bool.not_eq_true', decide_eq_false_iff_not, not_lt, Option.some.injEq,
      exists_eq_left']

end mo

/-! ### mate-selection Specs -/

theorem crossIndex_self (xmap : Rows) (hx : xmap.Nodup) (support : List Nat) (d : Nat)
    (hd : d ∈ support) (hl : d < xmap.length) :
    crossIndex xmap support (xmap.getD d []) = some d := by
  have hrow : xmap.getD d [] = xmap[d] := by simp [hl]
  rw [hrow]
  unfold crossIndex
  induction support with
  | nil => cases hd
  | cons x xs ih =>
    simp only [List.find?_cons]
    by_cases hp : (xmap[x]? == some xmap[d]) = true
    · rw [hp]
      have hxe : xmap[x]? = some xmap[d] := by simpa using hp
      have hxl : x < xmap.length := by
        by_contra hn
        rw [List.getElem?_eq_none (Nat.le_of_not_lt hn)] at hxe
        cases hxe
      rw [List.getElem?_eq_getElem hxl] at hxe
      have := (hx.getElem_inj_iff).mp (Option.some.inj hxe)
      simp [this]
    · have hp' : (xmap[x]? == some xmap[d]) = false := by simpa using hp
      rw [hp']
      rcases List.mem_cons.mp hd with rfl | hd'
      · exfalso
        apply hp
        simp [List.getElem?_eq_getElem hl]
      · exact ih hd'

/-- rows looked up from members of `support` are recognised again, one by one -/
theorem crossIndex_map (xmap : Rows) (hx : xmap.Nodup) (support out : List Nat)
    (h : ∀ d ∈ out, d ∈ support ∧ d < xmap.length) :
    (out.map (fun d => xmap.getD d [])).map (crossIndex xmap support) = out.map some := by
  rw [List.map_map]
  apply List.map_congr_left
  intro d hd
  exact crossIndex_self xmap hx support d (h d hd).1 (h d hd).2

theorem filterMap_id_map_some (l : List Nat) : (l.map some).filterMap id = l := by
  induction l with
  | nil => rfl
  | cons a t ih => simp

theorem shapeOk_lookup (xmap : Rows) (np : Nat) (hr : ∀ r ∈ xmap, r.length = np) (out : List Nat)
    (h : ∀ d ∈ out, d < xmap.length) :
    shapeOk out.length np (out.map (fun d => xmap.getD d [])) = true := by
  rw [shapeOk_iff]
  refine ⟨by simp, ?_⟩
  intro r hrm
  obtain ⟨d, hd, rfl⟩ := List.mem_map.mp hrm
  have hl := h d hd
  have : xmap.getD d [] = xmap[d] := by simp [hl]
  rw [this]
  exact hr _ (List.getElem_mem hl)

/-- soundness of `specMateSubset`: a table of map rows of decision members, used evenly -/
theorem specMateSubset_of (decn : List Nat) (xmap : Rows) (nc np : Nat) (out : List Nat)
    (hx : xmap.Nodup) (hr : ∀ r ∈ xmap, r.length = np) (hlen : out.length = nc)
    (hm : ∀ d ∈ out, d ∈ decn ∧ d < xmap.length)
    (hc : ∀ d ∈ decn, out.count d = nc / decn.length ∨ out.count d = nc / decn.length + 1) :
    specMateSubset decn xmap nc np (out.map (fun d => xmap.getD d [])) = true := by
  simp only [specMateSubset, Bool.and_eq_true]
  rw [crossIndex_map xmap hx decn out hm, filterMap_id_map_some]
  refine ⟨⟨?_, ?_⟩, ?_⟩
  · rw [← hlen]; exact shapeOk_lookup xmap np hr out (fun d hd => (hm d hd).2)
  · simp
  · rw [evenOn_iff]
    intro a ha b hb
    rcases hc a ha with h1 | h1 <;> rcases hc b hb with h2 | h2 <;> omega

/-- soundness of `specMateContribution`: map rows of candidates of positive weight, shares within one -/
theorem specMateContribution_of (w : List Rat) (xmap : Rows) (nc np : Nat) (out : List Nat)
    (hx : xmap.Nodup) (hr : ∀ r ∈ xmap, r.length = np) (hlen : out.length = nc)
    (hm : ∀ d ∈ out, d < xmap.length ∧ d < w.length ∧ 0 < w.getD d 0)
    (hs : withinOne w nc out = true) :
    specMateContribution w xmap nc np (out.map (fun d => xmap.getD d [])) = true := by
  simp only [specMateContribution, Bool.and_eq_true]
  have hsup : ∀ d ∈ out, d ∈ (List.range w.length).filter (fun i => decide (0 < w.getD i 0)) ∧ d < xmap.length := by
    intro d hd
    obtain ⟨h1, h2, h3⟩ := hm d hd
    exact ⟨List.mem_filter.mpr ⟨List.mem_range.mpr h2, by simpa using h3⟩, h1⟩
  rw [crossIndex_map xmap hx _ out hsup, filterMap_id_map_some]
  refine ⟨⟨?_, ?_⟩, hs⟩
  · rw [← hlen]; exact shapeOk_lookup xmap np hr out (fun d hd => (hm d hd).1)
  · simp

/-- the share arithmetic of a 0/1 contribution vector: whole tiles plus a remainder drawn without
    replacement from the selected candidates keep every use count within one of the share -/
theorem withinOne_binary (decn : List Nat) (N : Nat) (flat rem : List Nat)
    (hbin : ∀ d ∈ decn, d ≤ 1) (hS : 0 < decn.sum) (hrl : rem.length = N % decn.sum)
    (hc : ∀ i, flat.count i = N / decn.sum * decn.getD i 0 + rem.count i ∧ rem.count i ≤ decn.getD i 0) :
    withinOne (decn.map (fun (d : Nat) => (d : Rat))) N flat = true := by
  rw [withinOne_cast_iff]
  intro i hi
  obtain ⟨h1, h2⟩ := hc i
  have hd : decn.getD i 0 ≤ 1 := by
    have : decn.getD i 0 = decn[i] := by simp [List.getD_eq_getElem?_getD, List.getElem?_eq_getElem hi]
    rw [this]; exact hbin _ (List.getElem_mem hi)
  have hre : rem.length < decn.sum := by rw [hrl]; exact Nat.mod_lt _ hS
  have hN := Nat.div_add_mod N decn.sum
  have hrc : rem.count i ≤ rem.length := List.count_le_length
  generalize N / decn.sum = q at *
  generalize decn.sum = S at *
  generalize decn.getD i 0 = d at *
  generalize rem.count i = r at *
  generalize flat.count i = c at *
  subst h1
  have hd' : d = 0 ∨ d = 1 := by omega
  rcases hd' with rfl | rfl
  · have : r = 0 := by omega
    subst this
    simp
  · have hr' : r = 0 ∨ r = 1 := by omega
    rcases hr' with rfl | rfl
    · constructor
      · nlinarith
      · nlinarith
    · constructor
      · nlinarith
      · nlinarith

/-- rows of the cross map have `nparent` entries -/
theorem xmapix_row_length (ntaxa nparent : Nat) (unique : Bool) :
    ∀ r ∈ xmapix ntaxa nparent unique, r.length = nparent :=
  fun r hr => ((mem_xmapix ntaxa nparent unique r).mp hr).1

end SelProt
