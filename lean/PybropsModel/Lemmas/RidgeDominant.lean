/-
When is the rrBLUP system `Z'Z + ridge·I` strictly diagonally dominant?  Exactly when, for every
marker j,   Σ_{k≠j} |Σ_i Z_ij Z_ik|  <  Σ_i Z_ij² + ridge.
-/
import PybropsModel.Lemmas.GaussSeidelConv
import PybropsModel.Lemmas.RidgeEnergy
set_option autoImplicit false
set_option linter.unusedSectionVars false
set_option linter.unusedSimpArgs false
set_option linter.unusedVariables false

namespace RidgeDom
open Finset BigOperators GMod RRBlup GSFn GSList GSConv Ridge

variable {α : Type} [Field α] [LinearOrder α] [IsStrictOrderedRing α]

/-- Σ_{k≠j} |(Z'Z)_jk| -/
def offSum (n p : ℕ) (Zf : ℕ → ℕ → α) (j : ℕ) : α :=
  ∑ k ∈ range p, if k ≠ j then |∑ i ∈ range n, Zf i j * Zf i k| else 0

/-- (Z'Z)_jj -/
def diagSq (n : ℕ) (Zf : ℕ → ℕ → α) (j : ℕ) : α := ∑ i ∈ range n, Zf i j * Zf i j

theorem low_add_up (p : ℕ) (A : ℕ → ℕ → α) (j : ℕ) :
    lowSum p A j + upSum p A j = ∑ k ∈ range p, if k ≠ j then |A j k| else 0 := by
  unfold lowSum upSum
  rw [← Finset.sum_add_distrib]
  apply Finset.sum_congr rfl
  intro k _
  rcases Nat.lt_trichotomy k j with h | h | h
  · have h1 : ¬ j < k := by omega
    have h2 : k ≠ j := by omega
    simp [h, h1, h2]
  · subst h; simp
  · have h1 : ¬ k < j := by omega
    have h2 : k ≠ j := by omega
    simp [h, h1, h2]

/-- **`Z'Z + ridge·I` is strictly diagonally dominant iff the ridge exceeds the off-diagonal excess of
    every row** -/
theorem ztz_sdd_iff (Z : List (List α)) (n p : ℕ) (hn : Z.length = n) (ridge : α) :
    SDD p (matFn (ztzPlusRidge Z p ridge)) ↔
      ∀ j, j < p → offSum n p (matFn Z) j < diagSq n (matFn Z) j + ridge := by
  unfold SDD
  apply forall_congr'
  intro j
  apply imp_congr_right
  intro hj
  rw [low_add_up, matFn_ztz Z n p hn ridge j j hj hj]
  have e1 : (∑ k ∈ range p, if k ≠ j then |matFn (ztzPlusRidge Z p ridge) j k| else 0)
      = offSum n p (matFn Z) j := by
    unfold offSum
    apply Finset.sum_congr rfl
    intro k hk
    by_cases h : k = j
    · simp [h]
    · simp only [h, ne_eq, not_false_eq_true, if_true]
      rw [matFn_ztz Z n p hn ridge j k hj (Finset.mem_range.mp hk)]
      unfold Afn
      simp [Ne.symm h]
  have e2 : Afn n (matFn Z) ridge j j = diagSq n (matFn Z) j + ridge := by
    unfold Afn diagSq; simp
  rw [e1, e2]

end RidgeDom
