/-
Helper lemmas for C17: the literal loops of tiled_choice (slice assignments into an uninitialised buffer) and of
outcross_shuffle (in-place exchanges through `xconfig.flat` on a table of any memory layout, exchange back when the
score did not drop) are the functional forms `tiledIdx` / `outcross` the property theorems are stated for.
-/
import PybropsModel.Lemmas.SamplingTiled
import PybropsModel.Lemmas.SamplingOutcross
set_option autoImplicit false
set_option linter.unusedSectionVars false

namespace Sampling

/-! ### tiled_choice -/

theorem tile_succ {β : Type} (q : Nat) (l : List β) : Np.tile (q + 1) l = Np.tile q l ++ l := by
  unfold Np.tile
  rw [List.replicate_succ', List.flatten_append]
  simp

theorem tiledFill_eq (n q : Nat) (init : List Nat) (h : q * n ≤ init.length) :
    tiledFill n q init = Np.tile q (List.range n) ++ init.drop (q * n) := by
  unfold tiledFill
  induction q with
  | zero => simp [Np.tile]
  | succ q ih =>
    have hq : q * n ≤ init.length := le_trans (Nat.mul_le_mul_right n (Nat.le_succ q)) h
    rw [List.range_succ, List.foldl_append, List.foldl_cons, List.foldl_nil, ih hq]
    have hl : (Np.tile q (List.range n)).length = q * n := by rw [tile_length, List.length_range]
    unfold setSlice
    rw [List.take_left' hl, tile_succ, List.length_range, List.drop_append, hl]
    have h1 : q * n + n - q * n = n := by omega
    have h2 : (Np.tile q (List.range n)).drop (q * n + n) = [] := by
      apply List.drop_eq_nil_of_le; omega
    rw [h2, h1, List.nil_append, List.drop_drop, Nat.succ_mul]

/-- **the literal loop of `tiled_choice` is the functional form**, whatever `numpy.empty` left in the buffer -/
theorem tiledLoopIdx_eq (noption nsample : Nat) (draw perm init : List Nat) (hi : init.length = nsample) :
    tiledLoopIdx noption nsample draw perm init = tiledIdx noption nsample false draw perm := by
  unfold tiledLoopIdx tiledIdx
  simp only [Bool.false_eq_true, if_false]
  split_ifs with h0 h1 h2
  · rfl
  · congr 2
    have hq : nsample / noption * noption ≤ init.length := by rw [hi]; exact Nat.div_mul_le_self _ _
    rw [tiledFill_eq noption (nsample / noption) init hq]
    have hl : (Np.tile (nsample / noption) (List.range noption)).length = nsample / noption * noption := by
      rw [tile_length, List.length_range]
    unfold setSlice
    rw [List.take_left' hl, List.drop_append, hl]
    have h3 : (Np.tile (nsample / noption) (List.range noption)).drop (nsample / noption * noption + draw.length) = [] := by
      apply List.drop_eq_nil_of_le; omega
    have h4 : (init.drop (nsample / noption * noption)).drop
        (nsample / noption * noption + draw.length - nsample / noption * noption) = [] := by
      apply List.drop_eq_nil_of_le
      rw [List.length_drop, hi, h1.1]
      have := Nat.div_add_mod' nsample noption
      omega
    rw [h3, h4]; simp
  · rfl
  · rfl

/-! ### outcross_shuffle -/
section outcross
variable {β : Type} [DecidableEq β]

theorem take_getElem? (addr : List Nat) (buf : List β) (h : ∀ a ∈ addr, a < buf.length) (q : Nat) :
    (Np.take addr buf)[q]? = (addr[q]?).bind (fun a => buf[a]?) := by
  unfold Np.take
  induction addr generalizing q with
  | nil => simp
  | cons a as ih =>
    have ha : a < buf.length := h a List.mem_cons_self
    rw [List.filterMap_cons, List.getElem?_eq_getElem ha]
    cases q with
    | zero => simp [List.getElem?_eq_getElem ha]
    | succ q =>
      simp only [List.getElem?_cons_succ]
      exact ih (fun b hb => h b (List.mem_cons_of_mem _ hb)) q

theorem swap_length (x : List β) (i j : Nat) : (swap x i j).length = x.length := (swap_perm x i j).length_eq

theorem swap_getElem? (x : List β) (a b c : Nat) (ha : a < x.length) (hb : b < x.length) :
    (swap x a b)[c]? = if c = b then x[a]? else if c = a then x[b]? else x[c]? := by
  rw [swap_of_lt x a b ha hb, List.getElem?_set, List.getElem?_set]
  by_cases h1 : b = c
  · subst h1
    simp [hb, ha]
  · have h1' : c ≠ b := fun h => h1 h.symm
    rw [if_neg h1, if_neg h1']
    by_cases h2 : a = c
    · subst h2; simp [ha, hb]
    · have h2' : c ≠ a := fun h => h2 h.symm
      rw [if_neg h2, if_neg h2']

theorem swap_swap (x : List β) (a b : Nat) : swap (swap x a b) a b = x := by
  by_cases h : a < x.length ∧ b < x.length
  · obtain ⟨ha, hb⟩ := h
    apply List.ext_getElem?
    intro c
    rw [swap_getElem? _ a b c (by rw [swap_length]; exact ha) (by rw [swap_length]; exact hb),
      swap_getElem? x a b a ha hb, swap_getElem? x a b b ha hb, swap_getElem? x a b c ha hb]
    by_cases h1 : c = b
    · subst h1
      by_cases h2 : a = c
      · subst h2; simp
      · simp [h2]
    · by_cases h2 : c = a
      · subst h2; simp [h1]
      · simp [h1, h2]
  · rw [swap_of_not_lt x a b h, swap_of_not_lt x a b h]

theorem gather_length (buf : List β) (addr : List Nat) (h : ∀ a ∈ addr, a < buf.length) :
    (gather buf addr).length = addr.length := take_length_of_lt addr buf h

/-- an exchange through the flat iterator is the exchange of the two logical positions -/
theorem gather_swapAt (buf : List β) (addr : List Nat) (hnd : addr.Nodup) (h : ∀ a ∈ addr, a < buf.length)
    (i j : Nat) : gather (swapAt buf addr i j) addr = swap (gather buf addr) i j := by
  by_cases hij : i < addr.length ∧ j < addr.length
  · obtain ⟨hi, hj⟩ := hij
    have ha : addr[i] < buf.length := h _ (List.getElem_mem hi)
    have hb : addr[j] < buf.length := h _ (List.getElem_mem hj)
    have hsw : swapAt buf addr i j = swap buf addr[i] addr[j] := by
      unfold swapAt; simp [hi, hj]
    have h' : ∀ a ∈ addr, a < (swap buf addr[i] addr[j]).length := by
      intro a hm; rw [swap_length]; exact h a hm
    have hgl := gather_length buf addr h
    rw [hsw]
    apply List.ext_getElem?
    intro q
    unfold gather
    rw [take_getElem? addr _ h' q,
      swap_getElem? (Np.take addr buf) i j q (by rw [← hgl] at hi; exact hi) (by rw [← hgl] at hj; exact hj),
      take_getElem? addr buf h i, take_getElem? addr buf h j, take_getElem? addr buf h q]
    by_cases hq : q < addr.length
    · rw [List.getElem?_eq_getElem hq, List.getElem?_eq_getElem hi, List.getElem?_eq_getElem hj]
      simp only [Option.bind_some]
      rw [swap_getElem? buf addr[i] addr[j] addr[q] ha hb]
      have e1 : addr[q] = addr[j] ↔ q = j := List.Nodup.getElem_inj_iff hnd
      have e2 : addr[q] = addr[i] ↔ q = i := List.Nodup.getElem_inj_iff hnd
      by_cases hqj : q = j
      · subst hqj; simp
      · by_cases hqi : q = i
        · subst hqi
          simp [hqj, e1]
        · simp [hqj, hqi, e1, e2]
    · have hn : addr[q]? = none := List.getElem?_eq_none (not_lt.mp hq)
      have hqj : q ≠ j := fun e => hq (e ▸ hj)
      have hqi : q ≠ i := fun e => hq (e ▸ hi)
      simp [hn, hqj, hqi]
  · have hsw : swapAt buf addr i j = buf := by
      unfold swapAt
      by_cases hi : i < addr.length
      · have hj : ¬ j < addr.length := fun hj => hij ⟨hi, hj⟩
        simp [List.getElem?_eq_none (not_lt.mp hj)]
      · simp [List.getElem?_eq_none (not_lt.mp hi)]
    rw [hsw, swap_of_not_lt]
    rw [gather_length buf addr h]; exact hij

theorem swapAt_swapAt (buf : List β) (addr : List Nat) (i j : Nat) :
    swapAt (swapAt buf addr i j) addr i j = buf := by
  unfold swapAt
  cases hi : addr[i]? with
  | none => simp
  | some a =>
    cases hj : addr[j]? with
    | none => simp
    | some b => simp [swap_swap]

theorem swapAt_length (buf : List β) (addr : List Nat) (i j : Nat) : (swapAt buf addr i j).length = buf.length := by
  unfold swapAt
  cases addr[i]? <;> cases addr[j]? <;> simp [swap_length]

/-- an exchange writes nowhere but into the table -/
theorem swapAt_outside (buf : List β) (addr : List Nat) (h : ∀ a ∈ addr, a < buf.length) (i j c : Nat)
    (hc : c ∉ addr) : (swapAt buf addr i j)[c]? = buf[c]? := by
  unfold swapAt
  cases hi : addr[i]? with
  | none => simp
  | some a =>
    cases hj : addr[j]? with
    | none => simp
    | some b =>
      have hma : a ∈ addr := List.mem_of_getElem? hi
      have hmb : b ∈ addr := List.mem_of_getElem? hj
      simp only []
      rw [swap_getElem? buf a b c (h a hma) (h b hmb)]
      have h1 : c ≠ b := fun e => hc (e ▸ hmb)
      have h2 : c ≠ a := fun e => hc (e ▸ hma)
      simp [h1, h2]

/-- one pass of the literal loop = `firstImproving` on the logical content -/
theorem passLit_spec (sc : List β → Nat) (addr : List Nat) (hnd : addr.Nodup) (o : List (Nat × Nat)) :
    ∀ (buf : List β) (g : Nat), (∀ a ∈ addr, a < buf.length) →
      (firstImproving sc (gather buf addr) g o = none ∧ passLit sc addr buf g o = (buf, g, true)) ∨
      (∃ b s, firstImproving sc (gather buf addr) g o = some (gather b addr, s) ∧
        passLit sc addr buf g o = (b, s, false) ∧ b.length = buf.length ∧ ∀ c, c ∉ addr → b[c]? = buf[c]?) := by
  induction o with
  | nil => intro buf g _; left; exact ⟨rfl, rfl⟩
  | cons ij rest ih =>
    intro buf g h
    unfold firstImproving passLit
    simp only []
    rw [gather_swapAt buf addr hnd h]
    by_cases hlt : sc (swap (gather buf addr) ij.1 ij.2) < g
    · right
      refine ⟨swapAt buf addr ij.1 ij.2, sc (swap (gather buf addr) ij.1 ij.2), ?_, ?_, swapAt_length _ _ _ _,
        fun c hc => swapAt_outside buf addr h _ _ c hc⟩
      · rw [if_pos hlt, gather_swapAt buf addr hnd h]
      · rw [if_pos hlt]
    · rw [if_neg hlt, if_neg hlt, swapAt_swapAt]
      exact ih buf g h

/-- the literal `while` loop = `climb` on the logical content; the buffer keeps its size and everything outside
    the table -/
theorem climbLit_spec (sc : List β → Nat) (addr : List Nat) (hnd : addr.Nodup) (orders : List (List (Nat × Nat))) :
    ∀ (buf : List β) (g : Nat), (∀ a ∈ addr, a < buf.length) →
      (climbLit sc addr orders buf g).map (fun b => gather b addr) = climb sc orders (gather buf addr) g ∧
      ∀ b', climbLit sc addr orders buf g = .ok b' → b'.length = buf.length ∧ ∀ c, c ∉ addr → b'[c]? = buf[c]? := by
  induction orders with
  | nil => intro buf g _; exact ⟨rfl, fun b' hb' => by simp [climbLit] at hb'⟩
  | cons o os ih =>
    intro buf g h
    unfold climbLit climb
    rcases passLit_spec sc addr hnd o buf g h with ⟨hf, hp⟩ | ⟨b, s, hf, hp, hbl, hbo⟩
    · rw [hf, hp]
      refine ⟨rfl, fun b' hb' => ?_⟩
      injection hb' with hb'
      subst hb'
      exact ⟨rfl, fun _ _ => rfl⟩
    · rw [hf, hp]
      have hb : ∀ a ∈ addr, a < b.length := fun a ha => by rw [hbl]; exact h a ha
      obtain ⟨h1, h2⟩ := ih b s hb
      refine ⟨h1, fun b' hb' => ?_⟩
      obtain ⟨h3, h4⟩ := h2 b' hb'
      exact ⟨by rw [h3, hbl], fun c hc => by rw [h4 c hc, hbo c hc]⟩

end outcross
end Sampling
