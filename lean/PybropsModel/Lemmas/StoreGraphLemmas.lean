/-
Lemmas for the object-graph model of `copy.deepcopy` (C16, round 2): views are stable under heap
growth and fuel, and the invariant carried by the memo.
-/
import Mathlib.Tactic
import PybropsModel.Model.StoreGraph

set_option autoImplicit false

namespace StoreGraph
open Store (DS)

/-- the reference points into the heap -/
def RefIn (h : Heap) : Ref → Prop
  | .ptr a => a < h.length
  | _ => True

/-- acyclic and closed: every reference inside cell `a` points below `a` -/
def WF (h : Heap) : Prop :=
  ∀ a (ha : a < h.length), ∀ kv ∈ kids h[a], ∀ b, kv.2 = .ptr b → b < a

theorem getElem?_prefix {h h' : Heap} (hp : h <+: h') {a : Nat} (ha : a < h.length) : h'[a]? = h[a]? := by
  obtain ⟨t, rfl⟩ := hp
  rw [List.getElem?_append_left ha]

theorem viewCell_congr (f g : Ref → Tree) (c : Option Cell)
    (h : ∀ cell, c = some cell → ∀ kv ∈ kids cell, f kv.2 = g kv.2) : viewCell f c = viewCell g c := by
  cases c with
  | none => rfl
  | some cell =>
    cases cell with
    | arr d => rfl
    | ext s => rfl
    | dict kvs =>
      simp only [viewCell]
      congr 1
      apply List.map_congr_left
      intro kv hkv
      rw [h _ rfl kv hkv]
    | obj c kvs =>
      simp only [viewCell]
      congr 1
      apply List.map_congr_left
      intro kv hkv
      rw [h _ rfl kv hkv]

theorem viewF_succ_ptr (h : Heap) (n : Nat) (a : Nat) :
    viewF h (n + 1) (.ptr a) = viewCell (viewF h n) h[a]? := rfl

/-- enough fuel is enough: the view of a reference below both fuels does not depend on the fuel -/
theorem viewF_fuel (h : Heap) (hwf : WF h) :
    ∀ (n1 n2 : Nat) (r : Ref), (∀ a : Nat, r = .ptr a → a < n1 ∧ a < n2) → viewF h n1 r = viewF h n2 r := by
  intro n1
  induction n1 with
  | zero =>
    intro n2 r hr
    cases r with
    | none => cases n2 <;> rfl
    | imm d => cases n2 <;> rfl
    | ptr a => exact absurd (hr a rfl).1 (Nat.not_lt_zero _)
  | succ n ih =>
    intro n2 r hr
    cases r with
    | none => cases n2 <;> rfl
    | imm d => cases n2 <;> rfl
    | ptr a =>
      obtain ⟨h1, h2⟩ := hr a rfl
      cases n2 with
      | zero => exact absurd h2 (Nat.not_lt_zero _)
      | succ m =>
        rw [viewF_succ_ptr, viewF_succ_ptr]
        apply viewCell_congr
        intro cell hc kv hkv
        have ha : a < h.length := by
          by_contra hn
          rw [List.getElem?_eq_none (Nat.le_of_not_lt hn)] at hc
          simp at hc
        have hcell : h[a] = cell := by
          rw [List.getElem?_eq_getElem ha] at hc
          exact Option.some.inj hc
        apply ih
        intro b hb
        have hlt : b < a := hwf a ha kv (by rw [hcell]; exact hkv) b hb
        exact ⟨Nat.lt_of_lt_of_le hlt (Nat.le_of_lt_succ h1), Nat.lt_of_lt_of_le hlt (Nat.le_of_lt_succ h2)⟩

/-- views of references into `h` are unchanged when the heap grows -/
theorem viewF_prefix {h h' : Heap} (hp : h <+: h') (hwf : WF h) :
    ∀ (n : Nat) (r : Ref), RefIn h r → viewF h' n r = viewF h n r := by
  intro n
  induction n with
  | zero => intro r _; cases r <;> rfl
  | succ n ih =>
    intro r hr
    cases r with
    | none => rfl
    | imm d => rfl
    | ptr a =>
      have ha : a < h.length := hr
      rw [viewF_succ_ptr, viewF_succ_ptr, getElem?_prefix hp ha]
      apply viewCell_congr
      intro cell hc kv hkv
      have hcell : h[a] = cell := by
        rw [List.getElem?_eq_getElem ha] at hc
        exact Option.some.inj hc
      apply ih
      cases hv : kv.2 with
      | ptr b => exact Nat.lt_trans (hwf a ha kv (by rw [hcell]; exact hkv) b hv) ha
      | none => trivial
      | imm d => trivial

/-- the view with "heap size" fuel, stable under growth -/
theorem view_prefix {h h' : Heap} (hp : h <+: h') (hwf : WF h) (hwf' : WF h') (r : Ref) (hr : RefIn h r) :
    view h' r = view h r := by
  unfold view
  rw [viewF_fuel h' hwf' h'.length h.length r (fun a ha => by
    subst ha
    have : a < h.length := hr
    exact ⟨Nat.lt_of_lt_of_le this hp.length_le, this⟩)]
  exact viewF_prefix hp hwf h.length r hr

theorem refIn_mono {h h' : Heap} (hp : h <+: h') {r : Ref} (hr : RefIn h r) : RefIn h' r := by
  cases r with
  | ptr a => exact lt_of_lt_of_le hr hp.length_le
  | none => trivial
  | imm d => trivial

/-- appending a cell whose references point into the heap keeps it well formed -/
theorem wf_append {h : Heap} (hwf : WF h) (c : Cell) (hc : ∀ kv ∈ kids c, RefIn h kv.2) : WF (h ++ [c]) := by
  intro a ha kv hkv b hb
  rw [List.length_append, List.length_singleton] at ha
  by_cases h1 : a < h.length
  · rw [List.getElem_append_left h1] at hkv
    exact hwf a h1 kv hkv b hb
  · have ha' : a = h.length := by omega
    subst ha'
    rw [List.getElem_append_right (le_refl _)] at hkv
    simp only [Nat.sub_self, List.getElem_cons_zero] at hkv
    have := hc kv hkv
    rw [hb] at this
    exact this

end StoreGraph

namespace StoreGraph
open Store (DS)

/-! ### the invariant of `copy.deepcopy` -/

def isExtAt (h0 : Heap) (a : Nat) : Prop := ∃ s, h0[a]? = some (Cell.ext s)

/-- a reference handed out by the copy: a fresh cell, or an old external resource -/
def FreshRef (h0 heap : Heap) : Ref → Prop
  | .ptr a => (h0.length ≤ a ∧ a < heap.length) ∨ (a < h0.length ∧ isExtAt h0 a)
  | _ => True

/-- the attribute of this cell is one the class shares on purpose -/
def SharedKid (c : Cell) (k : String) : Prop :=
  match c with
  | .obj cls _ => attrMode cls k = .shared
  | _ => False

structure Inv (h0 : Heap) (st : St) : Prop where
  pre : h0 <+: st.heap
  wf : WF st.heap
  memo : ∀ p ∈ st.memo, p.1 < h0.length ∧ h0.length ≤ p.2 ∧ p.2 < st.heap.length ∧
    view st.heap (.ptr p.2) = view h0 (.ptr p.1)
  closed : ∀ a, h0.length ≤ a → (ha : a < st.heap.length) → ∀ kv ∈ kids st.heap[a],
    FreshRef h0 st.heap kv.2 ∨ SharedKid st.heap[a] kv.1

theorem freshRef_mono {h0 h h' : Heap} (hp : h <+: h') {r : Ref} (hr : FreshRef h0 h r) : FreshRef h0 h' r := by
  cases r with
  | ptr a =>
    rcases hr with ⟨h1, h2⟩ | h3
    · exact Or.inl ⟨h1, Nat.lt_of_lt_of_le h2 hp.length_le⟩
    · exact Or.inr h3
  | none => trivial
  | imm d => trivial

theorem freshRef_refIn {h0 heap : Heap} (hp : h0 <+: heap) {r : Ref} (hr : FreshRef h0 heap r) : RefIn heap r := by
  cases r with
  | ptr a =>
    rcases hr with ⟨_, h2⟩ | ⟨h3, _⟩
    · exact h2
    · exact Nat.lt_of_lt_of_le h3 hp.length_le
  | none => trivial
  | imm d => trivial

/-- what one call of `deepcopy` establishes -/
structure Post (h0 : Heap) (st : St) (r : Ref) (res : St × Ref) : Prop where
  inv : Inv h0 res.1
  grow : st.heap <+: res.1.heap
  eqv : view res.1.heap res.2 = view h0 r
  fresh : FreshRef h0 res.1.heap res.2

theorem inv_init (h0 : Heap) (hwf : WF h0) : Inv h0 ⟨h0, []⟩ :=
  ⟨List.prefix_refl _, hwf, fun p hp => by simp at hp,
   fun a h1 h2 => absurd h2 (Nat.not_lt.mpr h1)⟩

theorem lookup_mem {α β : Type} [BEq α] [LawfulBEq α] (l : List (α × β)) (a : α) (b : β)
    (h : l.lookup a = some b) : (a, b) ∈ l := by
  induction l with
  | nil => simp [List.lookup] at h
  | cons e r ih =>
    obtain ⟨x, y⟩ := e
    simp only [List.lookup] at h
    by_cases hx : a == x
    · simp only [hx] at h
      have : a = x := by simpa using hx
      subst this
      have : y = b := by simpa using h
      subst this
      exact List.mem_cons_self
    · have hx' : (a == x) = false := by simpa using hx
      simp only [hx'] at h
      exact List.mem_cons_of_mem _ (ih h)

/-- the state after appending a cell all of whose references are fresh (or shared on purpose) -/
theorem inv_append {h0 : Heap} {st : St} (hi : Inv h0 st) (c : Cell) (memo' : List (Addr × Addr))
    (hk : ∀ kv ∈ kids c, RefIn st.heap kv.2)
    (hc : ∀ kv ∈ kids c, FreshRef h0 (st.heap ++ [c]) kv.2 ∨ SharedKid c kv.1)
    (hm : ∀ p ∈ memo', p ∈ st.memo ∨ (p.1 < h0.length ∧ p.2 = st.heap.length ∧
      view (st.heap ++ [c]) (.ptr st.heap.length) = view h0 (.ptr p.1))) :
    Inv h0 ⟨st.heap ++ [c], memo'⟩ := by
  have hpre : st.heap <+: st.heap ++ [c] := List.prefix_append _ _
  have hwf' : WF (st.heap ++ [c]) := wf_append hi.wf c hk
  refine ⟨hi.pre.trans hpre, hwf', ?_, ?_⟩
  · intro p hp
    rcases hm p hp with h1 | ⟨h1, h2, h3⟩
    · obtain ⟨m1, m2, m3, m4⟩ := hi.memo p h1
      refine ⟨m1, m2, Nat.lt_of_lt_of_le m3 hpre.length_le, ?_⟩
      rw [view_prefix hpre hi.wf hwf' (.ptr p.2) m3]
      exact m4
    · refine ⟨h1, ?_, ?_, ?_⟩
      · rw [h2]; exact hi.pre.length_le
      · rw [h2]; simp
      · rw [h2]; exact h3
  · intro a h1 h2 kv hkv
    simp only [List.length_append, List.length_singleton] at h2
    by_cases h3 : a < st.heap.length
    · have e : (st.heap ++ [c])[a] = st.heap[a] := List.getElem_append_left h3
      rw [e] at hkv ⊢
      rcases hi.closed a h1 h3 kv hkv with h4 | h4
      · exact Or.inl (freshRef_mono hpre h4)
      · exact Or.inr h4
    · have ha : a = st.heap.length := by omega
      subst ha
      have e : (st.heap ++ [c])[st.heap.length] = c := by
        rw [List.getElem_append_right (Nat.le_refl _)]; simp
      rw [e] at hkv ⊢
      exact hc kv hkv

end StoreGraph

namespace StoreGraph
open Store (DS)

/-- unfolding the view of a cell one level, children at full fuel -/
theorem view_ptr (h : Heap) (hwf : WF h) (a : Nat) (ha : a < h.length) :
    view h (.ptr a) = viewCell (view h) h[a]? := by
  unfold view
  obtain ⟨m, hm⟩ : ∃ m, h.length = m + 1 := ⟨h.length - 1, by omega⟩
  rw [hm, viewF_succ_ptr]
  apply viewCell_congr
  intro cell hc kv hkv
  have hcell : h[a] = cell := by
    rw [List.getElem?_eq_getElem ha] at hc
    exact Option.some.inj hc
  apply viewF_fuel h hwf
  intro b hb
  have hlt : b < a := hwf a ha kv (by rw [hcell]; exact hkv) b hb
  constructor <;> omega

theorem view_none (h : Heap) : view h .none = .none := by unfold view; cases h.length <;> rfl
theorem view_imm (h : Heap) (d : DS) : view h (.imm d) = .imm d := by unfold view; cases h.length <;> rfl

/-- result of copying a list of named references -/
def KidsOK (h0 heap : Heap) (sh : String → Prop) (kvs kvs' : List (String × Ref)) : Prop :=
  List.Forall₂ (fun kv kv' => kv'.1 = kv.1 ∧ RefIn heap kv'.2 ∧ view heap kv'.2 = view h0 kv.2 ∧
    (FreshRef h0 heap kv'.2 ∨ sh kv.1)) kvs kvs'

theorem kidsOK_mono {h0 h h' : Heap} (hp : h <+: h') (hwf : WF h) (hwf' : WF h') (sh : String → Prop)
    {kvs kvs' : List (String × Ref)} (hk : KidsOK h0 h sh kvs kvs') : KidsOK h0 h' sh kvs kvs' := by
  unfold KidsOK at *
  induction hk with
  | nil => exact List.Forall₂.nil
  | cons hd _ ih =>
    obtain ⟨e1, e2, e3, e4⟩ := hd
    refine List.Forall₂.cons ⟨e1, refIn_mono hp e2, ?_, ?_⟩ ih
    · rw [view_prefix hp hwf hwf' _ e2]; exact e3
    · rcases e4 with e4 | e4
      · exact Or.inl (freshRef_mono hp e4)
      · exact Or.inr e4

theorem kidsOK_views {h0 heap : Heap} {sh : String → Prop} {kvs kvs' : List (String × Ref)}
    (hk : KidsOK h0 heap sh kvs kvs') :
    kvs'.map (fun kv => (kv.1, view heap kv.2)) = kvs.map (fun kv => (kv.1, view h0 kv.2)) := by
  unfold KidsOK at hk
  induction hk with
  | nil => rfl
  | cons hd _ ih =>
    obtain ⟨e1, _, e3, _⟩ := hd
    simp only [List.map_cons, ih, e1, e3]

theorem kidsOK_refs {h0 heap : Heap} {sh : String → Prop} {kvs kvs' : List (String × Ref)}
    (hk : KidsOK h0 heap sh kvs kvs') :
    ∀ kv' ∈ kvs', RefIn heap kv'.2 ∧ (FreshRef h0 heap kv'.2 ∨ sh kv'.1) := by
  unfold KidsOK at hk
  induction hk with
  | nil => intro kv' h; simp at h
  | cons hd _ ih =>
    obtain ⟨e1, e2, _, e4⟩ := hd
    intro kv' h
    rcases List.mem_cons.mp h with h | h
    · subst h; exact ⟨e2, by rw [e1]; exact e4⟩
    · exact ih kv' h

section steps
variable (h0 : Heap) (f : St → Ref → St × Ref) (P : Ref → Prop)
variable (step : ∀ st r, Inv h0 st → P r → Post h0 st r (f st r))
include step

theorem copyList_spec (kvs : List (String × Ref)) :
    ∀ st, Inv h0 st → (∀ kv ∈ kvs, P kv.2) →
      Inv h0 (copyList f st kvs).1 ∧ st.heap <+: (copyList f st kvs).1.heap ∧
      KidsOK h0 (copyList f st kvs).1.heap (fun _ => False) kvs (copyList f st kvs).2 := by
  induction kvs with
  | nil => intro st hi _; exact ⟨hi, List.prefix_refl _, List.Forall₂.nil⟩
  | cons kv rest ih =>
    intro st hi hP
    obtain ⟨k, r⟩ := kv
    have hs := step st r hi (hP (k, r) List.mem_cons_self)
    obtain ⟨i2, g2, k2⟩ := ih (f st r).1 hs.inv (fun e he => hP e (List.mem_cons_of_mem _ he))
    have heq : copyList f st ((k, r) :: rest) =
        ((copyList f (f st r).1 rest).1, (k, (f st r).2) :: (copyList f (f st r).1 rest).2) := rfl
    rw [heq]
    refine ⟨i2, hs.grow.trans g2, ?_⟩
    refine List.Forall₂.cons ⟨rfl, ?_, ?_, ?_⟩ k2
    · exact refIn_mono g2 (freshRef_refIn hs.inv.pre hs.fresh)
    · rw [view_prefix g2 hs.inv.wf i2.wf _ (freshRef_refIn hs.inv.pre hs.fresh)]; exact hs.eqv
    · exact Or.inl (freshRef_mono g2 hs.fresh)

omit step in
theorem inv_swap_memo {st : St} (hi : Inv h0 st) (memo' : List (Addr × Addr)) {s' : St}
    (hi' : Inv h0 s') (hg : st.heap <+: s'.heap) (hm : ∀ p ∈ memo', p ∈ st.memo) :
    Inv h0 { s' with memo := memo' } := by
  refine ⟨hi'.pre, hi'.wf, ?_, hi'.closed⟩
  intro p hp
  obtain ⟨m1, m2, m3, m4⟩ := hi.memo p (hm p hp)
  refine ⟨m1, m2, Nat.lt_of_lt_of_le m3 hg.length_le, ?_⟩
  rw [view_prefix hg hi.wf hi'.wf (.ptr p.2) m3]
  exact m4

theorem copyAttrs_spec (hwf0 : WF h0) (cls : String) (priv : Bool) (kvs : List (String × Ref)) :
    ∀ st, Inv h0 st → (∀ kv ∈ kvs, P kv.2 ∧ RefIn h0 kv.2) →
      Inv h0 (copyAttrs cls priv f st kvs).1 ∧ st.heap <+: (copyAttrs cls priv f st kvs).1.heap ∧
      KidsOK h0 (copyAttrs cls priv f st kvs).1.heap (fun k => attrMode cls k = .shared) kvs
        (copyAttrs cls priv f st kvs).2 := by
  induction kvs with
  | nil => intro st hi _; exact ⟨hi, List.prefix_refl _, List.Forall₂.nil⟩
  | cons kv rest ih =>
    intro st hi hP
    obtain ⟨k, r⟩ := kv
    obtain ⟨hPr, hRr⟩ := hP (k, r) List.mem_cons_self
    have hrest : ∀ kv ∈ rest, P kv.2 ∧ RefIn h0 kv.2 := fun e he => hP e (List.mem_cons_of_mem _ he)
    -- the state and reference after the head attribute, whatever its mode
    have key : ∃ st1 r', (copyAttrs cls priv f st ((k, r) :: rest)) =
          ((copyAttrs cls priv f st1 rest).1, (k, r') :: (copyAttrs cls priv f st1 rest).2) ∧
        Inv h0 st1 ∧ st.heap <+: st1.heap ∧ RefIn st1.heap r' ∧ view st1.heap r' = view h0 r ∧
        (FreshRef h0 st1.heap r' ∨ attrMode cls k = .shared) := by
      cases hm : (if priv && attrMode cls k == .deep then Mode.deepNoMemo else attrMode cls k) with
      | deep =>
        have hs := step st r hi hPr
        exact ⟨(f st r).1, (f st r).2, by simp only [copyAttrs, hm], hs.inv, hs.grow,
          freshRef_refIn hs.inv.pre hs.fresh, hs.eqv, Or.inl hs.fresh⟩
      | deepNoMemo =>
        have hi0 : Inv h0 { st with memo := [] } :=
          ⟨hi.pre, hi.wf, fun p hp => by simp at hp, hi.closed⟩
        have hs := step { st with memo := [] } r hi0 hPr
        have hi1 : Inv h0 { (f { st with memo := [] } r).1 with memo := st.memo } :=
          inv_swap_memo h0 hi st.memo hs.inv hs.grow (fun p hp => hp)
        exact ⟨{ (f { st with memo := [] } r).1 with memo := st.memo }, (f { st with memo := [] } r).2,
          by simp only [copyAttrs, hm], hi1, hs.grow, freshRef_refIn hs.inv.pre hs.fresh, hs.eqv, Or.inl hs.fresh⟩
      | shared =>
        have hsh : attrMode cls k = .shared := by
          by_cases hp : (priv && attrMode cls k == .deep) = true
          · rw [if_pos hp] at hm; exact absurd hm (by simp)
          · rw [if_neg hp] at hm; exact hm
        exact ⟨st, r, by simp only [copyAttrs, hm], hi, List.prefix_refl _, refIn_mono hi.pre hRr,
          view_prefix hi.pre hwf0 hi.wf r hRr, Or.inr hsh⟩
    obtain ⟨st1, r', heq, i1, g1, e2, e3, e4⟩ := key
    obtain ⟨i2, g2, k2⟩ := ih st1 i1 hrest
    rw [heq]
    refine ⟨i2, g1.trans g2, ?_⟩
    refine List.Forall₂.cons ⟨rfl, refIn_mono g2 e2, ?_, ?_⟩ k2
    · rw [view_prefix g2 i1.wf i2.wf _ e2]; exact e3
    · rcases e4 with e4 | e4
      · exact Or.inl (freshRef_mono g2 e4)
      · exact Or.inr e4

end steps

end StoreGraph

namespace StoreGraph
open Store (DS)

/-- precondition on a reference handed to `deepcopy n`: it lives in the source heap, below the fuel -/
def Pre (h0 : Heap) (n : Nat) (r : Ref) : Prop := RefIn h0 r ∧ ∀ a : Nat, r = .ptr a → a < n

theorem kids_pre {h0 : Heap} (hwf0 : WF h0) {a n : Nat} (ha : a < h0.length) (han : a < n + 1) :
    ∀ kv ∈ kids h0[a], Pre h0 n kv.2 ∧ RefIn h0 kv.2 := by
  intro kv hkv
  have hr : RefIn h0 kv.2 := by
    cases hv : kv.2 with
    | ptr b => exact Nat.lt_trans (hwf0 a ha kv hkv b hv) ha
    | none => trivial
    | imm d => trivial
  refine ⟨⟨hr, fun b hb => ?_⟩, hr⟩
  have hlt : b < a := hwf0 a ha kv hkv b hb
  exact Nat.lt_of_lt_of_le hlt (Nat.le_of_lt_succ han)

/-- **`copy.deepcopy` keeps the invariant**: the heap only grows, the reference returned views as
    the source reference, and it is fresh (or an external resource) -/
theorem deepcopy_spec (h0 : Heap) (hwf0 : WF h0) :
    ∀ (n : Nat) (st : St) (r : Ref), Inv h0 st → Pre h0 n r → Post h0 st r (deepcopy n st r) := by
  intro n
  induction n with
  | zero =>
    intro st r hi hp
    cases r with
    | none => exact ⟨hi, List.prefix_refl _, by simp [deepcopy, view_none], trivial⟩
    | imm d => exact ⟨hi, List.prefix_refl _, by simp [deepcopy, view_imm], trivial⟩
    | ptr a => exact absurd (hp.2 a rfl) (Nat.not_lt_zero _)
  | succ n ih =>
    intro st r hi hp
    cases r with
    | none => exact ⟨hi, List.prefix_refl _, by simp [deepcopy, view_none], trivial⟩
    | imm d => exact ⟨hi, List.prefix_refl _, by simp [deepcopy, view_imm], trivial⟩
    | ptr a =>
      have ha0 : a < h0.length := hp.1
      have han : a < n + 1 := hp.2 a rfl
      have hcell : st.heap[a]? = some h0[a] := by
        rw [getElem?_prefix hi.pre ha0, List.getElem?_eq_getElem ha0]
      cases hm : st.memo.lookup a with
      | some a' =>
        have hres : deepcopy (n + 1) st (.ptr a) = (st, .ptr a') := by simp only [deepcopy, hm]
        rw [hres]
        obtain ⟨m1, m2, m3, m4⟩ := hi.memo (a, a') (lookup_mem _ _ _ hm)
        exact ⟨hi, List.prefix_refl _, m4, Or.inl ⟨m2, m3⟩⟩
      | none =>
        cases hc : h0[a] with
        | ext s =>
          have hres : deepcopy (n + 1) st (.ptr a) = (st, .ptr a) := by
            simp only [deepcopy, hm, hcell, hc]
          rw [hres]
          refine ⟨hi, List.prefix_refl _, view_prefix hi.pre hwf0 hi.wf _ ha0, Or.inr ⟨ha0, s, ?_⟩⟩
          rw [List.getElem?_eq_getElem ha0, hc]
        | arr d =>
          have hres : deepcopy (n + 1) st (.ptr a) =
              ({ heap := st.heap ++ [.arr d], memo := (a, st.heap.length) :: st.memo }, .ptr st.heap.length) := by
            simp only [deepcopy, hm, hcell, hc]
          rw [hres]
          have hwf' : WF (st.heap ++ [Cell.arr d]) := wf_append hi.wf _ (fun kv hkv => by simp [kids] at hkv)
          have hv : view (st.heap ++ [Cell.arr d]) (.ptr st.heap.length) = view h0 (.ptr a) := by
            rw [view_ptr _ hwf' _ (by simp), view_ptr h0 hwf0 a ha0, List.getElem?_eq_getElem ha0, hc]
            simp [viewCell]
          refine ⟨inv_append hi (.arr d) _ (fun kv hkv => by simp [kids] at hkv)
            (fun kv hkv => by simp [kids] at hkv) ?_, List.prefix_append _ _, hv,
            Or.inl ⟨hi.pre.length_le, by simp⟩⟩
          intro p hp'
          rcases List.mem_cons.mp hp' with e | e
          · subst e; exact Or.inr ⟨ha0, rfl, hv⟩
          · exact Or.inl e
        | dict kvs =>
          have hk := kids_pre hwf0 ha0 han
          rw [hc] at hk
          obtain ⟨i1, g1, k1⟩ := copyList_spec h0 (deepcopy n) (Pre h0 n) (fun st r hi hp => ih st r hi hp)
            kvs st hi (fun kv hkv => (hk kv hkv).1)
          have hres : deepcopy (n + 1) st (.ptr a) =
              ({ heap := (copyList (deepcopy n) st kvs).1.heap ++ [.dict (copyList (deepcopy n) st kvs).2],
                 memo := (a, (copyList (deepcopy n) st kvs).1.heap.length) :: (copyList (deepcopy n) st kvs).1.memo },
               .ptr (copyList (deepcopy n) st kvs).1.heap.length) := by
            simp only [deepcopy, hm, hcell, hc]
          rw [hres]
          set st1 := (copyList (deepcopy n) st kvs).1 with hst1
          set kvs' := (copyList (deepcopy n) st kvs).2 with hkvs'
          have hrefs := kidsOK_refs k1
          have hkin : ∀ kv ∈ kids (Cell.dict kvs'), RefIn st1.heap kv.2 := fun kv hkv => (hrefs kv hkv).1
          have hwf' : WF (st1.heap ++ [Cell.dict kvs']) := wf_append i1.wf _ hkin
          have hpre' : st1.heap <+: st1.heap ++ [Cell.dict kvs'] := List.prefix_append _ _
          have hv : view (st1.heap ++ [Cell.dict kvs']) (.ptr st1.heap.length) = view h0 (.ptr a) := by
            rw [view_ptr _ hwf' _ (by simp), view_ptr h0 hwf0 a ha0, List.getElem?_eq_getElem ha0, hc]
            simp only [List.getElem?_concat_length, viewCell]
            congr 1
            exact kidsOK_views (kidsOK_mono hpre' i1.wf hwf' _ k1)
          refine ⟨inv_append i1 (.dict kvs') _ hkin (fun kv hkv => ?_) ?_, g1.trans hpre', hv,
            Or.inl ⟨i1.pre.length_le, by simp⟩⟩
          · rcases (hrefs kv hkv).2 with e | e
            · exact Or.inl (freshRef_mono hpre' e)
            · exact absurd e id
          · intro p hp'
            rcases List.mem_cons.mp hp' with e | e
            · subst e; exact Or.inr ⟨ha0, rfl, hv⟩
            · exact Or.inl e
        | obj cls attrs =>
          have hk := kids_pre hwf0 ha0 han
          rw [hc] at hk
          obtain ⟨i1, g1, k1⟩ := copyAttrs_spec h0 (deepcopy n) (Pre h0 n) (fun st r hi hp => ih st r hi hp)
            hwf0 cls false attrs st hi hk
          have hres : deepcopy (n + 1) st (.ptr a) =
              ({ heap := (copyAttrs cls false (deepcopy n) st attrs).1.heap ++
                   [.obj cls (copyAttrs cls false (deepcopy n) st attrs).2],
                 memo := (copyAttrs cls false (deepcopy n) st attrs).1.memo },
               .ptr (copyAttrs cls false (deepcopy n) st attrs).1.heap.length) := by
            simp only [deepcopy, hm, hcell, hc]
          rw [hres]
          set st1 := (copyAttrs cls false (deepcopy n) st attrs).1 with hst1
          set kvs' := (copyAttrs cls false (deepcopy n) st attrs).2 with hkvs'
          have hrefs := kidsOK_refs k1
          have hkin : ∀ kv ∈ kids (Cell.obj cls kvs'), RefIn st1.heap kv.2 := fun kv hkv => (hrefs kv hkv).1
          have hwf' : WF (st1.heap ++ [Cell.obj cls kvs']) := wf_append i1.wf _ hkin
          have hpre' : st1.heap <+: st1.heap ++ [Cell.obj cls kvs'] := List.prefix_append _ _
          have hv : view (st1.heap ++ [Cell.obj cls kvs']) (.ptr st1.heap.length) = view h0 (.ptr a) := by
            rw [view_ptr _ hwf' _ (by simp), view_ptr h0 hwf0 a ha0, List.getElem?_eq_getElem ha0, hc]
            simp only [List.getElem?_concat_length, viewCell]
            congr 1
            exact kidsOK_views (kidsOK_mono hpre' i1.wf hwf' _ k1)
          refine ⟨inv_append i1 (.obj cls kvs') _ hkin (fun kv hkv => ?_) (fun p hp' => Or.inl hp'),
            g1.trans hpre', hv, Or.inl ⟨i1.pre.length_le, by simp⟩⟩
          rcases (hrefs kv hkv).2 with e | e
          · exact Or.inl (freshRef_mono hpre' e)
          · exact Or.inr e

end StoreGraph

namespace StoreGraph
open Store (DS)

/-- views of references into `h0` only depend on the cells of `h0` -/
theorem viewF_agree {h0 h1 : Heap} (hag : ∀ x, x < h0.length → h1[x]? = h0[x]?) (hwf : WF h0) :
    ∀ (n : Nat) (r : Ref), RefIn h0 r → viewF h1 n r = viewF h0 n r := by
  intro n
  induction n with
  | zero => intro r _; cases r <;> rfl
  | succ n ih =>
    intro r hr
    cases r with
    | none => rfl
    | imm d => rfl
    | ptr a =>
      have ha : a < h0.length := hr
      rw [viewF_succ_ptr, viewF_succ_ptr, hag a ha]
      apply viewCell_congr
      intro cell hc kv hkv
      have hcell : h0[a] = cell := by
        rw [List.getElem?_eq_getElem ha] at hc
        exact Option.some.inj hc
      apply ih
      cases hv : kv.2 with
      | ptr b => exact Nat.lt_trans (hwf a ha kv (by rw [hcell]; exact hkv) b hv) ha
      | none => trivial
      | imm d => trivial

/-- overwriting a cell outside the source heap is invisible from the source -/
theorem view_setCell_fresh {h0 h' : Heap} (hp : h0 <+: h') (hwf : WF h0) (r : Ref) (hr : RefIn h0 r)
    (a : Nat) (ha : h0.length ≤ a) (c : Cell) : view (setCell h' a c) r = view h0 r := by
  unfold view setCell
  rw [viewF_agree (h1 := h'.set a c) (fun x hx => by
    rw [List.getElem?_set_ne (by omega), getElem?_prefix hp hx]) hwf _ r hr]
  apply viewF_fuel h0 hwf
  intro b hb
  subst hb
  have hb' : b < h0.length := hr
  refine ⟨?_, hb'⟩
  rw [List.length_set]
  exact Nat.lt_of_lt_of_le hb' hp.length_le

/-- everything the copy can reach through its state is a fresh cell or an external resource -/
theorem reachF_fresh {h0 : Heap} {st : St} (hi : Inv h0 st) :
    ∀ (n : Nat) (r : Ref), FreshRef h0 st.heap r → ∀ x ∈ reachF st.heap n r, h0.length ≤ x ∨ isExtAt h0 x := by
  intro n
  induction n with
  | zero =>
    intro r hr x hx
    cases r with
    | none => simp [reachF] at hx
    | imm d => simp [reachF] at hx
    | ptr a =>
      have : x = a := by simpa [reachF] using hx
      subst this
      rcases hr with ⟨h1, _⟩ | ⟨_, h2⟩
      · exact Or.inl h1
      · exact Or.inr h2
  | succ n ih =>
    intro r hr x hx
    cases r with
    | none => simp [reachF] at hx
    | imm d => simp [reachF] at hx
    | ptr a =>
      have hself : h0.length ≤ a ∨ isExtAt h0 a := by
        rcases hr with ⟨h1, _⟩ | ⟨_, h2⟩
        · exact Or.inl h1
        · exact Or.inr h2
      rcases hr with ⟨h1, h2⟩ | ⟨h3, s, h4⟩
      · -- a fresh cell: its references are fresh unless shared on purpose
        have hcl := hi.closed a h1 h2
        have hget : st.heap[a]? = some st.heap[a] := List.getElem?_eq_getElem h2
        cases hc : st.heap[a] with
        | arr d =>
          have : x = a := by simpa [reachF, hget, hc] using hx
          exact this ▸ hself
        | ext s =>
          have : x = a := by simpa [reachF, hget, hc] using hx
          exact this ▸ hself
        | dict kvs =>
          simp only [reachF, hget, hc, List.mem_cons, List.mem_flatMap] at hx
          rcases hx with e | ⟨kv, hkv, hxk⟩
          · exact e ▸ hself
          · rcases hcl kv (by rw [hc]; exact hkv) with f1 | f1
            · exact ih kv.2 f1 x hxk
            · rw [hc] at f1; exact absurd f1 id
        | obj cls kvs =>
          simp only [reachF, hget, hc, List.mem_cons, List.mem_flatMap] at hx
          rcases hx with e | ⟨kv, hkv, hxk⟩
          · exact e ▸ hself
          · by_cases hsh : attrMode cls kv.1 = .shared
            · simp [hsh] at hxk
            · have hne : (attrMode cls kv.1 == Mode.shared) = false := by simpa using hsh
              rw [hne] at hxk
              rcases hcl kv (by rw [hc]; exact hkv) with f1 | f1
              · exact ih kv.2 f1 x hxk
              · rw [hc] at f1; exact absurd f1 hsh
      · -- an external resource of the source heap
        have hget : st.heap[a]? = some (Cell.ext s) := by rw [getElem?_prefix hi.pre h3]; exact h4
        have : x = a := by simpa [reachF, hget] using hx
        exact this ▸ hself

end StoreGraph

namespace StoreGraph
open Store (DS)

/-- what a deep copy guarantees, for either entry point -/
structure DeepCopied (h : Heap) (root : Ref) (res : Heap × Ref) : Prop where
  grow : h <+: res.1
  equal : view res.1 res.2 = view h root
  source_kept : view res.1 root = view h root
  disjoint : ∀ x ∈ reach res.1 res.2, h.length ≤ x ∨ isExtAt h x
  independent : ∀ (a : Nat) (c : Cell), h.length ≤ a → view (setCell res.1 a c) root = view h root

theorem deepCopied_of_post {h : Heap} {root : Ref} (hwf : WF h) (hr : RefIn h root) {res : St × Ref}
    (hp : Post h ⟨h, []⟩ root res) : DeepCopied h root (res.1.heap, res.2) :=
  ⟨hp.inv.pre, hp.eqv, view_prefix hp.inv.pre hwf hp.inv.wf root hr,
   fun x hx => reachF_fresh hp.inv _ _ hp.fresh x hx,
   fun a c ha => view_setCell_fresh hp.inv.pre hwf root hr a ha c⟩

theorem deepcopyRoot_spec (h : Heap) (root : Ref) (hwf : WF h) (hr : RefIn h root) :
    DeepCopied h root (deepcopyRoot h root) := by
  have hp := deepcopy_spec h hwf (h.length + 1) ⟨h, []⟩ root (inv_init h hwf)
    ⟨hr, fun a ha => by
      subst ha
      have : a < h.length := hr
      exact Nat.lt_succ_of_lt this⟩
  exact deepCopied_of_post hwf hr hp

theorem deepcopyMethod_spec (h : Heap) (a : Nat) (cls : String) (attrs : List (String × Ref)) (hwf : WF h)
    (ha : a < h.length) (hc : h[a] = .obj cls attrs) :
    DeepCopied h (.ptr a) (deepcopyMethod h (.ptr a)) := by
  have hget : h[a]? = some (.obj cls attrs) := by rw [List.getElem?_eq_getElem ha, hc]
  by_cases hpriv : methodPrivate cls = true
  · have hk : ∀ kv ∈ attrs, Pre h h.length kv.2 ∧ RefIn h kv.2 := by
      intro kv hkv
      have hr : RefIn h kv.2 := by
        cases hv : kv.2 with
        | ptr b => exact Nat.lt_trans (hwf a ha kv (by rw [hc]; exact hkv) b hv) ha
        | none => trivial
        | imm d => trivial
      refine ⟨⟨hr, fun b hb => ?_⟩, hr⟩
      exact Nat.lt_trans (hwf a ha kv (by rw [hc]; exact hkv) b hb) ha
    obtain ⟨i1, g1, k1⟩ := copyAttrs_spec h (deepcopy h.length) (Pre h h.length)
      (fun st r hi hp => deepcopy_spec h hwf h.length st r hi hp) hwf cls true attrs ⟨h, []⟩ (inv_init h hwf) hk
    have hres : deepcopyMethod h (.ptr a) =
        ((copyAttrs cls true (deepcopy h.length) ⟨h, []⟩ attrs).1.heap ++
           [.obj cls (copyAttrs cls true (deepcopy h.length) ⟨h, []⟩ attrs).2],
         .ptr (copyAttrs cls true (deepcopy h.length) ⟨h, []⟩ attrs).1.heap.length) := by
      simp only [deepcopyMethod, hget, hpriv]
      rfl
    rw [hres]
    set st1 := (copyAttrs cls true (deepcopy h.length) ⟨h, []⟩ attrs).1 with hst1
    set kvs' := (copyAttrs cls true (deepcopy h.length) ⟨h, []⟩ attrs).2 with hkvs'
    have hrefs := kidsOK_refs k1
    have hkin : ∀ kv ∈ kids (Cell.obj cls kvs'), RefIn st1.heap kv.2 := fun kv hkv => (hrefs kv hkv).1
    have hwf' : WF (st1.heap ++ [Cell.obj cls kvs']) := wf_append i1.wf _ hkin
    have hpre' : st1.heap <+: st1.heap ++ [Cell.obj cls kvs'] := List.prefix_append _ _
    have hv : view (st1.heap ++ [Cell.obj cls kvs']) (.ptr st1.heap.length) = view h (.ptr a) := by
      rw [view_ptr _ hwf' _ (by simp), view_ptr h hwf a ha, hget]
      simp only [List.getElem?_concat_length, viewCell]
      congr 1
      exact kidsOK_views (kidsOK_mono hpre' i1.wf hwf' _ k1)
    have hinv : Inv h ⟨st1.heap ++ [Cell.obj cls kvs'], st1.memo⟩ :=
      inv_append i1 (.obj cls kvs') _ hkin (fun kv hkv => by
        rcases (hrefs kv hkv).2 with e | e
        · exact Or.inl (freshRef_mono hpre' e)
        · exact Or.inr e) (fun p hp' => Or.inl hp')
    have hpost : Post h ⟨h, []⟩ (.ptr a) (⟨st1.heap ++ [Cell.obj cls kvs'], st1.memo⟩, .ptr st1.heap.length) :=
      ⟨hinv, g1.trans hpre', hv, Or.inl ⟨i1.pre.length_le, by simp⟩⟩
    exact deepCopied_of_post (root := .ptr a) hwf ha hpost
  · have hres : deepcopyMethod h (.ptr a) = deepcopyRoot h (.ptr a) := by
      have : methodPrivate cls = false := by simpa using hpriv
      simp only [deepcopyMethod, hget, this]
      rfl
    rw [hres]
    exact deepcopyRoot_spec h (.ptr a) hwf ha

end StoreGraph

namespace StoreGraph

theorem wf_of_wfB (h : Heap) (hb : wfB h = true) : WF h := by
  intro a ha kv hkv b hkb
  unfold wfB at hb
  rw [List.all_eq_true] at hb
  have h1 := hb a (List.mem_range.mpr ha)
  rw [List.all_eq_true] at h1
  have hg : h.getD a default = h[a] := by
    simp [List.getD_eq_getElem?_getD, List.getElem?_eq_getElem ha]
  rw [hg] at h1
  have h2 := h1 kv hkv
  rw [hkb] at h2
  simpa [ptrBelow] using h2

end StoreGraph
