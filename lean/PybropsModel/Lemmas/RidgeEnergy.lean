/-
The penalised least-squares criterion of rrBLUP and the Gauss–Seidel energy:

  ‖y_c − Z u‖² + ridge ‖u‖²  −  ‖y_c‖²  =  2 · ( ½ uᵀ(ZᵀZ + ridge I)u − (Zᵀy_c)ᵀu )

first for functions (`psse_sub_eq_energy`), then for the list model (`psse_sub_psse_zero`).
-/
import PybropsModel.Lemmas.GaussSeidelList
set_option autoImplicit false
set_option linter.unusedSectionVars false
set_option linter.unusedSimpArgs false
set_option linter.unusedVariables false

namespace Ridge
open Finset BigOperators GMod RRBlup GSFn GSList

variable {α : Type} [Field α] [LinearOrder α] [IsStrictOrderedRing α]

def psseFn (n p : ℕ) (Zf : ℕ → ℕ → α) (yc : ℕ → α) (ridge : α) (u : ℕ → α) : α :=
  ∑ i ∈ range n, (yc i - ∑ j ∈ range p, Zf i j * u j) * (yc i - ∑ j ∈ range p, Zf i j * u j)
    + ridge * ∑ j ∈ range p, u j * u j

def Afn (n : ℕ) (Zf : ℕ → ℕ → α) (ridge : α) : ℕ → ℕ → α :=
  fun j k => ∑ i ∈ range n, Zf i j * Zf i k + (if j = k then ridge else 0)

def bfn (n : ℕ) (Zf : ℕ → ℕ → α) (yc : ℕ → α) : ℕ → α := fun j => ∑ i ∈ range n, Zf i j * yc i

theorem quad_expand (n p : ℕ) (Zf : ℕ → ℕ → α) (ridge : α) (u : ℕ → α) :
    ∑ j ∈ range p, ∑ k ∈ range p, Afn n Zf ridge j k * u j * u k
      = ∑ i ∈ range n, (∑ j ∈ range p, Zf i j * u j) * (∑ j ∈ range p, Zf i j * u j)
        + ridge * ∑ j ∈ range p, u j * u j := by
  unfold Afn
  have h1 : ∀ j k, (∑ i ∈ range n, Zf i j * Zf i k + (if j = k then ridge else 0)) * u j * u k
      = ∑ i ∈ range n, (Zf i j * u j) * (Zf i k * u k) + (if j = k then ridge * u j * u k else 0) := by
    intro j k
    rw [add_mul, add_mul, Finset.sum_mul, Finset.sum_mul]
    congr 1
    · apply Finset.sum_congr rfl; intro i _; ring
    · split <;> simp
  simp only [h1, Finset.sum_add_distrib]
  congr 1
  · -- Σ_j Σ_k Σ_i = Σ_i Σ_j Σ_k
    have : ∀ i, (∑ j ∈ range p, Zf i j * u j) * (∑ j ∈ range p, Zf i j * u j)
        = ∑ j ∈ range p, ∑ k ∈ range p, (Zf i j * u j) * (Zf i k * u k) := by
      intro i; rw [Finset.sum_mul_sum]
    simp only [this]
    rw [show ∑ j ∈ range p, ∑ k ∈ range p, ∑ i ∈ range n, (Zf i j * u j) * (Zf i k * u k)
          = ∑ j ∈ range p, ∑ i ∈ range n, ∑ k ∈ range p, (Zf i j * u j) * (Zf i k * u k) from
        Finset.sum_congr rfl (fun j _ => Finset.sum_comm)]
    rw [Finset.sum_comm]
  · rw [Finset.mul_sum]
    apply Finset.sum_congr rfl
    intro j hj
    rw [Finset.sum_ite_eq (range p) j (fun k => ridge * u j * u k)]
    simp [hj, mul_assoc]

theorem lin_expand (n p : ℕ) (Zf : ℕ → ℕ → α) (yc u : ℕ → α) :
    ∑ j ∈ range p, bfn n Zf yc j * u j = ∑ i ∈ range n, yc i * ∑ j ∈ range p, Zf i j * u j := by
  unfold bfn
  simp only [Finset.sum_mul, Finset.mul_sum]
  rw [Finset.sum_comm]
  apply Finset.sum_congr rfl; intro i _
  apply Finset.sum_congr rfl; intro j _
  ring

/-- criterion(u) − criterion(0) = 2 · energy(u) -/
theorem psse_sub_eq_energy (n p : ℕ) (Zf : ℕ → ℕ → α) (yc : ℕ → α) (ridge : α) (u : ℕ → α) :
    psseFn n p Zf yc ridge u - psseFn n p Zf yc ridge (fun _ => 0)
      = 2 * energy p (Afn n Zf ridge) (bfn n Zf yc) u := by
  unfold energy
  rw [quad_expand, lin_expand]
  unfold psseFn
  simp only [mul_zero, Finset.sum_const_zero, sub_zero]
  have : ∀ i, (yc i - ∑ j ∈ range p, Zf i j * u j) * (yc i - ∑ j ∈ range p, Zf i j * u j)
      = yc i * yc i - 2 * (yc i * ∑ j ∈ range p, Zf i j * u j)
        + (∑ j ∈ range p, Zf i j * u j) * (∑ j ∈ range p, Zf i j * u j) := by
    intro i; ring
  simp only [this, Finset.sum_add_distrib, Finset.sum_sub_distrib, ← Finset.mul_sum]
  ring

theorem Afn_symm (n : ℕ) (Zf : ℕ → ℕ → α) (ridge : α) (j k : ℕ) : Afn n Zf ridge j k = Afn n Zf ridge k j := by
  unfold Afn
  congr 1
  · apply Finset.sum_congr rfl; intro i _; ring
  · by_cases h : j = k
    · subst h; rfl
    · simp [h, Ne.symm h]

theorem Afn_diag_pos (n : ℕ) (Zf : ℕ → ℕ → α) (ridge : α) (hr : 0 < ridge) (j : ℕ) : 0 < Afn n Zf ridge j j := by
  unfold Afn
  simp only [if_true]
  have : 0 ≤ ∑ i ∈ range n, Zf i j * Zf i j := Finset.sum_nonneg (fun i _ => mul_self_nonneg _)
  linarith

theorem energy_congr (n : ℕ) (A A' : ℕ → ℕ → α) (b b' x : ℕ → α)
    (hA : ∀ i j, i < n → j < n → A i j = A' i j) (hb : ∀ i, i < n → b i = b' i) :
    energy n A b x = energy n A' b' x := by
  unfold energy
  congr 1
  · congr 1
    apply Finset.sum_congr rfl; intro i hi
    apply Finset.sum_congr rfl; intro j hj
    rw [hA i j (Finset.mem_range.mp hi) (Finset.mem_range.mp hj)]
  · apply Finset.sum_congr rfl; intro i hi
    rw [hb i (Finset.mem_range.mp hi)]

/-! ### the list model -/

/-- generic `zipWith … |>.sum` as a finite sum -/
theorem zipWith_sum {β γ : Type} (f : β → γ → α) (a : List β) (b : List γ) (m : ℕ) (da : β) (db : γ)
    (ha : a.length = m) (hb : b.length = m) :
    (List.zipWith f a b).sum = ∑ i ∈ range m, f (a.getD i da) (b.getD i db) := by
  induction a generalizing b m with
  | nil => simp at ha; subst ha; simp
  | cons x xs ih =>
    cases b with
    | nil => simp at hb; subst hb; simp at ha
    | cons y ys =>
      cases m with
      | zero => simp at ha
      | succ m =>
        rw [List.zipWith_cons_cons, List.sum_cons, Finset.sum_range_succ',
            ih ys m (by simpa using ha) (by simpa using hb)]
        simp [add_comm]

/-- rectangular matrix -/
def Rect (Z : List (List α)) (n p : ℕ) : Prop := Z.length = n ∧ ∀ r ∈ Z, r.length = p

theorem col_length (Z : List (List α)) (j : ℕ) : (col Z j).length = Z.length := by simp [col]

theorem vecFn_col (Z : List (List α)) (i j : ℕ) (hi : i < Z.length) : vecFn (col Z j) i = matFn Z i j := by
  unfold vecFn col matFn
  simp [List.getD_eq_getElem?_getD, List.getElem?_map, List.getElem?_eq_getElem hi]

theorem dot_col_col (Z : List (List α)) (n : ℕ) (hn : Z.length = n) (j k : ℕ) :
    dot (col Z j) (col Z k) = ∑ i ∈ range n, matFn Z i j * matFn Z i k := by
  rw [dot_eq_sum _ _ n (by rw [col_length, hn]) (by rw [col_length, hn])]
  apply Finset.sum_congr rfl
  intro i hi
  have : i < Z.length := by rw [hn]; exact Finset.mem_range.mp hi
  rw [vecFn_col Z i j this, vecFn_col Z i k this]

theorem matFn_ztz (Z : List (List α)) (n p : ℕ) (hn : Z.length = n) (ridge : α) (j k : ℕ) (hj : j < p) (hk : k < p) :
    matFn (ztzPlusRidge Z p ridge) j k = Afn n (matFn Z) ridge j k := by
  unfold matFn ztzPlusRidge Afn
  simp only [List.getD_eq_getElem?_getD, List.getElem?_map, List.getElem?_range hj, List.getElem?_range hk,
    Option.map_some, Option.getD_some]
  by_cases h : j = k
  · simp only [h, if_true]; rw [dot_col_col Z n hn]; rfl
  · simp only [h, if_false, add_zero]; rw [dot_col_col Z n hn]; rfl

theorem vecFn_zty (Z : List (List α)) (n p : ℕ) (hn : Z.length = n) (yc : List α) (hy : yc.length = n)
    (j : ℕ) (hj : j < p) :
    vecFn (zty Z p yc) j = bfn n (matFn Z) (vecFn yc) j := by
  unfold vecFn zty bfn
  simp only [List.getD_eq_getElem?_getD, List.getElem?_map, List.getElem?_range hj, Option.map_some,
    Option.getD_some]
  rw [dot_eq_sum _ _ n (by rw [col_length, hn]) hy]
  apply Finset.sum_congr rfl
  intro i hi
  have : i < Z.length := by rw [hn]; exact Finset.mem_range.mp hi
  rw [vecFn_col Z i j this]
  rfl

theorem square_ztz (Z : List (List α)) (p : ℕ) (ridge : α) (yc : List α) :
    Square p (ztzPlusRidge Z p ridge) (zty Z p yc) := by
  refine ⟨by simp [ztzPlusRidge], ?_, by simp [zty]⟩
  intro r hr
  simp only [ztzPlusRidge, List.mem_map] at hr
  obtain ⟨i, _, rfl⟩ := hr
  simp

theorem symPosDiag_ztz (Z : List (List α)) (n p : ℕ) (hn : Z.length = n) (ridge : α) (hr : 0 < ridge) :
    SymPosDiag p (ztzPlusRidge Z p ridge) := by
  refine ⟨?_, ?_⟩
  · intro i j hi hj
    rw [matFn_ztz Z n p hn ridge i j hi hj, matFn_ztz Z n p hn ridge j i hj hi, Afn_symm]
  · intro i hi
    rw [matFn_ztz Z n p hn ridge i i hi hi]
    exact Afn_diag_pos n _ ridge hr i

/-- the list criterion as the function criterion -/
theorem psse_fn (y : List α) (Z : List (List α)) (n p : ℕ) (hZ : Rect Z n p) (hy : y.length = n)
    (ridge : α) (u : List α) (hu : u.length = p) :
    psse y Z ridge u = psseFn n p (matFn Z) (vecFn (center y)) ridge (vecFn u) := by
  unfold psse psseFn
  have hc : (center y).length = n := by simp [center, hy]
  rw [zipWith_sum (fun yc z => (yc - dot z u) * (yc - dot z u)) (center y) Z n 0 [] hc hZ.1,
      dot_eq_sum u u p hu hu]
  congr 1
  apply Finset.sum_congr rfl
  intro i hi
  have hi' : i < Z.length := by rw [hZ.1]; exact Finset.mem_range.mp hi
  have hrow : (Z.getD i []).length = p := by
    rw [List.getD_eq_getElem?_getD, List.getElem?_eq_getElem hi']
    exact hZ.2 _ (List.getElem_mem hi')
  rw [dot_eq_sum (Z.getD i []) u p hrow hu]
  rfl

/-- **criterion(u) − criterion(0) = 2 · energy(u)** for the list model of `rrBLUP_ML0` -/
theorem psse_sub_psse_zero (y : List α) (Z : List (List α)) (n p : ℕ) (hZ : Rect Z n p) (hy : y.length = n)
    (ridge : α) (u : List α) (hu : u.length = p) :
    psse y Z ridge u - psse y Z ridge (List.replicate p 0)
      = 2 * energyL p (ztzPlusRidge Z p ridge) (zty Z p (center y)) u := by
  rw [psse_fn y Z n p hZ hy ridge u hu, psse_fn y Z n p hZ hy ridge (List.replicate p 0) (by simp)]
  have hz : vecFn (List.replicate p (0:α)) = fun _ => 0 := by
    funext i
    unfold vecFn
    rw [List.getD_eq_getElem?_getD]
    by_cases h : i < p
    · simp [List.getElem?_replicate, h]
    · simp [List.getElem?_replicate, h]
  rw [hz, psse_sub_eq_energy]
  unfold energyL
  congr 1
  have hc : (center y).length = n := by simp [center, hy]
  exact (energy_congr p _ _ _ _ _
    (fun i j hi hj => (matFn_ztz Z n p hZ.1 ridge i j hi hj).symm)
    (fun i hi => (vecFn_zty Z n p hZ.1 (center y) hc i hi).symm))

end Ridge
