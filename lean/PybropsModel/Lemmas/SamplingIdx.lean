/-
Helper lemmas for C17, axis_shuffle: the index tuples of a shape (`allIdx`: membership, no duplicates,
number), the slice key ignores the coordinate at a free axis, association-list look-ups.
-/
import PybropsModel.Lemmas.SamplingBasic
set_option autoImplicit false
set_option linter.unusedSectionVars false
namespace Sampling

theorem mem_allIdx (shape m : List Nat) : m ∈ allIdx shape ↔ List.Forall₂ (· < ·) m shape := by
  induction shape generalizing m with
  | nil => simp [allIdx]
  | cons n rest ih =>
    simp only [allIdx, List.mem_flatMap, List.mem_range, List.mem_map]
    constructor
    · rintro ⟨i, hi, m', hm', rfl⟩
      exact List.Forall₂.cons hi ((ih m').mp hm')
    · intro h
      cases h with
      | cons hi hrest => exact ⟨_, hi, _, (ih _).mpr hrest, rfl⟩

theorem allIdx_nodup (shape : List Nat) : (allIdx shape).Nodup := by
  induction shape with
  | nil => simp [allIdx]
  | cons n rest ih =>
    simp only [allIdx]
    rw [List.nodup_flatMap]
    constructor
    · intro i _
      exact ih.map (fun a b h => by injection h)
    · refine (List.nodup_range (n := n)).imp ?_
      intro i j hij
      simp only [Function.onFun]
      rw [List.disjoint_left]
      intro m hm1 hm2
      obtain ⟨a, _, rfl⟩ := List.mem_map.mp hm1
      obtain ⟨b, _, hb⟩ := List.mem_map.mp hm2
      injection hb with h1 _
      exact hij h1.symm

theorem allIdx_length (shape : List Nat) : (allIdx shape).length = shape.prod := by
  induction shape with
  | nil => simp [allIdx]
  | cons n rest ih =>
    simp only [allIdx, List.length_flatMap, List.length_map, ih, List.prod_cons]
    rw [List.map_const', List.sum_replicate]
    simp

theorem axisKeyFrom_set (axis : List Nat) (k : Nat) (m : List Nat) (t v : Nat)
    (h : axis.contains (k + t) = false) : axisKeyFrom axis k (m.set t v) = axisKeyFrom axis k m := by
  induction m generalizing k t with
  | nil => simp
  | cons c m ih =>
    cases t with
    | zero =>
      simp only [List.set_cons_zero, axisKeyFrom]
      rw [Nat.add_zero] at h
      have h' : ¬ k ∈ axis := by simpa using h
      simp [h']
    | succ t =>
      simp only [List.set_cons_succ, axisKeyFrom]
      rw [ih (k + 1) t (by rw [← h]; congr 1; omega)]

theorem firstFree_some (axis : List Nat) (n f : Nat) (h : firstFree axis n = some f) :
    f < n ∧ axis.contains f = false := by
  unfold firstFree at h
  have h1 := List.mem_of_find?_eq_some h
  have h2 := List.find?_some h
  exact ⟨List.mem_range.mp h1, by simpa using h2⟩

theorem lookup_zip_mem {κ ν : Type} [BEq κ] (ks : List κ) (vs : List ν) (k : κ) (v : ν)
    (h : (ks.zip vs).lookup k = some v) : v ∈ vs := by
  induction ks generalizing vs with
  | nil => simp at h
  | cons k0 ks ih =>
    cases vs with
    | nil => simp at h
    | cons v0 vs =>
      simp only [List.zip_cons_cons, List.lookup_cons] at h
      split at h
      · injection h with h; subst h; exact List.mem_cons_self
      · exact List.mem_cons_of_mem _ (ih vs h)

theorem lookup_zip_getElem {κ ν : Type} [BEq κ] [LawfulBEq κ] (ks : List κ) (vs : List ν) (hnd : ks.Nodup)
    (hl : vs.length = ks.length) (t : Nat) (ht : t < ks.length) :
    (ks.zip vs).lookup ks[t] = some (vs[t]'(hl ▸ ht)) := by
  induction ks generalizing vs t with
  | nil => simp at ht
  | cons k0 ks ih =>
    cases vs with
    | nil => simp at hl
    | cons v0 vs =>
      simp only [List.length_cons, Nat.add_right_cancel_iff] at hl
      rw [List.nodup_cons] at hnd
      cases t with
      | zero => simp [List.lookup_cons]
      | succ t =>
        simp only [List.length_cons, Nat.add_lt_add_iff_right] at ht
        simp only [List.zip_cons_cons, List.getElem_cons_succ, List.lookup_cons]
        have hne : (ks[t] == k0) = false := by
          rw [beq_eq_false_iff_ne]
          exact fun h => hnd.1 (h ▸ List.getElem_mem ht)
        rw [hne]
        exact ih vs hnd.2 hl t ht

end Sampling
