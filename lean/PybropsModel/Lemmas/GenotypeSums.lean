/-
Helper lemmas for C09/C10: sums and counts over columns of genotype matrices.
-/
import Mathlib.Tactic
import PybropsModel.Model.Genotype
set_option autoImplicit false

namespace Genotype

/-! ### integer lists with entries in `0..P` -/

theorem sum_nonneg_of_mem {l : List Int} (h : ∀ x ∈ l, 0 ≤ x) : 0 ≤ l.sum := by
  induction l with
  | nil => simp
  | cons a t ih =>
    simp only [List.sum_cons]
    have := h a (by simp)
    have := ih (fun x hx => h x (by simp [hx]))
    omega

theorem sum_le_of_mem {l : List Int} {P : Int} (h : ∀ x ∈ l, x ≤ P) : l.sum ≤ P * l.length := by
  induction l with
  | nil => simp
  | cons a t ih =>
    simp only [List.sum_cons, List.length_cons]
    have := h a (by simp)
    have := ih (fun x hx => h x (by simp [hx]))
    push_cast
    nlinarith

theorem sum_eq_zero_iff_of_nonneg {l : List Int} (h : ∀ x ∈ l, 0 ≤ x) : l.sum = 0 ↔ ∀ x ∈ l, x = 0 := by
  induction l with
  | nil => simp
  | cons a t ih =>
    have ha := h a (by simp)
    have ht : ∀ x ∈ t, 0 ≤ x := fun x hx => h x (by simp [hx])
    have hs := sum_nonneg_of_mem ht
    simp only [List.sum_cons, List.mem_cons, forall_eq_or_imp]
    rw [← ih ht]
    constructor
    · intro h0; constructor <;> omega
    · rintro ⟨h1, h2⟩; omega

theorem sum_eq_max_iff {l : List Int} {P : Int} (h : ∀ x ∈ l, x ≤ P) :
    l.sum = P * l.length ↔ ∀ x ∈ l, x = P := by
  induction l with
  | nil => simp
  | cons a t ih =>
    have ha := h a (by simp)
    have ht : ∀ x ∈ t, x ≤ P := fun x hx => h x (by simp [hx])
    have hs := sum_le_of_mem ht
    simp only [List.sum_cons, List.length_cons, List.mem_cons, forall_eq_or_imp]
    rw [← ih ht]
    push_cast
    constructor
    · intro h0; constructor <;> nlinarith
    · rintro ⟨h1, h2⟩; rw [h1, h2]; ring

/-- a binary list sums to the number of its ones -/
theorem sum_eq_count_one {l : List Int} (h : ∀ x ∈ l, x = 0 ∨ x = 1) : l.sum = (l.count 1 : Nat) := by
  induction l with
  | nil => simp
  | cons a t ih =>
    have ht := ih (fun x hx => h x (by simp [hx]))
    rcases h a (by simp) with rfl | rfl
    · simp [List.count_cons, ht]
    · simp only [List.sum_cons, List.count_cons, ht, beq_self_eq_true, if_true]
      push_cast; ring

/-- exactly one class `i ∈ 0..P-1` equals a dosage `x ∈ 0..P-1` -/
theorem sum_indicator_range (x : Int) (P : Nat) :
    ((List.range P).map (fun (i : Nat) => if x = (i : Int) then (1 : Nat) else 0)).sum
      = if 0 ≤ x ∧ x < P then 1 else 0 := by
  induction P with
  | zero =>
    simp only [List.range_zero, List.map_nil, List.sum_nil]
    rw [if_neg]; push_cast; omega
  | succ P ih =>
    rw [List.range_succ, List.map_append, List.sum_append, ih]
    simp only [List.map_cons, List.map_nil, List.sum_cons, List.sum_nil, Nat.add_zero]
    push_cast
    by_cases h1 : x = (P : Int)
    · subst h1
      simp
    · by_cases h2 : 0 ≤ x ∧ x < (P : Int)
      · rw [if_pos h2, if_neg h1, if_pos (by omega)]
      · rw [if_neg h2, if_neg h1, if_neg (by omega)]

/-- the class counts `0..P` of a list with entries in `0..P` add up to its length -/
theorem sum_count_classes {l : List Int} {P : Nat} (h : ∀ x ∈ l, 0 ≤ x ∧ x ≤ (P : Int)) :
    ((List.range (P + 1)).map (fun (i : Nat) => l.count (i : Int))).sum = l.length := by
  induction l with
  | nil => simp
  | cons a t ih =>
    have ht := ih (fun x hx => h x (by simp [hx]))
    have ha := h a (by simp)
    have hsplit : ((List.range (P + 1)).map (fun (i : Nat) => (a :: t).count (i : Int))).sum
        = ((List.range (P + 1)).map (fun (i : Nat) => t.count (i : Int))).sum
          + ((List.range (P + 1)).map (fun (i : Nat) => if a = (i : Int) then (1 : Nat) else 0)).sum := by
      rw [← List.sum_map_add]
      congr 1
      apply List.map_congr_left
      intro i _
      rw [List.count_cons]
      by_cases hai : a = (i : Int)
      · simp [hai]
      · have : ¬ ((a == (i : Int)) = true) := by simpa using hai
        simp [hai]
    rw [hsplit, ht, sum_indicator_range, if_pos (by push_cast; omega)]
    simp

/-! ### columns -/

theorem col_length (m : UMat) (j : Nat) : (col m j).length = m.length := by simp [col]

theorem entry_mem_or_zero (r : List Int) (j : Nat) : entry r j ∈ r ∨ entry r j = 0 := by
  unfold entry
  by_cases h : j < r.length
  · left
    rw [List.getD_eq_getElem?_getD, List.getElem?_eq_getElem h]
    exact List.getElem_mem h
  · right
    rw [List.getD_eq_getElem?_getD, List.getElem?_eq_none (by omega)]
    rfl

theorem col_bounds {ploidy nv : Nat} {m : UMat} (hv : ValidU ploidy nv m) (j : Nat) :
    ∀ x ∈ col m j, 0 ≤ x ∧ x ≤ (ploidy : Int) := by
  intro x hx
  obtain ⟨r, hr, rfl⟩ := List.mem_map.mp hx
  rcases entry_mem_or_zero r j with h | h
  · exact (hv.2.2 r hr).2 _ h
  · rw [h]; exact ⟨le_refl _, by positivity⟩

theorem map_eq_range_getD {β γ : Type} (l : List β) (d : β) (f : β → γ) :
    l.map f = (List.range l.length).map (fun i => f (l.getD i d)) := by
  apply List.ext_getElem
  · simp
  · intro i h1 h2
    simp only [List.length_map] at h1
    simp [List.getD_eq_getElem?_getD, List.getElem?_eq_getElem h1]

theorem sum_flatMap_int {β : Type} (l : List β) (f : β → List Int) :
    (l.flatMap f).sum = (l.map (fun b => (f b).sum)).sum := by
  induction l with
  | nil => simp
  | cons a t ih => simp [List.flatMap_cons, List.sum_append, ih]

/-- exchanging the two summations of a rectangular array given as a list of rows -/
theorem sum_sum_comm {β : Type} (G : List β) (n : Nat) (f : β → Nat → Int) :
    (G.map (fun b => ((List.range n).map (f b)).sum)).sum
      = ((List.range n).map (fun i => (G.map (fun b => f b i)).sum)).sum := by
  induction G with
  | nil => simp
  | cons a t ih =>
    simp only [List.map_cons, List.sum_cons, ih]
    rw [← List.sum_map_add]

end Genotype
