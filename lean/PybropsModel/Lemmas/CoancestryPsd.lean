/-
Helper lemmas for C13: the exact positive-semidefiniteness test of the Spec oracle (`Spec.psdGo`, symmetric
elimination with Schur complements) is *sound*: whenever it answers `true` on a symmetric square rational
matrix, the quadratic form of that matrix is non-negative on every vector.
-/
import PybropsModel.Model.CoancestrySpec
import PybropsModel.Lemmas.CoancestryEst
import PybropsModel.Lemmas.CoancestryJitter
import Mathlib.Tactic
set_option autoImplicit false
set_option linter.unusedSectionVars false

namespace Coancestry
open Finset

section algebra
variable {α : Type} [Field α]

/-- first row and column split off a double sum over `range (n+1)` -/
theorem quad_peel (n : Nat) (a : Nat → Nat → α) (v : Nat → α) :
    ∑ i ∈ range (n + 1), ∑ j ∈ range (n + 1), v i * a i j * v j
      = v 0 * a 0 0 * v 0 + (∑ j ∈ range n, v 0 * a 0 (j + 1) * v (j + 1))
        + (∑ i ∈ range n, v (i + 1) * a (i + 1) 0 * v 0)
        + ∑ i ∈ range n, ∑ j ∈ range n, v (i + 1) * a (i + 1) (j + 1) * v (j + 1) := by
  rw [Finset.sum_range_succ']
  rw [Finset.sum_range_succ' (fun j => v 0 * a 0 j * v j)]
  have : ∀ i, ∑ j ∈ range (n + 1), v (i + 1) * a (i + 1) j * v j
      = ∑ j ∈ range n, v (i + 1) * a (i + 1) (j + 1) * v (j + 1) + v (i + 1) * a (i + 1) 0 * v 0 := by
    intro i
    rw [Finset.sum_range_succ']
  simp_rw [this]
  rw [Finset.sum_add_distrib]
  ring

/-- completing the square on the first coordinate (pivot `d = a 0 0 ≠ 0`, first column = first row) -/
theorem quad_schur (n : Nat) (a : Nat → Nat → α) (v : Nat → α) (hd : a 0 0 ≠ 0)
    (hsym0 : ∀ i < n, a (i + 1) 0 = a 0 (i + 1)) :
    ∑ i ∈ range (n + 1), ∑ j ∈ range (n + 1), v i * a i j * v j
      = a 0 0 * (v 0 + (∑ j ∈ range n, a 0 (j + 1) * v (j + 1)) / a 0 0) ^ 2
        + ∑ i ∈ range n, ∑ j ∈ range n,
            v (i + 1) * (a (i + 1) (j + 1) - a (i + 1) 0 / a 0 0 * a 0 (j + 1)) * v (j + 1) := by
  rw [quad_peel]
  set ρ := ∑ j ∈ range n, a 0 (j + 1) * v (j + 1) with hρ
  have h1 : ∑ j ∈ range n, v 0 * a 0 (j + 1) * v (j + 1) = v 0 * ρ := by
    rw [hρ, Finset.mul_sum]; apply Finset.sum_congr rfl; intro j _; ring
  have h2 : ∑ i ∈ range n, v (i + 1) * a (i + 1) 0 * v 0 = v 0 * ρ := by
    rw [hρ, Finset.mul_sum]; apply Finset.sum_congr rfl; intro i hi
    rw [hsym0 i (Finset.mem_range.mp hi)]; ring
  have h3 : ∑ i ∈ range n, ∑ j ∈ range n,
        v (i + 1) * (a (i + 1) (j + 1) - a (i + 1) 0 / a 0 0 * a 0 (j + 1)) * v (j + 1)
      = (∑ i ∈ range n, ∑ j ∈ range n, v (i + 1) * a (i + 1) (j + 1) * v (j + 1)) - ρ * ρ / a 0 0 := by
    have : ρ * ρ / a 0 0 = ∑ i ∈ range n, ∑ j ∈ range n,
        v (i + 1) * (a (i + 1) 0 / a 0 0 * a 0 (j + 1)) * v (j + 1) := by
      rw [hρ, Finset.sum_mul_sum, Finset.sum_div]
      apply Finset.sum_congr rfl; intro i hi
      rw [Finset.sum_div]
      apply Finset.sum_congr rfl; intro j _
      rw [hsym0 i (Finset.mem_range.mp hi)]
      field_simp
    rw [this, ← Finset.sum_sub_distrib]
    apply Finset.sum_congr rfl; intro i _
    rw [← Finset.sum_sub_distrib]
    apply Finset.sum_congr rfl; intro j _
    ring
  rw [h1, h2, h3]
  field_simp
  ring

end algebra

/-! ### entries of the matrices the elimination recurses on -/
section entries
variable {α : Type} [Field α]

theorem entry_cons_zero_zero (d : α) (r : List α) (rest : List (List α)) :
    entry ((d :: r) :: rest) 0 0 = d := by simp [entry]

theorem entry_cons_zero_succ (d : α) (r : List α) (rest : List (List α)) (j : Nat) :
    entry ((d :: r) :: rest) 0 (j + 1) = r.getD j 0 := by simp [entry]

theorem entry_cons_succ (row : List α) (rest : List (List α)) (i j : Nat) :
    entry (row :: rest) (i + 1) j = entry rest i j := by simp [entry]

theorem getD_drop_one (row : List α) (j : Nat) : (row.drop 1).getD j 0 = row.getD (j + 1) 0 := by
  simp [List.getD_eq_getElem?_getD]

theorem entry_map_rows (f : List α → List α) (rest : List (List α)) (i j : Nat) (hi : i < rest.length) :
    entry (rest.map f) i j = (f (rest.getD i [])).getD j 0 := by
  unfold entry
  rw [getD_map' f rest i [] [] hi]

end entries

/-! ### soundness of `psdGo` -/
section sound
open Spec

theorem psdGo_sound (fuel : Nat) : ∀ (A : QM) (n : Nat), Rect n n A →
    (∀ i < n, ∀ j < n, entry A i j = entry A j i) → n ≤ fuel → psdGo fuel A = true →
    ∀ v : Nat → ℚ, 0 ≤ quad n A v := by
  induction fuel with
  | zero =>
    intro A n _ _ hn _ v
    have : n = 0 := Nat.le_zero.mp hn
    subst this
    simp [quad]
  | succ fuel ih =>
    intro A n hA hsym hn h v
    match A, hA, hsym, h with
    | [], hA, _, _ =>
      have : n = 0 := by simpa using hA.1.symm
      subst this; simp [quad]
    | [] :: rest, hA, _, _ =>
      -- a row of length 0 in an n × n matrix with n ≥ 1 rows: impossible
      have hn1 : n = rest.length + 1 := by simpa using hA.1.symm
      have := hA.2 [] (by simp)
      simp at this
      omega
    | (d :: r) :: rest, hA, hsym, h =>
      have hn1 : n = rest.length + 1 := by simpa using hA.1.symm
      obtain ⟨n', rfl⟩ : ∃ n', n = n' + 1 := ⟨rest.length, hn1⟩
      have hrest_len : rest.length = n' := by omega
      have hr_len : r.length = n' := by
        have := hA.2 (d :: r) (by simp)
        simpa using this
      have hrows : ∀ row ∈ rest, row.length = n' + 1 := fun row hrow => hA.2 row (by simp [hrow])
      -- entries of A in terms of d, r, rest
      have e00 : entry ((d :: r) :: rest) 0 0 = d := entry_cons_zero_zero d r rest
      have e0j : ∀ j, entry ((d :: r) :: rest) 0 (j + 1) = r.getD j 0 := entry_cons_zero_succ d r rest
      have eij : ∀ i j, entry ((d :: r) :: rest) (i + 1) j = entry rest i j := entry_cons_succ (d :: r) rest
      have hsym0 : ∀ i < n', entry rest i 0 = r.getD i 0 := by
        intro i hi
        have := hsym (i + 1) (by omega) 0 (by omega)
        rw [eij, e0j] at this
        exact this
      unfold quad
      simp only [psdGo] at h
      by_cases hdneg : d < 0
      · simp [hdneg] at h
      · simp only [hdneg, if_false] at h
        by_cases hd0 : (d == 0) = true
        · -- zero pivot: the rest of the first row is zero, recurse on the lower-right block
          have hd : d = 0 := by simpa using hd0
          simp only [hd0, if_true, Bool.and_eq_true] at h
          obtain ⟨hrz, hrec⟩ := h
          have hr0 : ∀ j < n', r.getD j 0 = 0 := by
            intro j hj
            have hj' : j < r.length := hr_len ▸ hj
            have := List.all_eq_true.mp hrz (r[j]) (List.getElem_mem hj')
            rw [List.getD_eq_getElem?_getD, List.getElem?_eq_getElem hj', Option.getD_some]
            simpa using this
          set Bm := rest.map (fun row => row.drop 1) with hB
          have hBrect : Rect n' n' Bm := by
            refine ⟨by simp [hB, hrest_len], ?_⟩
            intro row hrow
            simp only [hB, List.mem_map] at hrow
            obtain ⟨row', hrow', rfl⟩ := hrow
            simp [hrows row' hrow']
          have hBentry : ∀ i < n', ∀ j, entry Bm i j = entry rest i (j + 1) := by
            intro i hi j
            rw [hB, entry_map_rows _ rest i j (hrest_len ▸ hi), getD_drop_one]
            rfl
          have hBsym : ∀ i < n', ∀ j < n', entry Bm i j = entry Bm j i := by
            intro i hi j hj
            rw [hBentry i hi j, hBentry j hj i, ← eij, ← eij]
            exact hsym (i + 1) (by omega) (j + 1) (by omega)
          have hrecB := ih Bm n' hBrect hBsym (by omega) hrec (fun i => v (i + 1))
          rw [quad_peel]
          have z1 : ∑ j ∈ range n', v 0 * entry ((d :: r) :: rest) 0 (j + 1) * v (j + 1) = 0 := by
            apply Finset.sum_eq_zero; intro j hj
            rw [e0j, hr0 j (Finset.mem_range.mp hj)]; ring
          have z2 : ∑ i ∈ range n', v (i + 1) * entry ((d :: r) :: rest) (i + 1) 0 * v 0 = 0 := by
            apply Finset.sum_eq_zero; intro i hi
            have hi' := Finset.mem_range.mp hi
            rw [eij, hsym0 i hi', hr0 i hi']; ring
          rw [z1, z2, e00]
          have : ∑ i ∈ range n', ∑ j ∈ range n', v (i + 1) * entry ((d :: r) :: rest) (i + 1) (j + 1) * v (j + 1)
              = quad n' Bm (fun i => v (i + 1)) := by
            unfold quad
            apply Finset.sum_congr rfl; intro i hi
            apply Finset.sum_congr rfl; intro j _
            rw [eij, hBentry i (Finset.mem_range.mp hi) j]
          rw [this, hd]
          simpa using hrecB
        · -- positive pivot: recurse on the Schur complement
          have hdne : d ≠ 0 := by simpa using hd0
          have hdpos : 0 < d := lt_of_le_of_ne (not_lt.mp hdneg) (Ne.symm hdne)
          simp only [hd0, Bool.false_eq_true, if_false] at h
          set Sm := rest.map (fun row =>
            List.zipWith (fun x y => x - (row.headD 0 / d) * y) (row.drop 1) r) with hS
          have hSrect : Rect n' n' Sm := by
            refine ⟨by simp [hS, hrest_len], ?_⟩
            intro row hrow
            simp only [hS, List.mem_map] at hrow
            obtain ⟨row', hrow', rfl⟩ := hrow
            simp [hrows row' hrow', hr_len]
          have hSentry : ∀ i < n', ∀ j < n', entry Sm i j
              = entry rest i (j + 1) - entry rest i 0 / d * r.getD j 0 := by
            intro i hi j hj
            have hil : i < rest.length := hrest_len ▸ hi
            rw [hS, entry_map_rows _ rest i j hil]
            have hrow : (rest.getD i []).length = n' + 1 := by
              rw [List.getD_eq_getElem?_getD, List.getElem?_eq_getElem hil, Option.getD_some]
              exact hrows _ (List.getElem_mem hil)
            rw [getD_zipWith _ _ _ j 0 0 0 (by rw [List.length_drop, hrow]; omega) (hr_len ▸ hj), getD_drop_one]
            have hh : (rest.getD i []).headD 0 = (rest.getD i []).getD 0 0 := by
              cases rest.getD i [] <;> rfl
            rw [hh]
            rfl
          have hSsym : ∀ i < n', ∀ j < n', entry Sm i j = entry Sm j i := by
            intro i hi j hj
            rw [hSentry i hi j hj, hSentry j hj i hi, hsym0 i hi, hsym0 j hj]
            have := hsym (i + 1) (by omega) (j + 1) (by omega)
            rw [eij, eij] at this
            rw [this]
            ring
          have hrecS := ih Sm n' hSrect hSsym (by omega) h (fun i => v (i + 1))
          have hs0 : ∀ i < n', entry ((d :: r) :: rest) (i + 1) 0 = entry ((d :: r) :: rest) 0 (i + 1) := by
            intro i hi
            rw [eij, e0j]; exact hsym0 i hi
          rw [quad_schur n' (fun i j => entry ((d :: r) :: rest) i j) v (by rw [e00]; exact hdne) hs0]
          have : ∑ i ∈ range n', ∑ j ∈ range n',
                v (i + 1) * (entry ((d :: r) :: rest) (i + 1) (j + 1)
                  - entry ((d :: r) :: rest) (i + 1) 0 / entry ((d :: r) :: rest) 0 0
                    * entry ((d :: r) :: rest) 0 (j + 1)) * v (j + 1)
              = quad n' Sm (fun i => v (i + 1)) := by
            unfold quad
            apply Finset.sum_congr rfl; intro i hi
            apply Finset.sum_congr rfl; intro j hj
            rw [hSentry i (Finset.mem_range.mp hi) j (Finset.mem_range.mp hj), eij, eij, e00, e0j]
          rw [this, e00]
          exact add_nonneg (mul_nonneg hdpos.le (sq_nonneg _)) hrecS

/-! ### completeness of `psdGo` -/

/-- the vector `(x, v'_0, v'_1, …)` -/
def consVec (x : ℚ) (v' : Nat → ℚ) : Nat → ℚ := fun i => if i = 0 then x else v' (i - 1)

theorem consVec_zero (x : ℚ) (v' : Nat → ℚ) : consVec x v' 0 = x := by simp [consVec]
theorem consVec_succ (x : ℚ) (v' : Nat → ℚ) (i : Nat) : consVec x v' (i + 1) = v' i := by simp [consVec]

theorem psdGo_complete (fuel : Nat) : ∀ (A : QM) (n : Nat), Rect n n A →
    (∀ i < n, ∀ j < n, entry A i j = entry A j i) → (∀ v : Nat → ℚ, 0 ≤ quad n A v) → psdGo fuel A = true := by
  induction fuel with
  | zero => intro A n _ _ _; simp [psdGo]
  | succ fuel ih =>
    intro A n hA hsym hpsd
    match A, hA, hsym, hpsd with
    | [], _, _, _ => simp [psdGo]
    | [] :: rest, _, _, _ => simp [psdGo]
    | (d :: r) :: rest, hA, hsym, hpsd =>
      have hn1 : n = rest.length + 1 := by simpa using hA.1.symm
      obtain ⟨n', rfl⟩ : ∃ n', n = n' + 1 := ⟨rest.length, hn1⟩
      have hrest_len : rest.length = n' := by omega
      have hr_len : r.length = n' := by
        have := hA.2 (d :: r) (by simp)
        simpa using this
      have hrows : ∀ row ∈ rest, row.length = n' + 1 := fun row hrow => hA.2 row (by simp [hrow])
      have e00 : entry ((d :: r) :: rest) 0 0 = d := entry_cons_zero_zero d r rest
      have e0j : ∀ j, entry ((d :: r) :: rest) 0 (j + 1) = r.getD j 0 := entry_cons_zero_succ d r rest
      have eij : ∀ i j, entry ((d :: r) :: rest) (i + 1) j = entry rest i j := entry_cons_succ (d :: r) rest
      have hsym0 : ∀ i < n', entry rest i 0 = r.getD i 0 := by
        intro i hi
        have := hsym (i + 1) (by omega) 0 (by omega)
        rw [eij, e0j] at this
        exact this
      have hs0 : ∀ i < n', entry ((d :: r) :: rest) (i + 1) 0 = entry ((d :: r) :: rest) 0 (i + 1) := by
        intro i hi
        rw [eij, e0j]; exact hsym0 i hi
      -- the form written out on `(x, v')`
      have hform : ∀ (x : ℚ) (v' : Nat → ℚ), quad (n' + 1) ((d :: r) :: rest) (consVec x v')
          = x * d * x + (∑ j ∈ range n', x * r.getD j 0 * v' j) + (∑ i ∈ range n', v' i * r.getD i 0 * x)
            + ∑ i ∈ range n', ∑ j ∈ range n', v' i * entry rest i (j + 1) * v' j := by
        intro x v'
        unfold quad
        rw [quad_peel]
        simp only [consVec_zero, consVec_succ, e00, e0j, eij]
        congr 1
        congr 1
        apply Finset.sum_congr rfl
        intro i hi
        rw [hsym0 i (Finset.mem_range.mp hi)]
      -- the pivot is not negative
      have hd0 : 0 ≤ d := by
        have := hpsd (consVec 1 (fun _ => 0))
        rw [hform] at this
        simpa using this
      simp only [psdGo, not_lt.mpr hd0, if_false]
      by_cases hdz : d = 0
      · -- zero pivot: the first row vanishes, and the lower-right block is positive semidefinite
        have hbeq : (d == 0) = true := by simpa using hdz
        simp only [hbeq, if_true, Bool.and_eq_true]
        have hr0 : ∀ j < n', r.getD j 0 = 0 := by
          intro j hj
          by_contra hne
          set a := entry rest j (j + 1) with ha
          set t := -(a + 1) / (2 * r.getD j 0) with ht
          have := hpsd (consVec t (fun i => if i = j then 1 else 0))
          rw [hform, hdz] at this
          have s1 : ∑ k ∈ range n', t * r.getD k 0 * (if k = j then (1 : ℚ) else 0) = t * r.getD j 0 := by
            have : ∀ k ∈ range n', t * r.getD k 0 * (if k = j then (1 : ℚ) else 0)
                = if k = j then t * r.getD k 0 else 0 := by
              intro k _; split <;> simp
            rw [Finset.sum_congr rfl this, Finset.sum_ite_eq' (range n') j]
            simp [hj]
          have s2 : ∑ i ∈ range n', (if i = j then (1 : ℚ) else 0) * r.getD i 0 * t = t * r.getD j 0 := by
            have : ∀ i ∈ range n', (if i = j then (1 : ℚ) else 0) * r.getD i 0 * t
                = if i = j then t * r.getD i 0 else 0 := by
              intro i _; split <;> simp [mul_comm]
            rw [Finset.sum_congr rfl this, Finset.sum_ite_eq' (range n') j]
            simp [hj]
          have s3 : ∑ i ∈ range n', ∑ k ∈ range n',
              (if i = j then (1 : ℚ) else 0) * entry rest i (k + 1) * (if k = j then (1 : ℚ) else 0) = a := by
            have : ∀ i ∈ range n', ∑ k ∈ range n',
                (if i = j then (1 : ℚ) else 0) * entry rest i (k + 1) * (if k = j then (1 : ℚ) else 0)
                = if i = j then entry rest i (j + 1) else 0 := by
              intro i _
              have : ∀ k ∈ range n', (if i = j then (1 : ℚ) else 0) * entry rest i (k + 1) * (if k = j then (1 : ℚ) else 0)
                  = if k = j then (if i = j then entry rest i (k + 1) else 0) else 0 := by
                intro k _; split <;> split <;> simp
              rw [Finset.sum_congr rfl this, Finset.sum_ite_eq' (range n') j]
              simp [hj]
            rw [Finset.sum_congr rfl this, Finset.sum_ite_eq' (range n') j]
            simp [hj, ha]
          rw [s1, s2, s3] at this
          have hne' : r.getD j 0 ≠ 0 := hne
          have h2 : t * r.getD j 0 = -(a + 1) / 2 := by rw [ht]; field_simp
          rw [h2] at this
          linarith
        constructor
        · rw [List.all_eq_true]
          intro x hx
          obtain ⟨j, hj, rfl⟩ := List.mem_iff_getElem.mp hx
          have := hr0 j (hr_len ▸ hj)
          rw [List.getD_eq_getElem?_getD, List.getElem?_eq_getElem hj, Option.getD_some] at this
          simpa using this
        · set Bm := rest.map (fun row => row.drop 1) with hB
          have hBrect : Rect n' n' Bm := by
            refine ⟨by simp [hB, hrest_len], ?_⟩
            intro row hrow
            simp only [hB, List.mem_map] at hrow
            obtain ⟨row', hrow', rfl⟩ := hrow
            simp [hrows row' hrow']
          have hBentry : ∀ i < n', ∀ j, entry Bm i j = entry rest i (j + 1) := by
            intro i hi j
            rw [hB, entry_map_rows _ rest i j (hrest_len ▸ hi), getD_drop_one]
            rfl
          have hBsym : ∀ i < n', ∀ j < n', entry Bm i j = entry Bm j i := by
            intro i hi j hj
            rw [hBentry i hi j, hBentry j hj i, ← eij, ← eij]
            exact hsym (i + 1) (by omega) (j + 1) (by omega)
          apply ih Bm n' hBrect hBsym
          intro v'
          have := hpsd (consVec 0 v')
          rw [hform] at this
          simp only [zero_mul, mul_zero, Finset.sum_const_zero, add_zero, zero_add] at this
          unfold quad
          have heq : ∑ i ∈ range n', ∑ j ∈ range n', v' i * entry Bm i j * v' j
              = ∑ i ∈ range n', ∑ j ∈ range n', v' i * entry rest i (j + 1) * v' j := by
            apply Finset.sum_congr rfl; intro i hi
            apply Finset.sum_congr rfl; intro j _
            rw [hBentry i (Finset.mem_range.mp hi) j]
          rw [heq]; exact this
      · -- positive pivot: the Schur complement is positive semidefinite
        have hbeq : (d == 0) = false := by simpa using hdz
        simp only [hbeq, Bool.false_eq_true, if_false]
        set Sm := rest.map (fun row =>
          List.zipWith (fun x y => x - (row.headD 0 / d) * y) (row.drop 1) r) with hS
        have hSrect : Rect n' n' Sm := by
          refine ⟨by simp [hS, hrest_len], ?_⟩
          intro row hrow
          simp only [hS, List.mem_map] at hrow
          obtain ⟨row', hrow', rfl⟩ := hrow
          simp [hrows row' hrow', hr_len]
        have hSentry : ∀ i < n', ∀ j < n', entry Sm i j
            = entry rest i (j + 1) - entry rest i 0 / d * r.getD j 0 := by
          intro i hi j hj
          have hil : i < rest.length := hrest_len ▸ hi
          rw [hS, entry_map_rows _ rest i j hil]
          have hrow : (rest.getD i []).length = n' + 1 := by
            rw [List.getD_eq_getElem?_getD, List.getElem?_eq_getElem hil, Option.getD_some]
            exact hrows _ (List.getElem_mem hil)
          rw [getD_zipWith _ _ _ j 0 0 0 (by rw [List.length_drop, hrow]; omega) (hr_len ▸ hj), getD_drop_one]
          have hh : (rest.getD i []).headD 0 = (rest.getD i []).getD 0 0 := by
            cases rest.getD i [] <;> rfl
          rw [hh]
          rfl
        have hSsym : ∀ i < n', ∀ j < n', entry Sm i j = entry Sm j i := by
          intro i hi j hj
          rw [hSentry i hi j hj, hSentry j hj i hi, hsym0 i hi, hsym0 j hj]
          have := hsym (i + 1) (by omega) (j + 1) (by omega)
          rw [eij, eij] at this
          rw [this]
          ring
        apply ih Sm n' hSrect hSsym
        intro v'
        -- choose the first coordinate that kills the square
        set ρ := ∑ j ∈ range n', r.getD j 0 * v' j with hρ
        have := hpsd (consVec (-(ρ / d)) v')
        unfold quad at this
        rw [quad_schur n' (fun i j => entry ((d :: r) :: rest) i j) _ (by rw [e00]; exact hdz) hs0] at this
        simp only [consVec_zero, consVec_succ, e00, e0j, eij] at this
        rw [← hρ] at this
        have hzero : d * (-(ρ / d) + ρ / d) ^ 2 = 0 := by ring
        rw [hzero, zero_add] at this
        unfold quad
        have heq : ∑ i ∈ range n', ∑ j ∈ range n', v' i * entry Sm i j * v' j
            = ∑ i ∈ range n', ∑ j ∈ range n', v' i * (entry rest i (j + 1) - entry rest i 0 / d * r.getD j 0) * v' j := by
          apply Finset.sum_congr rfl; intro i hi
          apply Finset.sum_congr rfl; intro j hj
          rw [hSentry i (Finset.mem_range.mp hi) j (Finset.mem_range.mp hj)]
        rw [heq]; exact this

/-! ### the shifted test `A + shift·I ⪰ 0` -/

theorem rect_symPart (G : QM) : Rect G.length G.length (symPart G) := by
  refine ⟨by simp [symPart], ?_⟩
  intro r hr
  simp only [symPart, List.mem_map] at hr
  obtain ⟨i, _, rfl⟩ := hr
  simp

theorem entry_symPart (G : QM) (i j : Nat) (hi : i < G.length) (hj : j < G.length) :
    entry (symPart G) i j = (entry G i j + entry G j i) / 2 := by
  unfold symPart
  show entry (List.map _ (List.range G.length)) i j = _
  unfold entry
  rw [getD_map' _ (List.range G.length) i [] 0 (by simpa using hi)]
  rw [getD_map' _ (List.range G.length) j 0 0 (by simpa using hj)]
  simp [List.getD_eq_getElem?_getD, hi, hj, entry]

theorem rect_addDiag (shift : ℚ) (S : QM) (n : Nat) (hS : Rect n n S) : Rect n n (addDiag shift S) := by
  refine ⟨by simp [addDiag, hS.1], ?_⟩
  intro r hr
  simp only [addDiag, List.mem_map] at hr
  obtain ⟨⟨r', i⟩, hri, rfl⟩ := hr
  obtain ⟨hi, hr'⟩ := List.mem_zipIdx' hri
  have hlen : r'.length = n := by rw [hr']; exact hS.2 _ (List.getElem_mem _)
  simp [hlen]

theorem entry_addDiag (shift : ℚ) (S : QM) (n i j : Nat) (hS : Rect n n S) (hi : i < n) (hj : j < n) :
    entry (addDiag shift S) i j = if j = i then entry S i j + shift else entry S i j := by
  have hiS : i < S.length := hS.1 ▸ hi
  have hrow : S[i].length = n := hS.2 _ (List.getElem_mem hiS)
  unfold entry addDiag
  rw [getD_zipIdx_map _ S i hiS, getD_zipIdx_map _ S[i] j (hrow ▸ hj), getD_eq_getElem' S i hiS,
    getD_eq_getElem' S[i] j (hrow ▸ hj)]

/-- the matrix the shifted test eliminates: `n × n`, symmetric, and its quadratic form is `vᵀ G v + shift·‖v‖²`
    (symmetrising does not change the form) -/
theorem shifted_facts (shift : ℚ) (G : QM) (n : Nat) (hG : Rect n n G) :
    Rect n n (addDiag shift (symPart G)) ∧
    (∀ i < n, ∀ j < n, entry (addDiag shift (symPart G)) i j = entry (addDiag shift (symPart G)) j i) ∧
    ∀ v : Nat → ℚ, quad n (addDiag shift (symPart G)) v = quad n G v + shift * ∑ i ∈ range n, v i ^ 2 := by
  have hlen : G.length = n := hG.1
  have hS : Rect n n (symPart G) := hlen ▸ rect_symPart G
  have hT : Rect n n (addDiag shift (symPart G)) := rect_addDiag shift _ n hS
  have hent : ∀ i < n, ∀ j < n, entry (addDiag shift (symPart G)) i j
      = (entry G i j + entry G j i) / 2 + if j = i then shift else 0 := by
    intro i hi j hj
    rw [entry_addDiag shift _ n i j hS hi hj, entry_symPart G i j (hlen ▸ hi) (hlen ▸ hj)]
    split <;> simp
  have hsym : ∀ i < n, ∀ j < n, entry (addDiag shift (symPart G)) i j = entry (addDiag shift (symPart G)) j i := by
    intro i hi j hj
    rw [hent i hi j hj, hent j hj i hi, add_comm (entry G i j)]
    by_cases hij : i = j
    · subst hij; rfl
    · rw [if_neg (fun h => hij h.symm), if_neg hij]
  refine ⟨hT, hsym, ?_⟩
  intro v
  unfold quad
  have h1 : ∀ i ∈ range n, ∑ j ∈ range n, v i * entry (addDiag shift (symPart G)) i j * v j
      = (∑ j ∈ range n, v i * ((entry G i j + entry G j i) / 2) * v j) + shift * v i ^ 2 := by
    intro i hi
    have hi' := Finset.mem_range.mp hi
    have : ∀ j ∈ range n, v i * entry (addDiag shift (symPart G)) i j * v j
        = v i * ((entry G i j + entry G j i) / 2) * v j + (if j = i then v i * shift * v j else 0) := by
      intro j hj
      rw [hent i hi' j (Finset.mem_range.mp hj)]
      split <;> ring
    rw [Finset.sum_congr rfl this, Finset.sum_add_distrib, Finset.sum_ite_eq' (range n) i]
    simp only [hi, if_true]
    ring
  rw [Finset.sum_congr rfl h1, Finset.sum_add_distrib, ← Finset.mul_sum]
  congr 1
  have h2 : ∑ i ∈ range n, ∑ j ∈ range n, v i * ((entry G i j + entry G j i) / 2) * v j
      = (∑ i ∈ range n, ∑ j ∈ range n, v i * entry G i j * v j) / 2
        + (∑ i ∈ range n, ∑ j ∈ range n, v i * entry G j i * v j) / 2 := by
    rw [Finset.sum_div, Finset.sum_div, ← Finset.sum_add_distrib]
    apply Finset.sum_congr rfl; intro i _
    rw [Finset.sum_div, Finset.sum_div, ← Finset.sum_add_distrib]
    apply Finset.sum_congr rfl; intro j _
    ring
  have h3 : ∑ i ∈ range n, ∑ j ∈ range n, v i * entry G j i * v j
      = ∑ i ∈ range n, ∑ j ∈ range n, v i * entry G i j * v j := by
    rw [Finset.sum_comm]
    apply Finset.sum_congr rfl; intro i _
    apply Finset.sum_congr rfl; intro j _
    ring
  rw [h2, h3]
  ring

/-- **Soundness of the shifted test.**  `psdShift shift G = true` for an `n × n` rational matrix means
    `vᵀ G v + shift · ‖v‖² ≥ 0` for every vector. -/
theorem psdShift_sound (shift : ℚ) (G : QM) (n : Nat) (hG : Rect n n G) (h : psdShift shift G = true) :
    ∀ v : Nat → ℚ, 0 ≤ quad n G v + shift * ∑ i ∈ range n, v i ^ 2 := by
  intro v
  obtain ⟨hT, hsym, hq⟩ := shifted_facts shift G n hG
  rw [← hq v]
  exact psdGo_sound (G.length + 1) _ n hT hsym (by rw [hG.1]; omega) h v

/-- **Completeness of the shifted test**: it accepts every matrix with `vᵀ G v + shift · ‖v‖² ≥ 0` for all `v`. -/
theorem psdShift_complete (shift : ℚ) (G : QM) (n : Nat) (hG : Rect n n G)
    (h : ∀ v : Nat → ℚ, 0 ≤ quad n G v + shift * ∑ i ∈ range n, v i ^ 2) : psdShift shift G = true := by
  obtain ⟨hT, hsym, hq⟩ := shifted_facts shift G n hG
  exact psdGo_complete (G.length + 1) _ n hT hsym (fun v => by rw [hq v]; exact h v)

/-! ### tolerant comparison is reflexive -/

theorem absR_zero : absR 0 = 0 := by simp [absR]

theorem absR_nonneg (q : ℚ) : 0 ≤ absR q := by
  unfold absR
  split
  · linarith
  · linarith

theorem closeR_self (rel abs x : ℚ) (h : 0 ≤ abs) : closeR rel abs x x = true := by
  simp [closeR, absR_zero, h]

theorem closeL_self (rel abs : ℚ) (l : List ℚ) (h : 0 ≤ abs) : closeL rel abs l l = true := by
  simp only [closeL, beq_self_eq_true, Bool.true_and, List.all_eq_true]
  intro ab hab
  have : ab.1 = ab.2 := by
    obtain ⟨i, hi, rfl⟩ := List.mem_iff_getElem.mp hab
    simp
  rw [this]
  exact closeR_self rel abs _ h

theorem closeM_self (rel abs : ℚ) (A : QM) (h : 0 ≤ abs) : closeM rel abs A A = true := by
  simp only [closeM, beq_self_eq_true, Bool.true_and, List.all_eq_true]
  intro ab hab
  have : ab.1 = ab.2 := by
    obtain ⟨i, hi, rfl⟩ := List.mem_iff_getElem.mp hab
    simp
  rw [this]
  exact closeL_self rel abs _ h

theorem maxAbs_nonneg (G : QM) : 0 ≤ maxAbs G := by
  unfold maxAbs
  have : ∀ (l : List ℚ) (a : ℚ), 0 ≤ a → 0 ≤ l.foldl (fun acc x => maxR acc (absR x)) a := by
    intro l
    induction l with
    | nil => intro a ha; simpa
    | cons x l ih =>
      intro a ha
      apply ih
      show 0 ≤ maxR a (absR x)
      unfold maxR
      split
      · exact absR_nonneg x
      · exact ha
  exact this _ 0 le_rfl

end sound

end Coancestry
