/-
Helper lemmas for C17, the proposed repair of stochastic_universal_sampling (patch_D7_combined.diff):
the guarded pointer loop (`advanceG`, `walkG`) equals independent look-ups; positions under a generic
comparison (`posC`), right-open intervals (`posC_le_eq_iff`); the zero tail of a sorted weight vector;
ceiling versions of the pointer-counting lemmas.
-/
import PybropsModel.Lemmas.SamplingSusZero
set_option autoImplicit false
set_option linter.unusedSectionVars false
namespace Sampling
section patched
variable {α : Type} [Field α] [LinearOrder α] [IsStrictOrderedRing α]

/-- the guarded advance equals the unguarded one when the entry at the guard position stops the loop -/
theorem advanceG_eq (cond : α → Bool) (s : List (α × Nat)) (rem : Nat) (h : rem < s.length)
    (hstop : cond (s[rem]).1 = false) :
    ∃ m, m ≤ rem ∧ advanceG cond s rem = (s.drop m, rem - m) ∧
      s.drop m = s.dropWhile (fun c => cond c.1) := by
  induction s generalizing rem with
  | nil => simp at h
  | cons c s ih =>
    cases rem with
    | zero =>
      refine ⟨0, le_refl _, ?_, ?_⟩
      · unfold advanceG; rfl
      · simp only [List.getElem_cons_zero] at hstop
        simp [List.dropWhile_cons, hstop]
    | succ r =>
      by_cases hc : cond c.1 = true
      · have hr : r < s.length := by simpa using h
        obtain ⟨m, hm, he, hd⟩ := ih r hr (by simpa using hstop)
        refine ⟨m + 1, by omega, ?_, ?_⟩
        · unfold advanceG
          simp only [hc, if_true, he, List.drop_succ_cons]
          congr 1
          omega
        · simp [List.dropWhile_cons, hc, hd]
      · have hc' : cond c.1 = false := by simpa using hc
        refine ⟨0, Nat.zero_le _, ?_, ?_⟩
        · unfold advanceG
          simp [hc']
        · simp [List.dropWhile_cons, hc']

/-- index selected by one pointer under comparison `cnd`, looked up from scratch -/
def selOfC (cnd : α → α → Bool) (s : List (α × Nat)) (t : α) : Option Nat :=
  ((s.dropWhile (fun c => cnd c.1 t)).head?).map Prod.snd

/-- the repaired pointer loop equals independent look-ups when the pointers ascend, the comparison is
    monotone in the pointer and the entry at the guard position stops every pointer -/
theorem walkG_eq (cnd : α → α → Bool) (hmono : ∀ c t t', t ≤ t' → cnd c t = true → cnd c t' = true)
    (s : List (α × Nat)) (rem : Nat) (ptrs : List α) (hs : ptrs.Pairwise (· ≤ ·))
    (h : rem < s.length) (hstop : ∀ t ∈ ptrs, cnd (s[rem]).1 t = false) :
    walkG cnd s rem ptrs = some (ptrs.map (fun t => (selOfC cnd s t).getD 0)) := by
  induction ptrs generalizing s rem with
  | nil => simp [walkG]
  | cons t ts ih =>
    rw [List.pairwise_cons] at hs
    obtain ⟨hle, hts⟩ := hs
    obtain ⟨m, hm, he, hd⟩ := advanceG_eq (fun c => cnd c t) s rem h (hstop t List.mem_cons_self)
    unfold walkG
    rw [he]
    have hlen : rem - m < (s.drop m).length := by rw [List.length_drop]; omega
    have hget : ((s.drop m)[rem - m]'hlen) = s[rem] := by
      rw [List.getElem_drop]; congr 1; omega
    cases hsd : s.drop m with
    | nil => rw [hsd] at hlen; simp at hlen
    | cons c s' =>
      simp only []
      have hih := ih (c :: s') (rem - m) hts (by rw [← hsd]; exact hlen) (by
        intro t' ht'
        have := hstop t' (List.mem_cons_of_mem _ ht')
        simp only [← hsd, hget]
        exact this)
      rw [hih]
      have hc : selOfC cnd s t = some c.2 := by
        unfold selOfC
        rw [← hd, hsd]; rfl
      have hcongr : ∀ t' ∈ ts, selOfC cnd (c :: s') t' = selOfC cnd s t' := by
        intro t' ht'
        unfold selOfC
        rw [← hsd, hd, dropWhile_dropWhile_of_imp]
        intro x _ hx
        exact hmono x.1 t t' (hle t' ht') hx
      simp only [Option.map_some, List.map_cons, hc, Option.getD_some]
      congr 2
      apply List.map_congr_left
      intro t' ht'
      rw [hcongr t' ht']

/-- position of the first cumulative weight that stops the comparison `cnd · t` (`w.length` if none) -/
def posC (cnd : α → α → Bool) (a : α) : List α → α → Nat
  | [], _ => 0
  | x :: w, t => if cnd (a + x) t = true then posC cnd (a + x) w t + 1 else 0

theorem selOfC_zip (cnd : α → α → Bool) (a : α) (w : List α) (sigma : List Nat) (t : α)
    (hl : sigma.length = w.length) :
    selOfC cnd ((Np.cumsumFrom a w).zip sigma) t = sigma[posC cnd a w t]? := by
  induction w generalizing a sigma with
  | nil =>
    have : sigma = [] := List.length_eq_zero_iff.mp hl
    subst this
    simp [selOfC, Np.cumsumFrom, posC]
  | cons x w ih =>
    cases sigma with
    | nil => simp at hl
    | cons i sigma =>
      simp only [List.length_cons, Nat.add_right_cancel_iff] at hl
      unfold posC
      by_cases hx : cnd (a + x) t = true
      · have := ih (a + x) sigma hl
        unfold selOfC at this ⊢
        simp only [Np.cumsumFrom, List.zip_cons_cons]
        rw [List.dropWhile_cons_of_pos (by simpa using hx), this]
        simp [hx]
      · unfold selOfC
        simp only [Np.cumsumFrom, List.zip_cons_cons]
        rw [List.dropWhile_cons_of_neg (by simpa using hx)]
        simp [hx]

theorem posC_lt_eq_pos (a : α) (w : List α) (t : α) :
    posC (fun c t => decide (c < t)) a w t = pos a w t := by
  induction w generalizing a with
  | nil => rfl
  | cons x w ih => simp [posC, pos, ih]

/-- right-open intervals: a pointer at or above the start selects position `r` exactly when it lies in
    `[pre r, pre (r+1))` -/
theorem posC_le_eq_iff (a : α) (w : List α) (hw : ∀ x ∈ w, 0 ≤ x) (t : α) (ht : a ≤ t) (r : Nat)
    (hr : r < w.length) :
    posC (fun c t => decide (c ≤ t)) a w t = r ↔ (pre a w r ≤ t ∧ t < pre a w (r + 1)) := by
  induction w generalizing a r with
  | nil => simp at hr
  | cons x w ih =>
    have hw' : ∀ y ∈ w, 0 ≤ y := fun y hy => hw y (List.mem_cons_of_mem _ hy)
    cases r with
    | zero =>
      unfold posC
      have h1 : pre a (x :: w) 1 = a + x := by simp [pre]
      rw [h1, pre_zero]
      by_cases hx : a + x ≤ t
      · simp [hx, not_lt.mpr hx]
      · simp [hx, ht, not_le.mp hx]
    | succ r =>
      have hr' : r < w.length := by simpa using hr
      unfold posC
      rw [pre_cons_succ, pre_cons_succ]
      by_cases hx : a + x ≤ t
      · simp only [decide_eq_true_eq, hx, if_true, Nat.add_right_cancel_iff, ih (a + x) hw' hx r hr']
      · simp only [decide_eq_true_eq, hx, if_false]
        have hge : a + x ≤ pre (a + x) w r := le_pre (a + x) w hw' r
        constructor
        · intro h; omega
        · rintro ⟨h1, _⟩
          exact absurd (le_trans hge h1) hx

theorem cumsumFrom_getElem (a : α) (w : List α) (r : Nat) (hr : r < (Np.cumsumFrom a w).length) :
    (Np.cumsumFrom a w)[r] = pre a w (r + 1) := by
  induction w generalizing a r with
  | nil => simp [Np.cumsumFrom] at hr
  | cons x w ih =>
    cases r with
    | zero => simp [Np.cumsumFrom, pre]
    | succ r =>
      simp only [Np.cumsumFrom, List.getElem_cons_succ]
      rw [ih (a + x) r (by simpa [Np.cumsumFrom] using hr), pre_cons_succ]

theorem cumsumFrom_length (a : α) (w : List α) : (Np.cumsumFrom a w).length = w.length := by
  induction w generalizing a with
  | nil => rfl
  | cons x w ih => simp [Np.cumsumFrom, ih]

/-- in a non-increasing list of non-negative weights everything after the non-zero entries is zero -/
theorem drop_nonzero_zero (w : List α) (hnn : ∀ x ∈ w, 0 ≤ x) (hs : nonIncreasing w = true) :
    ∀ y ∈ w.drop (w.filter (fun x => decide (0 < x) || decide (x < 0))).length, y = 0 := by
  induction w with
  | nil => simp
  | cons x w ih =>
    have hnn' : ∀ y ∈ w, 0 ≤ y := fun y hy => hnn y (List.mem_cons_of_mem _ hy)
    have hs' : nonIncreasing w = true := by
      cases w with
      | nil => rfl
      | cons z w => simp only [nonIncreasing, Bool.and_eq_true] at hs; exact hs.2
    have hx0 : 0 ≤ x := hnn x List.mem_cons_self
    by_cases hx : 0 < x
    · simp only [List.filter_cons, hx, decide_true, Bool.true_or, if_true, List.length_cons, List.drop_succ_cons]
      exact ih hnn' hs'
    · have hxz : x = 0 := le_antisymm (not_lt.mp hx) hx0
      have hall : ∀ y ∈ w, y = 0 := fun y hy =>
        le_antisymm (hxz ▸ nonIncreasing_head x w hs y hy) (hnn' y hy)
      have hfil : (x :: w).filter (fun x => decide (0 < x) || decide (x < 0)) = [] := by
        rw [List.filter_eq_nil_iff]
        intro y hy
        rcases List.mem_cons.mp hy with rfl | hy
        · simp [hxz]
        · simp [hall y hy]
      rw [hfil]
      intro y hy
      rcases List.mem_cons.mp (by simpa using hy) with rfl | hy
      · exact hxz
      · exact hall y hy

theorem posC_le_of_stop (cnd : α → α → Bool) (a : α) (w : List α) (t : α) (r : Nat) (hr : r < w.length)
    (hstop : cnd (pre a w (r + 1)) t = false) : posC cnd a w t ≤ r := by
  induction w generalizing a r with
  | nil => simp at hr
  | cons x w ih =>
    unfold posC
    by_cases hx : cnd (a + x) t = true
    · cases r with
      | zero =>
        have : pre a (x :: w) 1 = a + x := by simp [pre]
        rw [this, hx] at hstop
        exact absurd hstop (by simp)
      | succ r =>
        rw [pre_cons_succ] at hstop
        simp only [hx, if_true]
        have := ih (a + x) r (by simpa using hr) hstop
        omega
    · simp [hx]

/-- counting through the sort order: how often `sigma[r]` occurs among the selected indices -/
theorem closed_count (sigma : List Nat) (hnd : sigma.Nodup) (L : List Nat) (hlt : ∀ q ∈ L, q < sigma.length)
    (r : Nat) (hr : r < sigma.length) :
    (L.map (fun q => sigma[q]?.getD 0)).count sigma[r] = L.count r := by
  have hg : sigma[r] = (fun q => sigma[q]?.getD 0) r := by simp [hr]
  rw [hg, count_map_injOn (fun q => sigma[q]?.getD 0) L r]
  intro x hx hxr
  have hxl := hlt x hx
  simp only [hxl, hr, List.getElem?_eq_getElem, Option.getD_some] at hxr
  exact (List.Nodup.getElem_inj_iff hnd).mp hxr

end patched

section ceil
variable {α : Type} [Field α] [LinearOrder α] [IsStrictOrderedRing α] [FloorRing α]

/-- `⌈x+q⌉ - ⌈x⌉` is the floor or the ceiling of `q` -/
theorem ceil_diff (x q : α) : ⌈x + q⌉ - ⌈x⌉ = ⌊q⌋ ∨ ⌈x + q⌉ - ⌈x⌉ = ⌈q⌉ := by
  have h := floor_diff (-(x + q)) q
  have e1 : -(x + q) + q = -x := by ring
  rw [e1, Int.floor_neg, Int.floor_neg] at h
  rcases h with h | h
  · left; omega
  · right; omega

theorem range_filter_Ico_length (m N k : ℕ) :
    ((List.range k).filter (fun j : ℕ => m ≤ j ∧ j < N)).length = min k N - min k m := by
  induction k with
  | zero => simp
  | succ k ih =>
    rw [List.range_succ, List.filter_append, List.length_append, ih]
    by_cases h : m ≤ k ∧ k < N
    · simp [h]; omega
    · simp [h]; omega

/-- number of pointers `o + j·d` (`0 ≤ j < k`) in `[a, b)`, when `0 ≤ a ≤ b ≤ k·d` and `0 ≤ o < d` -/
theorem pointers_in_interval_ro (o d a b : α) (k : ℕ) (hd : 0 < d) (ho : 0 ≤ o) (hod : o < d)
    (ha : 0 ≤ a) (hab : a ≤ b) (hb : b ≤ k * d) :
    (((List.range k).filter (fun j : ℕ => a ≤ o + j * d ∧ o + j * d < b)).length : ℤ)
      = ⌈(b - o) / d⌉ - ⌈(a - o) / d⌉ := by
  set x := (a - o) / d with hx
  set y := (b - o) / d with hy
  have key : ∀ j : ℕ, (a ≤ o + j * d ∧ o + j * d < b) ↔ (⌈x⌉ ≤ (j:ℤ) ∧ (j:ℤ) < ⌈y⌉) := by
    intro j
    rw [Int.ceil_le, Int.lt_ceil, hx, hy, div_le_iff₀ hd, lt_div_iff₀ hd]
    push_cast
    constructor <;> rintro ⟨h1, h2⟩ <;> constructor <;> linarith
  have hx0 : 0 ≤ ⌈x⌉ := by
    have : (-1 : ℤ) < ⌈x⌉ := by
      rw [Int.lt_ceil, hx, lt_div_iff₀ hd]; push_cast; linarith
    omega
  have hyk : ⌈y⌉ ≤ k := by
    rw [Int.ceil_le, hy, div_le_iff₀ hd]; push_cast; linarith
  have hxy : ⌈x⌉ ≤ ⌈y⌉ := Int.ceil_le_ceil (by rw [hx, hy]; gcongr)
  obtain ⟨m, hm⟩ : ∃ m : ℕ, ⌈x⌉ = m := ⟨⌈x⌉.toNat, by omega⟩
  obtain ⟨N, hN⟩ : ∃ N : ℕ, ⌈y⌉ = N := ⟨⌈y⌉.toNat, by omega⟩
  have e : (List.range k).filter (fun j : ℕ => a ≤ o + j * d ∧ o + j * d < b)
         = (List.range k).filter (fun j : ℕ => m ≤ j ∧ j < N) := by
    apply List.filter_congr
    intro j _
    simp only [key j, hm, hN, decide_eq_decide]
    omega
  rw [e, range_filter_Ico_length, hm, hN]
  omega

end ceil
end Sampling
