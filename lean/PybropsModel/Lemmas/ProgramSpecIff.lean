/-
Helper lemmas for C20: the Bool oracle `specTrace` says exactly what the declarative Prop `TraceSpec`
says (`specTrace_iff`), so a theorem concluding `specTrace … = true` concludes the property as stated.
-/
import PybropsModel.Lemmas.ProgramReps
set_option autoImplicit false
set_option linter.unusedSectionVars false

namespace Program
section
variable {V : Type} [DecidableEq V]

/-- an event is a call of kind `k` at clock `t` that saw the start containers holding `V0` -/
def EvIs (V0 : List (Option V)) (k : EvKind) (t : Nat) (e : Event V) : Prop :=
  e.kind = k ∧ e.t = t ∧ e.startVals = V0

/-- position by position, what was given is what is received (up to the relation `R`) -/
def Handed (R : Item V → Item V → Bool) (given recv : List (Item V)) : Prop :=
  List.Forall₂ (fun a b => R a b = true) given recv

theorem evOk_iff (V0 : List (Option V)) (k : EvKind) (t : Nat) (e : Event V) :
    evOk V0 k t e = true ↔ EvIs V0 k t e := by
  simp [evOk, EvIs, and_assoc]

theorem handed_iff (R : Item V → Item V → Bool) : ∀ (given recv : List (Item V)),
    handed R given recv = true ↔ Handed R given recv
  | [], [] => by simp [handed, Handed]
  | [], _ :: _ => by simp [handed, Handed]
  | _ :: _, [] => by simp [handed, Handed]
  | a :: g, b :: r => by
    have ih := handed_iff R g r
    simp only [handed, Handed, List.length_cons, List.zip_cons_cons, List.all_cons, Bool.and_eq_true, beq_iff_eq,
      Nat.add_right_cancel_iff, List.forall₂_cons] at ih ⊢
    constructor
    · rintro ⟨hl, hab, hall⟩; exact ⟨hab, ih.mp ⟨hl, hall⟩⟩
    · rintro ⟨hab, hrest⟩; exact ⟨(ih.mpr hrest).1, hab, (ih.mpr hrest).2⟩

/-- **one generation**, declaratively: eight calls — parent selection, mating, evaluation, survivor
    selection, each followed by its log entry — all at clock `t`, all seeing the start containers
    holding `V0`; parent selection is handed the containers `cur` held before and returns a mating
    configuration and five containers; every later call is handed what its predecessor returned;
    `out` is what survivor selection returned -/
def IsGen (R : Item V → Item V → Bool) (V0 : List (Option V)) (t : Nat) (cur : List (Item V))
    (g : List (Event V)) (out : List (Item V)) : Prop :=
  ∃ e1 e2 e3 e4 e5 e6 e7 e8, g = [e1, e2, e3, e4, e5, e6, e7, e8] ∧ out = e7.retItems ∧
    EvIs V0 (.op .pselect) t e1 ∧ Handed R cur (e1.argItems.take 5) ∧ e1.retItems.length = 6 ∧
    EvIs V0 (.log .pselect) t e2 ∧ Handed R e1.retItems (e2.argItems.take 6) ∧
    EvIs V0 (.op .mate) t e3 ∧ Handed R e1.retItems (e3.argItems.take 6) ∧ e3.retItems.length = 5 ∧
    EvIs V0 (.log .mate) t e4 ∧ Handed R (e1.retItems.take 1 ++ e3.retItems) (e4.argItems.take 6) ∧
    EvIs V0 (.op .evaluate) t e5 ∧ Handed R e3.retItems (e5.argItems.take 5) ∧ e5.retItems.length = 5 ∧
    EvIs V0 (.log .evaluate) t e6 ∧ Handed R e5.retItems (e6.argItems.take 5) ∧
    EvIs V0 (.op .sselect) t e7 ∧ Handed R e5.retItems (e7.argItems.take 5) ∧ e7.retItems.length = 5 ∧
    EvIs V0 (.log .sselect) t e8 ∧ Handed R e7.retItems (e8.argItems.take 5)

theorem checkGen_iff (R : Item V → Item V → Bool) (V0 : List (Option V)) (t : Nat) (cur : List (Item V))
    (evs : List (Event V)) (out : List (Item V)) (rest : List (Event V)) :
    checkGen R V0 t cur evs = some (out, rest) ↔ ∃ g, evs = g ++ rest ∧ IsGen R V0 t cur g out := by
  constructor
  · intro h
    unfold checkGen at h
    split at h
    · rename_i e1 e2 e3 e4 e5 e6 e7 e8 rest'
      dsimp only at h
      split at h
      · rename_i hc
        simp only [Option.some.injEq, Prod.mk.injEq] at h
        obtain ⟨rfl, rfl⟩ := h
        simp only [Bool.and_eq_true, evOk_iff, handed_iff, beq_iff_eq] at hc
        refine ⟨[e1, e2, e3, e4, e5, e6, e7, e8], rfl, e1, e2, e3, e4, e5, e6, e7, e8, rfl, rfl, ?_⟩
        tauto
      · cases h
    · cases h
  · rintro ⟨g, rfl, e1, e2, e3, e4, e5, e6, e7, e8, rfl, rfl, hc⟩
    have hc' : (evOk V0 (.op .pselect) t e1 && handed R cur (e1.argItems.take 5) && e1.retItems.length == 6
      && evOk V0 (.log .pselect) t e2 && handed R e1.retItems (e2.argItems.take 6)
      && evOk V0 (.op .mate) t e3 && handed R e1.retItems (e3.argItems.take 6) && e3.retItems.length == 5
      && evOk V0 (.log .mate) t e4 && handed R (e1.retItems.take 1 ++ e3.retItems) (e4.argItems.take 6)
      && evOk V0 (.op .evaluate) t e5 && handed R e3.retItems (e5.argItems.take 5) && e5.retItems.length == 5
      && evOk V0 (.log .evaluate) t e6 && handed R e5.retItems (e6.argItems.take 5)
      && evOk V0 (.op .sselect) t e7 && handed R e5.retItems (e7.argItems.take 5) && e7.retItems.length == 5
      && evOk V0 (.log .sselect) t e8 && handed R e7.retItems (e8.argItems.take 5)) = true := by
      simp only [Bool.and_eq_true, evOk_iff, handed_iff, beq_iff_eq]
      tauto
    show checkGen R V0 t cur (e1 :: e2 :: e3 :: e4 :: e5 :: e6 :: e7 :: e8 :: rest) = _
    simp only [checkGen, hc', if_true]

/-- `n` generations at clocks `t, t+1, …`, each starting from what the previous one ended with -/
inductive IsGens (R : Item V → Item V → Bool) (V0 : List (Option V)) : Nat → Nat → List (Item V) → List (Event V) → Prop
  | zero (t : Nat) (cur : List (Item V)) : IsGens R V0 0 t cur []
  | succ {n t : Nat} {cur out : List (Item V)} {g rest : List (Event V)} :
      IsGen R V0 t cur g out → IsGens R V0 n (t + 1) out rest → IsGens R V0 (n + 1) t cur (g ++ rest)

theorem checkGens_iff (R : Item V → Item V → Bool) (V0 : List (Option V)) (n : Nat) :
    ∀ (t : Nat) (cur : List (Item V)) (evs rest : List (Event V)),
      checkGens R V0 n t cur evs = some rest ↔ ∃ gs, evs = gs ++ rest ∧ IsGens R V0 n t cur gs := by
  induction n with
  | zero =>
    intro t cur evs rest
    simp only [checkGens, Option.some.injEq]
    constructor
    · rintro rfl; exact ⟨[], rfl, .zero t cur⟩
    · rintro ⟨gs, rfl, h⟩; cases h; rfl
  | succ n ih =>
    intro t cur evs rest
    simp only [checkGens]
    constructor
    · intro h
      split at h
      · cases h
      · rename_i out rest' hg
        obtain ⟨g, rfl, hgen⟩ := (checkGen_iff R V0 t cur evs out rest').mp hg
        obtain ⟨gs, rfl, hgs⟩ := (ih (t + 1) out rest' rest).mp h
        exact ⟨g ++ gs, by rw [List.append_assoc], .succ hgen hgs⟩
    · rintro ⟨gs, rfl, h⟩
      cases h with
      | succ hgen hgs =>
        rename_i out g rest'
        have : checkGen R V0 t cur (g ++ rest' ++ rest) = some (out, rest' ++ rest) :=
          (checkGen_iff R V0 t cur _ out _).mpr ⟨g, by rw [List.append_assoc], hgen⟩
        rw [this]
        exact (ih (t + 1) out (rest' ++ rest) rest).mpr ⟨rest', rfl, hgs⟩

/-- **one replicate**, declaratively: the initial evaluation at clock 0, handed containers whose
    contents equal the initial state `V0`; its log entry when `loginit`; then `ngen` generations at
    clocks 1, 2, … starting from what the initial evaluation returned -/
def IsRep (R : Item V → Item V → Bool) (V0 : List (Option V)) (loginit : Bool) (ngen : Nat)
    (r : List (Event V)) : Prop :=
  ∃ e0 tail gs, r = e0 :: tail ++ gs ∧ EvIs V0 (.op .evaluate) 0 e0 ∧ e0.argVals.take 5 = V0 ∧
    e0.retItems.length = 5 ∧
    (if loginit then ∃ e1, tail = [e1] ∧ EvIs V0 (.log .initialize) 0 e1 ∧ Handed R e0.retItems (e1.argItems.take 5)
     else tail = []) ∧
    IsGens R V0 ngen 1 e0.retItems gs

theorem checkRep_iff (R : Item V → Item V → Bool) (V0 : List (Option V)) (li : Bool) (ngen : Nat)
    (evs rest : List (Event V)) :
    checkRep R V0 li ngen evs = some rest ↔ ∃ r, evs = r ++ rest ∧ IsRep R V0 li ngen r := by
  constructor
  · intro h
    unfold checkRep at h
    split at h
    · rename_i e0 rest0
      split at h
      · rename_i hc
        simp only [Bool.and_eq_true, evOk_iff, beq_iff_eq] at hc
        cases li with
        | true =>
          simp only [if_true] at h
          split at h
          · rename_i e1 rest1
            split at h
            · rename_i hc1
              simp only [Bool.and_eq_true, evOk_iff, handed_iff] at hc1
              obtain ⟨gs, rfl, hgs⟩ := (checkGens_iff R V0 ngen 1 _ rest1 rest).mp h
              exact ⟨e0 :: [e1] ++ gs, by simp, e0, [e1], gs, rfl, hc.1.1, hc.1.2, hc.2,
                by simp only [if_true]; exact ⟨e1, rfl, hc1.1, hc1.2⟩, hgs⟩
            · cases h
          · cases h
        | false =>
          simp only [Bool.false_eq_true, if_false] at h
          obtain ⟨gs, rfl, hgs⟩ := (checkGens_iff R V0 ngen 1 _ rest0 rest).mp h
          exact ⟨e0 :: [] ++ gs, by simp, e0, [], gs, rfl, hc.1.1, hc.1.2, hc.2, by simp, hgs⟩
      · cases h
    · cases h
  · rintro ⟨r, rfl, e0, tail, gs, rfl, h0, hv, hl, htail, hgs⟩
    have hc : (evOk V0 (.op .evaluate) 0 e0 && e0.argVals.take 5 == V0 && e0.retItems.length == 5) = true := by
      simp only [Bool.and_eq_true, evOk_iff, beq_iff_eq]; exact ⟨⟨h0, hv⟩, hl⟩
    cases li with
    | true =>
      simp only [if_true] at htail
      obtain ⟨e1, rfl, h1, hh⟩ := htail
      have hc1 : (evOk V0 (.log .initialize) 0 e1 && handed R e0.retItems (e1.argItems.take 5)) = true := by
        simp only [Bool.and_eq_true, evOk_iff, handed_iff]; exact ⟨h1, hh⟩
      show checkRep R V0 true ngen (e0 :: e1 :: (gs ++ rest)) = _
      simp only [checkRep, hc, hc1, if_true]
      exact (checkGens_iff R V0 ngen 1 _ _ rest).mpr ⟨gs, rfl, hgs⟩
    | false =>
      simp only [Bool.false_eq_true, if_false] at htail
      subst htail
      show checkRep R V0 false ngen (e0 :: (gs ++ rest)) = _
      simp only [checkRep, hc, if_true, Bool.false_eq_true, if_false]
      exact (checkGens_iff R V0 ngen 1 _ _ rest).mpr ⟨gs, rfl, hgs⟩

theorem checkReps_iff (R : Item V → Item V → Bool) (V0 : List (Option V)) (li : Bool) (ngen : Nat) (n : Nat) :
    ∀ (evs rest : List (Event V)),
      checkReps R V0 li ngen n evs = some rest ↔
        ∃ rs : List (List (Event V)), evs = rs.flatten ++ rest ∧ rs.length = n ∧ ∀ r ∈ rs, IsRep R V0 li ngen r := by
  induction n with
  | zero =>
    intro evs rest
    simp only [checkReps, Option.some.injEq]
    constructor
    · rintro rfl; exact ⟨[], by simp, rfl, by simp⟩
    · rintro ⟨rs, rfl, hl, _⟩
      have : rs = [] := List.length_eq_zero_iff.mp hl
      subst this; simp
  | succ n ih =>
    intro evs rest
    simp only [checkReps]
    constructor
    · intro h
      split at h
      · cases h
      · rename_i rest' hr
        obtain ⟨r, rfl, hrep⟩ := (checkRep_iff R V0 li ngen evs rest').mp hr
        obtain ⟨rs, rfl, hl, hall⟩ := (ih rest' rest).mp h
        refine ⟨r :: rs, by simp [List.append_assoc], by simp [hl], ?_⟩
        intro x hx
        rcases List.mem_cons.mp hx with rfl | hx
        · exact hrep
        · exact hall x hx
    · rintro ⟨rs, rfl, hl, hall⟩
      cases rs with
      | nil => simp at hl
      | cons r rs =>
        have h1 : checkRep R V0 li ngen ((r :: rs).flatten ++ rest) = some (rs.flatten ++ rest) :=
          (checkRep_iff R V0 li ngen _ _).mpr ⟨r, by simp [List.append_assoc], hall r (by simp)⟩
        rw [h1]
        exact (ih _ rest).mpr ⟨rs, rfl, by simpa using hl, fun x hx => hall x (List.mem_cons_of_mem _ hx)⟩

/-- **the property on a trace, declaratively**: the initial state `V0` (what the initialisation
    operator returned if the trace starts with an initialisation, else what the caller stored) is five
    existing containers, and the rest of the trace (log entries of the initial evaluation ignored when
    `loginit = false`) is the concatenation of exactly `nrep` replicates -/
def TraceSpec (R : Item V → Item V → Bool) (nrep ngen : Nat) (loginit : Bool) (V0given : List (Option V))
    (trace : List (Event V)) : Prop :=
  ∃ (V0 : List (Option V)) (rs : List (List (Event V))),
    (match trace with
      | e :: _ => if e.kind = EvKind.init then V0 = e.retVals else V0 = V0given
      | [] => V0 = V0given) ∧
    V0.length = 5 ∧ (∀ v ∈ V0, v.isSome = true) ∧
    specBody loginit trace = rs.flatten ∧ rs.length = nrep ∧ ∀ r ∈ rs, IsRep R V0 loginit ngen r

/-- the part of `specTrace` after the initial state and the body have been determined -/
def specCore (R : Item V → Item V → Bool) (nrep ngen : Nat) (loginit : Bool) (V0 : List (Option V))
    (body : List (Event V)) : Bool :=
  V0.length == 5 && V0.all Option.isSome &&
    (match checkReps R V0 loginit ngen nrep (if loginit then body else dropInitLogs body) with
     | some [] => true
     | _ => false)

theorem specCore_iff (R : Item V → Item V → Bool) (nrep ngen : Nat) (loginit : Bool) (V0 : List (Option V))
    (body : List (Event V)) :
    specCore R nrep ngen loginit V0 body = true ↔
      (V0.length = 5 ∧ (∀ v ∈ V0, v.isSome = true) ∧ ∃ rs : List (List (Event V)),
        (if loginit then body else dropInitLogs body) = rs.flatten ∧ rs.length = nrep ∧
          ∀ r ∈ rs, IsRep R V0 loginit ngen r) := by
  unfold specCore
  simp only [Bool.and_eq_true, beq_iff_eq, List.all_eq_true]
  have inner : (match checkReps R V0 loginit ngen nrep (if loginit then body else dropInitLogs body) with
       | some [] => true
       | _ => false) = true ↔
      checkReps R V0 loginit ngen nrep (if loginit then body else dropInitLogs body) = some [] := by
    split
    · rename_i h; simp [h]
    · rename_i h
      constructor
      · intro hf; cases hf
      · intro hs; exact absurd hs (h)
  rw [inner, checkReps_iff]
  simp only [List.append_nil]
  tauto

/-- **`spec_iff`**: the Bool oracle evaluated by the driver decides exactly the declarative Spec -/
theorem specTrace_iff (R : Item V → Item V → Bool) (nrep ngen : Nat) (loginit : Bool) (V0given : List (Option V))
    (trace : List (Event V)) :
    specTrace R nrep ngen loginit V0given trace = true ↔ TraceSpec R nrep ngen loginit V0given trace := by
  unfold TraceSpec specBody
  cases trace with
  | nil =>
    have e : specTrace R nrep ngen loginit V0given [] = specCore R nrep ngen loginit V0given [] := rfl
    rw [e, specCore_iff]
    constructor
    · rintro ⟨h1, h2, rs, h3, h4, h5⟩; exact ⟨V0given, rs, rfl, h1, h2, h3, h4, h5⟩
    · rintro ⟨V0, rs, rfl, h1, h2, h3, h4, h5⟩; exact ⟨h1, h2, rs, h3, h4, h5⟩
  | cons e rest =>
    by_cases hk : e.kind = EvKind.init
    · have hb : (e.kind == EvKind.init) = true := by simp [hk]
      have e1 : specTrace R nrep ngen loginit V0given (e :: rest) = specCore R nrep ngen loginit e.retVals rest := by
        simp only [specTrace, hb, if_true]; rfl
      rw [e1, specCore_iff]
      simp only [if_true, hk]
      constructor
      · rintro ⟨h1, h2, rs, h3, h4, h5⟩; exact ⟨e.retVals, rs, rfl, h1, h2, h3, h4, h5⟩
      · rintro ⟨V0, rs, rfl, h1, h2, h3, h4, h5⟩; exact ⟨h1, h2, rs, h3, h4, h5⟩
    · have hb : (e.kind == EvKind.init) = false := by simp [hk]
      have e1 : specTrace R nrep ngen loginit V0given (e :: rest) =
          specCore R nrep ngen loginit V0given (e :: rest) := by
        simp only [specTrace, hb, Bool.false_eq_true, if_false]; rfl
      rw [e1, specCore_iff]
      simp only [hb, Bool.false_eq_true, if_false, hk]
      constructor
      · rintro ⟨h1, h2, rs, h3, h4, h5⟩; exact ⟨V0given, rs, rfl, h1, h2, h3, h4, h5⟩
      · rintro ⟨V0, rs, rfl, h1, h2, h3, h4, h5⟩; exact ⟨h1, h2, rs, h3, h4, h5⟩

/-- the replicate-counter clause, declaratively: nothing was recorded, or for some value `r0` of
    `lbook.rep` before the call the calls of replicate `r` (0-based) all carry `r0 + r + 1` -/
theorem repsOK_iff (li : Bool) (ngen nrep : Nat) (reps : List Int) :
    repsOK li ngen nrep reps = true ↔ reps = [] ∨ ∃ r0 : Int, reps = repsOf r0 li ngen nrep := by
  constructor
  · intro h
    cases reps with
    | nil => exact Or.inl rfl
    | cons r rest =>
      right
      simp only [repsOK, beq_iff_eq] at h
      exact ⟨r - 1, h⟩
  · rintro (rfl | ⟨r0, rfl⟩)
    · rfl
    · exact repsOK_repsOf r0 li ngen nrep

end
end Program
