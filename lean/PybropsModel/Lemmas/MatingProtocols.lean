/-
Helper lemmas for C01: for each of the seven protocols, every progeny produced by
`Mating.generate` (in generation order) is tagged with `Mating.sources` of its own cross:
chromosome copy 0 is a mosaic of `(sources …).1`, copy 1 of `(sources …).2`.
-/
import Mathlib.Tactic
import PybropsModel.Lemmas.MatingStages
set_option autoImplicit false
set_option linter.unusedSectionVars false

namespace Mating
open Meiosis
variable {α ρ : Type}

/-- tag of parent `k` of a cross, read through the base tags of the input population -/
def ptag (pop : Pop α) (cr : List Nat) (k : Nat) : Tag α :=
  (pop.map baseTag).getD (cr.getD k 0) ([], [])

theorem crossTag_ptag (pop : Pop α) (cr : List Nat) (a b : Nat) :
    crossTag (ptag pop cr a) (ptag pop cr b) = (parentHaps pop cr a, parentHaps pop cr b) := by
  simp only [crossTag, ptag, baseTag_getD]

theorem selfTag_ptag (pop : Pop α) (cr : List Nat) (a : Nat) :
    selfTag (ptag pop cr a) = (parentHaps pop cr a, parentHaps pop cr a) := by
  simp only [selfTag, ptag, baseTag_getD]

theorem pick_repeat_col' (pop : Pop α) (c : List Nat) (xc : List (List Nat)) (k : Nat) :
    pick (pop.map baseTag) (Np.repeatEach c (col xc k)) = Np.repeatEach c (xc.map (fun cr => ptag pop cr k)) :=
  pick_repeat_col _ c xc k

theorem forall₂_tagSub_repeat {β : Type} (c : List Nat) (l : List β) (f g : β → Tag α)
    (h : ∀ x, TagSub (f x) (g x)) :
    List.Forall₂ TagSub (Np.repeatEach c (l.map f)) (Np.repeatEach c (l.map g)) := by
  rw [← Np.repeatEach_map, ← Np.repeatEach_map, List.forall₂_map_left_iff, List.forall₂_map_right_iff,
    List.forall₂_same]
  intro x _
  exact h x

section
variable [Preorder ρ] [DecidableLT ρ] [Zero ρ]

/-- what every protocol establishes: tags = `sources` of the progeny's own cross; DH ⇒ homozygous -/
def GenOK (P : Proto) (pop : Pop α) (xc : List (List Nat)) (nm np : List Nat) (nself : Nat) (xo : List ρ)
    (prog : Pop α) : Prop :=
  Tagged xo prog (Np.repeatEach (List.zipWith (· * ·) nm np) (xc.map (sources P nself pop))) ∧
  (P.isDH = true → ∀ i ∈ prog, i.1 = i.2)

variable {pop : Pop α} {xc : List (List Nat)} {nm np : List Nat} {nself : Nat} {xo : List ρ}
  {d d' : List (DrawMat ρ)} {prog : Pop α}

theorem generate_self (hs : popShaped pop xo.length = true) (hnn : Nonneg d)
    (hgen : generate .self pop xc nm np nself xo d = .ok (prog, d')) :
    GenOK .self pop xc nm np nself xo prog := by
  have hb := base_tagged xo pop hs
  simp only [generate] at hgen
  split at hgen
  · simp at hgen
  · rename_i s d1 h1
    obtain ⟨t1, n1⟩ := mateE_tagged hb hb hnn h1
    rw [pick_repeat_col', Np.zipWith_repeatEach, zipWith_map_same] at t1
    obtain ⟨t2, _⟩ := selfLoop_tagged nself t1 n1 hgen
    rw [Np.repeatEach_map, List.map_map] at t2
    refine ⟨t2.mono (forall₂_tagSub_repeat _ _ _ _ ?_), by simp [Proto.isDH]⟩
    intro cr
    simp only [Function.comp, crossTag_ptag, sources]
    split
    · exact ⟨fun x hx => hx, fun x hx => hx⟩
    · constructor <;> intro x hx <;> simp only [selfTag, List.mem_append] at hx ⊢ <;> tauto

theorem generate_twoWay (hs : popShaped pop xo.length = true) (hnn : Nonneg d)
    (hgen : generate .twoWay pop xc nm np nself xo d = .ok (prog, d')) :
    GenOK .twoWay pop xc nm np nself xo prog := by
  have hb := base_tagged xo pop hs
  simp only [generate] at hgen
  split at hgen
  · simp at hgen
  · rename_i h d1 h1
    obtain ⟨t1, n1⟩ := mateE_tagged hb hb hnn h1
    rw [pick_repeat_col', pick_repeat_col', Np.zipWith_repeatEach, zipWith_map_same] at t1
    obtain ⟨t2, _⟩ := selfLoop_tagged nself t1 n1 hgen
    rw [Np.repeatEach_map, List.map_map] at t2
    refine ⟨t2.mono (forall₂_tagSub_repeat _ _ _ _ ?_), by simp [Proto.isDH]⟩
    intro cr
    simp only [Function.comp, crossTag_ptag, sources]
    split <;> simp only [selfTag, TagSub] <;> exact ⟨fun x hx => hx, fun x hx => hx⟩

theorem generate_twoWayDH (hs : popShaped pop xo.length = true) (hnn : Nonneg d)
    (hgen : generate .twoWayDH pop xc nm np nself xo d = .ok (prog, d')) :
    GenOK .twoWayDH pop xc nm np nself xo prog := by
  have hb := base_tagged xo pop hs
  simp only [generate] at hgen
  split at hgen
  · simp at hgen
  · rename_i h d1 h1
    obtain ⟨t1, n1⟩ := mateE_tagged hb hb hnn h1
    rw [pick_repeat_col', pick_repeat_col', Np.zipWith_repeatEach, zipWith_map_same] at t1
    split at hgen
    · simp at hgen
    · rename_i h' d2 h2
      obtain ⟨t2, n2⟩ := selfLoop_tagged nself t1 n1 h2
      rw [Np.repeatEach_map, List.map_map] at t2
      obtain ⟨t3, _, hom⟩ := dhE_tagged t2 n2 hgen
      rw [pick_repeat_arange _ _ _ (List.Forall₂.length_eq t2), Np.repeatEach_nested,
        Np.repeatEach_map, List.map_map] at t3
      refine ⟨t3.mono (forall₂_tagSub_repeat _ _ _ _ ?_), fun _ => hom⟩
      intro cr
      simp only [Function.comp, crossTag_ptag, sources]
      split <;> constructor <;> intro x hx <;> simp only [selfTag, List.mem_append] at hx ⊢ <;> tauto

theorem generate_threeWay (hs : popShaped pop xo.length = true) (hnn : Nonneg d)
    (hgen : generate .threeWay pop xc nm np nself xo d = .ok (prog, d')) :
    GenOK .threeWay pop xc nm np nself xo prog := by
  have hb := base_tagged xo pop hs
  simp only [generate] at hgen
  split at hgen
  · simp at hgen
  · rename_i f1 d1 h1
    obtain ⟨t1, n1⟩ := mateE_tagged hb hb hnn h1
    rw [pick_repeat_col', pick_repeat_col', Np.zipWith_repeatEach, zipWith_map_same] at t1
    split at hgen
    · simp at hgen
    · rename_i h d2 h2
      obtain ⟨t2, n2⟩ := mateE_tagged hb t1 n1 h2
      rw [pick_repeat_col', pick_repeat_arange _ _ _ (List.Forall₂.length_eq t1), Np.repeatEach_nested,
        Np.zipWith_repeatEach, zipWith_map_same] at t2
      obtain ⟨t3, _⟩ := selfLoop_tagged nself t2 n2 hgen
      rw [Np.repeatEach_map, List.map_map] at t3
      refine ⟨t3.mono (forall₂_tagSub_repeat _ _ _ _ ?_), by simp [Proto.isDH]⟩
      intro cr
      simp only [Function.comp, crossTag_ptag, sources]
      split <;> simp only [selfTag, crossTag, ptag, baseTag_getD, TagSub] <;>
        exact ⟨fun x hx => hx, fun x hx => hx⟩

theorem generate_threeWayDH (hs : popShaped pop xo.length = true) (hnn : Nonneg d)
    (hgen : generate .threeWayDH pop xc nm np nself xo d = .ok (prog, d')) :
    GenOK .threeWayDH pop xc nm np nself xo prog := by
  have hb := base_tagged xo pop hs
  simp only [generate] at hgen
  split at hgen
  · simp at hgen
  · rename_i f1 d1 h1
    obtain ⟨t1, n1⟩ := mateE_tagged hb hb hnn h1
    rw [pick_repeat_col', pick_repeat_col', Np.zipWith_repeatEach, zipWith_map_same] at t1
    split at hgen
    · simp at hgen
    · rename_i bc d2 h2
      obtain ⟨t2, n2⟩ := mateE_tagged hb t1 n1 h2
      rw [pick_repeat_col', (List.Forall₂.length_eq t1), pick_arange,
        Np.zipWith_repeatEach, zipWith_map_same] at t2
      split at hgen
      · simp at hgen
      · rename_i bc' d3 h3
        obtain ⟨t3, n3⟩ := selfLoop_tagged nself t2 n2 h3
        rw [Np.repeatEach_map, List.map_map] at t3
        obtain ⟨t4, _, hom⟩ := dhE_tagged t3 n3 hgen
        rw [pick_repeat_arange _ _ _ (List.Forall₂.length_eq t3), Np.repeatEach_nested,
          Np.repeatEach_map, List.map_map] at t4
        refine ⟨t4.mono (forall₂_tagSub_repeat _ _ _ _ ?_), fun _ => hom⟩
        intro cr
        simp only [Function.comp, crossTag_ptag, sources]
        split <;> constructor <;> intro x hx <;>
          simp only [selfTag, crossTag, ptag, baseTag_getD, List.mem_append] at hx ⊢ <;> tauto

theorem generate_fourWay (hs : popShaped pop xo.length = true) (hnn : Nonneg d)
    (hgen : generate .fourWay pop xc nm np nself xo d = .ok (prog, d')) :
    GenOK .fourWay pop xc nm np nself xo prog := by
  have hb := base_tagged xo pop hs
  simp only [generate] at hgen
  split at hgen
  · simp at hgen
  · rename_i ab d1 h1
    obtain ⟨t1, n1⟩ := mateE_tagged hb hb hnn h1
    rw [pick_repeat_col', pick_repeat_col', Np.zipWith_repeatEach, zipWith_map_same] at t1
    split at hgen
    · simp at hgen
    · rename_i cd d2 h2
      obtain ⟨t2, n2⟩ := mateE_tagged hb hb n1 h2
      rw [pick_repeat_col', pick_repeat_col', Np.zipWith_repeatEach, zipWith_map_same] at t2
      split at hgen
      · simp at hgen
      · rename_i h d3 h3
        obtain ⟨t3, n3⟩ := mateE_tagged t1 t2 n2 h3
        rw [pick_repeat_arange _ _ _ (List.Forall₂.length_eq t1),
          pick_repeat_arange _ _ _ (List.Forall₂.length_eq t2), Np.repeatEach_nested, Np.repeatEach_nested,
          Np.zipWith_repeatEach, zipWith_map_same] at t3
        obtain ⟨t4, _⟩ := selfLoop_tagged nself t3 n3 hgen
        rw [Np.repeatEach_map, List.map_map] at t4
        refine ⟨t4.mono (forall₂_tagSub_repeat _ _ _ _ ?_), by simp [Proto.isDH]⟩
        intro cr
        simp only [Function.comp, crossTag_ptag, sources]
        split <;> simp only [selfTag, crossTag, TagSub] <;> exact ⟨fun x hx => hx, fun x hx => hx⟩

theorem generate_fourWayDH (hs : popShaped pop xo.length = true) (hnn : Nonneg d)
    (hgen : generate .fourWayDH pop xc nm np nself xo d = .ok (prog, d')) :
    GenOK .fourWayDH pop xc nm np nself xo prog := by
  have hb := base_tagged xo pop hs
  simp only [generate] at hgen
  split at hgen
  · simp at hgen
  · rename_i ab d1 h1
    obtain ⟨t1, n1⟩ := mateE_tagged hb hb hnn h1
    rw [pick_repeat_col', pick_repeat_col', Np.zipWith_repeatEach, zipWith_map_same] at t1
    split at hgen
    · simp at hgen
    · rename_i cd d2 h2
      obtain ⟨t2, n2⟩ := mateE_tagged hb hb n1 h2
      rw [pick_repeat_col', pick_repeat_col', Np.zipWith_repeatEach, zipWith_map_same] at t2
      split at hgen
      · simp at hgen
      · rename_i dih d3 h3
        obtain ⟨t3, n3⟩ := mateE_tagged t1 t2 n2 h3
        rw [(List.Forall₂.length_eq t1), (List.Forall₂.length_eq t2), pick_arange, pick_arange,
          Np.zipWith_repeatEach, zipWith_map_same] at t3
        split at hgen
        · simp at hgen
        · rename_i dih' d4 h4
          obtain ⟨t4, n4⟩ := selfLoop_tagged nself t3 n3 h4
          rw [Np.repeatEach_map, List.map_map] at t4
          obtain ⟨t5, _, hom⟩ := dhE_tagged t4 n4 hgen
          rw [pick_repeat_arange _ _ _ (List.Forall₂.length_eq t4), Np.repeatEach_nested,
            Np.repeatEach_map, List.map_map] at t5
          refine ⟨t5.mono (forall₂_tagSub_repeat _ _ _ _ ?_), fun _ => hom⟩
          intro cr
          simp only [Function.comp, crossTag_ptag, sources]
          split <;> constructor <;> intro x hx <;>
            simp only [selfTag, crossTag, List.mem_append] at hx ⊢ <;> tauto

/-- all seven protocols -/
theorem generate_ok (P : Proto) (hs : popShaped pop xo.length = true) (hnn : Nonneg d)
    (hgen : generate P pop xc nm np nself xo d = .ok (prog, d')) :
    GenOK P pop xc nm np nself xo prog := by
  cases P
  · exact generate_self hs hnn hgen
  · exact generate_twoWay hs hnn hgen
  · exact generate_twoWayDH hs hnn hgen
  · exact generate_threeWay hs hnn hgen
  · exact generate_threeWayDH hs hnn hgen
  · exact generate_fourWay hs hnn hgen
  · exact generate_fourWayDH hs hnn hgen

end

end Mating
