/-
Helper lemmas for C06 (pymoo operators on subset chromosomes): boolean-mask read/write, the
exchange of the reduced chromosomes, and feasibility of every operator output.
-/
import Mathlib.Tactic
import Mathlib.Data.List.Perm.Basic
import PybropsModel.Lemmas.OptSort
set_option autoImplicit false
set_option linter.unusedSectionVars false

namespace Optimize

variable {ε : Type} [DecidableEq ε]

/-- a subset decision lies in the decision space: `k` distinct members of the candidate set -/
def Feasible (space : List ε) (k : ℕ) (x : List ε) : Prop :=
  x.Nodup ∧ (∀ e ∈ x, e ∈ space) ∧ x.length = k

theorem feasibleB_iff (space : List ε) (k : ℕ) (x : List ε) : feasibleB space k x = true ↔ Feasible space k x := by
  unfold feasibleB Feasible
  simp only [Bool.and_eq_true, beq_iff_eq, List.all_eq_true, decide_eq_true_eq]
  tauto

/-! ### boolean masks -/

theorem compress_map_filter (f : ε → Bool) (l : List ε) : Np.compress (l.map f) l = l.filter f := by
  induction l with
  | nil => simp [Np.compress]
  | cons a l ih =>
    unfold Np.compress at ih ⊢
    simp only [List.map_cons, List.zip_cons_cons, List.filterMap_cons, List.filter_cons]
    cases f a <;> simp [ih]

theorem maskSet_length (xs : List ε) (ms : List Bool) (vs : List ε) : (maskSet xs ms vs).length = xs.length := by
  induction xs generalizing ms vs with
  | nil => cases ms <;> simp [maskSet]
  | cons x xs ih =>
    cases ms with
    | nil => simp [maskSet]
    | cons m ms =>
      cases m
      · simp [maskSet, ih]
      · cases vs <;> simp [maskSet, ih]

theorem maskSet_perm (f : ε → Bool) (xs vs : List ε) (h : vs.length = (xs.filter f).length) :
    (maskSet xs (xs.map f) vs).Perm (xs.filter (fun x => !f x) ++ vs) := by
  induction xs generalizing vs with
  | nil =>
    have : vs = [] := by simpa using h
    subst this
    simp [maskSet]
  | cons x xs ih =>
    by_cases hx : f x = true
    · cases vs with
      | nil => simp [hx] at h
      | cons v vs =>
        have h' : vs.length = (xs.filter f).length := by simpa [hx] using h
        simp only [List.map_cons, hx, maskSet, List.filter_cons, Bool.not_true, Bool.false_eq_true, if_false]
        exact (List.Perm.cons v (ih vs h')).trans List.perm_middle.symm
    · have hx' : f x = false := by simpa using hx
      have h' : vs.length = (xs.filter f).length := by simpa [hx'] using h
      simp only [List.map_cons, hx', maskSet, List.filter_cons, Bool.not_false, if_true, List.cons_append]
      exact List.Perm.cons x (ih vs h')

theorem maskSet_all_false (xs vs : List ε) (ms : List Bool) (h : ∀ m ∈ ms, m = false) : maskSet xs ms vs = xs := by
  induction xs generalizing ms with
  | nil => cases ms <;> simp [maskSet]
  | cons x xs ih =>
    cases ms with
    | nil => simp [maskSet]
    | cons m ms =>
      have hm : m = false := h m (by simp)
      subst hm
      simp only [maskSet]
      rw [ih ms (fun m hm => h m (List.mem_cons_of_mem _ hm))]

theorem maskSet_mem (xs : List ε) (ms : List Bool) (vs : List ε) : ∀ e ∈ maskSet xs ms vs, e ∈ xs ∨ e ∈ vs := by
  induction xs generalizing ms vs with
  | nil => cases ms <;> simp [maskSet]
  | cons x xs ih =>
    cases ms with
    | nil => intro e he; exact Or.inl (by simpa [maskSet] using he)
    | cons m ms =>
      cases m
      · intro e he
        simp only [maskSet, List.mem_cons] at he
        rcases he with rfl | he
        · exact Or.inl (by simp)
        · rcases ih ms vs e he with h | h
          · exact Or.inl (List.mem_cons_of_mem _ h)
          · exact Or.inr h
      · cases vs with
        | nil =>
          intro e he
          simp only [maskSet, List.mem_cons] at he
          rcases he with rfl | he
          · exact Or.inl (by simp)
          · rcases ih ms [] e he with h | h
            · exact Or.inl (List.mem_cons_of_mem _ h)
            · exact Or.inr h
        | cons v vs =>
          intro e he
          simp only [maskSet, List.mem_cons] at he
          rcases he with rfl | he
          · exact Or.inr (by simp)
          · rcases ih ms vs e he with h | h
            · exact Or.inl (List.mem_cons_of_mem _ h)
            · exact Or.inr (List.mem_cons_of_mem _ h)

/-- writing pairwise distinct fresh values under ANY mask keeps a duplicate-free list duplicate-free -/
theorem maskSet_nodup (xs : List ε) (ms : List Bool) (vs : List ε) (hx : xs.Nodup) (hv : vs.Nodup)
    (hdis : ∀ v ∈ vs, v ∉ xs) : (maskSet xs ms vs).Nodup := by
  induction xs generalizing ms vs with
  | nil => cases ms <;> simp [maskSet]
  | cons x xs ih =>
    rw [List.nodup_cons] at hx
    cases ms with
    | nil => simpa [maskSet] using List.nodup_cons.mpr hx
    | cons m ms =>
      have hdis' : ∀ v ∈ vs, v ∉ xs := fun v h h' => hdis v h (List.mem_cons_of_mem _ h')
      cases m
      · simp only [maskSet, List.nodup_cons]
        refine ⟨?_, ih ms vs hx.2 hv hdis'⟩
        intro hmem
        rcases maskSet_mem xs ms vs x hmem with h | h
        · exact hx.1 h
        · exact hdis x h (by simp)
      · cases vs with
        | nil =>
          simp only [maskSet, List.nodup_cons]
          refine ⟨?_, ih ms [] hx.2 List.nodup_nil (by simp)⟩
          intro hmem
          rcases maskSet_mem xs ms [] x hmem with h | h
          · exact hx.1 h
          · simp at h
        | cons v vs =>
          rw [List.nodup_cons] at hv
          simp only [maskSet, List.nodup_cons]
          refine ⟨?_, ih ms vs hx.2 hv.2 (fun w h h' => hdis w (List.mem_cons_of_mem _ h) (List.mem_cons_of_mem _ h'))⟩
          intro hmem
          rcases maskSet_mem xs ms vs v hmem with h | h
          · exact hdis v (by simp) (List.mem_cons_of_mem _ h)
          · exact hv.1 h

/-! ### the exchange `ap[mex], bp[mex] = bp[mex], ap[mex]` -/

/-- body of the fold in `exchangeAt` -/
def exStep (ap bp : List ε) (p : List ε × List ε) (m : ℕ) : List ε × List ε :=
  match ap[m]?, bp[m]? with
  | some x, some y => (p.1.set m y, p.2.set m x)
  | _, _ => p

theorem exchangeAt_eq (ap bp : List ε) (mex : List ℕ) : exchangeAt ap bp mex = mex.foldl (exStep ap bp) (ap, bp) := rfl

theorem exFold_spec (ap bp : List ε) (mex : List ℕ) (p : List ε × List ε)
    (h1 : p.1.length = ap.length) (h2 : p.2.length = bp.length) :
    let r := mex.foldl (exStep ap bp) p
    r.1.length = ap.length ∧ r.2.length = bp.length ∧
    (∀ t, r.1[t]? = if t ∈ mex ∧ t < ap.length ∧ t < bp.length then bp[t]? else p.1[t]?) ∧
    (∀ t, r.2[t]? = if t ∈ mex ∧ t < ap.length ∧ t < bp.length then ap[t]? else p.2[t]?) := by
  induction mex generalizing p with
  | nil => simp [h1, h2]
  | cons m mex ih =>
    simp only [List.foldl_cons]
    by_cases hm : m < ap.length ∧ m < bp.length
    · obtain ⟨hma, hmb⟩ := hm
      have hstep : exStep ap bp p m = (p.1.set m bp[m], p.2.set m ap[m]) := by
        unfold exStep
        simp [List.getElem?_eq_getElem hma, List.getElem?_eq_getElem hmb]
      rw [hstep]
      obtain ⟨l1, l2, g1, g2⟩ := ih (p.1.set m bp[m], p.2.set m ap[m]) (by simpa using h1) (by simpa using h2)
      refine ⟨l1, l2, ?_, ?_⟩
      · intro t
        rw [g1 t]
        by_cases htm : t = m
        · subst htm
          simp [hma, hmb, h1]
        · have : (p.1.set m bp[m])[t]? = p.1[t]? := by
            rw [List.getElem?_set]; simp [Ne.symm htm]
          simp only [this, List.mem_cons, htm, false_or]
      · intro t
        rw [g2 t]
        by_cases htm : t = m
        · subst htm
          simp [hma, hmb, h2]
        · have : (p.2.set m ap[m])[t]? = p.2[t]? := by
            rw [List.getElem?_set]; simp [Ne.symm htm]
          simp only [this, List.mem_cons, htm, false_or]
    · have hstep : exStep ap bp p m = p := by
        unfold exStep
        rcases not_and_or.mp hm with h | h
        · simp [List.getElem?_eq_none (Nat.le_of_not_lt h)]
        · cases ap[m]? <;> simp [List.getElem?_eq_none (Nat.le_of_not_lt h)]
      rw [hstep]
      obtain ⟨l1, l2, g1, g2⟩ := ih p h1 h2
      refine ⟨l1, l2, ?_, ?_⟩
      · intro t
        rw [g1 t]
        by_cases htm : t = m
        · subst htm
          have : ¬ (t < ap.length ∧ t < bp.length) := hm
          simp [this]
        · simp only [List.mem_cons, htm, false_or]
      · intro t
        rw [g2 t]
        by_cases htm : t = m
        · subst htm
          have : ¬ (t < ap.length ∧ t < bp.length) := hm
          simp [this]
        · simp only [List.mem_cons, htm, false_or]

theorem exchangeAt_spec (ap bp : List ε) (mex : List ℕ) :
    (exchangeAt ap bp mex).1.length = ap.length ∧ (exchangeAt ap bp mex).2.length = bp.length ∧
    (∀ t, (exchangeAt ap bp mex).1[t]? = if t ∈ mex ∧ t < ap.length ∧ t < bp.length then bp[t]? else ap[t]?) ∧
    (∀ t, (exchangeAt ap bp mex).2[t]? = if t ∈ mex ∧ t < ap.length ∧ t < bp.length then ap[t]? else bp[t]?) := by
  rw [exchangeAt_eq]
  exact exFold_spec ap bp mex (ap, bp) rfl rfl

/-- a list that reads, position by position, from one of two duplicate-free disjoint lists is duplicate-free -/
theorem nodup_of_mixed (ap bp M : List ε) (sel : ℕ → Prop) [DecidablePred sel]
    (hap : ap.Nodup) (hbp : bp.Nodup) (hdis : ∀ x ∈ ap, x ∉ bp)
    (hget : ∀ t, M[t]? = if sel t then bp[t]? else ap[t]?) : M.Nodup := by
  rw [List.nodup_iff_getElem?_ne_getElem?]
  intro i j hij hj heq
  have hi : i < M.length := lt_trans hij hj
  rw [hget i, hget j] at heq
  have hMi : M[i]? = some M[i] := List.getElem?_eq_getElem hi
  have hMj : M[j]? = some M[j] := List.getElem?_eq_getElem hj
  have gi := hget i
  have gj := hget j
  rw [hMi] at gi
  rw [hMj] at gj
  by_cases si : sel i <;> by_cases sj : sel j <;> simp only [si, sj, if_true, if_false] at heq gi gj
  · -- both from bp
    have h1 := List.getElem?_eq_some_iff.mp gi.symm
    have h2 := List.getElem?_eq_some_iff.mp gj.symm
    obtain ⟨hib, hiv⟩ := h1
    obtain ⟨hjb, hjv⟩ := h2
    have : bp[i] = bp[j] := by
      have := heq
      rw [List.getElem?_eq_getElem hib, List.getElem?_eq_getElem hjb] at this
      exact Option.some.inj this
    have := (List.Nodup.getElem_inj_iff hbp).mp this
    omega
  · -- i from bp, j from ap
    obtain ⟨hib, hiv⟩ := List.getElem?_eq_some_iff.mp gi.symm
    obtain ⟨hja, hjv⟩ := List.getElem?_eq_some_iff.mp gj.symm
    have : bp[i] = ap[j] := by
      rw [List.getElem?_eq_getElem hib, List.getElem?_eq_getElem hja] at heq
      exact Option.some.inj heq
    exact hdis ap[j] (List.getElem_mem hja) (this ▸ List.getElem_mem hib)
  · obtain ⟨hia, hiv⟩ := List.getElem?_eq_some_iff.mp gi.symm
    obtain ⟨hjb, hjv⟩ := List.getElem?_eq_some_iff.mp gj.symm
    have : ap[i] = bp[j] := by
      rw [List.getElem?_eq_getElem hia, List.getElem?_eq_getElem hjb] at heq
      exact Option.some.inj heq
    exact hdis ap[i] (List.getElem_mem hia) (this ▸ List.getElem_mem hjb)
  · obtain ⟨hia, hiv⟩ := List.getElem?_eq_some_iff.mp gi.symm
    obtain ⟨hja, hjv⟩ := List.getElem?_eq_some_iff.mp gj.symm
    have : ap[i] = ap[j] := by
      rw [List.getElem?_eq_getElem hia, List.getElem?_eq_getElem hja] at heq
      exact Option.some.inj heq
    have := (List.Nodup.getElem_inj_iff hap).mp this
    omega

theorem mem_of_mixed (ap bp M : List ε) (sel : ℕ → Prop) [DecidablePred sel]
    (hget : ∀ t, M[t]? = if sel t then bp[t]? else ap[t]?) : ∀ x ∈ M, x ∈ ap ∨ x ∈ bp := by
  intro x hx
  obtain ⟨t, ht, rfl⟩ := List.mem_iff_getElem.mp hx
  have g := hget t
  rw [List.getElem?_eq_getElem ht] at g
  by_cases st : sel t <;> simp only [st, if_true, if_false] at g
  · exact Or.inr (List.mem_of_getElem? g.symm)
  · exact Or.inl (List.mem_of_getElem? g.symm)

/-! ### crossover -/

/-- one child of the reduced-exchange crossover, seen from parent `a` with partner `b`:
    `M` is the reduced chromosome of `a` after the exchange -/
theorem child_feasible (space : List ε) (k : ℕ) (a b M : List ε) (sel : ℕ → Prop) [DecidablePred sel]
    (ha : Feasible space k a) (hb : Feasible space k b)
    (hlen : M.length = (a.filter (fun x => !decide (x ∈ b))).length)
    (hget : ∀ t, M[t]? = if sel t then (b.filter (fun x => !decide (x ∈ a)))[t]?
                          else (a.filter (fun x => !decide (x ∈ b)))[t]?) :
    Feasible space k (maskSet a (a.map (fun x => !decide (x ∈ b))) M) := by
  set f : ε → Bool := fun x => !decide (x ∈ b) with hf
  set ap := a.filter f with hap
  set bp := b.filter (fun x => !decide (x ∈ a)) with hbp
  have hperm := maskSet_perm f a M hlen
  have hapnd : ap.Nodup := ha.1.filter _
  have hbpnd : bp.Nodup := hb.1.filter _
  have hdis : ∀ x ∈ ap, x ∉ bp := by
    intro x hx hx'
    have h1 : x ∈ a := (List.mem_filter.mp hx).1
    have h2 := (List.mem_filter.mp hx').2
    simp [h1] at h2
  have hMnd : M.Nodup := nodup_of_mixed ap bp M sel hapnd hbpnd hdis hget
  have hMmem := mem_of_mixed ap bp M sel hget
  refine ⟨?_, ?_, ?_⟩
  · rw [hperm.nodup_iff, List.nodup_append]
    refine ⟨ha.1.filter _, hMnd, ?_⟩
    intro x hx y hy hxy
    subst hxy
    obtain ⟨hxa, hxb⟩ := List.mem_filter.mp hx
    have hxb' : x ∈ b := by simpa [hf] using hxb
    rcases hMmem x hy with h | h
    · have := (List.mem_filter.mp h).2
      simp [hf, hxb'] at this
    · have := (List.mem_filter.mp h).2
      simp [hxa] at this
  · intro e he
    have := hperm.mem_iff.mp he
    rcases List.mem_append.mp this with h | h
    · exact ha.2.1 e (List.mem_filter.mp h).1
    · rcases hMmem e h with h' | h'
      · exact ha.2.1 e (List.mem_filter.mp h').1
      · exact hb.2.1 e (List.mem_filter.mp h').1
  · rw [maskSet_length]; exact ha.2.2

theorem crossover_feasible (space : List ε) (k : ℕ) (a b : List ε) (mex : List ℕ)
    (ha : Feasible space k a) (hb : Feasible space k b) :
    Feasible space k (crossover a b mex).1 ∧ Feasible space k (crossover a b mex).2 := by
  unfold crossover
  simp only [compress_map_filter]
  obtain ⟨l1, l2, g1, g2⟩ := exchangeAt_spec (a.filter (fun x => !decide (x ∈ b))) (b.filter (fun x => !decide (x ∈ a))) mex
  constructor
  · exact child_feasible space k a b _ _ ha hb l1 g1
  · exact child_feasible space k b a _ _ hb ha l2 g2

/-! ### mutation, sampling, memetic neighbours -/

theorem mutation_id (space x : List ε) (mexMask : List Bool) (choice : List ℕ) (hx : ∀ e ∈ x, e ∈ space) :
    mutation space x mexMask choice = x := by
  unfold mutation
  apply maskSet_all_false
  intro m hm
  obtain ⟨e, he, rfl⟩ := List.mem_map.mp hm
  simp [hx e he]

theorem sample_feasible (space : List ε) (hs : space.Nodup) (idx : List ℕ) (hnd : idx.Nodup)
    (hlt : ∀ i ∈ idx, i < space.length) : Feasible space idx.length (sampleSubset space idx) := by
  unfold sampleSubset
  exact ⟨take_nodup space hs idx hnd, take_mem space idx, take_length space idx hlt⟩

theorem set_feasible (space : List ε) (k : ℕ) (x : List ε) (locus : ℕ) (w : ε)
    (hx : Feasible space k x) (hw : w ∈ space) (hwx : w ∉ x) : Feasible space k (x.set locus w) := by
  refine ⟨?_, ?_, by rw [List.length_set]; exact hx.2.2⟩
  · by_cases hl : locus < x.length
    · rw [(List.set_perm_cons_eraseIdx hl w).nodup_iff, List.nodup_cons]
      have hsub : (x.eraseIdx locus).Sublist x := List.eraseIdx_sublist _ _
      exact ⟨fun h => hwx (hsub.subset h), hx.1.sublist hsub⟩
    · rw [List.set_eq_of_length_le (Nat.le_of_not_lt hl)]; exact hx.1
  · intro e he
    rcases List.mem_or_eq_of_mem_set he with h | h
    · exact hx.2.1 e h
    · exact h ▸ hw

theorem neighbors_feasible (space : List ε) (k : ℕ) (x : List ε) (locus : ℕ) (hx : Feasible space k x) :
    ∀ y ∈ hcNeighbors space x locus, Feasible space k y := by
  intro y hy
  unfold hcNeighbors at hy
  obtain ⟨w, hw, rfl⟩ := List.mem_map.mp hy
  unfold complement at hw
  obtain ⟨hws, hwx⟩ := List.mem_filter.mp hw
  exact set_feasible space k x locus w hx hws (by simpa using hwx)

/-- numpy fancy assignment of pairwise distinct fresh candidates keeps a chromosome feasible,
    whatever the written positions are (repeated or out of range) -/
theorem fancySet_feasible (space : List ε) (k : ℕ) (idx : List ℕ) :
    ∀ (vals x : List ε), Feasible space k x → vals.Nodup → (∀ v ∈ vals, v ∈ space ∧ v ∉ x) →
      Feasible space k (fancySet x idx vals) := by
  induction idx with
  | nil => intro vals x hx _ _; simpa [fancySet] using hx
  | cons i idx ih =>
    intro vals x hx hnd hv
    cases vals with
    | nil => simpa [fancySet] using hx
    | cons v vals =>
      rw [List.nodup_cons] at hnd
      have hv0 := hv v (by simp)
      have hx' := set_feasible space k x i v hx hv0.1 hv0.2
      have := ih vals (x.set i v) hx' hnd.2 (by
        intro w hw
        refine ⟨(hv w (List.mem_cons_of_mem _ hw)).1, ?_⟩
        intro hmem
        rcases List.mem_or_eq_of_mem_set hmem with h | h
        · exact (hv w (List.mem_cons_of_mem _ hw)).2 h
        · exact hnd.1 (h ▸ hw))
      simpa [fancySet] using this

/-! ### the evolutionary loop as an arbitrary interleaving of operator applications and re-selections -/

/-- the only constraint on an operation: a sampling draw is a draw without replacement of `k` positions -/
def Admissible (space : List ε) (k : ℕ) : GAOp → Prop
  | .sample idx => idx.Nodup ∧ (∀ i ∈ idx, i < space.length) ∧ idx.length = k
  | _ => True

theorem applyOp_feasible (space : List ε) (hs : space.Nodup) (k : ℕ) (pop : List (List ε))
    (hpop : ∀ x ∈ pop, Feasible space k x) (op : GAOp) (hop : Admissible space k op) :
    ∀ x ∈ applyOp space pop op, Feasible space k x := by
  cases op with
  | sample idx =>
    obtain ⟨h1, h2, h3⟩ := hop
    intro x hx
    simp only [applyOp, List.mem_append, List.mem_singleton] at hx
    rcases hx with h | rfl
    · exact hpop x h
    · exact h3 ▸ sample_feasible space hs idx h1 h2
  | cross i j mex =>
    intro x hx
    simp only [applyOp] at hx
    cases hi : pop[i]? with
    | none => simp only [hi] at hx; exact hpop x hx
    | some a =>
      cases hj : pop[j]? with
      | none => simp only [hi, hj] at hx; exact hpop x hx
      | some b =>
        simp only [hi, hj, List.mem_append, List.mem_cons, List.not_mem_nil, or_false] at hx
        have ha := hpop a (List.mem_of_getElem? hi)
        have hb := hpop b (List.mem_of_getElem? hj)
        obtain ⟨c1, c2⟩ := crossover_feasible space k a b mex ha hb
        rcases hx with h | rfl | rfl
        · exact hpop x h
        · exact c1
        · exact c2
  | mutate i m c =>
    intro x hx
    simp only [applyOp] at hx
    cases hi : pop[i]? with
    | none => simp only [hi] at hx; exact hpop x hx
    | some y =>
      simp only [hi] at hx
      have hy := hpop y (List.mem_of_getElem? hi)
      rw [mutation_id space y m c hy.2.1] at hx
      rcases List.mem_or_eq_of_mem_set hx with h | h
      · exact hpop x h
      · exact h ▸ hy
  | neighbors i locus =>
    intro x hx
    simp only [applyOp] at hx
    cases hi : pop[i]? with
    | none => simp only [hi] at hx; exact hpop x hx
    | some y =>
      simp only [hi, List.mem_append] at hx
      rcases hx with h | h
      · exact hpop x h
      · exact neighbors_feasible space k y locus (hpop y (List.mem_of_getElem? hi)) x h
  | select keep =>
    intro x hx
    simp only [applyOp] at hx
    exact hpop x (take_mem pop keep x hx)

end Optimize
