/-
Helper lemmas for C12 (7): symmetries of the loop-body formulas, vanishing for identical parents,
relabelling of taxa, free recombination (all crossover probabilities 1/2), progeny means.
-/
import PybropsModel.Lemmas.VarAssemble
set_option autoImplicit false
set_option linter.unusedSectionVars false

namespace Variance
variable {α : Type} [Field α] [CharZero α]

namespace Setup
variable (S : Setup α)

/-! ### symmetries of the loop-body formulas -/

theorem twoWayLower_symm (hm : MemOK S.mem) (hc : ChrOK S.chrs) (f m s t : Nat) :
    S.twoWayLower f m s t = S.twoWayLower m f s t := by
  rw [S.twoWayLower_closed hm hc, S.twoWayLower_closed hm hc]
  apply genomeKer_congr
  intro c _ i j _ _ _ _
  unfold Setup.ker
  ring

theorem threeWayLower_symm (hm : MemOK S.mem) (hc : ChrOK S.chrs) (r f m s t : Nat) :
    S.threeWayLower r f m s t = S.threeWayLower r m f s t := by
  rw [S.threeWayLower_closed hm hc, S.threeWayLower_closed hm hc]
  congr 1
  apply genomeKer_congr
  intro c _ i j _ _ _ _
  unfold Setup.ker3 Setup.ker
  ring

theorem ker6_swap34 (p1 p2 p3 p4 : Nat → α) (s t i j : Nat) :
    S.ker6 p1 p2 p3 p4 s t i j = S.ker6 p1 p2 p4 p3 s t i j := by
  unfold Setup.ker6 Setup.ker; ring

theorem ker6_swap12 (p1 p2 p3 p4 : Nat → α) (s t i j : Nat) :
    S.ker6 p1 p2 p3 p4 s t i j = S.ker6 p2 p1 p3 p4 s t i j := by
  unfold Setup.ker6 Setup.ker; ring

theorem ker6_swap_pairs (p1 p2 p3 p4 : Nat → α) (s t i j : Nat) :
    S.ker6 p1 p2 p3 p4 s t i j = S.ker6 p3 p4 p1 p2 s t i j := by
  unfold Setup.ker6 Setup.ker; ring

theorem fourWayLower_symm_inner (hm : MemOK S.mem) (hc : ChrOK S.chrs) (f2 m2 f1 m1 s t : Nat) :
    S.fourWayLower f2 m2 f1 m1 s t = S.fourWayLower f2 m2 m1 f1 s t := by
  rw [S.fourWayLower_closed hm hc, S.fourWayLower_closed hm hc]
  congr 1
  exact genomeKer_congr _ _ _ (fun c _ i j _ _ _ _ => S.ker6_swap34 _ _ _ _ s t i j)

theorem fourWayLower_symm_outer (hm : MemOK S.mem) (hc : ChrOK S.chrs) (f2 m2 f1 m1 s t : Nat) :
    S.fourWayLower f2 m2 f1 m1 s t = S.fourWayLower m2 f2 f1 m1 s t := by
  rw [S.fourWayLower_closed hm hc, S.fourWayLower_closed hm hc]
  congr 1
  exact genomeKer_congr _ _ _ (fun c _ i j _ _ _ _ => S.ker6_swap12 _ _ _ _ s t i j)

theorem fourWayLower_symm_pairs (hm : MemOK S.mem) (hc : ChrOK S.chrs) (f2 m2 f1 m1 s t : Nat) :
    S.fourWayLower f2 m2 f1 m1 s t = S.fourWayLower f1 m1 f2 m2 s t := by
  rw [S.fourWayLower_closed hm hc, S.fourWayLower_closed hm hc]
  congr 1
  exact genomeKer_congr _ _ _ (fun c _ i j _ _ _ _ => S.ker6_swap_pairs _ _ _ _ s t i j)

theorem dihybridLower_symm (hm : MemOK S.mem) (hc : ChrOK S.chrs) (f m s t : Nat) :
    S.dihybridLower f m s t = S.dihybridLower m f s t := by
  rw [S.dihybridLower_closed hm hc, S.dihybridLower_closed hm hc]
  congr 1
  exact genomeKer_congr _ _ _ (fun c _ i j _ _ _ _ => S.ker6_swap_pairs _ _ _ _ s t i j)

/-! ### identical parents -/

theorem ker_zero (D : Nat → Nat → α) (x : Nat → α) (hx : ∀ i, x i = 0) (s t i j : Nat) :
    S.ker D x s t i j = 0 := by
  unfold Setup.ker; rw [hx i]; ring

theorem twoWayLower_identical (hm : MemOK S.mem) (hc : ChrOK S.chrs) (f m s t : Nat)
    (h : ∀ i, S.g0 f i = S.g0 m i) : S.twoWayLower f m s t = 0 := by
  rw [S.twoWayLower_closed hm hc, ← genomeKer_zero S.chrs]
  apply genomeKer_congr
  intro c _ i j _ _ _ _
  exact S.ker_zero _ _ (fun i => by rw [h i]; ring) s t i j

theorem threeWayLower_identical (hm : MemOK S.mem) (hc : ChrOK S.chrs) (r f m s t : Nat)
    (h1 : ∀ i, S.g0 f i = S.g0 r i) (h2 : ∀ i, S.g0 m i = S.g0 r i) : S.threeWayLower r f m s t = 0 := by
  rw [S.threeWayLower_closed hm hc]
  have : genomeKer S.chrs (S.ker3 (S.g0 r) (S.g0 f) (S.g0 m) s t) = 0 := by
    rw [← genomeKer_zero S.chrs]
    apply genomeKer_congr
    intro c _ i j _ _ _ _
    unfold Setup.ker3
    rw [S.ker_zero _ _ (fun i => by rw [h1 i]; ring), S.ker_zero _ _ (fun i => by rw [h2 i]; ring),
      S.ker_zero _ _ (fun i => by rw [h1 i, h2 i]; ring)]
    ring
  rw [this]; ring

theorem ker6_identical (p1 p2 p3 p4 : Nat → α) (h2 : ∀ i, p2 i = p1 i) (h3 : ∀ i, p3 i = p1 i)
    (h4 : ∀ i, p4 i = p1 i) (s t i j : Nat) : S.ker6 p1 p2 p3 p4 s t i j = 0 := by
  unfold Setup.ker6
  rw [S.ker_zero _ _ (fun i => by rw [h2 i]; ring), S.ker_zero _ _ (fun i => by rw [h3 i]; ring),
    S.ker_zero _ _ (fun i => by rw [h3 i, h2 i]; ring), S.ker_zero _ _ (fun i => by rw [h4 i]; ring),
    S.ker_zero _ _ (fun i => by rw [h4 i, h2 i]; ring), S.ker_zero _ _ (fun i => by rw [h4 i, h3 i]; ring)]
  ring

theorem fourWayLower_identical (hm : MemOK S.mem) (hc : ChrOK S.chrs) (f2 m2 f1 m1 s t : Nat)
    (h2 : ∀ i, S.g0 m2 i = S.g0 f2 i) (h3 : ∀ i, S.g0 f1 i = S.g0 f2 i) (h4 : ∀ i, S.g0 m1 i = S.g0 f2 i) :
    S.fourWayLower f2 m2 f1 m1 s t = 0 := by
  rw [S.fourWayLower_closed hm hc]
  have : genomeKer S.chrs (S.ker6 (S.g0 f2) (S.g0 m2) (S.g0 f1) (S.g0 m1) s t) = 0 := by
    rw [← genomeKer_zero S.chrs]
    exact genomeKer_congr _ _ _ (fun c _ i j _ _ _ _ => S.ker6_identical _ _ _ _ h2 h3 h4 s t i j)
  rw [this]; ring

theorem dihybridLower_identical (hm : MemOK S.mem) (hc : ChrOK S.chrs) (f m s t : Nat)
    (h2 : ∀ i, S.g0 f i = S.g1 f i) (h3 : ∀ i, S.g1 m i = S.g1 f i) (h4 : ∀ i, S.g0 m i = S.g1 f i) :
    S.dihybridLower f m s t = 0 := by
  rw [S.dihybridLower_closed hm hc]
  have : genomeKer S.chrs (S.ker6 (S.g1 f) (S.g0 f) (S.g1 m) (S.g0 m) s t) = 0 := by
    rw [← genomeKer_zero S.chrs]
    exact genomeKer_congr _ _ _ (fun c _ i j _ _ _ _ => S.ker6_identical _ _ _ _ h2 h3 h4 s t i j)
  rw [this]; ring

end Setup

/-! ### enumeration: symmetric in exchangeable parents -/

theorem cov_congr_coord {L L' : ((Nat → α) → α) → α} (hL : Lin L) (hL' : Lin L') (p : Nat) (u w : Nat → α)
    (h : ∀ i j, 4 * coordCov L i j = 4 * coordCov L' i j) :
    covOf L (dhValue p u) (dhValue p w) = covOf L' (dhValue p u) (dhValue p w) := by
  rw [cov_expand hL, cov_expand hL']
  simp only [h]

theorem enum_threeWay_swap (xs : List α) (hx : HalfStart xs) (n p : Nat) (p1 p2 p3 u w : Nat → α) :
    covOf (threeWayE xs n p1 p2 p3) (dhValue p u) (dhValue p w)
      = covOf (threeWayE xs n p1 p3 p2) (dhValue p u) (dhValue p w) := by
  apply cov_congr_coord (lin_threeWay xs n _ _ _) (lin_threeWay xs n _ _ _)
  intro i j
  rw [coordCov_threeWay xs hx, coordCov_threeWay xs hx]
  ring

theorem enum_fourWay_swap34 (xs : List α) (hx : HalfStart xs) (n p : Nat) (p1 p2 p3 p4 u w : Nat → α) :
    covOf (fourWayE xs n p1 p2 p3 p4) (dhValue p u) (dhValue p w)
      = covOf (fourWayE xs n p1 p2 p4 p3) (dhValue p u) (dhValue p w) := by
  apply cov_congr_coord (lin_fourWay xs n _ _ _ _) (lin_fourWay xs n _ _ _ _)
  intro i j
  rw [coordCov_fourWay xs hx, coordCov_fourWay xs hx]
  ring

theorem enum_fourWay_swap_pairs (xs : List α) (hx : HalfStart xs) (n p : Nat) (p1 p2 p3 p4 u w : Nat → α) :
    covOf (fourWayE xs n p1 p2 p3 p4) (dhValue p u) (dhValue p w)
      = covOf (fourWayE xs n p3 p4 p1 p2) (dhValue p u) (dhValue p w) := by
  apply cov_congr_coord (lin_fourWay xs n _ _ _ _) (lin_fourWay xs n _ _ _ _)
  intro i j
  rw [coordCov_fourWay xs hx, coordCov_fourWay xs hx]
  ring

/-! ### free recombination ("linkage ignored") -/

/-- every marker is unlinked from its predecessor -/
def AllHalf (xs : List α) (p : Nat) : Prop := HalfStart xs ∧ ∀ k, k < p → xs[k]? = some (1 / 2)

theorem allHalf_replicate (p : Nat) (hp : 0 < p) : AllHalf (List.replicate p (1 / 2 : α)) p := by
  constructor
  · apply halfStart_of_head
    simp [hp]
  · intro k hk
    simp [hk]

theorem rho_allHalf (xs : List α) (p : Nat) (h : AllHalf xs p) (i j : Nat) (hi : i < p) (hj : j < p) :
    rho xs i j = if i = j then 1 else 0 := by
  split_ifs with hij
  · subst hij; exact rho_self xs i
  · rcases Nat.lt_or_gt_of_ne hij with hlt | hgt
    · exact rho_zero_of_half xs i j j hlt (le_refl j) (h.2 j hj)
    · rw [rho_symm]; exact rho_zero_of_half xs j i i hgt (le_refl i) (h.2 i hi)

/-- with free recombination the covariance of two doubled-haploid values is a single sum over markers -/
theorem cov_linkage_free {xs : List α} {p : Nat} (h : AllHalf xs p) {L : ((Nat → α) → α) → α} (hL : Lin L)
    (u w : Nat → α) (K : α → Nat → Nat → α)
    (hK : ∀ i j, 4 * coordCov L i j = K (rho xs i j) i j) (hK0 : ∀ i j, K 0 i j = 0) :
    covOf L (dhValue p u) (dhValue p w) = sumRange 0 p (fun i => u i * K 1 i i * w i) := by
  rw [cov_expand hL]
  apply sumRange_congr
  intro i _ hi
  simp only [sumRange_eq_finset]
  rw [Finset.sum_eq_single i]
  · rw [hK, rho_self]
  · intro j hj hne
    have hj' : j < p := (Finset.mem_Ico.mp hj).2
    rw [hK, rho_allHalf xs p h i j hi hj', if_neg (fun e => hne e.symm), hK0]
    ring
  · intro hni
    exact absurd (Finset.mem_Ico.mpr ⟨Nat.zero_le i, hi⟩) hni

/-! ### progeny mean -/

theorem mean_expand {L : ((Nat → α) → α) → α} (h : Lin L) (p : Nat) (u : Nat → α) :
    L (dhValue p u) = sumRange 0 p (fun j => u j * (2 * L (fun g => g j))) := by
  unfold dhValue
  rw [h.sumRange]
  apply sumRange_congr; intro j _ _
  have : (fun g : Nat → α => u j * (g j + g j)) = (fun g => (u j * 2) * g j) := by funext g; ring
  rw [this, h.smul]; ring

end Variance
