/-
Helper lemmas for C15: the reductions used as "summary of the raw values" are what their names say
(`maxL` is the greatest element …), they commute with the standardising map, and constant columns.
-/
import PybropsModel.Lemmas.BVMatOps
set_option autoImplicit false
set_option linter.unusedSectionVars false
set_option linter.unusedVariables false

namespace BVMat

section field
variable {α : Type} [Field α] [LinearOrder α] [IsStrictOrderedRing α]

/-! ### the reductions are the extrema -/

theorem maxL_ge_init (a : α) (l : List α) : a ≤ maxL a l := by
  induction l generalizing a with
  | nil => exact le_refl _
  | cons x l ih =>
    simp only [maxL, List.foldl_cons]
    by_cases h : a < x
    · rw [if_pos h]; exact le_trans h.le (ih x)
    · rw [if_neg h]; exact ih a

/-- `maxL a l` is an element of `a :: l` and bounds all of them -/
theorem maxL_spec (a : α) (l : List α) :
    maxL a l ∈ a :: l ∧ ∀ x ∈ a :: l, x ≤ maxL a l := by
  induction l generalizing a with
  | nil => exact ⟨List.mem_cons_self, fun x hx => by simp at hx; exact hx.le⟩
  | cons y l ih =>
    simp only [maxL, List.foldl_cons]
    by_cases h : a < y
    · rw [if_pos h]
      obtain ⟨hm, hb⟩ := ih y
      refine ⟨List.mem_cons_of_mem _ hm, ?_⟩
      intro x hx
      rcases List.mem_cons.mp hx with rfl | hx
      · exact le_trans h.le (hb y List.mem_cons_self)
      · exact hb x hx
    · rw [if_neg h]
      obtain ⟨hm, hb⟩ := ih a
      refine ⟨?_, ?_⟩
      · rcases List.mem_cons.mp hm with h1 | h1
        · show _ ∈ _; rw [show List.foldl _ a l = a from h1]; exact List.mem_cons_self
        · exact List.mem_cons_of_mem _ (List.mem_cons_of_mem _ h1)
      · intro x hx
        rcases List.mem_cons.mp hx with rfl | hx
        · exact hb _ List.mem_cons_self
        · rcases List.mem_cons.mp hx with rfl | hx
          · exact le_trans (not_lt.mp h) (hb a List.mem_cons_self)
          · exact hb x (List.mem_cons_of_mem _ hx)

theorem minL_spec (a : α) (l : List α) :
    minL a l ∈ a :: l ∧ ∀ x ∈ a :: l, minL a l ≤ x := by
  induction l generalizing a with
  | nil => exact ⟨List.mem_cons_self, fun x hx => by simp at hx; exact hx.ge⟩
  | cons y l ih =>
    simp only [minL, List.foldl_cons]
    by_cases h : y < a
    · rw [if_pos h]
      obtain ⟨hm, hb⟩ := ih y
      refine ⟨List.mem_cons_of_mem _ hm, ?_⟩
      intro x hx
      rcases List.mem_cons.mp hx with rfl | hx
      · exact le_trans (hb y List.mem_cons_self) h.le
      · exact hb x hx
    · rw [if_neg h]
      obtain ⟨hm, hb⟩ := ih a
      refine ⟨?_, ?_⟩
      · rcases List.mem_cons.mp hm with h1 | h1
        · show _ ∈ _; rw [show List.foldl _ a l = a from h1]; exact List.mem_cons_self
        · exact List.mem_cons_of_mem _ (List.mem_cons_of_mem _ h1)
      · intro x hx
        rcases List.mem_cons.mp hx with rfl | hx
        · exact hb _ List.mem_cons_self
        · rcases List.mem_cons.mp hx with rfl | hx
          · exact le_trans (hb a List.mem_cons_self) (not_lt.mp h)
          · exact hb x (List.mem_cons_of_mem _ hx)

/-! ### they commute with the standardising map -/

theorem colMax_map_standardise {s : α} (hs : 0 < s) {m : α} {c : Col α} :
    colMax (c.map (standardise (some m) (some s))) = (colMax c).map (stdFn m s) := by
  unfold colMax
  rw [dense_map _ _ (standardise_none _ _) (standardise_some _ _)]
  cases dense c with
  | none => rfl
  | some l =>
    cases l with
    | nil => rfl
    | cons a l =>
      simp only [Option.map_some, List.map_cons]
      rw [maxL_map (stdFn_strictMono hs m)]

theorem colMin_map_standardise {s : α} (hs : 0 < s) {m : α} {c : Col α} :
    colMin (c.map (standardise (some m) (some s))) = (colMin c).map (stdFn m s) := by
  unfold colMin
  rw [dense_map _ _ (standardise_none _ _) (standardise_some _ _)]
  cases dense c with
  | none => rfl
  | some l =>
    cases l with
    | nil => rfl
    | cons a l =>
      simp only [Option.map_some, List.map_cons]
      rw [minL_map (stdFn_strictMono hs m)]

theorem colArgmax_map_standardise {s : α} (hs : 0 < s) {m : α} {c : Col α} :
    colArgmax (c.map (standardise (some m) (some s))) = colArgmax c := by
  unfold colArgmax
  rw [firstNaN_map _ _ (standardise_none _ _) (standardise_some _ _),
      present_map _ _ (standardise_none _ _) (standardise_some _ _)]
  cases firstNaN c with
  | some i => rfl
  | none =>
    cases present c with
    | nil => rfl
    | cons a l =>
      simp only [List.map_cons]
      exact argmaxGo_map (stdFn_strictMono hs m) a 0 1 l

theorem colArgmin_map_standardise {s : α} (hs : 0 < s) {m : α} {c : Col α} :
    colArgmin (c.map (standardise (some m) (some s))) = colArgmin c := by
  unfold colArgmin
  rw [firstNaN_map _ _ (standardise_none _ _) (standardise_some _ _),
      present_map _ _ (standardise_none _ _) (standardise_some _ _)]
  cases firstNaN c with
  | some i => rfl
  | none =>
    cases present c with
    | nil => rfl
    | cons a l =>
      simp only [List.map_cons]
      exact argminGo_map (stdFn_strictMono hs m) a 0 1 l

theorem colMax_of_present_nil {c : Col α} (h : present c = []) : colMax c = none := by
  unfold colMax dense
  rw [h]
  by_cases hc : c.all Option.isSome = true <;> simp [hc]

theorem colMin_of_present_nil {c : Col α} (h : present c = []) : colMin c = none := by
  unfold colMin dense
  rw [h]
  by_cases hc : c.all Option.isSome = true <;> simp [hc]

/-! ### constant columns -/

theorem sumL_const {l : List α} {a : α} (hc : ∀ x ∈ l, x = a) : sumL l = (l.length : α) * a := by
  induction l with
  | nil => simp [sumL]
  | cons x l ih =>
    have hx : x = a := hc x List.mem_cons_self
    have := ih (fun y hy => hc y (List.mem_cons_of_mem _ hy))
    simp only [sumL, this, hx, List.length_cons, Nat.cast_succ]
    ring

theorem meanL_const {l : List α} {a : α} (h : l ≠ []) (hc : ∀ x ∈ l, x = a) : meanL l = a := by
  unfold meanL
  rw [sumL_const hc]
  field_simp [length_cast_ne_zero (α := α) h]

theorem varL_const {l : List α} {a : α} (h : l ≠ []) (hc : ∀ x ∈ l, x = a) : varL l = 0 := by
  unfold varL
  rw [meanL_const h hc]
  have hz : ∀ y ∈ l.map (fun x => (x - a) * (x - a)), y = 0 := by
    intro y hy
    obtain ⟨x, hx, rfl⟩ := List.mem_map.mp hy
    rw [hc x hx]; ring
  have hne : l.map (fun x => (x - a) * (x - a)) ≠ [] := by simpa using h
  exact meanL_const hne hz

end field
end BVMat

namespace BVMat
section more
variable {α : Type} [Field α] [LinearOrder α] [IsStrictOrderedRing α]

/-! ### variance is a mean of squares -/

theorem sumL_nonneg {l : List α} (h : ∀ x ∈ l, 0 ≤ x) : 0 ≤ sumL l := by
  induction l with
  | nil => simp [sumL]
  | cons a l ih =>
    simp only [sumL]
    exact add_nonneg (h a List.mem_cons_self) (ih (fun x hx => h x (List.mem_cons_of_mem _ hx)))

theorem sumL_eq_zero {l : List α} (h : ∀ x ∈ l, 0 ≤ x) (h0 : sumL l = 0) : ∀ x ∈ l, x = 0 := by
  induction l with
  | nil => intro x hx; cases hx
  | cons a l ih =>
    simp only [sumL] at h0
    have ha := h a List.mem_cons_self
    have hl := sumL_nonneg (fun x hx => h x (List.mem_cons_of_mem _ hx))
    have ha0 : a = 0 := by linarith
    have hl0 : sumL l = 0 := by linarith
    intro x hx
    rcases List.mem_cons.mp hx with rfl | hx
    · exact ha0
    · exact ih (fun y hy => h y (List.mem_cons_of_mem _ hy)) hl0 x hx

theorem varL_nonneg (l : List α) : 0 ≤ varL l := by
  unfold varL meanL
  apply div_nonneg
  · apply sumL_nonneg
    intro y hy
    obtain ⟨x, _, rfl⟩ := List.mem_map.mp hy
    exact mul_self_nonneg _
  · exact Nat.cast_nonneg _

/-- variance 0 ⇒ every value equals the mean -/
theorem eq_mean_of_varL_eq_zero {l : List α} (h : l ≠ []) (hv : varL l = 0) : ∀ x ∈ l, x = meanL l := by
  unfold varL at hv
  have hn : ((List.map (fun x => (x - meanL l) * (x - meanL l)) l).length : α) ≠ 0 := by
    rw [List.length_map]; exact length_cast_ne_zero h
  have hs : sumL (List.map (fun x => (x - meanL l) * (x - meanL l)) l) = 0 := by
    unfold meanL at hv
    rcases div_eq_zero_iff.mp hv with h1 | h1
    · exact h1
    · exact absurd h1 hn
  have hz := sumL_eq_zero (l := List.map (fun x => (x - meanL l) * (x - meanL l)) l)
    (by intro y hy; obtain ⟨x, _, rfl⟩ := List.mem_map.mp hy; exact mul_self_nonneg _) hs
  intro x hx
  have := hz _ (List.mem_map.mpr ⟨x, hx, rfl⟩)
  have := mul_self_eq_zero.mp this
  linarith

/-! ### `argmaxGo` returns the first position of the maximum -/

theorem argmaxGo_spec (pre rest : List α) (best : α) (bi : Nat)
    (hb : pre[bi]? = some best) (hmax : ∀ x ∈ pre, x ≤ best)
    (hfirst : ∀ j, j < bi → ∀ x, pre[j]? = some x → x < best) :
    (pre ++ rest)[argmaxGo best bi pre.length rest]? = some (maxL best rest) ∧
    (∀ x ∈ pre ++ rest, x ≤ maxL best rest) ∧
    (∀ j, j < argmaxGo best bi pre.length rest → ∀ x, (pre ++ rest)[j]? = some x → x < maxL best rest) := by
  induction rest generalizing pre best bi with
  | nil =>
    simp only [argmaxGo, maxL, List.foldl_nil, List.append_nil]
    exact ⟨hb, hmax, hfirst⟩
  | cons y rest ih =>
    have hbi : bi < pre.length := by
      by_contra hc
      rw [List.getElem?_eq_none (not_lt.mp hc)] at hb
      cases hb
    have happ : pre ++ y :: rest = (pre ++ [y]) ++ rest := by simp
    have hlen : (pre ++ [y]).length = pre.length + 1 := by simp
    simp only [argmaxGo, maxL, List.foldl_cons]
    by_cases h : best < y
    · rw [if_pos h, if_pos h, happ, ← hlen]
      apply ih (pre ++ [y]) y pre.length
      · simp
      · intro x hx
        rcases List.mem_append.mp hx with hx | hx
        · exact le_trans (hmax x hx) h.le
        · simp at hx; exact hx.le
      · intro j hj x hx
        rw [List.getElem?_append_left hj] at hx
        exact lt_of_le_of_lt (hmax x (List.mem_of_getElem? hx)) h
    · rw [if_neg h, if_neg h, happ, ← hlen]
      apply ih (pre ++ [y]) best bi
      · rw [List.getElem?_append_left hbi]; exact hb
      · intro x hx
        rcases List.mem_append.mp hx with hx | hx
        · exact hmax x hx
        · simp at hx; rw [hx]; exact not_lt.mp h
      · intro j hj x hx
        rw [List.getElem?_append_left (lt_trans hj hbi)] at hx
        exact hfirst j hj x hx

theorem argminGo_spec (pre rest : List α) (best : α) (bi : Nat)
    (hb : pre[bi]? = some best) (hmin : ∀ x ∈ pre, best ≤ x)
    (hfirst : ∀ j, j < bi → ∀ x, pre[j]? = some x → best < x) :
    (pre ++ rest)[argminGo best bi pre.length rest]? = some (minL best rest) ∧
    (∀ x ∈ pre ++ rest, minL best rest ≤ x) ∧
    (∀ j, j < argminGo best bi pre.length rest → ∀ x, (pre ++ rest)[j]? = some x → minL best rest < x) := by
  induction rest generalizing pre best bi with
  | nil =>
    simp only [argminGo, minL, List.foldl_nil, List.append_nil]
    exact ⟨hb, hmin, hfirst⟩
  | cons y rest ih =>
    have hbi : bi < pre.length := by
      by_contra hc
      rw [List.getElem?_eq_none (not_lt.mp hc)] at hb
      cases hb
    have happ : pre ++ y :: rest = (pre ++ [y]) ++ rest := by simp
    have hlen : (pre ++ [y]).length = pre.length + 1 := by simp
    simp only [argminGo, minL, List.foldl_cons]
    by_cases h : y < best
    · rw [if_pos h, if_pos h, happ, ← hlen]
      apply ih (pre ++ [y]) y pre.length
      · simp
      · intro x hx
        rcases List.mem_append.mp hx with hx | hx
        · exact le_trans h.le (hmin x hx)
        · simp at hx; exact hx.ge
      · intro j hj x hx
        rw [List.getElem?_append_left hj] at hx
        exact lt_of_lt_of_le h (hmin x (List.mem_of_getElem? hx))
    · rw [if_neg h, if_neg h, happ, ← hlen]
      apply ih (pre ++ [y]) best bi
      · rw [List.getElem?_append_left hbi]; exact hb
      · intro x hx
        rcases List.mem_append.mp hx with hx | hx
        · exact hmin x hx
        · simp at hx; rw [hx]; exact not_lt.mp h
      · intro j hj x hx
        rw [List.getElem?_append_left (lt_trans hj hbi)] at hx
        exact hfirst j hj x hx

end more
end BVMat

namespace BVMat
section affine
variable {α : Type} [Field α] [LinearOrder α] [IsStrictOrderedRing α]

/-! ### mean and variance under a general affine map `x ↦ s·x + m` (what `unscale()` applies) -/

theorem sumL_map_affine (s m : α) (l : List α) :
    sumL (l.map (fun x => s * x + m)) = s * sumL l + (l.length : α) * m := by
  induction l with
  | nil => simp [sumL]
  | cons a l ih =>
    simp only [List.map_cons, sumL, ih, List.length_cons, Nat.cast_succ]
    ring

theorem meanL_map_affine {l : List α} (h : l ≠ []) (s m : α) :
    meanL (l.map (fun x => s * x + m)) = s * meanL l + m := by
  have hn := length_cast_ne_zero (α := α) h
  unfold meanL
  rw [sumL_map_affine, List.length_map]
  field_simp

theorem varL_map_affine {l : List α} (h : l ≠ []) (s m : α) :
    varL (l.map (fun x => s * x + m)) = s * s * varL l := by
  unfold varL
  rw [meanL_map_affine h]
  unfold meanL
  simp only [List.length_map, List.map_map]
  have : ((fun x => (x - (s * (sumL l / (l.length : α)) + m)) * (x - (s * (sumL l / (l.length : α)) + m))) ∘
        fun x => s * x + m)
      = fun x => (s * s) * ((x - sumL l / (l.length : α)) * (x - sumL l / (l.length : α))) := by
    funext x; simp only [Function.comp]; ring
  rw [this, sumL_map_mul_left]
  ring

/-! ### permutations of the taxa -/

theorem filterMap_range_getElem? {β : Type} (c : List β) :
    (List.range c.length).filterMap (fun i => c[i]?) = c := by
  induction c with
  | nil => rfl
  | cons a c ih =>
    rw [List.length_cons, List.range_succ_eq_map, List.filterMap_cons]
    simp only [List.getElem?_cons_zero, List.filterMap_map]
    congr 1

/-- `numpy.take` with a permutation of all positions permutes the list -/
theorem take_perm {β : Type} (idx : List Nat) (c : List β) (h : idx.Perm (List.range c.length)) :
    (Np.take idx c).Perm c := by
  unfold Np.take
  have := h.filterMap (fun i => c[i]?)
  rw [filterMap_range_getElem?] at this
  exact this

theorem present_perm {c d : Col α} (h : c.Perm d) : (present c).Perm (present d) :=
  h.filterMap id

theorem sumL_perm {l r : List α} (h : l.Perm r) : sumL l = sumL r := by
  rw [sumL_eq_sum, sumL_eq_sum]; exact h.sum_eq

theorem meanL_perm {l r : List α} (h : l.Perm r) : meanL l = meanL r := by
  unfold meanL; rw [sumL_perm h, h.length_eq]

theorem varL_perm {l r : List α} (h : l.Perm r) : varL l = varL r := by
  unfold varL
  rw [meanL_perm h]
  exact meanL_perm (h.map _)

theorem isEmpty_perm {β : Type} {l r : List β} (h : l.Perm r) : l.isEmpty = r.isEmpty := by
  cases l with
  | nil => rw [h.nil_eq]
  | cons a l =>
    cases r with
    | nil => exact absurd h.symm.nil_eq (by simp)
    | cons b r => rfl

theorem nanmean_perm {c d : Col α} (h : c.Perm d) : nanmean c = nanmean d := by
  have hp := present_perm h
  unfold nanmean
  rw [meanL_perm hp]
  rw [isEmpty_perm hp]

theorem nanvar_perm {c d : Col α} (h : c.Perm d) : nanvar c = nanvar d := by
  have hp := present_perm h
  unfold nanvar
  rw [varL_perm hp]
  rw [isEmpty_perm hp]

/-- `from_numpy` commutes with a permutation of the taxa: same location and scale, stored values
    permuted in the same way -/
theorem fromNumpyCol_take_perm (sq : α → α) (idx : List Nat) (c : Col α)
    (h : idx.Perm (List.range c.length)) :
    fromNumpyCol sq (Np.take idx c) =
      { mat := Np.take idx (fromNumpyCol sq c).mat, loc := (fromNumpyCol sq c).loc,
        scale := (fromNumpyCol sq c).scale } := by
  have hp := take_perm idx c h
  unfold fromNumpyCol nanstd
  rw [nanmean_perm hp, nanvar_perm hp]
  simp only [take_map]

end affine
end BVMat
