/-
Helper lemmas for C15: the reductions used as "summary of the raw values" are what their names say
(`maxL` is the greatest element …), they commute with the standardising map, and constant columns.
-/
import PybropsModel.Lemmas.BVMatOps
set_option autoImplicit false
set_option linter.unusedSectionVars false
set_option linter.unusedVariables false

namespace BVMat

section field
variable {α : Type} [Field α] [LinearOrder α] [IsStrictOrderedRing α]

/-! ### they commute with the standardising map -/

theorem colMax_map_standardise {s : α} (hs : 0 < s) {m : α} {c : Col α} :
    colMax (c.map (standardise (some m) (some s))) = (colMax c).map (stdFn m s) := by
  unfold colMax
  rw [dense_map _ _ (standardise_none _ _) (standardise_some _ _)]
  cases dense c with
  | none => rfl
  | some l =>
    cases l with
    | nil => rfl
    | cons a l =>
      simp only [Option.map_some, List.map_cons]
      rw [maxL_map (stdFn_strictMono hs m)]

theorem colMin_map_standardise {s : α} (hs : 0 < s) {m : α} {c : Col α} :
    colMin (c.map (standardise (some m) (some s))) = (colMin c).map (stdFn m s) := by
  unfold colMin
  rw [dense_map _ _ (standardise_none _ _) (standardise_some _ _)]
  cases dense c with
  | none => rfl
  | some l =>
    cases l with
    | nil => rfl
    | cons a l =>
      simp only [Option.map_some, List.map_cons]
      rw [minL_map (stdFn_strictMono hs m)]

theorem colArgmax_map_standardise {s : α} (hs : 0 < s) {m : α} {c : Col α} :
    colArgmax (c.map (standardise (some m) (some s))) = colArgmax c := by
  unfold colArgmax
  rw [firstNaN_map _ _ (standardise_none _ _) (standardise_some _ _),
      present_map _ _ (standardise_none _ _) (standardise_some _ _)]
  cases firstNaN c with
  | some i => rfl
  | none =>
    cases present c with
    | nil => rfl
    | cons a l =>
      simp only [List.map_cons]
      exact argmaxGo_map (stdFn_strictMono hs m) a 0 1 l

theorem colArgmin_map_standardise {s : α} (hs : 0 < s) {m : α} {c : Col α} :
    colArgmin (c.map (standardise (some m) (some s))) = colArgmin c := by
  unfold colArgmin
  rw [firstNaN_map _ _ (standardise_none _ _) (standardise_some _ _),
      present_map _ _ (standardise_none _ _) (standardise_some _ _)]
  cases firstNaN c with
  | some i => rfl
  | none =>
    cases present c with
    | nil => rfl
    | cons a l =>
      simp only [List.map_cons]
      exact argminGo_map (stdFn_strictMono hs m) a 0 1 l

theorem colMax_of_present_nil {c : Col α} (h : present c = []) : colMax c = none := by
  unfold colMax dense
  rw [h]
  by_cases hc : c.all Option.isSome = true <;> simp [hc]

theorem colMin_of_present_nil {c : Col α} (h : present c = []) : colMin c = none := by
  unfold colMin dense
  rw [h]
  by_cases hc : c.all Option.isSome = true <;> simp [hc]

end field
end BVMat

namespace BVMat
section more
variable {α : Type} [Field α] [LinearOrder α] [IsStrictOrderedRing α]

/-! ### `argmaxGo` returns the first position of the maximum -/

theorem argmaxGo_spec (pre rest : List α) (best : α) (bi : Nat)
    (hb : pre[bi]? = some best) (hmax : ∀ x ∈ pre, x ≤ best)
    (hfirst : ∀ j, j < bi → ∀ x, pre[j]? = some x → x < best) :
    (pre ++ rest)[argmaxGo best bi pre.length rest]? = some (maxL best rest) ∧
    (∀ x ∈ pre ++ rest, x ≤ maxL best rest) ∧
    (∀ j, j < argmaxGo best bi pre.length rest → ∀ x, (pre ++ rest)[j]? = some x → x < maxL best rest) := by
  induction rest generalizing pre best bi with
  | nil =>
    simp only [argmaxGo, maxL, List.foldl_nil, List.append_nil]
    exact ⟨hb, hmax, hfirst⟩
  | cons y rest ih =>
    have hbi : bi < pre.length := by
      by_contra hc
      rw [List.getElem?_eq_none (not_lt.mp hc)] at hb
      cases hb
    have happ : pre ++ y :: rest = (pre ++ [y]) ++ rest := by simp
    have hlen : (pre ++ [y]).length = pre.length + 1 := by simp
    simp only [argmaxGo, maxL, List.foldl_cons]
    by_cases h : best < y
    · rw [if_pos h, if_pos h, happ, ← hlen]
      apply ih (pre ++ [y]) y pre.length
      · simp
      · intro x hx
        rcases List.mem_append.mp hx with hx | hx
        · exact le_trans (hmax x hx) h.le
        · simp at hx; exact hx.le
      · intro j hj x hx
        rw [List.getElem?_append_left hj] at hx
        exact lt_of_le_of_lt (hmax x (List.mem_of_getElem? hx)) h
    · rw [if_neg h, if_neg h, happ, ← hlen]
      apply ih (pre ++ [y]) best bi
      · rw [List.getElem?_append_left hbi]; exact hb
      · intro x hx
        rcases List.mem_append.mp hx with hx | hx
        · exact hmax x hx
        · simp at hx; rw [hx]; exact not_lt.mp h
      · intro j hj x hx
        rw [List.getElem?_append_left (lt_trans hj hbi)] at hx
        exact hfirst j hj x hx

theorem argminGo_spec (pre rest : List α) (best : α) (bi : Nat)
    (hb : pre[bi]? = some best) (hmin : ∀ x ∈ pre, best ≤ x)
    (hfirst : ∀ j, j < bi → ∀ x, pre[j]? = some x → best < x) :
    (pre ++ rest)[argminGo best bi pre.length rest]? = some (minL best rest) ∧
    (∀ x ∈ pre ++ rest, minL best rest ≤ x) ∧
    (∀ j, j < argminGo best bi pre.length rest → ∀ x, (pre ++ rest)[j]? = some x → minL best rest < x) := by
  induction rest generalizing pre best bi with
  | nil =>
    simp only [argminGo, minL, List.foldl_nil, List.append_nil]
    exact ⟨hb, hmin, hfirst⟩
  | cons y rest ih =>
    have hbi : bi < pre.length := by
      by_contra hc
      rw [List.getElem?_eq_none (not_lt.mp hc)] at hb
      cases hb
    have happ : pre ++ y :: rest = (pre ++ [y]) ++ rest := by simp
    have hlen : (pre ++ [y]).length = pre.length + 1 := by simp
    simp only [argminGo, minL, List.foldl_cons]
    by_cases h : y < best
    · rw [if_pos h, if_pos h, happ, ← hlen]
      apply ih (pre ++ [y]) y pre.length
      · simp
      · intro x hx
        rcases List.mem_append.mp hx with hx | hx
        · exact le_trans h.le (hmin x hx)
        · simp at hx; exact hx.ge
      · intro j hj x hx
        rw [List.getElem?_append_left hj] at hx
        exact lt_of_lt_of_le h (hmin x (List.mem_of_getElem? hx))
    · rw [if_neg h, if_neg h, happ, ← hlen]
      apply ih (pre ++ [y]) best bi
      · rw [List.getElem?_append_left hbi]; exact hb
      · intro x hx
        rcases List.mem_append.mp hx with hx | hx
        · exact hmin x hx
        · simp at hx; rw [hx]; exact not_lt.mp h
      · intro j hj x hx
        rw [List.getElem?_append_left (lt_trans hj hbi)] at hx
        exact hfirst j hj x hx

end more
end BVMat

namespace BVMat
section affine
variable {α : Type} [Field α] [LinearOrder α] [IsStrictOrderedRing α]

/-! ### mean and variance under a general affine map `x ↦ s·x + m` (what `unscale()` applies) -/

theorem sumL_map_affine (s m : α) (l : List α) :
    sumL (l.map (fun x => s * x + m)) = s * sumL l + (l.length : α) * m := by
  induction l with
  | nil => simp [sumL]
  | cons a l ih =>
    simp only [List.map_cons, sumL, ih, List.length_cons, Nat.cast_succ]
    ring

theorem meanL_map_affine {l : List α} (h : l ≠ []) (s m : α) :
    meanL (l.map (fun x => s * x + m)) = s * meanL l + m := by
  have hn := length_cast_ne_zero (α := α) h
  unfold meanL
  rw [sumL_map_affine, List.length_map]
  field_simp

theorem varL_map_affine {l : List α} (h : l ≠ []) (s m : α) :
    varL (l.map (fun x => s * x + m)) = s * s * varL l := by
  unfold varL
  rw [meanL_map_affine h]
  unfold meanL
  simp only [List.length_map, List.map_map]
  have : ((fun x => (x - (s * (sumL l / (l.length : α)) + m)) * (x - (s * (sumL l / (l.length : α)) + m))) ∘
        fun x => s * x + m)
      = fun x => (s * s) * ((x - sumL l / (l.length : α)) * (x - sumL l / (l.length : α))) := by
    funext x; simp only [Function.comp]; ring
  rw [this, sumL_map_mul_left]
  ring

/-! ### permutations of the taxa -/

theorem filterMap_range_getElem? {β : Type} (c : List β) :
    (List.range c.length).filterMap (fun i => c[i]?) = c := by
  induction c with
  | nil => rfl
  | cons a c ih =>
    rw [List.length_cons, List.range_succ_eq_map, List.filterMap_cons]
    simp only [List.getElem?_cons_zero, List.filterMap_map]
    congr 1

/-- `numpy.take` with a permutation of all positions permutes the list -/
theorem take_perm {β : Type} (idx : List Nat) (c : List β) (h : idx.Perm (List.range c.length)) :
    (Np.take idx c).Perm c := by
  unfold Np.take
  have := h.filterMap (fun i => c[i]?)
  rw [filterMap_range_getElem?] at this
  exact this

theorem present_perm {c d : Col α} (h : c.Perm d) : (present c).Perm (present d) :=
  h.filterMap id

theorem sumL_perm {l r : List α} (h : l.Perm r) : sumL l = sumL r := by
  rw [sumL_eq_sum, sumL_eq_sum]; exact h.sum_eq

theorem meanL_perm {l r : List α} (h : l.Perm r) : meanL l = meanL r := by
  unfold meanL; rw [sumL_perm h, h.length_eq]

theorem varL_perm {l r : List α} (h : l.Perm r) : varL l = varL r := by
  unfold varL
  rw [meanL_perm h]
  exact meanL_perm (h.map _)

theorem isEmpty_perm {β : Type} {l r : List β} (h : l.Perm r) : l.isEmpty = r.isEmpty := by
  cases l with
  | nil => rw [h.nil_eq]
  | cons a l =>
    cases r with
    | nil => exact absurd h.symm.nil_eq (by simp)
    | cons b r => rfl

theorem nanmean_perm {c d : Col α} (h : c.Perm d) : nanmean c = nanmean d := by
  have hp := present_perm h
  unfold nanmean
  rw [meanL_perm hp]
  rw [isEmpty_perm hp]

theorem nanvar_perm {c d : Col α} (h : c.Perm d) : nanvar c = nanvar d := by
  have hp := present_perm h
  unfold nanvar
  rw [varL_perm hp]
  rw [isEmpty_perm hp]

/-- `from_numpy` commutes with a permutation of the taxa: same location and scale, stored values
    permuted in the same way -/
theorem fromNumpyCol_take_perm (sq : α → α) (idx : List Nat) (c : Col α)
    (h : idx.Perm (List.range c.length)) :
    fromNumpyCol sq (Np.take idx c) =
      { mat := Np.take idx (fromNumpyCol sq c).mat, loc := (fromNumpyCol sq c).loc,
        scale := (fromNumpyCol sq c).scale } := by
  have hp := take_perm idx c h
  have hpp := present_perm hp
  by_cases hn : present c = []
  · have hn' : present (Np.take idx c) = [] := by
      have := hpp.length_eq
      rw [hn] at this
      exact List.length_eq_zero_iff.mp this
    have hall := present_eq_nil hn
    rw [fromNumpyCol_of_nil sq hn', fromNumpyCol_of_nil sq hn]
  · have hn' : present (Np.take idx c) ≠ [] := by
      intro h0
      have := hpp.length_eq
      rw [h0] at this
      exact hn (List.length_eq_zero_iff.mp this.symm)
    rw [fromNumpyCol_of_ne sq hn', fromNumpyCol_of_ne sq hn]
    have hm : meanL (present (Np.take idx c)) = meanL (present c) := meanL_perm hpp
    have hs : scaleOf sq (present (Np.take idx c)) = scaleOf sq (present c) := by
      unfold scaleOf; rw [varL_perm hpp]
    rw [hm, hs]
    simp only [take_map]

end affine
end BVMat
