/-
C01: siblings share their intermediate hybrid.  `lineage` / the Spec judge the progeny one by one ("there is a
hybrid with the prescribed pedigree of which this row is a doubled haploid").  The three doubled-haploid protocols
do more: ALL doubled haploids of one mating are gametes of ONE line (`numpy.repeat(numpy.arange(nlines),
numpy.repeat(nprogeny, nmating))` indexes the same selfed hybrid `nprogeny` times).  Stated of the generation
order: there is a population `hyb` of lines, one per mating, each with the pedigree of the corresponding non-DH
protocol (`P.base`) for its cross, and progeny `k` is a doubled haploid of line `sel[k]`.
-/
import Mathlib.Tactic
import PybropsModel.Lemmas.Pedigree
set_option autoImplicit false
set_option linter.unusedSectionVars false

namespace Mating
open Meiosis
variable {α ρ : Type}

/-- the protocol that produces the lines which a DH protocol doubles -/
def Proto.base : Proto → Proto
  | .twoWayDH => .twoWay
  | .threeWayDH => .threeWay
  | .fourWayDH => .fourWay
  | p => p

section
variable [Preorder ρ] [DecidableLT ρ] [Zero ρ]

/-- `c` is a doubled haploid of line `s` of the population `hyb` -/
def DhOf (xo : List ρ) (hyb : Pop α) (s : Nat) (c : Ind α) : Prop :=
  ∃ H, hyb[s]? = some H ∧ Mosaic [H.1, H.2] xo c.1 ∧ c.1 = c.2

/-- `mat_dh`: row `k` of the result is one gamete of individual `sel[k]`, twice -/
theorem dhE_lines {xo : List ρ} {pop : Pop α} (hs : Shaped xo pop) {sel : List Nat} {d d' : List (DrawMat ρ)}
    {out : Pop α} (hnn : Nonneg d) (h : dhE pop sel xo d = .ok (out, d')) :
    List.Forall₂ (DhOf xo pop) sel out := by
  cases d with
  | nil => simp [dhE] at h
  | cons r rest =>
    cases h1 : meiosisE pop sel xo r with
    | error e => simp [dhE, h1] at h
    | ok g =>
      simp only [dhE, h1, Except.ok.injEq, Prod.mk.injEq] at h
      obtain ⟨rfl, rfl⟩ := h
      have a := meiosisE_child hs (hnn r (by simp)) h1
      rw [List.forall₂_map_right_iff]
      refine a.imp ?_
      rintro s g ⟨F, hF, hm⟩
      exact ⟨F, hF, hm, rfl⟩

variable {pop : Pop α} {xc : List (List Nat)} {nm np : List Nat} {nself : Nat} {xo : List ρ}
  {d d' : List (DrawMat ρ)} {prog : Pop α}

/-- what the three DH protocols establish about the generation order -/
def SibOK (P : Proto) (pop : Pop α) (xc : List (List Nat)) (nm np : List Nat) (nself : Nat) (xo : List ρ)
    (prog : Pop α) : Prop :=
  ∃ hyb : Pop α, PT hyb (Np.repeatEach nm (xc.map (lineage xo P.base nself pop))) ∧
    List.Forall₂ (DhOf xo hyb) (Np.repeatEach (Np.repeatEach nm np) (Np.arange 0 hyb.length)) prog

theorem siblings_twoWayDH (hs : Shaped xo pop) (hnn : Nonneg d)
    (hgen : generate .twoWayDH pop xc nm np nself xo d = .ok (prog, d')) :
    SibOK .twoWayDH pop xc nm np nself xo prog := by
  have hb := base_pt pop
  simp only [generate] at hgen
  split at hgen
  · simp at hgen
  · rename_i h d1 h1
    obtain ⟨t1, s1, n1⟩ := mateE_pt hs hs hb hb hnn h1
    rw [pickP_base_col, pickP_base_col, Np.zipWith_repeatEach, zipWith_map_same] at t1
    split at hgen
    · simp at hgen
    · rename_i h' d2 h2
      obtain ⟨t2, s2, n2⟩ := selfLoop_pt nself s1 t1 n1 h2
      rw [Np.repeatEach_map, List.map_map] at t2
      refine ⟨h', ?_, dhE_lines s2 n2 hgen⟩
      refine t2.mono (forall₂_predSub_repeat _ _ _ _ ?_)
      intro cr
      simp only [Function.comp, lineage, Proto.base]
      exact selfN_mono nself (crossPred_mono (ppred_sub pop cr 0) (ppred_sub pop cr 1))

theorem siblings_threeWayDH (hs : Shaped xo pop) (hnn : Nonneg d)
    (hgen : generate .threeWayDH pop xc nm np nself xo d = .ok (prog, d')) :
    SibOK .threeWayDH pop xc nm np nself xo prog := by
  have hb := base_pt pop
  simp only [generate] at hgen
  split at hgen
  · simp at hgen
  · rename_i f1 d1 h1
    obtain ⟨t1, s1, n1⟩ := mateE_pt hs hs hb hb hnn h1
    rw [pickP_base_col, pickP_base_col, Np.zipWith_repeatEach, zipWith_map_same] at t1
    split at hgen
    · simp at hgen
    · rename_i bc d2 h2
      obtain ⟨t2, s2, n2⟩ := mateE_pt hs s1 hb t1 n1 h2
      rw [pickP_base_col, (List.Forall₂.length_eq t1), pickP_arange,
        Np.zipWith_repeatEach, zipWith_map_same] at t2
      split at hgen
      · simp at hgen
      · rename_i bc' d3 h3
        obtain ⟨t3, s3, n3⟩ := selfLoop_pt nself s2 t2 n2 h3
        rw [Np.repeatEach_map, List.map_map] at t3
        refine ⟨bc', ?_, dhE_lines s3 n3 hgen⟩
        refine t3.mono (forall₂_predSub_repeat _ _ _ _ ?_)
        intro cr
        simp only [Function.comp, lineage, Proto.base]
        exact selfN_mono nself (crossPred_mono (ppred_sub pop cr 0)
          (crossPred_mono (ppred_sub pop cr 1) (ppred_sub pop cr 2)))

theorem siblings_fourWayDH (hs : Shaped xo pop) (hnn : Nonneg d)
    (hgen : generate .fourWayDH pop xc nm np nself xo d = .ok (prog, d')) :
    SibOK .fourWayDH pop xc nm np nself xo prog := by
  have hb := base_pt pop
  simp only [generate] at hgen
  split at hgen
  · simp at hgen
  · rename_i ab d1 h1
    obtain ⟨t1, s1, n1⟩ := mateE_pt hs hs hb hb hnn h1
    rw [pickP_base_col, pickP_base_col, Np.zipWith_repeatEach, zipWith_map_same] at t1
    split at hgen
    · simp at hgen
    · rename_i cd d2 h2
      obtain ⟨t2, s2, n2⟩ := mateE_pt hs hs hb hb n1 h2
      rw [pickP_base_col, pickP_base_col, Np.zipWith_repeatEach, zipWith_map_same] at t2
      split at hgen
      · simp at hgen
      · rename_i dih d3 h3
        obtain ⟨t3, s3, n3⟩ := mateE_pt s1 s2 t1 t2 n2 h3
        rw [(List.Forall₂.length_eq t1), (List.Forall₂.length_eq t2), pickP_arange, pickP_arange,
          Np.zipWith_repeatEach, zipWith_map_same] at t3
        split at hgen
        · simp at hgen
        · rename_i dih' d4 h4
          obtain ⟨t4, s4, n4⟩ := selfLoop_pt nself s3 t3 n3 h4
          rw [Np.repeatEach_map, List.map_map] at t4
          refine ⟨dih', ?_, dhE_lines s4 n4 hgen⟩
          refine t4.mono (forall₂_predSub_repeat _ _ _ _ ?_)
          intro cr
          simp only [Function.comp, lineage, Proto.base]
          exact selfN_mono nself (crossPred_mono
            (crossPred_mono (ppred_sub pop cr 2) (ppred_sub pop cr 3))
            (crossPred_mono (ppred_sub pop cr 0) (ppred_sub pop cr 1)))

theorem siblings_ok (P : Proto) (hP : P.isDH = true) (hs : popShaped pop xo.length = true) (hnn : Nonneg d)
    (hgen : generate P pop xc nm np nself xo d = .ok (prog, d')) : SibOK P pop xc nm np nself xo prog := by
  have hs' := shaped_of_popShaped hs
  cases P <;> simp [Proto.isDH] at hP
  · exact siblings_twoWayDH hs' hnn hgen
  · exact siblings_threeWayDH hs' hnn hgen
  · exact siblings_fourWayDH hs' hnn hgen

/-! ### three-way and four-way crosses: the progeny of one mating share the F1(s) -/

theorem forall₂_predSub_zipWith {β γ : Type} (F G : β → γ → Pred α) (h : ∀ a b, PredSub (F a b) (G a b)) :
    ∀ (l1 : List β) (l2 : List γ), List.Forall₂ PredSub (List.zipWith F l1 l2) (List.zipWith G l1 l2)
  | [], _ => by simp
  | _ :: _, [] => by simp
  | a :: l1, b :: l2 => by
    simp only [List.zipWith_cons_cons]
    exact List.Forall₂.cons (h a b) (forall₂_predSub_zipWith F G h l1 l2)

/-- what `ThreeWayCross` establishes: there is a population `f1` of F1 individuals, one per mating, each a progeny of
    parents 1 x 2 of its cross, and progeny `k` (before selfing; after `nself` selfings of that one individual) is a
    progeny of recurrent parent `rsel[k]` x F1 number `f1sel[k]` — the `nprogeny` back-cross progeny of one mating
    all have the SAME F1 as their male-side parent -/
def SibF1OK3 (pop : Pop α) (xc : List (List Nat)) (nm np : List Nat) (nself : Nat) (xo : List ρ) (prog : Pop α) : Prop :=
  ∃ f1 : Pop α,
    PT f1 (Np.repeatEach nm (xc.map (fun cr => crossPred xo (isInd pop (cr.getD 1 0)) (isInd pop (cr.getD 2 0))))) ∧
    PT prog ((List.zipWith (fun r s => crossPred xo (isInd pop r) (isInd f1 s))
      (Np.repeatEach (List.zipWith (· * ·) nm np) (col xc 0))
      (Np.repeatEach (Np.repeatEach nm np) (Np.arange 0 f1.length))).map (selfN xo nself))

theorem siblings_threeWay (hs : Shaped xo pop) (hnn : Nonneg d)
    (hgen : generate .threeWay pop xc nm np nself xo d = .ok (prog, d')) : SibF1OK3 pop xc nm np nself xo prog := by
  have hb := base_pt pop
  simp only [generate] at hgen
  split at hgen
  · simp at hgen
  · rename_i f1 d1 h1
    obtain ⟨t1, s1, n1⟩ := mateE_pt hs hs hb hb hnn h1
    have t1' := t1
    rw [pickP_base_col, pickP_base_col, Np.zipWith_repeatEach, zipWith_map_same] at t1'
    split at hgen
    · simp at hgen
    · rename_i h d2 h2
      obtain ⟨t2, s2, n2⟩ := mateE_pt hs s1 hb (base_pt f1) n1 h2
      obtain ⟨t3, _, _⟩ := selfLoop_pt nself s2 t2 n2 hgen
      refine ⟨f1, ?_, ?_⟩
      · refine t1'.mono (forall₂_predSub_repeat _ _ _ _ ?_)
        intro cr
        exact crossPred_mono (ppred_sub pop cr 1) (ppred_sub pop cr 2)
      · refine t3.mono ?_
        rw [List.forall₂_map_left_iff, List.forall₂_map_right_iff]
        unfold pickP
        rw [List.zipWith_map]
        refine (forall₂_predSub_zipWith _ (fun r s => crossPred xo (isInd pop r) (isInd f1 s))
          (fun r s => crossPred_mono (basePreds_getD pop r) (basePreds_getD f1 s)) _ _).imp ?_
        intro a b hab
        exact selfN_mono nself hab

/-- `FourWayCross`: two populations of F1s (`ab` = parents 2 x 3, `cd` = parents 0 x 1), one of each per mating, and
    progeny `k` is a progeny of `ab[sel[k]]` x `cd[sel[k]]` with the same `sel` on both sides -/
def SibF1OK4 (pop : Pop α) (xc : List (List Nat)) (nm np : List Nat) (nself : Nat) (xo : List ρ) (prog : Pop α) : Prop :=
  ∃ ab cd : Pop α,
    PT ab (Np.repeatEach nm (xc.map (fun cr => crossPred xo (isInd pop (cr.getD 2 0)) (isInd pop (cr.getD 3 0))))) ∧
    PT cd (Np.repeatEach nm (xc.map (fun cr => crossPred xo (isInd pop (cr.getD 0 0)) (isInd pop (cr.getD 1 0))))) ∧
    PT prog ((List.zipWith (fun r s => crossPred xo (isInd ab r) (isInd cd s))
      (Np.repeatEach (Np.repeatEach nm np) (Np.arange 0 ab.length))
      (Np.repeatEach (Np.repeatEach nm np) (Np.arange 0 cd.length))).map (selfN xo nself))

theorem siblings_fourWay (hs : Shaped xo pop) (hnn : Nonneg d)
    (hgen : generate .fourWay pop xc nm np nself xo d = .ok (prog, d')) : SibF1OK4 pop xc nm np nself xo prog := by
  have hb := base_pt pop
  simp only [generate] at hgen
  split at hgen
  · simp at hgen
  · rename_i ab d1 h1
    obtain ⟨t1, s1, n1⟩ := mateE_pt hs hs hb hb hnn h1
    have t1' := t1
    rw [pickP_base_col, pickP_base_col, Np.zipWith_repeatEach, zipWith_map_same] at t1'
    split at hgen
    · simp at hgen
    · rename_i cd d2 h2
      obtain ⟨t2, s2, n2⟩ := mateE_pt hs hs hb hb n1 h2
      have t2' := t2
      rw [pickP_base_col, pickP_base_col, Np.zipWith_repeatEach, zipWith_map_same] at t2'
      split at hgen
      · simp at hgen
      · rename_i h d3 h3
        obtain ⟨t3, s3, n3⟩ := mateE_pt s1 s2 (base_pt ab) (base_pt cd) n2 h3
        obtain ⟨t4, _, _⟩ := selfLoop_pt nself s3 t3 n3 hgen
        refine ⟨ab, cd, ?_, ?_, ?_⟩
        · refine t1'.mono (forall₂_predSub_repeat _ _ _ _ ?_)
          intro cr
          exact crossPred_mono (ppred_sub pop cr 2) (ppred_sub pop cr 3)
        · refine t2'.mono (forall₂_predSub_repeat _ _ _ _ ?_)
          intro cr
          exact crossPred_mono (ppred_sub pop cr 0) (ppred_sub pop cr 1)
        · refine t4.mono ?_
          rw [List.forall₂_map_left_iff, List.forall₂_map_right_iff]
          unfold pickP
          rw [List.zipWith_map]
          refine (forall₂_predSub_zipWith _ (fun r s => crossPred xo (isInd ab r) (isInd cd s))
            (fun r s => crossPred_mono (basePreds_getD ab r) (basePreds_getD cd s)) _ _).imp ?_
          intro a b hab
          exact selfN_mono nself hab

end

end Mating
