/-
Helper lemmas for C01: the segment-copy loop of `mat_meiosis` (`Meiosis.segLoop`) computes the
per-marker mosaic (`Meiosis.perMarker`); cell-wise description of a gamete through the running
parity `Meiosis.phaseAt`.
-/
import Mathlib.Tactic
import PybropsModel.Model.Meiosis
set_option autoImplicit false

namespace Meiosis
variable {α : Type}

theorem flatnonzeroFrom_ge (m : List Bool) : ∀ (k : Nat), ∀ i ∈ Np.flatnonzeroFrom k m, k ≤ i := by
  induction m with
  | nil => simp [Np.flatnonzeroFrom]
  | cons b bs ih =>
    intro k i hi
    simp only [Np.flatnonzeroFrom] at hi
    split at hi
    · rcases List.mem_cons.mp hi with h | h
      · omega
      · have := ih (k+1) i h; omega
    · have := ih (k+1) i hi; omega

/-- if every pending crossover index is > k, the loop at `stix = k` first emits marker k -/
theorem segLoop_emit (h0 h1 : List α) (k : Nat) (ph : Bool) (xs : List Nat)
    (hk0 : k < h0.length) (hk1 : k < h1.length) (hxs : ∀ i ∈ xs, k + 1 ≤ i) :
    segLoop h0 h1 k ph xs = (if ph then h1[k] else h0[k]) :: segLoop h0 h1 (k+1) ph xs := by
  cases xs with
  | nil =>
    simp only [segLoop]
    cases ph
    · simp only [Bool.false_eq_true, if_false]; rw [List.drop_eq_getElem_cons hk0]
    · simp only [if_true]; rw [List.drop_eq_getElem_cons hk1]
  | cons sp rest =>
    have hsp : k + 1 ≤ sp := hxs sp (by simp)
    simp only [segLoop]
    have e : sp - k = (sp - (k+1)) + 1 := by omega
    cases ph
    · simp only [Bool.false_eq_true, if_false]
      rw [List.drop_eq_getElem_cons hk0, e, List.take_succ_cons, List.cons_append]
    · simp only [if_true]
      rw [List.drop_eq_getElem_cons hk1, e, List.take_succ_cons, List.cons_append]

/-- a crossover exactly at `stix` copies an empty segment and flips the phase -/
theorem segLoop_flip (h0 h1 : List α) (k : Nat) (ph : Bool) (rest : List Nat) :
    segLoop h0 h1 k ph (k :: rest) = segLoop h0 h1 k (!ph) rest := by
  simp [segLoop]

/-- the segment-copy loop computes the per-marker mosaic -/
theorem segLoop_eq_perMarker (h0 h1 : List α) (m : List Bool) :
    ∀ (k : Nat) (ph : Bool), k + m.length = h0.length → k + m.length = h1.length →
      segLoop h0 h1 k ph (Np.flatnonzeroFrom k m) = perMarker m ph (h0.drop k) (h1.drop k) := by
  induction m with
  | nil =>
    intro k ph e0 e1
    simp only [List.length_nil, Nat.add_zero] at e0 e1
    have d0 : h0.drop k = [] := by rw [e0]; simp
    have d1 : h1.drop k = [] := by rw [e1]; simp
    cases ph <;> simp [Np.flatnonzeroFrom, segLoop, perMarker, d0, d1]
  | cons b bs ih =>
    intro k ph e0 e1
    simp only [List.length_cons] at e0 e1
    have hk0 : k < h0.length := by omega
    have hk1 : k < h1.length := by omega
    have hge : ∀ i ∈ Np.flatnonzeroFrom (k+1) bs, k + 1 ≤ i := flatnonzeroFrom_ge bs (k+1)
    rw [List.drop_eq_getElem_cons hk0, List.drop_eq_getElem_cons hk1]
    cases b with
    | true =>
      simp only [Np.flatnonzeroFrom, if_true, perMarker, Bool.xor_true]
      rw [segLoop_flip, segLoop_emit h0 h1 k (!ph) _ hk0 hk1 hge, ih (k+1) (!ph) (by omega) (by omega)]
    | false =>
      simp only [Np.flatnonzeroFrom, Bool.false_eq_true, if_false, perMarker, Bool.xor_false]
      rw [segLoop_emit h0 h1 k ph _ hk0 hk1 hge, ih (k+1) ph (by omega) (by omega)]

/-- one row of `mat_meiosis` = the closed form -/
theorem gameteLoop_eq_gamete (ind : Ind α) (mask : List Bool)
    (h0 : ind.1.length = mask.length) (h1 : ind.2.length = mask.length) :
    gameteLoop ind mask = gamete ind mask := by
  unfold gameteLoop gamete Np.flatnonzero
  have := segLoop_eq_perMarker ind.1 ind.2 mask 0 false (by omega) (by omega)
  simpa using this

theorem perMarker_length (m : List Bool) : ∀ (ph : Bool) (a b : List α),
    a.length = m.length → b.length = m.length → (perMarker m ph a b).length = m.length := by
  induction m with
  | nil => intro ph a b _ _; cases a <;> cases b <;> simp [perMarker]
  | cons x xs ih =>
    intro ph a b ha hb
    cases a with
    | nil => simp at ha
    | cons a0 r0 =>
      cases b with
      | nil => simp at hb
      | cons b0 r1 =>
        simp only [perMarker, List.length_cons]
        rw [ih _ r0 r1 (by simpa using ha) (by simpa using hb)]

theorem phaseAt_zero (b : Bool) (bs : List Bool) : phaseAt (b :: bs) 0 = b := by
  cases b <;> simp [phaseAt]

theorem phaseAt_succ (b : Bool) (bs : List Bool) (j : Nat) :
    phaseAt (b :: bs) (j + 1) = xor b (phaseAt bs j) := by
  unfold phaseAt
  simp only [List.take_succ_cons]
  cases b
  · simp
  · simp only [List.count_cons_self, Bool.true_xor]
    generalize (List.count true (List.take (j + 1) bs)) = c
    rcases Nat.mod_two_eq_zero_or_one c with h | h
    · have : (c + 1) % 2 = 1 := by omega
      simp [h, this]
    · have : (c + 1) % 2 = 0 := by omega
      simp [h, this]

/-- cell j of the per-marker form: copy chosen by the parity of the crossovers at markers 0..j -/
theorem perMarker_getElem? (m : List Bool) : ∀ (ph : Bool) (a b : List α) (j : Nat),
    a.length = m.length → b.length = m.length → j < m.length →
    (perMarker m ph a b)[j]? = if xor ph (phaseAt m j) then b[j]? else a[j]? := by
  induction m with
  | nil => intro ph a b j _ _ hj; simp at hj
  | cons x xs ih =>
    intro ph a b j ha hb hj
    cases a with
    | nil => simp at ha
    | cons a0 r0 =>
      cases b with
      | nil => simp at hb
      | cons b0 r1 =>
        cases j with
        | zero =>
          simp only [perMarker, phaseAt_zero, List.getElem?_cons_zero]
          split <;> rfl
        | succ j =>
          simp only [perMarker, phaseAt_succ, List.getElem?_cons_succ]
          rw [ih (xor ph x) r0 r1 j (by simpa using ha) (by simpa using hb) (by simpa using hj)]
          simp

theorem phaseAt_zero' (m : List Bool) (h : 0 < m.length) : phaseAt m 0 = m[0] := by
  cases m with
  | nil => simp at h
  | cons b bs => simp [phaseAt_zero]

/-- the copy in use changes between markers j and j+1 exactly when a crossover is drawn at j+1 -/
theorem phaseAt_step (m : List Bool) : ∀ (j : Nat) (h : j + 1 < m.length),
    phaseAt m (j + 1) = xor (phaseAt m j) m[j + 1] := by
  induction m with
  | nil => intro j h; simp at h
  | cons b bs ih =>
    intro j h
    cases j with
    | zero =>
      cases bs with
      | nil => simp at h
      | cons c cs => simp [phaseAt_succ, phaseAt_zero]
    | succ j =>
      have h' : j + 1 < bs.length := by simpa using h
      rw [phaseAt_succ, phaseAt_succ, ih j h']
      simp

theorem gamete_length (ind : Ind α) (mask : List Bool)
    (h0 : ind.1.length = mask.length) (h1 : ind.2.length = mask.length) :
    (gamete ind mask).length = mask.length := perMarker_length mask false ind.1 ind.2 h0 h1

section
variable {ρ : Type} [LT ρ] [DecidableLT ρ]

theorem xoMask_getElem (r xo : List ρ) (j : Nat) (h : j < (xoMask r xo).length) :
    (xoMask r xo)[j] = decide (r[j]'(by simp [xoMask] at h; omega) < xo[j]'(by simp [xoMask] at h; omega)) := by
  simp [xoMask]

end

end Meiosis
