/-
Concrete operators used by the non-vacuity examples of Props/C20.lean:
`demoOps` mutates the first container it is handed in place, allocates, and returns handed
containers (aliasing a fresh cell when there are too few) — and respects any set of start cells;
`rogueOps` additionally overwrites cell 0 whatever it is handed (it "kept a reference" to a start
container), which violates the frame condition.
-/
import PybropsModel.Lemmas.ProgramShape
set_option autoImplicit false

namespace Program
namespace Demo

/-- in-place mutation of the first handed container -/
def bump (h : Heap Nat) (as : List Ref) : Heap Nat :=
  match as with
  | a :: _ => h.set a (h.getD a 0 + 1)
  | [] => h

def pick (as : List Ref) (fresh : Ref) (off : Nat) : List Ref :=
  (List.range 5).map (fun i => as.getD (i + off) fresh)

def demoOps : Ops Unit Nat where
  op := fun k _ h as _ _ =>
    match k with
    | .pselect => ((), bump h as ++ [7], h.length :: pick as h.length 0)
    | .mate => ((), bump h as ++ [7], pick as h.length 1)
    | _ => ((), bump h as ++ [7], pick as h.length 0)
  log := fun _ _ h _ _ _ _ => ((), h)
  init := fun _ h => ((), h ++ [1, 2, 3, 4, 5], (List.range 5).map (· + h.length))

def rogueOps : Ops Unit Nat where
  op := fun k s h as t tm =>
    let r := demoOps.op k s h as t tm
    (r.1, r.2.1.set 0 99, r.2.2)
  log := demoOps.log
  init := demoOps.init

theorem bump_length (h : Heap Nat) (as : List Ref) : (bump h as).length = h.length := by
  unfold bump; split <;> simp

theorem bump_get (h : Heap Nat) (as : List Ref) (x : Ref) (hx : x ∉ as) : (bump h as)[x]? = h[x]? := by
  unfold bump
  split
  · rename_i a _
    have : a ≠ x := fun e => hx (by simp [e])
    simp [this]
  · rfl

theorem pick_mem (as : List Ref) (fresh : Ref) (off : Nat) : ∀ a ∈ pick as fresh off, a ∈ as ∨ a = fresh := by
  intro a ha
  obtain ⟨i, _, rfl⟩ := List.mem_map.mp ha
  by_cases h : i + off < as.length
  · left
    rw [List.getD_eq_getElem?_getD, List.getElem?_eq_getElem h]
    exact List.getElem_mem h
  · right
    rw [List.getD_eq_getElem?_getD, List.getElem?_eq_none (not_lt.mp h)]
    rfl

theorem pick_length (as : List Ref) (fresh : Ref) (off : Nat) : (pick as fresh off).length = 5 := by
  simp [pick]

theorem demo_respects (S : List Ref) : Respects S demoOps := by
  constructor
  · intro k s h as t tm hS has
    have hlen : (bump h as ++ [7]).length = h.length + 1 := by simp [bump_length]
    have hget : ∀ x ∈ S, (bump h as ++ [7])[x]? = h[x]? := by
      intro x hx
      rw [List.getElem?_append_left (by rw [bump_length]; exact hS x hx)]
      exact bump_get h as x (fun hin => (has x hin).2 hx)
    have hle : h.length ≤ (bump h as ++ [7]).length := by rw [hlen]; omega
    have hfresh : h.length < (bump h as ++ [7]).length ∧ h.length ∉ S :=
      ⟨by rw [hlen]; omega, fun hin => absurd (hS _ hin) (lt_irrefl _)⟩
    have hpick : ∀ off, ∀ a ∈ pick as h.length off, a < (bump h as ++ [7]).length ∧ a ∉ S := by
      intro off a ha
      rcases pick_mem as h.length off a ha with hin | rfl
      · exact ⟨lt_of_lt_of_le (has a hin).1 hle, (has a hin).2⟩
      · exact hfresh
    cases k
    · refine ⟨hle, hget, ?_, by simp [demoOps, arity, pick_length]⟩
      intro a ha
      rcases List.mem_cons.mp ha with rfl | ha
      · exact hfresh
      · exact hpick 0 a ha
    · exact ⟨hle, hget, hpick 1,
        by simp [demoOps, arity, pick_length]⟩
    · exact ⟨hle, hget, hpick 0,
        by simp [demoOps, arity, pick_length]⟩
    · exact ⟨hle, hget, hpick 0,
        by simp [demoOps, arity, pick_length]⟩
  · intro k s h as t tm rp _ _
    exact ⟨le_refl _, fun _ _ => rfl⟩

/-- a programme whose five start containers were given by the caller -/
def given : State Unit Nat :=
  { heap := [10, 20, 30, 40, 50], regs := fun _ => none, start := [some 0, some 1, some 2, some 3, some 4],
    t := 0, rep := 3, ost := (), trace := [], bad := false }

/-- a programme that still has to be initialised (one start container missing) -/
def partly : State Unit Nat :=
  { heap := [10, 20, 30, 40], regs := fun _ => none, start := [some 0, some 1, none, some 2, some 3],
    t := 0, rep := 0, ost := (), trace := [], bad := false }

theorem given_ready (ops : Ops Unit Nat) : Ready ops given := by
  refine ⟨rfl, rfl, ?_, ?_, ?_⟩
  · intro a ha
    simp only [given, List.mem_cons, Option.some.injEq, List.not_mem_nil, or_false] at ha
    rcases ha with h | h | h | h | h <;> (cases h; decide)
  · intro h; simp [given] at h
  · intro r a h; simp [given] at h

theorem partly_ready : Ready demoOps partly := by
  refine ⟨rfl, rfl, ?_, ?_, ?_⟩
  · intro a ha
    simp only [partly, List.mem_cons, Option.some.injEq, List.not_mem_nil, or_false] at ha
    rcases ha with h | h | h | h | h <;> (cases h; try decide)
  · intro _
    refine ⟨by simp [demoOps], by simp [demoOps, partly], ?_⟩
    intro a ha
    simp only [demoOps, partly, List.mem_map, List.mem_range] at ha
    obtain ⟨i, hi, rfl⟩ := ha
    exact Nat.add_lt_add_right hi 4
  · intro r a h; simp [partly] at h

theorem given_good : Good [0, 1, 2, 3, 4] [some 10, some 20, some 30, some 40, some 50] given := by
  refine ⟨rfl, rfl, ?_, rfl, ?_⟩
  · intro s hs
    simp only [List.mem_cons, List.not_mem_nil, or_false] at hs
    rcases hs with h | h | h | h | h <;> (cases h; decide)
  · intro r a h; simp [given] at h

end Demo
end Program
