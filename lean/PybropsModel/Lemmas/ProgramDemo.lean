/-
Concrete operators, states and schedules used by the non-vacuity examples of Props/C20.lean.
`demoOps` mutates in place the first object *below* the first container it is handed (or the
container itself), allocates, and returns handed containers (aliasing a fresh cell when there are too
few) — and respects any region; `rogueOps` additionally overwrites cell 0 whatever it is handed (it
"kept a reference" into a start container), which violates the frame condition.
-/
import PybropsModel.Lemmas.ProgramShape
set_option autoImplicit false
set_option linter.unusedVariables false

namespace Program
namespace Demo

/-- in-place mutation of the data of one cell (its references stay) -/
def mutAt (h : Heap (Cell Nat)) (m : Nat) : Heap (Cell Nat) :=
  match h[m]? with
  | some c => h.set m { c with data := c.data + 1 }
  | none => h

/-- the object the demo operators mutate: the first child of the first argument, else the argument -/
def target (h : Heap (Cell Nat)) (as : List Ref) : Option Nat :=
  match as with
  | a :: _ =>
    match h[a]? with
    | some c => some (c.refs.headD a)
    | none => none
  | [] => none

def bump (h : Heap (Cell Nat)) (as : List Ref) : Heap (Cell Nat) :=
  match target h as with
  | some m => mutAt h m
  | none => h

def pick (as : List Ref) (fresh : Ref) (off : Nat) : List Ref :=
  (List.range 5).map (fun i => as.getD (i + off) fresh)

def demoOps : Ops Unit Nat where
  op := fun k _ h as _ _ =>
    match k with
    | .pselect => ((), bump h as ++ [⟨7, []⟩], h.length :: pick as h.length 0)
    | .mate => ((), bump h as ++ [⟨7, []⟩], pick as h.length 1)
    | _ => ((), bump h as ++ [⟨7, []⟩], pick as h.length 0)
  log := fun _ _ h _ _ _ _ => ((), h)
  init := fun _ h => ((), h ++ [⟨1, []⟩, ⟨2, []⟩, ⟨3, []⟩, ⟨4, []⟩, ⟨5, []⟩], (List.range 5).map (· + h.length))

def rogueOps : Ops Unit Nat where
  op := fun k s h as t tm =>
    let r := demoOps.op k s h as t tm
    (r.1, r.2.1.set 0 ⟨99, (r.2.1.getD 0 ⟨0, []⟩).refs⟩, r.2.2)
  log := demoOps.log
  init := demoOps.init

/-! ### `mutAt` / `bump` keep the shape of the graph -/

theorem mutAt_length (h : Heap (Cell Nat)) (m : Nat) : (mutAt h m).length = h.length := by
  unfold mutAt; split <;> simp

theorem mutAt_ne (h : Heap (Cell Nat)) (m x : Nat) (hx : x ≠ m) : (mutAt h m)[x]? = h[x]? := by
  unfold mutAt
  split
  · simp [hx.symm]
  · rfl

theorem mutAt_refs (h : Heap (Cell Nat)) (m x : Nat) (c : Cell Nat) (hc : (mutAt h m)[x]? = some c) :
    ∃ c0, h[x]? = some c0 ∧ c0.refs = c.refs := by
  by_cases hx : x = m
  · subst hx
    unfold mutAt at hc
    split at hc
    · rename_i c0 h0
      have hlt : x < h.length := (List.getElem?_eq_some_iff.mp h0).1
      rw [List.getElem?_set_self hlt] at hc
      cases hc
      exact ⟨c0, h0, rfl⟩
    · exact ⟨c, hc, rfl⟩
  · rw [mutAt_ne h m x hx] at hc
    exact ⟨c, hc, rfl⟩

theorem bump_length (h : Heap (Cell Nat)) (as : List Ref) : (bump h as).length = h.length := by
  unfold bump; split
  · exact mutAt_length _ _
  · rfl

theorem bump_refs (h : Heap (Cell Nat)) (as : List Ref) (x : Nat) (c : Cell Nat) (hc : (bump h as)[x]? = some c) :
    ∃ c0, h[x]? = some c0 ∧ c0.refs = c.refs := by
  unfold bump at hc
  split at hc
  · exact mutAt_refs _ _ _ _ hc
  · exact ⟨c, hc, rfl⟩

/-- the mutated object is reachable from the first argument -/
theorem target_reach (h : Heap (Cell Nat)) (as : List Ref) (m : Nat) (ht : target h as = some m) :
    ∃ a ∈ as, Reach h a m := by
  unfold target at ht
  split at ht
  · rename_i a rest
    split at ht
    · rename_i c hc
      simp only [Option.some.injEq] at ht
      subst ht
      refine ⟨a, by simp, ?_⟩
      cases hr : c.refs with
      | nil => simp [List.headD]; exact .refl a
      | cons r rs =>
        simp only [List.headD_cons]
        exact .step hc (by rw [hr]; simp) (.refl r)
    · cases ht
  · cases ht

theorem bump_outside (h : Heap (Cell Nat)) (as : List Ref) (x : Nat) (hx : ∀ a ∈ as, ¬ Reach h a x) :
    (bump h as)[x]? = h[x]? := by
  unfold bump
  split
  · rename_i m hm
    obtain ⟨a, ha, hr⟩ := target_reach h as m hm
    exact mutAt_ne h m x (fun e => hx a ha (e ▸ hr))
  · rfl

theorem pick_mem (as : List Ref) (fresh : Ref) (off : Nat) : ∀ a ∈ pick as fresh off, a ∈ as ∨ a = fresh := by
  intro a ha
  obtain ⟨i, _, rfl⟩ := List.mem_map.mp ha
  by_cases h : i + off < as.length
  · left
    rw [List.getD_eq_getElem?_getD, List.getElem?_eq_getElem h]
    exact List.getElem_mem h
  · right
    rw [List.getD_eq_getElem?_getD, List.getElem?_eq_none (not_lt.mp h)]
    rfl

theorem pick_length (as : List Ref) (fresh : Ref) (off : Nat) : (pick as fresh off).length = 5 := by
  simp [pick]

/-- the demo operators satisfy the classical frame condition … -/
theorem demo_frame : Frame demoOps := by
  constructor
  · intro k s h as t tm wf has
    have hlen : (bump h as ++ [(⟨7, []⟩ : Cell Nat)]).length = h.length + 1 := by simp [bump_length]
    have hle : h.length ≤ (bump h as ++ [(⟨7, []⟩ : Cell Nat)]).length := by rw [hlen]; exact Nat.le_succ _
    have hwf : WFH (bump h as ++ [(⟨7, []⟩ : Cell Nat)]) := by
      have : WFH (bump h as) := by
        intro a c hc r hr
        obtain ⟨c0, h0, e⟩ := bump_refs h as a c hc
        rw [bump_length]
        exact wf a c0 h0 r (e ▸ hr)
      apply this.append
      intro c hc r hr
      simp only [List.mem_singleton] at hc
      subst hc
      simp at hr
    have hsame : ∀ x, x < h.length → (∀ a ∈ as, ¬ Reach h a x) →
        (bump h as ++ [(⟨7, []⟩ : Cell Nat)])[x]? = h[x]? := by
      intro x hx hnr
      rw [List.getElem?_append_left (by rw [bump_length]; exact hx)]
      exact bump_outside h as x hnr
    have hrefs : ∀ (x : Nat) (c : Cell Nat), (bump h as ++ [(⟨7, []⟩ : Cell Nat)])[x]? = some c →
        h[x]? = some c ∨ ∀ r ∈ c.refs, (∃ a ∈ as, Reach h a r) ∨ h.length ≤ r := by
      intro x c hc
      by_cases hx : x < h.length
      · rw [List.getElem?_append_left (by rw [bump_length]; exact hx)] at hc
        obtain ⟨c0, h0, e⟩ := bump_refs h as x c hc
        -- the cell is unchanged unless it is the target; in both cases its references are the old ones
        by_cases hreach : ∃ a ∈ as, Reach h a x
        · right
          intro r hr
          obtain ⟨a, ha, hax⟩ := hreach
          exact Or.inl ⟨a, ha, hax.snoc h0 (e ▸ hr)⟩
        · left
          rw [← bump_outside h as x (fun a ha hr => hreach ⟨a, ha, hr⟩)]
          exact hc
      · rw [List.getElem?_append_right (by rw [bump_length]; exact not_lt.mp hx)] at hc
        right
        intro r hr
        have : c = ⟨7, []⟩ := by
          have := List.mem_of_getElem? hc
          simpa using this
        subst this
        simp at hr
    have hfresh : h.length < (bump h as ++ [(⟨7, []⟩ : Cell Nat)]).length := by rw [hlen]; exact Nat.lt_succ_self _
    have hpick : ∀ off, ∀ r ∈ pick as h.length off, r < (bump h as ++ [(⟨7, []⟩ : Cell Nat)]).length ∧
        ((∃ a ∈ as, Reach h a r) ∨ h.length ≤ r) := by
      intro off r hr
      rcases pick_mem as h.length off r hr with hin | rfl
      · exact ⟨lt_of_lt_of_le (has r hin) hle, Or.inl ⟨r, hin, .refl r⟩⟩
      · exact ⟨hfresh, Or.inr (le_refl _)⟩
    cases k
    · refine ⟨hle, hwf, hsame, hrefs, ?_, by simp [demoOps, arity, pick_length]⟩
      intro r hr
      rcases List.mem_cons.mp hr with rfl | hr
      · exact ⟨hfresh, Or.inr (le_refl _)⟩
      · exact hpick 0 r hr
    · exact ⟨hle, hwf, hsame, hrefs, hpick 1, by simp [demoOps, arity, pick_length]⟩
    · exact ⟨hle, hwf, hsame, hrefs, hpick 0, by simp [demoOps, arity, pick_length]⟩
    · exact ⟨hle, hwf, hsame, hrefs, hpick 0, by simp [demoOps, arity, pick_length]⟩
  · intro k s h as t tm rp wf _
    exact ⟨le_refl _, wf, fun _ _ _ => rfl, fun x c hc => Or.inl hc⟩

/-- … hence respect any region -/
theorem demo_respects (S : List Ref) : Respects (NoKept S) S demoOps := demo_frame.respects S

/-! ### concrete states -/

/-- five start containers (cells 0–4), each with one object below it (cells 5–9); `s0` is the
    operators' internal state -/
def givenS {σ : Type} (s0 : σ) : State σ Nat :=
  { heap := [⟨10, [5]⟩, ⟨20, [6]⟩, ⟨30, [7]⟩, ⟨40, [8]⟩, ⟨50, [9]⟩, ⟨1, []⟩, ⟨2, []⟩, ⟨3, []⟩, ⟨4, []⟩, ⟨5, []⟩],
    n0 := 10, regs := fun _ => none, start := [some 0, some 1, some 2, some 3, some 4],
    t := 0, rep := 3, ngen := none, ost := s0, trace := [], bad := false }

def given : State Unit Nat := givenS ()

/-- a programme that still has to be initialised (one start container missing) -/
def partly : State Unit Nat :=
  { heap := [⟨10, []⟩, ⟨20, []⟩, ⟨30, []⟩, ⟨40, []⟩], n0 := 4, regs := fun _ => none,
    start := [some 0, some 1, none, some 2, some 3],
    t := 0, rep := 0, ngen := none, ost := (), trace := [], bad := false }

theorem wfh_of_all {V : Type} (h : Heap (Cell V)) (hall : h.all (fun c => c.refs.all (fun r => decide (r < h.length))) = true) :
    WFH h := by
  intro a c hc r hr
  simp only [List.all_eq_true, decide_eq_true_eq] at hall
  exact hall c (List.mem_of_getElem? hc) r hr

theorem region_lt_length {V : Type} {h : Heap (Cell V)} {S : List Ref} (wf : WFH h) (hS : ∀ s ∈ S, s < h.length) :
    ∀ x, InReg h S x → x < h.length := by
  rintro x ⟨s, hs, hr⟩
  exact hr.valid wf (hS s hs)

theorem iso_of_all_in {V : Type} {h : Heap (Cell V)} {S : List Ref} (hall : ∀ x, x < h.length → InReg h S x) : Iso h S := by
  intro x c hc hx
  exact absurd (hall x (List.getElem?_eq_some_iff.mp hc).1) hx

theorem iso_of_norefs {V : Type} {h : Heap (Cell V)} {S : List Ref} (hno : ∀ c ∈ h, c.refs = []) : Iso h S := by
  intro x c hc _ r hr
  rw [hno c (List.mem_of_getElem? hc)] at hr
  simp at hr

theorem given_wf : WFH given.heap := wfh_of_all _ (by decide)

theorem given_all_in : ∀ x, x < given.heap.length → InReg given.heap [0, 1, 2, 3, 4] x := by
  intro x hx
  have hx' : x < 10 := hx
  by_cases h5 : x < 5
  · exact InReg.of_mem (by interval_cases x <;> simp)
  · have h6 : 5 ≤ x := not_lt.mp h5
    refine ⟨x - 5, by interval_cases x <;> simp, ?_⟩
    interval_cases x
    · exact .step (c := ⟨10, [5]⟩) rfl (by simp) (.refl _)
    · exact .step (c := ⟨20, [6]⟩) rfl (by simp) (.refl _)
    · exact .step (c := ⟨30, [7]⟩) rfl (by simp) (.refl _)
    · exact .step (c := ⟨40, [8]⟩) rfl (by simp) (.refl _)
    · exact .step (c := ⟨50, [9]⟩) rfl (by simp) (.refl _)

theorem given_valid : ∀ s ∈ [0, 1, 2, 3, 4], s < given.heap.length := by
  intro s hs
  simp only [List.mem_cons, List.not_mem_nil, or_false] at hs
  rcases hs with h | h | h | h | h <;> (subst h; decide)

theorem givenS_refs {σ : Type} (ops : Ops σ Nat) (s0 : σ) : startRefs ops (givenS s0) = [0, 1, 2, 3, 4] := by
  simp [startRefs, givenS]

theorem given_refs (ops : Ops Unit Nat) : startRefs ops given = [0, 1, 2, 3, 4] := givenS_refs ops ()

theorem givenS_ready {σ : Type} (I : σ → Heap (Cell Nat) → Prop) (ops : Ops σ Nat) (s0 : σ)
    (hI : I s0 given.heap) : Ready I ops (givenS s0) := by
  have hH : startHeap ops (givenS s0) = given.heap := by simp [startHeap, givenS, given]
  have hN : startN0 ops (givenS s0) = 10 := by simp [startN0, givenS]
  have hO : startOst ops (givenS s0) = s0 := by simp [startOst, givenS]
  have hvalid : ∀ s ∈ [0, 1, 2, 3, 4], s < given.heap.length := by
    intro s hs
    simp only [List.mem_cons, List.not_mem_nil, or_false] at hs
    rcases hs with h | h | h | h | h <;> (subst h; decide)
  refine ⟨rfl, rfl, by rw [givenS_refs]; rfl, by rw [hH]; exact le_refl _, by rw [hH]; exact given_wf,
    by rw [hH, hN]; decide, ?_, ?_, ?_, by rw [hH, hO]; exact hI⟩
  · rw [hH, hN, givenS_refs]
    exact region_lt_length given_wf hvalid
  · rw [hH, givenS_refs]; exact iso_of_all_in given_all_in
  · intro r a h; simp [givenS] at h

theorem given_ready (ops : Ops Unit Nat) : Ready (NoKept [0, 1, 2, 3, 4]) ops given :=
  givenS_ready _ ops () (noKept _ _ _)

theorem givenS_good {σ : Type} (I : σ → Heap (Cell Nat) → Prop) (s0 : σ) (hI : I s0 given.heap) (d : Nat) :
    Good I d [0, 1, 2, 3, 4] (vals d given.heap [0, 1, 2, 3, 4]) (givenS s0) := by
  have hvalid : ∀ s ∈ [0, 1, 2, 3, 4], s < given.heap.length := by
    intro s hs
    simp only [List.mem_cons, List.not_mem_nil, or_false] at hs
    rcases hs with h | h | h | h | h <;> (subst h; decide)
  refine ⟨rfl, rfl, given_wf, by simp [givenS], region_lt_length given_wf hvalid, iso_of_all_in given_all_in, rfl, ?_, hI⟩
  intro r a h; simp [givenS] at h

theorem given_good (d : Nat) :
    Good (NoKept [0, 1, 2, 3, 4]) d [0, 1, 2, 3, 4] (vals d given.heap [0, 1, 2, 3, 4]) given :=
  givenS_good _ () (noKept _ _ _) d

theorem partly_ready : Ready (NoKept [4, 5, 6, 7, 8]) demoOps partly := by
  have hall : partly.start.all Option.isSome = false := by decide
  have hH : startHeap demoOps partly =
      partly.heap ++ [⟨1, []⟩, ⟨2, []⟩, ⟨3, []⟩, ⟨4, []⟩, ⟨5, []⟩] := by simp [startHeap, hall, demoOps]
  have hN : startN0 demoOps partly = 9 := by simp [startN0, demoOps, partly]
  have hR : startRefs demoOps partly = [4, 5, 6, 7, 8] := by simp [startRefs, demoOps, partly]; decide
  have hwf : WFH (partly.heap ++ [⟨1, []⟩, ⟨2, []⟩, ⟨3, []⟩, ⟨4, []⟩, ⟨5, []⟩]) := wfh_of_all _ (by decide)
  have hvalid : ∀ s ∈ [4, 5, 6, 7, 8], s < (partly.heap ++ [(⟨1, []⟩ : Cell Nat), ⟨2, []⟩, ⟨3, []⟩, ⟨4, []⟩, ⟨5, []⟩]).length := by
    intro s hs
    simp only [List.mem_cons, List.not_mem_nil, or_false] at hs
    rcases hs with h | h | h | h | h <;> (subst h; decide)
  refine ⟨rfl, rfl, by rw [hR]; rfl, by rw [hH]; simp, by rw [hH]; exact hwf, by rw [hH, hN]; decide, ?_, ?_, ?_,
    noKept _ _ _⟩
  · rw [hH, hN, hR]
    exact region_lt_length hwf hvalid
  · rw [hH, hR]
    apply iso_of_norefs
    intro c hc
    simp only [partly, List.cons_append, List.nil_append, List.mem_cons, List.not_mem_nil, or_false] at hc
    rcases hc with h | h | h | h | h | h | h | h | h <;> (subst h; rfl)
  · intro r a h; simp [partly] at h

/-! ### schedules -/

/-- the canonical skeleton with the documented `ngen is None` default in place (the proposed patch) -/
def patched : Schedule := { canonical with evolvePre := [.ngenDefault, .initIfNeeded] }

def kwA (m : Reg) : List (Kw × Reg) :=
  [(.misc, m), (.gmod, .gmod), (.genome, .genome), (.bval, .bval), (.geno, .geno), (.pheno, .pheno)]

/-- a differently written programme with the same dataflow: the deep copies in another order, the
    clock zeroed in `evolve` instead of `reset`, other local variable names, keyword arguments in
    another order, results first bound to locals and then moved, a redundant copy, extra no-ops -/
def rewritten : Schedule where
  evolvePre := [.skip, .initIfNeeded, .skip]
  evolveRep := [.callReset, .incRep, .setT0, .newDict (.loc 9), .skip,
                .call .evaluate (kwA (.loc 9)) [.loc 10, .loc 11, .loc 12, .loc 13, .loc 14],
                .move .gmod (.loc 14), .move .genome (.loc 10), .move .geno (.loc 11), .move .pheno (.loc 12),
                .move .bval (.loc 13),
                .log .initialize true (kwA (.loc 9)),
                .tick, .callAdvance, .skip]
  evolvePost := [.skip]
  reset := [.copyStart .gmod 4, .copyStart (.loc 20) 2, .copyStart .bval 3, .copyStart .genome 1,
            .copyStart .geno 1, .move .pheno (.loc 20), .copyStart .genome 0]
  advancePre := []
  advanceGen := [.newDict (.loc 3), .newDict (.loc 4), .newDict (.loc 5), .newDict (.loc 6),
                 .call .pselect (kwA (.loc 3)) (.loc 7 :: five),
                 .log .pselect false ((.mcfg, .loc 7) :: kwA (.loc 3)),
                 .move (.loc 8) (.loc 7),
                 .call .mate (kwA (.loc 4) ++ [(.mcfg, .loc 8)]) five,
                 .log .mate false (kwA (.loc 4) ++ [(.mcfg, .loc 7)]),
                 .call .evaluate (kwA (.loc 5)) five,
                 .log .evaluate false (kwA (.loc 5)),
                 .call .sselect (kwA (.loc 6)) five,
                 .log .sselect false (kwA (.loc 6)),
                 .skip, .tick]
  advancePost := [.skip]

/-- the canonical skeleton with a *shallow* copy of one start container (`dict(self.start_genome)`) -/
def shallow : Schedule :=
  { canonical with reset := [.shallowCopyStart .genome 0, .copyStart .geno 1, .copyStart .pheno 2,
                             .copyStart .bval 3, .copyStart .gmod 4, .setT0] }

end Demo
end Program
