/-
Spec ↔ model link for C04, allele functions: each of the twelve model outputs is the grid the Spec
oracle `GSpec.specAlleles` defines from the raw phased genotypes.
-/
import PybropsModel.Lemmas.SpecLinkValues
import PybropsModel.Lemmas.AllelesCell
set_option autoImplicit false
set_option linter.unusedSectionVars false
set_option linter.unusedSimpArgs false
set_option linter.unusedVariables false

namespace SpecLink
open Finset BigOperators GMod GSpec GSList GEnt GLin

theorem grid_congr {β : Type} (p t : ℕ) (f h : ℕ → ℕ → β) (hfh : ∀ j, j < p → ∀ k, k < t → f j k = h j k) :
    grid p t f = grid p t h := by
  unfold grid
  apply List.map_congr_left
  intro j hj
  apply List.map_congr_left
  intro k hk
  exact hfh j (List.mem_range.mp hj) k (List.mem_range.mp hk)

theorem mapM2_grid {β γ : Type} (f : β → γ) (p t : ℕ) (h : ℕ → ℕ → β) :
    mapM2 f (grid p t h) = grid p t (fun j k => f (h j k)) := by
  simp [mapM2, grid, List.map_map, Function.comp]

/-- the broadcast of a per-marker count against the effect matrix, as a grid -/
theorem cellMap_eq_grid {β : Type} (f : ℚ → Int → β) (ua : List (List ℚ)) (ac : List Int) (p t : ℕ)
    (hua : ua.length = p) (hrow : ∀ r ∈ ua, r.length = t) (hac : ac.length = p) :
    cellMap f ua ac = grid p t (fun j k => f (entry ua j k) (ac.getD j 0)) := by
  unfold cellMap grid
  apply List.ext_getElem (by simp [hua, hac])
  intro j h1 h2
  have hj : j < p := by simpa using h2
  have hju : j < ua.length := by omega
  have hja : j < ac.length := by omega
  simp only [List.getElem_zipWith, List.getElem_map, List.getElem_range]
  have hr : (ua[j]).length = t := hrow _ (List.getElem_mem hju)
  apply List.ext_getElem (by simp [hr])
  intro k hk1 hk2
  have hk : k < (ua[j]).length := by simpa using hk1
  simp only [List.getElem_map, List.getElem_range]
  congr 1
  · simp [entry, List.getD_eq_getElem?_getD, List.getElem?_eq_getElem hju, List.getElem?_eq_getElem hk]
  · simp [List.getD_eq_getElem?_getD, List.getElem?_eq_getElem hja]

theorem map_sum_eq_range (A : List (List Int)) (n : ℕ) (hn : A.length = n) (f : List Int → Int) :
    (A.map f).sum = ((List.range n).map (fun i => f (A.getD i []))).sum := by
  congr 1
  apply List.ext_getElem (by simp [hn])
  intro i h1 h2
  have hi : i < A.length := by simpa using h1
  simp [List.getD_eq_getElem?_getD, List.getElem?_eq_getElem hi]

/-- raw allele count of marker j: the model's `acount` is the Spec's sum over taxa -/
theorem acount_eq_rawDef {g : List (List (List Int))} {n p : ℕ} (h : PhasedOK g n p) (j : ℕ) (hj : j < p) :
    (acount p (phaseSum g)).getD j 0 = rawDef g j := by
  rw [Alleles.acount_entry p _ j hj]
  unfold rawDef
  rw [ntaxaOf_eq h, map_sum_eq_range _ n (phaseSum_shape h).1]
  congr 1
  apply List.map_congr_left
  intro i hi
  exact (dosageAt_eq h i j (List.mem_range.mp hi) hj).symm

theorem cntDef_fav {g : List (List (List Int))} {n p : ℕ} (h : PhasedOK g n p) (ua : List (List ℚ))
    (ploidy : ℕ) (j k : ℕ) (hj : j < p) :
    cntDef true ua ploidy g j k
      = faCell ((ploidy * n : ℕ) : Int) (entry ua j k) ((acount p (phaseSum g)).getD j 0) := by
  rw [Alleles.acount_entry p _ j hj]
  have hA := (phaseSum_shape h).1
  have := Alleles.sum_favDosage ploidy (entry ua j k) (phaseSum g) j
  rw [hA] at this
  rw [← this, map_sum_eq_range _ n hA]
  unfold cntDef
  rw [ntaxaOf_eq h]
  dsimp only
  congr 1
  apply List.map_congr_left
  intro i hi
  rw [dosageAt_eq h i j (List.mem_range.mp hi) hj]
  unfold favDosage
  by_cases h0 : entry ua j k = 0
  · simp [h0]
  · by_cases h1 : 0 < entry ua j k
    · simp [h0, h1]
    · simp [h0, h1]

theorem cntDef_del {g : List (List (List Int))} {n p : ℕ} (h : PhasedOK g n p) (ua : List (List ℚ))
    (ploidy : ℕ) (j k : ℕ) (hj : j < p) :
    cntDef false ua ploidy g j k
      = daCell ((ploidy * n : ℕ) : Int) (entry ua j k) ((acount p (phaseSum g)).getD j 0) := by
  rw [Alleles.acount_entry p _ j hj]
  have hA := (phaseSum_shape h).1
  have := Alleles.sum_delDosage ploidy (entry ua j k) (phaseSum g) j
  rw [hA] at this
  rw [← this, map_sum_eq_range _ n hA]
  unfold cntDef
  rw [ntaxaOf_eq h]
  dsimp only
  congr 1
  apply List.map_congr_left
  intro i hi
  rw [dosageAt_eq h i j (List.mem_range.mp hi) hj]
  unfold delDosage
  by_cases h0 : entry ua j k = 0
  · simp [h0]
  · by_cases h1 : entry ua j k < 0
    · simp [h0, h1]
    · simp [h0, h1]

/-- the twelve outputs of the model -/
def modelAlleles (ua : List (List ℚ)) (ploidy : ℕ) (A : List (List Int)) : AlleleObs where
  facount := facount ua ploidy A
  dacount := dacount ua ploidy A
  fafreq := someM (countFreq (facount ua ploidy A) ploidy A.length)
  dafreq := someM (countFreq (dacount ua ploidy A) ploidy A.length)
  faavail := faavail ua ploidy A
  daavail := daavail ua ploidy A
  fafixed := fafixed ua ploidy A
  dafixed := dafixed ua ploidy A
  fapoly := fapoly ua ploidy A
  dapoly := dapoly ua ploidy A
  nafixed := nafixed ua ploidy A
  napoly := napoly ua ploidy A

/-- shape hypotheses of an allele case -/
structure AlleleOK (ua : List (List ℚ)) (g : List (List (List Int))) (n p : ℕ) : Prop where
  geno : PhasedOK g n p
  ua_len : ua.length = p
  ua_rows : ∀ r ∈ ua, r.length = (ua.headD []).length

section grids
variable {ua : List (List ℚ)} {g : List (List (List Int))} {n p : ℕ} (h : AlleleOK ua g n p) (ploidy : ℕ)
include h

theorem facount_grid :
    facount ua ploidy (phaseSum g) = grid p (ua.headD []).length (cntDef true ua ploidy g) := by
  unfold facount
  rw [(phaseSum_shape h.geno).1, h.ua_len,
      cellMap_eq_grid _ ua _ p _ h.ua_len h.ua_rows (Alleles.acount_length p _)]
  exact grid_congr _ _ _ _ (fun j hj k _ => (cntDef_fav h.geno ua ploidy j k hj).symm)

theorem dacount_grid :
    dacount ua ploidy (phaseSum g) = grid p (ua.headD []).length (cntDef false ua ploidy g) := by
  unfold dacount
  rw [(phaseSum_shape h.geno).1, h.ua_len,
      cellMap_eq_grid _ ua _ p _ h.ua_len h.ua_rows (Alleles.acount_length p _)]
  exact grid_congr _ _ _ _ (fun j hj k _ => (cntDef_del h.geno ua ploidy j k hj).symm)

theorem nafixed_grid :
    nafixed ua ploidy (phaseSum g) = grid p (ua.headD []).length (fun j k =>
      (decide (rawDef g j = 0) || decide (rawDef g j = ((ploidy * ntaxaOf g : ℕ) : Int))) && decide (entry ua j k = 0)) := by
  unfold nafixed
  rw [(phaseSum_shape h.geno).1, h.ua_len, ntaxaOf_eq h.geno,
      cellMap_eq_grid _ ua _ p _ h.ua_len h.ua_rows (Alleles.acount_length p _)]
  exact grid_congr _ _ _ _ (fun j hj k _ => by rw [acount_eq_rawDef h.geno j hj])

theorem napoly_grid :
    napoly ua ploidy (phaseSum g) = grid p (ua.headD []).length (fun j k =>
      (decide (0 < rawDef g j) && decide (rawDef g j < ((ploidy * ntaxaOf g : ℕ) : Int))) && decide (entry ua j k = 0)) := by
  unfold napoly
  rw [(phaseSum_shape h.geno).1, h.ua_len, ntaxaOf_eq h.geno,
      cellMap_eq_grid _ ua _ p _ h.ua_len h.ua_rows (Alleles.acount_length p _)]
  exact grid_congr _ _ _ _ (fun j hj k _ => by rw [acount_eq_rawDef h.geno j hj])

end grids

/-- the Spec's reference answer, as an `AlleleObs` (what `specAlleles` compares with) -/
def refAlleles (ua : List (List ℚ)) (ploidy : ℕ) (g : List (List (List Int))) : AlleleObs :=
  let p := ua.length
  let t := (ua.headD []).length
  let total : Int := ((ploidy * ntaxaOf g : ℕ) : Int)
  let cf := cntDef true ua ploidy g
  let cd := cntDef false ua ploidy g
  { facount := grid p t cf
    dacount := grid p t cd
    fafreq := someM (grid p t (fun j k => (cf j k : ℚ) / (total : ℚ)))
    dafreq := someM (grid p t (fun j k => (cd j k : ℚ) / (total : ℚ)))
    faavail := grid p t (fun j k => decide (0 < cf j k))
    daavail := grid p t (fun j k => decide (0 < cd j k))
    fafixed := grid p t (fun j k => decide (cf j k = total))
    dafixed := grid p t (fun j k => decide (cd j k = total))
    fapoly := grid p t (fun j k => decide (0 < cf j k) && decide (cf j k < total))
    dapoly := grid p t (fun j k => decide (0 < cd j k) && decide (cd j k < total))
    nafixed := grid p t (fun j k =>
      (decide (rawDef g j = 0) || decide (rawDef g j = total)) && decide (entry ua j k = 0))
    napoly := grid p t (fun j k =>
      (decide (0 < rawDef g j) && decide (rawDef g j < total)) && decide (entry ua j k = 0)) }

/-- **the model's twelve outputs are the Spec's reference answer** -/
theorem modelAlleles_eq_ref {ua : List (List ℚ)} {g : List (List (List Int))} {n p : ℕ}
    (h : AlleleOK ua g n p) (ploidy : ℕ) :
    modelAlleles ua ploidy (phaseSum g) = refAlleles ua ploidy g := by
  have hA := (phaseSum_shape h.geno).1
  have hn := ntaxaOf_eq h.geno
  unfold modelAlleles refAlleles
  simp only [h.ua_len]
  have e1 := facount_grid h ploidy
  have e2 := dacount_grid h ploidy
  congr 1
  · unfold countFreq; rw [e1, mapM2_grid, hA, hn]
    congr 2
  · unfold countFreq; rw [e2, mapM2_grid, hA, hn]
    congr 2
  · unfold faavail; rw [e1, mapM2_grid]
  · unfold daavail; rw [e2, mapM2_grid]
  · unfold fafixed; rw [e1, mapM2_grid, hA, hn]
  · unfold dafixed; rw [e2, mapM2_grid, hA, hn]
  · unfold fapoly; rw [e1, mapM2_grid, hA, hn]
  · unfold dapoly; rw [e2, mapM2_grid, hA, hn]
  · exact nafixed_grid h ploidy
  · exact napoly_grid h ploidy

/-- the oracle accepts its own reference answer -/
theorem specAlleles_ref (rel abs_ : ℚ) (ha : 0 ≤ abs_) (ua : List (List ℚ)) (ploidy : ℕ) (g : List (List (List Int))) :
    ∀ c ∈ specAlleles rel abs_ ua ploidy g (refAlleles ua ploidy g), c.2 = true := by
  intro c hc
  unfold specAlleles refAlleles at hc
  simp only [List.mem_cons, List.not_mem_nil, or_false] at hc
  rcases hc with rfl | rfl | rfl | rfl | rfl | rfl | rfl | rfl | rfl | rfl | rfl | rfl <;>
    first
      | exact beq_self_eq_true _
      | exact closeMat_self rel abs_ ha _

/-- at zero tolerance the oracle accepts nothing but its reference answer -/
theorem specAlleles_zero (ua : List (List ℚ)) (ploidy : ℕ) (g : List (List (List Int))) (o : AlleleObs)
    (hall : ∀ c ∈ specAlleles 0 0 ua ploidy g o, c.2 = true) : o = refAlleles ua ploidy g := by
  unfold specAlleles at hall
  simp only [List.mem_cons, List.not_mem_nil, or_false, forall_eq_or_imp, forall_eq] at hall
  obtain ⟨h1, h2, h3, h4, h5, h6, h7, h8, h9, h10, h11, h12⟩ := hall
  cases o
  unfold refAlleles
  simp only [AlleleObs.mk.injEq]
  simp only [beq_iff_eq] at h1 h2 h5 h6 h7 h8 h9 h10 h11 h12
  exact ⟨h1, h2, closeMat_zero _ _ h3, closeMat_zero _ _ h4, h5, h6, h7, h8, h9, h10, h11, h12⟩

end SpecLink
