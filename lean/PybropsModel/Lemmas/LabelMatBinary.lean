/-
Lemmas/LabelMatBinary.lean — edits that bring in an operand (adjoin / append / insert / incorp /
concat): every labelled cell of the result is a labelled cell of the receiver or of the operand block
(labelled by its own labels on the edited axis and by the receiver's labels on the other axes).
-/
import PybropsModel.Lemmas.LabelMatOps

set_option autoImplicit false
set_option linter.unusedVariables false

namespace LabelMat

variable {α lab : Type}

/-- labels of position `y` in a list of columns -/
def colsAt (cs : List (Option (List lab))) (y : Nat) : List (Option lab) :=
  cs.map (fun c => match c with | none => none | some l => l[y]?)

theorem labelsAt_eq_colsAt (b : Bundle lab) (y : Nat) : labelsAt b y = colsAt b.cols y := rfl

/-- the labels at position `y` of the combined columns are the receiver's labels at `x` (`x < n`) or
    the operand's labels at `x - n`, where `x = prov2[y]` -/
theorem zipCols_labels {g : ListOp2} (hg : Natural2 g) (n q : Nat)
    (cs ds rs : List (Option (List lab))) (h : zipCols (g lab) cs ds = .ok rs)
    (hlen : cs.length = ds.length)
    (hc : ∀ l, some l ∈ cs → l.length = n) (hd : ∀ l, some l ∈ ds → l.length = q)
    (y x : Nat) (hx : (prov2 g n q)[y]? = some x) :
    colsAt rs y = if x < n then colsAt cs x else colsAt ds (x - n) := by
  induction cs generalizing ds rs with
  | nil =>
    cases ds with
    | nil =>
      simp only [zipCols, pure, Except.pure] at h
      cases h
      simp [colsAt]
    | cons d ds => simp at hlen
  | cons c cs ih =>
    cases ds with
    | nil => simp at hlen
    | cons d ds =>
      simp only [List.length_cons, Nat.add_right_cancel_iff] at hlen
      simp only [zipCols, bind, Except.bind] at h
      split at h
      · cases h
      · rename_i rest hrest
        have ihr := ih ds rest hrest hlen (fun l hl => hc l (by simp [hl])) (fun l hl => hd l (by simp [hl]))
        cases c with
        | none =>
          cases d with
          | none =>
            simp only [pure, Except.pure] at h
            cases h
            simp only [colsAt, List.map_cons] at ihr ⊢
            rw [ihr]
            split <;> rfl
          | some lv => simp only [throw, throwThe, MonadExceptOf.throw] at h; cases h
        | some l =>
          cases d with
          | none => simp only [throw, throwThe, MonadExceptOf.throw] at h; cases h
          | some lv =>
            simp only [pure, Except.pure] at h
            cases h
            have hl := hc l (by simp)
            have hlv := hd lv (by simp)
            simp only [colsAt, List.map_cons] at ihr ⊢
            rw [ihr, hg.getElem?, hl, hlv, hx]
            simp only [Option.bind_some, List.getElem?_append, hl]
            split <;> rfl

theorem zipCols_length {g : List lab → List lab → List lab}
    (cs ds rs : List (Option (List lab))) (h : zipCols g cs ds = .ok rs) : rs.length = cs.length := by
  induction cs generalizing ds rs with
  | nil => simp only [zipCols, pure, Except.pure] at h; cases h; rfl
  | cons c cs ih =>
    cases ds with
    | nil =>
      simp only [zipCols, bind, Except.bind] at h
      split at h
      · cases h
      · rename_i rest hrest
        cases c with
        | none => simp only [pure, Except.pure] at h; cases h; simp [ih [] rest hrest]
        | some l => simp only [throw, throwThe, MonadExceptOf.throw] at h; cases h
    | cons d ds =>
      simp only [zipCols, bind, Except.bind] at h
      split at h
      · cases h
      · rename_i rest hrest
        have := ih ds rest hrest
        cases c <;> cases d <;>
          first
          | (simp only [pure, Except.pure] at h; cases h; simp [this])
          | (simp only [throw, throwThe, MonadExceptOf.throw] at h; cases h)

/-! ### the general statement -/

/-- `s'` = receiver `s` combined with operand `v` along axis `a` of bundle `k` by a natural binary
    operation (data and every label column), all other bundles' columns untouched -/
def BinaryForm (sch : Schema) (k : Kind) (a : Nat) (s : St α lab) (v : Operand α lab) (s' : St α lab) : Prop :=
  ∃ g : ListOp2, Natural2 g ∧ s'.mat = axZip a g s.mat v.mat ∧
    zipCols (g lab) (s.bundle k).cols v.cols = .ok (s'.bundle k).cols ∧
    ∀ kk, kk ≠ k → (s'.bundle kk).cols = (s.bundle kk).cols

/-- shape agreement of receiver and operand off the edited axis gives `SameOuter` -/
theorem sameOuter_of_compat (a : Nat) (m v : Mat3 α) (hm : rect m = true) (hv : rect v = true)
    (h0 : a ≠ 0 → axLen 0 v = axLen 0 m) (h1 : a ≠ 1 → axLen 1 v = axLen 1 m) : SameOuter a m v := by
  match a with
  | 0 => trivial
  | 1 =>
    have := h0 (by decide)
    simpa [axLen, SameOuter] using this.symm
  | a + 2 =>
    have e0 := h0 (by omega)
    have e1 := h1 (by omega)
    refine ⟨by simpa [axLen] using e0.symm, ?_⟩
    intro i pl pv hpl hpv
    have a1 := axisLen_of_rect 1 m hm pl (List.mem_of_getElem? hpl)
    have a2 := axisLen_of_rect 1 v hv pv (List.mem_of_getElem? hpv)
    rw [a1, a2, e1]

theorem operandState_mat (s : St α lab) (k : Kind) (v : Operand α lab) : (operandState s k v).mat = v.mat := rfl

theorem operandState_bundle_same (s : St α lab) (k : Kind) (v : Operand α lab) :
    (operandState s k v).bundle k = { cols := v.cols, grp := none } := by
  simp [operandState]

theorem operandState_bundle_ne (s : St α lab) (k kk : Kind) (v : Operand α lab) (h : kk ≠ k) :
    (operandState s k v).bundle kk = s.bundle kk := by
  simp [operandState, bundle_setBundle_ne _ _ _ _ h]

/-- **Edits with an operand keep labels attached.** -/
theorem binaryForm_attached (sch : Schema) (hwf : sch.WF) (k : Kind) (a : Nat) (hax : sch.axes k = [a])
    (ha : a < 3) (s : St α lab) (v : Operand α lab) (s' : St α lab)
    (hcs : consistentOK sch s = true) (hcv : consistentOK sch (operandState s k v) = true)
    (hcompat : compatShape sch k s.mat v.mat = true)
    (hlen : (s.bundle k).cols.length = v.cols.length)
    (hb : BinaryForm sch k a s v s') (c : LCell α lab) (h : IsLCell sch s' c) :
    IsLCell sch s c ∨ IsLCell sch (operandState s k v) c := by
  obtain ⟨g, hg, hmat, hcols, hoth⟩ := hb
  obtain ⟨i, j, l, h⟩ := h
  rw [lcellAt_eq_some] at h
  obtain ⟨val, hv, rfl⟩ := h
  set n := axLen a s.mat with hn
  set q := axLen a v.mat with hq
  have hrs := consistent_rect hcs
  have hrv : rect v.mat = true := consistent_rect hcv
  have hcomp : ∀ b, b ≠ a → b < 3 → axLen b v.mat = axLen b s.mat := by
    intro b hb hb3
    unfold compatShape at hcompat
    simp only [List.all_eq_true, Bool.or_eq_true, beq_iff_eq] at hcompat
    have hb' : b ∈ [0, 1, 2] := by
      have : b = 0 ∨ b = 1 ∨ b = 2 := by omega
      rcases this with rfl | rfl | rfl <;> simp
    rcases hcompat b hb' with h1 | h1
    · rw [hax] at h1; simp at h1; exact absurd h1 hb
    · exact h1
  have hso : SameOuter a s.mat v.mat :=
    sameOuter_of_compat a s.mat v.mat hrs hrv (fun h0 => hcomp 0 (Ne.symm h0) (by omega))
      (fun h1 => hcomp 1 (Ne.symm h1) (by omega))
  rw [hmat, cell_axZip hg a s.mat v.mat n q (axisLen_of_rect a _ hrs) (axisLen_of_rect a _ hrv) hso] at hv
  cases hx : (prov2 g n q)[getCoord a i j l]? with
  | none => rw [hx] at hv; cases hv
  | some x =>
    rw [hx] at hv
    simp only [Option.bind_some] at hv
    have hka : sch.kindOf a = some k := kindOf_of_mem hwf (by rw [hax]; simp)
    have hkne : ∀ b kk, b ≠ a → sch.kindOf b = some kk → kk ≠ k := by
      intro b kk hb hkk e
      subst e
      have := kindOf_mem hkk
      rw [hax] at this
      simp at this
      exact hb this
    have hcolS : ColsLen (s.bundle k) n := colsLen_of_consistent hcs k a (by rw [hax]; simp)
    have hcolV : ColsLen (⟨v.cols, none⟩ : Bundle lab) q := by
      have := colsLen_of_consistent hcv k a (by rw [hax]; simp)
      rw [operandState_bundle_same, operandState_mat] at this
      exact this
    -- labels of bundle k at a position y with prov2[y] = x
    have hlab : ∀ y, (prov2 g n q)[y]? = some x →
        labelsAt (s'.bundle k) y = if x < n then labelsAt (s.bundle k) x
          else labelsAt ((operandState s k v).bundle k) (x - n) := by
      intro y hy
      rw [operandState_bundle_same]
      simp only [labelsAt_eq_colsAt]
      exact zipCols_labels hg n q _ _ _ hcols hlen hcolS hcolV y x hy
    -- other axes
    have hotherS : ∀ b, b ≠ a → ∀ y, axInfo sch s' b y = axInfo sch s b y := by
      intro b hb y
      apply axInfo_congr
      · intro kk hkk
        unfold labelsAt
        rw [hoth kk (hkne b kk hb hkk)]
      · intro _; rfl
    have hotherV : ∀ b, b ≠ a → ∀ y, axInfo sch s' b y = axInfo sch (operandState s k v) b y := by
      intro b hb y
      rw [hotherS b hb y]
      apply axInfo_congr
      · intro kk hkk
        rw [operandState_bundle_ne _ _ _ _ (hkne b kk hb hkk)]
      · intro _; rfl
    have hselfS : ∀ y, (prov2 g n q)[y]? = some x → x < n → axInfo sch s' a y = axInfo sch s a x := by
      intro y hy hlt
      apply axInfo_congr
      · intro kk hkk
        rw [hka] at hkk; cases hkk
        rw [hlab y hy, if_pos hlt]
      · intro hnone; rw [hka] at hnone; cases hnone
    have hselfV : ∀ y, (prov2 g n q)[y]? = some x → ¬ x < n →
        axInfo sch s' a y = axInfo sch (operandState s k v) a (x - n) := by
      intro y hy hge
      apply axInfo_congr
      · intro kk hkk
        rw [hka] at hkk; cases hkk
        rw [hlab y hy, if_neg hge]
      · intro hnone; rw [hka] at hnone; cases hnone
    have h3 : a = 0 ∨ a = 1 ∨ a = 2 := by omega
    by_cases hlt : x < n
    · left
      rw [if_pos hlt] at hv
      rcases h3 with rfl | rfl | rfl
      · refine ⟨x, j, l, ?_⟩
        rw [lcellAt_eq_some]
        refine ⟨val, hv, ?_⟩
        simp only [getCoord] at hx
        rw [hselfS i hx hlt, hotherS 1 (by decide), hotherS 2 (by decide)]
      · refine ⟨i, x, l, ?_⟩
        rw [lcellAt_eq_some]
        refine ⟨val, hv, ?_⟩
        simp only [getCoord] at hx
        rw [hselfS j hx hlt, hotherS 0 (by decide), hotherS 2 (by decide)]
      · refine ⟨i, j, x, ?_⟩
        rw [lcellAt_eq_some]
        refine ⟨val, hv, ?_⟩
        simp only [getCoord] at hx
        rw [hselfS l hx hlt, hotherS 0 (by decide), hotherS 1 (by decide)]
    · right
      rw [if_neg hlt] at hv
      rcases h3 with rfl | rfl | rfl
      · refine ⟨x - n, j, l, ?_⟩
        rw [lcellAt_eq_some]
        refine ⟨val, hv, ?_⟩
        simp only [getCoord] at hx
        rw [hselfV i hx hlt, hotherV 1 (by decide), hotherV 2 (by decide)]
      · refine ⟨i, x - n, l, ?_⟩
        rw [lcellAt_eq_some]
        refine ⟨val, hv, ?_⟩
        simp only [getCoord] at hx
        rw [hselfV j hx hlt, hotherV 0 (by decide), hotherV 2 (by decide)]
      · refine ⟨i, j, x - n, ?_⟩
        rw [lcellAt_eq_some]
        refine ⟨val, hv, ?_⟩
        simp only [getCoord] at hx
        rw [hselfV l hx hlt, hotherV 0 (by decide), hotherV 1 (by decide)]

end LabelMat

namespace LabelMat

variable {α lab : Type}

/-! ### inversion of the modelled operations -/

theorem adjoinMat_single (sch : Schema) (k : Kind) (a : Nat) (hax : sch.axes k = [a]) (fill : α) (m v : Mat3 α) :
    adjoinMat sch k fill m v = axZip a (fun _ l lv => l ++ lv) m v := by
  simp [adjoinMat, hax]

theorem adjoinCore_form {sch : Schema} {k : Kind} {a : Nat} (hax : sch.axes k = [a]) {fill : α}
    {v : Operand α lab} {s s' : St α lab} (h : adjoinCore sch k fill v s = .ok s') :
    compatShape sch k s.mat v.mat = true ∧ BinaryForm sch k a s v s' ∧ (s'.bundle k).grp = none ∧
      ∀ kk, kk ≠ k → s'.bundle kk = s.bundle kk := by
  unfold adjoinCore at h
  simp only [bind, Except.bind, pure, Except.pure] at h
  split at h
  · cases h
  · split at h
    · cases h
    · rename_i hcompat
      split at h
      · cases h
      · rename_i cols hcols
        cases h
        refine ⟨by simpa using hcompat, ⟨_, natural2_append, ?_, ?_, ?_⟩, ?_, ?_⟩
        · simp [adjoinMat_single sch k a hax]
        · simpa using hcols
        · intro kk hkk
          simp [bundle_setBundle_ne _ _ _ _ hkk]
        · simp
        · intro kk hkk
          simp [bundle_setBundle_ne _ _ _ _ hkk]

theorem natural2_planOp (plan : InsPlan) : Natural2 plan.op := by
  cases plan with
  | scalar p => exact natural2_insert p
  | block p => exact natural2_insert p
  | many ps => exact natural2_insertMany ps
  | manyRep ps => exact natural2_insertManyRep ps

theorem bcast_self {β : Type} (l : List β) : bcast l.length l = some l := by
  simp [bcast]

theorem mapM_option_id {β : Type} (f : β → Option β) (l : List β) (h : ∀ x ∈ l, f x = some x) :
    l.mapM f = some l := by
  induction l with
  | nil => rfl
  | cons x xs ih =>
    rw [List.mapM_cons, h x (by simp), ih (fun y hy => h y (by simp [hy]))]
    rfl

theorem broadcast3_self (v : Mat3 α) (d1 d2 : Nat) (hv : rect v = true) (h1 : v ≠ [] → axLen 1 v = d1)
    (h2 : axLen 2 v = d2 ∨ ∀ pl ∈ v, pl = []) : broadcast3 v.length d1 d2 v = some v := by
  unfold broadcast3
  have hplanes : v.mapM (fun pl => do
      let pl1 ← pl.mapM (bcast d2)
      bcast d1 pl1) = some v := by
    apply mapM_option_id
    intro pl hpl
    have hne : v ≠ [] := by intro e; rw [e] at hpl; cases hpl
    have hl1 := axisLen_of_rect 1 v hv pl hpl
    have hrows : pl.mapM (bcast d2) = some pl := by
      apply mapM_option_id
      intro r hr
      have hl2 := axisLen_of_rect 2 v hv pl hpl r hr
      rcases h2 with h2 | h2
      · rw [← h2, ← hl2]; exact bcast_self r
      · rw [h2 pl hpl] at hr; cases hr
    rw [hrows]
    simp only [Option.bind_eq_bind, Option.bind_some]
    rw [← h1 hne, ← hl1]
    exact bcast_self pl
  rw [hplanes]
  simp only [Option.bind_eq_bind, Option.bind_some]
  exact bcast_self v

end LabelMat

namespace LabelMat

variable {α lab : Type}

theorem zipColsM_insertCol (obj : InsIdx) (n q : Nat) (plan : InsPlan) (hplan : insPlan n q obj = .ok plan)
    (cs ds rs : List (Option (List lab))) (h : zipColsM (insertCol obj) cs ds = .ok rs)
    (hc : ∀ l, some l ∈ cs → l.length = n) (hd : ∀ l, some l ∈ ds → l.length = q) :
    zipCols (plan.op lab) cs ds = .ok rs := by
  induction cs generalizing ds rs with
  | nil => simp only [zipColsM, pure, Except.pure] at h; cases h; rfl
  | cons c cs ih =>
    cases ds with
    | nil =>
      simp only [zipColsM, bind, Except.bind] at h
      split at h
      · cases h
      · rename_i rest hrest
        have := ih [] rest hrest (fun l hl => hc l (by simp [hl])) (fun l hl => by cases hl)
        simp only [zipCols, bind, Except.bind, this]
        exact h
    | cons d ds =>
      simp only [zipColsM, bind, Except.bind] at h
      split at h
      · cases h
      · rename_i rest hrest
        have := ih ds rest hrest (fun l hl => hc l (by simp [hl])) (fun l hl => hd l (by simp [hl]))
        simp only [zipCols, bind, Except.bind, this]
        cases c with
        | none => cases d <;> exact h
        | some l =>
          cases d with
          | none => exact h
          | some lv =>
            simp only [] at h ⊢
            have hl := hc l (by simp)
            have hlv := hd lv (by simp)
            simp only [insertCol, bind, Except.bind, hl, hlv, hplan, pure, Except.pure] at h
            exact h

/-- an integer position is only harmless on the leading axis -/
def InsOK (a : Nat) : InsIdx → Prop
  | .int _ => a = 0
  | _ => True

theorem insOfPositions_ne_scalar {q : Nat} {ps : List Nat} {p : Nat} :
    insOfPositions q ps ≠ .ok (.scalar p) := by
  intro h
  unfold insOfPositions at h
  split at h
  · cases h
  · unfold insSeveral at h
    split_ifs at h <;> cases h

theorem insPlan_scalar {n q : Nat} {obj : InsIdx} {p : Nat} (h : insPlan n q obj = .ok (.scalar p)) :
    ∃ i, obj = .int i := by
  cases obj with
  | int i => exact ⟨i, rfl⟩
  | list is =>
    exfalso
    simp only [insPlan, bind, Except.bind] at h
    split at h
    · cases h
    · exact insOfPositions_ne_scalar h
  | slice a b c =>
    exfalso
    simp only [insPlan, bind, Except.bind] at h
    split at h
    · cases h
    · exact insOfPositions_ne_scalar h

theorem insertMat_form {a : Nat} {obj : InsIdx} {m v m' : Mat3 α} (h : insertMat a obj m v = .ok m')
    (hok : InsOK a obj) (hv : rect v = true) (h1 : v ≠ [] → axLen 1 v = axLen 1 m)
    (h2 : axLen 2 v = axLen 2 m) :
    ∃ plan, insPlan (axLen a m) (axLen a v) obj = .ok plan ∧ m' = axZip a plan.op m v := by
  unfold insertMat at h
  simp only [bind, Except.bind] at h
  split at h
  · cases h
  · rename_i plan hplan
    refine ⟨plan, hplan, ?_⟩
    cases plan with
    | scalar p =>
      obtain ⟨i, rfl⟩ := insPlan_scalar hplan
      have ha : a = 0 := hok
      subst ha
      have hb : broadcast3 (axLen 0 v) (axLen 1 m) (axLen 2 m) v = some v :=
        broadcast3_self v _ _ hv h1 (Or.inl h2)
      simp only [moveaxis0, beq_self_eq_true, if_true, show ((1 : Nat) == 0) = false from rfl,
        show ((2 : Nat) == 0) = false from rfl, Bool.false_eq_true, if_false] at h
      rw [hb] at h
      simp only [pure, Except.pure] at h
      cases h
      rfl
    | block p => simp only [pure, Except.pure] at h; cases h; rfl
    | many ps => simp only [pure, Except.pure] at h; cases h; rfl
    | manyRep ps => simp only [pure, Except.pure] at h; cases h; rfl

theorem compat_axLen {sch : Schema} {k : Kind} {a : Nat} (hax : sch.axes k = [a]) {m v : Mat3 α}
    (hcompat : compatShape sch k m v = true) (b : Nat) (hb : b ≠ a) (hb3 : b < 3) : axLen b v = axLen b m := by
  unfold compatShape at hcompat
  simp only [List.all_eq_true, Bool.or_eq_true, beq_iff_eq] at hcompat
  have hb' : b ∈ [0, 1, 2] := by
    have : b = 0 ∨ b = 1 ∨ b = 2 := by omega
    rcases this with rfl | rfl | rfl <;> simp
  rcases hcompat b hb' with h1 | h1
  · rw [hax] at h1; simp at h1; exact absurd h1 hb
  · exact h1

theorem insertCoreRaw_form {sch : Schema} {k : Kind} {a : Nat} (hax : sch.axes k = [a]) (ha : a < 3)
    {obj : InsIdx} {v : Operand α lab} {s s' : St α lab} (h : insertCoreRaw sch k obj v s = .ok s')
    (hok : InsOK a obj) (hcs : consistentOK sch s = true)
    (hcv : consistentOK sch (operandState s k v) = true) :
    compatShape sch k s.mat v.mat = true ∧ BinaryForm sch k a s v s' ∧ (s'.bundle k).grp = none ∧
      ∀ kk, kk ≠ k → s'.bundle kk = s.bundle kk := by
  unfold insertCoreRaw at h
  rw [hax] at h
  simp only [bind, Except.bind, pure, Except.pure] at h
  split at h
  · cases h
  · rename_i hcompat
    have hcompat' : compatShape sch k s.mat v.mat = true := by simpa using hcompat
    split at h
    · cases h
    · rename_i m' hm'
      split at h
      · cases h
      · rename_i cols hcols
        cases h
        have hrv : rect v.mat = true := consistent_rect hcv
        -- shapes off the edited axis agree; when a ≥ 1 the operand's leading axes are the receiver's
        have h2 : a = 2 ∨ axLen 2 v.mat = axLen 2 s.mat := by
          by_cases e : a = 2
          · exact Or.inl e
          · exact Or.inr (compat_axLen hax hcompat' 2 (fun h => e h.symm) (by omega))
        have h1 : a = 1 ∨ axLen 1 v.mat = axLen 1 s.mat := by
          by_cases e : a = 1
          · exact Or.inl e
          · exact Or.inr (compat_axLen hax hcompat' 1 (fun h => e h.symm) (by omega))
        obtain ⟨plan, hplan, rfl⟩ : ∃ plan, insPlan (axLen a s.mat) (axLen a v.mat) obj = .ok plan ∧
            m' = axZip a plan.op s.mat v.mat := by
          cases obj with
          | int i =>
            have ha0 : a = 0 := hok
            subst ha0
            exact insertMat_form hm' hok hrv (fun _ => by rcases h1 with e | e; cases e; exact e)
              (by rcases h2 with e | e; cases e; exact e)
          | list is =>
            -- non-scalar plans do not use the shape hypotheses
            unfold insertMat at hm'
            simp only [bind, Except.bind] at hm'
            split at hm'
            · cases hm'
            · rename_i plan hplan
              refine ⟨plan, hplan, ?_⟩
              cases plan with
              | scalar p => obtain ⟨i, hi⟩ := insPlan_scalar hplan; cases hi
              | block p => simp only [pure, Except.pure] at hm'; cases hm'; rfl
              | many ps => simp only [pure, Except.pure] at hm'; cases hm'; rfl
              | manyRep ps => simp only [pure, Except.pure] at hm'; cases hm'; rfl
          | slice x y z =>
            unfold insertMat at hm'
            simp only [bind, Except.bind] at hm'
            split at hm'
            · cases hm'
            · rename_i plan hplan
              refine ⟨plan, hplan, ?_⟩
              cases plan with
              | scalar p => obtain ⟨i, hi⟩ := insPlan_scalar hplan; cases hi
              | block p => simp only [pure, Except.pure] at hm'; cases hm'; rfl
              | many ps => simp only [pure, Except.pure] at hm'; cases hm'; rfl
              | manyRep ps => simp only [pure, Except.pure] at hm'; cases hm'; rfl
        have hcolS : ColsLen (s.bundle k) (axLen a s.mat) := colsLen_of_consistent hcs k a (by rw [hax]; simp)
        have hcolV : ColsLen (⟨v.cols, none⟩ : Bundle lab) (axLen a v.mat) := by
          have := colsLen_of_consistent hcv k a (by rw [hax]; simp)
          rw [operandState_bundle_same, operandState_mat] at this
          exact this
        refine ⟨hcompat', ⟨plan.op, natural2_planOp plan, by simp, ?_, ?_⟩, by simp, ?_⟩
        · simp only [bundle_withMat, bundle_setBundle_same]
          exact zipColsM_insertCol obj _ _ plan hplan _ _ _ hcols hcolS hcolV
        · intro kk hkk
          simp [bundle_setBundle_ne _ _ _ _ hkk]
        · intro kk hkk
          simp [bundle_setBundle_ne _ _ _ _ hkk]

theorem insOK_wrapIns (sch : Schema) (hraw : sch.scalarInsertRaw = false) (k : Kind) (a : Nat)
    (hax : sch.axes k = [a]) (obj : InsIdx) : InsOK a (wrapIns sch k obj) := by
  cases obj with
  | int i => simp [wrapIns, hraw, hax, InsOK]
  | list is => simp [wrapIns, InsOK]
  | slice x y z => simp [wrapIns, InsOK]

/-- since fix 74ad0b65 every position form is harmless on a single-axis bundle -/
theorem insertCore_form {sch : Schema} (hraw : sch.scalarInsertRaw = false) {k : Kind} {a : Nat}
    (hax : sch.axes k = [a]) (ha : a < 3)
    {obj : InsIdx} {v : Operand α lab} {s s' : St α lab} (h : insertCore sch k obj v s = .ok s')
    (hcs : consistentOK sch s = true) (hcv : consistentOK sch (operandState s k v) = true) :
    compatShape sch k s.mat v.mat = true ∧ BinaryForm sch k a s v s' ∧ (s'.bundle k).grp = none ∧
      ∀ kk, kk ≠ k → s'.bundle kk = s.bundle kk :=
  insertCoreRaw_form hax ha h (insOK_wrapIns sch hraw k a hax obj) hcs hcv

end LabelMat
