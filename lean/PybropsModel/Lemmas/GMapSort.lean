/-
Helper lemmas for C11: `Np.stableSort` (the model of numpy's stable lexsort / argsort) returns a
sorted permutation, hence a canonical form whenever the order is antisymmetric on the elements that
occur; instantiated with the row order of the map constructor and the knot order of `build_spline`.
-/
import Mathlib.Tactic
import PybropsModel.Model.GMap
set_option autoImplicit false
set_option linter.unusedSectionVars false

namespace GMap

section generic
variable {γ : Type} (le : γ → γ → Bool)

theorem insertSorted_perm (a : γ) (l : List γ) : (Np.insertSorted le a l).Perm (a :: l) := by
  induction l with
  | nil => simp [Np.insertSorted]
  | cons b bs ih =>
    unfold Np.insertSorted
    split
    · exact (List.Perm.cons b ih).trans (List.Perm.swap a b bs)
    · exact List.Perm.refl _

theorem foldl_insertSorted_perm (l acc : List γ) :
    (l.foldl (fun acc a => Np.insertSorted le a acc) acc).Perm (acc ++ l) := by
  induction l generalizing acc with
  | nil => simp
  | cons a l ih =>
    simp only [List.foldl_cons]
    refine (ih _).trans ?_
    have h1 : (Np.insertSorted le a acc ++ l).Perm ((a :: acc) ++ l) :=
      List.Perm.append_right l (insertSorted_perm le a acc)
    refine h1.trans ?_
    simp only [List.cons_append]
    exact (List.perm_middle (a := a) (l₁ := acc) (l₂ := l)).symm

theorem stableSort_perm (l : List γ) : (Np.stableSort le l).Perm l := by
  unfold Np.stableSort
  simpa using foldl_insertSorted_perm le l []

variable (htot : ∀ a b, le a b = true ∨ le b a = true)
  (htrans : ∀ a b c, le a b = true → le b c = true → le a c = true)

include htot htrans in
theorem insertSorted_pairwise (a : γ) (l : List γ) (hl : l.Pairwise (fun x y => le x y = true)) :
    (Np.insertSorted le a l).Pairwise (fun x y => le x y = true) := by
  induction l with
  | nil => simp [Np.insertSorted]
  | cons b bs ih =>
    unfold Np.insertSorted
    have hb := List.pairwise_cons.mp hl
    split
    · rename_i hba
      refine List.pairwise_cons.mpr ⟨?_, ih hb.2⟩
      intro y hy
      have := (insertSorted_perm le a bs).subset hy
      rcases List.mem_cons.mp this with rfl | hy'
      · exact hba
      · exact hb.1 y hy'
    · rename_i hba
      have hab : le a b = true := by
        rcases htot a b with h | h
        · exact h
        · exact absurd h hba
      refine List.pairwise_cons.mpr ⟨?_, hl⟩
      intro y hy
      rcases List.mem_cons.mp hy with rfl | hy'
      · exact hab
      · exact htrans _ _ _ hab (hb.1 y hy')

include htot htrans in
theorem foldl_insertSorted_pairwise (l acc : List γ) (hacc : acc.Pairwise (fun x y => le x y = true)) :
    (l.foldl (fun acc a => Np.insertSorted le a acc) acc).Pairwise (fun x y => le x y = true) := by
  induction l generalizing acc with
  | nil => simpa using hacc
  | cons a l ih =>
    simp only [List.foldl_cons]
    exact ih _ (insertSorted_pairwise le htot htrans a acc hacc)

include htot htrans in
theorem stableSort_pairwise (l : List γ) :
    (Np.stableSort le l).Pairwise (fun x y => le x y = true) := by
  unfold Np.stableSort
  exact foldl_insertSorted_pairwise le htot htrans l [] List.Pairwise.nil

include htot htrans in
/-- a stable sort is a canonical form of the multiset of its input whenever the order is
    antisymmetric on the elements that occur -/
theorem stableSort_eq_of_perm {l l' : List γ} (hp : l.Perm l')
    (hanti : ∀ a b, a ∈ l → b ∈ l → le a b = true → le b a = true → a = b) :
    Np.stableSort le l = Np.stableSort le l' := by
  have p1 := stableSort_perm le l
  have p2 := stableSort_perm le l'
  refine List.Perm.eq_of_pairwise (le := fun x y => le x y = true) ?_
    (stableSort_pairwise le htot htrans l) (stableSort_pairwise le htot htrans l')
    (p1.trans (hp.trans p2.symm))
  intro a b ha hb hab hba
  exact hanti a b (p1.subset ha) (hp.symm.subset (p2.subset hb)) hab hba

end generic

/-! ### the two concrete orders -/
section orders
variable {α β : Type} [LinearOrder α]

theorem rowLe_iff (a b : Row α β) :
    rowLe a b = true ↔
      a.chr < b.chr ∨ (a.chr = b.chr ∧ (a.phy < b.phy ∨ (a.phy = b.phy ∧ a.gen ≤ b.gen))) := by
  unfold rowLe
  simp only [Bool.or_eq_true, Bool.and_eq_true, decide_eq_true_eq, beq_iff_eq, Bool.not_eq_true',
    decide_eq_false_iff_not, not_lt]
  constructor
  · rintro (h | ⟨h1, h2 | ⟨h2, h3⟩⟩)
    · exact Or.inl h
    · exact Or.inr ⟨h1, Or.inl h2⟩
    · rcases lt_or_eq_of_le h2 with h | h
      · exact Or.inr ⟨h1, Or.inl h⟩
      · exact Or.inr ⟨h1, Or.inr ⟨h, h3⟩⟩
  · rintro (h | ⟨h1, h2 | ⟨h2, h3⟩⟩)
    · exact Or.inl h
    · exact Or.inr ⟨h1, Or.inl h2⟩
    · exact Or.inr ⟨h1, Or.inr ⟨h2.le, h3⟩⟩

theorem rowLe_total (a b : Row α β) : rowLe a b = true ∨ rowLe b a = true := by
  rw [rowLe_iff, rowLe_iff]
  rcases lt_trichotomy a.chr b.chr with h | h | h
  · exact Or.inl (Or.inl h)
  · rcases lt_trichotomy a.phy b.phy with h2 | h2 | h2
    · exact Or.inl (Or.inr ⟨h, Or.inl h2⟩)
    · rcases le_total a.gen b.gen with h3 | h3
      · exact Or.inl (Or.inr ⟨h, Or.inr ⟨h2, h3⟩⟩)
      · exact Or.inr (Or.inr ⟨h.symm, Or.inr ⟨h2.symm, h3⟩⟩)
    · exact Or.inr (Or.inr ⟨h.symm, Or.inl h2⟩)
  · exact Or.inr (Or.inl h)

theorem rowLe_trans (a b c : Row α β) (h1 : rowLe a b = true) (h2 : rowLe b c = true) :
    rowLe a c = true := by
  rw [rowLe_iff] at *
  rcases h1 with h1 | ⟨e1, h1⟩
  · rcases h2 with h2 | ⟨e2, _⟩
    · exact Or.inl (lt_trans h1 h2)
    · exact Or.inl (e2 ▸ h1)
  · rcases h2 with h2 | ⟨e2, h2⟩
    · exact Or.inl (e1 ▸ h2)
    · refine Or.inr ⟨e1.trans e2, ?_⟩
      rcases h1 with h1 | ⟨p1, g1⟩
      · rcases h2 with h2 | ⟨p2, _⟩
        · exact Or.inl (lt_trans h1 h2)
        · exact Or.inl (p2 ▸ h1)
      · rcases h2 with h2 | ⟨p2, g2⟩
        · exact Or.inl (p1 ▸ h2)
        · exact Or.inr ⟨p1.trans p2, le_trans g1 g2⟩

/-- the constructor order identifies two rows only if chromosome, physical and genetic position agree -/
theorem rowLe_antisymm_key (a b : Row α β) (h1 : rowLe a b = true) (h2 : rowLe b a = true) :
    a.chr = b.chr ∧ a.phy = b.phy ∧ a.gen = b.gen := by
  rw [rowLe_iff] at *
  rcases h1 with h1 | ⟨e1, h1⟩
  · rcases h2 with h2 | ⟨e2, _⟩
    · exact absurd (lt_trans h1 h2) (lt_irrefl _)
    · exact absurd (e2 ▸ h1) (lt_irrefl _)
  · rcases h2 with h2 | ⟨_, h2⟩
    · exact absurd (e1 ▸ h2) (lt_irrefl _)
    · rcases h1 with h1 | ⟨p1, g1⟩
      · rcases h2 with h2 | ⟨p2, _⟩
        · exact absurd (lt_trans h1 h2) (lt_irrefl _)
        · exact absurd (p2 ▸ h1) (lt_irrefl _)
      · rcases h2 with h2 | ⟨_, g2⟩
        · exact absurd (p1 ▸ h2) (lt_irrefl _)
        · exact ⟨e1, p1, le_antisymm g1 g2⟩

theorem xLe_iff (a b : α × α) : xLe a b = true ↔ a.1 ≤ b.1 := by
  unfold xLe
  simp

theorem xLe_total (a b : α × α) : xLe a b = true ∨ xLe b a = true := by
  rw [xLe_iff, xLe_iff]; exact le_total _ _

theorem xLe_trans (a b c : α × α) (h1 : xLe a b = true) (h2 : xLe b c = true) : xLe a c = true := by
  rw [xLe_iff] at *; exact le_trans h1 h2

/-! ### the constructor -/

theorem construct_perm (rows : List (Row α β)) : (construct rows).Perm rows :=
  stableSort_perm _ rows

theorem construct_sorted (rows : List (Row α β)) :
    (construct rows).Pairwise (fun a b => rowLe a b = true) :=
  stableSort_pairwise _ rowLe_total rowLe_trans rows

/-- two supplied row orders give the same stored map, provided rows that agree in
    (chromosome, physical, genetic position) agree in the columns that ride along -/
theorem construct_eq_of_perm {rows rows' : List (Row α β)} (hp : rows.Perm rows')
    (htag : ∀ a b, a ∈ rows → b ∈ rows → a.chr = b.chr → a.phy = b.phy → a.gen = b.gen → a.tag = b.tag) :
    construct rows = construct rows' := by
  refine stableSort_eq_of_perm _ rowLe_total rowLe_trans hp ?_
  intro a b ha hb h1 h2
  obtain ⟨e1, e2, e3⟩ := rowLe_antisymm_key a b h1 h2
  have e4 := htag a b ha hb e1 e2 e3
  cases a; cases b; simp_all

/-! ### the knots of one chromosome -/

theorem knots_perm_raw (rows : List (Row α β)) (c : Int) :
    (knots rows c).Perm ((rows.filter (fun r => r.chr == c)).map (fun r => (r.phy, r.gen))) :=
  stableSort_perm _ _

theorem knots_sorted (rows : List (Row α β)) (c : Int) :
    (knots rows c).Pairwise (fun a b => a.1 ≤ b.1) := by
  have := stableSort_pairwise (xLe (α := α)) xLe_total xLe_trans
    ((rows.filter (fun r => r.chr == c)).map (fun r => (r.phy, r.gen)))
  exact this.imp (fun h => (xLe_iff _ _).mp h)

theorem mem_knots {rows : List (Row α β)} {c : Int} {p : α × α} :
    p ∈ knots rows c ↔ ∃ r ∈ rows, r.chr = c ∧ (r.phy, r.gen) = p := by
  rw [(knots_perm_raw rows c).mem_iff]
  simp only [List.mem_map, List.mem_filter, beq_iff_eq]
  constructor
  · rintro ⟨r, ⟨hr, hc⟩, rfl⟩; exact ⟨r, hr, hc, rfl⟩
  · rintro ⟨r, hr, hc, rfl⟩; exact ⟨r, ⟨hr, hc⟩, rfl⟩

theorem knots_length (rows : List (Row α β)) (c : Int) :
    (knots rows c).length = (rows.filter (fun r => r.chr == c)).length := by
  rw [(knots_perm_raw rows c).length_eq, List.length_map]

/-- "duplicated physical positions excluded": no two rows share (chromosome, physical position) -/
def NoDupPhys (rows : List (Row α β)) : Prop := (rows.map (fun r => (r.chr, r.phy))).Nodup

theorem NoDupPhys.perm {rows rows' : List (Row α β)} (h : NoDupPhys rows) (hp : rows.Perm rows') :
    NoDupPhys rows' := (hp.map _).nodup_iff.mp h

theorem knots_strict {rows : List (Row α β)} (h : NoDupPhys rows) (c : Int) :
    (knots rows c).Pairwise (fun a b => a.1 < b.1) := by
  -- distinct x on the raw (unsorted) knots
  have hf : ((rows.filter (fun r => r.chr == c)).map (fun r => (r.chr, r.phy))).Nodup :=
    h.sublist (List.Sublist.map _ List.filter_sublist)
  have hx : (((rows.filter (fun r => r.chr == c)).map (fun r => (r.phy, r.gen))).map Prod.fst).Nodup := by
    rw [List.map_map]
    rw [List.Nodup, List.pairwise_map] at hf ⊢
    refine hf.imp_of_mem ?_
    intro a b ha hb hne
    have hac : a.chr = c := by simpa using (List.mem_filter.mp ha).2
    have hbc : b.chr = c := by simpa using (List.mem_filter.mp hb).2
    intro heq
    apply hne
    simp only [Function.comp] at heq
    rw [hac, hbc, heq]
  have hx' : ((knots rows c).map Prod.fst).Nodup :=
    ((knots_perm_raw rows c).map Prod.fst).nodup_iff.mpr hx
  rw [List.Nodup, List.pairwise_map] at hx'
  exact ((knots_sorted rows c).and hx').imp (fun h => lt_of_le_of_ne h.1 h.2)

/-- in a list that is strictly increasing in x, the x value identifies the knot -/
theorem eq_of_fst_eq_of_strict {l : List (α × α)} (hs : l.Pairwise (fun a b => a.1 < b.1))
    {a b : α × α} (ha : a ∈ l) (hb : b ∈ l) (hab : a.1 = b.1) : a = b := by
  induction l with
  | nil => simp at ha
  | cons p l ih =>
    obtain ⟨h1, h2⟩ := List.pairwise_cons.mp hs
    rcases List.mem_cons.mp ha with rfl | ha'
    · rcases List.mem_cons.mp hb with rfl | hb'
      · rfl
      · exact absurd hab (ne_of_lt (h1 b hb'))
    · rcases List.mem_cons.mp hb with rfl | hb'
      · exact absurd hab.symm (ne_of_lt (h1 a ha'))
      · exact ih h2 ha' hb'

/-- the knots do not depend on the order in which the rows were supplied -/
theorem knots_eq_of_perm {rows rows' : List (Row α β)} (hp : rows.Perm rows') (h : NoDupPhys rows)
    (c : Int) : knots rows c = knots rows' c := by
  unfold knots
  refine stableSort_eq_of_perm _ xLe_total xLe_trans ((hp.filter _).map _) ?_
  intro a b ha hb h1 h2
  have hab : a.1 = b.1 := le_antisymm ((xLe_iff _ _).mp h1) ((xLe_iff _ _).mp h2)
  have ha' : a ∈ knots rows c := (knots_perm_raw rows c).symm.subset ha
  have hb' : b ∈ knots rows c := (knots_perm_raw rows c).symm.subset hb
  exact eq_of_fst_eq_of_strict (knots_strict h c) ha' hb' hab

end orders
end GMap
