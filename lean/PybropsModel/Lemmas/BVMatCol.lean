/-
Helper lemmas for C15, one trait column at a time: the NaN-lifted arithmetic, `from_numpy` in closed
form, the affine map `x ↦ (1/s)·(x − m)` against sums, extrema and arg-extrema.
-/
import Mathlib.Tactic
import PybropsModel.Model.BVMat
set_option autoImplicit false
set_option linter.unusedSectionVars false
set_option linter.unusedVariables false

namespace BVMat

/-! ### lists of present values -/
section present
variable {α : Type}

theorem present_map_some (l : List α) : present (l.map some) = l := by
  induction l with
  | nil => rfl
  | cons a l ih => simp [present]

theorem present_cons_none (c : Col α) : present (none :: c) = present c := by
  simp [present]

theorem present_cons_some (a : α) (c : Col α) : present (some a :: c) = a :: present c := by
  simp [present]

theorem present_eq_nil {c : Col α} (h : present c = []) : ∀ x ∈ c, x = none := by
  induction c with
  | nil => intro x hx; cases hx
  | cons a c ih =>
    cases a with
    | none =>
      rw [present_cons_none] at h
      intro x hx
      rcases List.mem_cons.mp hx with rfl | hx
      · rfl
      · exact ih h x hx
    | some a => rw [present_cons_some] at h; cases h

theorem map_none_of_present_nil {c : Col α} (h : present c = []) (f : Option α → Option α)
    (hf : f none = none) : c.map f = c := by
  have := present_eq_nil h
  induction c with
  | nil => rfl
  | cons a c ih =>
    have ha : a = none := this a (List.mem_cons_self)
    subst ha
    rw [present_cons_none] at h
    simp only [List.map_cons, hf]
    rw [ih h (fun x hx => this x (List.mem_cons_of_mem _ hx))]

theorem present_filter_isSome (c : Col α) : present (c.filter Option.isSome) = present c := by
  induction c with
  | nil => rfl
  | cons a c ih =>
    cases a with
    | none => simp [present_cons_none, ih]
    | some a => simp [present_cons_some, ih]

/-- a function that keeps NaN and only NaN commutes with taking the present values -/
theorem present_map {c : Col α} (f : Option α → Option α) (g : α → α)
    (hn : f none = none) (hs : ∀ x, f (some x) = some (g x)) :
    present (c.map f) = (present c).map g := by
  induction c with
  | nil => rfl
  | cons a c ih =>
    cases a with
    | none => simp only [List.map_cons, hn, present_cons_none, ih]
    | some a => simp only [List.map_cons, hs, present_cons_some, ih]

theorem all_isSome_map {c : Col α} (f : Option α → Option α) (g : α → α)
    (hn : f none = none) (hs : ∀ x, f (some x) = some (g x)) :
    (c.map f).all Option.isSome = c.all Option.isSome := by
  induction c with
  | nil => rfl
  | cons a c ih =>
    cases a with
    | none => simp [hn]
    | some a => simp only [List.map_cons, hs, List.all_cons, Option.isSome_some, ih]

theorem dense_map {c : Col α} (f : Option α → Option α) (g : α → α)
    (hn : f none = none) (hs : ∀ x, f (some x) = some (g x)) :
    dense (c.map f) = (dense c).map (List.map g) := by
  unfold dense
  rw [all_isSome_map f g hn hs, present_map f g hn hs]
  split <;> rfl

theorem firstNaN_map {c : Col α} (f : Option α → Option α) (g : α → α)
    (hn : f none = none) (hs : ∀ x, f (some x) = some (g x)) :
    firstNaN (c.map f) = firstNaN c := by
  induction c with
  | nil => rfl
  | cons a c ih =>
    cases a with
    | none => simp [firstNaN, hn]
    | some a => simp only [List.map_cons, hs, firstNaN, ih]

theorem isNone_map {c : Col α} (f : Option α → Option α) (g : α → α)
    (hn : f none = none) (hs : ∀ x, f (some x) = some (g x)) :
    (c.map f).map Option.isNone = c.map Option.isNone := by
  induction c with
  | nil => rfl
  | cons a c ih =>
    cases a with
    | none => simp [hn, ih]
    | some a => simp [hs, ih]

theorem filter_isSome_map {c : Col α} (f : Option α → Option α) (g : α → α)
    (hn : f none = none) (hs : ∀ x, f (some x) = some (g x)) :
    (c.map f).filter Option.isSome = (c.filter Option.isSome).map f := by
  induction c with
  | nil => rfl
  | cons a c ih =>
    cases a with
    | none => simp [hn, ih]
    | some a => simp [hs, ih]

end present

/-! ### the field facts -/
section field
variable {α : Type} [Field α] [LinearOrder α] [IsStrictOrderedRing α]

/-- `x ↦ (1/s)·(x − m)`, the map `from_numpy` applies to the present values -/
def stdFn (m s x : α) : α := (1 / s) * (x - m)

theorem guardScale_ne_zero (s : α) : guardScale s ≠ 0 := by
  unfold guardScale
  split
  · exact one_ne_zero
  · assumption

theorem guardScale_pos {s : α} (h : 0 ≤ s) : 0 < guardScale s := by
  unfold guardScale
  split
  · exact one_pos
  · rename_i hs; exact lt_of_le_of_ne h (Ne.symm hs)

theorem guardScale_of_ne {s : α} (h : s ≠ 0) : guardScale s = s := by
  unfold guardScale; rw [if_neg h]

theorem guardScale_zero : guardScale (0 : α) = 1 := by
  unfold guardScale; rw [if_pos rfl]

theorem standardise_none (loc scale : Option α) : standardise loc scale none = none := by
  cases scale <;> rfl

theorem standardise_some (m s x : α) :
    standardise (some m) (some s) (some x) = some (stdFn m s x) := rfl

theorem standardise_loc_none (scale x : Option α) : standardise none scale x = none := by
  cases scale <;> cases x <;> rfl

theorem unscaleEntry_none (loc scale : Option α) : unscaleEntry loc scale none = none := by
  cases scale <;> rfl

theorem unscaleEntry_some (m s x : α) :
    unscaleEntry (some m) (some s) (some x) = some (s * x + m) := rfl

theorem unscale_stdFn {s : α} (hs : s ≠ 0) (m x : α) : s * stdFn m s x + m = x := by
  unfold stdFn; field_simp; ring

theorem stdFn_mul_add {s : α} (hs : s ≠ 0) (m x : α) : stdFn m s x * s + m = x := by
  unfold stdFn; field_simp; ring

theorem stdFn_strictMono {s : α} (hs : 0 < s) (m : α) : StrictMono (stdFn m s) := by
  intro a b hab
  unfold stdFn
  have : 0 < 1 / s := one_div_pos.mpr hs
  exact mul_lt_mul_of_pos_left (sub_lt_sub_right hab m) this

/-! ### sums, means, variances under the affine map -/

theorem sumL_eq_sum (l : List α) : sumL l = l.sum := by
  induction l with
  | nil => rfl
  | cons a l ih => simp [sumL, ih]

theorem sumL_map_stdFn (m s : α) (l : List α) :
    sumL (l.map (stdFn m s)) = (1 / s) * (sumL l - (l.length : α) * m) := by
  induction l with
  | nil => simp [sumL]
  | cons a l ih =>
    simp only [List.map_cons, sumL, ih, List.length_cons, Nat.cast_succ, stdFn]
    ring

theorem length_cast_ne_zero {l : List α} (h : l ≠ []) : ((l.length : ℕ) : α) ≠ 0 := by
  have : l.length ≠ 0 := by
    intro h0; exact h (List.length_eq_zero_iff.mp h0)
  exact_mod_cast this

/-- the standardised values have mean 0 -/
theorem meanL_map_stdFn_self {l : List α} (h : l ≠ []) (s : α) :
    meanL (l.map (stdFn (meanL l) s)) = 0 := by
  have hn := length_cast_ne_zero (α := α) h
  unfold meanL
  rw [sumL_map_stdFn, List.length_map]
  have : sumL l - (l.length : α) * (sumL l / (l.length : α)) = 0 := by
    field_simp; ring
  rw [this]; simp

theorem sumL_map_mul_left (a : α) (f : α → α) (l : List α) :
    sumL (l.map (fun x => a * f x)) = a * sumL (l.map f) := by
  induction l with
  | nil => simp [sumL]
  | cons b l ih => simp only [List.map_cons, sumL, ih]; ring

/-- variance of the standardised values = variance / s² -/
theorem varL_map_stdFn_self {l : List α} (h : l ≠ []) (s : α) :
    varL (l.map (stdFn (meanL l) s)) = (1 / s) * (1 / s) * varL l := by
  unfold varL
  rw [meanL_map_stdFn_self h s]
  unfold meanL
  simp only [List.length_map, List.map_map]
  have : ((fun x => (x - 0) * (x - 0)) ∘ stdFn (sumL l / (l.length : α)) s)
      = fun x => ((1 / s) * (1 / s)) * ((x - sumL l / (l.length : α)) * (x - sumL l / (l.length : α))) := by
    funext x; simp only [Function.comp, stdFn]; ring
  rw [this, sumL_map_mul_left]
  ring

/-! ### extrema and arg-extrema under a strictly increasing map -/

theorem maxL_map {f : α → α} (hf : StrictMono f) (a : α) (l : List α) :
    maxL (f a) (l.map f) = f (maxL a l) := by
  induction l generalizing a with
  | nil => rfl
  | cons x l ih =>
    simp only [maxL, List.map_cons, List.foldl_cons]
    have : (if f a < f x then f x else f a) = f (if a < x then x else a) := by
      by_cases h : a < x
      · rw [if_pos h, if_pos (hf h)]
      · rw [if_neg h, if_neg (fun h' => h (hf.lt_iff_lt.mp h'))]
    rw [this]
    exact ih _

theorem minL_map {f : α → α} (hf : StrictMono f) (a : α) (l : List α) :
    minL (f a) (l.map f) = f (minL a l) := by
  induction l generalizing a with
  | nil => rfl
  | cons x l ih =>
    simp only [minL, List.map_cons, List.foldl_cons]
    have : (if f x < f a then f x else f a) = f (if x < a then x else a) := by
      by_cases h : x < a
      · rw [if_pos h, if_pos (hf h)]
      · rw [if_neg h, if_neg (fun h' => h (hf.lt_iff_lt.mp h'))]
    rw [this]
    exact ih _

theorem argmaxGo_map {f : α → α} (hf : StrictMono f) (best : α) (bi i : Nat) (l : List α) :
    argmaxGo (f best) bi i (l.map f) = argmaxGo best bi i l := by
  induction l generalizing best bi i with
  | nil => rfl
  | cons x l ih =>
    simp only [List.map_cons, argmaxGo]
    by_cases h : best < x
    · rw [if_pos h, if_pos (hf h)]; exact ih _ _ _
    · rw [if_neg h, if_neg (fun h' => h (hf.lt_iff_lt.mp h'))]; exact ih _ _ _

theorem argminGo_map {f : α → α} (hf : StrictMono f) (best : α) (bi i : Nat) (l : List α) :
    argminGo (f best) bi i (l.map f) = argminGo best bi i l := by
  induction l generalizing best bi i with
  | nil => rfl
  | cons x l ih =>
    simp only [List.map_cons, argminGo]
    by_cases h : x < best
    · rw [if_pos h, if_pos (hf h)]; exact ih _ _ _
    · rw [if_neg h, if_neg (fun h' => h (hf.lt_iff_lt.mp h'))]; exact ih _ _ _

/-! ### `from_numpy` on one column in closed form -/

theorem present_isEmpty_iff (c : Col α) : (present c).isEmpty = true ↔ present c = [] :=
  List.isEmpty_iff

/-- empty or all-NaN column: location, scale and every stored value are NaN -/
theorem fromNumpyCol_of_nil (sq : α → α) {c : Col α} (h : present c = []) :
    fromNumpyCol sq c = { mat := c, loc := none, scale := none } := by
  unfold fromNumpyCol nanstd nanvar nanmean
  simp only [h, List.isEmpty_nil, if_true, Option.map_none]
  congr 1
  exact map_none_of_present_nil h _ (standardise_loc_none _ _)

/-- a column with at least one value -/
theorem fromNumpyCol_of_ne (sq : α → α) {c : Col α} (h : present c ≠ []) :
    fromNumpyCol sq c =
      { mat := c.map (standardise (some (meanL (present c))) (some (guardScale (sq (varL (present c)))))),
        loc := some (meanL (present c)),
        scale := some (guardScale (sq (varL (present c)))) } := by
  have he : (present c).isEmpty = false := by
    cases hp : present c with
    | nil => exact absurd hp h
    | cons a l => rfl
  unfold fromNumpyCol nanstd nanvar nanmean
  simp only [he, Bool.false_eq_true, if_false, Option.map_some]

/-- the stored values of the present entries -/
theorem present_mat_fromNumpyCol (sq : α → α) {c : Col α} (h : present c ≠ []) :
    present (fromNumpyCol sq c).mat =
      (present c).map (stdFn (meanL (present c)) (guardScale (sq (varL (present c))))) := by
  rw [fromNumpyCol_of_ne sq h]
  exact present_map _ _ (standardise_none _ _) (standardise_some _ _)

end field
end BVMat
