/-
Helper lemmas for C15, one trait column at a time: the NaN-lifted arithmetic, `from_numpy` in closed
form, the affine map `x ↦ (1/s)·(x − m)` against sums, extrema and arg-extrema.
-/
import Mathlib.Tactic
import PybropsModel.Model.BVMat
set_option autoImplicit false
set_option linter.unusedSectionVars false
set_option linter.unusedVariables false

namespace BVMat

/-! ### lists of present values -/
section present
variable {α : Type}

theorem present_map_some (l : List α) : present (l.map some) = l := by
  induction l with
  | nil => rfl
  | cons a l ih => simp [present]

theorem present_cons_none (c : Col α) : present (none :: c) = present c := by
  simp [present]

theorem present_cons_some (a : α) (c : Col α) : present (some a :: c) = a :: present c := by
  simp [present]

theorem present_eq_nil {c : Col α} (h : present c = []) : ∀ x ∈ c, x = none := by
  induction c with
  | nil => intro x hx; cases hx
  | cons a c ih =>
    cases a with
    | none =>
      rw [present_cons_none] at h
      intro x hx
      rcases List.mem_cons.mp hx with rfl | hx
      · rfl
      · exact ih h x hx
    | some a => rw [present_cons_some] at h; cases h

theorem map_none_of_present_nil {c : Col α} (h : present c = []) (f : Option α → Option α)
    (hf : f none = none) : c.map f = c := by
  have := present_eq_nil h
  induction c with
  | nil => rfl
  | cons a c ih =>
    have ha : a = none := this a (List.mem_cons_self)
    subst ha
    rw [present_cons_none] at h
    simp only [List.map_cons, hf]
    rw [ih h (fun x hx => this x (List.mem_cons_of_mem _ hx))]

theorem present_filter_isSome (c : Col α) : present (c.filter Option.isSome) = present c := by
  induction c with
  | nil => rfl
  | cons a c ih =>
    cases a with
    | none => simp [present_cons_none, ih]
    | some a => simp [present_cons_some, ih]

/-- a function that keeps NaN and only NaN commutes with taking the present values -/
theorem present_map {c : Col α} (f : Option α → Option α) (g : α → α)
    (hn : f none = none) (hs : ∀ x, f (some x) = some (g x)) :
    present (c.map f) = (present c).map g := by
  induction c with
  | nil => rfl
  | cons a c ih =>
    cases a with
    | none => simp only [List.map_cons, hn, present_cons_none, ih]
    | some a => simp only [List.map_cons, hs, present_cons_some, ih]

theorem all_isSome_map {c : Col α} (f : Option α → Option α) (g : α → α)
    (hn : f none = none) (hs : ∀ x, f (some x) = some (g x)) :
    (c.map f).all Option.isSome = c.all Option.isSome := by
  induction c with
  | nil => rfl
  | cons a c ih =>
    cases a with
    | none => simp [hn]
    | some a => simp only [List.map_cons, hs, List.all_cons, Option.isSome_some, ih]

theorem dense_map {c : Col α} (f : Option α → Option α) (g : α → α)
    (hn : f none = none) (hs : ∀ x, f (some x) = some (g x)) :
    dense (c.map f) = (dense c).map (List.map g) := by
  unfold dense
  rw [all_isSome_map f g hn hs, present_map f g hn hs]
  split <;> rfl

theorem firstNaN_map {c : Col α} (f : Option α → Option α) (g : α → α)
    (hn : f none = none) (hs : ∀ x, f (some x) = some (g x)) :
    firstNaN (c.map f) = firstNaN c := by
  induction c with
  | nil => rfl
  | cons a c ih =>
    cases a with
    | none => simp [firstNaN, hn]
    | some a => simp only [List.map_cons, hs, firstNaN, ih]

theorem isNone_map {c : Col α} (f : Option α → Option α) (g : α → α)
    (hn : f none = none) (hs : ∀ x, f (some x) = some (g x)) :
    (c.map f).map Option.isNone = c.map Option.isNone := by
  induction c with
  | nil => rfl
  | cons a c ih =>
    cases a with
    | none => simp [hn, ih]
    | some a => simp [hs, ih]

theorem filter_isSome_map {c : Col α} (f : Option α → Option α) (g : α → α)
    (hn : f none = none) (hs : ∀ x, f (some x) = some (g x)) :
    (c.map f).filter Option.isSome = (c.filter Option.isSome).map f := by
  induction c with
  | nil => rfl
  | cons a c ih =>
    cases a with
    | none => simp [hn, ih]
    | some a => simp [hs, ih]

end present

/-! ### the field facts -/
section field
variable {α : Type} [Field α] [LinearOrder α] [IsStrictOrderedRing α]

/-- `x ↦ (1/s)·(x − m)`, the map `from_numpy` applies to the present values -/
def stdFn (m s x : α) : α := (1 / s) * (x - m)

theorem guardScale_ne_zero (s : α) : guardScale s ≠ 0 := by
  unfold guardScale
  split
  · exact one_ne_zero
  · assumption

theorem guardScale_pos {s : α} (h : 0 ≤ s) : 0 < guardScale s := by
  unfold guardScale
  split
  · exact one_pos
  · rename_i hs; exact lt_of_le_of_ne h (Ne.symm hs)

theorem guardScale_of_ne {s : α} (h : s ≠ 0) : guardScale s = s := by
  unfold guardScale; rw [if_neg h]

theorem guardScale_zero : guardScale (0 : α) = 1 := by
  unfold guardScale; rw [if_pos rfl]

theorem standardise_none (loc scale : Option α) : standardise loc scale none = none := by
  cases scale <;> rfl

theorem standardise_some (m s x : α) :
    standardise (some m) (some s) (some x) = some (stdFn m s x) := rfl

theorem standardise_loc_none (scale x : Option α) : standardise none scale x = none := by
  cases scale <;> cases x <;> rfl

theorem unscaleEntry_none (loc scale : Option α) : unscaleEntry loc scale none = none := by
  cases scale <;> rfl

theorem unscaleEntry_some (m s x : α) :
    unscaleEntry (some m) (some s) (some x) = some (s * x + m) := rfl

theorem unscale_stdFn {s : α} (hs : s ≠ 0) (m x : α) : s * stdFn m s x + m = x := by
  unfold stdFn; field_simp; ring

theorem stdFn_mul_add {s : α} (hs : s ≠ 0) (m x : α) : stdFn m s x * s + m = x := by
  unfold stdFn; field_simp; ring

theorem stdFn_strictMono {s : α} (hs : 0 < s) (m : α) : StrictMono (stdFn m s) := by
  intro a b hab
  unfold stdFn
  have : 0 < 1 / s := one_div_pos.mpr hs
  exact mul_lt_mul_of_pos_left (sub_lt_sub_right hab m) this

/-! ### sums, means, variances under the affine map -/

theorem sumL_eq_sum (l : List α) : sumL l = l.sum := by
  induction l with
  | nil => rfl
  | cons a l ih => simp [sumL, ih]

theorem sumL_map_stdFn (m s : α) (l : List α) :
    sumL (l.map (stdFn m s)) = (1 / s) * (sumL l - (l.length : α) * m) := by
  induction l with
  | nil => simp [sumL]
  | cons a l ih =>
    simp only [List.map_cons, sumL, ih, List.length_cons, Nat.cast_succ, stdFn]
    ring

theorem length_cast_ne_zero {l : List α} (h : l ≠ []) : ((l.length : ℕ) : α) ≠ 0 := by
  have : l.length ≠ 0 := by
    intro h0; exact h (List.length_eq_zero_iff.mp h0)
  exact_mod_cast this

/-- the standardised values have mean 0 -/
theorem meanL_map_stdFn_self {l : List α} (h : l ≠ []) (s : α) :
    meanL (l.map (stdFn (meanL l) s)) = 0 := by
  have hn := length_cast_ne_zero (α := α) h
  unfold meanL
  rw [sumL_map_stdFn, List.length_map]
  have : sumL l - (l.length : α) * (sumL l / (l.length : α)) = 0 := by
    field_simp; ring
  rw [this]; simp

theorem sumL_map_mul_left (a : α) (f : α → α) (l : List α) :
    sumL (l.map (fun x => a * f x)) = a * sumL (l.map f) := by
  induction l with
  | nil => simp [sumL]
  | cons b l ih => simp only [List.map_cons, sumL, ih]; ring

/-- variance of the standardised values = variance / s² -/
theorem varL_map_stdFn_self {l : List α} (h : l ≠ []) (s : α) :
    varL (l.map (stdFn (meanL l) s)) = (1 / s) * (1 / s) * varL l := by
  unfold varL
  rw [meanL_map_stdFn_self h s]
  unfold meanL
  simp only [List.length_map, List.map_map]
  have : ((fun x => (x - 0) * (x - 0)) ∘ stdFn (sumL l / (l.length : α)) s)
      = fun x => ((1 / s) * (1 / s)) * ((x - sumL l / (l.length : α)) * (x - sumL l / (l.length : α))) := by
    funext x; simp only [Function.comp, stdFn]; ring
  rw [this, sumL_map_mul_left]
  ring

/-! ### extrema and arg-extrema under a strictly increasing map -/

theorem maxL_map {f : α → α} (hf : StrictMono f) (a : α) (l : List α) :
    maxL (f a) (l.map f) = f (maxL a l) := by
  induction l generalizing a with
  | nil => rfl
  | cons x l ih =>
    simp only [maxL, List.map_cons, List.foldl_cons]
    have : (if f a < f x then f x else f a) = f (if a < x then x else a) := by
      by_cases h : a < x
      · rw [if_pos h, if_pos (hf h)]
      · rw [if_neg h, if_neg (fun h' => h (hf.lt_iff_lt.mp h'))]
    rw [this]
    exact ih _

theorem minL_map {f : α → α} (hf : StrictMono f) (a : α) (l : List α) :
    minL (f a) (l.map f) = f (minL a l) := by
  induction l generalizing a with
  | nil => rfl
  | cons x l ih =>
    simp only [minL, List.map_cons, List.foldl_cons]
    have : (if f x < f a then f x else f a) = f (if x < a then x else a) := by
      by_cases h : x < a
      · rw [if_pos h, if_pos (hf h)]
      · rw [if_neg h, if_neg (fun h' => h (hf.lt_iff_lt.mp h'))]
    rw [this]
    exact ih _

theorem argmaxGo_map {f : α → α} (hf : StrictMono f) (best : α) (bi i : Nat) (l : List α) :
    argmaxGo (f best) bi i (l.map f) = argmaxGo best bi i l := by
  induction l generalizing best bi i with
  | nil => rfl
  | cons x l ih =>
    simp only [List.map_cons, argmaxGo]
    by_cases h : best < x
    · rw [if_pos h, if_pos (hf h)]; exact ih _ _ _
    · rw [if_neg h, if_neg (fun h' => h (hf.lt_iff_lt.mp h'))]; exact ih _ _ _

theorem argminGo_map {f : α → α} (hf : StrictMono f) (best : α) (bi i : Nat) (l : List α) :
    argminGo (f best) bi i (l.map f) = argminGo best bi i l := by
  induction l generalizing best bi i with
  | nil => rfl
  | cons x l ih =>
    simp only [List.map_cons, argminGo]
    by_cases h : x < best
    · rw [if_pos h, if_pos (hf h)]; exact ih _ _ _
    · rw [if_neg h, if_neg (fun h' => h (hf.lt_iff_lt.mp h'))]; exact ih _ _ _

/-! ### the reductions are the extrema -/

theorem maxL_ge_init (a : α) (l : List α) : a ≤ maxL a l := by
  induction l generalizing a with
  | nil => exact le_refl _
  | cons x l ih =>
    simp only [maxL, List.foldl_cons]
    by_cases h : a < x
    · rw [if_pos h]; exact le_trans h.le (ih x)
    · rw [if_neg h]; exact ih a

/-- `maxL a l` is an element of `a :: l` and bounds all of them -/
theorem maxL_spec (a : α) (l : List α) :
    maxL a l ∈ a :: l ∧ ∀ x ∈ a :: l, x ≤ maxL a l := by
  induction l generalizing a with
  | nil => exact ⟨List.mem_cons_self, fun x hx => by simp at hx; exact hx.le⟩
  | cons y l ih =>
    simp only [maxL, List.foldl_cons]
    by_cases h : a < y
    · rw [if_pos h]
      obtain ⟨hm, hb⟩ := ih y
      refine ⟨List.mem_cons_of_mem _ hm, ?_⟩
      intro x hx
      rcases List.mem_cons.mp hx with rfl | hx
      · exact le_trans h.le (hb y List.mem_cons_self)
      · exact hb x hx
    · rw [if_neg h]
      obtain ⟨hm, hb⟩ := ih a
      refine ⟨?_, ?_⟩
      · rcases List.mem_cons.mp hm with h1 | h1
        · show _ ∈ _; rw [show List.foldl _ a l = a from h1]; exact List.mem_cons_self
        · exact List.mem_cons_of_mem _ (List.mem_cons_of_mem _ h1)
      · intro x hx
        rcases List.mem_cons.mp hx with rfl | hx
        · exact hb _ List.mem_cons_self
        · rcases List.mem_cons.mp hx with rfl | hx
          · exact le_trans (not_lt.mp h) (hb a List.mem_cons_self)
          · exact hb x (List.mem_cons_of_mem _ hx)

theorem minL_spec (a : α) (l : List α) :
    minL a l ∈ a :: l ∧ ∀ x ∈ a :: l, minL a l ≤ x := by
  induction l generalizing a with
  | nil => exact ⟨List.mem_cons_self, fun x hx => by simp at hx; exact hx.ge⟩
  | cons y l ih =>
    simp only [minL, List.foldl_cons]
    by_cases h : y < a
    · rw [if_pos h]
      obtain ⟨hm, hb⟩ := ih y
      refine ⟨List.mem_cons_of_mem _ hm, ?_⟩
      intro x hx
      rcases List.mem_cons.mp hx with rfl | hx
      · exact le_trans (hb y List.mem_cons_self) h.le
      · exact hb x hx
    · rw [if_neg h]
      obtain ⟨hm, hb⟩ := ih a
      refine ⟨?_, ?_⟩
      · rcases List.mem_cons.mp hm with h1 | h1
        · show _ ∈ _; rw [show List.foldl _ a l = a from h1]; exact List.mem_cons_self
        · exact List.mem_cons_of_mem _ (List.mem_cons_of_mem _ h1)
      · intro x hx
        rcases List.mem_cons.mp hx with rfl | hx
        · exact hb _ List.mem_cons_self
        · rcases List.mem_cons.mp hx with rfl | hx
          · exact le_trans (hb a List.mem_cons_self) (not_lt.mp h)
          · exact hb x (List.mem_cons_of_mem _ hx)

/-! ### constant columns -/

theorem sumL_const {l : List α} {a : α} (hc : ∀ x ∈ l, x = a) : sumL l = (l.length : α) * a := by
  induction l with
  | nil => simp [sumL]
  | cons x l ih =>
    have hx : x = a := hc x List.mem_cons_self
    have := ih (fun y hy => hc y (List.mem_cons_of_mem _ hy))
    simp only [sumL, this, hx, List.length_cons, Nat.cast_succ]
    ring

theorem meanL_const {l : List α} {a : α} (h : l ≠ []) (hc : ∀ x ∈ l, x = a) : meanL l = a := by
  unfold meanL
  rw [sumL_const hc]
  field_simp [length_cast_ne_zero (α := α) h]

theorem varL_const {l : List α} {a : α} (h : l ≠ []) (hc : ∀ x ∈ l, x = a) : varL l = 0 := by
  unfold varL
  rw [meanL_const h hc]
  have hz : ∀ y ∈ l.map (fun x => (x - a) * (x - a)), y = 0 := by
    intro y hy
    obtain ⟨x, hx, rfl⟩ := List.mem_map.mp hy
    rw [hc x hx]; ring
  have hne : l.map (fun x => (x - a) * (x - a)) ≠ [] := by simpa using h
  exact meanL_const hne hz

/-! ### variance is a mean of squares -/

theorem sumL_nonneg {l : List α} (h : ∀ x ∈ l, 0 ≤ x) : 0 ≤ sumL l := by
  induction l with
  | nil => simp [sumL]
  | cons a l ih =>
    simp only [sumL]
    exact add_nonneg (h a List.mem_cons_self) (ih (fun x hx => h x (List.mem_cons_of_mem _ hx)))

theorem sumL_eq_zero {l : List α} (h : ∀ x ∈ l, 0 ≤ x) (h0 : sumL l = 0) : ∀ x ∈ l, x = 0 := by
  induction l with
  | nil => intro x hx; cases hx
  | cons a l ih =>
    simp only [sumL] at h0
    have ha := h a List.mem_cons_self
    have hl := sumL_nonneg (fun x hx => h x (List.mem_cons_of_mem _ hx))
    have ha0 : a = 0 := by linarith
    have hl0 : sumL l = 0 := by linarith
    intro x hx
    rcases List.mem_cons.mp hx with rfl | hx
    · exact ha0
    · exact ih (fun y hy => h y (List.mem_cons_of_mem _ hy)) hl0 x hx

theorem varL_nonneg (l : List α) : 0 ≤ varL l := by
  unfold varL meanL
  apply div_nonneg
  · apply sumL_nonneg
    intro y hy
    obtain ⟨x, _, rfl⟩ := List.mem_map.mp hy
    exact mul_self_nonneg _
  · exact Nat.cast_nonneg _

/-- variance 0 ⇒ every value equals the mean -/
theorem eq_mean_of_varL_eq_zero {l : List α} (h : l ≠ []) (hv : varL l = 0) : ∀ x ∈ l, x = meanL l := by
  unfold varL at hv
  have hn : ((List.map (fun x => (x - meanL l) * (x - meanL l)) l).length : α) ≠ 0 := by
    rw [List.length_map]; exact length_cast_ne_zero h
  have hs : sumL (List.map (fun x => (x - meanL l) * (x - meanL l)) l) = 0 := by
    unfold meanL at hv
    rcases div_eq_zero_iff.mp hv with h1 | h1
    · exact h1
    · exact absurd h1 hn
  have hz := sumL_eq_zero (l := List.map (fun x => (x - meanL l) * (x - meanL l)) l)
    (by intro y hy; obtain ⟨x, _, rfl⟩ := List.mem_map.mp hy; exact mul_self_nonneg _) hs
  intro x hx
  have := hz _ (List.mem_map.mpr ⟨x, hx, rfl⟩)
  have := mul_self_eq_zero.mp this
  linarith

/-- a list whose greatest and least element coincide is constant -/
theorem const_of_max_eq_min (a : α) (l : List α) (h : maxL a l = minL a l) : ∀ x ∈ a :: l, x = minL a l := by
  intro x hx
  have h1 := (maxL_spec a l).2 x hx
  have h2 := (minL_spec a l).2 x hx
  rw [h] at h1
  exact le_antisymm h1 h2

theorem max_eq_min_of_const (a : α) (l : List α) (v : α) (h : ∀ x ∈ a :: l, x = v) : maxL a l = minL a l := by
  have h1 := h _ (maxL_spec a l).1
  have h2 := h _ (minL_spec a l).1
  rw [h1, h2]

/-! ### `from_numpy` on one column in closed form -/

theorem present_isEmpty_iff (c : Col α) : (present c).isEmpty = true ↔ present c = [] :=
  List.isEmpty_iff

/-- greatest = least  ⇔  variance 0  (⇔ all values equal) -/
theorem min_eq_max_iff_varL_eq_zero (a : α) (l : List α) : minL a l = maxL a l ↔ varL (a :: l) = 0 := by
  constructor
  · intro h
    exact varL_const (List.cons_ne_nil _ _) (const_of_max_eq_min a l h.symm)
  · intro h
    exact (max_eq_min_of_const a l _ (eq_mean_of_varL_eq_zero (List.cons_ne_nil _ _) h)).symm

/-- the scale `from_numpy` stores for a trait whose observed values are `l` (closed form of `fitScale`):
    1 for a constant trait — WHATEVER `sq` is, this is the `const` guard of the fix of D26 —, else the
    deviation (1 if that evaluates to 0) -/
def scaleOf (sq : α → α) (l : List α) : α := if varL l = 0 then 1 else guardScale (sq (varL l))

theorem scaleOf_ne_zero (sq : α → α) (l : List α) : scaleOf sq l ≠ 0 := by
  unfold scaleOf
  split
  · exact one_ne_zero
  · exact guardScale_ne_zero _

theorem scaleOf_pos {sq : α → α} (hsq : ∀ x, 0 ≤ sq x) (l : List α) : 0 < scaleOf sq l := by
  unfold scaleOf
  split
  · exact one_pos
  · exact guardScale_pos (hsq _)

theorem scaleOf_of_var_zero (sq : α → α) {l : List α} (h : varL l = 0) : scaleOf sq l = 1 := by
  unfold scaleOf; rw [if_pos h]

theorem scaleOf_of_var_ne (sq : α → α) {l : List α} (h : varL l ≠ 0) :
    scaleOf sq l = guardScale (sq (varL l)) := by
  unfold scaleOf; rw [if_neg h]

theorem scaleOf_const (sq : α → α) {l : List α} {a : α} (h : l ≠ []) (hc : ∀ x ∈ l, x = a) : scaleOf sq l = 1 :=
  scaleOf_of_var_zero sq (varL_const h hc)

/-- with `sq 0 = 0` the guard of the fix is subsumed by `scale[scale == 0.0] = 1.0` -/
theorem scaleOf_eq_guardScale {sq : α → α} (h0 : sq 0 = 0) (l : List α) :
    scaleOf sq l = guardScale (sq (varL l)) := by
  unfold scaleOf
  split
  · rename_i h; rw [h, h0, guardScale_zero]
  · rfl

theorem isConstCol_of_nil {c : Col α} (h : present c = []) : isConstCol c = false := by
  unfold isConstCol fminReduce fmaxReduce
  rw [h]; rfl

theorem isConstCol_of_cons {c : Col α} {a : α} {l : List α} (h : present c = a :: l) :
    isConstCol c = decide (varL (a :: l) = 0) := by
  unfold isConstCol fminReduce fmaxReduce
  rw [h]
  simp only [oeq]
  exact decide_eq_decide.mpr (min_eq_max_iff_varL_eq_zero a l)

theorem fitLoc_of_nil {c : Col α} (h : present c = []) : fitLoc c = none := by
  unfold fitLoc nanmean
  rw [isConstCol_of_nil h, h]; rfl

theorem fitScale_of_nil (sq : α → α) {c : Col α} (h : present c = []) : fitScale sq c = none := by
  unfold fitScale nanstd nanvar
  rw [isConstCol_of_nil h, h]; rfl

/-- the stored location is the mean of the observed values (for a constant trait: the constant itself,
    read off the data, which IS its mean) -/
theorem fitLoc_of_ne {c : Col α} (h : present c ≠ []) : fitLoc c = some (meanL (present c)) := by
  cases hp : present c with
  | nil => exact absurd hp h
  | cons a l =>
    unfold fitLoc
    rw [isConstCol_of_cons hp]
    by_cases hv : varL (a :: l) = 0
    · simp only [hv, decide_true, if_true]
      unfold fminReduce
      rw [hp]
      have hall := const_of_max_eq_min a l ((min_eq_max_iff_varL_eq_zero a l).mpr hv).symm
      rw [meanL_const (List.cons_ne_nil _ _) hall]
    · simp only [hv, decide_false, Bool.false_eq_true, if_false]
      unfold nanmean
      rw [hp]; rfl

theorem fitScale_of_ne (sq : α → α) {c : Col α} (h : present c ≠ []) :
    fitScale sq c = some (scaleOf sq (present c)) := by
  cases hp : present c with
  | nil => exact absurd hp h
  | cons a l =>
    unfold fitScale
    rw [isConstCol_of_cons hp]
    by_cases hv : varL (a :: l) = 0
    · simp only [hv, decide_true, if_true]
      rw [scaleOf_of_var_zero sq hv]
    · simp only [hv, decide_false, Bool.false_eq_true, if_false]
      unfold nanstd nanvar
      rw [hp, scaleOf_of_var_ne sq hv]; rfl

/-- empty or all-NaN column: location, scale and every stored value are NaN -/
theorem fromNumpyCol_of_nil (sq : α → α) {c : Col α} (h : present c = []) :
    fromNumpyCol sq c = { mat := c, loc := none, scale := none } := by
  unfold fromNumpyCol
  rw [fitLoc_of_nil h, fitScale_of_nil sq h]
  dsimp only
  congr 1
  exact map_none_of_present_nil h _ (standardise_loc_none _ _)

/-- a column with at least one value -/
theorem fromNumpyCol_of_ne (sq : α → α) {c : Col α} (h : present c ≠ []) :
    fromNumpyCol sq c =
      { mat := c.map (standardise (some (meanL (present c))) (some (scaleOf sq (present c)))),
        loc := some (meanL (present c)),
        scale := some (scaleOf sq (present c)) } := by
  unfold fromNumpyCol
  rw [fitLoc_of_ne h, fitScale_of_ne sq h]

/-- the stored values of the present entries -/
theorem present_mat_fromNumpyCol (sq : α → α) {c : Col α} (h : present c ≠ []) :
    present (fromNumpyCol sq c).mat =
      (present c).map (stdFn (meanL (present c)) (scaleOf sq (present c))) := by
  rw [fromNumpyCol_of_ne sq h]
  exact present_map _ _ (standardise_none _ _) (standardise_some _ _)

/-- the code before the fix of D26, in closed form -/
theorem fromNumpyColPrerepair_of_nil (sq : α → α) {c : Col α} (h : present c = []) :
    fromNumpyColPrerepair sq c = { mat := c, loc := none, scale := none } := by
  unfold fromNumpyColPrerepair nanstd nanvar nanmean
  simp only [h, List.isEmpty_nil, if_true, Option.map_none]
  congr 1
  exact map_none_of_present_nil h _ (standardise_loc_none _ _)

theorem fromNumpyColPrerepair_of_ne (sq : α → α) {c : Col α} (h : present c ≠ []) :
    fromNumpyColPrerepair sq c =
      { mat := c.map (standardise (some (meanL (present c))) (some (guardScale (sq (varL (present c)))))),
        loc := some (meanL (present c)),
        scale := some (guardScale (sq (varL (present c)))) } := by
  have he : (present c).isEmpty = false := by
    cases hp : present c with
    | nil => exact absurd hp h
    | cons a l => rfl
  unfold fromNumpyColPrerepair nanstd nanvar nanmean
  simp only [he, Bool.false_eq_true, if_false, Option.map_some]

end field
end BVMat
