/-
Concrete objects of the eight persistable classes, used as non-vacuity witnesses and in the
counterexamples of Props/C16.
-/
import PybropsModel.Model.Store

namespace Store.Ex
open Store

/-- object of a class from the fields that are present (all others `None`) -/
def mkObj (sch : Schema) (vals : List (String × Item)) : Obj :=
  sch.fields.map (fun fd => (fd.key, (vals.lookup fd.key).getD .none))

def i8 (sh : List Nat) (v : List Int) : Item := .data ⟨.i8, sh, v, [], []⟩
def i64 (sh : List Nat) (v : List Int) : Item := .data ⟨.i64, sh, v, [], []⟩
def f64 (sh : List Nat) (v : List Rat) : Item := .data ⟨.f64, sh, [], v, []⟩
def strs (v : List String) : Item := .data ⟨.str, [v.length], [], [], v⟩
def bools (v : List Int) : Item := .data ⟨.bool, [v.length], v, [], []⟩

/-- dyadic rationals in normal form (no division to evaluate) -/
def half : Rat := ⟨1, 2, by decide, by decide⟩
def quarter : Rat := ⟨1, 4, by decide, by decide⟩
def q34 : Rat := ⟨3, 4, by decide, by decide⟩
def q32 : Rat := ⟨3, 2, by decide, by decide⟩
def q54 : Rat := ⟨5, 4, by decide, by decide⟩
def mhalf : Rat := ⟨-1, 2, by decide, by decide⟩

/-- a grouped phased genotype matrix with non-ASCII labels (2 phases × 2 taxa × 3 variants) -/
def pgRich : Obj := mkObj pgmatSchema
  [("mat", i8 [2, 2, 3] [0, 1, 0, 1, 1, 0, 1, 0, 0, 0, 1, 1]),
   ("taxa", strs ["βb", "tå"]), ("taxa_grp", i64 [2] [1, 2]),
   ("vrnt_chrgrp", i64 [3] [1, 1, 2]), ("vrnt_phypos", i64 [3] [10, 20, 5]),
   ("vrnt_name", strs ["m1", "m2", "m3"]), ("vrnt_genpos", f64 [3] [0, half, q34]),
   ("vrnt_mask", bools [1, 0, 1]), ("ploidy", .data (mkInt 2)),
   ("taxa_grp_name", i64 [2] [1, 2]), ("taxa_grp_stix", i64 [2] [0, 1]),
   ("taxa_grp_spix", i64 [2] [1, 2]), ("taxa_grp_len", i64 [2] [1, 1])]

/-- the same shape without any optional field -/
def pgPoor : Obj := mkObj pgmatSchema
  [("mat", i8 [2, 2, 3] [1, 1, 0, 0, 1, 0, 0, 1, 1, 1, 0, 0]), ("ploidy", .data (mkInt 2))]

/-- what `from_hdf5` returns after `pgRich` then `pgPoor` were written to one location: the data of
    the second with the labels and group metadata of the first -/
def pgStale : Obj := mkObj pgmatSchema
  [("mat", i8 [2, 2, 3] [1, 1, 0, 0, 1, 0, 0, 1, 1, 1, 0, 0]),
   ("taxa", strs ["βb", "tå"]), ("taxa_grp", i64 [2] [1, 2]),
   ("vrnt_chrgrp", i64 [3] [1, 1, 2]), ("vrnt_phypos", i64 [3] [10, 20, 5]),
   ("vrnt_name", strs ["m1", "m2", "m3"]), ("vrnt_genpos", f64 [3] [0, half, q34]),
   ("vrnt_mask", bools [1, 0, 1]), ("ploidy", .data (mkInt 2)),
   ("taxa_grp_name", i64 [2] [1, 2]), ("taxa_grp_stix", i64 [2] [0, 1]),
   ("taxa_grp_spix", i64 [2] [1, 2]), ("taxa_grp_len", i64 [2] [1, 1])]

def gmEx : Obj := mkObj gmatSchema
  [("mat", i8 [2, 3] [0, 1, 2, 2, 1, 0]), ("taxa", strs ["日本", "c c"]),
   ("vrnt_hapalt", strs ["A", "ÅT", "G"]), ("ploidy", .data (mkInt 4))]

def bvEx : Obj := mkObj bvmatSchema
  [("mat", f64 [2, 2] [1, mhalf, 3, q54]), ("location", f64 [2] [1, 2]), ("scale", f64 [2] [2, half]),
   ("taxa", strs ["a", "b"]), ("taxa_grp", i64 [2] [2, 1]), ("trait", strs ["yld", "hté"])]

def cmEx : Obj := mkObj cmatSchema
  [("mat", f64 [2, 2] [1, quarter, half, q32]), ("taxa", strs ["a", "b"]), ("taxa_grp", i64 [2] [1, 1])]

def vmEx : Obj := mkObj vmatSchema
  [("mat", f64 [2, 2, 1] [0, 1, 2, 3]), ("taxa", strs ["a", "b"]), ("trait", strs ["oil %"])]

def algEx : Obj := mkObj algSchema
  [("beta", f64 [1, 2] [1, 2]), ("u_misc", .data (emptyRows 2)), ("u_a", f64 [2, 2] [half, q32, 2, -1]),
   ("trait", strs ["yld", "hté"]), ("model_name", .data (mkStr "mödel")),
   ("hyperparams", .dict [("k", some (mkInt 5)), ("lam", some ⟨.f64, [], [], [quarter], []⟩)])]

/-- a model whose hyper-parameters contain a string (D18) -/
def algStr : Obj := mkObj algSchema
  [("beta", f64 [1, 2] [1, 2]), ("u_misc", .data (emptyRows 2)), ("u_a", f64 [2, 2] [half, q32, 2, -1]),
   ("model_name", .data (mkStr "")), ("hyperparams", .dict [("method", some (mkStr "ML"))])]

def adlgEx : Obj := mkObj adlgSchema
  [("beta", f64 [1, 1] [3]), ("u_misc", .data (emptyRows 1)), ("u_a", f64 [2, 1] [1, 2]),
   ("u_d", f64 [2, 1] [half, mhalf]), ("model_name", .data (mkStr "")), ("hyperparams", .dict [])]

def geEx : Obj := mkObj (geSchema 2)
  [("nenv", .data (mkInt 2)), ("nrep", i64 [2] [1, 3]), ("var_env", f64 [2] [half, 1]),
   ("var_rep", f64 [2] [0, 0]), ("var_err", f64 [2] [2, 2])]

/-- every field name is a leaf except `hyperparams` -/
def ty (k : String) : Bool := k == "hyperparams"

/-- base classes: a grouped taxa × variant matrix (2 × 3) with labels on both axes -/
def tvEx : Obj := mkObj tvmatSchema
  [("mat", f64 [2, 3] [1, mhalf, 3, q54, 0, 2]), ("taxa", strs ["βb", "tå"]), ("taxa_grp", i64 [2] [1, 2]),
   ("vrnt_chrgrp", i64 [3] [1, 1, 2]), ("vrnt_phypos", i64 [3] [10, 20, 5]), ("vrnt_name", strs ["m1", "m2", "m3"]),
   ("vrnt_mask", bools [1, 0, 1]),
   ("taxa_grp_name", i64 [2] [1, 2]), ("taxa_grp_stix", i64 [2] [0, 1]),
   ("taxa_grp_spix", i64 [2] [1, 2]), ("taxa_grp_len", i64 [2] [1, 1]),
   ("vrnt_chrgrp_name", i64 [2] [1, 2]), ("vrnt_chrgrp_stix", i64 [2] [0, 2]),
   ("vrnt_chrgrp_spix", i64 [2] [2, 3]), ("vrnt_chrgrp_len", i64 [2] [2, 1])]

/-- a progeny covariance matrix (1 × 1 taxa, 2 × 2 traits) and a bare matrix -/
def sq4Ex : Obj := mkObj sq4Schema
  [("mat", f64 [1, 1, 2, 2] [1, half, half, 2]), ("taxa", strs ["日本"]), ("trait", strs ["yld", "hté"])]

def dmEx : Obj := mkObj dmatSchema [("mat", f64 [2, 2] [1, 2, 3, 5])]

end Store.Ex
