/-
Helper lemmas for C13: the model's own outputs pass the Spec oracle (`Spec.specSumm`, `Spec.specCmatWith`).
-/
import PybropsModel.Lemmas.CoancestryPsd
import PybropsModel.Lemmas.CoancestryScale
import PybropsModel.Lemmas.CoancestrySumm
import PybropsModel.Lemmas.CoancestryAxis
import Mathlib.Tactic
set_option autoImplicit false
set_option linter.unusedSectionVars false

namespace Coancestry
open Finset Spec

/-! ### `matMul B B⁻¹` is the identity, as lists -/

theorem rect_identity (n : Nat) : Rect n n (identity n) := by
  refine ⟨by simp [identity], ?_⟩
  intro r hr
  simp only [identity, List.mem_map] at hr
  obtain ⟨i, _, rfl⟩ := hr
  simp

theorem entry_identity (n i j : Nat) (hi : i < n) (hj : j < n) :
    entry (identity n) i j = if i = j then 1 else 0 := by
  unfold identity entry
  rw [getD_map' _ (List.range n) i [] 0 (by simpa using hi)]
  rw [getD_map' _ (List.range n) j 0 0 (by simpa using hj)]
  simp [List.getD_eq_getElem?_getD, hi, hj]

theorem rect_mul (k : Nat) (A B : QM) : Rect A.length k (Coancestry.mul k A B) := by
  refine ⟨by simp [Coancestry.mul], ?_⟩
  intro r hr
  simp only [Coancestry.mul, List.mem_map] at hr
  obtain ⟨r', _, rfl⟩ := hr
  simp

theorem entry_mul (n : Nat) (A B : QM) (hA : Rect n n A) (hB : Rect n n B) (i j : Nat) (hi : i < n) (hj : j < n) :
    entry (Coancestry.mul n A B) i j = ∑ l ∈ range n, entry A i l * entry B l j := by
  unfold Coancestry.mul entry
  rw [getD_map' _ A i [] [] (hA.1 ▸ hi)]
  rw [getD_map' _ (List.range n) j 0 0 (by simpa using hj)]
  have hj' : (List.range n).getD j 0 = j := by simp [List.getD_eq_getElem?_getD, hj]
  rw [hj', dot_eq _ _ n (hA.row hi) (by simp [hB.1])]
  apply Finset.sum_congr rfl
  intro l hl
  have hl' := Finset.mem_range.mp hl
  rw [getD_map' _ B l 0 [] (hB.1 ▸ hl')]

theorem matMul_inverse (B Bi : QM) (n : Nat) (hB : Rect n n B) (h : inverse B = some Bi) :
    matMul B Bi = identity n := by
  obtain ⟨hBi, hr⟩ := inverse_isRightInverse B Bi n hB h
  unfold matMul
  by_cases hn : n = 0
  · subst hn
    have : B = [] := List.length_eq_zero_iff.mp hB.1
    subst this
    simp [Coancestry.mul, identity]
  · have hk : (Bi.headD []).length = n := by
      have hpos : 0 < Bi.length := by rw [hBi.1]; omega
      match Bi, hBi, hpos with
      | r :: rest, hBi, _ => simpa using hBi.2 r (by simp)
    rw [hk]
    apply rect_ext _ _ n n (hB.1 ▸ rect_mul n B Bi) (rect_identity n)
    intro i hi j hj
    rw [entry_mul n B Bi hB hBi i j hi hj, entry_identity n i j hi hj]
    exact hr i hi j hj

theorem isSquare_of_rect (n : Nat) (G : QM) (h : Rect n n G) : isSquare n G = true := by
  simp only [isSquare, Bool.and_eq_true, beq_iff_eq, List.all_eq_true]
  exact ⟨h.1, fun r hr => h.2 r hr⟩

theorem zip_self_all (l : List ℚ) (tol : ℚ) (h : 0 ≤ tol) :
    (List.zip l l).all (fun ab => decide (absR (ab.1 - ab.2) ≤ tol)) = true := by
  simp only [List.all_eq_true, decide_eq_true_eq]
  intro ab hab
  have : ab.1 = ab.2 := by
    obtain ⟨i, hi, rfl⟩ := List.mem_iff_getElem.mp hab
    simp
  rw [this, sub_self, absR_zero]
  exact h

/-! ### column means of the kinship view -/
section meancols
variable {α : Type} [Field α] [LinearOrder α] [IsStrictOrderedRing α]

theorem getD_map_half (r : List α) (k : Nat) :
    (r.map (fun x => half * x)).getD k 0 = half * r.getD k 0 := by
  by_cases hk : k < r.length
  · exact getD_map' _ r k 0 0 hk
  · simp [List.getD_eq_getElem?_getD, List.getElem?_eq_none (Nat.le_of_not_lt hk)]

theorem meanCols_half (G : List (List α)) :
    meanCols (mapMat (fun x => half * x) G) = (meanCols G).map (fun x => half * x) := by
  unfold meanCols colSums mapMat
  simp only [List.length_map, List.map_map]
  apply List.map_congr_left
  intro k _
  simp only [Function.comp]
  have : ((fun r : List α => r.getD k 0) ∘ fun r => List.map (fun x => half * x) r)
      = (fun x => half * x) ∘ (fun r : List α => r.getD k 0) := by
    funext r; exact getD_map_half r k
  rw [this, ← List.map_map, npsum_map_half]
  ring

theorem mapMat_half_eq_div (G : List (List α)) : mapMat (fun x => half * x) G = mapMat (fun x => x / 2) G := by
  apply mapMat_congr
  intro r _ x _
  unfold half
  ring

end meancols

/-! ### the summaries -/

/-- every check of `specSumm` passes once the observed values are the exact ones on the view `B` -/
theorem specSumm_ok_of (kin : Bool) (A : QM) (s : SummObs) (tag : String) (sym : Bool) (n : Nat)
    (hBrect : Rect n n (if kin then mapMat (fun x => x / 2) A else A))
    (hview : s.view = (if kin then mapMat (fun x => x / 2) A else A))
    (hmax : some s.mxA = maxAll (if kin then mapMat (fun x => x / 2) A else A))
    (hmaxR : some s.mxR = maxRows (if kin then mapMat (fun x => x / 2) A else A))
    (hmaxC : some s.mxC = maxCols (if kin then mapMat (fun x => x / 2) A else A))
    (hmin : some s.mnA = minAll (if kin then mapMat (fun x => x / 2) A else A))
    (hminR : some s.mnR = minRows (if kin then mapMat (fun x => x / 2) A else A))
    (hminC : some s.mnC = minCols (if kin then mapMat (fun x => x / 2) A else A))
    (hmeA : s.meA = meanAll (if kin then mapMat (fun x => x / 2) A else A))
    (hmeR : s.meR = meanRows (if kin then mapMat (fun x => x / 2) A else A))
    (hmeC : s.meC = meanCols (if kin then mapMat (fun x => x / 2) A else A))
    (hmib : some s.mib = maxInbreeding (if kin then mapMat (fun x => x / 2) A else A))
    (hinv : ∀ Bi, inverse (if kin then mapMat (fun x => x / 2) A else A) = some Bi →
      (if kin then mapMat (fun x => x / 2) A else A).length ≤ invMaxN →
      s.inv = some Bi ∧ s.minInb = some (1 / sumAll Bi))
    (hpsd : s.isPsd = none) (htol : s.psdTol = []) :
    (specSumm kin A s tag sym).all (fun c => c.ok) = true := by
  unfold specSumm
  set B := (if kin then mapMat (fun x => x / 2) A else A) with hB
  have habs : (0 : ℚ) ≤ maxAbs A / 100000000000 := div_nonneg (maxAbs_nonneg A) (by norm_num)
  simp only [List.all_append, List.all_cons, List.all_nil, Bool.and_true, Bool.and_eq_true]
  refine ⟨⟨⟨?_, ?_, ?_, ?_, ?_⟩, ?_⟩, ?_⟩
  · rw [hview]; simp
  · rw [hmax, hmaxR, hmaxC]; simp
  · rw [hmin, hminR, hminC]; simp
  · rw [hmeA, hmeR, hmeC, closeR_self _ _ _ habs, closeL_self _ _ _ habs, closeL_self _ _ _ habs]; simp
  · rw [hmib]; simp
  · -- inverse and minimum inbreeding
    split
    · simp
    · rename_i Bi heq
      have hle : B.length ≤ invMaxN := by
        by_contra hcon
        rw [if_neg hcon] at heq
        cases heq
      rw [if_pos hle] at heq
      obtain ⟨hsi, hsm⟩ := hinv Bi heq hle
      obtain ⟨hBi, _⟩ := inverse_isRightInverse B Bi n hBrect heq
      split
      · simp only [List.all_append, List.all_cons, List.all_nil, Bool.and_true, Bool.and_eq_true]
        constructor
        · rw [hsi]
          simp only [Bool.and_eq_true]
          refine ⟨⟨?_, ?_⟩, ?_⟩
          · rw [hBrect.1]; exact isSquare_of_rect n Bi hBi
          · exact zip_self_all _ _ (div_nonneg (maxAbs_nonneg Bi) (by norm_num))
          · rw [matMul_inverse B Bi n hBrect heq, hBrect.1]
            exact closeM_self _ _ _ (by norm_num)
        · split
          · simp only [List.all_cons, List.all_nil, Bool.and_true]
            rw [hsm]
            exact closeR_self _ _ _ le_rfl
          · simp
      · simp
  · -- is_positive_semidefinite: the model has no eigen-solver verdict to offer
    split
    · rw [hpsd, htol]; simp
    · simp

/-! ### a freshly built matrix -/

theorem entry_tabulate (n : Nat) (f : Nat → Nat → ℚ) (i j : Nat) (hi : i < n) (hj : j < n) :
    entry ((List.range n).map (fun i => (List.range n).map (fun j => f i j))) i j = f i j := by
  unfold entry
  rw [getD_map' _ (List.range n) i [] 0 (by simpa using hi)]
  rw [getD_map' _ (List.range n) j 0 0 (by simpa using hj)]
  simp [List.getD_eq_getElem?_getD, hi, hj]

theorem rect_tabulate (n : Nat) (f : Nat → Nat → ℚ) :
    Rect n n ((List.range n).map (fun i => (List.range n).map (fun j => f i j))) := by
  refine ⟨by simp, ?_⟩
  intro r hr
  simp only [List.mem_map] at hr
  obtain ⟨i, _, rfl⟩ := hr
  simp

/-- every check of `specCmatWith` passes on the model's object when its matrix is the formula matrix, symmetric
    and positive semidefinite, and the selections agree exactly -/
theorem specCmatWith_ok_of (n : Nat) (F G : QM) (lab : Labels) (sel : Option SelObs) (hG : Rect n n G) (hF : G = F)
    (hsym : ∀ i < n, ∀ j < n, entry G i j = entry G j i) (hpsd : ∀ v : Nat → ℚ, 0 ≤ quad n G v)
    (hsel : ∀ s, sel = some s → s.Ga = selectSq s.is G ∧ s.Gb = selectSq s.is G ∧
      s.ta = lab.taxa.map (Np.take s.is) ∧ s.tb = s.ta ∧ s.ga = lab.taxaGrp.map (Np.take s.is) ∧ s.gb = s.ga) :
    (specCmatWith n F lab (cmatOfModel n G lab) sel).all (fun c => c.ok) = true := by
  subst hF
  unfold specCmatWith cmatOfModel
  have hsc : (0 : ℚ) ≤ maxAbs G := maxAbs_nonneg G
  simp only [List.all_append, List.all_cons, List.all_nil, Bool.and_true, Bool.and_eq_true]
  refine ⟨⟨?_, ?_, ?_, ?_, ?_, ?_, ?_, ?_, ?_, ?_⟩, ?_⟩
  · exact isSquare_of_rect n G hG
  · exact closeM_self _ _ _ (div_nonneg hsc (by norm_num))
  · simp [asFormat]
  · have : asFormat true G = mapMat (fun x => x / 2) G := by
      show mapMat (fun x => half * x) G = _
      exact mapMat_half_eq_div G
    rw [this]; simp
  · rw [List.all_flatMap]
    simp only [List.all_eq_true, List.mem_range, List.all_map, Function.comp]
    intro i _ j _
    simp only [List.getD_cons_zero, List.getD_cons_succ, Rat.num_natCast, Int.toNat_natCast, coancestryAt, kinshipAt,
      Bool.and_eq_true, beq_iff_eq, true_and]
    unfold half
    ring
  · simp only [List.all_eq_true, List.mem_range, decide_eq_true_eq]
    intro i hi j hj
    rw [hsym i hi j hj, sub_self, absR_zero]
    exact div_nonneg hsc (by norm_num)
  · rw [Bool.or_eq_true]
    right
    apply psdShift_complete _ G n hG
    intro v
    exact add_nonneg (hpsd v) (mul_nonneg (div_nonneg hsc (by norm_num)) (Finset.sum_nonneg (fun i _ => sq_nonneg _)))
  · simp
  · simp
  · simp
  · cases sel with
    | none => simp
    | some s =>
      obtain ⟨h1, h2, h3, h4, h5, h6⟩ := hsel s rfl
      simp only [List.all_cons, List.all_nil, Bool.and_true, Bool.and_eq_true]
      refine ⟨⟨?_, ?_⟩, ?_⟩
      · rw [h1]; exact closeM_self _ _ _ (div_nonneg hsc (by norm_num))
      · rw [h2]; exact closeM_self _ _ _ (div_nonneg hsc (by norm_num))
      · rw [h4, h6, h3, h5]; simp

end Coancestry
