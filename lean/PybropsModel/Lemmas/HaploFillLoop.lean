/-
Helper lemmas for C18 (18): the fill loop of `haplomat` / `_calc_haplomat` transcribed literally
(`fillLoop`, `hmatFibreLoop`, Model/Haplo.lean §4) equals the closed form `hmatFibre`; it raises exactly when
there are more blocks than columns.
-/
import Mathlib.Tactic
import PybropsModel.Lemmas.HaploPipeline
set_option autoImplicit false
set_option linter.unusedSectionVars false

namespace Haplo



section
variable {α : Type} [Field α] [LinearOrder α] [IsStrictOrderedRing α]

theorem fillLoop_inv (g u : List α) (n : Nat) :
    ∀ (rest : List (Nat × Nat)) (pre : List α), pre.length + rest.length ≤ n →
      fillLoop g u rest pre.length (pre.map some ++ List.replicate (n - pre.length) none) =
        some ((pre ++ rest.map (blockVal g u)).map some ++
          List.replicate (n - (pre.length + rest.length)) none) := by
  intro rest
  induction rest with
  | nil => intro pre _; simp [fillLoop]
  | cons b rest ih =>
    intro pre hlen
    simp only [List.length_cons] at hlen
    have hlt : pre.length < (pre.map some ++ List.replicate (n - pre.length) (none : Option α)).length := by
      simp only [List.length_append, List.length_map, List.length_replicate]; omega
    simp only [fillLoop, setCell, hlt, if_true]
    have hset : (pre.map some ++ List.replicate (n - pre.length) (none : Option α)).set pre.length (some (blockVal g u b))
        = (pre ++ [blockVal g u b]).map some ++ List.replicate (n - (pre.length + 1)) none := by
      have e : n - pre.length = (n - (pre.length + 1)) + 1 := by omega
      rw [e, List.replicate_succ]
      rw [List.set_append_right _ _ (by simp)]
      simp
    rw [hset]
    have := ih (pre ++ [blockVal g u b]) (by simp only [List.length_append, List.length_singleton]; omega)
    simp only [List.length_append, List.length_singleton] at this
    rw [this]
    simp only [List.map_cons, List.append_assoc, List.singleton_append, List.length_cons]
    congr 3
    omega

/-- **the literal fill loop = the closed form `hmatFibre`** whenever the blocks fit into the columns … -/
theorem hmatFibreLoop_eq (n : Nat) (bnds : List (Nat × Nat)) (g u : List α) (h : bnds.length ≤ n) :
    hmatFibreLoop n bnds g u = some (hmatFibre n bnds g u) := by
  have := fillLoop_inv g u n bnds [] (by simpa using h)
  simpa [hmatFibreLoop, hmatFibre] using this

/-- … and raises (IndexError) as soon as there are more blocks than columns -/
theorem hmatFibreLoop_overflow (n : Nat) (bnds : List (Nat × Nat)) (g u : List α) (h : n < bnds.length) :
    hmatFibreLoop n bnds g u = none := by
  -- split the blocks into the first `n` and the rest
  have hsplit : bnds = bnds.take n ++ bnds.drop n := (List.take_append_drop n bnds).symm
  have hgen : ∀ (r1 r2 : List (Nat × Nat)) (pre : List α), pre.length + r1.length = n → r2 ≠ [] →
      fillLoop g u (r1 ++ r2) pre.length (pre.map some ++ List.replicate (n - pre.length) none) = none := by
    intro r1
    induction r1 with
    | nil =>
      intro r2 pre hl hne
      cases r2 with
      | nil => exact absurd rfl hne
      | cons b r2 =>
        have : ¬ pre.length < (pre.map some ++ List.replicate (n - pre.length) (none : Option α)).length := by
          simp only [List.length_append, List.length_map, List.length_replicate, List.length_nil] at hl ⊢; omega
        simp only [List.nil_append, fillLoop, setCell, this, if_false]
    | cons b r1 ih =>
      intro r2 pre hl hne
      simp only [List.length_cons] at hl
      have hlt : pre.length < (pre.map some ++ List.replicate (n - pre.length) (none : Option α)).length := by
        simp only [List.length_append, List.length_map, List.length_replicate]; omega
      simp only [List.cons_append, fillLoop, setCell, hlt, if_true]
      have hset : (pre.map some ++ List.replicate (n - pre.length) (none : Option α)).set pre.length (some (blockVal g u b))
          = (pre ++ [blockVal g u b]).map some ++ List.replicate (n - (pre.length + 1)) none := by
        have e : n - pre.length = (n - (pre.length + 1)) + 1 := by omega
        rw [e, List.replicate_succ]
        rw [List.set_append_right _ _ (by simp)]
        simp
      rw [hset]
      have := ih r2 (pre ++ [blockVal g u b]) (by simp only [List.length_append, List.length_singleton]; omega) hne
      simpa only [List.length_append, List.length_singleton] using this
  have hne : bnds.drop n ≠ [] := by
    intro h0
    have := congrArg List.length h0
    simp at this; omega
  have := hgen (bnds.take n) (bnds.drop n) [] (by simp; omega) hne
  rw [← hsplit] at this
  simpa [hmatFibreLoop] using this

theorem allSome_map_of_forall {β γ : Type} (l : List β) (f : β → Option γ) (g : β → γ)
    (h : ∀ x ∈ l, f x = some (g x)) : allSome (l.map f) = some (l.map g) := by
  induction l with
  | nil => rfl
  | cons a t ih =>
    simp only [List.map_cons, h a List.mem_cons_self, allSome,
      ih (fun x hx => h x (List.mem_cons_of_mem _ hx)), Option.map_some]

/-- the whole matrix through the transcribed loop is the closed-form `haplomat` whenever the blocks fit -/
theorem haplomatLoop_eq (n : Nat) (bnds : List (Nat × Nat)) (geno : List (List (List α)))
    (ucols : List (List α)) (h : bnds.length ≤ n) :
    haplomatLoop n bnds geno ucols = .ok (haplomat n bnds geno ucols) := by
  unfold haplomatLoop haplomat
  have h1 : ∀ g : List α, allSome (ucols.map (fun u => hmatFibreLoop n bnds g u)) =
      some (ucols.map (fun u => hmatFibre n bnds g u)) :=
    fun g => allSome_map_of_forall ucols _ _ (fun u _ => hmatFibreLoop_eq n bnds g u h)
  have h2 : ∀ gm : List (List α),
      allSome (gm.map (fun g => allSome (ucols.map (fun u => hmatFibreLoop n bnds g u)))) =
      some (gm.map (fun g => ucols.map (fun u => hmatFibre n bnds g u))) :=
    fun gm => allSome_map_of_forall gm _ _ (fun g _ => h1 g)
  rw [allSome_map_of_forall geno _ _ (fun gm _ => h2 gm)]
end
end Haplo
