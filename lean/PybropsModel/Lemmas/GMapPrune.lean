/-
Helper lemmas for C11: `ExtendedGeneticMap.prune`.  Whatever the outcome of its float comparisons, the
index array it hands to `select` is strictly increasing, stays inside the map and contains the first and the
last marker of every chromosome — so pruning returns a sub-map with the same chromosomes and the same
physical / genetic range on each.
-/
import Mathlib.Tactic
import PybropsModel.Model.GMap
set_option autoImplicit false
set_option linter.unusedSectionVars false

namespace GMap

/-- reversed index list: strictly decreasing (head = `indices[-1]` is the largest), all below `b` -/
def RevInc (acc : List Nat) (b : Nat) : Prop := acc.Pairwise (· > ·) ∧ ∀ x ∈ acc, x < b

theorem RevInc.mono {acc : List Nat} {b b' : Nat} (h : RevInc acc b) (hb : b ≤ b') : RevInc acc b' :=
  ⟨h.1, fun x hx => lt_of_lt_of_le (h.2 x hx) hb⟩

theorem revInc_cons {acc : List Nat} {b : Nat} (h : RevInc acc b) : RevInc (b :: acc) (b + 1) :=
  ⟨List.pairwise_cons.mpr ⟨fun x hx => h.2 x hx, h.1⟩, fun x hx => by
    rcases List.mem_cons.mp hx with rfl | hx
    · omega
    · have := h.2 x hx; omega⟩

theorem subset_pushNew (ix : Nat) (acc : List Nat) : ∀ x ∈ acc, x ∈ pushNew ix acc := by
  intro x hx
  unfold pushNew
  split
  · exact hx
  · exact List.mem_cons_of_mem _ hx

theorem mem_pushNew (ix : Nat) (acc : List Nat) : ix ∈ pushNew ix acc := by
  unfold pushNew
  split
  · rename_i h
    cases acc with
    | nil => simp at h
    | cons a t => simp at h; simp [h]
  · simp

/-- pushing `ix ∈ {i-1, i}` onto a list of indices below `i` -/
theorem revInc_pushNew {acc : List Nat} {i ix : Nat} (h : RevInc acc i) (hi : 1 ≤ i)
    (hix : ix = i - 1 ∨ ix = i) : RevInc (pushNew ix acc) (i + 1) := by
  unfold pushNew
  split
  · exact h.mono (by omega)
  · rename_i hne
    refine ⟨List.pairwise_cons.mpr ⟨?_, h.1⟩, ?_⟩
    · intro x hx
      have hxi := h.2 x hx
      rcases hix with rfl | rfl
      · -- ix = i - 1: the head (largest element) is not i - 1, hence everything is smaller
        cases acc with
        | nil => simp at hx
        | cons a t =>
          have ha : a < i := h.2 a (by simp)
          have hna : a ≠ i - 1 := by
            intro e; apply hne; simp [e]
          rcases List.mem_cons.mp hx with rfl | hx'
          · show i - 1 > x; omega
          · have := (List.pairwise_cons.mp h.1).1 x hx'
            show i - 1 > x; omega
      · show ix > x; omega
    · intro x hx
      rcases List.mem_cons.mp hx with rfl | hx
      · rcases hix with rfl | rfl <;> omega
      · have := h.2 x hx; omega

section loop
variable {α : Type} [Add α] [Sub α] [Div α] [LT α] [DecidableLT α] [LE α] [DecidableLE α] [HasCeil α]

theorem pruneLoop_spec (pos : Nat → α) (step : α) : ∀ (fuel i : Nat) (target : α) (acc : List Nat),
    1 ≤ i → RevInc acc i →
    RevInc (pruneLoop pos step fuel i target acc) (i + fuel) ∧
      ∀ x ∈ acc, x ∈ pruneLoop pos step fuel i target acc
  | 0, i, _, acc, _, h => ⟨by simpa [pruneLoop] using h, fun x hx => by simpa [pruneLoop] using hx⟩
  | fuel + 1, i, target, acc, hi, h => by
    unfold pruneLoop
    split
    · have hp := revInc_pushNew (ix := if target - pos (i - 1) < pos i - target then i - 1 else i) h hi
        (by split <;> simp)
      obtain ⟨h1, h2⟩ := pruneLoop_spec pos step fuel (i + 1) (target + step) _ (by omega) hp
      refine ⟨by rw [show i + (fuel + 1) = i + 1 + fuel by omega]; exact h1, ?_⟩
      intro x hx
      exact h2 x (subset_pushNew _ _ x hx)
    · obtain ⟨h1, h2⟩ := pruneLoop_spec pos step fuel (i + 1) target acc (by omega) (h.mono (by omega))
      exact ⟨by rw [show i + (fuel + 1) = i + 1 + fuel by omega]; exact h1, h2⟩

/-- one chromosome `[st, sp)` of the first pass -/
theorem pruneRun_spec (pos : Nat → α) (spacing : α) (acc : List Nat) (st sp : Nat) (hlt : st < sp)
    (h : RevInc acc st) :
    RevInc (pruneRun pos spacing acc (st, sp)) sp ∧ st ∈ pruneRun pos spacing acc (st, sp) ∧
      sp - 1 ∈ pruneRun pos spacing acc (st, sp) ∧ ∀ x ∈ acc, x ∈ pruneRun pos spacing acc (st, sp) := by
  unfold pruneRun
  simp only
  set step := pruneStep (pos (sp - 1) - pos st) spacing
  obtain ⟨h1, h2⟩ := pruneLoop_spec pos step (sp - (st + 1)) (st + 1) (pos st + step) (st :: acc) (by omega)
    (revInc_cons h)
  have hb : st + 1 + (sp - (st + 1)) = sp := by omega
  rw [hb] at h1
  have h3 : RevInc (pushNew (sp - 1) (pruneLoop pos step (sp - (st + 1)) (st + 1) (pos st + step) (st :: acc)))
      (sp - 1 + 1 + 0) := by
    -- elements are < sp, i.e. ≤ sp - 1: push `sp - 1` as `i` with `i = sp - 1`… use the generic lemma at i = sp
    unfold pushNew
    split
    · exact h1.mono (by omega)
    · rename_i hne
      refine ⟨List.pairwise_cons.mpr ⟨?_, h1.1⟩, ?_⟩
      · intro x hx
        set L := pruneLoop pos step (sp - (st + 1)) (st + 1) (pos st + step) (st :: acc) with hL
        cases hLc : L with
        | nil => rw [hLc] at hx; simp at hx
        | cons a t =>
          rw [hLc] at hx hne h1
          have ha : a < sp := h1.2 a (by simp)
          have hna : a ≠ sp - 1 := by intro e; apply hne; simp [e]
          rcases List.mem_cons.mp hx with rfl | hx'
          · show sp - 1 > x; omega
          · have := (List.pairwise_cons.mp h1.1).1 x hx'
            show sp - 1 > x; omega
      · intro x hx
        rcases List.mem_cons.mp hx with rfl | hx
        · omega
        · have := h1.2 x hx; omega
  refine ⟨h3.mono (by omega), ?_, mem_pushNew _ _, ?_⟩
  · exact subset_pushNew _ _ _ (h2 st (by simp))
  · intro x hx
    exact subset_pushNew _ _ _ (h2 x (List.mem_cons_of_mem _ hx))

/-- the (stix, spix) table of a grouped map: consecutive non-empty runs starting at `b0` ending at `n` -/
def RunsChain : List (Nat × Nat) → Nat → Nat → Prop
  | [], b0, n => b0 = n
  | r :: rs, b0, n => r.1 = b0 ∧ r.1 < r.2 ∧ RunsChain rs r.2 n

theorem foldl_pruneRun_spec (pos : Nat → α) (spacing : α) : ∀ (runs : List (Nat × Nat)) (b0 n : Nat)
    (acc : List Nat), RunsChain runs b0 n → RevInc acc b0 →
    RevInc (runs.foldl (pruneRun pos spacing) acc) n ∧
      (∀ x ∈ acc, x ∈ runs.foldl (pruneRun pos spacing) acc) ∧
      ∀ r ∈ runs, r.1 ∈ runs.foldl (pruneRun pos spacing) acc ∧ r.2 - 1 ∈ runs.foldl (pruneRun pos spacing) acc
  | [], b0, n, acc, hc, h => by
    have : b0 = n := hc
    subst this
    exact ⟨h, fun x hx => hx, fun r hr => by simp at hr⟩
  | r :: rs, b0, n, acc, hc, h => by
    obtain ⟨hb, hlt, hrest⟩ := hc
    obtain ⟨st, sp⟩ := r
    simp only at hb hlt hrest
    subst hb
    obtain ⟨g1, g2, g3, g4⟩ := pruneRun_spec pos spacing acc st sp hlt h
    obtain ⟨k1, k2, k3⟩ := foldl_pruneRun_spec pos spacing rs sp n _ hrest g1
    simp only [List.foldl_cons]
    refine ⟨k1, fun x hx => k2 x (g4 x hx), ?_⟩
    intro r hr
    rcases List.mem_cons.mp hr with rfl | hr
    · exact ⟨k2 _ g2, k2 _ g3⟩
    · exact k3 r hr

/-- **first pass** (`nt` only or `M` only): strictly increasing indices inside the map, containing the
    first and the last marker of every chromosome -/
theorem prunePass1_spec (pos : Nat → α) (spacing : α) (runs : List (Nat × Nat)) (n : Nat)
    (hc : RunsChain runs 0 n) :
    (prunePass1 pos spacing runs).Pairwise (· < ·) ∧ (∀ x ∈ prunePass1 pos spacing runs, x < n) ∧
      ∀ r ∈ runs, r.1 ∈ prunePass1 pos spacing runs ∧ r.2 - 1 ∈ prunePass1 pos spacing runs := by
  obtain ⟨h1, _, h3⟩ := foldl_pruneRun_spec pos spacing runs 0 n [] hc ⟨List.Pairwise.nil, by simp⟩
  unfold prunePass1
  refine ⟨?_, ?_, ?_⟩
  · rw [List.pairwise_reverse]; exact h1.1
  · intro x hx; exact h1.2 x (List.mem_reverse.mp hx)
  · intro r hr
    obtain ⟨a, b⟩ := h3 r hr
    exact ⟨List.mem_reverse.mpr a, List.mem_reverse.mpr b⟩

/-! ### second pass -/

theorem prunePair_spec (chr : Nat → Int) (phy : Nat → α) (nt : α) (acc : List Nat) (up down : Nat)
    (hlt : up < down) (h : RevInc acc up) :
    RevInc (prunePair chr phy nt acc (up, down)) down ∧ up ∈ prunePair chr phy nt acc (up, down) ∧
      ∀ x ∈ acc, x ∈ prunePair chr phy nt acc (up, down) := by
  unfold prunePair
  simp only
  have hc := revInc_cons h
  split
  · split
    · obtain ⟨h1, h2⟩ := pruneLoop_spec phy (pruneStep (phy down - phy up) nt) (down - (up + 1)) (up + 1)
        (phy up + pruneStep (phy down - phy up) nt) (up :: acc) (by omega) hc
      rw [show up + 1 + (down - (up + 1)) = down by omega] at h1
      exact ⟨h1, h2 up (by simp), fun x hx => h2 x (List.mem_cons_of_mem _ hx)⟩
    · exact ⟨hc.mono (by omega), by simp, fun x hx => List.mem_cons_of_mem _ hx⟩
  · exact ⟨hc.mono (by omega), by simp, fun x hx => List.mem_cons_of_mem _ hx⟩

/-- consecutive pairs of a strictly increasing list, folded -/
theorem foldl_prunePair_spec (chr : Nat → Int) (phy : Nat → α) (nt : α) : ∀ (l : List Nat) (a : Nat)
    (acc : List Nat), (a :: l).Pairwise (· < ·) → RevInc acc a →
    RevInc (((a :: l).zip l).foldl (prunePair chr phy nt) acc) ((a :: l).getLast (by simp)) ∧
      (∀ x ∈ acc, x ∈ ((a :: l).zip l).foldl (prunePair chr phy nt) acc) ∧
      ∀ x ∈ (a :: l).dropLast, x ∈ ((a :: l).zip l).foldl (prunePair chr phy nt) acc
  | [], a, acc, _, h => by
    refine ⟨by simpa using h, fun x hx => by simpa using hx, fun x hx => by simp at hx⟩
  | b :: l, a, acc, hp, h => by
    obtain ⟨ha, hp'⟩ := List.pairwise_cons.mp hp
    have hab : a < b := ha b (by simp)
    obtain ⟨g1, g2, g3⟩ := prunePair_spec chr phy nt acc a b hab h
    obtain ⟨k1, k2, k3⟩ := foldl_prunePair_spec chr phy nt l b _ hp' g1
    simp only [List.zip_cons_cons, List.foldl_cons]
    refine ⟨by simpa [List.getLast_cons] using k1, fun x hx => k2 x (g3 x hx), ?_⟩
    intro x hx
    rw [List.dropLast_cons_cons] at hx
    rcases List.mem_cons.mp hx with rfl | hx
    · exact k2 _ g2
    · exact k3 x hx

/-- **second pass**: still strictly increasing, inside the map, and it keeps every index of the first pass -/
theorem prunePass2_spec (chr : Nat → Int) (phy : Nat → α) (nt : α) (indices : List Nat) (n : Nat)
    (hp : indices.Pairwise (· < ·)) (hn : ∀ x ∈ indices, x < n) :
    (prunePass2 chr phy nt indices).Pairwise (· < ·) ∧ (∀ x ∈ prunePass2 chr phy nt indices, x < n) ∧
      ∀ x ∈ indices, x ∈ prunePass2 chr phy nt indices := by
  cases indices with
  | nil => simp [prunePass2]
  | cons a l =>
    obtain ⟨k1, _, k3⟩ := foldl_prunePair_spec chr phy nt l a [] hp ⟨List.Pairwise.nil, by simp⟩
    have hlast : (a :: l).getLast? = some ((a :: l).getLast (by simp)) := List.getLast?_eq_some_getLast (by simp)
    unfold prunePass2
    rw [hlast]
    simp only [List.tail_cons]
    set last := (a :: l).getLast (by simp) with hl
    set F := ((a :: l).zip l).foldl (prunePair chr phy nt) [] with hF
    have hlastmem : last ∈ a :: l := List.getLast_mem _
    refine ⟨?_, ?_, ?_⟩
    · rw [List.pairwise_reverse]
      exact List.pairwise_cons.mpr ⟨fun x hx => k1.2 x hx, k1.1⟩
    · intro x hx
      rcases List.mem_cons.mp (List.mem_reverse.mp hx) with rfl | hx'
      · exact hn _ hlastmem
      · exact lt_trans (k1.2 x hx') (hn _ hlastmem)
    · intro x hx
      apply List.mem_reverse.mpr
      by_cases hxl : x = last
      · simp [hxl]
      · have : x ∈ (a :: l).dropLast := by
          have hsplit := List.dropLast_append_getLast (l := a :: l) (by simp)
          rw [← hsplit] at hx
          rcases List.mem_append.mp hx with h | h
          · exact h
          · simp at h; exact absurd h hxl
        exact List.mem_cons_of_mem _ (k3 x this)

end loop

/-! ### the (stix, spix) table of `group()` is a chain of non-empty runs covering the arrays -/

/-- accumulator of `Np.uniqueRuns.go` (most recent run first): runs end where the next begins, the most
    recent one ends at `i` -/
def RevRuns : List (Int × Nat × Nat) → Nat → Prop
  | [], i => i = 0
  | r :: acc, i => r.2.1 + r.2.2 = i ∧ 1 ≤ r.2.2 ∧ RevRuns acc r.2.1

def toRuns (l : List (Int × Nat × Nat)) : List (Nat × Nat) := l.map fun r => (r.2.1, r.2.1 + r.2.2)

theorem runsChain_append_of_revRuns : ∀ (acc : List (Int × Nat × Nat)) (i n : Nat) (tail : List (Nat × Nat)),
    RevRuns acc i → RunsChain tail i n → RunsChain (toRuns acc.reverse ++ tail) 0 n
  | [], i, n, tail, h, ht => by
    have : i = 0 := h
    subst this
    simpa [toRuns] using ht
  | r :: acc, i, n, tail, h, ht => by
    obtain ⟨h1, h2, h3⟩ := h
    have := runsChain_append_of_revRuns acc r.2.1 n ((r.2.1, r.2.1 + r.2.2) :: tail) h3
      ⟨rfl, by simp only; omega, by simp only; rw [h1]; exact ht⟩
    simpa [toRuns, List.map_append] using this

theorem uniqueRuns_go_chain : ∀ (l : List Int) (i : Nat) (acc : List (Int × Nat × Nat)),
    RevRuns acc i → RunsChain (toRuns (Np.uniqueRuns.go i l acc)) 0 (i + l.length)
  | [], i, acc, h => by
    unfold Np.uniqueRuns.go
    have := runsChain_append_of_revRuns acc i i [] h rfl
    simpa using this
  | a :: as, i, [], h => by
    unfold Np.uniqueRuns.go
    have hi : i = 0 := h
    have := uniqueRuns_go_chain as (i + 1) [(a, i, 1)] ⟨rfl, le_refl 1, hi⟩
    simpa [Nat.add_assoc, Nat.add_comm 1] using this
  | a :: as, i, (v, st, n) :: acc, h => by
    unfold Np.uniqueRuns.go
    obtain ⟨h1, h2, h3⟩ := h
    simp only at h1 h2 h3
    split
    · have := uniqueRuns_go_chain as (i + 1) ((v, st, n + 1) :: acc) ⟨by simp only; omega, by simp only; omega, h3⟩
      simpa [Nat.add_assoc, Nat.add_comm 1] using this
    · have := uniqueRuns_go_chain as (i + 1) ((a, i, 1) :: (v, st, n) :: acc)
        ⟨rfl, le_refl 1, h1, h2, h3⟩
      simpa [Nat.add_assoc, Nat.add_comm 1] using this

/-- the run table `groupMeta` computes for ANY label array is a chain of non-empty runs from 0 to its length -/
theorem groupMeta_runsChain {α β : Type} (rows : List (Row α β)) :
    RunsChain ((groupMeta rows).map fun r => (r.2.1, r.2.2.1)) 0 rows.length := by
  have := uniqueRuns_go_chain (rows.map (·.chr)) 0 [] rfl
  simp only [List.length_map, Nat.zero_add] at this
  unfold groupMeta Np.uniqueRuns
  rw [List.map_map]
  exact this

/-- selecting a strictly increasing index list inside the list is taking a sublist -/
theorem take_sublist_of_increasing {γ : Type} : ∀ (idx : List Nat) (l : List γ),
    idx.Pairwise (· < ·) → (∀ i ∈ idx, i < l.length) → (Np.take idx l).Sublist l := by
  intro idx l hp hl
  show (idx.filterMap (fun i => l[i]?)).Sublist l
  -- indices increasing ⇒ the picked elements appear in order
  induction l using List.reverseRecOn generalizing idx with
  | nil =>
    cases idx with
    | nil => simp
    | cons a t => have := hl a (by simp); simp at this
  | append_singleton l x ih =>
    -- split idx into the part below l.length and possibly the last index l.length
    by_cases hlast : l.length ∈ idx
    · -- l.length is the largest index, hence the last of idx
      have hmax : ∀ i ∈ idx, i ≤ l.length := fun i hi => by
        have := hl i hi; simp at this; omega
      obtain ⟨pre, rfl⟩ : ∃ pre, idx = pre ++ [l.length] := by
        obtain ⟨s, t, rfl⟩ := List.append_of_mem hlast
        have ht : t = [] := by
          cases t with
          | nil => rfl
          | cons b t' =>
            have hb : l.length < b := by
              have := List.pairwise_append.mp hp
              exact (List.pairwise_cons.mp this.2.1).1 b (by simp)
            have := hmax b (by simp)
            omega
        exact ⟨s, by rw [ht]⟩
      have hpre := List.pairwise_append.mp hp
      have hprelt : ∀ i ∈ pre, i < l.length := fun i hi => hpre.2.2 i hi l.length (by simp)
      rw [List.filterMap_append]
      have h1 : (pre.filterMap fun i => (l ++ [x])[i]?) = pre.filterMap fun i => l[i]? := by
        apply List.filterMap_congr
        intro i hi
        rw [List.getElem?_append_left (hprelt i hi)]
      rw [h1]
      have h2 : ([l.length].filterMap fun i => (l ++ [x])[i]?) = [x] := by simp
      rw [h2]
      exact List.Sublist.append (ih pre hpre.1 hprelt) (List.Sublist.refl _)
    · have hlt : ∀ i ∈ idx, i < l.length := fun i hi => by
        have := hl i hi
        simp at this
        have hne : i ≠ l.length := fun e => hlast (e ▸ hi)
        omega
      have h1 : (idx.filterMap fun i => (l ++ [x])[i]?) = idx.filterMap fun i => l[i]? := by
        apply List.filterMap_congr
        intro i hi
        rw [List.getElem?_append_left (hlt i hi)]
      rw [h1]
      exact (ih idx hp hlt).trans (List.sublist_append_left _ _)

end GMap
