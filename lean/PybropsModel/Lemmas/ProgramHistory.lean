/-
Histories of everything a user does with ONE programme object between and around `evolve` calls:
`evolve` / `reset` / `advance` calls, re-assignment of the clock (`prog.t_cur = n`) and of `t_max`
(`prog.t_max = n`), a different logbook (with its own replicate counter) handed to the following calls, and
things that must not matter (an operator replaced by an equivalent instance, another programme object being
run).  Every call meets its COMPLETE run-time oracle (Model/ProgramOracle.lean) and the stored initial state
stays what it was.
-/
import PybropsModel.Lemmas.ProgramOracle
set_option autoImplicit false
set_option linter.unusedSectionVars false
set_option linter.unusedVariables false

namespace Program
section
variable {σ V : Type} [DecidableEq V]
variable {I : σ → Heap (Cell V) → Prop} {S : List Ref} {V0 : List (Option (View V))} {ops : Ops σ V}

/-- one thing the user does with the programme object -/
inductive CallX
  | evolve (nrep : Nat) (ngen : Option Nat) (loginit : Bool)
  | reset
  | advance (ngen : Nat)
  | setT (n : Nat)          -- `prog.t_cur = n`
  | setTmax (n : Nat)       -- `prog.t_max = n`
  | setBook (rep : Int)     -- the following calls are handed another logbook, whose counter stands at `rep`
  | noop                    -- an operator is replaced by an equivalent instance; ANOTHER programme object runs

/-- the programme object between calls: the model state and the attribute `t_max` -/
structure Prog (σ V : Type) where
  tmax : Nat
  st : State σ V

def stepX (ops : Ops σ V) (emptyV : V) (depth : Nat) (sc : Schedule) (c : CallX) (p : Prog σ V) : Prog σ V :=
  match c with
  | .evolve nrep ngen li => ⟨p.tmax, evolve ops ⟨nrep, ngen, p.tmax, li, emptyV, depth⟩ sc p.st⟩
  | .reset => ⟨p.tmax, resetCall ops ⟨0, none, p.tmax, true, emptyV, depth⟩ sc p.st⟩
  | .advance n => ⟨p.tmax, advanceCall ops ⟨0, some n, p.tmax, true, emptyV, depth⟩ sc p.st⟩
  | .setT n => ⟨p.tmax, { p.st with t := n }⟩
  | .setTmax n => ⟨n, p.st⟩
  | .setBook r => ⟨p.tmax, { p.st with rep := r }⟩
  | .noop => p

def runX (ops : Ops σ V) (emptyV : V) (depth : Nat) (sc : Schedule) (cs : List CallX) (p : Prog σ V) : Prog σ V :=
  cs.foldl (fun q c => stepX ops emptyV depth sc c q) p

/-- do working containers exist after the call? -/
def CallX.holds (held : Bool) : CallX → Bool
  | .evolve nrep _ _ => held || decide (0 < nrep)
  | .reset => true
  | _ => held

/-- `advance` is only called while working containers exist -/
def admissibleX : List CallX → Bool → Bool
  | [], _ => true
  | c :: cs, held => (match c with | .advance _ => held | _ => true) && admissibleX cs (c.holds held)

/-- the complete oracle of one call, relating the programme before and after it.  For `ngen = None` the
    generation count is the value `t_max` has AT THE TIME of the call. -/
def callOKX (R : Item (View V) → Item (View V) → Bool) (emptyV : V) (depth : Nat) (V0 : List (Option (View V)))
    (c : CallX) (p p' : Prog σ V) : Prop :=
  match c with
  | .evolve nrep ngen li =>
    specEvolveCall R nrep (ngen.getD p.tmax) li V0 (newEvents p.st p'.st)
      (startVals depth p'.st.heap p'.st.start) p.st.rep p'.st.rep p.st.t p'.st.t = true
  | .reset =>
    specResetCall V0 (startVals depth p'.st.heap (five.map p'.st.regs)) p'.st.t
      (startVals depth p'.st.heap p'.st.start) = true
  | .advance n =>
    ∃ cur, five.map p.st.regs = cur.map some ∧
      specAdvanceCall R n p.st.t V0 (items cur (vals depth p.st.heap cur)) (newEvents p.st p'.st)
        (startVals depth p'.st.heap p'.st.start) p'.st.t = true
  | _ =>
    startVals depth p'.st.heap p'.st.start = V0 ∧ newEvents p.st p'.st = [] ∧ p'.st.regs = p.st.regs ∧
      p'.st.heap = p.st.heap

def histOKX (R : Item (View V) → Item (View V) → Bool) (ops : Ops σ V) (sc : Schedule) (emptyV : V) (depth : Nat)
    (V0 : List (Option (View V))) : List CallX → Prog σ V → Prop
  | [], _ => True
  | c :: cs, p =>
    callOKX R emptyV depth V0 c p (stepX ops emptyV depth sc c p) ∧
      histOKX R ops sc emptyV depth V0 cs (stepX ops emptyV depth sc c p)

theorem newEvents_self (st st' : State σ V) (h : st'.trace = st.trace) : newEvents st st' = [] := by
  unfold newEvents; rw [h]; simp

theorem Good.with_t {st : State σ V} {d : Nat} (g : Good I d S V0 st) (n : Nat) : Good I d S V0 { st with t := n } :=
  ⟨g.nbad, g.start, g.wf, g.n0le, g.region, g.iso, g.svals, g.regs, g.inv⟩

theorem Good.with_rep {st : State σ V} {d : Nat} (g : Good I d S V0 st) (r : Int) :
    Good I d S V0 { st with rep := r } :=
  ⟨g.nbad, g.start, g.wf, g.n0le, g.region, g.iso, g.svals, g.regs, g.inv⟩

/-- **Histories with attribute re-assignment and several logbooks.**  From a state satisfying the invariant,
    every admissible history meets the complete oracle call by call — `evolve(ngen = None)` with the value of
    `t_max` in force at that call, every call with the clock and the replicate counter it finds — and the
    invariant (hence the untouched initial state) holds at the end. -/
theorem historyX_spec (hR : Respects I S ops) (hS : S.length = 5) (sc : Schedule) (hwf : WellFormed sc = true)
    (hwr : wfReset sc = true) (hH : HandlesNone sc = true) (emptyV : V) (depth : Nat)
    (R : Item (View V) → Item (View V) → Bool) (hRR : ReflOnRefs R) :
    ∀ (cs : List CallX) (held : Bool) (p : Prog σ V), Good I depth S V0 p.st →
      (held = true → ∃ cur : List Ref, five.map p.st.regs = cur.map some ∧ cur.length = 5) →
      admissibleX cs held = true →
      histOKX R ops sc emptyV depth V0 cs p ∧ Good I depth S V0 (runX ops emptyV depth sc cs p).st := by
  intro cs
  induction cs with
  | nil => intro held p g _ _; exact ⟨trivial, g⟩
  | cons c cs ih =>
    intro held p g hheld hadm
    simp only [admissibleX, Bool.and_eq_true] at hadm
    -- the calls that do not run the programme
    have quiet : ∀ (p' : Prog σ V), stepX ops emptyV depth sc c p = p' → Good I depth S V0 p'.st →
        p'.st.trace = p.st.trace → p'.st.regs = p.st.regs → p'.st.heap = p.st.heap → c.holds held = held →
        (match c with | .evolve .. => False | .reset => False | .advance _ => False | _ => True) →
        histOKX R ops sc emptyV depth V0 (c :: cs) p ∧
          Good I depth S V0 (runX ops emptyV depth sc (c :: cs) p).st := by
      intro p' hp' g' htr hregs hheap hholds hkind
      have hrec := ih held p' g' (fun hh => by rw [hregs]; exact hheld hh) (by rw [← hholds]; exact hadm.2)
      have hok : callOKX R emptyV depth V0 c p p' := by
        cases c <;> first
          | exact hkind.elim
          | exact ⟨g'.startVals, newEvents_self _ _ htr, hregs, hheap⟩
      refine ⟨⟨by rw [hp']; exact hok, by rw [hp']; exact hrec.1⟩, ?_⟩
      show Good I depth S V0 (runX ops emptyV depth sc cs (stepX ops emptyV depth sc c p)).st
      rw [hp']; exact hrec.2
    cases c with
    | setT n => exact quiet ⟨p.tmax, { p.st with t := n }⟩ rfl (g.with_t n) rfl rfl rfl rfl trivial
    | setTmax n => exact quiet ⟨n, p.st⟩ rfl g rfl rfl rfl rfl trivial
    | setBook r => exact quiet ⟨p.tmax, { p.st with rep := r }⟩ rfl (g.with_rep r) rfl rfl rfl rfl trivial
    | noop => exact quiet p rfl g rfl rfl rfl rfl trivial
    | evolve nrep ngen li =>
      obtain ⟨hready, hrefs, hall, hsv⟩ := g.ready (ops := ops) hS
      have hn : effNgen sc (⟨nrep, ngen, p.tmax, li, emptyV, depth⟩ : Cfg V) = some (ngen.getD p.tmax) := by
        simp [effNgen, hH]
      have hsound := evolve_call_sound (cfg := ⟨nrep, ngen, p.tmax, li, emptyV, depth⟩) sc hwf hready
        (hrefs ▸ hR) _ hn R hRR
      obtain ⟨s', es0, es1, V0', q, g', tr, _, h1, _, _, _, _, _, hheld', hregs0, _⟩ :=
        evolve_wf (cfg := ⟨nrep, ngen, p.tmax, li, emptyV, depth⟩) sc hwf hready (hrefs ▸ hR) _ hn
      obtain ⟨_, hV0'⟩ := h1 hall
      have hV : V0' = V0 := hV0'.trans hsv
      rw [hV, hrefs] at g'
      have hstep : stepX ops emptyV depth sc (.evolve nrep ngen li) p = ⟨p.tmax, s'⟩ := by
        show (⟨p.tmax, evolve ops ⟨nrep, ngen, p.tmax, li, emptyV, depth⟩ sc p.st⟩ : Prog σ V) = _
        rw [q]
      have hrec := ih (CallX.holds held (.evolve nrep ngen li)) ⟨p.tmax, s'⟩ g' (by
        intro hh
        rcases Nat.eq_zero_or_pos nrep with h0 | hpos
        · have hh' : held = true := by simpa [CallX.holds, h0] using hh
          show ∃ cur : List Ref, five.map s'.regs = cur.map some ∧ cur.length = 5
          rw [hregs0 h0]; exact hheld hh'
        · exact hheld' hpos) hadm.2
      refine ⟨⟨?_, by rw [hstep]; exact hrec.1⟩, ?_⟩
      · rw [hstep]
        show specEvolveCall R nrep (ngen.getD p.tmax) li V0 (newEvents p.st s') (startVals depth s'.heap s'.start)
          p.st.rep s'.rep p.st.t s'.t = true
        rw [← q, ← hsv]
        exact hsound
      · show Good I depth S V0 (runX ops emptyV depth sc cs (stepX ops emptyV depth sc (.evolve nrep ngen li) p)).st
        rw [hstep]; exact hrec.2
    | reset =>
      obtain ⟨hsound, g'⟩ := reset_call_sound (cfg := ⟨0, none, p.tmax, true, emptyV, depth⟩) hS hR sc hwr g
      obtain ⟨s', cur, q, _, _, _, _, f, l, _⟩ :=
        reset_spec (cfg := ⟨0, none, p.tmax, true, emptyV, depth⟩) hR hS sc hwr g
      have hstep : stepX ops emptyV depth sc .reset p = ⟨p.tmax, s'⟩ := by
        show (⟨p.tmax, resetCall ops ⟨0, none, p.tmax, true, emptyV, depth⟩ sc p.st⟩ : Prog σ V) = _
        rw [q]
      rw [q] at hsound g'
      have hrec := ih true ⟨p.tmax, s'⟩ g' (fun _ => ⟨cur, f, l⟩) hadm.2
      refine ⟨⟨by rw [hstep]; exact hsound, by rw [hstep]; exact hrec.1⟩, ?_⟩
      show Good I depth S V0 (runX ops emptyV depth sc cs (stepX ops emptyV depth sc .reset p)).st
      rw [hstep]; exact hrec.2
    | advance n =>
      obtain ⟨cur, hcur, hl⟩ := hheld hadm.1
      obtain ⟨hsound, g', cur', f, l⟩ := advance_call_sound (cfg := ⟨0, some n, p.tmax, true, emptyV, depth⟩) hS hR sc hwf
        n rfl g cur hcur hl R hRR
      have hstep : stepX ops emptyV depth sc (.advance n) p =
          ⟨p.tmax, advanceCall ops ⟨0, some n, p.tmax, true, emptyV, depth⟩ sc p.st⟩ := rfl
      have hrec := ih held ⟨p.tmax, advanceCall ops ⟨0, some n, p.tmax, true, emptyV, depth⟩ sc p.st⟩ g'
        (fun _ => ⟨cur', f, l⟩) hadm.2
      refine ⟨⟨⟨cur, hcur, ?_⟩, by rw [hstep]; exact hrec.1⟩, ?_⟩
      · rw [hstep]; exact hsound
      · show Good I depth S V0 (runX ops emptyV depth sc cs (stepX ops emptyV depth sc (.advance n) p)).st
        rw [hstep]; exact hrec.2

end
end Program
