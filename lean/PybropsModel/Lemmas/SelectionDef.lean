/-
Helper lemmas for C05: the latent values written as the criteria's definitions (closed forms in the
underlying data), the kinship-factor identity ‖C c‖² = cᵀ(CᵀC)c, and the allele-availability tests.
-/
import PybropsModel.Lemmas.SelectionCrit
set_option autoImplicit false
set_option linter.unusedSectionVars false
set_option linter.unusedSimpArgs false

namespace Selection
open Finset

section defs
variable {α : Type} [Field α] [LinearOrder α] [IsStrictOrderedRing α]

theorem vget_map (x : List α) (g : α → α) (hg : g 0 = 0) (i : Nat) : vget (x.map g) i = g (vget x i) := by
  unfold vget
  simp only [List.getD_eq_getElem?_getD, List.getElem?_map]
  cases x[i]? <;> simp [hg]

theorem vget_contrib_raw (x : List α) (s : α) (i : Nat) :
    vget (x.map (fun v => (1 / s) * v)) i = (1 / s) * vget x i :=
  vget_map x (fun v => (1 / s) * v) (by simp) i

/-- list sum of a map over a list = range sum over positions -/
theorem list_sum_map_getD {β : Type} (l : List β) (d : β) (f : β → α) :
    (l.map f).sum = ∑ r ∈ range l.length, f (l.getD r d) := by
  induction l using List.reverseRecOn with
  | nil => simp
  | append_singleton l a ih =>
    rw [List.map_append, List.sum_append, List.length_append, List.length_singleton,
      Finset.sum_range_succ, ih]
    congr 1
    · apply Finset.sum_congr rfl
      intro r hr
      have hr' : r < l.length := Finset.mem_range.mp hr
      simp [List.getD_eq_getElem?_getD, List.getElem?_append_left hr']
    · simp [List.getD_eq_getElem?_getD]

/-- entry `j` of `-contrib.dot(D)` is `-(Σ_i c_i D_ij)` -/
theorem linCore_eq (D : List (List α)) (c : List α) :
    linCore D c = (List.range (ncols D)).map fun j => -(∑ i ∈ range c.length, vget c i * ent D i j) := by
  unfold linCore vecMat
  rw [List.map_map]
  apply List.map_congr_left
  intro j _
  simp only [Function.comp, rsum_eq]

/-- **‖C c‖² = cᵀ K c whenever K = CᵀC** -/
theorem normSq_matVec (C : List (List α)) (c : List α) (K : Nat → Nat → α)
    (hK : ∀ i j, i < c.length → j < c.length → K i j = ∑ r ∈ range C.length, ent C r i * ent C r j) :
    normSq (matVec C c) = ∑ i ∈ range c.length, ∑ j ∈ range c.length, vget c i * K i j * vget c j := by
  unfold normSq matVec
  rw [np_sum_eq, List.map_map, list_sum_map_getD C []]
  simp only [Function.comp, rsum_eq]
  have hrow : ∀ r, (∑ i ∈ range c.length, vget (C.getD r []) i * vget c i)
      = ∑ i ∈ range c.length, ent C r i * vget c i := fun r => rfl
  simp only [hrow]
  calc ∑ r ∈ range C.length, (∑ i ∈ range c.length, ent C r i * vget c i) * (∑ i ∈ range c.length, ent C r i * vget c i)
      = ∑ r ∈ range C.length, ∑ i ∈ range c.length, ∑ j ∈ range c.length,
          vget c i * (ent C r i * ent C r j) * vget c j := by
        apply Finset.sum_congr rfl
        intro r _
        rw [Finset.sum_mul_sum]
        apply Finset.sum_congr rfl
        intro i _
        apply Finset.sum_congr rfl
        intro j _
        ring
    _ = ∑ i ∈ range c.length, ∑ r ∈ range C.length, ∑ j ∈ range c.length,
          vget c i * (ent C r i * ent C r j) * vget c j := Finset.sum_comm
    _ = ∑ i ∈ range c.length, ∑ j ∈ range c.length, ∑ r ∈ range C.length,
          vget c i * (ent C r i * ent C r j) * vget c j := by
        apply Finset.sum_congr rfl
        intro i _
        exact Finset.sum_comm
    _ = _ := by
        apply Finset.sum_congr rfl
        intro i hi
        apply Finset.sum_congr rfl
        intro j hj
        rw [hK i j (Finset.mem_range.mp hi) (Finset.mem_range.mp hj), Finset.mul_sum, Finset.sum_mul]

theorem normSq_nonneg (v : List α) : 0 ≤ normSq v := by
  unfold normSq
  rw [np_sum_eq]
  apply List.sum_nonneg
  intro a ha
  obtain ⟨b, _, rfl⟩ := List.mem_map.mp ha
  exact mul_self_nonneg b

/-- the selection's allele frequency is the share-weighted mean genotype divided by the ploidy -/
theorem pfreq_eq (geno : List (List α)) (ploidy : Nat) (n : Nat) (S : List Nat) (hS : ∀ i ∈ S, i < n)
    (hne : S ≠ []) (hp : 0 < ploidy) (m : Nat) :
    pfreq geno ploidy S m
      = (∑ i ∈ range n, vget (unitShares n S) i * ent geno i m) / (ploidy : α) := by
  unfold pfreq
  rw [← rsum_eq, rsum_unitShares_mul n S hS]
  unfold indcontrib
  have hk := (length_pos_cast (α := α) S hne).ne'
  have hpl : (ploidy : α) ≠ 0 := by exact_mod_cast hp.ne'
  push_cast
  field_simp

theorem sum_unitShares (n : Nat) (S : List Nat) (hS : ∀ i ∈ S, i < n) (hne : S ≠ []) :
    ∑ i ∈ range n, vget (unitShares (α := α) n S) i = 1 := by
  have h := rsum_unitShares_mul (α := α) n S hS (fun _ => 1)
  simp only [mul_one] at h
  rw [rsum_eq] at h
  rw [h, ssum_eq]
  unfold indcontrib
  have hk := (length_pos_cast (α := α) S hne).ne'
  simp
  field_simp

/-- L1-norm genomic selection from its underlying arrays: with `V = _calc_V(mkrwt, tafreq, tfreq)` and
    contributions that add up to one, the latent value of trait `t` is the weighted L1 distance between
    the selection's allele frequencies and the target frequencies -/
theorem l1_row_def (mk ta tf : List (List α)) (c : List α) (hc : c.length = ta.length)
    (hsum : ∑ i ∈ range c.length, vget c i = 1) (t : Nat) (ht : t < ncols mk) :
    norm1 (matVec ((calcV mk ta tf).getD t []) c)
      = ∑ m ∈ range mk.length, |ent mk m t * ((∑ i ∈ range ta.length, vget c i * ent ta i m) - ent tf m t)| := by
  unfold calcV
  have hg : ((List.range (ncols mk)).map fun t => (List.range mk.length).map fun m =>
      (List.range ta.length).map fun i => ent mk m t * (ent ta i m - ent tf m t)).getD t []
      = (List.range mk.length).map fun m =>
          (List.range ta.length).map fun i => ent mk m t * (ent ta i m - ent tf m t) := by
    simp [List.getD_eq_getElem?_getD, List.getElem?_map, List.getElem?_range ht]
  rw [hg]
  unfold norm1 matVec
  rw [np_sum_eq, List.map_map, List.map_map, list_sum_range]
  apply Finset.sum_congr rfl
  intro m _
  simp only [Function.comp, absv_eq_abs]
  congr 1
  rw [rsum_eq, hc]
  have hterm : ∀ i ∈ range ta.length,
      vget ((List.range ta.length).map fun i => ent mk m t * (ent ta i m - ent tf m t)) i * vget c i
        = ent mk m t * (vget c i * ent ta i m) - ent mk m t * ent tf m t * vget c i := by
    intro i hi
    rw [vget_map_range ta.length _ i (Finset.mem_range.mp hi)]
    ring
  rw [Finset.sum_congr rfl hterm, Finset.sum_sub_distrib, ← Finset.mul_sum, ← Finset.mul_sum]
  rw [hc] at hsum
  rw [hsum]
  ring

theorem eqv_zero_iff (t : α) : eqv t 0 = true ↔ t = 0 := by
  unfold eqv
  simp only [Bool.and_eq_true, Bool.not_eq_true', decide_eq_false_iff_not, not_lt]
  exact ⟨fun h => le_antisymm h.2 h.1, fun h => by subst h; exact ⟨le_rfl, le_rfl⟩⟩

/-- the MOGS class computes allele unavailability exactly as defined -/
theorem mogsPau_eq_def (geno : List (List α)) (ploidy : Nat) (w tf : List (List α)) (S : List Nat) :
    mogsPau geno ploidy w tf S = pauDef geno ploidy w tf S := by
  unfold mogsPau pauDef
  apply List.map_congr_left
  intro j _
  apply rsum_congr
  intro m _
  simp only
  congr 2
  unfold unattainable
  by_cases h0 : 0 < ent tf m j <;> by_cases h1 : ent tf m j < 1 <;>
    by_cases hp0 : 0 < pfreq geno ploidy S m <;> by_cases hp1 : pfreq geno ploidy S m < 1 <;>
    simp [h0, h1, hp0, hp1] <;> (exfalso; linarith)

theorem eqv_iff (a b : α) : eqv a b = true ↔ a = b := by
  unfold eqv
  simp only [Bool.and_eq_true, Bool.not_eq_true', decide_eq_false_iff_not, not_lt]
  exact ⟨fun h => le_antisymm h.2 h.1, fun h => by subst h; exact ⟨le_rfl, le_rfl⟩⟩

/-- the PAU class (after repair 59e0f579) scores allele unavailability by its definition for every target
    frequency in [0,1] -/
theorem pauSubset_eq_def (geno : List (List α)) (ploidy : Nat) (w tf : List (List α))
    (S : List Nat) (hfreq : ∀ m j, m < w.length → j < ncols w → 0 ≤ ent tf m j ∧ ent tf m j ≤ 1) :
    pauSubset geno ploidy w tf S = pauDef geno ploidy w tf S := by
  unfold pauSubset pauWith pauDef
  apply List.map_congr_left
  intro j hj
  apply rsum_congr
  intro m hm
  obtain ⟨h0, h1⟩ := hfreq m j hm (List.mem_range.mp hj)
  simp only
  congr 2
  unfold unattainable
  have e0 : eqv (ent tf m j) 0 = decide (ent tf m j = 0) := by
    rw [Bool.eq_iff_iff]; simp [eqv_iff]
  have e1 : eqv (ent tf m j) 1 = decide (ent tf m j = 1) := by
    rw [Bool.eq_iff_iff]; simp [eqv_iff]
  rw [e0, e1]
  rcases h0.lt_or_eq with hpos | hz
  · rcases h1.lt_or_eq with hlt | ho
    · have n0 : ent tf m j ≠ 0 := hpos.ne'
      have n1 : ent tf m j ≠ 1 := hlt.ne
      by_cases hp0 : 0 < pfreq geno ploidy S m <;> by_cases hp1 : pfreq geno ploidy S m < 1 <;>
        simp [hpos, hlt, n0, n1, hp0, hp1]
    · rw [ho]
      by_cases hp0 : 0 < pfreq geno ploidy S m <;> by_cases hp1 : pfreq geno ploidy S m < 1 <;>
        simp [hp0, hp1]
  · rw [← hz]
    by_cases hp0 : 0 < pfreq geno ploidy S m <;> by_cases hp1 : pfreq geno ploidy S m < 1 <;>
      simp [hp0, hp1]

/-- the guarded favourable-allele frequencies are strictly positive, so `numpy.power(tmp, -alpha)` is finite -/
theorem guardZero_pos (ff : List (List α)) (h : ∀ r ∈ ff, ∀ v ∈ r, 0 ≤ v) :
    ∀ r ∈ guardZero ff, ∀ v ∈ r, 0 < v := by
  intro r hr v hv
  unfold guardZero at hr
  obtain ⟨r0, hr0, rfl⟩ := List.mem_map.mp hr
  obtain ⟨v0, hv0, rfl⟩ := List.mem_map.mp hv
  by_cases hz : eqv v0 0 = true
  · rw [if_pos hz]; exact one_pos
  · rw [if_neg hz]
    have hne : v0 ≠ 0 := fun e => hz ((eqv_iff v0 0).mpr e)
    exact lt_of_le_of_ne (h r0 hr0 v0 hv0) (Ne.symm hne)

/-- the guarded `p (1 - p)` of the wGEBV matrix is strictly positive on [0,1], so `pq ** -0.5` is finite -/
theorem pqGuard_pos (p : α) (h0 : 0 ≤ p) (h1 : p ≤ 1) : 0 < pqGuard p := by
  unfold pqGuard
  by_cases hz : (eqv p 0 || eqv p 1) = true
  · rw [if_pos hz]; exact one_pos
  · rw [if_neg hz]
    simp only [Bool.or_eq_true, not_or] at hz
    have n0 : p ≠ 0 := fun e => hz.1 ((eqv_iff p 0).mpr e)
    have n1 : p ≠ 1 := fun e => hz.2 ((eqv_iff p 1).mpr e)
    have hp : 0 < p := lt_of_le_of_ne h0 (Ne.symm n0)
    have hq : 0 < 1 - p := sub_pos.mpr (lt_of_le_of_ne h1 n1)
    exact mul_pos hp hq

end defs
end Selection
