/-
Lemmas/LabelMatMisc.lean — executable `lcells` vs `IsLCell`; mutating = non-mutating; generic = specific.
-/
import PybropsModel.Lemmas.LabelMatHistory

set_option autoImplicit false
set_option linter.unusedVariables false

namespace LabelMat

variable {α lab : Type}

/-! ### the executable list of labelled cells -/

theorem mem_lcells_iff (sch : Schema) (s : St α lab) (hr : rect s.mat = true) (c : LCell α lab) :
    c ∈ lcells sch s ↔ IsLCell sch s c := by
  unfold lcells IsLCell
  simp only [List.mem_flatMap, List.mem_range, List.mem_filterMap]
  constructor
  · rintro ⟨i, _, j, _, k, _, h⟩
    exact ⟨i, j, k, h⟩
  · rintro ⟨i, j, k, h⟩
    have h' := h
    rw [lcellAt_eq_some] at h'
    obtain ⟨v, hv, _⟩ := h'
    unfold cell at hv
    cases hi : s.mat[i]? with
    | none => rw [hi] at hv; cases hv
    | some pl =>
      rw [hi] at hv
      simp only [Option.bind_some] at hv
      cases hj : pl[j]? with
      | none => rw [hj] at hv; cases hv
      | some r =>
        rw [hj] at hv
        simp only [Option.bind_some] at hv
        have hpl := List.mem_of_getElem? hi
        have hrr := List.mem_of_getElem? hj
        have l1 := axisLen_of_rect 1 s.mat hr pl hpl
        have l2 := axisLen_of_rect 2 s.mat hr pl hpl r hrr
        have b0 : i < s.mat.length := (List.getElem?_eq_some_iff.mp hi).1
        have b1 : j < pl.length := (List.getElem?_eq_some_iff.mp hj).1
        have b2 : k < r.length := (List.getElem?_eq_some_iff.mp hv).1
        exact ⟨i, by simpa [axLen] using b0, j, by rw [← l1]; exact b1, k, by rw [← l2]; exact b2, h⟩

/-! ### mutating = non-mutating -/

theorem freshK_of_grp_none (k : Kind) (t : St α lab) (h : (t.bundle k).grp = none) : freshK k t = t := by
  obtain ⟨m, ta, vr, tr⟩ := t
  cases k
  · obtain ⟨c, g⟩ := ta; simp only [St.bundle] at h; subst h; rfl
  · obtain ⟨c, g⟩ := vr; simp only [St.bundle] at h; subst h; rfl
  · obtain ⟨c, g⟩ := tr; simp only [St.bundle] at h; subst h; rfl

theorem append_of_adjoin {sch : Schema} (hd : sch.pureDropsOther = false) {k : Kind} {fill : α}
    {v : Operand α lab} {s s' : St α lab} (h : adjoinK sch k fill v s = .ok s') :
    appendK sch k fill v s = .ok s' := by
  unfold adjoinK at h
  simp only [bind, Except.bind] at h
  split at h
  · cases h
  · rename_i t ht
    rw [newObj_eq sch hd, freshK_of_grp_none k t (adjoinCore_frame ht).1] at h
    rw [checkCtor_ok h]
    exact ht

theorem adjoin_of_append {sch : Schema} (hd : sch.pureDropsOther = false) {k : Kind} {fill : α}
    {v : Operand α lab} {s s' : St α lab} (h : appendK sch k fill v s = .ok s') (hc : s'.ctorOK sch = true) :
    adjoinK sch k fill v s = .ok s' := by
  unfold appendK at h
  unfold adjoinK
  simp only [bind, Except.bind, h]
  rw [newObj_eq sch hd, freshK_of_grp_none k s' (adjoinCore_frame h).1]
  simp [St.checkCtor, hc]
  rfl

theorem incorp_of_insert {sch : Schema} (hd : sch.pureDropsOther = false) {k : Kind} {obj : InsIdx}
    {v : Operand α lab} {s s' : St α lab} (h : insertK sch k obj v s = .ok s') :
    incorpK sch k obj v s = .ok s' := by
  unfold insertK at h
  simp only [bind, Except.bind] at h
  split at h
  · cases h
  · rename_i t ht
    rw [newObj_eq sch hd, freshK_of_grp_none k t (insertCore_frame ht).1] at h
    rw [checkCtor_ok h]
    exact ht

theorem insert_of_incorp {sch : Schema} (hd : sch.pureDropsOther = false) {k : Kind} {obj : InsIdx}
    {v : Operand α lab} {s s' : St α lab} (h : incorpK sch k obj v s = .ok s') (hc : s'.ctorOK sch = true) :
    insertK sch k obj v s = .ok s' := by
  unfold incorpK at h
  unfold insertK
  simp only [bind, Except.bind, h]
  rw [newObj_eq sch hd, freshK_of_grp_none k s' (insertCore_frame h).1]
  simp [St.checkCtor, hc]
  rfl

theorem remove_of_delete {sch : Schema} (hd : sch.pureDropsOther = false) {k : Kind} {obj : DelIdx}
    {s s' : St α lab} (h : deleteK sch k obj s = .ok s') : removeK sch k obj s = .ok s' := by
  unfold deleteK at h
  unfold removeK
  simp only [bind, Except.bind, pure, Except.pure] at h ⊢
  split at h
  · cases h
  · split at h
    · cases h
    · rename_i ix hix
      rw [newObj_eq sch hd] at h
      rw [checkCtor_ok h]
      rename_i hne _
      rw [if_neg hne]

theorem delete_of_remove {sch : Schema} (hd : sch.pureDropsOther = false) {k : Kind} {obj : DelIdx}
    {s s' : St α lab} (h : removeK sch k obj s = .ok s') (hc : s'.ctorOK sch = true) :
    deleteK sch k obj s = .ok s' := by
  unfold removeK at h
  unfold deleteK
  simp only [bind, Except.bind, pure, Except.pure] at h ⊢
  split at h
  · cases h
  · split at h
    · cases h
    · rename_i ix hix
      cases h
      rename_i hne _
      rw [if_neg hne, newObj_eq sch hd]
      simp [St.checkCtor, hc]
      rfl

/-! ### generic = specific -/

theorem dispatch_eq {β : Type} (sch : Schema) (axis : Int) (a : Nat) (k : Kind) (f : Kind → R β)
    (ha : getAxis axis sch.ndim = .ok a) (hk : sch.kindOf a = some k) : dispatch sch axis f = f k := by
  simp [dispatch, bind, Except.bind, ha, hk]

theorem dispatchSelfCall_eq {β : Type} (sch : Schema) (h : sch.genericSelfCall = false) (axis : Int)
    (f : Kind → R β) : dispatchSelfCall sch axis f = dispatch sch axis f := by
  simp [dispatchSelfCall, h]

theorem stepGeneric_eq [BEq lab] (le : lab → lab → Bool) (sch : Schema) (fill : α) (fx : Bool) (axis : Int)
    (a : Nat) (k : Kind) (op : Op α lab) (s : St α lab)
    (ha : getAxis axis sch.ndim = .ok a) (hk : sch.kindOf a = some k) :
    stepGeneric le sch fill fx axis op s = step le sch fill fx (op.withKind k) s := by
  unfold stepGeneric
  exact dispatch_eq sch axis a k _ ha hk

end LabelMat
