/-
Rounding contract shared by C09 / C10 (and the subset frequency problems of C05):
an IEEE-style rounding is abstracted as a monotone map ℚ → ℚ that is the identity on a grid
containing 0, 1, `e` and `1 - e`, where `e` is half an ulp of 1 (`2⁻⁵³` for binary64, `2⁻²⁴` for
binary32, `2⁻¹¹` for binary16; a cast of a rounded binary64 value to a narrower format is again such
a map).  `div_form_exact` is the statement that makes `count / (ploidy*n)` hit 0 and 1 exactly.
-/
import Mathlib.Tactic.Linarith
import Mathlib.Tactic.Positivity
import Mathlib.Tactic.FieldSimp
import Mathlib.Tactic.NormNum
import Mathlib.Algebra.Order.Field.Rat
import Mathlib.Order.Monotone.Basic
set_option autoImplicit false

namespace Rounding

/-- IEEE-style rounding contract with half-ulp `e` -/
structure RoundingContract (rnd : ℚ → ℚ) (e : ℚ) : Prop where
  mono : Monotone rnd
  fix0 : rnd 0 = 0
  fix1 : rnd 1 = 1
  epos : 0 < e
  fixEps : rnd e = e
  fixPred1 : rnd (1 - e) = 1 - e

/-- binary64: `e = 2⁻⁵³` -/
def eps64 : ℚ := (1 / 2) ^ 53

theorem eps64_bound (m : ℕ) (h : m ≤ 2 ^ 53) : (m : ℚ) * eps64 ≤ 1 := by
  have hm : (m : ℚ) ≤ 2 ^ 53 := by exact_mod_cast h
  have : (2 : ℚ) ^ 53 * eps64 = 1 := by unfold eps64; norm_num
  have hpos : (0 : ℚ) < eps64 := by unfold eps64; positivity
  nlinarith

/-- the identity is a rounding (exact arithmetic is an instance of the contract) -/
theorem contract_id (e : ℚ) (he : 0 < e) : RoundingContract id e :=
  ⟨monotone_id, rfl, rfl, he, rfl, rfl⟩

variable {rnd : ℚ → ℚ} {e : ℚ}

theorem div_form_one (h : RoundingContract rnd e) (c m : ℕ) (hm : 0 < m) (hcm : c ≤ m)
    (hbig : (m : ℚ) * e ≤ 1) : rnd ((c : ℚ) / m) = 1 ↔ c = m := by
  have hmq : (0 : ℚ) < m := by exact_mod_cast hm
  constructor
  · intro h1
    by_contra hne
    have hlt : c < m := lt_of_le_of_ne hcm hne
    have hc1 : (c : ℚ) + 1 ≤ m := by exact_mod_cast hlt
    have h2 : (c : ℚ) / m ≤ 1 - e := by
      rw [div_le_iff₀ hmq]
      nlinarith
    have := h.mono h2
    rw [h1, h.fixPred1] at this
    linarith [h.epos]
  · intro hcm'
    rw [hcm', div_self hmq.ne']; exact h.fix1

theorem div_form_zero (h : RoundingContract rnd e) (c m : ℕ) (hm : 0 < m)
    (hbig : (m : ℚ) * e ≤ 1) : rnd ((c : ℚ) / m) = 0 ↔ c = 0 := by
  have hmq : (0 : ℚ) < m := by exact_mod_cast hm
  constructor
  · intro h0
    by_contra hne
    have hc1 : (1 : ℚ) ≤ c := by exact_mod_cast Nat.one_le_iff_ne_zero.mpr hne
    have h2 : e ≤ (c : ℚ) / m := by
      rw [le_div_iff₀ hmq]
      nlinarith [h.epos]
    have := h.mono h2
    rw [h0, h.fixEps] at this
    linarith [h.epos]
  · intro hc
    rw [hc]; simp [h.fix0]

theorem div_form_bounds (h : RoundingContract rnd e) (c m : ℕ) (hm : 0 < m) (hcm : c ≤ m) :
    0 ≤ rnd ((c : ℚ) / m) ∧ rnd ((c : ℚ) / m) ≤ 1 := by
  have hmq : (0 : ℚ) < m := by exact_mod_cast hm
  have hcq : (c : ℚ) ≤ m := by exact_mod_cast hcm
  have h0 : (0 : ℚ) ≤ (c : ℚ) / m := by positivity
  have h1 : (c : ℚ) / m ≤ 1 := (div_le_one hmq).mpr hcq
  exact ⟨by simpa [h.fix0] using h.mono h0, by simpa [h.fix1] using h.mono h1⟩

/-- interior values stay strictly inside: together with the two `iff`s the three exactness classes
    `= 0`, `∈ (0,1)`, `= 1` of the rounded quotient are those of the exact one -/
theorem div_form_interior (h : RoundingContract rnd e) (c m : ℕ) (hm : 0 < m) (hcm : c ≤ m)
    (hbig : (m : ℚ) * e ≤ 1) :
    (0 < rnd ((c : ℚ) / m) ∧ rnd ((c : ℚ) / m) < 1) ↔ (0 < c ∧ c < m) := by
  obtain ⟨b0, b1⟩ := div_form_bounds h c m hm hcm
  have e1 := div_form_one h c m hm hcm hbig
  have e0 := div_form_zero h c m hm hbig
  constructor
  · rintro ⟨p, q⟩
    refine ⟨Nat.pos_of_ne_zero (fun hc => ?_), lt_of_le_of_ne hcm (fun hc => ?_)⟩
    · exact absurd (e0.mpr hc) p.ne'
    · exact absurd (e1.mpr hc) q.ne
  · rintro ⟨p, q⟩
    exact ⟨lt_of_le_of_ne b0 (fun hh => p.ne' (e0.mp hh.symm)), lt_of_le_of_ne b1 (fun hh => q.ne (e1.mp hh))⟩

/-- a cast of an already rounded value to a narrower format (binary64 → binary32 / binary16, as
    `dtype.type(out)` does) is again a rounding with the narrower format's half-ulp, provided the wider
    rounding leaves the two narrow grid points alone -/
theorem contract_comp {r1 r2 : ℚ → ℚ} {e1 e2 : ℚ} (h1 : RoundingContract r1 e1) (h2 : RoundingContract r2 e2)
    (f1 : r1 e2 = e2) (f2 : r1 (1 - e2) = 1 - e2) : RoundingContract (r2 ∘ r1) e2 :=
  ⟨h2.mono.comp h1.mono, by simp [h1.fix0, h2.fix0], by simp [h1.fix1, h2.fix1], h2.epos,
   by simp [f1, h2.fixEps], by simp [f2, h2.fixPred1]⟩

/-- binary32 and binary16 half-ulps -/
def eps32 : ℚ := (1 / 2) ^ 24
def eps16 : ℚ := (1 / 2) ^ 11

theorem eps32_bound (m : ℕ) (h : m ≤ 2 ^ 24) : (m : ℚ) * eps32 ≤ 1 := by
  have hm : (m : ℚ) ≤ 2 ^ 24 := by exact_mod_cast h
  have : (2 : ℚ) ^ 24 * eps32 = 1 := by unfold eps32; norm_num
  have hpos : (0 : ℚ) < eps32 := by unfold eps32; positivity
  nlinarith

theorem eps16_bound (m : ℕ) (h : m ≤ 2 ^ 11) : (m : ℚ) * eps16 ≤ 1 := by
  have hm : (m : ℚ) ≤ 2 ^ 11 := by exact_mod_cast h
  have : (2 : ℚ) ^ 11 * eps16 = 1 := by unfold eps16; norm_num
  have hpos : (0 : ℚ) < eps16 := by unfold eps16; positivity
  nlinarith

/-- the rounding that sends everything in `(1 - e, 1]` to 1 and is exact elsewhere: it satisfies the
    contract, and shows that the size bound `m·e ≤ 1` of `div_form_one` cannot be dropped -/
def snapUp (e : ℚ) (x : ℚ) : ℚ := if 1 - e < x ∧ x ≤ 1 then 1 else x

theorem snapUp_contract (e : ℚ) (he : 0 < e) (he2 : e < 1 / 2) : RoundingContract (snapUp e) e := by
  refine ⟨?_, ?_, ?_, he, ?_, ?_⟩
  · intro a b hab
    unfold snapUp
    split <;> split
    · exact le_refl _
    · next h1 h2 =>
      have : 1 < b := by
        by_contra hb
        exact h2 ⟨lt_of_lt_of_le h1.1 hab, not_lt.mp hb⟩
      exact this.le
    · next h1 h2 => exact le_trans hab h2.2
    · exact hab
  · unfold snapUp; rw [if_neg]; rintro ⟨h, _⟩; linarith
  · unfold snapUp; rw [if_pos]; exact ⟨by linarith, le_refl _⟩
  · unfold snapUp; rw [if_neg]; rintro ⟨h, _⟩; linarith
  · unfold snapUp; rw [if_neg]; rintro ⟨h, _⟩; linarith

theorem snapUp_large (e : ℚ) (m : ℕ) (hm : 1 < m) (hbig : 1 < (m : ℚ) * e) :
    snapUp e (((m - 1 : ℕ) : ℚ) / m) = 1 := by
  have hmq : (0 : ℚ) < m := by exact_mod_cast (lt_trans Nat.zero_lt_one hm)
  have hc : (((m - 1 : ℕ)) : ℚ) = (m : ℚ) - 1 := by
    rw [Nat.cast_sub (le_of_lt hm)]; simp
  unfold snapUp
  rw [if_pos]
  rw [hc]
  constructor
  · rw [lt_div_iff₀ hmq]; nlinarith
  · rw [div_le_one hmq]; linarith

end Rounding
