/-
Helper lemmas for C18 (1): the greedy apportionment loop of `nhaploblk_chrom`.
Every iteration adds exactly one block to an existing chromosome, whatever the `ideal` vector is
(it may be any list of scalars: the statements do not depend on the arithmetic that produced it).
-/
import Mathlib.Tactic
import PybropsModel.Model.Haplo
set_option autoImplicit false

namespace Haplo

theorem incrAt_length (i : Nat) (l : List Nat) : (incrAt i l).length = l.length := by
  induction l generalizing i with
  | nil => simp [incrAt]
  | cons x xs ih => cases i <;> simp [incrAt, ih]

theorem incrAt_sum (i : Nat) (l : List Nat) (h : i < l.length) : (incrAt i l).sum = l.sum + 1 := by
  induction l generalizing i with
  | nil => simp at h
  | cons x xs ih =>
    cases i with
    | zero => simp [incrAt]; omega
    | succ i =>
      simp only [List.length_cons, Nat.add_lt_add_iff_right] at h
      simp [incrAt, ih i h]; omega

theorem incrAt_pos (i : Nat) (l : List Nat) (h : ∀ x ∈ l, 1 ≤ x) : ∀ x ∈ incrAt i l, 1 ≤ x := by
  induction l generalizing i with
  | nil => simp [incrAt]
  | cons x xs ih =>
    cases i with
    | zero =>
      intro y hy
      simp only [incrAt, List.mem_cons] at hy
      rcases hy with rfl | hy
      · omega
      · exact h y (List.mem_cons_of_mem _ hy)
    | succ i =>
      intro y hy
      simp only [incrAt, List.mem_cons] at hy
      rcases hy with rfl | hy
      · exact h _ List.mem_cons_self
      · exact ih i (fun z hz => h z (List.mem_cons_of_mem _ hz)) y hy

section
variable {α : Type} [LT α] [DecidableLT α]

theorem argminGo_lt (b : α) (bi i : Nat) (xs : List α) (h : bi < i) :
    argminGo b bi i xs < i + xs.length := by
  induction xs generalizing b bi i with
  | nil => simpa [argminGo] using h
  | cons x xs ih =>
    simp only [argminGo, List.length_cons]
    split
    · have := ih x i (i + 1) (Nat.lt_succ_self i); omega
    · have := ih b bi (i + 1) (Nat.lt_succ_of_lt h); omega

theorem argmin_lt (l : List α) (h : l ≠ []) : argmin l < l.length := by
  cases l with
  | nil => exact absurd rfl h
  | cons x xs =>
    have := argminGo_lt x 0 1 xs Nat.zero_lt_one
    simp only [argmin, List.length_cons]; omega

end

section
variable {α : Type} [Sub α] [NatCast α] [LT α] [DecidableLT α]

/-- the loop invariant of `nhaploblk_chrom`: `k` iterations add `k` blocks, keep the number of
    chromosomes and never take a block away -/
theorem greedyPrerepair_spec (ideal : List α) (k : Nat) (nb : List Nat)
    (hlen : ideal.length = nb.length) (hne : nb ≠ []) (hpos : ∀ x ∈ nb, 1 ≤ x) :
    (greedyPrerepair ideal k nb).length = nb.length ∧ (greedyPrerepair ideal k nb).sum = nb.sum + k ∧
      ∀ x ∈ greedyPrerepair ideal k nb, 1 ≤ x := by
  induction k generalizing nb with
  | zero => exact ⟨rfl, by simp [greedyPrerepair], hpos⟩
  | succ k ih =>
    simp only [greedyPrerepair]
    set ix := argmin (List.zipWith (fun (a : Nat) b => (a : α) - b) nb ideal) with hix
    have hz : (List.zipWith (fun (a : Nat) b => (a : α) - b) nb ideal) ≠ [] := by
      intro h0
      have := congrArg List.length h0
      simp only [List.length_zipWith, hlen, Nat.min_self, List.length_nil] at this
      exact hne (List.length_eq_zero_iff.mp this)
    have hlt : ix < nb.length := by
      have := argmin_lt _ hz
      simp only [List.length_zipWith, hlen, Nat.min_self] at this
      exact this
    have hne' : incrAt ix nb ≠ [] := by
      intro h0
      have := congrArg List.length h0
      rw [incrAt_length] at this
      exact hne (List.length_eq_zero_iff.mp this)
    obtain ⟨h1, h2, h3⟩ := ih (incrAt ix nb) (by rw [incrAt_length]; exact hlen) hne' (incrAt_pos ix nb hpos)
    refine ⟨by rw [h1, incrAt_length], ?_, h3⟩
    rw [h2, incrAt_sum ix nb hlt]; omega

end

theorem greedyNaNPrerepair_spec (k : Nat) (nb : List Nat) (hne : nb ≠ []) (hpos : ∀ x ∈ nb, 1 ≤ x) :
    (greedyNaNPrerepair k nb).length = nb.length ∧ (greedyNaNPrerepair k nb).sum = nb.sum + k ∧
      ∀ x ∈ greedyNaNPrerepair k nb, 1 ≤ x := by
  induction k generalizing nb with
  | zero => exact ⟨rfl, by simp [greedyNaNPrerepair], hpos⟩
  | succ k ih =>
    simp only [greedyNaNPrerepair]
    have hlt : 0 < nb.length := List.length_pos_of_ne_nil hne
    have hne' : incrAt 0 nb ≠ [] := by
      intro h0
      have := congrArg List.length h0
      rw [incrAt_length] at this
      exact hne (List.length_eq_zero_iff.mp this)
    obtain ⟨h1, h2, h3⟩ := ih (incrAt 0 nb) hne' (incrAt_pos 0 nb hpos)
    refine ⟨by rw [h1, incrAt_length], ?_, h3⟩
    rw [h2, incrAt_sum 0 nb hlt]; omega

section
variable {α : Type} [Add α] [Sub α] [Mul α] [Div α] [OfNat α 0] [NatCast α]
  [LT α] [LE α] [DecidableLT α] [DecidableLE α]

/-- `nhaploblk_chrom` refuses exactly the requests below the chromosome count -/
theorem nhaploblkChromOfLenPrerepair_error_iff (n : Nat) (gl : List α) :
    (∃ e, nhaploblkChromOfLenPrerepair n gl = .error e) ↔ n < gl.length := by
  unfold nhaploblkChromOfLenPrerepair
  by_cases h : n < gl.length
  · simp [h]
  · simp only [h, if_false]
    constructor
    · rintro ⟨e, he⟩
      split at he <;> cases he
    · intro h'; exact absurd h' (by simpa using h)

theorem nhaploblkChromOfLenPrerepair_error (n : Nat) (gl : List α) (e : String)
    (h : nhaploblkChromOfLenPrerepair n gl = .error e) : e = "value" := by
  unfold nhaploblkChromOfLenPrerepair at h
  by_cases hn : n < gl.length
  · simp only [hn, if_true, Except.error.injEq] at h
    exact h.symm
  · simp only [hn, if_false] at h
    split at h <;> cases h

/-- what an accepted request returns: one count per chromosome, each at least one, the counts
    summing to the request -/
theorem nhaploblkChromOfLenPrerepair_ok (n : Nat) (gl : List α) (nb : List Nat) (hne : gl ≠ [])
    (h : nhaploblkChromOfLenPrerepair n gl = .ok nb) :
    nb.length = gl.length ∧ nb.sum = n ∧ ∀ x ∈ nb, 1 ≤ x := by
  unfold nhaploblkChromOfLenPrerepair at h
  by_cases hn : n < gl.length
  · simp [hn] at h
  · simp only [hn, if_false] at h
    have hge : gl.length ≤ n := Nat.le_of_not_lt hn
    have hones : (List.replicate gl.length 1 : List Nat) ≠ [] := by
      intro h0
      have := congrArg List.length h0
      simp only [List.length_replicate, List.length_nil] at this
      exact hne (List.length_eq_zero_iff.mp this)
    have hpos : ∀ x ∈ (List.replicate gl.length 1 : List Nat), 1 ≤ x := by
      intro x hx; rw [List.eq_of_mem_replicate hx]
    have hsum : (List.replicate gl.length 1 : List Nat).sum = gl.length := by simp
    split at h
    · obtain ⟨h1, h2, h3⟩ := greedyNaNPrerepair_spec (n - gl.length) _ hones hpos
      injection h with h; subst h
      refine ⟨by rw [h1]; simp, ?_, h3⟩
      rw [h2, hsum]; omega
    · obtain ⟨h1, h2, h3⟩ := greedyPrerepair_spec (ideal n gl) (n - gl.length) _ (by simp [ideal]) hones hpos
      injection h with h; subst h
      refine ⟨by rw [h1]; simp, ?_, h3⟩
      rw [h2, hsum]; omega

end

end Haplo
