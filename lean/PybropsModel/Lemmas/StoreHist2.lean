/-
Round 2: (a) the current writer under the weakest history condition we can state — the leaves written
form a prefix-free set and later writes do not reach into the fields of the object read back;
(b) the exact characterisation of the pre-repair writer: every dataset holds the value of the last
non-`None` write to its path.
-/
import PybropsModel.Lemmas.StoreHist

set_option autoImplicit false

namespace Store

/-! ### (a) later writes that do not reach into the object -/

/-- no field name claimed by a later write (`w'.g ++ [k']`, whether it carries a value, `None` or a
    dictionary) is path-comparable with a field name of `w` -/
def Unreached (w : Write) (H2 : List Write) : Prop :=
  ∀ w' ∈ H2, ∀ kv' ∈ w'.obj, ∀ kv ∈ w.obj,
    ¬ (w'.g ++ [kv'.1]) <+: (w.g ++ [kv.1]) ∧ ¬ (w.g ++ [kv.1]) <+: (w'.g ++ [kv'.1])

theorem semItems_untouched (fixed : Bool) (g : Path) (q : Path) (o : Obj) :
    ∀ (s : Sem), (∀ kv ∈ o, ¬ (g ++ [kv.1]) <+: q) → semItems fixed g o s q = s q := by
  induction o with
  | nil => intro s _; rfl
  | cons kv r ih =>
    intro s h
    obtain ⟨k, it⟩ := kv
    by_cases hb : it = .bad
    · subst hb; rfl
    · rw [semItems_cons fixed g k it r s hb, ih _ (fun e he => h e (List.mem_cons_of_mem _ he))]
      exact itemEffect_other fixed g k it s q (h (k, it) List.mem_cons_self)

theorem semHist_untouched (fixed : Bool) (q : Path) (H : List Write) :
    ∀ (s : Sem), (∀ w ∈ H, ∀ kv ∈ w.obj, ¬ (w.g ++ [kv.1]) <+: q) → semHist fixed H s q = s q := by
  induction H with
  | nil => intro s _; rfl
  | cons w r ih =>
    intro s h
    show semHist fixed r (semItems fixed w.g w.obj s) q = s q
    rw [ih _ (fun e he => h e (List.mem_cons_of_mem _ he))]
    exact semItems_untouched fixed w.g q w.obj s (h w List.mem_cons_self)

/-- **current writer, general form**: the leaves of the history are prefix-free (so nothing fails)
    and no later write reaches into the fields of `w`; then the region at `w.g` holds exactly `w.obj` -/
theorem region_after_write (H1 H2 : List Write) (w : Write)
    (hpf : PrefixFree (Touched (H1 ++ w :: H2))) (hnb : ∀ w' ∈ H1 ++ w :: H2, NoBad w'.obj)
    (hnd : KeysNodup w.obj) (hun : Unreached w H2) :
    ∃ f, runHistG true [] (H1 ++ w :: H2) = (f, none) ∧ (keys f).Nodup ∧ Region f w.g w.obj := by
  obtain ⟨f, h1, h2, h3⟩ := runHist_sem hpf true (H1 ++ w :: H2) [] (good_nil _) (histIn_touched _ hnb)
  refine ⟨f, h1, h2.nodup, ?_⟩
  intro k it hm q hq
  have hwin : w ∈ H1 ++ w :: H2 := by simp
  rw [h3, semHist_append]
  show semHist true H2 (semItems true w.g w.obj (semHist true H1 (lookup []))) q = _
  rw [semHist_untouched true q H2 _ (fun w' hw' kv' hkv' hpre => by
    obtain ⟨n1, n2⟩ := hun w' hw' kv' hkv' (k, it) hm
    rcases comparable_of_prefix hpre hq with h | h
    · exact n1 h
    · exact n2 h)]
  exact semItems_fixed_region w.g w.obj _ (hnb w hwin) hnd k it hm q hq

/-- separated groups with no later write to the same location are a special case -/
theorem unreached_of_separated {H1 H2 : List Write} {w : Write} (hsep : Separated (H1 ++ w :: H2))
    (hlast : ∀ w' ∈ H2, w'.g ≠ w.g) : Unreached w H2 := by
  intro w' hw' kv' _ kv _
  have hwin : w ∈ H1 ++ w :: H2 := by simp
  have hw'in : w' ∈ H1 ++ w :: H2 := by simp [hw']
  constructor
  · intro h
    exact not_prefix_of_separated hsep hwin hw'in (hlast w' hw') (List.prefix_append _ _)
      ((List.prefix_append _ _).trans h)
  · intro h
    have h1 : w.g <+: w'.g ++ [kv'.1] := (List.prefix_append _ _).trans h
    have h2 : w'.g <+: w'.g ++ [kv'.1] := List.prefix_append _ _
    exact not_prefix_of_separated hsep hwin hw'in (hlast w' hw') h1 h2

/-! ### (b) the pre-repair writer, exactly -/

def flatL (p : Path) (kvs : List (String × Option DS)) : List (Path × DS) :=
  kvs.filterMap (fun kv => kv.2.map (fun d => (p ++ [kv.1], d)))

/-- the dataset writes one `to_hdf5` call performs, in order: the non-`None` leaves -/
def flat (g : Path) : Obj → List (Path × DS)
  | [] => []
  | (k, .data d) :: r => (g ++ [k], d) :: flat g r
  | (k, .dict kvs) :: r => flatL (g ++ [k]) kvs ++ flat g r
  | (_, .none) :: r => flat g r
  | (_, .bad) :: _ => []

def flatH (H : List Write) : List (Path × DS) := H.flatMap (fun w => flat w.g w.obj)

/-- value of the last write to exactly `q` -/
def lastWrite : List (Path × DS) → Path → Option DS
  | [], _ => none
  | (p, d) :: r, q =>
    match lastWrite r q with
    | some d' => some d'
    | none => if q = p then some d else none

def applyFlat : List (Path × DS) → Sem → Sem
  | [], s => s
  | (p, d) :: r, s => applyFlat r (upd s p d)

theorem applyFlat_append (a b : List (Path × DS)) (s : Sem) :
    applyFlat (a ++ b) s = applyFlat b (applyFlat a s) := by
  induction a generalizing s with
  | nil => rfl
  | cons e a ih => obtain ⟨p, d⟩ := e; exact ih _

theorem lastWrite_append (a b : List (Path × DS)) (q : Path) :
    lastWrite (a ++ b) q = match lastWrite b q with
      | some d => some d
      | none => lastWrite a q := by
  induction a with
  | nil => simp [lastWrite]; cases lastWrite b q <;> rfl
  | cons e a ih =>
    obtain ⟨p, d⟩ := e
    show (match lastWrite (a ++ b) q with | some d' => some d' | none => if q = p then some d else none) = _
    rw [ih]
    cases lastWrite b q with
    | some d' => rfl
    | none => rfl

theorem semLeaves_eq_applyFlat (p : Path) (kvs : List (String × Option DS)) :
    ∀ (s : Sem), semLeaves p kvs s = applyFlat (flatL p kvs) s := by
  induction kvs with
  | nil => intro s; rfl
  | cons kv r ih =>
    intro s
    obtain ⟨k, v⟩ := kv
    cases v with
    | none => simpa [flatL, semLeaves] using ih s
    | some d =>
      show semLeaves p r (upd s (p ++ [k]) d) = _
      rw [ih]
      simp [flatL, applyFlat]

theorem semItems_eq_applyFlat (g : Path) (o : Obj) (hnb : NoBad o) :
    ∀ (s : Sem), semItems false g o s = applyFlat (flat g o) s := by
  induction o with
  | nil => intro s; rfl
  | cons kv r ih =>
    intro s
    obtain ⟨k, it⟩ := kv
    have hnbr : NoBad r := fun e he => hnb e (List.mem_cons_of_mem _ he)
    cases it with
    | bad => exact absurd rfl (hnb _ List.mem_cons_self)
    | none => exact ih hnbr s
    | data d => exact ih hnbr _
    | dict kvs =>
      show semItems false g r (semLeaves (g ++ [k]) kvs s) = applyFlat (flatL (g ++ [k]) kvs ++ flat g r) s
      rw [ih hnbr, semLeaves_eq_applyFlat, applyFlat_append]

theorem semHist_eq_applyFlat (H : List Write) (hnb : ∀ w ∈ H, NoBad w.obj) :
    ∀ (s : Sem), semHist false H s = applyFlat (flatH H) s := by
  induction H with
  | nil => intro s; rfl
  | cons w r ih =>
    intro s
    show semHist false r (semItems false w.g w.obj s) = applyFlat (flat w.g w.obj ++ flatH r) s
    rw [ih (fun e he => hnb e (List.mem_cons_of_mem _ he)), semItems_eq_applyFlat _ _ (hnb w List.mem_cons_self),
      applyFlat_append]

theorem suppIn_upd {S : Path → Prop} {s : Sem} (hs : SuppIn S s) {p : Path} (hp : S p) (d : DS) :
    SuppIn S (upd s p d) := by
  intro q hq
  rcases upd_supp s p d q hq with h | h
  · exact h ▸ hp
  · exact hs q h

/-- on a prefix-free set of paths, a sequence of dataset writes leaves at every path the value of
    the last write to it, and otherwise what was there -/
theorem applyFlat_lookup {S : Path → Prop} (hS : PrefixFree S) (ws : List (Path × DS)) :
    ∀ (s : Sem), SuppIn S s → (∀ e ∈ ws, S e.1) → ∀ q,
      applyFlat ws s q = match lastWrite ws q with
        | some d => some d
        | none => s q := by
  induction ws with
  | nil => intro s _ _ q; rfl
  | cons e r ih =>
    intro s hs hin q
    obtain ⟨p, d⟩ := e
    have hp : S p := hin (p, d) List.mem_cons_self
    show applyFlat r (upd s p d) q = match (match lastWrite r q with
      | some d' => some d' | none => if q = p then some d else none) with
      | some d => some d | none => s q
    rw [ih _ (suppIn_upd hs hp d) (fun x hx => hin x (List.mem_cons_of_mem _ hx)) q]
    cases lastWrite r q with
    | some d' => rfl
    | none =>
      show upd s p d q = _
      unfold upd
      by_cases hq : q = p
      · simp [hq]
      · simp only [hq, if_false]
        by_cases hpre : p <+: q
        · rw [if_pos hpre]
          by_contra hc
          have : S q := hs q (fun h => hc h.symm)
          exact hq (hS p q hp this hpre).symm
        · rw [if_neg hpre]

theorem flat_paths (g : Path) (o : Obj) : (flat g o).map Prod.fst = leafPaths g o := by
  induction o with
  | nil => rfl
  | cons kv r ih =>
    obtain ⟨k, it⟩ := kv
    cases it with
    | bad => rfl
    | none => exact ih
    | data d => simp [flat, leafPaths, ih]
    | dict kvs =>
      simp only [flat, leafPaths, List.map_append, ih]
      congr 1
      unfold flatL leafPathsL
      rw [List.map_filterMap]
      apply List.filterMap_congr
      intro kv _
      cases kv.2 <;> rfl

theorem flatH_touched (H : List Write) : ∀ e ∈ flatH H, Touched H e.1 := by
  intro e he
  unfold flatH at he
  obtain ⟨w, hw, hew⟩ := List.mem_flatMap.mp he
  refine ⟨w, hw, ?_⟩
  rw [← flat_paths]
  exact List.mem_map_of_mem (f := Prod.fst) hew

/-- **the pre-repair writer, exactly**: after any history whose written leaves are prefix-free, no
    call has failed and every dataset of the file holds the value of the last non-`None` write to
    its path (a `None` field wrote nothing and deleted nothing) -/
theorem prerepair_lookup (H : List Write) (hpf : PrefixFree (Touched H)) (hnb : ∀ w ∈ H, NoBad w.obj) :
    ∃ f, runHistG false [] H = (f, none) ∧ ∀ q, lookup f q = lastWrite (flatH H) q := by
  obtain ⟨f, h1, _, h3⟩ := runHist_sem hpf false H [] (good_nil _) (histIn_touched _ hnb)
  refine ⟨f, h1, fun q => ?_⟩
  rw [h3, semHist_eq_applyFlat H hnb,
    applyFlat_lookup hpf (flatH H) (lookup []) (fun q hq => absurd rfl hq) (flatH_touched H) q]
  cases lastWrite (flatH H) q <;> rfl

end Store
