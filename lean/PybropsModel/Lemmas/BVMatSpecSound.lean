/-
Helper lemmas for `C15.spec_sound`: at zero tolerance every clause of the Spec (Model/BVMatSpec.lean)
holds of the model's own observations of `fromNumpyCol sq c`.
-/
import PybropsModel.Lemmas.BVMatInherit
import PybropsModel.Model.BVMatSpec
set_option autoImplicit false
set_option linter.unusedSectionVars false
set_option linter.unusedVariables false

namespace BVMat
namespace Spec
section field
variable {α : Type} [Field α] [LinearOrder α] [IsStrictOrderedRing α]

/-- zero tolerance -/
def tol0 : Tol α := { rel := 0, abs := 0 }

theorem absR_zero : absR (0 : α) = 0 := by simp [absR]

theorem closeR0_self (mag a : α) : closeR tol0 mag a a = true := by
  simp [closeR, tol0, absR_zero]

theorem closeO0_self (mag : α) (x : Option α) : closeO tol0 mag x x = true := by
  cases x with
  | none => rfl
  | some a => exact closeR0_self mag a

theorem rawOk0_self (mag : α) (c : Col α) : rawOk tol0 mag c c = true := by
  unfold rawOk
  simp only [beq_self_eq_true, Bool.true_and, List.all_eq_true]
  intro p hp
  obtain ⟨i, hi, rfl⟩ := List.mem_iff_getElem.mp hp
  simp only [List.getElem_zip]
  exact closeO0_self mag _

/-- the part of the square-root contract the Spec relies on -/
structure SqrtContract (sq : α → α) : Prop where
  zero : sq 0 = 0
  one : sq 1 = 1
  nonneg : ∀ x, 0 ≤ sq x
  sq_mul : ∀ v, 0 ≤ v → sq v * sq v = v

theorem SqrtContract.ne_zero {sq : α → α} (h : SqrtContract sq) {v : α} (hv0 : 0 ≤ v) (hv : v ≠ 0) : sq v ≠ 0 := by
  intro h0
  have := h.sq_mul v hv0
  rw [h0, mul_zero] at this
  exact hv this.symm

theorem isEmpty_false_of_ne {β : Type} {l : List β} (h : l ≠ []) : l.isEmpty = false := by
  cases l with
  | nil => exact absurd rfl h
  | cons a l => rfl

/-- standardisation clause at zero tolerance -/
theorem standardisedCol0 (sq sqT : α → α) (hc : SqrtContract sq) (mag : α) (c : Col α) :
    standardisedCol sqT tol0 mag c (fromNumpyCol sq c).mat c (fromNumpyCol sq c).loc (fromNumpyCol sq c).scale
      = none := by
  by_cases h : present c = []
  · rw [fromNumpyCol_of_nil sq h]
    simp [standardisedCol, h]
  · have he := isEmpty_false_of_ne h
    have hiso : ((fromNumpyCol sq c).mat.map Option.isNone != c.map Option.isNone) = false := by
      rw [fromNumpyCol_of_ne sq h]
      simp only [bne_eq_false_iff_eq]
      exact isNone_map _ _ (standardise_none _ _) (standardise_some _ _)
    have hpm := present_mat_fromNumpyCol sq h
    rw [scaleOf_eq_guardScale hc.zero] at hpm
    have hv0 := varL_nonneg (present c)
    unfold standardisedCol
    rw [he, hiso]
    simp only [Bool.false_eq_true, if_false]
    have hloc : (fromNumpyCol sq c).loc = some (meanL (present c)) := by rw [fromNumpyCol_of_ne sq h]
    have hscale : (fromNumpyCol sq c).scale = some (guardScale (sq (varL (present c)))) := by
      rw [fromNumpyCol_of_ne sq h, scaleOf_eq_guardScale hc.zero]
    rw [hloc, closeO0_self]
    simp only [Bool.not_true, Bool.false_eq_true, if_false]
    by_cases hv : varL (present c) = 0
    · rw [if_pos hv]
      have hs1 : (fromNumpyCol sq c).scale = some 1 := by rw [hscale, hv, hc.zero, guardScale_zero]
      have hall : (present (fromNumpyCol sq c).mat).all (fun x => decide (absR x ≤ tol0.abs * mag)) = true := by
        rw [hpm, List.all_eq_true]
        intro y hy
        obtain ⟨x, hx, rfl⟩ := List.mem_map.mp hy
        have hxm := eq_mean_of_varL_eq_zero h hv x hx
        rw [hv, hc.zero, guardScale_zero, hxm]
        simp [stdFn, absR_zero, tol0]
      by_cases hec : exactConst c = true
      · simp [hec, hs1, hall]
      · simp [hec]
    · rw [if_neg hv]
      have hsne := hc.ne_zero hv0 hv
      have hsq := hc.sq_mul _ hv0
      rw [hscale, guardScale_of_ne hsne]
      have hpos : 0 < sq (varL (present c)) := lt_of_le_of_ne (hc.nonneg _) (Ne.symm hsne)
      have hclose : stdClose sqT tol0 mag (sq (varL (present c))) (varL (present c)) = true := by
        unfold stdClose
        rw [hsq, closeR0_self]; rfl
      have hmean : meanL (present (fromNumpyCol sq c).mat) = 0 := by
        rw [hpm, guardScale_of_ne hsne]; exact meanL_map_stdFn_self h _
      have hvar : varL (present (fromNumpyCol sq c).mat) = 1 := by
        rw [hpm, guardScale_of_ne hsne, varL_map_stdFn_self h]
        generalize varL (present c) = v at hsne hsq ⊢
        generalize sq v = s at hsne hsq ⊢
        rw [← hsq]; field_simp
      simp [hpos, hmean, hvar, absR_zero, tol0]
      exact hclose

/-! ### the expected summaries are the model's raw-column reductions -/

theorem hasNaN_eq (c : Col α) : hasNaN c = !(c.all Option.isSome) := by
  unfold hasNaN
  induction c with
  | nil => rfl
  | cons a c ih => cases a <;> simp [ih]

theorem expectProp_listMax (c : Col α) : expectProp listMax c = colMax c := by
  unfold expectProp colMax dense
  rw [hasNaN_eq]
  by_cases h : c.all Option.isSome = true
  · simp only [h, Bool.not_true, Bool.false_eq_true, if_false, if_true]
    cases present c <;> rfl
  · simp [h]

theorem expectProp_listMin (c : Col α) : expectProp listMin c = colMin c := by
  unfold expectProp colMin dense
  rw [hasNaN_eq]
  by_cases h : c.all Option.isSome = true
  · simp only [h, Bool.not_true, Bool.false_eq_true, if_false, if_true]
    cases present c <;> rfl
  · simp [h]

theorem expectProp_ptp (c : Col α) : expectProp (fun l => listMax l - listMin l) c = colPtp c := by
  unfold colPtp
  rw [← expectProp_listMax, ← expectProp_listMin]
  unfold expectProp
  by_cases h : hasNaN c = true
  · simp [h, osub, lift2]
  · simp only [h, Bool.false_eq_true, if_false]
    cases present c <;> rfl

theorem statOk0_prop (mag : α) (f : List α → α) (c : Col α) : statOk tol0 mag f c (expectProp f c) = true := by
  unfold statOk
  by_cases h : hasNaN c = true
  · simp [h, closeO0_self]
  · simp [h, closeO0_self]

/-- `tmean(unscale=True)` = `nanmean`: the NaN-ignoring convention when values are missing -/
theorem statOk0_nanmean (mag : α) (c : Col α) : statOk tol0 mag meanL c (nanmean c) = true := by
  unfold statOk
  have hign : expectIgn meanL c = nanmean c := by
    unfold expectIgn nanmean
    cases present c <;> rfl
  by_cases h : hasNaN c = true
  · simp [h, hign, closeO0_self]
  · simp only [h, Bool.false_eq_true, if_false]
    have : expectProp meanL c = nanmean c := by
      unfold expectProp nanmean
      simp only [h, Bool.false_eq_true, if_false]
      cases present c <;> rfl
    rw [this, closeO0_self]

/-- the moment clause for the mean accepts `nanmean` of the raw column, missing values or not -/
theorem expectIgn_meanL (c : Col α) : expectIgn meanL c = nanmean c := by
  unfold expectIgn nanmean
  cases present c <;> rfl

theorem momentOk0_nanmean (mag : α) (c : Col α) : momentOk tol0 mag meanL c (nanmean c) = true := by
  unfold momentOk
  rw [expectIgn_meanL, closeO0_self]

theorem firstNaN_of_hasNaN {c : Col α} (h : hasNaN c = true) : ∃ i, firstNaN c = some i := by
  induction c with
  | nil => simp [hasNaN] at h
  | cons a c ih =>
    cases a with
    | none => exact ⟨0, rfl⟩
    | some a =>
      have : hasNaN c = true := by simpa [hasNaN] using h
      obtain ⟨i, hi⟩ := ih this
      exact ⟨i + 1, by simp [firstNaN, hi]⟩

theorem firstNaN_none_of_not {c : Col α} (h : hasNaN c = false) : firstNaN c = none := by
  induction c with
  | nil => rfl
  | cons a c ih =>
    cases a with
    | none => simp [hasNaN] at h
    | some a =>
      have : hasNaN c = false := by simpa [hasNaN] using h
      simp [firstNaN, ih this]

theorem eq_map_some_of_not_hasNaN {c : Col α} (h : hasNaN c = false) : c = (present c).map some := by
  induction c with
  | nil => rfl
  | cons a c ih =>
    cases a with
    | none => simp [hasNaN] at h
    | some a =>
      have : hasNaN c = false := by simpa [hasNaN] using h
      rw [present_cons_some, List.map_cons, ← ih this]

theorem argOk0_colArgmax (mag : α) (c : Col α) (hne : c ≠ []) :
    argOk tol0 mag listMax c (some (colArgmax c)) = true := by
  unfold argOk
  by_cases h : hasNaN c = true
  · obtain ⟨i, hi⟩ := firstNaN_of_hasNaN h
    simp [h, colArgmax, hi]
  · have h' : hasNaN c = false := by simpa using h
    have hc := eq_map_some_of_not_hasNaN h'
    have hf := firstNaN_none_of_not h'
    cases hp : present c with
    | nil => rw [hp] at hc; exact absurd hc hne
    | cons a l =>
      have hspec := argmaxGo_spec [a] l a 0 rfl (by intro x hx; simp at hx; exact hx.le) (by intro j hj; omega)
      have hidx : colArgmax c = argmaxGo a 0 1 l := by unfold colArgmax; rw [hf, hp]
      have hget : c[colArgmax c]? = some (some (maxL a l)) := by
        rw [hidx]
        conv_lhs => rw [hc, hp]
        rw [List.getElem?_map]
        have := hspec.1
        simp only [List.singleton_append, List.length_singleton] at this
        rw [this]; rfl
      simp only [h', Bool.false_and, Bool.false_or]
      rw [hget]
      simp only [listMax]
      exact closeR0_self mag _

theorem argOk0_colArgmin (mag : α) (c : Col α) (hne : c ≠ []) :
    argOk tol0 mag listMin c (some (colArgmin c)) = true := by
  unfold argOk
  by_cases h : hasNaN c = true
  · obtain ⟨i, hi⟩ := firstNaN_of_hasNaN h
    simp [h, colArgmin, hi]
  · have h' : hasNaN c = false := by simpa using h
    have hc := eq_map_some_of_not_hasNaN h'
    have hf := firstNaN_none_of_not h'
    cases hp : present c with
    | nil => rw [hp] at hc; exact absurd hc hne
    | cons a l =>
      have hspec := argminGo_spec [a] l a 0 rfl (by intro x hx; simp at hx; exact hx.ge) (by intro j hj; omega)
      have hidx : colArgmin c = argminGo a 0 1 l := by unfold colArgmin; rw [hf, hp]
      have hget : c[colArgmin c]? = some (some (minL a l)) := by
        rw [hidx]
        conv_lhs => rw [hc, hp]
        rw [List.getElem?_map]
        have := hspec.1
        simp only [List.singleton_append, List.length_singleton] at this
        rw [this]; rfl
      simp only [h', Bool.false_and, Bool.false_or]
      rw [hget]
      simp only [listMin]
      exact closeR0_self mag _

theorem stdOk0_nanstd (sq sqT : α → α) (hc : SqrtContract sq) (mag : α) (c : Col α) :
    stdOk sqT tol0 mag c (nanstd sq c) = true := by
  unfold stdOk nanstd nanvar
  by_cases h : present c = []
  · simp [h]
  · have he := isEmpty_false_of_ne h
    have hv0 := varL_nonneg (present c)
    simp only [he, Bool.false_eq_true, if_false, Option.map_some, Bool.not_false, Bool.true_and]
    by_cases hv : varL (present c) = 0
    · rw [if_pos hv, hv, hc.zero]; simp [tol0]
    · rw [if_neg hv]
      have : stdClose sqT tol0 mag (sq (varL (present c))) (varL (present c)) = true := by
        unfold stdClose
        rw [hc.sq_mul _ hv0, closeR0_self]; rfl
      simp [this, hc.nonneg]

theorem varOk0_nanvar (sqT : α → α) (mag : α) (c : Col α) : varOk sqT tol0 mag c (nanvar c) = true := by
  unfold varOk nanvar
  by_cases h : present c = []
  · simp [h]
  · have he := isEmpty_false_of_ne h
    simp only [he, Bool.false_eq_true, if_false, Bool.not_false, Bool.true_and]
    by_cases hv : varL (present c) = 0
    · rw [if_pos hv, hv]; simp [tol0, absR_zero]
    · rw [if_neg hv]
      unfold varClose
      rw [closeR0_self]; rfl

end field
end Spec
end BVMat
