/-
Helper lemmas for C13: each estimator of `Model/Coancestry.lean` succeeds on well-shaped input and
its entries are the expected finite sums (raw `Finset` form, used by the `_def`, symmetry and
positive-semidefiniteness theorems of Props/C13.lean).
-/
import PybropsModel.Lemmas.CoancestryEst
set_option autoImplicit false
set_option linter.unusedSectionVars false

namespace Coancestry
open Finset

section field
variable {α : Type} [Field α]

/-! ### molecular -/

theorem molecular_two_entry (n m : Nat) (X : List (List α)) (hX : Rect n m X) (hm : m ≠ 0) :
    ∃ G, molecular 2 m X = .ok G ∧ Rect n n G ∧ ∀ i < n, ∀ j < n,
      entry G i j = 1 + (1 / (m : α)) * ∑ l ∈ range m, (entry X i l - 1) * (entry X j l - 1) := by
  have hX1 : Rect n m (mapMat (fun x : α => x - 1) X) := hX.mapMat _
  have hG : Rect n n (mulT (mapMat (fun x : α => x - 1) X) (mapMat (fun x : α => x - 1) X)) := hX1.mulT hX1
  refine ⟨mapMat (fun s => 1 + (1 / (m : α)) * s)
      (mulT (mapMat (fun x : α => x - 1) X) (mapMat (fun x : α => x - 1) X)),
    by simp [molecular, hm], hG.mapMat _, ?_⟩
  intro i hi j hj
  rw [entry_mapMat _ _ n n i j hG hi hj, entry_mulT _ _ n n m i j hX1 hX1 hi hj]
  congr 2
  apply Finset.sum_congr rfl
  intro l hl
  have hl' := Finset.mem_range.mp hl
  rw [entry_mapMat _ X n m i l hX hi hl', entry_mapMat _ X n m j l hX hj hl']

theorem molecular_one_entry (n m : Nat) (X : List (List α)) (hX : Rect n m X) (hm : m ≠ 0) :
    ∃ G, molecular 1 m X = .ok G ∧ Rect n n G ∧ ∀ i < n, ∀ j < n,
      entry G i j = ((1 + 1) * (1 / (m : α))) *
        (∑ l ∈ range m, entry X i l * entry X j l + ∑ l ∈ range m, (1 - entry X i l) * (1 - entry X j l)) := by
  have hY : Rect n m (mapMat (fun x : α => 1 - x) X) := hX.mapMat _
  have hXX : Rect n n (mulT X X) := hX.mulT hX
  have hYY : Rect n n (mulT (mapMat (fun x : α => 1 - x) X) (mapMat (fun x : α => 1 - x) X)) := hY.mulT hY
  have hS : Rect n n (zipMat (fun a b : α => a + b) (mulT X X)
      (mulT (mapMat (fun x : α => 1 - x) X) (mapMat (fun x : α => 1 - x) X))) := by
    refine ⟨by simp [zipMat, hXX.1, hYY.1], ?_⟩
    intro r hr
    simp only [zipMat] at hr
    obtain ⟨k, hk, rfl⟩ := List.mem_iff_getElem.mp hr
    simp only [List.length_zipWith, lt_min_iff] at hk
    simp [hXX.2 _ (List.getElem_mem hk.1), hYY.2 _ (List.getElem_mem hk.2)]
  refine ⟨mapMat (fun s => ((1 + 1) * (1 / (m : α))) * s) (zipMat (fun a b : α => a + b) (mulT X X)
      (mulT (mapMat (fun x : α => 1 - x) X) (mapMat (fun x : α => 1 - x) X))),
    by simp [molecular, hm], hS.mapMat _, ?_⟩
  intro i hi j hj
  rw [entry_mapMat _ _ n n i j hS hi hj, entry_zipMat _ _ _ n n i j hXX hYY hi hj,
    entry_mulT _ _ n n m i j hX hX hi hj, entry_mulT _ _ n n m i j hY hY hi hj]
  congr 2
  apply Finset.sum_congr rfl
  intro l hl
  have hl' := Finset.mem_range.mp hl
  rw [entry_mapMat _ X n m i l hX hi hl', entry_mapMat _ X n m j l hX hj hl']

theorem molecular_ok_ploidy (ploidy m : Nat) (X : List (List α)) (G : List (List α))
    (h : molecular ploidy m X = .ok G) : m ≠ 0 ∧ (ploidy = 1 ∨ ploidy = 2) := by
  unfold molecular at h
  by_cases hm : m = 0
  · simp [hm] at h
  · by_cases h1 : ploidy = 1
    · exact ⟨hm, Or.inl h1⟩
    · by_cases h2 : ploidy = 2
      · exact ⟨hm, Or.inr h2⟩
      · simp [hm, h1, h2] at h

end field

section decfield
variable {α : Type} [Field α] [DecidableEq α] [LT α] [DecidableLT α]

/-- the indicator of equality of two binary alleles -/
theorem ind_binary (a b : α) (ha : a = 0 ∨ a = 1) (hb : b = 0 ∨ b = 1) :
    (if a = b then (1 : α) else 0) = a * b + (1 - a) * (1 - b) := by
  rcases ha with rfl | rfl <;> rcases hb with rfl | rfl <;> simp

/-! ### VanRaden -/

theorem vanraden_entry (ploidy n m : Nat) (p : List α) (X : List (List α)) (hX : Rect n m X)
    (hp : p.length = m)
    (hden : (ploidy : α) * ∑ k ∈ range m, p.getD k 0 * (1 - p.getD k 0) ≠ 0) :
    ∃ G, vanraden ploidy p X = .ok G ∧ Rect n n G ∧ ∀ i < n, ∀ j < n,
      entry G i j = (1 / ((ploidy : α) * ∑ k ∈ range m, p.getD k 0 * (1 - p.getD k 0))) *
        ∑ l ∈ range m, (entry X i l - p.getD l 0 * (ploidy : α)) * (entry X j l - p.getD l 0 * (ploidy : α)) := by
  have hZ : Rect n m (center ploidy p X) := hX.center ploidy p hp
  have hG : Rect n n (mulT (center ploidy p X) (center ploidy p X)) := hZ.mulT hZ
  have hd := dot_one_sub p m hp
  refine ⟨mapMat (fun s => (1 / ((ploidy : α) * Np.dot p (p.map (fun x => 1 - x)))) * s)
    (mulT (center ploidy p X) (center ploidy p X)), ?_, hG.mapMat _, ?_⟩
  · unfold vanraden
    simp only [hd]
    rw [if_neg hden]
  · intro i hi j hj
    rw [entry_mapMat _ _ n n i j hG hi hj, entry_mulT _ _ n n m i j hZ hZ hi hj, hd]
    congr 1
    apply Finset.sum_congr rfl
    intro l hl
    have hl' := Finset.mem_range.mp hl
    rw [entry_center ploidy p X n m i l hX hp hi hl', entry_center ploidy p X n m j l hX hp hj hl']

theorem vanraden_ok_den (ploidy m : Nat) (p : List α) (X G : List (List α)) (hp : p.length = m)
    (h : vanraden ploidy p X = .ok G) :
    (ploidy : α) * ∑ k ∈ range m, p.getD k 0 * (1 - p.getD k 0) ≠ 0 := by
  unfold vanraden at h
  rw [← dot_one_sub p m hp]
  intro h0
  simp [h0] at h

/-! ### Yang (closed form) -/

theorem yangDen_any_iff (ploidy m : Nat) (p : List α) (hp : p.length = m) :
    (yangDen ploidy p).any (fun x => decide (x = 0)) = true ↔
      ∃ k < m, (ploidy : α) * p.getD k 0 * (1 - p.getD k 0) = 0 := by
  rw [List.any_eq_true]
  constructor
  · rintro ⟨x, hx, h0⟩
    obtain ⟨k, hk, rfl⟩ := List.mem_iff_getElem.mp hx
    have hk' : k < m := by simpa [yangDen, hp] using hk
    refine ⟨k, hk', ?_⟩
    rw [← getD_yangDen ploidy p m k hp hk']
    simpa [List.getD_eq_getElem?_getD, List.getElem?_eq_getElem hk] using h0
  · rintro ⟨k, hk, h0⟩
    have hk' : k < (yangDen ploidy p).length := by simpa [yangDen, hp] using hk
    refine ⟨(yangDen ploidy p)[k], List.getElem_mem hk', ?_⟩
    rw [← getD_yangDen ploidy p m k hp hk] at h0
    simpa [List.getD_eq_getElem?_getD, List.getElem?_eq_getElem hk'] using h0

theorem yangClosed_entry (ploidy n m : Nat) (p : List α) (X : List (List α)) (hX : Rect n m X)
    (hp : p.length = m) (hm : m ≠ 0)
    (hd : ∀ k < m, (ploidy : α) * p.getD k 0 * (1 - p.getD k 0) ≠ 0) :
    ∃ G, yangClosed ploidy m p X = .ok G ∧ Rect n n G ∧ ∀ i < n, ∀ j < n,
      entry G i j = (1 / (m : α)) * ∑ l ∈ range m,
        (entry X i l - p.getD l 0 * (ploidy : α)) / ((ploidy : α) * p.getD l 0 * (1 - p.getD l 0))
          * (entry X j l - p.getD l 0 * (ploidy : α)) := by
  have hZ : Rect n m (center ploidy p X) := hX.center ploidy p hp
  have hdl : (yangDen ploidy p).length = m := by simp [yangDen, hp]
  have hZd : Rect n m ((center ploidy p X).map (fun r => List.zipWith (fun z dk : α => z / dk) r (yangDen ploidy p))) :=
    hZ.zipRows _ _ hdl
  have hG := hZd.mulT hZ
  have hany : (yangDen ploidy p).any (fun x => decide (x = 0)) = false := by
    rw [Bool.eq_false_iff, Ne, yangDen_any_iff ploidy m p hp]
    rintro ⟨k, hk, h0⟩
    exact hd k hk h0
  refine ⟨mapMat (fun x => (1 / (m : α)) * x)
    (mulT ((center ploidy p X).map (fun r => List.zipWith (fun z dk : α => z / dk) r (yangDen ploidy p)))
      (center ploidy p X)), ?_, hG.mapMat _, ?_⟩
  · unfold yangClosed
    simp only [hany, hm]
    simp
  · intro i hi j hj
    rw [entry_mapMat _ _ n n i j hG hi hj, entry_mulT _ _ n n m i j hZd hZ hi hj]
    congr 1
    apply Finset.sum_congr rfl
    intro l hl
    have hl' := Finset.mem_range.mp hl
    rw [entry_zipRows _ _ _ n m i l hZ hdl hi hl', entry_center ploidy p X n m i l hX hp hi hl',
      entry_center ploidy p X n m j l hX hp hj hl', getD_yangDen ploidy p m l hp hl']

theorem yangClosed_ok (ploidy m : Nat) (p : List α) (X G : List (List α)) (hp : p.length = m)
    (h : yangClosed ploidy m p X = .ok G) :
    m ≠ 0 ∧ ∀ k < m, (ploidy : α) * p.getD k 0 * (1 - p.getD k 0) ≠ 0 := by
  unfold yangClosed at h
  by_cases hany : (yangDen ploidy p).any (fun x => decide (x = 0)) = true
  · simp [hany] at h
  · by_cases hm : m = 0
    · exfalso
      have hany' : (yangDen ploidy p).any (fun x => decide (x = 0)) = false := Bool.eq_false_iff.mpr hany
      simp only [hany', hm] at h
      simp at h
    · refine ⟨hm, fun k hk h0 => hany ?_⟩
      exact (yangDen_any_iff ploidy m p hp).mpr ⟨k, hk, h0⟩

/-! ### Yang as written (with the square roots), for any `sqrt` with `sqrt x * sqrt x = x` on positives -/

theorem yang_entry [HasSqrt α] (ploidy n m : Nat) (p : List α) (X : List (List α)) (hX : Rect n m X)
    (hp : p.length = m) (hm : m ≠ 0)
    (hd : ∀ k < m, (ploidy : α) * p.getD k 0 * (1 - p.getD k 0) ≠ 0) :
    ∃ G, yang ploidy m p X = .ok G ∧ Rect n n G ∧ ∀ i < n, ∀ j < n,
      entry G i j = (1 / (m : α)) * ∑ l ∈ range m,
        ((entry X i l - p.getD l 0 * (ploidy : α)) * (1 / HasSqrt.sqrt ((ploidy : α) * p.getD l 0 * (1 - p.getD l 0))))
          * ((entry X j l - p.getD l 0 * (ploidy : α)) * (1 / HasSqrt.sqrt ((ploidy : α) * p.getD l 0 * (1 - p.getD l 0)))) := by
  have hZ : Rect n m (center ploidy p X) := hX.center ploidy p hp
  have hdl : (yangDen ploidy p).length = m := by simp [yangDen, hp]
  have hsl : ((yangDen ploidy p).map (fun x => 1 / HasSqrt.sqrt x)).length = m := by simp [hdl]
  have hZs : Rect n m ((center ploidy p X).map (fun r => List.zipWith (fun a b : α => a * b) r
      ((yangDen ploidy p).map (fun x => 1 / HasSqrt.sqrt x)))) := hZ.zipRows _ _ hsl
  have hG := hZs.mulT hZs
  have hany : (yangDen ploidy p).any (fun x => decide (x = 0)) = false := by
    rw [Bool.eq_false_iff, Ne, yangDen_any_iff ploidy m p hp]
    rintro ⟨k, hk, h0⟩
    exact hd k hk h0
  refine ⟨mapMat (fun x => (1 / (m : α)) * x)
    (mulT ((center ploidy p X).map (fun r => List.zipWith (fun a b : α => a * b) r
        ((yangDen ploidy p).map (fun x => 1 / HasSqrt.sqrt x))))
      ((center ploidy p X).map (fun r => List.zipWith (fun a b : α => a * b) r
        ((yangDen ploidy p).map (fun x => 1 / HasSqrt.sqrt x))))), ?_, hG.mapMat _, ?_⟩
  · unfold yang
    simp only [hany, hm]
    simp
  · intro i hi j hj
    rw [entry_mapMat _ _ n n i j hG hi hj, entry_mulT _ _ n n m i j hZs hZs hi hj]
    congr 1
    apply Finset.sum_congr rfl
    intro l hl
    have hl' := Finset.mem_range.mp hl
    have hs : ((yangDen ploidy p).map (fun x => 1 / HasSqrt.sqrt x)).getD l 0
        = 1 / HasSqrt.sqrt ((ploidy : α) * p.getD l 0 * (1 - p.getD l 0)) := by
      rw [getD_map' _ _ l 0 0 (hdl ▸ hl'), getD_yangDen ploidy p m l hp hl']
    rw [entry_zipRows _ _ _ n m i l hZ hsl hi hl', entry_zipRows _ _ _ n m j l hZ hsl hj hl',
      entry_center ploidy p X n m i l hX hp hi hl', entry_center ploidy p X n m j l hX hp hj hl', hs]

theorem yang_ok [HasSqrt α] (ploidy m : Nat) (p : List α) (X G : List (List α)) (hp : p.length = m)
    (h : yang ploidy m p X = .ok G) :
    m ≠ 0 ∧ ∀ k < m, (ploidy : α) * p.getD k 0 * (1 - p.getD k 0) ≠ 0 := by
  unfold yang at h
  by_cases hany : (yangDen ploidy p).any (fun x => decide (x = 0)) = true
  · simp [hany] at h
  · by_cases hm : m = 0
    · exfalso
      have hany' : (yangDen ploidy p).any (fun x => decide (x = 0)) = false := Bool.eq_false_iff.mpr hany
      simp only [hany', hm] at h
      simp at h
    · refine ⟨hm, fun k hk h0 => hany ?_⟩
      exact (yangDen_any_iff ploidy m p hp).mpr ⟨k, hk, h0⟩

/-! ### generalised weighted -/

theorem gw_entry (ploidy n m : Nat) (w p : List α) (X : List (List α)) (hX : Rect n m X)
    (hp : p.length = m) (hw : w.length = m) :
    Rect n n (gw ploidy w p X) ∧ ∀ i < n, ∀ j < n,
      entry (gw ploidy w p X) i j = ∑ l ∈ range m,
        (entry X i l - (ploidy : α) * p.getD l 0) * w.getD l 0 * (entry X j l - (ploidy : α) * p.getD l 0) := by
  have hZ : Rect n m (centerGW ploidy p X) := hX.centerGW ploidy p hp
  have hZw : Rect n m ((centerGW ploidy p X).map (fun r => List.zipWith (fun a b : α => a * b) r w)) :=
    hZ.zipRows _ _ hw
  refine ⟨hZw.mulT hZ, ?_⟩
  intro i hi j hj
  unfold gw
  rw [entry_mulT _ _ n n m i j hZw hZ hi hj]
  apply Finset.sum_congr rfl
  intro l hl
  have hl' := Finset.mem_range.mp hl
  rw [entry_zipRows _ _ _ n m i l hZ hw hi hl', entry_centerGW ploidy p X n m i l hX hp hi hl',
    entry_centerGW ploidy p X n m j l hX hp hj hl']

end decfield

end Coancestry
