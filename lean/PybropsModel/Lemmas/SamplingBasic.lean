/-
Helper lemmas for C17 shared by the four sampling functions: rearrangements (`isPerm`, `applyPerm`),
counting through an injective relabelling.
-/
import Mathlib.Tactic
import PybropsModel.Model.Sampling
set_option autoImplicit false

namespace Sampling

theorem toOption_eq_some {ε β : Type} (e : Except ε β) (b : β) : e.toOption = some b ↔ e = .ok b := by
  cases e <;> simp [Except.toOption]

theorem isPerm_iff (perm : List Nat) (n : Nat) : isPerm perm n = true ↔ perm.Perm (List.range n) := by
  unfold isPerm
  simp only [Bool.and_eq_true, beq_iff_eq, List.all_eq_true, List.mem_range, List.contains_iff_mem]
  constructor
  · rintro ⟨hl, hm⟩
    have hsub : List.range n ⊆ perm := fun i hi => hm i (List.mem_range.mp hi)
    have hsp := List.subperm_of_subset (List.nodup_range (n := n)) hsub
    exact (hsp.perm_of_length_le (by simp [hl])).symm
  · intro h
    exact ⟨by simpa using h.length_eq, fun i hi => h.mem_iff.mpr (List.mem_range.mpr hi)⟩

theorem take_range_filterMap {β : Type} (l : List β) (k : Nat) (hk : k ≤ l.length) :
    (List.range k).filterMap (fun i => l[i]?) = l.take k := by
  induction k with
  | zero => simp
  | succ k ih =>
    rw [List.range_succ, List.filterMap_append, ih (by omega)]
    have hk' : k < l.length := by omega
    rw [List.take_add_one]
    simp [hk']

theorem applyPerm_perm {β : Type} (perm : List Nat) (l : List β) (h : perm.Perm (List.range l.length)) :
    (applyPerm perm l).Perm l := by
  unfold applyPerm Np.take
  have := h.filterMap (fun i => l[i]?)
  rw [take_range_filterMap l l.length le_rfl, List.take_length] at this
  exact this

theorem applyPerm_length {β : Type} (perm : List Nat) (l : List β) (h : perm.Perm (List.range l.length)) :
    (applyPerm perm l).length = l.length := (applyPerm_perm perm l h).length_eq

/-- counting through a relabelling that is injective on the labels that occur -/
theorem count_map_injOn {β γ : Type} [DecidableEq β] [DecidableEq γ] (f : β → γ) (l : List β) (r : β)
    (hinj : ∀ x ∈ l, f x = f r → x = r) : (l.map f).count (f r) = l.count r := by
  induction l with
  | nil => simp
  | cons x l ih =>
    rw [List.map_cons, List.count_cons, List.count_cons, ih (fun y hy => hinj y (List.mem_cons_of_mem _ hy))]
    by_cases hx : x = r
    · subst hx; simp
    · have : f x ≠ f r := fun h => hx (hinj x (List.mem_cons_self) h)
      simp [hx, this]

theorem take_length_of_lt {β : Type} (idx : List Nat) (a : List β) (h : ∀ i ∈ idx, i < a.length) :
    (Np.take idx a).length = idx.length := by
  unfold Np.take
  induction idx with
  | nil => simp
  | cons x idx ih =>
    have hx : x < a.length := h x List.mem_cons_self
    simp [List.filterMap_cons, hx, ih (fun i hi => h i (List.mem_cons_of_mem _ hi))]

theorem take_mem {β : Type} (idx : List Nat) (a : List β) (v : β) (hv : v ∈ Np.take idx a) : v ∈ a := by
  unfold Np.take at hv
  obtain ⟨i, _, hi⟩ := List.mem_filterMap.mp hv
  exact List.mem_of_getElem? hi

/-- counting values = counting indices when the entries of `a` are distinct -/
theorem take_count {β : Type} [DecidableEq β] (idx : List Nat) (a : List β) (hnd : a.Nodup)
    (h : ∀ i ∈ idx, i < a.length) (i : Nat) (hi : i < a.length) :
    (Np.take idx a).count a[i] = idx.count i := by
  unfold Np.take
  induction idx with
  | nil => simp
  | cons x idx ih =>
    have hx : x < a.length := h x List.mem_cons_self
    rw [List.filterMap_cons, List.getElem?_eq_getElem hx]
    simp only [List.count_cons, ih (fun j hj => h j (List.mem_cons_of_mem _ hj))]
    congr 1
    by_cases hxi : x = i
    · subst hxi; simp
    · have : a[x] ≠ a[i] := fun he => hxi ((List.Nodup.getElem_inj_iff hnd).mp he)
      simp [hxi, this]

end Sampling
